/-
  The async in-memory WRITE handle (`AsyncWritableFile`, src/async_vfs/impls/memory.rs:94-167)
  as a state machine over the `World`, next to the sync `WHandle` of VfsModel/Handle.lean.

  Rust struct (memory.rs:94-98)      model (`AWHandle`)
    content: Cursor<Vec<u8>>          `buf` (= `content.get_ref()`), `pos` (= `content.position()`)
    destination: String               `key`
    fs: Arc<RwLock<AsyncMemoryFsImpl>>  `leaf` (index of the leaf in the world)
  The struct has no flags: nothing records that a flush is in progress, a `Pending` poll leaves the
  struct untouched.

  Where the Rust code can return `Pending`:
    poll_write  (101-109)  never — it forwards to async-std's `Cursor<Vec<u8>>::poll_write`
                           (async-std-1.12.0 src/io/cursor.rs:245-252) = `Poll::Ready(std Cursor::write)`
    poll_flush  (111-137)  exactly when `self.fs.try_write()` is `None` (117-123): some other task
                           holds the lock. The oracle (`List Bool`, `true` = the lock is taken now)
                           decides. Nothing is changed on that path (the waker is woken, that is all).
    poll_close  (138-145)  never — `Cursor::poll_close` = `Cursor::poll_flush` = `Ready(Ok(()))`
                           (cursor.rs:254-260). NOTE: it does NOT publish.
    Drop        (148-167)  not a poll: `block_on(self.fs.write())` waits for the lock, then publishes.

  The async filesystem keeps no timestamps (`AsyncMemoryFile` = file_type + content, memory.rs:367-
  372; `metadata` answers `None` three times, 313-319). In the model an async in-memory entry carries
  `.unset` three times, and the async world that corresponds to a sync world is its image under
  `eraseTS` (all timestamps forgotten).

  Core-only imports, total computable definitions (this file is meant to be linked into the driver).
-/
import VfsModel.Leaf
namespace Vfs

/-- `Poll<io::Result<T>>` -/
inductive PollR (α : Type) where
  | pending
  | ready (r : Res α)
  deriving DecidableEq, Repr, Inhabited

/-- consume one oracle decision: `true` = the awaited resource is not available now
(`try_write()` returned `None`; an inner stream or future returned `Pending`). An exhausted oracle
answers `false` for ever: every future completes eventually. -/
def askA : List Bool → Bool × List Bool
  | [] => (false, [])
  | b :: rest => (b, rest)

/-! ### forgetting the timestamps -/

def Entry.eraseTS (e : Entry) : Entry :=
  { e with created := .unset, modified := .unset, accessed := .unset }

def FMap.eraseTS (m : FMap) : FMap := m.map fun kv => (kv.1, kv.2.eraseTS)

def Leaf.eraseTS (l : Leaf) : Leaf := { l with files := l.files.eraseTS }

def World.eraseTS (w : World) : World := { w with leaves := w.leaves.map Leaf.eraseTS }

def Meta.eraseTS (m : Meta) : Meta :=
  { m with created := .unset, modified := .unset, accessed := .unset }

/-- `AsyncMemoryFile { file_type: File, content }` -/
def afileEntry (content : Bytes) : Entry :=
  { ftype := .file, content := content, created := .unset, modified := .unset, accessed := .unset }

/-- `AsyncMemoryFile { file_type: Directory, content: Default::default() }` -/
def adirEntry : Entry :=
  { ftype := .dir, content := [], created := .unset, modified := .unset, accessed := .unset }

/-- the publication of `poll_flush` (memory.rs:124-135) and of `Drop` (153-165): the buffer
replaces the entry under the destination key — only while that entry is still a file -/
def amemPublish (files : FMap) (key : Str) (buf : Bytes) : FMap :=
  match files.find? key with
  | some e => if e.ftype = .file then files.insert key (afileEntry buf) else files
  | none => files

/-! ### the handle -/

structure AWHandle where
  leaf : Nat
  key : Str
  buf : Bytes
  pos : Nat
  deriving DecidableEq, Repr, Inhabited

namespace AWHandle

/-- the sync `WritableFile` with the same cursor and destination -/
def toSync (h : AWHandle) : WHandle :=
  { leaf := h.leaf, key := h.key, kind := .memFile, buf := h.buf, pos := h.pos }

/-- `poll_write` (memory.rs:101-109): std's `Cursor<Vec<u8>>::write`, always `Ready` -/
def pollWrite (h : AWHandle) (bs : Bytes) (w : World) : PollR Nat × AWHandle × World :=
  (.ready (.ok bs.length),
   { h with buf := cursorWrite h.buf h.pos bs, pos := h.pos + bs.length }, w)

/-- `poll_flush` (memory.rs:111-137) -/
def pollFlush (h : AWHandle) (o : List Bool) (w : World) :
    PollR Unit × AWHandle × World × List Bool :=
  -- 117: `this.fs.try_write()`
  let (busy, o) := askA o
  if busy then (.pending, h, w, o)            -- 119-122
  else
    match w.leaf? h.leaf with
    | some l =>                                -- 124-136
      (.ready (.ok ()), h, w.setLeafFiles h.leaf (amemPublish l.files h.key h.buf), o)
    | none => (.ready (.ok ()), h, w, o)       -- (a handle without a filesystem does not arise)

/-- `poll_close` (memory.rs:138-145): the cursor's `poll_close`; nothing is published -/
def pollClose (h : AWHandle) (w : World) : PollR Unit × AWHandle × World :=
  (.ready (.ok ()), h, w)

/-- `Drop::drop` (memory.rs:148-167): the buffer is swapped out of the cursor (150-151), the lock
is awaited by blocking (152), the buffer is published (153-165) -/
def dropA (h : AWHandle) (w : World) : AWHandle × World :=
  match w.leaf? h.leaf with
  | some l => ({ h with buf := [] }, w.setLeafFiles h.leaf (amemPublish l.files h.key h.buf))
  | none => ({ h with buf := [] }, w)

end AWHandle

/-! ### scripts of calls on one handle -/

/-- the calls a holder of `Box<dyn Write + Send + Unpin>` can make (there is NO seek: the async
`create_file`/`append_file` return `dyn Write`, not `dyn SeekAndWrite`), and the drop that ends
the handle's life -/
inductive WOp where
  | write (bs : Bytes)
  | flush
  | close
  | drop
  deriving DecidableEq, Repr, Inhabited

/-- what a completed call returned -/
inductive WOut where
  | wrote (r : Res Nat)
  | flushed (r : Res Unit)
  | closed (r : Res Unit)
  | dropped
  deriving DecidableEq, Repr, Inhabited

namespace AWHandle

/-- one poll of the future of one call. `none` = `Pending` (nothing happened); otherwise the
outcome and the handle afterwards (`none` once dropped) -/
def pollOp (h : AWHandle) (op : WOp) (o : List Bool) (w : World) :
    Option (WOut × Option AWHandle) × World × List Bool :=
  match op with
  | .write bs =>
    match h.pollWrite bs w with
    | (.ready r, h', w') => (some (.wrote r, some h'), w', o)
    | (.pending, _, w') => (none, w', o)
  | .flush =>
    match h.pollFlush o w with
    | (.ready r, h', w', o') => (some (.flushed r, some h'), w', o')
    | (.pending, _, w', o') => (none, w', o')
  | .close =>
    match h.pollClose w with
    | (.ready r, h', w') => (some (.closed r, some h'), w', o)
    | (.pending, _, w') => (none, w', o)
  | .drop => (some (.dropped, none), (h.dropA w).2, o)

/-- poll the script: every call is polled until it is `Ready`, at most `fuel` polls in all.
Returns the outcomes of the completed calls and the world -/
def driveW : Nat → AWHandle → List WOp → List Bool → World → List WOut × World
  | 0, _, _, _, w => ([], w)
  | _ + 1, _, [], _, w => ([], w)
  | fuel + 1, h, op :: ops, o, w =>
    match h.pollOp op o w with
    | (none, w', o') => driveW fuel h (op :: ops) o' w'
    | (some (out, some h'), w', o') =>
      let (outs, w'') := driveW fuel h' ops o' w'
      (out :: outs, w'')
    | (some (out, none), w', _) => ([out], w')

end AWHandle

namespace WHandle

/-- the same call on the sync handle. The sync `WritableFile` has no `close`; what corresponds to
the async `close` is "nothing" (the sync cursor's flush without publication) -/
def syncOp (h : WHandle) (op : WOp) (w : World) : WOut × Option WHandle × World :=
  match op with
  | .write bs =>
    match h.write bs w with
    | (.ok (n, h'), w') => (.wrote (.ok n), some h', w')
    | (.err k p, w') => (.wrote (.err k p), some h, w')
    | (.panic, w') => (.wrote .panic, some h, w')
  | .flush =>
    match h.flush w with
    | (r, w') => (.flushed r, some h, w')
  | .close => (.closed (.ok ()), some h, w)
  | .drop => (.dropped, none, (h.drop w).2)

/-- run a script on the sync handle (the calls after a drop do not happen) -/
def syncRun : WHandle → List WOp → World → List WOut × World
  | _, [], w => ([], w)
  | h, op :: ops, w =>
    match h.syncOp op w with
    | (out, some h', w') =>
      let (outs, w'') := syncRun h' ops w'
      (out :: outs, w'')
    | (out, none, w') => ([out], w')

end WHandle

end Vfs
