/-
  Adapters: `AltrootFS` (src/impls/altroot.rs) and `OverlayFS` (src/impls/overlay.rs) as
  functions producing an `FS` from inner `VPath`s; plus the harness-side wrappers
  (`recordFS`, `faultFS`) that sit between an adapter and its inner layer.
-/
import VfsModel.PathOps
namespace Vfs

/-! ### AltrootFS -/
namespace Altroot

/-- `AltrootFS::path` (altroot.rs:24-32) -/
def path (root : VPath) (p : Str) : Res VPath :=
  if p = [] then .ok root
  else if p.head? = some '/' then root.join (p.drop 1)
  else root.join p

def fs (root : VPath) : FS where
  readDir p := do
    let q ← M.ret (path root p)
    let l ← q.readDir
    pure (l.map fun c => filenameInternal c.path)
  createDir p := do (← M.ret (path root p)).createDir
  openFile p := do (← M.ret (path root p)).openFile
  createFile p := do (← M.ret (path root p)).createFile
  appendFile p := do (← M.ret (path root p)).appendFile
  metadata p := do (← M.ret (path root p)).metadata
  setCreationTime p t := do (← M.ret (path root p)).setCreationTime t
  setModificationTime p t := do (← M.ret (path root p)).setModificationTime t
  setAccessTime p t := do (← M.ret (path root p)).setAccessTime t
  exists_ p :=
    match path root p with
    | .ok q => q.exists_
    | _ => pure false
  removeFile p := do (← M.ret (path root p)).removeFile
  removeDir p := do (← M.ret (path root p)).removeDir
  copyFile s d :=
    if d = [] then M.failK .notSupported
    else do
      let sp ← M.ret (path root s)
      let dp ← M.ret (path root d)
      sp.copyFile dp
  moveFile _ _ := M.failK .notSupported
  moveDir _ _ := M.failK .notSupported

end Altroot

/-! ### OverlayFS -/
namespace Overlay

def woSuffix : Str := ['_', 'w', 'o']
def woDir : Str := ['.', 'w', 'h', 'i', 't', 'e', 'o', 'u', 't']

/-- `&path[1..]` — panics on the empty string (callers guard) -/
def tail1 (p : Str) : Str := p.drop 1

instance : Inhabited VPath := ⟨{ fs := default, fsId := 0, path := [] }⟩

/-- `&self.layers[0]` (`OverlayFS::new` panics on an empty slice, so there is one) -/
def writeLayer (layers : List VPath) : VPath := layers.headD default

/-- `whiteout_path` (overlay.rs:57-63) -/
def whiteoutPath (layers : List VPath) (p : Str) : Res VPath :=
  if p = [] then (writeLayer layers).join (woDir ++ '/' :: woSuffix)
  else (writeLayer layers).join (woDir ++ '/' :: (tail1 p ++ woSuffix))

/-- `write_path` -/
def writePath (layers : List VPath) (p : Str) : Res VPath :=
  if p = [] then .ok (writeLayer layers) else (writeLayer layers).join (tail1 p)

def firstExisting (p : Str) : List VPath → M (Option VPath)
  | [] => pure none
  | l :: rest => do
    let lp ← M.ret (l.join (tail1 p))
    if (← lp.exists_) then pure (some lp) else firstExisting p rest

/-- `read_path` (overlay.rs:28-47) -/
def readPath (layers : List VPath) (p : Str) : M VPath :=
  if p = [] then pure (writeLayer layers)
  else do
    let wo ← M.ret (whiteoutPath layers p)
    if (← wo.exists_) then M.failK .fileNotFound
    else
      match (← firstExisting p layers) with
      | some lp => pure lp
      | none =>
        let rp ← M.ret ((writeLayer layers).join (tail1 p))
        if !(← rp.exists_) then M.failK .fileNotFound else pure rp

/-- `exists` (overlay.rs) -/
def exists_ (layers : List VPath) (p : Str) : M Bool := do
  let wo ← M.ret (whiteoutPath layers p)
  if (← wo.exists_) then pure false
  else fun w =>
    match readPath layers p w with
    | (.ok q, w') => q.exists_ w'
    | (.err .fileNotFound _, w') => (.ok false, w')
    | (.err k pth, w') => (.err k pth, w')
    | (.panic, w') => (.panic, w')

/-- `ensure_has_parent` (overlay.rs:65-75) -/
def ensureHasParent (layers : List VPath) (p : Str) : M Unit :=
  if '/' ∈ p then do
    let parent := parentInternal p
    if (← exists_ layers parent) then
      let wp ← M.ret (writePath layers parent)
      wp.createDirAll
    else M.failK .other
  else M.failK .other

/-- union of the listings of all layers that have the directory -/
def mergeListings (actual : Str) : List VPath → List Str → M (List Str)
  | [], acc => pure acc
  | l :: rest, acc => do
    let lp ← M.ret (l.join actual)
    if (← lp.isDir) then
      let cs ← lp.readDir
      let names := cs.map fun c => filenameInternal c.path
      mergeListings actual rest (names.foldl (fun a n => if n ∈ a then a else a ++ [n]) acc)
    else mergeListings actual rest acc

def stripWo (name : Str) : Option Str :=
  if woSuffix.isSuffixOf name then some (name.take (name.length - 3)) else none

def clearWhiteout (layers : List VPath) (p : Str) : M Unit := do
  let wo ← M.ret (whiteoutPath layers p)
  if (← wo.exists_) then wo.removeFile else pure ()

def addWhiteout (layers : List VPath) (p : Str) : M Unit := do
  let wo ← M.ret (whiteoutPath layers p)
  wo.parent.createDirAll
  let h ← wo.createFile
  h.drop

/-- `read_dir` (overlay.rs) -/
def readDir (layers : List VPath) (p : Str) : M (List Str) := do
  let actual := if p ≠ [] then tail1 p else p
  let rp ← readPath layers p
  if !(← rp.exists_) then M.failK .fileNotFound
  else if !(← rp.isDir) then M.failK .other
  else
    let entries ← mergeListings actual layers []
    -- the bookkeeping directory is not an entry of the overlay
    let entries := if p = [] then entries.filter (fun n => n ≠ woDir) else entries
    let wp ← M.ret ((writeLayer layers).join (woDir ++ p))
    if (← wp.exists_) then
      let marks ← wp.readDir
      let removed := marks.filterMap fun m => stripWo (filenameInternal m.path)
      pure (entries.filter fun n => n ∉ removed)
    else pure entries

def fs (layers : List VPath) : FS where
  readDir p := readDir layers p
  createDir p := do
    ensureHasParent layers p
    if (← exists_ layers p) then
      let md ← (← readPath layers p).metadata
      M.failK (if md.ftype = .file then .fileExists else .dirExists)
    else
      (← M.ret (writePath layers p)).createDir
      clearWhiteout layers p
  openFile p := do (← readPath layers p).openFile
  createFile p := do
    ensureHasParent layers p
    if (← exists_ layers p) then
      let md ← (← readPath layers p).metadata
      if md.ftype = .dir then M.failK .other
    let h ← (← M.ret (writePath layers p)).createFile
    clearWhiteout layers p
    pure h
  appendFile p := do
    let wp ← M.ret (writePath layers p)
    if !(← wp.exists_) then
      ensureHasParent layers p
      let rp ← readPath layers p
      if !(← rp.isFile) then M.failK .other
      rp.copyFile wp
    wp.appendFile
  metadata p := do (← readPath layers p).metadata
  setCreationTime p t := do (← M.ret (writePath layers p)).setCreationTime t
  setModificationTime p t := do (← M.ret (writePath layers p)).setModificationTime t
  setAccessTime p t := do (← M.ret (writePath layers p)).setAccessTime t
  exists_ p := exists_ layers p
  removeFile p := do
    let _ ← readPath layers p
    let wp ← M.ret (writePath layers p)
    if (← wp.exists_) then wp.removeFile
    addWhiteout layers p
  removeDir p := do
    let _ ← readPath layers p
    if (← readDir layers p) ≠ [] then M.failK .other
    let wp ← M.ret (writePath layers p)
    if (← wp.exists_) then wp.removeDir
    addWhiteout layers p
  copyFile _ _ := M.failK .notSupported
  moveFile _ _ := M.failK .notSupported
  moveDir _ _ := M.failK .notSupported

end Overlay

/-! ### harness-side wrappers (public-trait wrappers in /verif/harness/src/wrappers.rs) -/

def logCall (tag : Nat) (m : Method) (p : Str) (p2 : Str := []) : M Unit := fun w =>
  (.ok (), { w with log := w.log ++ [{ tag := tag, method := m, path := p, path2 := p2 }] })

/-- `RecordingFs`: appends (tag, method, path) to the ghost log, then forwards -/
def recordFS (tag : Nat) (inner : FS) : FS where
  readDir p := do logCall tag .readDir p; inner.readDir p
  createDir p := do logCall tag .createDir p; inner.createDir p
  openFile p := do logCall tag .openFile p; inner.openFile p
  createFile p := do logCall tag .createFile p; inner.createFile p
  appendFile p := do logCall tag .appendFile p; inner.appendFile p
  metadata p := do logCall tag .metadata p; inner.metadata p
  setCreationTime p t := do logCall tag .setCreationTime p; inner.setCreationTime p t
  setModificationTime p t := do logCall tag .setModificationTime p; inner.setModificationTime p t
  setAccessTime p t := do logCall tag .setAccessTime p; inner.setAccessTime p t
  exists_ p := do logCall tag .exists_ p; inner.exists_ p
  removeFile p := do logCall tag .removeFile p; inner.removeFile p
  removeDir p := do logCall tag .removeDir p; inner.removeDir p
  copyFile s d := do logCall tag .copyFile s d; inner.copyFile s d
  moveFile s d := do logCall tag .moveFile s d; inner.moveFile s d
  moveDir s d := do logCall tag .moveDir s d; inner.moveDir s d

/-- fault plan: count the call; when the countdown reaches zero the call fails with an
injected I/O error and the inner filesystem is not reached -/
def faultGate {α} (m : M α) : M α := fun w =>
  match w.fault with
  | some 0 => (fail .io, { w with fault := none, fired := true })
  | some (k + 1) => m { w with fault := some k }
  | none => m w

/-- `FaultFs` -/
def faultFS (inner : FS) : FS where
  readDir p := faultGate (inner.readDir p)
  createDir p := faultGate (inner.createDir p)
  openFile p := faultGate (inner.openFile p)
  createFile p := faultGate (inner.createFile p)
  appendFile p := faultGate (inner.appendFile p)
  metadata p := faultGate (inner.metadata p)
  setCreationTime p t := faultGate (inner.setCreationTime p t)
  setModificationTime p t := faultGate (inner.setModificationTime p t)
  setAccessTime p t := faultGate (inner.setAccessTime p t)
  exists_ p := faultGate (inner.exists_ p)
  removeFile p := faultGate (inner.removeFile p)
  removeDir p := faultGate (inner.removeDir p)
  copyFile s d := faultGate (inner.copyFile s d)
  moveFile s d := faultGate (inner.moveFile s d)
  moveDir s d := faultGate (inner.moveDir s d)

end Vfs
