/-
  Adapters: `AltrootFS` (src/impls/altroot.rs) and `OverlayFS` (src/impls/overlay.rs) as
  functions producing an `FS` from inner `VPath`s; plus the harness-side wrappers
  (`recordFS`, `faultFS`) that sit between an adapter and its inner layer.
-/
import VfsModel.PathOps
namespace Vfs

/-! ### AltrootFS -/
namespace Altroot

/-- `AltrootFS::path` (altroot.rs:24-32) -/
def path (root : VPath) (p : Str) : Res VPath :=
  if p = [] then .ok root
  else if p.head? = some '/' then root.join (p.drop 1)
  else root.join p

def fs (root : VPath) : FS where
  readDir p := do
    let q ← M.ret (path root p)
    let l ← q.readDir
    pure (l.map fun c => filenameInternal c.path)
  createDir p := do (← M.ret (path root p)).createDir
  openFile p := do (← M.ret (path root p)).openFile
  createFile p := do (← M.ret (path root p)).createFile
  appendFile p := do (← M.ret (path root p)).appendFile
  metadata p := do (← M.ret (path root p)).metadata
  setCreationTime p t := do (← M.ret (path root p)).setCreationTime t
  setModificationTime p t := do (← M.ret (path root p)).setModificationTime t
  setAccessTime p t := do (← M.ret (path root p)).setAccessTime t
  exists_ p :=
    match path root p with
    | .ok q => q.exists_
    | _ => pure false
  removeFile p := do (← M.ret (path root p)).removeFile
  removeDir p := do (← M.ret (path root p)).removeDir
  copyFile s d :=
    if d = [] then M.failK .notSupported
    else do
      let sp ← M.ret (path root s)
      let dp ← M.ret (path root d)
      sp.copyFile dp
  moveFile _ _ := M.failK .notSupported
  moveDir _ _ := M.failK .notSupported

end Altroot

/-! ### OverlayFS -/
namespace Overlay

def woSuffix : Str := ['_', 'w', 'o']
def woDir : Str := ['.', 'w', 'h', 'i', 't', 'e', 'o', 'u', 't']

/-- `&path[1..]` — panics on the empty string (callers guard) -/
def tail1 (p : Str) : Str := p.drop 1

instance : Inhabited VPath := ⟨{ fs := default, fsId := 0, path := [] }⟩

/-- `&self.layers[0]` (`OverlayFS::new` panics on an empty slice, so there is one) -/
def writeLayer (layers : List VPath) : VPath := layers.headD default

/-- `whiteout_path` (overlay.rs:57-63) -/
def whiteoutPath (layers : List VPath) (p : Str) : Res VPath :=
  if p = [] then (writeLayer layers).join (woDir ++ '/' :: woSuffix)
  else (writeLayer layers).join (woDir ++ '/' :: (tail1 p ++ woSuffix))

/-- `write_path` -/
def writePath (layers : List VPath) (p : Str) : Res VPath :=
  if p = [] then .ok (writeLayer layers) else (writeLayer layers).join (tail1 p)

def firstExisting (p : Str) : List VPath → M (Option VPath)
  | [] => pure none
  | l :: rest => do
    let lp ← M.ret (l.join (tail1 p))
    if (← lp.exists_) then pure (some lp) else firstExisting p rest

/-- `read_path` (overlay.rs:28-47) -/
def readPath (layers : List VPath) (p : Str) : M VPath :=
  if p = [] then pure (writeLayer layers)
  else do
    let wo ← M.ret (whiteoutPath layers p)
    let marked ← wo.exists_
    if marked then M.failK .fileNotFound
    else do
      let found ← firstExisting p layers
      match found with
      | some lp => pure lp
      | none => do
        let rp ← M.ret ((writeLayer layers).join (tail1 p))
        let ex ← rp.exists_
        if !ex then M.failK .fileNotFound else pure rp

/-- `exists` (overlay.rs) -/
def exists_ (layers : List VPath) (p : Str) : M Bool := do
  let wo ← M.ret (whiteoutPath layers p)
  let marked ← wo.exists_
  if marked then pure false
  else fun w =>
    match readPath layers p w with
    | (.ok q, w') => q.exists_ w'
    | (.err .fileNotFound _, w') => (.ok false, w')
    | (.err k pth, w') => (.err k pth, w')
    | (.panic, w') => (.panic, w')

/-- `ensure_has_parent` (overlay.rs:65-75) -/
def ensureHasParent (layers : List VPath) (p : Str) : M Unit :=
  if '/' ∈ p then do
    let ex ← exists_ layers (parentInternal p)
    if ex then do
      -- the parent must be a directory of the merged view (a file cannot have children)
      let rp ← readPath layers (parentInternal p)
      let isd ← rp.isDir
      if isd then do
        let wp ← M.ret (writePath layers (parentInternal p))
        wp.createDirAll
      else M.failK .other
    else M.failK .other
  else M.failK .other

/-- union of the listings of all layers in which the path is a directory -/
def mergeListings (actual : Str) : List VPath → List Str → M (List Str)
  | [], acc => pure acc
  | l :: rest, acc => do
    let lp ← M.ret (l.join actual)
    let isd ← lp.isDir
    if isd then do
      let cs ← lp.readDir
      mergeListings actual rest
        ((cs.map fun c => filenameInternal c.path).foldl (fun a n => if n ∈ a then a else a ++ [n]) acc)
    else mergeListings actual rest acc

def stripWo (name : Str) : Option Str :=
  if woSuffix.isSuffixOf name then some (name.take (name.length - 3)) else none

def clearWhiteout (layers : List VPath) (p : Str) : M Unit := do
  let wo ← M.ret (whiteoutPath layers p)
  let ex ← wo.exists_
  if ex then wo.removeFile else pure ()

def addWhiteout (layers : List VPath) (p : Str) : M Unit := do
  let wo ← M.ret (whiteoutPath layers p)
  wo.parent.createDirAll
  let h ← wo.createFile
  h.drop

/-- `read_dir` (overlay.rs) -/
def readDir (layers : List VPath) (p : Str) : M (List Str) := do
  let rp ← readPath layers p
  let ex ← rp.exists_
  if !ex then M.failK .fileNotFound
  else do
    let isd ← rp.isDir
    if !isd then M.failK .other
    else do
      let entries ← mergeListings (if p ≠ [] then tail1 p else p) layers []
      let wp ← M.ret ((writeLayer layers).join (woDir ++ p))
      let wex ← wp.exists_
      if wex then do
        let marks ← wp.readDir
        -- the bookkeeping directory is not an entry of the overlay; marked names are removed
        pure ((if p = [] then entries.filter (fun n => n ≠ woDir) else entries).filter
          fun n => n ∉ marks.filterMap fun m => stripWo (filenameInternal m.path))
      else pure (if p = [] then entries.filter (fun n => n ≠ woDir) else entries)

/-- `clear_whiteout` (overlay.rs): as `clearWhiteout`, but a marker that vanished between the
probe and the removal (a concurrent caller cleared it in the meantime) is not an error -/
def clearWhiteoutT (layers : List VPath) (p : Str) : M Unit := do
  let wo ← M.ret (whiteoutPath layers p)
  let ex ← wo.exists_
  if ex then fun w =>
    match wo.removeFile w with
    | (.err .fileNotFound _, w') => (.ok (), w')
    | r => r
  else pure ()

/-- `create_dir`. When the write layer answers `DirectoryExists` although the overlay's own
`exists` said no (a concurrent `create_dir` won the race for the write layer and may not have
cleared the whiteout yet), the whiteout is cleared here too before the error is returned (fix of
finding O11) -/
def createDir (layers : List VPath) (p : Str) : M Unit := do
  ensureHasParent layers p
  let ex ← exists_ layers p
  if ex then do
    let q ← readPath layers p
    let md ← q.metadata
    M.failK (if md.ftype = .file then .fileExists else .dirExists)
  else do
    let wp ← M.ret (writePath layers p)
    fun w =>
      match wp.createDir w with
      | (.ok (), w') => clearWhiteoutT layers p w'
      | (.err .dirExists pth, w') =>
        match clearWhiteoutT layers p w' with
        | (.ok (), w'') => (.err .dirExists pth, w'')
        | (.err k pth', w'') => (.err k pth', w'')
        | (.panic, w'') => (.panic, w'')
      | (.err k pth, w') => (.err k pth, w')
      | (.panic, w') => (.panic, w')

/-- the type check of `create_file`: refuse a path that is a directory in some layer -/
def refuseDir (layers : List VPath) (p : Str) : M Unit := do
  let ex ← exists_ layers p
  if ex then do
    let q ← readPath layers p
    let md ← q.metadata
    if md.ftype = .dir then M.failK .other else pure ()
  else pure ()

/-- `create_file` -/
def createFile (layers : List VPath) (p : Str) : M WHandle := do
  ensureHasParent layers p
  refuseDir layers p
  let wp ← M.ret (writePath layers p)
  let h ← wp.createFile
  clearWhiteout layers p
  pure h

/-- the copy-up of `append_file` -/
def copyUp (layers : List VPath) (p : Str) (wp : VPath) : M Unit := do
  let ex ← wp.exists_
  if !ex then do
    ensureHasParent layers p
    let rp ← readPath layers p
    let isf ← rp.isFile
    if !isf then M.failK .other
    else rp.copyFile wp
  else pure ()

/-- `append_file` -/
def appendFile (layers : List VPath) (p : Str) : M WHandle := do
  let wp ← M.ret (writePath layers p)
  copyUp layers p wp
  wp.appendFile

/-- `remove_file` -/
def removeFile (layers : List VPath) (p : Str) : M Unit := do
  let _ ← readPath layers p
  let wp ← M.ret (writePath layers p)
  let ex ← wp.exists_
  (if ex then wp.removeFile else pure ())
  addWhiteout layers p

/-- `remove_dir` -/
def removeDir (layers : List VPath) (p : Str) : M Unit := do
  let _ ← readPath layers p
  let l ← readDir layers p
  if l ≠ [] then M.failK .other
  else do
    let wp ← M.ret (writePath layers p)
    let ex ← wp.exists_
    (if ex then wp.removeDir else pure ())
    addWhiteout layers p

def fs (layers : List VPath) : FS where
  readDir p := readDir layers p
  createDir p := createDir layers p
  openFile p := do
    let q ← readPath layers p
    q.openFile
  createFile p := createFile layers p
  appendFile p := appendFile layers p
  metadata p := do
    let q ← readPath layers p
    q.metadata
  setCreationTime p t := do
    let wp ← M.ret (writePath layers p)
    wp.setCreationTime t
  setModificationTime p t := do
    let wp ← M.ret (writePath layers p)
    wp.setModificationTime t
  setAccessTime p t := do
    let wp ← M.ret (writePath layers p)
    wp.setAccessTime t
  exists_ p := exists_ layers p
  removeFile p := removeFile layers p
  removeDir p := removeDir layers p
  copyFile _ _ := M.failK .notSupported
  moveFile _ _ := M.failK .notSupported
  moveDir _ _ := M.failK .notSupported

end Overlay

/-! ### harness-side wrappers (public-trait wrappers in /verif/harness/src/wrappers.rs) -/

def logCall (tag : Nat) (m : Method) (p : Str) (p2 : Str := []) : M Unit := fun w =>
  (.ok (), { w with log := w.log ++ [{ tag := tag, method := m, path := p, path2 := p2 }] })

/-- `RecordingFs`: appends (tag, method, path) to the ghost log, then forwards -/
def recordFS (tag : Nat) (inner : FS) : FS where
  readDir p := do logCall tag .readDir p; inner.readDir p
  createDir p := do logCall tag .createDir p; inner.createDir p
  openFile p := do logCall tag .openFile p; inner.openFile p
  createFile p := do logCall tag .createFile p; inner.createFile p
  appendFile p := do logCall tag .appendFile p; inner.appendFile p
  metadata p := do logCall tag .metadata p; inner.metadata p
  setCreationTime p t := do logCall tag .setCreationTime p; inner.setCreationTime p t
  setModificationTime p t := do logCall tag .setModificationTime p; inner.setModificationTime p t
  setAccessTime p t := do logCall tag .setAccessTime p; inner.setAccessTime p t
  exists_ p := do logCall tag .exists_ p; inner.exists_ p
  removeFile p := do logCall tag .removeFile p; inner.removeFile p
  removeDir p := do logCall tag .removeDir p; inner.removeDir p
  copyFile s d := do logCall tag .copyFile s d; inner.copyFile s d
  moveFile s d := do logCall tag .moveFile s d; inner.moveFile s d
  moveDir s d := do logCall tag .moveDir s d; inner.moveDir s d

/-- fault plan: count the call; when the countdown reaches zero the call fails with an
injected I/O error and the inner filesystem is not reached -/
def faultGate {α} (m : M α) : M α := fun w =>
  match w.fault with
  | some 0 => (fail .io, { w with fault := none, fired := true })
  | some (k + 1) => m { w with fault := some k }
  | none => m w

/-- `FaultFs` -/
def faultFS (inner : FS) : FS where
  readDir p := faultGate (inner.readDir p)
  createDir p := faultGate (inner.createDir p)
  openFile p := faultGate (inner.openFile p)
  createFile p := faultGate (inner.createFile p)
  appendFile p := faultGate (inner.appendFile p)
  metadata p := faultGate (inner.metadata p)
  setCreationTime p t := faultGate (inner.setCreationTime p t)
  setModificationTime p t := faultGate (inner.setModificationTime p t)
  setAccessTime p t := faultGate (inner.setAccessTime p t)
  exists_ p := faultGate (inner.exists_ p)
  removeFile p := faultGate (inner.removeFile p)
  removeDir p := faultGate (inner.removeDir p)
  copyFile s d := faultGate (inner.copyFile s d)
  moveFile s d := faultGate (inner.moveFile s d)
  moveDir s d := faultGate (inner.moveDir s d)

end Vfs
