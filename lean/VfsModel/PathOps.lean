/-
  The `VfsPath` layer (src/path.rs:135-1061), generic over the `FS` record.
  Unbounded recursion (`remove_dir_all`, nested `copy_file` inside `copy_dir`) takes fuel.
-/
import VfsModel.Handle
namespace Vfs

namespace VPath

def withStr (p : VPath) (s : Str) : VPath := { p with path := s }

/-- `VfsPath::join` -/
def join (p : VPath) (arg : Str) : Res VPath := (joinInternal p.path arg).map p.withStr

def parent (p : VPath) : VPath := p.withStr (parentInternal p.path)

def root (p : VPath) : VPath := p.withStr []

/-- `VfsPath::exists` — no relabelling -/
def exists_ (p : VPath) : M Bool := p.fs.exists_ p.path

def metadata (p : VPath) : M Meta := M.withPath p.path (p.fs.metadata p.path)

/-- `get_parent` (path.rs:371-389) -/
def getParent (p : VPath) : M Unit := do
  let par := p.parent
  if !(← par.exists_) then M.failAt .other p.path
  else
    let md ← par.metadata
    if md.ftype ≠ .dir then M.failAt .other p.path else pure ()

def createDir (p : VPath) : M Unit := do
  p.getParent
  M.withPath p.path (p.fs.createDir p.path)

/-- the prefixes `path[..end]` visited by `create_dir_all`: `end` ranges over the positions
≥ 1 holding '/', and the length -/
def dirPrefixes (path : Str) : List Str :=
  ((List.range (path.length + 1)).filter
      (fun e => 1 ≤ e ∧ (e = path.length ∨ path[e]? = some '/'))).map (fun e => path.take e)

def createDirAllLoop (p : VPath) : List Str → M Unit
  | [] => pure ()
  | d :: rest => fun w =>
    match p.fs.createDir d w with
    | (.ok _, w') => createDirAllLoop p rest w'
    | (.err .dirExists _, w') => createDirAllLoop p rest w'
    | (.err k _, w') => (.err k (some d), w')
    | (.panic, w') => (.panic, w')

/-- `create_dir_all` (path.rs:261-291) -/
def createDirAll (p : VPath) : M Unit :=
  if p.path = [] then pure () else createDirAllLoop p (dirPrefixes p.path)

/-- `read_dir`: children as paths `parent/name` -/
def readDir (p : VPath) : M (List VPath) := do
  let names ← M.withPath p.path (p.fs.readDir p.path)
  pure (names.map fun n => p.withStr (p.path ++ '/' :: n))

def createFile (p : VPath) : M WHandle := do
  p.getParent
  M.withPath p.path (p.fs.createFile p.path)

def openFile (p : VPath) : M RHandle := M.withPath p.path (p.fs.openFile p.path)
def appendFile (p : VPath) : M WHandle := M.withPath p.path (p.fs.appendFile p.path)
def removeFile (p : VPath) : M Unit := M.withPath p.path (p.fs.removeFile p.path)
def removeDir (p : VPath) : M Unit := M.withPath p.path (p.fs.removeDir p.path)
def setCreationTime (p : VPath) (t : Int) : M Unit :=
  M.withPath p.path (p.fs.setCreationTime p.path t)
def setModificationTime (p : VPath) (t : Int) : M Unit :=
  M.withPath p.path (p.fs.setModificationTime p.path t)
def setAccessTime (p : VPath) (t : Int) : M Unit :=
  M.withPath p.path (p.fs.setAccessTime p.path t)

def isFile (p : VPath) : M Bool := do
  if !(← p.exists_) then pure false
  else
    let md ← p.metadata
    pure (md.ftype = .file)

def isDir (p : VPath) : M Bool := do
  if !(← p.exists_) then pure false
  else
    let md ← p.metadata
    pure (md.ftype = .dir)

mutual
/-- `remove_dir_all` (path.rs:475-488) -/
def removeDirAll (fuel : Nat) (p : VPath) : M Unit :=
  match fuel with
  | 0 => M.ret .panic   -- out of fuel (stack overflow in the real code)
  | fuel + 1 => do
    if !(← p.exists_) then pure ()
    else
      let children ← p.readDir
      removeChildren fuel children
      p.removeDir
def removeChildren (fuel : Nat) : List VPath → M Unit
  | [] => pure ()
  | c :: rest => do
    let md ← c.metadata
    match md.ftype with
    | .file => c.removeFile
    | .dir => removeDirAll fuel c
    removeChildren fuel rest
end

/-- state of `WalkDirIterator`: rest of the current listing, stack of directories (top first) -/
structure Walk where
  inner : List VPath
  todo : List VPath

/-- `walk_dir` -/
def walkDir (p : VPath) : M Walk := do
  let l ← p.readDir
  pure { inner := l, todo := [] }

/-- the `loop` of `WalkDirIterator::next`: find the next raw item -/
def walkFind : (inner : List VPath) → (todo : List VPath) → M (Option (Res VPath) × Walk)
  | x :: inner, todo => pure (some (.ok x), { inner := inner, todo := todo })
  | [], [] => pure (none, { inner := [], todo := [] })
  | [], d :: todo => fun w =>
    match d.readDir w with
    | (.ok l, w') =>
      match l with
      | x :: inner => (.ok (some (.ok x), { inner := inner, todo := todo }), w')
      | [] => walkFind [] todo w'
    | (.err k p, w') => (.ok (some (.err k p), { inner := [], todo := todo }), w')
    | (.panic, w') => (.panic, w')

/-- `WalkDirIterator::next` -/
def walkNext (s : Walk) : M (Option (Res VPath) × Walk) := do
  let (item, s') ← walkFind s.inner s.todo
  match item with
  | some (.ok x) => fun w =>
    match x.metadata w with
    | (.ok md, w') =>
      if md.ftype = .dir then (.ok (some (.ok x), { s' with todo := x :: s'.todo }), w')
      else (.ok (some (.ok x), s'), w')
    | (.err k p, w') => (.ok (some (.err k p), s'), w')
    | (.panic, w') => (.panic, w')
  | other => pure (other, s')

/-- collect the whole walk (fuel bounds the number of items) -/
def walkAll (fuel : Nat) (s : Walk) : M (List (Res VPath)) :=
  match fuel with
  | 0 => M.ret .panic
  | fuel + 1 => do
    let (item, s') ← walkNext s
    match item with
    | none => pure []
    | some it =>
      let rest ← walkAll fuel s'
      pure (it :: rest)

/-- `read_to_string`: the bytes (UTF-8 validity is decided by the caller of the model) -/
def readToEndChecked (p : VPath) : M Bytes := do
  let md ← p.metadata
  if md.ftype ≠ .file then M.failAt .other p.path
  else
    let h ← p.openFile
    M.withPath p.path (M.ret (h.readToEnd).1)

/-- `std::io::copy(src, dest)`, then both handles dropped -/
def ioCopyAndDrop (src : RHandle) (dst : WHandle) (selfPath : Str) : M Unit := do
  let bytes ← M.withPath selfPath (M.ret src.readToEnd.1)
  let (_, h') ← dst.write bytes
  h'.drop

/-- `copy_file` (path.rs:795-834) -/
def copyFile (src dst : VPath) : M Unit :=
  M.withPath src.path (do
    if (← dst.exists_) then M.failAt .other src.path
    else
      let fast ← (if src.fsId = dst.fsId then M.attempt (src.fs.copyFile src.path dst.path)
                  else pure (fail .notSupported))
      match fast with
      | .ok _ => pure ()
      | .panic => M.ret .panic
      | .err k p =>
        if k ≠ .notSupported then M.ret (.err k p)
        else
          let r ← src.openFile
          let w ← dst.createFile
          ioCopyAndDrop r w src.path)

/-- `move_file` (path.rs:854-894): the destination handle is still open while the source is
removed, and is dropped (published) afterwards, also when the removal fails -/
def moveFile (src dst : VPath) : M Unit :=
  M.withPath src.path (do
    if (← dst.exists_) then M.failAt .other dst.path
    else
      let fast ← (if src.fsId = dst.fsId then M.attempt (src.fs.moveFile src.path dst.path)
                  else pure (fail .notSupported))
      match fast with
      | .ok _ => pure ()
      | .panic => M.ret .panic
      | .err k p =>
        if k ≠ .notSupported then M.ret (.err k p)
        else
          let r ← src.openFile
          let w ← dst.createFile
          let bytes ← M.withPath src.path (M.ret r.readToEnd.1)
          let (_, h') ← w.write bytes
          let res ← M.attempt src.removeFile
          h'.drop
          M.ret res)

/-- destination path of one walked item: `destination.join(&src_path[prefix_len + 1..])` -/
def relJoin (dst : VPath) (prefixLen : Nat) (item : VPath) : Res VPath :=
  if item.path.length < prefixLen + 1 then .panic   -- slice out of range
  else dst.join (item.path.drop (prefixLen + 1))

/-- the body of the `for file in self.walk_dir()?` loops of copy_dir / move_dir -/
def copyItems (fuel : Nat) (src dst : VPath) (s : Walk) (count : Nat) : M Nat :=
  match fuel with
  | 0 => M.ret .panic
  | fuel + 1 => do
    let (item, s') ← walkNext s
    match item with
    | none => pure count
    | some (.err k p) => M.ret (.err k p)
    | some .panic => M.ret .panic
    | some (.ok x) =>
      let d ← M.ret (relJoin dst src.path.length x)
      let md ← x.metadata
      match md.ftype with
      | .dir => d.createDir
      | .file => x.copyFile d
      copyItems fuel src dst s' (count + 1)

/-- `copy_dir` (path.rs:915-948) -/
def copyDir (fuel : Nat) (src dst : VPath) : M Nat :=
  M.withPath src.path (do
    if (← dst.exists_) then M.failAt .other dst.path
    else
      dst.createDir
      let s ← src.walkDir
      copyItems fuel src dst s 0)

/-- `move_dir` (path.rs:968-1012) -/
def moveDir (fuel : Nat) (src dst : VPath) : M Unit :=
  M.withPath src.path (do
    if (← dst.exists_) then M.failAt .other dst.path
    else
      let fast ← (if src.fsId = dst.fsId then M.attempt (src.fs.moveDir src.path dst.path)
                  else pure (fail .notSupported))
      match fast with
      | .ok _ => pure ()
      | .panic => M.ret .panic
      | .err k p =>
        if k ≠ .notSupported then M.ret (.err k p)
        else
          dst.createDir
          let s ← src.walkDir
          let _ ← copyItems fuel src dst s 0
          removeDirAll fuel src)

end VPath
end Vfs
