/-
  C09 — An overlay presents the union of its layers and then obeys the ordinary contracts
  relative to that union.

  Setting (`OW w u l mu ml`, Proofs/OverlayLemmas.lean): a world whose leaves `u ≠ l` are memory
  leaves holding the flat maps `mu` (upper layer) and `ml` (lower layer); the overlay's layers
  are the ROOTS of the two leaf filesystems, `layers2 u l idu idl` (any filesystem ids).
  Paths are canonical: `p = renderC cs`, all components `GoodComp`, `cs ≠ []` unless said
  otherwise.  The abstraction is the union view
      `marker p = "/.whiteout" ++ p ++ "_wo"`
      `view mu ml p = if mu.contains (marker p) then none else (mu.find? p).or (ml.find? p)`
  (`Option.or` is `<|>` on options: the first layer that has the path).

  PROVED (no sorry, no axiom):
  A. path computations            `path_computations`, `marker_is_canonical`, `marker_has_parent`,
                                  `stripWo_marker`, `stripWo_other`, `marker_name_good`
     (the lemmas themselves: `whiteoutPath_canon`, `writePath_canon`, `join_root_tail1`,
      `marker_renderC`, `marker_parent`, `stripWo_append`, `stripWo_some_iff`, `goodComp_wo`).
  B. observers = the union view   `exists_is_view`, `exists_root`, `metadata_is_view`,
                                  `openFile_serves_view`, `openFile_absent`, `openFile_dir`.
  C. listings                     `read_dir_is_union` (both directions of the membership, no
                                  duplicates, ".whiteout" never listed at the root; the root
                                  directory included).
  D. the named corollaries        `create_over_lower_fails` (+ `create_over_lower_only_fails`,
                                  `createFile_over_dir_fails`): error kind by the entry's type, the
                                  union view of every path unchanged (`ViewSame`);
                                  `remove_dir_with_lower_children_fails` (world unchanged, so no
                                  marker); `append_continues_lower_bytes`;
                                  `ensure_parent_file_refused` (+ `_wf`): the parent is a FILE of
                                  the view, in whichever layer — create_dir / create_file /
                                  append_file fail with `Other` and NO layer map changes (the
                                  counterpart of the fix of `ensure_has_parent`, which used to
                                  shadow such a file by an empty directory in the upper layer).
  F. non-vacuity                  concrete two-leaf world, by `decide` (the removal / re-creation
                                  checks on the same world, and the OPEN known finding
                                  `remove_file_on_lower_dir_orphans`, are in Props/C10.lean).

  Hypotheses that are genuinely needed (each excludes a behaviour of the real code that is
  outside the property: reserved names): `RootOk mu` (the upper root is a directory and
  "/.whiteout/_wo" does not exist), `AncDirs mu ml ds` (every proper ancestor of `p` is a
  directory of the union view), `ds.head? ≠ some woDir` (the path is not inside the ".whiteout"
  namespace), and for listings that "/.whiteout" ++ p is not a FILE of the upper layer.
  "View unchanged" is up to the timestamps of directories (`dirBlind`): `ensure_has_parent`
  materialises lower-layer parent directories in the upper layer with fresh timestamps.

  STATED, NOT PROVED: nothing in this file. (The generalisation from two layers to a list of n
  leaf roots is not attempted.)
-/
import VfsModel.Proofs.OverlayLemmas
set_option linter.unusedSimpArgs false
set_option linter.unusedVariables false
namespace Vfs.C09
open Vfs Vfs.Overlay

/-- the union view, written with `<|>`: nothing where a marker sits, otherwise the first layer
that has the path -/
theorem view_def (mu ml : FMap) (p : Str) :
    view mu ml p = if mu.contains (marker p) then none else (mu.find? p <|> ml.find? p) := by
  unfold view
  cases mu.find? p <;> rfl

/-! ### A. path computations -/

/-- the three paths the overlay computes for a canonical non-root `p`, for ANY list of layers
whose first layer is a root -/
theorem path_computations (layers : List VPath) (hw : (writeLayer layers).path = [])
    (cs : List Str) (hne : cs ≠ []) (hcs : ∀ c ∈ cs, GoodComp c) :
    whiteoutPath layers (renderC cs) = .ok ((writeLayer layers).withStr (marker (renderC cs))) ∧
    writePath layers (renderC cs) = .ok ((writeLayer layers).withStr (renderC cs)) ∧
    ∀ l : VPath, l.path = [] → l.join (tail1 (renderC cs)) = .ok (l.withStr (renderC cs)) := by
  refine ⟨?_, writePath_canon layers hw cs hne hcs, fun l hl => join_root_tail1 l hl cs hne hcs⟩
  rcases List.eq_nil_or_concat cs with rfl | ⟨ds, n, rfl⟩
  · exact absurd rfl hne
  · rw [List.concat_eq_append] at hcs ⊢
    obtain ⟨hds, hn⟩ := good_of_snoc hcs
    exact whiteoutPath_canon layers hw ds n hds hn

/-- `marker p` is "/.whiteout/<dirs>/<name>_wo", a canonical path -/
theorem marker_is_canonical (ds : List Str) (n : Str) (hds : ∀ c ∈ ds, GoodComp c)
    (hn : GoodComp n) :
    marker (renderC (ds ++ [n])) = renderC ([woDir] ++ ds ++ [n ++ woSuffix]) ∧
    (∀ c ∈ [woDir] ++ ds ++ [n ++ woSuffix], GoodComp c) := by
  refine ⟨by rw [marker_renderC]; simp, ?_⟩
  have := good_markerComps hds hn
  simpa using this

/-- its parent is "/.whiteout" ++ parent p -/
theorem marker_has_parent (ds : List Str) (n : Str) (hds : ∀ c ∈ ds, GoodComp c)
    (hn : GoodComp n) :
    parentInternal (marker (renderC (ds ++ [n]))) = renderC ([woDir] ++ ds) := by
  rw [marker_parent ds n hds hn, woDirOf_renderC]; rfl

theorem stripWo_marker (n : Str) : stripWo (n ++ woSuffix) = some n := stripWo_append n

theorem stripWo_other (m : Str) (h : ¬ woSuffix <:+ m) : stripWo m = none := stripWo_none m h

theorem marker_name_good (c : Str) (h : GoodComp c) : GoodComp (c ++ woSuffix) := goodComp_wo h

/-- markers of different paths are different -/
theorem marker_inj (p q : Str) (h : marker p = marker q) : p = q := marker_injective p q h

section setting
variable {w : World} {u l idu idl : Nat} {mu ml : FMap} (h : OW w u l mu ml)
include h

/-! ### B. the observers are the union view -/

theorem exists_is_view (cs : List Str) (hne : cs ≠ []) (hcs : ∀ c ∈ cs, GoodComp c) :
    (Overlay.fs (layers2 u l idu idl)).exists_ (renderC cs) w
      = (.ok (view mu ml (renderC cs)).isSome, w) :=
  run_oexists h cs hne hcs

theorem exists_root (hroot : RootOk mu) :
    (Overlay.fs (layers2 u l idu idl)).exists_ [] w = (.ok true, w) := by
  have := run_oexists_root (idu := idu) (idl := idl) h
  obtain ⟨e, he, _⟩ := hroot.root
  rw [hroot.noMark, contains_of_find he] at this
  exact this

theorem metadata_is_view (cs : List Str) (hne : cs ≠ []) (hcs : ∀ c ∈ cs, GoodComp c) :
    (Overlay.fs (layers2 u l idu idl)).metadata (renderC cs) w =
      (match view mu ml (renderC cs) with
       | some e => .ok e.meta
       | none => .err .fileNotFound none, w) := by
  show (do let q ← readPath (layers2 u l idu idl) (renderC cs); q.metadata : M Meta) w = _
  by_cases hm : mu.contains (marker (renderC cs)) = true
  · simp [view_marked hm, hm, bind, M.bind, run_readPath h cs hne hcs]
  · have hm' : mu.contains (marker (renderC cs)) = false := by simpa using hm
    rcases Option.eq_none_or_eq_some (mu.find? (renderC cs)) with hf | ⟨e, hf⟩
    · rw [view_lower hm' hf]
      rcases Option.eq_none_or_eq_some (ml.find? (renderC cs)) with hg | ⟨e, hg⟩
      · simp [hm', hg, bind, M.bind, run_readPath h cs hne hcs, contains_of_none hf,
          contains_of_none hg]
      · simp [hm', hg, bind, M.bind, run_readPath h cs hne hcs, contains_of_none hf,
          contains_of_find hg, run_vmetadata h.hl, Mem.metadata, Res.withPath]
    · rw [view_upper hm' hf]
      simp [hm', hf, bind, M.bind, run_readPath h cs hne hcs, contains_of_find hf,
        run_vmetadata h.hu, Mem.metadata, Res.withPath]

/-- what `open_file` does, in full: the first layer that has the path serves it -/
theorem openFile_run (cs : List Str) (hne : cs ≠ []) (hcs : ∀ c ∈ cs, GoodComp c) :
    (Overlay.fs (layers2 u l idu idl)).openFile (renderC cs) w =
      (if mu.contains (marker (renderC cs)) then (.err .fileNotFound none, w)
       else if mu.contains (renderC cs) then
         ((Mem.openFile mu (renderC cs)).1.withPath (renderC cs),
           w.setLeafFiles u (Mem.openFile mu (renderC cs)).2)
       else if ml.contains (renderC cs) then
         ((Mem.openFile ml (renderC cs)).1.withPath (renderC cs),
           w.setLeafFiles l (Mem.openFile ml (renderC cs)).2)
       else (.err .fileNotFound none, w)) := by
  show (do let q ← readPath (layers2 u l idu idl) (renderC cs); q.openFile : M RHandle) w = _
  by_cases hm : mu.contains (marker (renderC cs)) = true
  · simp [hm, bind, M.bind, run_readPath h cs hne hcs]
  · by_cases h1 : mu.contains (renderC cs) = true
    · simp [hm, h1, bind, M.bind, run_readPath h cs hne hcs, run_vopenFile h.hu]
    · by_cases h2 : ml.contains (renderC cs) = true
      · simp [hm, h1, h2, bind, M.bind, run_readPath h cs hne hcs, run_vopenFile h.hl]
      · simp [hm, h1, h2, bind, M.bind, run_readPath h cs hne hcs]

/-- a file of the view is served with exactly its bytes; the only change of the world is the
access-time stamp of that file in the layer that served it -/
theorem openFile_serves_view (cs : List Str) (hne : cs ≠ []) (hcs : ∀ c ∈ cs, GoodComp c)
    (e : Entry) (hv : view mu ml (renderC cs) = some e) (hfile : e.ftype = .file) :
    ∃ w', (Overlay.fs (layers2 u l idu idl)).openFile (renderC cs) w
        = (.ok { content := e.content, pos := 0 }, w') ∧
      ((mu.find? (renderC cs) = some e ∧
          OW w' u l (mu.insert (renderC cs) { e with accessed := .now }) ml) ∨
       (mu.find? (renderC cs) = none ∧
          OW w' u l mu (ml.insert (renderC cs) { e with accessed := .now }))) := by
  obtain ⟨hm, hc | ⟨hc, hg⟩⟩ := view_some_cases hv
  · refine ⟨_, ?_, Or.inl ⟨hc, h.setU _⟩⟩
    rw [openFile_run h cs hne hcs, hm, contains_of_find hc, Mem.openFile_some mu _ e hc]
    simp [hfile, Res.withPath]
  · refine ⟨_, ?_, Or.inr ⟨hc, h.setL _⟩⟩
    rw [openFile_run h cs hne hcs, hm, contains_of_none hc, contains_of_find hg,
      Mem.openFile_some ml _ e hg]
    simp [hfile, Res.withPath]

theorem openFile_absent (cs : List Str) (hne : cs ≠ []) (hcs : ∀ c ∈ cs, GoodComp c)
    (hv : view mu ml (renderC cs) = none) :
    (Overlay.fs (layers2 u l idu idl)).openFile (renderC cs) w = (.err .fileNotFound none, w) := by
  rw [openFile_run h cs hne hcs]
  by_cases hm : mu.contains (marker (renderC cs)) = true
  · simp [hm]
  · have hm' : mu.contains (marker (renderC cs)) = false := by simpa using hm
    rcases Option.eq_none_or_eq_some (mu.find? (renderC cs)) with hf | ⟨e, hf⟩
    · rw [view_lower hm' hf] at hv
      simp [hm', contains_of_none hf, contains_of_none hv]
    · rw [view_upper hm' hf] at hv; cases hv

theorem openFile_dir (cs : List Str) (hne : cs ≠ []) (hcs : ∀ c ∈ cs, GoodComp c)
    (e : Entry) (hv : view mu ml (renderC cs) = some e) (hd : e.ftype = .dir) :
    ((Overlay.fs (layers2 u l idu idl)).openFile (renderC cs) w).1
      = .err .other (some (renderC cs)) := by
  obtain ⟨hm, hc | ⟨hc, hg⟩⟩ := view_some_cases hv
  · rw [openFile_run h cs hne hcs, hm, contains_of_find hc, Mem.openFile_some mu _ e hc]
    simp [hd, Res.withPath, fail]
  · rw [openFile_run h cs hne hcs, hm, contains_of_none hc, contains_of_find hg,
      Mem.openFile_some ml _ e hg]
    simp [hd, Res.withPath, fail]

/-! ### C. listings: the children of the union -/

/-- **read_dir is the union.** For a directory `p` of the view (or the root), `read_dir`
succeeds, changes nothing, lists no name twice, and lists exactly the bare names `n` such that
the union view has an entry at `p/n` (present in some layer and not marked as deleted) — except
that the bookkeeping directory ".whiteout" is never listed at the root. -/
theorem read_dir_is_union (cs : List Str) (hcs : ∀ c ∈ cs, GoodComp c)
    (e : Entry) (hdir : dirEntry? mu ml (renderC cs) = some e) (hd : e.ftype = .dir)
    (hwf : WF mu) (hwfl : WF ml)
    (hwo : ∀ e, mu.find? (woDirOf (renderC cs)) = some e → e.ftype = .dir) :
    ∃ lst, (Overlay.fs (layers2 u l idu idl)).readDir (renderC cs) w = (.ok lst, w) ∧
      lst.Nodup ∧
      (∀ n, n ∈ lst ↔ ('/' ∉ n ∧ (view mu ml (renderC cs ++ '/' :: n)).isSome = true ∧
                        (renderC cs = [] → n ≠ woDir))) ∧
      (renderC cs = [] → woDir ∉ lst) := by
  refine ⟨pListing mu ml (renderC cs), ?_, nodup_pListing _ _ _, ?_, ?_⟩
  · show Overlay.readDir _ _ w = _
    rw [run_oreadDir h cs hcs hwo]
    unfold pReadDir
    rw [hdir]; simp [hd]
  · intro n
    exact mem_pListing mu ml _ n (hwf.childrenHaveDir _) (hwfl.childrenHaveDir _)
      (hwf.childrenHaveDir _)
  · intro hp; rw [hp]; exact woDir_not_listed mu ml

/-! ### D. the three named corollaries -/

/-- the union view of every (canonical, non-root) path is the same, up to the timestamps of
directories -/
def ViewSame (mu ml mu' ml' : FMap) : Prop :=
  ∀ q : Str, q.head? = some '/' → (view mu' ml' q).map dirBlind = (view mu ml q).map dirBlind

omit h in
theorem ViewSame.ftype {mu ml mu' ml' : FMap} (hs : ViewSame mu ml mu' ml') (q : Str)
    (hq : q.head? = some '/') (e : Entry) (hv : view mu ml q = some e) :
    ∃ e', view mu' ml' q = some e' ∧ e'.ftype = e.ftype ∧ (e.ftype = .file → e' = e) := by
  have := hs q hq
  rw [hv] at this
  rcases Option.eq_none_or_eq_some (view mu' ml' q) with hn | ⟨e', he'⟩
  · rw [hn] at this; cases this
  · rw [he'] at this
    simp only [Option.map_some, Option.some.injEq] at this
    refine ⟨e', he', ?_, ?_⟩
    · rw [← dirBlind_ftype e', this, dirBlind_ftype]
    · intro hf
      have hf' : e'.ftype = .file := by rw [← dirBlind_ftype e', this, dirBlind_ftype]; exact hf
      rw [dirBlind_file e hf, dirBlind_file e' hf'] at this
      exact this

omit h in
theorem renderC_head (cs : List Str) (hne : cs ≠ []) : (renderC cs).head? = some '/' := by
  cases cs with
  | nil => exact absurd rfl hne
  | cons c cs => simp

/-- **create over an entry of the view fails as already-existing.** If the union view has an
entry `e` at `p` — in particular when only the lower layer has it — `create_dir(p)` fails with
`FileExists` / `DirectoryExists` according to the type of `e`; the lower layer is untouched, the
upper layer may have gained parent directories, and the union view of every path is unchanged. -/
theorem create_over_lower_fails (ds : List Str) (n : Str) (hds : ∀ c ∈ ds, GoodComp c)
    (hn : GoodComp n) (hroot : RootOk mu) (hanc : AncDirs mu ml ds)
    (hhead : ds.head? ≠ some woDir) (e : Entry)
    (hv : view mu ml (renderC (ds ++ [n])) = some e) :
    ∃ mu', (Overlay.fs (layers2 u l idu idl)).createDir (renderC (ds ++ [n])) w =
        (.err (if e.ftype = .file then .fileExists else .dirExists) none,
          w.setLeafFiles u mu') ∧
      OW (w.setLeafFiles u mu') u l mu' ml ∧ ViewSame mu ml mu' ml := by
  have hcs := good_snoc hds hn
  have hne : ds ++ [n] ≠ [] := by simp
  have hsame : ViewSame mu ml (fillDirs mu (chain [] ds)) ml :=
    fun q hq => view_fillDirs hds hanc hhead q hq
  obtain ⟨e', he', hft, _⟩ := hsame.ftype _ (renderC_head _ hne) e hv
  refine ⟨fillDirs mu (chain [] ds), ?_, h.setU _, hsame⟩
  show Overlay.createDir _ _ w = _
  rw [run_ocreateDir h _ hne hcs]
  unfold pCreateDir
  rw [List.dropLast_concat, pEnsure_ok hroot hds hanc]
  simp only [andThen, he', hft]

/-- the case named in the property: the entry exists ONLY in the lower layer -/
theorem create_over_lower_only_fails (ds : List Str) (n : Str) (hds : ∀ c ∈ ds, GoodComp c)
    (hn : GoodComp n) (hroot : RootOk mu) (hanc : AncDirs mu ml ds)
    (hhead : ds.head? ≠ some woDir) (e : Entry)
    (hup : mu.find? (renderC (ds ++ [n])) = none)
    (hmk : mu.contains (marker (renderC (ds ++ [n]))) = false)
    (hlow : ml.find? (renderC (ds ++ [n])) = some e) :
    ∃ mu', (Overlay.fs (layers2 u l idu idl)).createDir (renderC (ds ++ [n])) w =
        (.err (if e.ftype = .file then .fileExists else .dirExists) none,
          w.setLeafFiles u mu') ∧
      OW (w.setLeafFiles u mu') u l mu' ml ∧ ViewSame mu ml mu' ml :=
  create_over_lower_fails h ds n hds hn hroot hanc hhead e (by rw [view_lower hmk hup]; exact hlow)

/-- `create_file` over a directory of the view fails (`Other`), the view is unchanged -/
theorem createFile_over_dir_fails (ds : List Str) (n : Str) (hds : ∀ c ∈ ds, GoodComp c)
    (hn : GoodComp n) (hroot : RootOk mu) (hanc : AncDirs mu ml ds)
    (hhead : ds.head? ≠ some woDir) (e : Entry)
    (hv : view mu ml (renderC (ds ++ [n])) = some e) (hd : e.ftype = .dir) :
    ∃ mu', (Overlay.fs (layers2 u l idu idl)).createFile (renderC (ds ++ [n])) w =
        (.err .other none, w.setLeafFiles u mu') ∧
      OW (w.setLeafFiles u mu') u l mu' ml ∧ ViewSame mu ml mu' ml := by
  have hcs := good_snoc hds hn
  have hne : ds ++ [n] ≠ [] := by simp
  have hsame : ViewSame mu ml (fillDirs mu (chain [] ds)) ml :=
    fun q hq => view_fillDirs hds hanc hhead q hq
  obtain ⟨e', he', hft, _⟩ := hsame.ftype _ (renderC_head _ hne) e hv
  refine ⟨fillDirs mu (chain [] ds), ?_, h.setU _, hsame⟩
  show Overlay.createFile _ _ w = _
  rw [run_ocreateFile h _ hne hcs]
  unfold pCreateFile pRefuse
  rw [List.dropLast_concat, pEnsure_ok hroot hds hanc]
  simp only [andThen, he', hft, hd, if_true, Res.map]

/-- **removing a directory that still has lower-layer children fails as non-empty.** `p` is a
directory of the view and the view has an entry at `p/n` (for instance one that exists only in
the lower layer): `remove_dir(p)` fails with `Other`, and the world is unchanged — no marker is
created, the view is what it was. -/
theorem remove_dir_with_lower_children_fails (cs : List Str) (hne : cs ≠ [])
    (hcs : ∀ c ∈ cs, GoodComp c) (e : Entry) (hv : view mu ml (renderC cs) = some e)
    (hd : e.ftype = .dir) (hwf : WF mu) (hwfl : WF ml)
    (hwo : ∀ e, mu.find? (woDirOf (renderC cs)) = some e → e.ftype = .dir)
    (n : Str) (hn : '/' ∉ n) (hchild : (view mu ml (renderC cs ++ '/' :: n)).isSome = true) :
    (Overlay.fs (layers2 u l idu idl)).removeDir (renderC cs) w = (.err .other none, w) := by
  show Overlay.removeDir _ _ w = _
  rw [run_oremoveDir h cs hne hcs hwo]
  have hmem : n ∈ pListing mu ml (renderC cs) :=
    (mem_pListing mu ml _ n (hwf.childrenHaveDir _) (hwfl.childrenHaveDir _)
      (hwf.childrenHaveDir _)).2 ⟨hn, hchild, fun hp => absurd hp (renderC_ne_nil hne)⟩
  have hnil : pListing mu ml (renderC cs) ≠ [] := by
    intro h0; rw [h0] at hmem; cases hmem
  unfold pRemoveDir pReadDir dirEntry?
  rw [if_neg (renderC_ne_nil hne), hv]
  simp only [hd, if_true, hnil, ne_eq, not_false_eq_true, h.hu.same]

/-- the special case of the property: the child exists only in the lower layer -/
theorem remove_dir_with_lower_only_child_fails (cs : List Str) (hne : cs ≠ [])
    (hcs : ∀ c ∈ cs, GoodComp c) (e : Entry) (hv : view mu ml (renderC cs) = some e)
    (hd : e.ftype = .dir) (hwf : WF mu) (hwfl : WF ml)
    (hwo : ∀ e, mu.find? (woDirOf (renderC cs)) = some e → e.ftype = .dir)
    (n : Str) (hn : '/' ∉ n) (ce : Entry)
    (hup : mu.find? (renderC cs ++ '/' :: n) = none)
    (hmk : mu.contains (marker (renderC cs ++ '/' :: n)) = false)
    (hlow : ml.find? (renderC cs ++ '/' :: n) = some ce) :
    (Overlay.fs (layers2 u l idu idl)).removeDir (renderC cs) w = (.err .other none, w) :=
  remove_dir_with_lower_children_fails h cs hne hcs e hv hd hwf hwfl hwo n hn
    (by rw [view_lower hmk hup, hlow]; rfl)

/-- **appending continues the lower layer's bytes.** `p` exists only in the lower layer, as a
file with bytes `b`: one append session `append_file(p)?.write_all(bs)` succeeds; afterwards the
upper layer holds `p` as a file with content `b ++ bs`, which is what the view serves, and the
lower layer's map is unchanged except for the access time of `p` (it was read for the copy-up). -/
theorem append_continues_lower_bytes (ds : List Str) (n : Str) (hds : ∀ c ∈ ds, GoodComp c)
    (hn : GoodComp n) (hroot : RootOk mu) (hanc : AncDirs mu ml ds)
    (hhead : ds.head? ≠ some woDir) (e : Entry) (bs : Bytes)
    (hup : mu.find? (renderC (ds ++ [n])) = none)
    (hmk : mu.contains (marker (renderC (ds ++ [n]))) = false)
    (hlow : ml.find? (renderC (ds ++ [n])) = some e) (hfile : e.ftype = .file) :
    ∃ w' mu' e',
      (do let hd ← (Overlay.fs (layers2 u l idu idl)).appendFile (renderC (ds ++ [n]))
          hd.writeAllAndDrop bs : M Unit) w = (.ok (), w') ∧
      OW w' u l mu' (ml.insert (renderC (ds ++ [n])) { e with accessed := .now }) ∧
      mu'.find? (renderC (ds ++ [n])) = some e' ∧
      view mu' (ml.insert (renderC (ds ++ [n])) { e with accessed := .now })
        (renderC (ds ++ [n])) = some e' ∧
      e'.ftype = .file ∧ e'.content = e.content ++ bs := by
  have hcs := good_snoc hds hn
  have hne : ds ++ [n] ≠ [] := by simp
  have hE : pEnsure mu ml (ds ++ [n]).dropLast = (.ok (), fillDirs mu (chain [] ds)) := by
    rw [List.dropLast_concat]; exact pEnsure_ok hroot hds hanc
  have hp0 := find?_snoc_fillDirs (mu := mu) hds hn [] (Or.inl rfl)
  simp only [List.append_nil] at hp0
  have hm1 : (fillDirs mu (chain [] ds)).contains (marker (renderC (ds ++ [n]))) = false := by
    rw [contains_marker_fillDirs hds hhead _ (renderC_head _ hne)]; exact hmk
  obtain ⟨w1, hrun, hw1⟩ := run_oappendFile_copyUp (idu := idu) (idl := idl) h (ds ++ [n]) hne hcs
    _ hE hup hm1 (by rw [hp0]; exact hup) (parentOk_fillDirs hroot hds hn hanc) e hlow hfile
  -- the copy-up published over the freshly created file, so a file sits at the key
  obtain ⟨e1, he1, hft1, _⟩ := find?_memPublish_self
    ((fillDirs mu (chain [] ds)).insert (renderC (ds ++ [n])) fileEntryNow)
    (renderC (ds ++ [n])) e.content fileEntryNow (FMap.find?_insert_self _ _ _) rfl
  obtain ⟨e', he', hft, hct⟩ := find?_memPublish_self
    (memPublish ((fillDirs mu (chain [] ds)).insert (renderC (ds ++ [n])) fileEntryNow)
      (renderC (ds ++ [n])) e.content) (renderC (ds ++ [n]))
    (cursorWrite e.content e.content.length bs) e1 he1 hft1
  refine ⟨_, _, e', ?_, hw1.setU _, he', ?_, hft, by rw [hct, cursorWrite_end]⟩
  · show (do let hd ← Overlay.appendFile _ _; hd.writeAllAndDrop bs : M Unit) w = _
    simp only [bind, M.bind, hrun, run_writeAllAndDrop hw1.hu]
  · apply view_upper _ he'
    have hne' : marker (renderC (ds ++ [n])) ≠ renderC (ds ++ [n]) := by
      intro heq
      have := congrArg List.length heq
      simp [marker, woDir, woSuffix] at this
      omega
    unfold FMap.contains
    rw [find?_memPublish_ne _ _ _ _ hne', find?_memPublish_ne _ _ _ _ hne',
      FMap.find?_insert_ne _ _ _ _ hne']
    exact hm1

/-- **a file of the view cannot get children** (the formal counterpart of the fix of
`OverlayFS::ensure_has_parent`). The parent `ds` of `p = ds/n` is a FILE of the union view — in
whichever layer it sits: `create_dir(p)`, `create_file(p)` and `append_file(p)` through the
overlay fail with `Other`, and the world is unchanged, so BOTH layer maps are what they were
(before the fix the call failed too, but left the parent shadowed by an empty directory in the
upper layer). For `append_file` nothing must sit at `p` in the upper map, which is the case in
every well-formed upper map (`upper_child_absent_of_view_file`). -/
theorem ensure_parent_file_refused (ds : List Str) (n : Str) (hdne : ds ≠ [])
    (hds : ∀ c ∈ ds, GoodComp c) (hn : GoodComp n) (e : Entry)
    (hv : view mu ml (renderC ds) = some e) (hf : e.ftype = .file) :
    (Overlay.fs (layers2 u l idu idl)).createDir (renderC (ds ++ [n])) w
        = (.err .other none, w) ∧
    (Overlay.fs (layers2 u l idu idl)).createFile (renderC (ds ++ [n])) w
        = (.err .other none, w) ∧
    (mu.find? (renderC (ds ++ [n])) = none →
      (Overlay.fs (layers2 u l idu idl)).appendFile (renderC (ds ++ [n])) w
        = (.err .other none, w)) := by
  have hcs := good_snoc hds hn
  have hne : ds ++ [n] ≠ [] := by simp
  have hE : pEnsure mu ml (ds ++ [n]).dropLast = (.err .other none, mu) := by
    rw [List.dropLast_concat]; exact pEnsure_file hdne hv hf
  refine ⟨?_, ?_, ?_⟩
  · show Overlay.createDir _ _ w = _
    rw [run_ocreateDir h _ hne hcs]
    unfold pCreateDir
    rw [hE]
    simp only [andThen, h.hu.same]
  · show Overlay.createFile _ _ w = _
    rw [run_ocreateFile h _ hne hcs]
    unfold pCreateFile
    rw [hE]
    simp only [andThen, Res.map, h.hu.same]
  · intro hup
    have key : ∀ cs : List Str, cs ≠ [] → (∀ c ∈ cs, GoodComp c) →
        pEnsure mu ml cs.dropLast = (.err .other none, mu) → mu.find? (renderC cs) = none →
        Overlay.appendFile (layers2 u l idu idl) (renderC cs) w = (.err .other none, w) := by
      intro cs hne hcs hE hup
      unfold Overlay.appendFile copyUp
      simp [bind, M.bind, M.ret, writePath_layers2 cs hne hcs, run_vexists h.hu,
        contains_of_none hup, run_ensureHasParent h cs hne hcs, hE, h.hu.same]
    exact key _ hne hcs hE hup

/-- the same with a well-formed upper map instead of "nothing at `p` in the upper map" -/
theorem ensure_parent_file_refused_wf (ds : List Str) (n : Str) (hdne : ds ≠ [])
    (hds : ∀ c ∈ ds, GoodComp c) (hn : GoodComp n) (e : Entry)
    (hv : view mu ml (renderC ds) = some e) (hf : e.ftype = .file) (hwf : WF mu) :
    (Overlay.fs (layers2 u l idu idl)).createDir (renderC (ds ++ [n])) w
        = (.err .other none, w) ∧
    (Overlay.fs (layers2 u l idu idl)).createFile (renderC (ds ++ [n])) w
        = (.err .other none, w) ∧
    (Overlay.fs (layers2 u l idu idl)).appendFile (renderC (ds ++ [n])) w
        = (.err .other none, w) := by
  obtain ⟨h1, h2, h3⟩ := ensure_parent_file_refused (idu := idu) (idl := idl) h ds n hdne hds hn e hv hf
  exact ⟨h1, h2, h3 (upper_child_absent_of_view_file hwf hds hn hv hf)⟩

end setting

/-! ### F. non-vacuity: a concrete two-leaf world

lower layer { "/d" directory, "/d/x" file with the byte 'L' }, upper layer empty (root only);
the overlay is `layers2 0 1 0 1`. Everything below is computed (`decide`). -/

def fileL : Entry := { fileEntryNow with content := [76] }

def exLower : FMap := [("/d/x".toList, fileL), ("/d".toList, dirEntryNow), ([], dirEntryNow)]
def exUpper : FMap := Mem.init

def w0 : World := { leaves := [{ kind := .mem, files := exUpper }, { kind := .mem, files := exLower }] }

def ofs : FS := Overlay.fs (layers2 0 1 0 1)

/-- the maps of the two leaves of a world -/
def mapsOf (w : World) : FMap × FMap :=
  (((w.leaf? 0).map (·.files)).getD [], ((w.leaf? 1).map (·.files)).getD [])

/-- the union view of a world of this shape -/
def viewOf (w : World) (p : String) : Option Entry := view (mapsOf w).1 (mapsOf w).2 p.toList

/-- read a whole file through a filesystem -/
def readAll (fs : FS) (p : String) (w : World) : Res Bytes :=
  match fs.openFile p.toList w with
  | (.ok r, _) => r.readToEnd.1
  | (.err k pth, _) => .err k pth
  | (.panic, _) => .panic

theorem w0_setting : OW w0 0 1 exUpper exLower := ⟨rfl, rfl, by decide⟩

example : RootOk exUpper := ⟨⟨_, rfl, rfl⟩, by decide⟩
example : AncDirs exUpper exLower ["d".toList] := by
  intro j h1 h2
  have : j = 1 := by simp at h2; omega
  subst this
  exact ⟨dirEntryNow, by decide, rfl⟩

-- the observers see the union
example : (ofs.exists_ "/d/x".toList w0).1 = .ok true := by decide
example : (ofs.exists_ "/d".toList w0).1 = .ok true := by decide
example : (ofs.exists_ "/nope".toList w0).1 = .ok false := by decide
example : (ofs.metadata "/d/x".toList w0).1 = .ok fileL.meta := by decide
example : (ofs.metadata "/nope".toList w0).1 = .err .fileNotFound none := by decide
example : readAll ofs "/d/x" w0 = .ok [76] := by decide
example : (ofs.readDir "/d".toList w0).1 = .ok ["x".toList] := by decide
example : (ofs.readDir [] w0).1 = .ok ["d".toList] := by decide
example : viewOf w0 "/d/x" = some fileL := by decide

-- create over an entry that exists only in the lower layer: already exists
example : (ofs.createDir "/d".toList w0).1 = .err .dirExists none := by decide
example : (ofs.createDir "/d/x".toList w0).1 = .err .fileExists none := by decide
example : (ofs.createFile "/d".toList w0).1 = .err .other none := by decide
example : viewOf (ofs.createDir "/d/x".toList w0).2 "/d/x" = some fileL := by decide

-- removing a directory that has lower-layer children: non-empty, nothing changes
example : (ofs.removeDir "/d".toList w0).1 = .err .other none := by decide
example : mapsOf (ofs.removeDir "/d".toList w0).2 = (exUpper, exLower) := by decide

-- a file of the view (here: of the lower layer) gets no children, and no layer changes
example : (ofs.createDir "/d/x/y".toList w0).1 = .err .other none := by decide
example : mapsOf (ofs.createDir "/d/x/y".toList w0).2 = (exUpper, exLower) := by decide
example : ((do let _ ← ofs.createFile "/d/x/y".toList; pure () : M Unit) w0).1
    = .err .other none := by decide
example : mapsOf (ofs.createFile "/d/x/y".toList w0).2 = (exUpper, exLower) := by decide
example : ((do let _ ← ofs.appendFile "/d/x/y".toList; pure () : M Unit) w0).1
    = .err .other none := by decide
example : mapsOf (ofs.appendFile "/d/x/y".toList w0).2 = (exUpper, exLower) := by decide

-- appending continues the lower layer's bytes
def wAppended : World :=
  ((do let hd ← ofs.appendFile "/d/x".toList; hd.writeAllAndDrop [85] : M Unit) w0).2
example : ((do let hd ← ofs.appendFile "/d/x".toList; hd.writeAllAndDrop [85] : M Unit) w0).1
    = .ok () := by decide
example : readAll ofs "/d/x" wAppended = .ok [76, 85] := by decide
example : ((mapsOf wAppended).2.find? "/d/x".toList).map (·.content) = some [76] := by decide

end Vfs.C09
