/-
  C13 — No operation panics.

  "No call sequence through the public sync or async API - arbitrary join strings, calls on the
  root, calls of the wrong type for their target, reads and seeks at any offset, zero-length
  buffers, handles used after their file was removed - … makes the library panic; failures are
  returned as errors."

  In the model every site where the Rust code can panic is the explicit outcome `Res.panic`
  (Basic.lean): slices out of range (`relJoin`, `RHandle.read`), position overflow
  (`RHandle.read`), a leaf of the world that does not exist (`onLeaf`), and the fuel sentinel of
  the recursive functions. Notions (Proofs/NoPanic.lean):

    `NoPanic I m`    : `(∀ w, I w → I (m w).2) ∧ (∀ w, I w → (m w).1 ≠ .panic)` — started in a world
                       satisfying the invariant `I`, `m` does not panic and re-establishes `I`
                       (whatever its outcome), so the notion is closed under `bind`.
    `FS.NoPanic I fs`: all 15 trait methods of `fs` are `NoPanic I`, and the write handles
                       returned by create_file / append_file keep `I` (`HandleOK I`; that handles
                       never panic holds for *every* handle in *every* world, item 2).
    `LeafExists i`, `LeavesLen n` : the invariants "leaf i exists" / "there are n leaves".
                       `onLeaf i` panics exactly when leaf `i` is missing (`onLeaf_panics`), and no
                       operation changes the number of leaves.

  PROVED
    1. Path level, all strings: `join_total` (C06, restated), `vpath_join_no_panic`,
       `altroot_path_no_panic`. `parentInternal`, `filenameInternal`, `extensionInternal` are
       total functions into `Str` / `Option Str` — they have no `Res` outcome, so there is no
       panic outcome to exclude (nothing to prove; `path_level_total` records the types).
    2. Handles: `read_no_panic` (C14: every content shorter than 2^64, every position, every
       buffer size, zero included), `read_zero_len`, `seek_no_panic` (C14: every offset),
       `readToEnd_no_panic`; `whandle_no_panic`: write / seek / flush / drop / write_all+drop of
       EVERY write handle in EVERY world — no invariant at all: a handle whose leaf is missing or
       whose file was removed is tolerated ("handles used after their file was removed").
    3. Leaves: `mem_total`, `phys_total` (every `Mem.*` / `Phys.*` function, every map, every
       path string: root, parentless paths, wrong-type targets), `leaf_no_panic`
       (`FS.NoPanic (LeafExists i) (leafFS i)`), `leaf_no_panic_len`, `leaf_panics_without_leaf`.
    4. `VfsPath` layer over an ARBITRARY `fs` with `FS.NoPanic I fs`:
       `pathops_no_panic` (exists, metadata, get_parent, create_dir, create_dir_all, read_dir,
       create_file, open_file, append_file, remove_file, remove_dir, set_*_time, is_file, is_dir,
       read_to_string, walk_dir; returned handles), `transfers_no_panic` (copy_file, move_file),
       `walkNext_no_panic` (`WalkDirIterator::next`), `write_session_no_panic`.
       `relJoin` — the slice `&src_path[prefix_len + 1..]` of copy_dir / move_dir:
       `walk_below` (invariant `Walk.Below`: every path held or yielded by a walk started at
       `src.walk_dir()` extends `src.path ++ "/"`), `relJoin_in_range`, `relJoin_no_panic`;
       `relJoin_site_is_real` (outside the invariant the model does panic).
       Fuel-taking functions (`removeDirAll`, `walkAll`, `copyItems`, `copyDir`, `moveDir`), whose
       `.panic` at fuel 0 is a sentinel of the MODEL for unbounded recursion / an endless
       iterator (it needs a directory tree deeper than the fuel, i.e. in the real code a cyclic
       or unboundedly deep structure; it is not a Rust panic site):
         `*_step`   : one unfolding never panics provided the recursive calls do not;
         `*_panic_is_fuel` : if the outcome is `.panic` then the run reached the `0 =>` branch
                      (`RemoveDirAllOut`, `WalkAllOut`, `CopyItemsOut`: recursive predicates that
                      follow the run through its successful steps down to fuel 0). In particular
                      a `.panic` of `copyItems` is never the out-of-range slice.
    5. Adapters: `altroot_no_panic`, `overlay_no_panic` (any number of layers, any nesting),
       `embedded_no_panic` (every state, every invariant), and the regression
       `embedded_old_open_file_panics` (the `split_at(1)` version of `open_file` panics on the
       root; commit "fix: EmbeddedFS::open_file panicked on the root path").
    6. `stack_no_panic`, `stack_pathops_no_panic`, `stack_raw`: altroot over overlay over leaves,
       with the `VfsPath` operations on top, on every world in which the leaves exist.
       `script_no_panic`: ANY finite sequence of public operations (arbitrary join strings from
       the root, errors ignored and the sequence continued, handle sessions that keep writing
       after the file was removed) never panics — closure of `NoPanic` under sequencing.
    7. Non-vacuity: concrete worlds and runs (`decide`): the invariant holds; wrong-type / root
       calls return errors; a handle used after removal; `onLeaf` DOES panic when the leaf is
       missing; the fuel sentinel is reachable and is characterised by `RemoveDirAllOut`.

  NOT PROVED / assumptions / out of scope
    * Termination of the real recursion. For the fuel-taking functions panic-freedom is proved
      only modulo the fuel sentinel (item 4). That the real `remove_dir_all` / `walk_dir` /
      `copy_dir` terminate (finite, acyclic trees) is not proved here; a stack overflow by
      unbounded recursion would be an abort, not an unwinding panic.
    * `RHandle.read` needs `content.length < 2^64` (a `Vec<u8>` cannot be longer); it is a
      hypothesis of `read_no_panic`, not an invariant of the world, and reads are therefore not
      part of `script_no_panic` (seeks and read_to_end are).
    * The async API has no separate model: `async_vfs` mirrors the sync `VfsPath` code line by
      line over an async trait; C13 for it rests on that correspondence (harness side), not on a
      Lean theorem. Panics inside the async runtime / `block_on` are outside the model.
    * OverlayFS: the model writes `&path[1..]` as `drop 1` and `&name[..len-3]` as
      `take (len-3)`, which are total. In the Rust code these slices are guarded by
      `path.is_empty()` / `ends_with("_wo")`; a non-empty trait-level path always starts with the
      one-byte '/', so index 1 is in range and a char boundary. `OverlayFS::new(&[])` panics by
      design (documented constructor precondition) and is not an operation of the property.
    * EmbeddedFS::metadata still contains `path.split_at(1)`, reached only when the file map has
      an entry for the normalised path, which for the root would be a file named "" (RustEmbed
      cannot produce one); the model uses `normalize` there.
    * PhysicalFS on non-UTF-8 file names / host behaviours outside the `Phys` table are outside
      the model (the `Phys.*` functions are the modelling assumption about the host).
  Nothing in the task list turned out false for the current model; nothing was weakened except
  as stated above.
-/
import VfsModel.Proofs.NoPanic
import VfsModel.Props.C14
namespace Vfs.C13
open Vfs.VPath

/-! ### 1. path level -/

/-- `join_internal` never panics, for any two strings (C06) -/
theorem join_total (base arg : Str) : joinInternal base arg ≠ .panic := C06.join_total base arg

/-- `parent`, `filename`, `extension` are total functions: their results are plain values -/
theorem path_level_total (p : Str) :
    (∃ s : Str, parentInternal p = s) ∧ (∃ s : Str, filenameInternal p = s) ∧
    (∃ o : Option Str, extensionInternal p = o) := ⟨⟨_, rfl⟩, ⟨_, rfl⟩, ⟨_, rfl⟩⟩

/-- `VfsPath::join` never panics: arbitrary join strings give a path or `InvalidPath` -/
theorem vpath_join_no_panic (p : VPath) (arg : Str) : p.join arg ≠ .panic := join_ne_panic p arg

/-- the only other outcome of a join is the `InvalidPath` error of C06 -/
theorem vpath_join_ok_or_invalid (p : VPath) (arg : Str) :
    (∃ q, p.join arg = .ok q) ∨ p.join arg = .err .invalidPath (some arg) := by
  unfold VPath.join joinInternal
  split
  · exact Or.inl ⟨_, rfl⟩
  · split
    · exact Or.inr rfl
    · exact Or.inl ⟨_, rfl⟩

/-- `AltrootFS::path` (with its `&path[1..]`, taken only behind a leading '/') -/
theorem altroot_path_no_panic (root : VPath) (p : Str) : Altroot.path root p ≠ .panic :=
  Altroot.path_ne_panic root p

/-! ### 2. handles -/

/-- reads never panic: every content shorter than 2^64, every position (also past the end,
also ≥ 2^63), every buffer size (C14) -/
theorem read_no_panic (r : RHandle) (n : Nat) (hlen : r.content.length < u64Max) :
    (r.read n).1 ≠ .panic := C14.read_no_panic r n hlen

/-- a zero-length buffer reads nothing and does not move, without any hypothesis -/
theorem read_zero_len (r : RHandle) : (r.read 0).1 ≠ .panic ∧ (r.read 0).2 = r := by
  unfold RHandle.read
  split
  · exact ⟨fail_ne_panic _, rfl⟩
  · have : r.amt 0 = 0 := by unfold RHandle.amt; simp
    rw [if_pos this]
    exact ⟨Res.ok_ne_panic _, rfl⟩

/-- seeks never panic, whatever the offset (C14) -/
theorem seek_no_panic (r : RHandle) (s : SeekFrom) : (r.seek s).1 ≠ .panic := C14.seek_no_panic r s

theorem readToEnd_no_panic (r : RHandle) : r.readToEnd.1 ≠ .panic := r.readToEnd_ne_panic

/-- any script of seeks followed by `read_to_end` on a read handle -/
theorem seek_script_no_panic (r : RHandle) (ss : List SeekFrom) :
    (ss.foldl (fun h s => (h.seek s).2) r).readToEnd.1 ≠ .panic := RHandle.readToEnd_ne_panic _

/-- **write handles never panic — every handle, every world, no invariant**: the leaf may be
missing, the file may have been removed or replaced by a directory -/
theorem whandle_no_panic (h : WHandle) (w : World) :
    (∀ bs, (h.write bs w).1 ≠ .panic) ∧ (∀ s, (h.seek s w).1 ≠ .panic) ∧
    (h.flush w).1 ≠ .panic ∧ (h.drop w).1 ≠ .panic ∧ (∀ bs, (h.writeAllAndDrop bs w).1 ≠ .panic) :=
  ⟨fun bs => h.write_ne_panic bs w, fun s => h.seek_ne_panic s w, h.flush_ne_panic w,
    h.drop_ne_panic w, fun bs => h.writeAllAndDrop_ne_panic bs w⟩

/-- in calculus form, for a handle that keeps `I` (as all handles handed out do) -/
theorem whandle_ops_no_panic {I : World → Prop} (h : WHandle) (hk : HandleOK I h) :
    (∀ bs, NoPanic I (h.write bs)) ∧ (∀ s, NoPanic I (h.seek s)) ∧ NoPanic I h.flush ∧
    NoPanic I h.drop ∧ (∀ bs, NoPanic I (h.writeAllAndDrop bs)) :=
  ⟨hk.np_write, fun s => HandleOK.np_seek s, hk.np_flush, hk.np_drop, hk.np_writeAllAndDrop⟩

/-! ### 3. leaves -/

/-- every function of the MemoryFS model is total with outcomes `ok` / `err` only — for every
map and every path string (root, parentless, wrong type for the target) -/
theorem mem_total (m : FMap) (p : Str) (t : TS) :
    Mem.readDir m p ≠ .panic ∧ Mem.ensureHasParent m p ≠ .panic ∧ (Mem.createDir m p).1 ≠ .panic ∧
    (Mem.setAccessed m p t).1 ≠ .panic ∧ (Mem.setModified m p t).1 ≠ .panic ∧
    (Mem.setCreated m p t).1 ≠ .panic ∧ (Mem.openFile m p).1 ≠ .panic ∧
    (Mem.createFile m p).1 ≠ .panic ∧ Mem.appendFile m p ≠ .panic ∧ Mem.metadata m p ≠ .panic ∧
    (Mem.removeFile m p).1 ≠ .panic ∧ (Mem.removeDir m p).1 ≠ .panic :=
  ⟨Mem.readDir_np m p, Mem.ensureHasParent_np m p, Mem.createDir_np m p, Mem.setAccessed_np m p t,
    Mem.setModified_np m p t, Mem.setCreated_np m p t, Mem.openFile_np m p, Mem.createFile_np m p,
    Mem.appendFile_np m p, Mem.metadata_np m p, Mem.removeFile_np m p, Mem.removeDir_np m p⟩

/-- the same for the PhysicalFS / host model -/
theorem phys_total (m : FMap) (p q : Str) (upd : Entry → Entry) :
    Phys.resolveParent m p ≠ .panic ∧ Phys.lookup m p ≠ .panic ∧ Phys.readDir m p ≠ .panic ∧
    (Phys.createDir m p).1 ≠ .panic ∧ Phys.openFile m p ≠ .panic ∧ (Phys.createFile m p).1 ≠ .panic ∧
    Phys.appendFile m p ≠ .panic ∧ Phys.metadata m p ≠ .panic ∧ (Phys.removeFile m p).1 ≠ .panic ∧
    (Phys.removeDir m p).1 ≠ .panic ∧ (Phys.setTime upd m p).1 ≠ .panic ∧
    (Phys.copyFile m p q).1 ≠ .panic ∧ (Phys.rename m p q).1 ≠ .panic :=
  ⟨Phys.resolveParent_np m p, Phys.lookup_np m p, Phys.readDir_np m p, Phys.createDir_np m p,
    Phys.openFile_np m p, Phys.createFile_np m p, Phys.appendFile_np m p, Phys.metadata_np m p,
    Phys.removeFile_np m p, Phys.removeDir_np m p, Phys.setTime_np upd m p, Phys.copyFile_np m p q,
    Phys.rename_np m p q⟩

/-- **a leaf filesystem never panics as long as its leaf exists** -/
theorem leaf_no_panic (i : Nat) : (leafFS i).NoPanic (LeafExists i) := leafFS_noPanic i

theorem leaf_no_panic_len {n i : Nat} (hi : i < n) : (leafFS i).NoPanic (LeavesLen n) :=
  leafFS_noPanic_len hi

/-- for any invariant that guarantees the leaf and is not disturbed by writes to it -/
theorem leaf_no_panic_of {I : World → Prop} (i : Nat) (hI : IgnoresLeaf I i)
    (hex : ∀ w, I w → LeafExists i w) : (leafFS i).NoPanic I := leafFS_noPanic_of i hI hex

/-- the invariant is necessary: without the leaf every method of `leafFS i` panics -/
theorem leaf_panics_without_leaf {α} (i : Nat) (f : Leaf → Res α × FMap) (w : World)
    (h : w.leaf? i = none) : (onLeaf i f w).1 = .panic := onLeaf_panics i f w h

/-- the invariants are kept by every write to any leaf (what write handles do) -/
theorem invariants_stable (n i j : Nat) :
    IgnoresLeaf (LeavesLen n) j ∧ IgnoresLeaf (LeafExists i) j :=
  ⟨LeavesLen.ignores n j, LeafExists.ignores i j⟩

/-! ### 4. the `VfsPath` layer -/

/-- the one-path, non-recursive operations -/
structure PathOps (I : World → Prop) (p : VPath) : Prop where
  exists_ : NoPanic I p.exists_
  metadata : NoPanic I p.metadata
  getParent : NoPanic I p.getParent
  createDir : NoPanic I p.createDir
  createDirAll : NoPanic I p.createDirAll
  readDir : NoPanic I p.readDir
  createFile : NoPanic I p.createFile
  openFile : NoPanic I p.openFile
  appendFile : NoPanic I p.appendFile
  removeFile : NoPanic I p.removeFile
  removeDir : NoPanic I p.removeDir
  setCreationTime : ∀ t, NoPanic I (p.setCreationTime t)
  setModificationTime : ∀ t, NoPanic I (p.setModificationTime t)
  setAccessTime : ∀ t, NoPanic I (p.setAccessTime t)
  isFile : NoPanic I p.isFile
  isDir : NoPanic I p.isDir
  readToEndChecked : NoPanic I p.readToEndChecked
  walkDir : NoPanic I p.walkDir
  createHandle : Returns p.createFile (HandleOK I)
  appendHandle : Returns p.appendFile (HandleOK I)

/-- **every non-recursive one-path operation of the `VfsPath` layer is panic-free** over a
panic-free filesystem — for every path string (the root, paths without parent, …) -/
theorem pathops_no_panic {I : World → Prop} (p : VPath) (h : p.fs.NoPanic I) : PathOps I p where
  exists_ := np_exists p h
  metadata := np_metadata p h
  getParent := np_getParent p h
  createDir := np_createDir p h
  createDirAll := np_createDirAll p h
  readDir := np_readDir p h
  createFile := np_createFile p h
  openFile := np_openFile p h
  appendFile := np_appendFile p h
  removeFile := np_removeFile p h
  removeDir := np_removeDir p h
  setCreationTime t := np_setCreationTime p t h
  setModificationTime t := np_setModificationTime p t h
  setAccessTime t := np_setAccessTime p t h
  isFile := np_isFile p h
  isDir := np_isDir p h
  readToEndChecked := np_readToEndChecked p h
  walkDir := np_walkDir p h
  createHandle := createFile_handleOK p h
  appendHandle := appendFile_handleOK p h

/-- copy_file and move_file (both directions of the fast-path test, the fallback included) -/
theorem transfers_no_panic {I : World → Prop} (src dst : VPath) (hs : src.fs.NoPanic I)
    (hd : dst.fs.NoPanic I) : NoPanic I (src.copyFile dst) ∧ NoPanic I (src.moveFile dst) :=
  ⟨np_copyFile src dst hs hd, np_moveFile src dst hs hd⟩

/-- one write session on a created or appended handle: create, write, seek, write, drop -/
theorem write_session_no_panic {I : World → Prop} (p : VPath) (h : p.fs.NoPanic I)
    (bs bs' : Bytes) (s : SeekFrom) :
    NoPanic I (do
      let hd ← p.createFile
      let (_, h1) ← hd.write bs
      let (_, h2) ← h1.seek s
      let (_, h3) ← h2.write bs'
      h3.drop) ∧
    NoPanic I (do
      let hd ← p.appendFile
      hd.writeAllAndDrop bs) := by
  constructor
  · apply NoPanic.bindQ _ (np_createFile p h) (createFile_handleOK p h)
    intro hd hk
    apply NoPanic.bindQ _ (hk.np_write bs) (hk.write_ret bs)
    intro r1 hk1
    apply NoPanic.bindQ (fun r => HandleOK I r.2) (HandleOK.np_seek s)
    · refine ⟨fun w r he => ?_⟩
      unfold WHandle.seek at he
      split at he
      · injection he with he; subst he; exact hk1.of_same _ _
      · cases he
      · cases he
    · intro r2 hk2
      apply NoPanic.bindQ _ (hk2.np_write bs') (hk2.write_ret bs')
      intro r3 hk3
      exact hk3.np_drop
  · apply NoPanic.bindQ _ (np_appendFile p h) (appendFile_handleOK p h)
    intro hd hk
    exact hk.np_writeAllAndDrop bs

/-- **`WalkDirIterator::next`** never panics (the loop is structural on the pending directories)
and never yields a panic item -/
theorem walkNext_no_panic {I : World → Prop} (fs : FS) (hfs : fs.NoPanic I) (s : Walk) (hs : s.On fs) :
    NoPanic I (walkNext s) ∧ Returns (walkNext s) (fun r => r.1 ≠ some .panic ∧ r.2.On fs) :=
  ⟨np_walkNext fs hfs s hs, (walkNext_item s).and ((walkNext_on fs s hs).mono (fun _ h => h.2))⟩

/-! #### the slice of copy_dir / move_dir -/

/-- **the walk invariant**: a walk started by `src.walk_dir()` holds only paths of the form
`src.path ++ "/" ++ t`; `next` keeps that and yields only such paths -/
theorem walk_below (src : VPath) :
    Returns src.walkDir (fun s => s.Below src.path) ∧
    ∀ s : Walk, s.Below src.path → Returns (walkNext s) (WalkRetB src.path) :=
  ⟨walkDir_below src, fun s hs => walkNext_below src.path s hs⟩

/-- hence the slice `[prefix_len + 1..]` is in range for every walked item -/
theorem relJoin_in_range (src x : VPath) (hx : Below src.path x) :
    src.path.length + 1 ≤ x.path.length := hx.length

/-- and `relJoin` is the plain `join` of the relative part: a path or `InvalidPath`, never
`.panic` -/
theorem relJoin_no_panic (dst src x : VPath) (hx : Below src.path x) :
    relJoin dst src.path.length x ≠ .panic ∧
    relJoin dst src.path.length x = dst.join (x.path.drop (src.path.length + 1)) :=
  ⟨relJoin_ne_panic dst src.path x hx, relJoin_eq_join dst src.path x hx⟩

/-- the relative part of `src.path ++ "/" ++ t` is `t` -/
theorem relJoin_relative (base t : Str) : (base ++ '/' :: t).drop (base.length + 1) = t :=
  relJoin_arg base t

/-- the site is a real one: outside the invariant the model panics -/
theorem relJoin_site_is_real (dst : VPath) (n : Nat) (x : VPath) (h : x.path.length < n + 1) :
    relJoin dst n x = .panic := relJoin_panics dst n x h

/-! #### fuel-taking recursions -/

/-- one unfolding of `remove_dir_all` never panics provided the recursive calls do not -/
theorem removeDirAll_step {I : World → Prop} (fuel : Nat) (p : VPath) (h : p.fs.NoPanic I)
    (hrec : ∀ c : VPath, c.fs = p.fs → NoPanic I (removeDirAll fuel c)) :
    NoPanic I (removeDirAll (fuel + 1) p) := np_removeDirAll_step fuel p h hrec

/-- **a `.panic` of `remove_dir_all` can only be the fuel sentinel** -/
theorem removeDirAll_panic_is_fuel {I : World → Prop} (fuel : Nat) (p : VPath) (h : p.fs.NoPanic I)
    (w : World) (hw : I w) (hp : (removeDirAll fuel p w).1 = .panic) : RemoveDirAllOut fuel p w :=
  removeDirAll_panic fuel p h w hw hp

/-- with fuel left, a path that does not exist is done at once -/
theorem removeDirAll_missing (fuel : Nat) (p : VPath) (w : World)
    (h : (p.exists_ w).1 = .ok false) : ¬ RemoveDirAllOut (fuel + 1) p w := by
  unfold RemoveDirAllOut
  rintro ⟨w1, children, w2, hex, _⟩
  rw [hex] at h
  cases h

theorem walkAll_step {I : World → Prop} (fs : FS) (hfs : fs.NoPanic I) (fuel : Nat) (s : Walk)
    (hs : s.On fs) (hrec : ∀ s' : Walk, s'.On fs → NoPanic I (walkAll fuel s')) :
    NoPanic I (walkAll (fuel + 1) s) := np_walkAll_step fs hfs fuel s hs hrec

/-- **a `.panic` of the collected walk can only be the fuel sentinel** (the iterator yielded at
least `fuel` items) -/
theorem walkAll_panic_is_fuel {I : World → Prop} (fs : FS) (hfs : fs.NoPanic I) (fuel : Nat)
    (s : Walk) (hs : s.On fs) (w : World) (hw : I w) (hp : (walkAll fuel s w).1 = .panic) :
    WalkAllOut fuel s w := walkAll_panic fs hfs fuel s hs w hw hp

theorem copyItems_step {I : World → Prop} (fuel : Nat) (src dst : VPath) (hs : src.fs.NoPanic I)
    (hd : dst.fs.NoPanic I) (s : Walk) (hfrom : s.From src) (count : Nat)
    (hrec : ∀ (s' : Walk) (c : Nat), s'.From src → NoPanic I (copyItems fuel src dst s' c)) :
    NoPanic I (copyItems (fuel + 1) src dst s count) :=
  np_copyItems_step fuel src dst hs hd s hfrom count hrec

/-- **a `.panic` of the loop of copy_dir / move_dir can only be the fuel sentinel** — never the
slice `&src_path[prefix_len + 1..]` -/
theorem copyItems_panic_is_fuel {I : World → Prop} (fuel : Nat) (src dst : VPath)
    (hs : src.fs.NoPanic I) (hd : dst.fs.NoPanic I) (s : Walk) (hfrom : s.From src) (count : Nat)
    (w : World) (hw : I w) (hp : (copyItems fuel src dst s count w).1 = .panic) :
    CopyItemsOut src dst fuel s w := copyItems_panic fuel src dst hs hd s hfrom count w hw hp

theorem copyDir_step {I : World → Prop} (fuel : Nat) (src dst : VPath) (hs : src.fs.NoPanic I)
    (hd : dst.fs.NoPanic I)
    (hrec : ∀ s : Walk, s.From src → NoPanic I (copyItems fuel src dst s 0)) :
    NoPanic I (src.copyDir fuel dst) := np_copyDir_of fuel src dst hs hd hrec

theorem copyDir_panic_is_fuel {I : World → Prop} (fuel : Nat) (src dst : VPath)
    (hs : src.fs.NoPanic I) (hd : dst.fs.NoPanic I) (w : World) (hw : I w)
    (hp : (src.copyDir fuel dst w).1 = .panic) :
    ∃ w1 w2 s w3, dst.exists_ w = (.ok false, w1) ∧ dst.createDir w1 = (.ok (), w2) ∧
      src.walkDir w2 = (.ok s, w3) ∧ CopyItemsOut src dst fuel s w3 :=
  copyDir_panic fuel src dst hs hd w hw hp

theorem moveDir_step {I : World → Prop} (fuel : Nat) (src dst : VPath) (hs : src.fs.NoPanic I)
    (hd : dst.fs.NoPanic I)
    (hrec1 : ∀ s : Walk, s.From src → NoPanic I (copyItems fuel src dst s 0))
    (hrec2 : NoPanic I (removeDirAll fuel src)) :
    NoPanic I (src.moveDir fuel dst) := np_moveDir_of fuel src dst hs hd hrec1 hrec2

theorem moveDir_panic_is_fuel {I : World → Prop} (fuel : Nat) (src dst : VPath)
    (hs : src.fs.NoPanic I) (hd : dst.fs.NoPanic I) (w : World) (hw : I w)
    (hp : (src.moveDir fuel dst w).1 = .panic) :
    (∃ s w', s.From src ∧ I w' ∧ CopyItemsOut src dst fuel s w') ∨
    (∃ w', I w' ∧ RemoveDirAllOut fuel src w') := moveDir_panic fuel src dst hs hd w hw hp

/-! ### 5. adapters -/

theorem altroot_no_panic {I : World → Prop} (root : VPath) (h : root.fs.NoPanic I) :
    (Altroot.fs root).NoPanic I := Altroot.noPanic root h

theorem overlay_no_panic {I : World → Prop} (layers : List VPath)
    (hl : ∀ l ∈ layers, l.fs.NoPanic I) : (Overlay.fs layers).NoPanic I :=
  Overlay.noPanic layers hl

theorem embedded_no_panic {I : World → Prop} (s : Embedded.State) : (Embedded.fs s).NoPanic I :=
  Embedded.noPanic s

/-- the regression: the `split_at(1)` version of `EmbeddedFS::open_file` panics on the root, for
every state; away from the root it agrees with the fixed version -/
theorem embedded_old_open_file_panics (s : Embedded.State) :
    Embedded.openFileSplitAt s [] = .panic ∧
    (∀ p, p ≠ [] → Embedded.openFileSplitAt s p = Embedded.openFile s p) ∧
    Embedded.openFile s [] ≠ .panic :=
  ⟨rfl, Embedded.openFileSplitAt_eq s, Embedded.openFile_ne_panic s []⟩

/-- the harness-side recording wrapper is transparent for panics when the invariant does not
look at the ghost log -/
theorem recordFS_no_panic {I : World → Prop} (tag : Nat) (inner : FS) (h : inner.NoPanic I)
    (hlog : ∀ w l, I w → I { w with log := l }) : (recordFS tag inner).NoPanic I := by
  have hl : ∀ m p p2, NoPanic I (logCall tag m p p2) := fun m p p2 =>
    ⟨fun w hw => hlog w _ hw, fun _ _ => Res.ok_ne_panic _⟩
  exact {
    readDir := fun p => .bind (hl ..) (fun _ => h.readDir p)
    createDir := fun p => .bind (hl ..) (fun _ => h.createDir p)
    openFile := fun p => .bind (hl ..) (fun _ => h.openFile p)
    createFile := fun p => .bind (hl ..) (fun _ => h.createFile p)
    appendFile := fun p => .bind (hl ..) (fun _ => h.appendFile p)
    metadata := fun p => .bind (hl ..) (fun _ => h.metadata p)
    setCreationTime := fun p t => .bind (hl ..) (fun _ => h.setCreationTime p t)
    setModificationTime := fun p t => .bind (hl ..) (fun _ => h.setModificationTime p t)
    setAccessTime := fun p t => .bind (hl ..) (fun _ => h.setAccessTime p t)
    exists_ := fun p => .bind (hl ..) (fun _ => h.exists_ p)
    removeFile := fun p => .bind (hl ..) (fun _ => h.removeFile p)
    removeDir := fun p => .bind (hl ..) (fun _ => h.removeDir p)
    copyFile := fun s d => .bind (hl ..) (fun _ => h.copyFile s d)
    moveFile := fun s d => .bind (hl ..) (fun _ => h.moveFile s d)
    moveDir := fun s d => .bind (hl ..) (fun _ => h.moveDir s d)
    createHandle := fun p => Returns.bind (fun _ => h.createHandle p)
    appendHandle := fun p => Returns.bind (fun _ => h.appendHandle p) }

/-! ### 6. stacks and call sequences -/

/-- a layer of the example stacks: a leaf, mounted at a path of that leaf -/
def leafLayer (l : Nat × Str) : VPath := { fs := leafFS l.1, fsId := l.1, path := l.2 }

/-- AltrootFS (rooted at `at_`) over OverlayFS over leaves -/
def stackFS (layers : List (Nat × Str)) (id : Nat) (at_ : Str) : FS :=
  Altroot.fs { fs := Overlay.fs (layers.map leafLayer), fsId := id, path := at_ }

/-- **altroot over overlay over leaves never panics** on a world that has the leaves -/
theorem stack_no_panic (n : Nat) (layers : List (Nat × Str)) (h : ∀ l ∈ layers, l.1 < n)
    (id : Nat) (at_ : Str) : (stackFS layers id at_).NoPanic (LeavesLen n) := by
  apply Altroot.noPanic
  apply Overlay.noPanic
  intro l hl
  simp only [List.mem_map] at hl
  obtain ⟨x, hx, rfl⟩ := hl
  exact leafFS_noPanic_len (h x hx)

/-- … with the `VfsPath` primitives on top, for every path string -/
theorem stack_pathops_no_panic (n : Nat) (layers : List (Nat × Str)) (h : ∀ l ∈ layers, l.1 < n)
    (id : Nat) (at_ : Str) (k : Nat) (p : Str) :
    PathOps (LeavesLen n) { fs := stackFS layers id at_, fsId := k, path := p } :=
  pathops_no_panic _ (stack_no_panic n layers h id at_)

/-- the same in elementary terms, for three representative operations -/
theorem stack_raw (n : Nat) (layers : List (Nat × Str)) (h : ∀ l ∈ layers, l.1 < n)
    (id : Nat) (at_ : Str) (k : Nat) (p q : Str) (w : World) (hw : w.leaves.length = n) :
    let P : VPath := { fs := stackFS layers id at_, fsId := k, path := p }
    let Q : VPath := { fs := stackFS layers id at_, fsId := k, path := q }
    (P.createDirAll w).1 ≠ .panic ∧ (P.readToEndChecked w).1 ≠ .panic ∧
    (P.copyFile Q w).1 ≠ .panic ∧ (P.moveFile Q w).1 ≠ .panic := by
  intro P Q
  have hfs := stack_no_panic n layers h id at_
  exact ⟨(np_createDirAll P hfs).np w hw, (np_readToEndChecked P hfs).np w hw,
    (np_copyFile P Q hfs hfs).np w hw, (np_moveFile P Q hfs hfs).np w hw⟩

/-- the public operations of a call sequence; every path is an arbitrary join string applied
to the root of the filesystem -/
inductive Op where
  | exists_ (p : Str) | metadata (p : Str) | createDir (p : Str) | createDirAll (p : Str)
  | readDir (p : Str) | openAndRead (p : Str) (seeks : List SeekFrom)
  | readToString (p : Str) | removeFile (p : Str) | removeDir (p : Str)
  | isFile (p : Str) | isDir (p : Str)
  | setCreationTime (p : Str) (t : Int) | setModificationTime (p : Str) (t : Int)
  | setAccessTime (p : Str) (t : Int)
  | copyFile (s d : Str) | moveFile (s d : Str)
  | walkStep (p : Str)
  /-- create, write, seek, write; remove the file while the handle is open; write again, flush,
  drop -/
  | createSession (p : Str) (bs : Bytes) (s : SeekFrom) (bs' : Bytes)
  | appendSession (p : Str) (bs : Bytes)

/-- one call; its result is discarded -/
def Op.run (root : VPath) : Op → M Unit
  | .exists_ p => do let q ← M.ret (root.join p); let _ ← q.exists_; pure ()
  | .metadata p => do let q ← M.ret (root.join p); let _ ← q.metadata; pure ()
  | .createDir p => do let q ← M.ret (root.join p); q.createDir
  | .createDirAll p => do let q ← M.ret (root.join p); q.createDirAll
  | .readDir p => do let q ← M.ret (root.join p); let _ ← q.readDir; pure ()
  | .openAndRead p seeks => do
      let q ← M.ret (root.join p)
      let r ← q.openFile
      let _ ← M.ret (seeks.foldl (fun h s => (h.seek s).2) r).readToEnd.1
      pure ()
  | .readToString p => do let q ← M.ret (root.join p); let _ ← q.readToEndChecked; pure ()
  | .removeFile p => do let q ← M.ret (root.join p); q.removeFile
  | .removeDir p => do let q ← M.ret (root.join p); q.removeDir
  | .isFile p => do let q ← M.ret (root.join p); let _ ← q.isFile; pure ()
  | .isDir p => do let q ← M.ret (root.join p); let _ ← q.isDir; pure ()
  | .setCreationTime p t => do let q ← M.ret (root.join p); q.setCreationTime t
  | .setModificationTime p t => do let q ← M.ret (root.join p); q.setModificationTime t
  | .setAccessTime p t => do let q ← M.ret (root.join p); q.setAccessTime t
  | .copyFile s d => do
      let a ← M.ret (root.join s)
      let b ← M.ret (root.join d)
      a.copyFile b
  | .moveFile s d => do
      let a ← M.ret (root.join s)
      let b ← M.ret (root.join d)
      a.moveFile b
  | .walkStep p => do
      let q ← M.ret (root.join p)
      let s ← q.walkDir
      let _ ← walkNext s
      pure ()
  | .createSession p bs s bs' => do
      let q ← M.ret (root.join p)
      let h ← q.createFile
      let (_, h1) ← h.write bs
      let _ ← M.attempt (h1.seek s)
      let (_, h2) ← h1.write bs'
      let _ ← M.attempt q.removeFile
      let (_, h3) ← h2.write bs
      h3.flush
      h3.drop
  | .appendSession p bs => do
      let q ← M.ret (root.join p)
      let h ← q.appendFile
      h.writeAllAndDrop bs

/-- a call sequence: errors are observed by the caller and the sequence goes on -/
def runScript (root : VPath) : List Op → M Unit
  | [] => pure ()
  | op :: rest => do
    let _ ← M.attempt (op.run root)
    runScript root rest

theorem op_no_panic {I : World → Prop} (root : VPath) (h : root.fs.NoPanic I) (op : Op) :
    NoPanic I (op.run root) := by
  have hj : ∀ p, NoPanic I (M.ret (root.join p)) := fun p => .ret _ (join_ne_panic root p)
  have hq : ∀ p, Returns (M.ret (root.join p)) (fun q => q.fs.NoPanic I) := fun p =>
    Returns.ret _ (fun q he => by rw [(join_fs _ _ _ he).1]; exact h)
  cases op with
  | exists_ p =>
    exact .bindQ _ (hj p) (hq p) (fun q hq => .bind (np_exists q hq) (fun _ => .pure _))
  | metadata p =>
    exact .bindQ _ (hj p) (hq p) (fun q hq => .bind (np_metadata q hq) (fun _ => .pure _))
  | createDir p => exact .bindQ _ (hj p) (hq p) (fun q hq => np_createDir q hq)
  | createDirAll p => exact .bindQ _ (hj p) (hq p) (fun q hq => np_createDirAll q hq)
  | readDir p =>
    exact .bindQ _ (hj p) (hq p) (fun q hq => .bind (np_readDir q hq) (fun _ => .pure _))
  | openAndRead p seeks =>
    exact .bindQ _ (hj p) (hq p) (fun q hq => .bind (np_openFile q hq) (fun r =>
      .bind (.ret _ (RHandle.readToEnd_ne_panic _)) (fun _ => .pure _)))
  | readToString p =>
    exact .bindQ _ (hj p) (hq p) (fun q hq => .bind (np_readToEndChecked q hq) (fun _ => .pure _))
  | removeFile p => exact .bindQ _ (hj p) (hq p) (fun q hq => np_removeFile q hq)
  | removeDir p => exact .bindQ _ (hj p) (hq p) (fun q hq => np_removeDir q hq)
  | isFile p =>
    exact .bindQ _ (hj p) (hq p) (fun q hq => .bind (np_isFile q hq) (fun _ => .pure _))
  | isDir p =>
    exact .bindQ _ (hj p) (hq p) (fun q hq => .bind (np_isDir q hq) (fun _ => .pure _))
  | setCreationTime p t => exact .bindQ _ (hj p) (hq p) (fun q hq => np_setCreationTime q t hq)
  | setModificationTime p t =>
    exact .bindQ _ (hj p) (hq p) (fun q hq => np_setModificationTime q t hq)
  | setAccessTime p t => exact .bindQ _ (hj p) (hq p) (fun q hq => np_setAccessTime q t hq)
  | copyFile s d =>
    exact .bindQ _ (hj s) (hq s) (fun a ha => .bindQ _ (hj d) (hq d) (fun b hb =>
      np_copyFile a b ha hb))
  | moveFile s d =>
    exact .bindQ _ (hj s) (hq s) (fun a ha => .bindQ _ (hj d) (hq d) (fun b hb =>
      np_moveFile a b ha hb))
  | walkStep p =>
    refine .bindQ _ (hj p) (hq p) (fun q hq => ?_)
    refine .bindQ _ (np_walkDir q hq) (walkDir_on q) (fun s hs => ?_)
    exact .bind (np_walkNext q.fs hq s hs) (fun _ => .pure _)
  | createSession p bs s bs' =>
    refine .bindQ _ (hj p) (hq p) (fun q hq => ?_)
    refine .bindQ _ (np_createFile q hq) (createFile_handleOK q hq) (fun hd hk => ?_)
    refine .bindQ _ (hk.np_write bs) (hk.write_ret bs) (fun r1 hk1 => ?_)
    refine .bind (.attempt (HandleOK.np_seek s)) (fun _ => ?_)
    refine .bindQ _ (hk1.np_write bs') (hk1.write_ret bs') (fun r2 hk2 => ?_)
    refine .bind (.attempt (np_removeFile q hq)) (fun _ => ?_)
    refine .bindQ _ (hk2.np_write bs) (hk2.write_ret bs) (fun r3 hk3 => ?_)
    exact .bind hk3.np_flush (fun _ => hk3.np_drop)
  | appendSession p bs =>
    refine .bindQ _ (hj p) (hq p) (fun q hq => ?_)
    exact .bindQ _ (np_appendFile q hq) (appendFile_handleOK q hq) (fun hd hk =>
      hk.np_writeAllAndDrop bs)

/-- **no call sequence makes the library panic**: any finite sequence of the public
non-recursive operations, on arbitrary join strings, continued after every error -/
theorem script_no_panic {I : World → Prop} (root : VPath) (h : root.fs.NoPanic I) (ops : List Op) :
    NoPanic I (runScript root ops) := by
  induction ops with
  | nil => exact .pure _
  | cons op rest ih =>
    exact .bind (.attempt (op_no_panic root h op)) (fun _ => ih)

/-- the same for the example stacks, in elementary terms -/
theorem stack_script_no_panic (n : Nat) (layers : List (Nat × Str)) (h : ∀ l ∈ layers, l.1 < n)
    (id : Nat) (at_ : Str) (k : Nat) (ops : List Op) (w : World) (hw : w.leaves.length = n) :
    (runScript { fs := stackFS layers id at_, fsId := k, path := [] } ops w).1 ≠ .panic :=
  (script_no_panic _ (stack_no_panic n layers h id at_) ops).np w hw

/-! ### 7. non-vacuity -/

/-- a world with one MemoryFS leaf and one PhysicalFS leaf -/
def w0 : World := { leaves := [{ kind := .mem, files := Mem.init }, { kind := .phys, files := Phys.init }] }

def memRoot : VPath := { fs := leafFS 0, fsId := 0, path := [] }
def memA : VPath := { fs := leafFS 0, fsId := 0, path := ['/', 'a'] }
def memAB : VPath := { fs := leafFS 0, fsId := 0, path := ['/', 'a', '/', 'b'] }

example : LeavesLen 2 w0 := rfl
example : LeafExists 0 w0 ∧ LeafExists 1 w0 :=
  ⟨(LeafExists.iff_lt 0 w0).2 (by decide), (LeafExists.iff_lt 1 w0).2 (by decide)⟩

/-- **why the invariant is needed**: `onLeaf` DOES panic when the leaf is missing -/
example : ((leafFS 2).exists_ [] w0).1 = .panic := by decide
example : ¬ LeafExists 2 w0 := fun h => absurd ((LeafExists.iff_lt 2 w0).1 h) (by decide)
example : ((leafFS 0).exists_ [] { leaves := [] }).1 = .panic := by decide

/-- calls on the root and of the wrong type return errors -/
example : (memRoot.removeFile w0).1 = .err .other (some []) := by decide
example : (memRoot.createDir w0).1 = .err .other (some []) := by decide
example : (memRoot.openFile w0).1.isOk = false := by decide
example : (memRoot.readToEndChecked w0).1 = .err .other (some []) := by decide
example : (memA.readDir w0).1.kind? = some .fileNotFound := by decide
example : (({ fs := leafFS 1, fsId := 1, path := [] } : VPath).removeDir w0).1.isPanic = false := by
  decide

/-- a successful run: create_dir_all on the memory leaf -/
example : (memAB.createDirAll w0).1 = .ok () := by decide

/-- a handle used after its file was removed: the writes and the flush succeed -/
example : ((do
    let h ← memA.createFile
    memA.removeFile
    let (_, h') ← h.write [1, 2]
    h'.flush
    h'.drop : M Unit) w0).1 = .ok () := by decide
/-- … and, since `memPublish` publishes only while the destination is still an existing file
(model change following the Rust fix), the flush / drop of such a handle leaves the map
unchanged: the removed file is NOT resurrected (before the change the same run gave `true`) -/
example : ((do
    let h ← memA.createFile
    memA.removeFile
    let (_, h') ← h.write [1, 2]
    h'.flush
    h'.drop
    memA.exists_ : M Bool) w0).1 = .ok false := by decide

/-- a handle whose leaf does not exist (any more) is tolerated as well -/
example : ((({ leaf := 7, key := ['/', 'x'], kind := .physCreate, buf := [], pos := 0 } : WHandle).write
    [1] w0).1).isPanic = false := by decide
example : ((({ leaf := 7, key := ['/', 'x'], kind := .memFile, buf := [1], pos := 1 } : WHandle).flush
    w0).1) = .ok () := by decide

/-- the slice site is real: a path not below the prefix panics in the model -/
example : (relJoin memRoot 5 memA).isPanic = true := by decide
/-- and below the prefix it is the join of the relative part -/
example : ((relJoin memRoot 2 memAB).map (·.path)) = .ok ['/', 'b'] := by decide

/-- the fuel sentinel: with fuel 0 the model "panics", with enough fuel it does not; the
exhaustion predicate tells the two apart -/
example : (removeDirAll 0 memA w0).1 = .panic := by unfold removeDirAll; rfl
example : RemoveDirAllOut 0 memA w0 := by unfold RemoveDirAllOut; trivial
example : (removeDirAll 1 memA w0).1 = .ok () := by unfold removeDirAll; decide
example : ¬ RemoveDirAllOut 1 memA w0 := removeDirAll_missing 0 memA w0 (by decide)

/-- the world after `create_dir_all("/a/b")` -/
def w1 : World := (memAB.createDirAll w0).2

/-- `/a` now has depth 2: fuel 1 hits the sentinel (in the recursive call on `/a/b`), fuel 2
removes the tree (`removeDirAll` is defined by well-founded recursion, hence the unfolding
before `decide`) -/
example : (removeDirAll 1 memA w1).1 = .panic := by
  unfold removeDirAll; unfold removeChildren; unfold removeDirAll; decide
example : (removeDirAll 2 memA w1).1 = .ok () := by
  unfold removeDirAll; unfold removeChildren; unfold removeDirAll; unfold removeChildren; decide
/-- and the exhaustion theorem applies to the first run -/
example : RemoveDirAllOut 1 memA w1 :=
  removeDirAll_panic_is_fuel 1 memA (leaf_no_panic_len (n := 2) (by decide)) w1
    (show w1.leaves.length = 2 by decide)
    (by unfold removeDirAll; unfold removeChildren; unfold removeDirAll; decide)
/-- collecting a walk: one item needs fuel 2 (the second step sees the end) -/
example : (walkAll 1 { inner := [memAB], todo := [] } w1).1.isPanic = true := by decide
example : (walkAll 2 { inner := [memAB], todo := [] } w1).1.isPanic = false := by decide

/-- the embedded regression on a concrete state -/
example : Embedded.openFileSplitAt (Embedded.new [(['a'], [1])]) [] = .panic := rfl
example : Embedded.openFile (Embedded.new [(['a'], [1])]) [] = fail .fileNotFound := by decide

/-- the stack theorem instantiated: overlay of the two leaves of `w0` behind an altroot -/
example (ops : List Op) :
    (runScript { fs := stackFS [(0, []), (1, [])] 9 [], fsId := 9, path := [] } ops w0).1 ≠ .panic :=
  stack_script_no_panic 2 _ (by decide) 9 [] 9 ops w0 rfl

end Vfs.C13
