/-
  C18 — EmbeddedFS is a faithful read-only view of the embedded folder.

  * every mutator is `NotSupported` and leaves the world alone; observers never change the
    world and never panic;
  * the directory map built by `EmbeddedFS::new` is characterised EXACTLY, for every file list
    (no hypothesis): `d ↦ children` with `c ∈ children` iff some embedded path has components
    `pre ++ c :: post` with `d = pre` joined by '/'  (`has_new`);
  * under `FolderLike fl` (what a real folder gives: non-empty components, distinct paths, no
    file that is also a directory) files, directories, the root and absent paths are observed
    as they should be.
  `key cs` is the relative path "c1/c2/…/cn" of a component list; the VFS path is `'/' :: key cs`.
-/
import VfsModel.Embedded
import VfsModel.Proofs.PathLemmas
import VfsModel.Props.C06
namespace Vfs.C18
open Vfs.Embedded

/-! ### read-only -/

/-- every mutator of the embedded filesystem refuses with `NotSupported`, whatever the
arguments, and the world is unchanged -/
theorem embedded_readonly (s : State) (p q : Str) (t : Int) (w : World) :
    (fs s).createDir p w = (fail .notSupported, w) ∧
    ((fs s).createFile p w).2 = w ∧ ((fs s).createFile p w).1 = fail .notSupported ∧
    ((fs s).appendFile p w).2 = w ∧ ((fs s).appendFile p w).1 = fail .notSupported ∧
    (fs s).removeFile p w = (fail .notSupported, w) ∧
    (fs s).removeDir p w = (fail .notSupported, w) ∧
    (fs s).setCreationTime p t w = (fail .notSupported, w) ∧
    (fs s).setModificationTime p t w = (fail .notSupported, w) ∧
    (fs s).setAccessTime p t w = (fail .notSupported, w) ∧
    (fs s).copyFile p q w = (fail .notSupported, w) ∧
    (fs s).moveFile p q w = (fail .notSupported, w) ∧
    (fs s).moveDir p q w = (fail .notSupported, w) :=
  ⟨rfl, rfl, rfl, rfl, rfl, rfl, rfl, rfl, rfl, rfl, rfl, rfl, rfl⟩

/-- observers are pure functions of the embedded data: the world is handed back unchanged -/
theorem observers_pure (s : State) (p : Str) (w : World) :
    (fs s).readDir p w = (readDir s p, w) ∧
    (fs s).openFile p w = (openFile s p, w) ∧
    (fs s).metadata p w = (metadata s p, w) ∧
    (fs s).exists_ p w = (.ok (exists_ s p), w) := ⟨rfl, rfl, rfl, rfl⟩

/-- observers never panic, whatever the path (`normalize_path("")` is `""`, `open_file` goes
through `normalize_path` like the others) -/
theorem observers_no_panic (s : State) (p : Str) :
    readDir s p ≠ .panic ∧ openFile s p ≠ .panic ∧ metadata s p ≠ .panic := by
  refine ⟨?_, ?_, ?_⟩
  · unfold readDir; split
    · simp
    · split <;> simp [fail]
  · unfold openFile; split <;> simp [fail]
  · unfold metadata; split
    · simp
    · split <;> simp [fail]

/-! ### relative paths as component lists -/

/-- "c1/c2/…/cn" -/
def key (cs : List Str) : Str := (renderC cs).drop 1

@[simp] theorem key_nil : key [] = [] := rfl
@[simp] theorem key_single (c : Str) : key [c] = c := by simp [key]

theorem renderC_eq (cs : List Str) (h : cs ≠ []) : renderC cs = '/' :: key cs := by
  cases cs with
  | nil => exact absurd rfl h
  | cons c cs => simp [key]

theorem key_snoc (cs : List Str) (c : Str) (h : cs ≠ []) :
    key (cs ++ [c]) = key cs ++ '/' :: c := by
  show (renderC (cs ++ [c])).drop 1 = _
  rw [renderC_snoc, renderC_eq cs h]
  simp

theorem key_append (a b : List Str) (ha : a ≠ []) (hb : b ≠ []) :
    key (a ++ b) = key a ++ '/' :: key b := by
  show (renderC (a ++ b)).drop 1 = _
  rw [renderC_append, renderC_eq a ha, renderC_eq b hb]
  simp

/-- the VFS path of a non-empty component list normalises to its key -/
theorem normalize_renderC (cs : List Str) : normalize (renderC cs) = key cs := rfl

theorem renderC_splitSlash (s : Str) : renderC (splitOnC '/' s) = '/' :: s := by
  induction s with
  | nil => simp [splitOnC]
  | cons c cs ih =>
    unfold splitOnC
    split
    · rename_i h; subst h; simp [ih]
    · cases hsp : splitOnC '/' cs with
      | nil => exact absurd hsp (splitOnC_ne_nil _ _)
      | cons h t =>
        rw [hsp] at ih
        simp only [renderC_cons, List.cons_append, List.cons.injEq, true_and] at ih ⊢
        exact ih

/-- joining the components of a string gives the string back -/
theorem key_splitSlash (s : Str) : key (splitSlash s) = s := by
  unfold key splitSlash; rw [renderC_splitSlash]; rfl

theorem splitOnC_length_le (d : Char) (s : Str) : (splitOnC d s).length ≤ s.length + 1 := by
  induction s with
  | nil => simp [splitOnC]
  | cons c cs ih =>
    unfold splitOnC
    split
    · simp; omega
    · cases hsp : splitOnC d cs with
      | nil => simp
      | cons h t => rw [hsp] at ih; simp at ih ⊢; omega

theorem rsplitOnce_key_snoc (cs : List Str) (c : Str) (h : cs ≠ []) (hc : '/' ∉ c) :
    rsplitOnce (key (cs ++ [c])) = some (key cs, c) := by
  rw [key_snoc cs c h]
  unfold rsplitOnce
  rw [if_pos (by simp), beforeLast_append_delim _ _ _ hc, afterLast_append_delim _ _ _ hc]

theorem rsplitOnce_no_slash (c : Str) (hc : '/' ∉ c) : rsplitOnce c = none := by
  unfold rsplitOnce; rw [if_neg hc]

/-! ### the directory map -/

/-- `c` is listed as a child of `k` -/
def Has (d : DirMap) (k c : Str) : Prop := ∃ v, d.get? k = some v ∧ c ∈ v

/-- no key maps to the empty set (an entry is created only together with a child) -/
def NonEmptyVals (d : DirMap) : Prop := ∀ k v, d.get? k = some v → v ≠ []

/-- no child is listed twice (the Rust value is a `HashSet`) -/
def NodupVals (d : DirMap) : Prop := ∀ k v, d.get? k = some v → v.Nodup

theorem get?_add_self (d : DirMap) (k c : Str) :
    (d.add k c).get? k = some (match d.get? k with
      | none => [c]
      | some v => if c ∈ v then v else v ++ [c]) := by
  induction d with
  | nil => simp [DirMap.add, DirMap.get?]
  | cons kv rest ih =>
    obtain ⟨k', v⟩ := kv
    unfold DirMap.add
    by_cases h : k' = k
    · simp [h, DirMap.get?]
    · simp [h, DirMap.get?, ih]

theorem get?_add_ne (d : DirMap) (k c k' : Str) (h : k' ≠ k) :
    (d.add k c).get? k' = d.get? k' := by
  induction d with
  | nil =>
    have h' : ¬ k = k' := fun e => h e.symm
    simp [DirMap.add, DirMap.get?, h']
  | cons kv rest ih =>
    obtain ⟨k1, v⟩ := kv
    unfold DirMap.add
    by_cases h1 : k1 = k
    · subst h1
      have h' : ¬ k1 = k' := fun e => h e.symm
      simp [DirMap.get?, h']
    · simp only [if_neg h1, DirMap.get?, ih]

theorem has_add (d : DirMap) (k c k' c' : Str) :
    Has (d.add k c) k' c' ↔ Has d k' c' ∨ (k' = k ∧ c' = c) := by
  unfold Has
  by_cases hk : k' = k
  · subst hk
    rw [get?_add_self]
    cases hg : d.get? k' with
    | none => simp
    | some v =>
      by_cases hc : c ∈ v
      · simp only [hc, if_true, Option.some.injEq, exists_eq_left', true_and]
        constructor
        · exact Or.inl
        · rintro (h | rfl)
          · exact h
          · exact hc
      · simp [hc]
  · rw [get?_add_ne _ _ _ _ hk]; simp [hk]

theorem nonEmptyVals_add (d : DirMap) (k c : Str) (h : NonEmptyVals d) :
    NonEmptyVals (d.add k c) := by
  intro k' v hv
  by_cases hk : k' = k
  · subst hk
    rw [get?_add_self] at hv
    injection hv with hv
    subst hv
    cases hg : d.get? k' with
    | none => simp
    | some v0 =>
      have := h k' v0 hg
      dsimp only
      split
      · exact this
      · simp
  · rw [get?_add_ne _ _ _ _ hk] at hv; exact h k' v hv

theorem nodupVals_add (d : DirMap) (k c : Str) (h : NodupVals d) : NodupVals (d.add k c) := by
  intro k' v hv
  by_cases hk : k' = k
  · subst hk
    rw [get?_add_self] at hv
    injection hv with hv
    subst hv
    cases hg : d.get? k' with
    | none => simp
    | some v0 =>
      have := h k' v0 hg
      dsimp only
      split
      · exact this
      · rename_i hc
        rw [List.nodup_append]
        refine ⟨this, by simp, ?_⟩
        intro a ha b hb
        simp at hb; subst hb
        intro e; subst e; exact hc ha
  · rw [get?_add_ne _ _ _ _ hk] at hv; exact h k' v hv

/-- anything `add` preserves, `climb` preserves -/
theorem climb_preserves (P : DirMap → Prop) (hadd : ∀ d k c, P d → P (d.add k c))
    (fuel : Nat) (d : DirMap) (path : Str) (h : P d) : P (climb fuel d path) := by
  induction fuel generalizing d path with
  | zero => unfold climb; exact hadd _ _ _ h
  | succ fuel ih =>
    unfold climb
    split
    · exact ih _ _ (hadd _ _ _ h)
    · exact hadd _ _ _ h

theorem fold_preserves (P : DirMap → Prop) (hadd : ∀ d k c, P d → P (d.add k c))
    (fl : List (Str × Bytes)) (d : DirMap) (h : P d) :
    P (fl.foldl (fun d f => climb f.1.length d f.1) d) := by
  induction fl generalizing d with
  | nil => exact h
  | cons f rest ih => exact ih _ (climb_preserves P hadd _ _ _ h)

theorem new_nonEmptyVals (fl : List (Str × Bytes)) : NonEmptyVals (new fl).directoryMap :=
  fold_preserves _ nonEmptyVals_add fl [] (fun k v h => by simp [DirMap.get?] at h)

theorem new_nodupVals (fl : List (Str × Bytes)) : NodupVals (new fl).directoryMap :=
  fold_preserves _ nodupVals_add fl [] (fun k v h => by simp [DirMap.get?] at h)

theorem isSome_get?_iff (d : DirMap) (h : NonEmptyVals d) (k : Str) :
    (d.get? k).isSome = true ↔ ∃ c, Has d k c := by
  unfold Has
  cases hg : d.get? k with
  | none => simp
  | some v =>
    have := h k v hg
    cases v with
    | nil => exact absurd rfl this
    | cons a t => simp

/-- one run of the `while let Some((prefix, suffix)) = rsplit_once(path)` loop on the path
with components `cs`: it records, for every split `cs = pre ++ x :: post`, the child `x`
under the directory `pre` — and nothing else. The fuel used by `new` (the length of the
string) is always enough. -/
theorem has_climb_aux (n : Nat) : ∀ (cs : List Str), cs.length = n + 1 → (∀ c ∈ cs, '/' ∉ c) →
    ∀ fuel, n ≤ fuel → ∀ (d : DirMap) (k x : Str),
    (Has (climb fuel d (key cs)) k x ↔
      Has d k x ∨ ∃ pre post, cs = pre ++ x :: post ∧ k = key pre) := by
  induction n with
  | zero =>
    intro cs hlen hsl fuel _ d k x
    cases cs with
    | nil => simp at hlen
    | cons c t =>
      cases t with
      | cons _ _ => simp at hlen
      | nil =>
        have hc : '/' ∉ c := hsl c (by simp)
        have hcl : climb fuel d (key [c]) = d.add [] c := by
          rw [key_single]
          cases fuel with
          | zero => rfl
          | succ f => unfold climb; rw [rsplitOnce_no_slash c hc]
        rw [hcl, has_add]
        constructor
        · rintro (h | ⟨rfl, rfl⟩)
          · exact Or.inl h
          · exact Or.inr ⟨[], [], rfl, rfl⟩
        · rintro (h | ⟨pre, post, he, rfl⟩)
          · exact Or.inl h
          · right
            cases pre with
            | nil => simp at he; exact ⟨rfl, he.1.symm⟩
            | cons a pre' => simp at he
  | succ n ih =>
    intro cs hlen hsl fuel hfuel d k x
    rcases List.eq_nil_or_concat cs with rfl | ⟨l, c, rfl⟩
    · simp at hlen
    · simp only [List.concat_eq_append] at hlen hsl ⊢
      have hl : l.length = n + 1 := by simpa using hlen
      have hlne : l ≠ [] := by intro e; subst e; simp at hl
      have hc : '/' ∉ c := hsl c (by simp)
      obtain ⟨fuel', rfl⟩ : ∃ f', fuel = f' + 1 := ⟨fuel - 1, by omega⟩
      have hcl : climb (fuel' + 1) d (key (l ++ [c])) = climb fuel' (d.add (key l) c) (key l) := by
        rw [climb, rsplitOnce_key_snoc l c hlne hc]
      rw [hcl, ih l hl (fun c hc => hsl c (by simp [hc])) fuel' (by omega), has_add]
      constructor
      · rintro ((h | ⟨rfl, rfl⟩) | ⟨pre, post, rfl, rfl⟩)
        · exact Or.inl h
        · exact Or.inr ⟨l, [], rfl, rfl⟩
        · exact Or.inr ⟨pre, post ++ [c], by simp, rfl⟩
      · rintro (h | ⟨pre, post, he, rfl⟩)
        · exact Or.inl (Or.inl h)
        · rcases List.eq_nil_or_concat post with rfl | ⟨post', y, rfl⟩
          · have := List.append_inj' he rfl
            obtain ⟨h1, h2⟩ := this
            simp at h2
            subst h1; subst h2
            exact Or.inl (Or.inr ⟨rfl, rfl⟩)
          · simp only [List.concat_eq_append] at he
            have he' : l ++ [c] = (pre ++ x :: post') ++ [y] := by simpa using he
            have := (List.append_inj' he' rfl).1
            exact Or.inr ⟨pre, post', this, rfl⟩

theorem has_climb (s : Str) (d : DirMap) (k x : Str) :
    Has (climb s.length d s) k x ↔
      Has d k x ∨ ∃ pre post, splitSlash s = pre ++ x :: post ∧ k = key pre := by
  have hne := splitOnC_ne_nil '/' s
  have hlen := splitOnC_length_le '/' s
  obtain ⟨n, hn⟩ : ∃ n, (splitSlash s).length = n + 1 := by
    refine ⟨(splitSlash s).length - 1, ?_⟩
    have : (splitSlash s).length ≠ 0 := fun e => hne (List.eq_nil_of_length_eq_zero e)
    omega
  have := has_climb_aux n (splitSlash s) hn (splitOnC_no_delim '/' s) s.length
    (by unfold splitSlash at hn; omega) d k x
  rw [key_splitSlash] at this
  exact this

theorem has_fold (fl : List (Str × Bytes)) (d0 : DirMap) (k x : Str) :
    Has (fl.foldl (fun d f => climb f.1.length d f.1) d0) k x ↔
      Has d0 k x ∨ ∃ f ∈ fl, ∃ pre post, splitSlash f.1 = pre ++ x :: post ∧ k = key pre := by
  induction fl generalizing d0 with
  | nil => simp
  | cons f rest ih =>
    rw [List.foldl_cons, ih, has_climb]
    simp only [List.mem_cons, exists_eq_or_imp, or_assoc]

/-- THE characterisation of the directory map of `EmbeddedFS::new`, for every file list:
`x` is listed under `k` iff some embedded path splits as `pre / x / post` with `k = pre` -/
theorem has_new (fl : List (Str × Bytes)) (k x : Str) :
    Has (new fl).directoryMap k x ↔
      ∃ f ∈ fl, ∃ pre post, splitSlash f.1 = pre ++ x :: post ∧ k = key pre := by
  unfold new
  rw [has_fold]
  simp [Has, DirMap.get?]

/-- the keys of the directory map are exactly the proper directory prefixes (root included) -/
theorem isDir_new_iff (fl : List (Str × Bytes)) (k : Str) :
    ((new fl).directoryMap.get? k).isSome = true ↔
      ∃ f ∈ fl, ∃ pre x post, splitSlash f.1 = pre ++ x :: post ∧ k = key pre := by
  rw [isSome_get?_iff _ (new_nonEmptyVals fl)]
  constructor
  · rintro ⟨c, hc⟩
    obtain ⟨f, hf, pre, post, h1, h2⟩ := (has_new fl k c).mp hc
    exact ⟨f, hf, pre, c, post, h1, h2⟩
  · rintro ⟨f, hf, pre, x, post, h1, h2⟩
    exact ⟨x, (has_new fl k x).mpr ⟨f, hf, pre, post, h1, h2⟩⟩

/-- soundness of listings, in full generality: every listed name is the next component of
some embedded file below that directory -/
theorem children_sound (fl : List (Str × Bytes)) (d : Str) (children : List Str) (c : Str)
    (h : (new fl).directoryMap.get? d = some children) (hc : c ∈ children) :
    ∃ f ∈ fl, ∃ pre post, splitSlash f.1 = pre ++ c :: post ∧ d = key pre :=
  (has_new fl d c).mp ⟨children, h, hc⟩

/-- the same in terms of strings, for a directory other than the root: the file's path is
`d/c` or starts with `d/c/` -/
theorem children_sound_str (fl : List (Str × Bytes)) (d : Str) (children : List Str) (c : Str)
    (h : (new fl).directoryMap.get? d = some children) (hc : c ∈ children) (hd : d ≠ []) :
    ∃ f ∈ fl, f.1 = d ++ '/' :: c ∨ ∃ rest, f.1 = d ++ '/' :: c ++ '/' :: rest := by
  obtain ⟨f, hf, pre, post, hsp, rfl⟩ := children_sound fl d children c h hc
  refine ⟨f, hf, ?_⟩
  have hpre : pre ≠ [] := by intro e; subst e; exact hd rfl
  have : f.1 = key (pre ++ c :: post) := by rw [← hsp, key_splitSlash]
  rw [this]
  cases post with
  | nil => left; exact key_snoc pre c hpre
  | cons y ys =>
    right
    refine ⟨key (y :: ys), ?_⟩
    rw [key_append pre (c :: y :: ys) hpre (by simp),
      show c :: y :: ys = [c] ++ (y :: ys) from rfl, key_append [c] (y :: ys) (by simp) (by simp)]
    simp

/-- for the root: the listed names are first components -/
theorem root_children_sound (fl : List (Str × Bytes)) (children : List Str) (c : Str)
    (h : (new fl).directoryMap.get? [] = some children) (hc : c ∈ children) :
    ∃ f ∈ fl, ∃ pre post, splitSlash f.1 = pre ++ c :: post ∧ key pre = [] := by
  obtain ⟨f, hf, pre, post, h1, h2⟩ := children_sound fl [] children c h hc
  exact ⟨f, hf, pre, post, h1, h2.symm⟩

/-- completeness of listings: the component after any directory prefix is listed there, and
each name is listed once -/
theorem children_complete (fl : List (Str × Bytes)) (f : Str × Bytes) (hf : f ∈ fl)
    (pre post : List Str) (c : Str) (hsp : splitSlash f.1 = pre ++ c :: post) :
    ∃ children, (new fl).directoryMap.get? (key pre) = some children ∧ c ∈ children ∧
      children.Nodup := by
  obtain ⟨v, hv, hc⟩ := (has_new fl (key pre) c).mpr ⟨f, hf, pre, post, hsp, rfl⟩
  exact ⟨v, hv, hc, new_nodupVals fl _ v hv⟩

/-- in terms of strings: a file `d/rest` makes `d` a directory listing the first component
of `rest` -/
theorem children_complete_str (fl : List (Str × Bytes)) (d rest : Str) (b : Bytes)
    (hf : (d ++ '/' :: rest, b) ∈ fl) :
    ∃ children, (new fl).directoryMap.get? d = some children ∧
      (splitSlash rest).head? = some ((splitSlash rest).headD []) ∧
      (splitSlash rest).headD [] ∈ children := by
  have hsp : splitSlash (d ++ '/' :: rest) = splitSlash d ++ splitSlash rest :=
    C06.splitOnC_append '/' d rest
  cases hr : splitSlash rest with
  | nil => exact absurd hr (splitOnC_ne_nil _ _)
  | cons c post =>
    rw [hr] at hsp
    obtain ⟨v, hv, hc, _⟩ := children_complete fl _ hf (splitSlash d) post c hsp
    rw [key_splitSlash] at hv
    exact ⟨v, hv, rfl, hc⟩

/-! ### the file table -/

theorem fileGet?_eq_none (fl : List (Str × Bytes)) (k : Str) (h : ∀ f ∈ fl, f.1 ≠ k) :
    fileGet? fl k = none := by
  induction fl with
  | nil => rfl
  | cons f rest ih =>
    obtain ⟨k', v⟩ := f
    unfold fileGet?
    rw [if_neg (h (k', v) (by simp))]
    exact ih (fun f hf => h f (by simp [hf]))

theorem fileGet?_some_mem (fl : List (Str × Bytes)) (k : Str) (b : Bytes)
    (h : fileGet? fl k = some b) : (k, b) ∈ fl := by
  induction fl with
  | nil => cases h
  | cons f rest ih =>
    obtain ⟨k', v⟩ := f
    unfold fileGet? at h
    split at h
    · rename_i hk; injection h with h; subst hk; subst h; simp
    · simp [ih h]

theorem fileGet?_of_mem (fl : List (Str × Bytes)) (k : Str) (b : Bytes)
    (hnd : (fl.map (·.1)).Nodup) (h : (k, b) ∈ fl) : fileGet? fl k = some b := by
  induction fl with
  | nil => cases h
  | cons f rest ih =>
    obtain ⟨k', v⟩ := f
    simp only [List.map_cons, List.nodup_cons] at hnd
    unfold fileGet?
    simp only [List.mem_cons, Prod.mk.injEq] at h
    rcases h with ⟨rfl, rfl⟩ | h
    · simp
    · have : k' ≠ k := by
        intro e; subst e
        exact hnd.1 (List.mem_map.mpr ⟨(k', b), h, rfl⟩)
      rw [if_neg this]
      exact ih hnd.2 h

/-! ### what a folder looks like -/

/-- the shape of the list `RustEmbed` produces for a folder: every path is a '/'-joined list
of non-empty components (hence relative, without leading, trailing or doubled '/'), the paths
are distinct, and no file path is a proper directory prefix of a file path -/
def FolderLike (fl : List (Str × Bytes)) : Prop :=
  (∀ f ∈ fl, ∀ c ∈ splitSlash f.1, c ≠ []) ∧
  (fl.map (·.1)).Nodup ∧
  (∀ f ∈ fl, ∀ g ∈ fl, ∀ i ∈ List.range (splitSlash g.1).length,
      f.1 ≠ key ((splitSlash g.1).take i))

instance (fl : List (Str × Bytes)) : Decidable (FolderLike fl) := by
  unfold FolderLike; exact inferInstance

theorem FolderLike.path_ne_nil {fl} (h : FolderLike fl) (f : Str × Bytes) (hf : f ∈ fl) :
    f.1 ≠ [] := by
  intro e
  have := h.1 f hf [] (by rw [e]; simp [splitSlash, splitOnC])
  exact this rfl

/-- relative: no leading '/' -/
theorem FolderLike.relative {fl} (h : FolderLike fl) (f : Str × Bytes) (hf : f ∈ fl) :
    f.1.head? ≠ some '/' := by
  intro e
  cases hp : f.1 with
  | nil => rw [hp] at e; cases e
  | cons c cs =>
    rw [hp] at e; simp at e; subst e
    have := h.1 f hf [] (by rw [hp]; simp [splitSlash, splitOnC])
    exact this rfl

/-- a directory prefix of an embedded path is not itself an embedded file -/
theorem FolderLike.dir_not_file {fl} (h : FolderLike fl) (g : Str × Bytes) (hg : g ∈ fl)
    (pre post : List Str) (c : Str) (hsp : splitSlash g.1 = pre ++ c :: post) :
    fileGet? fl (key pre) = none := by
  apply fileGet?_eq_none
  intro f hf
  have := h.2.2 f hf g hg pre.length (by rw [hsp]; simp)
  rw [hsp] at this
  simpa using this

/-! ### files -/

/-- an embedded file (first occurrence of its path) is visible as a file with exactly its
bytes; no hypothesis on the list -/
theorem file_visible (fl : List (Str × Bytes)) (f : Str) (b : Bytes)
    (h : fileGet? fl f = some b) :
    exists_ (new fl) ('/' :: f) = true ∧
    metadata (new fl) ('/' :: f) =
      .ok { ftype := .file, len := b.length, created := .now, modified := .now,
            accessed := .unset } ∧
    openFile (new fl) ('/' :: f) = .ok { content := b, pos := 0 } := by
  have hs : (new fl).files = fl := rfl
  simp [exists_, metadata, openFile, normalize, hs, h]

/-- in a folder-like list every pair is the first occurrence of its path -/
theorem file_visible_mem (fl : List (Str × Bytes)) (hF : FolderLike fl) (f : Str) (b : Bytes)
    (h : (f, b) ∈ fl) :
    exists_ (new fl) ('/' :: f) = true ∧
    metadata (new fl) ('/' :: f) =
      .ok { ftype := .file, len := b.length, created := .now, modified := .now,
            accessed := .unset } ∧
    openFile (new fl) ('/' :: f) = .ok { content := b, pos := 0 } :=
  file_visible fl f b (fileGet?_of_mem fl f b hF.2.1 h)

/-- a file is not a directory: `read_dir` on it is the "not a directory" error -/
theorem readDir_file (fl : List (Str × Bytes)) (hF : FolderLike fl) (f : Str) (b : Bytes)
    (h : (f, b) ∈ fl) : readDir (new fl) ('/' :: f) = fail .other := by
  have hs : (new fl).files = fl := rfl
  have hnot : (new fl).directoryMap.get? f = none := by
    cases hg : (new fl).directoryMap.get? f with
    | none => rfl
    | some v =>
      exfalso
      have : ((new fl).directoryMap.get? f).isSome = true := by rw [hg]; rfl
      obtain ⟨g, hg', pre, x, post, hsp, hk⟩ := (isDir_new_iff fl f).mp this
      have := hF.dir_not_file g hg' pre post x hsp
      rw [← hk, fileGet?_of_mem fl f b hF.2.1 h] at this
      cases this
  simp [readDir, normalize, hs, hnot, fileGet?_of_mem fl f b hF.2.1 h]

/-! ### directories -/

/-- every proper directory prefix `pre` of an embedded path (`pre = []` is the root, spelled
"/") is a directory: it lists the next component, each name once, its metadata is a directory
of length 0, it exists, and it cannot be opened as a file -/
theorem dir_visible (fl : List (Str × Bytes)) (hF : FolderLike fl) (f : Str × Bytes)
    (hf : f ∈ fl) (pre post : List Str) (c : Str)
    (hsp : splitSlash f.1 = pre ++ c :: post) :
    ∃ children, (new fl).directoryMap.get? (key pre) = some children ∧ c ∈ children ∧
      children.Nodup ∧
      readDir (new fl) ('/' :: key pre) = .ok children ∧
      metadata (new fl) ('/' :: key pre) =
        .ok { ftype := .dir, len := 0, created := .unset, modified := .unset,
              accessed := .unset } ∧
      exists_ (new fl) ('/' :: key pre) = true ∧
      openFile (new fl) ('/' :: key pre) = fail .fileNotFound := by
  obtain ⟨v, hv, hc, hnd⟩ := children_complete fl f hf pre post c hsp
  have hnf := hF.dir_not_file f hf pre post c hsp
  have hs : (new fl).files = fl := rfl
  refine ⟨v, hv, hc, hnd, ?_, ?_, ?_, ?_⟩ <;>
    simp [readDir, metadata, exists_, openFile, normalize, hs, hv, hnf]

/-- a list is its first `k` elements, then the `k`-th, then the rest -/
theorem split_at_index (cs : List Str) (k : Nat) (hk : k < cs.length) :
    cs = cs.take k ++ cs[k] :: cs.drop (k + 1) := by
  conv => lhs; rw [← List.take_append_drop k cs]
  rw [List.drop_eq_getElem_cons hk]

/-- the same with indices: the first `k` components of an embedded path (`k` smaller than
the number of components) form a directory that lists the `k+1`-th component -/
theorem dir_visible_index (fl : List (Str × Bytes)) (hF : FolderLike fl) (f : Str × Bytes)
    (hf : f ∈ fl) (k : Nat) (hk : k < (splitSlash f.1).length) :
    ∃ children,
      (new fl).directoryMap.get? (key ((splitSlash f.1).take k)) = some children ∧
      (splitSlash f.1)[k] ∈ children ∧
      readDir (new fl) ('/' :: key ((splitSlash f.1).take k)) = .ok children ∧
      metadata (new fl) ('/' :: key ((splitSlash f.1).take k)) =
        .ok { ftype := .dir, len := 0, created := .unset, modified := .unset,
              accessed := .unset } := by
  obtain ⟨v, h1, h2, _, h3, h4, _⟩ := dir_visible fl hF f hf _ _ _
    (split_at_index (splitSlash f.1) k hk)
  exact ⟨v, h1, h2, h3, h4⟩

/-- a directory prefix in terms of strings: an embedded file `d/rest` makes "/d" a directory -/
theorem dir_visible_str (fl : List (Str × Bytes)) (hF : FolderLike fl) (d rest : Str) (b : Bytes)
    (hf : (d ++ '/' :: rest, b) ∈ fl) :
    ∃ children, readDir (new fl) ('/' :: d) = .ok children ∧
      (splitSlash rest).headD [] ∈ children ∧
      metadata (new fl) ('/' :: d) =
        .ok { ftype := .dir, len := 0, created := .unset, modified := .unset,
              accessed := .unset } ∧
      exists_ (new fl) ('/' :: d) = true ∧ openFile (new fl) ('/' :: d) = fail .fileNotFound := by
  have hsp : splitSlash (d ++ '/' :: rest) = splitSlash d ++ splitSlash rest :=
    C06.splitOnC_append '/' d rest
  cases hr : splitSlash rest with
  | nil => exact absurd hr (splitOnC_ne_nil _ _)
  | cons c post =>
    rw [hr] at hsp
    obtain ⟨v, _, h2, _, h3, h4, h5, h6⟩ := dir_visible fl hF _ hf (splitSlash d) post c hsp
    rw [key_splitSlash] at h3 h4 h5 h6
    exact ⟨v, h3, h2, h4, h5, h6⟩

/-! ### the root -/

/-- the root exists for every list, under both spellings -/
theorem root_exists (fl : List (Str × Bytes)) :
    exists_ (new fl) [] = true ∧ exists_ (new fl) ['/'] = true := by
  simp [exists_, normalize]

/-- with at least one file, the root is an entry of the directory map that lists the first
component of every embedded path -/
theorem root_listed (fl : List (Str × Bytes)) (f : Str × Bytes) (hf : f ∈ fl) :
    ∃ children, (new fl).directoryMap.get? [] = some children ∧
      (∀ g ∈ fl, (splitSlash g.1).headD [] ∈ children) ∧
      readDir (new fl) [] = .ok children ∧ readDir (new fl) ['/'] = .ok children := by
  cases hr : splitSlash f.1 with
  | nil => exact absurd hr (splitOnC_ne_nil _ _)
  | cons c post =>
    obtain ⟨v, hv, _, _⟩ := children_complete fl f hf [] post c hr
    rw [key_nil] at hv
    refine ⟨v, hv, ?_, by simp [readDir, normalize, hv], by simp [readDir, normalize, hv]⟩
    intro g hg
    cases hr' : splitSlash g.1 with
    | nil => exact absurd hr' (splitOnC_ne_nil _ _)
    | cons c' post' =>
      obtain ⟨v', hv', hc', _⟩ := children_complete fl g hg [] post' c' hr'
      rw [key_nil, hv] at hv'
      injection hv' with hv'
      subst hv'
      exact hc'

/-- the root behaves like any other directory: it is a directory of length 0 and cannot be
opened as a file -/
theorem root_is_dir (fl : List (Str × Bytes)) (hF : FolderLike fl) (f : Str × Bytes)
    (hf : f ∈ fl) :
    openFile (new fl) [] = fail .fileNotFound ∧ openFile (new fl) ['/'] = fail .fileNotFound ∧
    metadata (new fl) ['/'] =
      .ok { ftype := .dir, len := 0, created := .unset, modified := .unset,
            accessed := .unset } := by
  have hs : (new fl).files = fl := rfl
  have hnf : fileGet? fl [] = none :=
    fileGet?_eq_none fl [] (fun g hg => hF.path_ne_nil g hg)
  obtain ⟨v, hv, _⟩ := root_listed fl f hf
  simp [openFile, metadata, normalize, hs, hnf, hv]

/-- the empty folder: the root still exists, but it is not in the directory map, so
`read_dir("")` and `metadata("")` answer not-found (a quirk of the implementation) -/
theorem empty_folder_root :
    exists_ (new []) [] = true ∧ readDir (new []) [] = fail .fileNotFound ∧
    metadata (new []) [] = fail .fileNotFound := by
  simp [exists_, readDir, metadata, normalize, new, DirMap.get?, fileGet?]

/-! ### absent paths -/

/-- a relative path that is neither an embedded file nor a directory prefix of one (nor the
root) does not exist, and every observer answers not-found; no hypothesis on the list -/
theorem absent (fl : List (Str × Bytes)) (p : Str) (hp : p ≠ [])
    (hfile : ∀ f ∈ fl, f.1 ≠ p)
    (hdir : ∀ f ∈ fl, ∀ pre x post, splitSlash f.1 = pre ++ x :: post → p ≠ key pre) :
    (new fl).directoryMap.get? p = none ∧
    exists_ (new fl) ('/' :: p) = false ∧
    metadata (new fl) ('/' :: p) = fail .fileNotFound ∧
    readDir (new fl) ('/' :: p) = fail .fileNotFound ∧
    openFile (new fl) ('/' :: p) = fail .fileNotFound := by
  have hs : (new fl).files = fl := rfl
  have hnf := fileGet?_eq_none fl p hfile
  have hnd : (new fl).directoryMap.get? p = none := by
    cases hg : (new fl).directoryMap.get? p with
    | none => rfl
    | some v =>
      exfalso
      have : ((new fl).directoryMap.get? p).isSome = true := by rw [hg]; rfl
      obtain ⟨g, hg', pre, x, post, hsp, hk⟩ := (isDir_new_iff fl p).mp this
      exact hdir g hg' pre x post hsp hk
  refine ⟨hnd, ?_, ?_, ?_, ?_⟩ <;>
    simp [exists_, metadata, readDir, openFile, normalize, hs, hnf, hnd, hp]

/-! ### TESTS on the fixture folder (concrete instances, checked by evaluation) -/

def fixture : List (Str × Bytes) :=
  [ ("a.txt".toList, [1, 2, 3]), ("a/d.txt".toList, [4]), ("a/x/y.bin".toList, [5, 6]),
    ("ab".toList, []) ]

/-- test: the fixture satisfies the hypothesis of the theorems above -/
example : FolderLike fixture := by decide

/-- test: a list with a file that is also a directory is rejected -/
example : ¬ FolderLike [("a".toList, []), ("a/b".toList, [])] := by decide
/-- test: absolute or doubled-slash paths are rejected -/
example : ¬ FolderLike [("/a".toList, [])] := by decide
example : ¬ FolderLike [("a//b".toList, [])] := by decide

/-- test: `read_dir("/a")` lists exactly d.txt and x -/
example : readDir (new fixture) "/a".toList = .ok ["d.txt".toList, "x".toList] := by decide
example : ∀ l, readDir (new fixture) "/a".toList = .ok l →
    l.isPerm ["x".toList, "d.txt".toList] = true := by
  intro l h
  have : readDir (new fixture) "/a".toList = .ok ["d.txt".toList, "x".toList] := by decide
  rw [this] at h; injection h with h; subst h; decide
/-- test: the root lists a.txt, a, ab (each once) -/
example : readDir (new fixture) [] = .ok ["a.txt".toList, "a".toList, "ab".toList] := by decide
example : readDir (new fixture) "/".toList = .ok ["a.txt".toList, "a".toList, "ab".toList] := by
  decide
example : readDir (new fixture) "/a/x".toList = .ok ["y.bin".toList] := by decide
/-- test: "a" and "ab" and "a.txt" are not confused by prefix matching -/
example : readDir (new fixture) "/ab".toList = fail .other := by decide
example : readDir (new fixture) "/a.t".toList = fail .fileNotFound := by decide
example : exists_ (new fixture) "/a/x".toList = true ∧ exists_ (new fixture) "/a/y".toList = false
    ∧ exists_ (new fixture) "/a/".toList = false := by decide
example : metadata (new fixture) "/a/x/y.bin".toList =
    .ok { ftype := .file, len := 2, created := .now, modified := .now, accessed := .unset } := by
  decide
example : metadata (new fixture) "/a".toList =
    .ok { ftype := .dir, len := 0, created := .unset, modified := .unset, accessed := .unset } := by
  decide
example : openFile (new fixture) "/a/d.txt".toList = .ok { content := [4], pos := 0 } := by decide
example : openFile (new fixture) "/a".toList = fail .fileNotFound := by decide
example : openFile (new fixture) [] = fail .fileNotFound := by decide
example : splitSlash "a/x/y.bin".toList = ["a".toList, "x".toList, "y.bin".toList] := by decide
example : key ["a".toList, "x".toList] = "a/x".toList := by decide

end Vfs.C18
