/-
  C04 at the level of SEQUENCES OF WRITE SESSIONS, through the path layer and through adapters
  (memory leaf, altroot, copy_file / move_file). Props/C04.lean has the handle-level facts for one
  session; this file lifts them. The overlay part (copy-up, n layers) is Props/C04Overlay.lean
  (separate file: Props/C11.lean, used here, and the overlay lemma files cannot be imported together).

  THE SPECIFICATION (Proofs/SessionLemmas.lean) is written without the model's handle code:
    `Act`            = `write bs | flush | seek s`  (the alphabet `C03.HAct`; `s : SeekFrom`)
    `specWrite`      `Cursor<Vec<u8>>::write`: zero-fill of a gap, overwrite in place, extend
    `specSeek`       `Cursor::seek`: Start / Current / End, `none` on a negative or ≥ 2^64 target
    `specRun buf pos acts : Bytes × Nat`   a script from a vector and a position; a failing seek
                     leaves the pair alone; flush is a no-op on the pair
    `Session`        = `create acts | append acts`
    `specSession : Option Bytes → Session → Option Bytes`  (`none` = path absent):
                     create ⇒ `specRun [] 0 acts`; append on a file `old` ⇒
                     `specRun old old.length acts`; append on an absent path ⇒ fails, stays absent
    `specSessions`   = fold over a list of sessions.
  THE MODEL SIDE: `Session.run P s` is `Op.writeSession P acts` / `Op.appendSession P acts` of
  Props/C03Stack.lean run (`create_file` / `append_file` through `VfsPath`, the actions through the
  handle, drop); `runSessions P ss w` runs a list, whatever the outcomes.

  SETTING of §1–§4: `MemLeafAt w i m` (leaf `i` of the world is a MemoryFS holding the map `m`),
  the path is `{ fs := leafFS i, fsId := any, path := p }`, and `Ready m p c`:
  `'/' ∈ p` (p is not the root), the parent of `p` is an existing directory, and `p` is absent
  (`c = none`) or a FILE with bytes `bs` (`c = some bs`) — not a directory. `Holds m p c` is the
  last clause alone.

  PROVED (no sorry; axioms ⊆ {propext, Classical.choice, Quot.sound})
   1. `session_exact`     one session, ANY script: outcome (`Ok`; `FileNotFound(p)` for an append on
                          an absent path), the world differs only in leaf `i`, the new map differs
                          from `m` only at `p` (frame), holds exactly `specSession c s` there,
                          `Ready` is kept, and `metadata` reports that length.
      `sessions_exact`    ANY list of sessions on `p` (create / append mixed, failing appends
                          included): final world = `w` with leaf `i := m'`, `m'` differs from `m`
                          only at `p`, where it holds exactly `specSessions c ss`.
   2. `sessions_read_exact`  afterwards a fresh `open_file` returns a reader over exactly those
                          bytes; `read_to_end` gives them; reading with ANY list of buffer sizes
                          gives `bs.take (Σ sizes)` (all of `bs` once the sizes add up) — via
                          `reader_chunks` of Props/C04.lean —; `readToEndChecked` (the byte path of
                          `read_to_string`) gives them; `metadata.len = bs.length`; if the list
                          leaves the path absent, `open_file` is `FileNotFound(p)`.
      (`open_of_holds`, `open_of_absent`, `metadata_of_holds`: the single-call facts.)
   3. `flush_visible`     script `pre ++ flush :: post`: right after the flush (handle still open)
                          the file holds exactly `specRun … pre`, every other key is untouched, a
                          reader opened then sees exactly those bytes; running `post` and dropping
                          the SAME handle ends exactly as the whole session (`specSession`).
      `seek_errors_harmless`  a seek the specification rejects, anywhere in a script: the session
                          with it and the session without it are equal on this world (outcome and
                          final world), and `specSession` agrees. (`seek_fail_noop`,
                          Proofs/SessionLemmas.lean: for EVERY kind of handle a failed seek returns
                          handle and world unchanged.)
   4. `copy_exact`, `move_exact`, `copy_move_exact` (via `C11.copyFile_exact` / `moveFile_exact`):
                          memory leaves `i`, `j` (equal or not, any `Arc` ids), `s` holds `bs`, `d`
                          fresh: `d` then holds exactly `bs` (reads back as `bs`, `metadata.len`),
                          `s` still holds `bs` (copy) / is absent (move), other keys unchanged.
      `sessions_copy_sessions_exact`  sessions on `s`, copy to a fresh `d ≠ s`, sessions on `d`:
                          `d` holds `specSessions (result of the first list) ss'`, `s` unchanged.
   5. ALTROOT. `altroot_appendFile / _openFile / _metadata`: for EVERY underlying filesystem the
      `VfsPath` call on `q` of `Altroot.fs root` is the call on `root.path ++ q` (error relabelled
      `q`), canonical `root.path`, `q`. `altroot_append_session`: hence an append session through
      the altroot IS the append session on `root.path ++ q`, for every underlying filesystem.
      Over a MEMORY LEAF (`root.fs = leafFS i`), `q ≠ ""`: `altroot_session` (create sessions too:
      same final world, same outcome up to the error label), `altroot_runSessions` (any list: same
      final world), and `altroot_sessions_exact`: the leaf then holds at `root.path ++ q` exactly
      `specSessions c ss`, other keys unchanged; through the altroot `open_file` on `q` reads
      exactly those bytes (any buffer sizes) and `metadata` reports their length.
   6. Non-vacuity (`decide` / `decide +kernel`): a 3-session history (seek-back overwrite; gap
      zero-fill + flush; append with a failing seek) on a concrete leaf — specification and model
      run, read back whole / in chunks / via metadata; failing append on an absent file; frame;
      mid-session flush; copy and move after sessions; the same history through an altroot; the
      hypotheses (`Ready`, `FreshDest`, `Canon`) instantiated.

  HYPOTHESES THAT MATTER
   * chunked reads: `bs.length < 2^64` (a `Vec` is shorter; it is the no-overflow side condition of
     `ReadableFile::read`, see `C14.read_is_cursor`).
   * `Ready`: a DIRECTORY at `p`, or a missing / non-directory parent, makes `create_file` fail —
     outside the property. `'/' ∈ p` excludes the root string "".
   * altroot create sessions: stated over a memory leaf only. For an arbitrary underlying
     filesystem the statement "same state transformer" is FALSE as soon as observers have effects:
     the altroot's own `VfsPath::create_file` probes the parent (exists + metadata) and the inner
     `create_file` probes it again, so e.g. a `recordFS` underneath logs two more calls. Not a
     defect of the file contents; it is why §5 splits append (generic) from create (memory leaf).

  NOT PROVED HERE
   * the physical backend (`physCreate` / `physAppend` handles write straight to the file; no
     session-sequence theorem for them), EmbeddedFS (read-only), the harness wrappers;
   * altroots over anything but a memory leaf for create sessions; nested altroots;
   * interleavings of two open handles on the same path (C16/C17), handles used after the file was
     removed (C14.publish_after_removal);
   * positions ≥ 2^64 reached by `write` (the model, like the specification, lets the position
     grow; std's `Cursor` would fail on `usize` overflow — unreachable with real memory).
-/
import VfsModel.Proofs.SessionLemmas
import VfsModel.Props.C11
import VfsModel.Props.C07
namespace Vfs.C04
open Vfs.C14

/-! ## 1. one session, and any list of sessions, on a memory leaf -/

/-- the hypotheses on the path `p` in the map `m`: `p` is not the root string (`'/' ∈ p`, true of
every canonical non-root path), its parent is an existing directory, and `p` itself is absent
(`c = none`) or a FILE with bytes `bs` (`c = some bs`) — not a directory -/
structure Ready (m : FMap) (p : Str) (c : Option Bytes) : Prop where
  slash : '/' ∈ p
  parent : ∃ pe, m.find? (parentInternal p) = some pe ∧ pe.ftype = .dir
  holds : Holds m p c

theorem Ready.parent_ne {m : FMap} {p : Str} {c : Option Bytes} (h : Ready m p c) :
    parentInternal p ≠ p := by
  intro heq
  obtain ⟨pe, hpe, hd⟩ := h.parent
  rw [heq] at hpe
  cases c with
  | none => have := h.holds; simp only [Holds] at this; rw [this] at hpe; cases hpe
  | some bs =>
    obtain ⟨e, he, hf, _⟩ := h.holds
    rw [he] at hpe; injection hpe with hpe; subst hpe; rw [hf] at hd; cases hd

theorem Ready.parentOk {m : FMap} {p : Str} {c : Option Bytes} (h : Ready m p c) :
    Mem.parentOk m p = true := by
  obtain ⟨pe, hpe, hd⟩ := h.parent
  simp [Mem.parentOk, hpe, hd]

theorem Ready.createFile {m : FMap} {p : Str} {c : Option Bytes} (h : Ready m p c) :
    Mem.createFile m p = (.ok (), m.insert p fileEntryNow) := by
  obtain ⟨pe, hpe, hd⟩ := h.parent
  cases c with
  | none =>
    have := h.holds; simp only [Holds] at this
    simp [Mem.createFile, Mem.ensureHasParent, h.slash, hpe, hd, this]
  | some bs =>
    obtain ⟨e, he, hf, _⟩ := h.holds
    simp [Mem.createFile, Mem.ensureHasParent, h.slash, hpe, hd, he, hf]

/-- the hypotheses survive every change of the map that leaves the other keys alone -/
theorem Ready.frame {m m' : FMap} {p : Str} {c c' : Option Bytes} (h : Ready m p c)
    (hfr : ∀ k, k ≠ p → m'.find? k = m.find? k) (hc : Holds m' p c') : Ready m' p c' :=
  ⟨h.slash, by rw [hfr _ h.parent_ne]; exact h.parent, hc⟩

/-- the outcome of a session according to the specification: `Ok`, except for an append on an
absent path (`FileNotFound`, labelled with the path) -/
def specOutcome (p : Str) (c : Option Bytes) : Session → Res Unit
  | .create _ => .ok ()
  | .append _ => match c with
    | some _ => .ok ()
    | none => .err .fileNotFound (some p)

section leaf
variable {w : World} {i : Nat} {m : FMap}

/-- **session_exact.** One session (create or append; any writes, seeks and flushes; drop) on
the path `p` of a memory leaf, run through the generic `VfsPath` layer: the outcome is the
specified one; the world differs only in the map of leaf `i`; the new map `m'` differs from `m`
only at `p` (frame); at `p` it holds exactly `specSession c s` (a file with those bytes, or
still nothing after a failed append); and `metadata` then reports that length. -/
theorem session_exact (h : MemLeafAt w i m) (id : Nat) (p : Str) (c : Option Bytes)
    (hr : Ready m p c) (s : Session) :
    ∃ m', s.run { fs := leafFS i, fsId := id, path := p } w
        = (specOutcome p c s, w.setLeafFiles i m') ∧
      Ready m' p (specSession c s) ∧
      (∀ k, k ≠ p → m'.find? k = m.find? k) ∧
      (∀ bs, specSession c s = some bs →
        ∃ md, VPath.metadata { fs := leafFS i, fsId := id, path := p } (w.setLeafFiles i m')
            = (.ok md, w.setLeafFiles i m') ∧ md.len = bs.length ∧ md.ftype = .file) := by
  have hmeta : ∀ (m' : FMap) (bs : Bytes), Holds m' p (some bs) →
      ∃ md, VPath.metadata { fs := leafFS i, fsId := id, path := p } (w.setLeafFiles i m')
          = (.ok md, w.setLeafFiles i m') ∧ md.len = bs.length ∧ md.ftype = .file := by
    intro m' bs ⟨e, he, hf, hc⟩
    refine ⟨e.meta, ?_, by simp [Entry.meta, hc], by simp [Entry.meta, hf]⟩
    unfold VPath.metadata M.withPath
    simp only [run_metadata (h.set m'), Mem.metadata, he, Res.withPath]
  cases s with
  | create acts =>
    obtain ⟨m', hrun, ⟨e', he', hf', hc', _, _⟩, hfr⟩ :=
      runActs_mem (i := i) (p := p) (h.set (m.insert p fileEntryNow)) fileEntryNow
        (FMap.find?_insert_self _ _ _) rfl [] 0 acts
    have hfr' : ∀ k, k ≠ p → m'.find? k = m.find? k := fun k hk => by
      rw [hfr k hk, FMap.find?_insert_ne _ _ _ _ hk]
    have hh : Holds m' p (some (specRun [] 0 acts).1) := ⟨e', he', hf', hc'⟩
    refine ⟨m', ?_, hr.frame hfr' hh, hfr', ?_⟩
    · rw [Session.run_create]
      unfold VPath.createFile
      simp only [bind, M.bind, run_getParent h, hr.parentOk, if_true, M.withPath,
        run_createFile h, hr.createFile, Res.map, Res.withPath]
      rw [hrun, World.setLeafFiles_twice]
      rfl
    · intro bs hbs
      simp only [specSession, Option.some.injEq] at hbs
      subst hbs
      exact hmeta m' _ hh
  | append acts =>
    cases c with
    | none =>
      have hn : m.find? p = none := hr.holds
      refine ⟨m, ?_, hr, fun _ _ => rfl, fun bs hbs => by cases hbs⟩
      rw [Session.run_append]
      unfold VPath.appendFile
      simp only [bind, M.bind, M.withPath, run_appendFile h, Mem.appendFile, hn, fail, Res.map,
        Res.withPath, h.same]
      rfl
    | some old =>
      obtain ⟨e, he, hf, hc⟩ := hr.holds
      obtain ⟨m', hrun, ⟨e', he', hf', hc', _, _⟩, hfr⟩ :=
        runActs_mem (i := i) (p := p) h e he hf old old.length acts
      have hh : Holds m' p (some (specRun old old.length acts).1) := ⟨e', he', hf', hc'⟩
      refine ⟨m', ?_, hr.frame hfr hh, hfr, ?_⟩
      · rw [Session.run_append]
        unfold VPath.appendFile
        have happ : Mem.appendFile m p = .ok old := by rw [mem_append_handle m p e he hf, hc]
        simp only [bind, M.bind, M.withPath, run_appendFile h, happ, Res.map, Res.withPath]
        rw [hrun]
        rfl
      · intro bs hbs
        simp only [specSession, Option.some.injEq] at hbs
        subst hbs
        exact hmeta m' _ hh

/-- **sessions_exact (state).** ANY list of sessions on the same path — create and append mixed,
failing appends on an absent file included, each with any script of writes, seeks and flushes —
leaves the world `w` with the map of leaf `i` replaced by a map `m'` that differs from `m` only at
`p`, where it holds exactly `specSessions c ss`. -/
theorem sessions_exact (h : MemLeafAt w i m) (id : Nat) (p : Str) (c : Option Bytes)
    (hr : Ready m p c) (ss : List Session) :
    ∃ m', runSessions { fs := leafFS i, fsId := id, path := p } ss w = w.setLeafFiles i m' ∧
      Ready m' p (specSessions c ss) ∧ (∀ k, k ≠ p → m'.find? k = m.find? k) := by
  induction ss generalizing w m c with
  | nil => exact ⟨m, h.same.symm, hr, fun _ _ => rfl⟩
  | cons s rest ih =>
    obtain ⟨m1, hrun, hr1, hfr1, _⟩ := session_exact h id p c hr s
    obtain ⟨m', hrun', hr', hfr'⟩ := ih (h.set m1) (specSession c s) hr1
    refine ⟨m', ?_, hr', fun k hk => by rw [hfr' k hk, hfr1 k hk]⟩
    simp only [runSessions, hrun, hrun', World.setLeafFiles_twice]

end leaf

/-! ## 2. reading back -/

section read
variable {w : World} {i : Nat} {m : FMap}

/-- a fresh `open_file` on a path holding a file with bytes `bs` returns a reader over exactly
`bs`, positioned at 0 (the only change of the world is the access-time stamp of that entry) -/
theorem open_of_holds (h : MemLeafAt w i m) (id : Nat) (p : Str) (bs : Bytes)
    (hh : Holds m p (some bs)) :
    ∃ w', VPath.openFile { fs := leafFS i, fsId := id, path := p } w
        = (.ok { content := bs, pos := 0 }, w') ∧
      ∃ m', MemLeafAt w' i m' ∧ Holds m' p (some bs) ∧ ∀ k, k ≠ p → m'.find? k = m.find? k := by
  obtain ⟨e, he, hf, hc⟩ := hh
  have hopen : Mem.openFile m p = (.ok { content := bs, pos := 0 }, m.insert p { e with accessed := .now }) := by
    simp [Mem.openFile, Mem.setAccessed, he, hf, hc]
  refine ⟨w.setLeafFiles i (m.insert p { e with accessed := .now }), ?_, _, h.set _,
    ⟨_, FMap.find?_insert_self _ _ _, hf, hc⟩, fun k hk => FMap.find?_insert_ne _ _ _ _ hk⟩
  unfold VPath.openFile M.withPath
  simp only [run_openFile h, hopen, Res.withPath]

/-- an absent path cannot be opened: `FileNotFound`, world unchanged -/
theorem open_of_absent (h : MemLeafAt w i m) (id : Nat) (p : Str) (hh : Holds m p none) :
    VPath.openFile { fs := leafFS i, fsId := id, path := p } w
      = (.err .fileNotFound (some p), w) := by
  have hn : m.find? p = none := hh
  unfold VPath.openFile M.withPath
  simp only [run_openFile h, Mem.openFile, Mem.setAccessed, hn, fail, Res.withPath, h.same]

/-- `metadata` reports the length of the bytes held -/
theorem metadata_of_holds (h : MemLeafAt w i m) (id : Nat) (p : Str) (bs : Bytes)
    (hh : Holds m p (some bs)) :
    ∃ md, VPath.metadata { fs := leafFS i, fsId := id, path := p } w = (.ok md, w) ∧
      md.len = bs.length ∧ md.ftype = .file := by
  obtain ⟨e, he, hf, hc⟩ := hh
  refine ⟨e.meta, ?_, by simp [Entry.meta, hc], by simp [Entry.meta, hf]⟩
  unfold VPath.metadata M.withPath
  simp only [run_metadata h, Mem.metadata, he, Res.withPath]

/-- **sessions_exact (observation).** After any list of sessions on `p` that leaves the file
present (`specSessions c ss = some bs`): a fresh `open_file` succeeds; `read_to_end` returns
exactly `bs`; reading with ANY list of buffer sizes returns, concatenated, exactly the first
`Σ sizes` bytes of `bs` — all of `bs` once the sizes add up to its length —; `read_to_string`'s
byte path (`readToEndChecked`) returns `bs`; and `metadata` reports `bs.length`. If the list
leaves the path absent (only failed appends on an absent path), `open_file` answers not-found. -/
theorem sessions_read_exact (h : MemLeafAt w i m) (id : Nat) (p : Str) (c : Option Bytes)
    (hr : Ready m p c) (ss : List Session) :
    let P : VPath := { fs := leafFS i, fsId := id, path := p }
    let w1 := runSessions P ss w
    (∀ bs, specSessions c ss = some bs →
      (∃ w2, P.openFile w1 = (.ok { content := bs, pos := 0 }, w2)) ∧
      (RHandle.readToEnd { content := bs, pos := 0 }).1 = .ok bs ∧
      (∀ ns : List Nat, bs.length < u64Max →
        (chunks { content := bs, pos := 0 } ns).1.flatten = bs.take ns.sum) ∧
      (∀ ns : List Nat, bs.length < u64Max → bs.length ≤ ns.sum →
        (chunks { content := bs, pos := 0 } ns).1.flatten = bs) ∧
      (P.readToEndChecked w1).1 = .ok bs ∧
      (∃ md, P.metadata w1 = (.ok md, w1) ∧ md.len = bs.length ∧ md.ftype = .file)) ∧
    (specSessions c ss = none → P.openFile w1 = (.err .fileNotFound (some p), w1)) := by
  intro P w1
  obtain ⟨m', hrun, hr', _⟩ := sessions_exact h id p c hr ss
  have hw1 : w1 = w.setLeafFiles i m' := hrun
  have h1 : MemLeafAt w1 i m' := by rw [hw1]; exact h.set m'
  constructor
  · intro bs hbs
    have hh : Holds m' p (some bs) := by rw [← hbs]; exact hr'.holds
    obtain ⟨w2, hopen, _⟩ := open_of_holds h1 id p bs hh
    obtain ⟨md, hmd, hlen, hft⟩ := metadata_of_holds h1 id p bs hh
    refine ⟨⟨w2, hopen⟩, readToEnd_fresh bs, ?_, ?_, ?_, ⟨md, hmd, hlen, hft⟩⟩
    · intro ns hlt
      have := (reader_chunks { content := bs, pos := 0 } ns rfl hlt).1
      simpa using this
    · intro ns hlt hsum
      exact reader_whole_file bs ns hlt hsum
    · have hmd' : P.metadata w1 = (.ok md, w1) := hmd
      have hopen' : P.openFile w1 = (.ok { content := bs, pos := 0 }, w2) := hopen
      unfold VPath.readToEndChecked
      simp only [bind, M.bind, hmd', hft, ne_eq, not_true_eq_false, if_false, hopen', M.withPath,
        M.ret, readToEnd_fresh, Res.withPath]
  · intro hn
    have hh : Holds m' p none := by rw [← hn]; exact hr'.holds
    exact open_of_absent h1 id p hh

end read

/-! ## 3. inside a session: flush publishes, a failing seek is harmless -/

/-- opening the handle of a session -/
def Session.openH (P : VPath) : Session → M WHandle
  | .create _ => P.createFile
  | .append _ => P.appendFile

/-- the same kind of session with another script -/
def Session.setActs : Session → List Act → Session
  | .create _, a => .create a
  | .append _, a => .append a

/-- the vector and the position a session starts from (`none`: the open fails) -/
def specStart : Option Bytes → Session → Option (Bytes × Nat)
  | _, .create _ => some ([], 0)
  | some old, .append _ => some (old, old.length)
  | none, .append _ => none

theorem specSession_eq_start (c : Option Bytes) (s : Session) :
    specSession c s = (specStart c s).map fun st => (specRun st.1 st.2 s.acts).1 := by
  cases s <;> cases c <;> rfl

theorem specStart_setActs (c : Option Bytes) (s : Session) (a : List Act) :
    specStart c (s.setActs a) = specStart c s := by
  cases s <;> cases c <;> rfl

theorem Session.acts_setActs (s : Session) (a : List Act) : (s.setActs a).acts = a := by
  cases s <;> rfl

theorem Session.openH_setActs (P : VPath) (s : Session) (a : List Act) :
    (s.setActs a).openH P = s.openH P := by
  cases s <;> rfl

theorem Session.run_eq (P : VPath) (s : Session) :
    s.run P = (do let h ← s.openH P; C03.runActs h s.acts) := by
  cases s <;> rfl

section inside
variable {w : World} {i : Nat} {m : FMap}

/-- opening a session on a memory leaf: the in-memory handle on `p` with the specified start
vector and position; a file sits at `p` afterwards (created empty by `create_file`), the other
keys are untouched -/
theorem open_exact (h : MemLeafAt w i m) (id : Nat) (p : Str) (c : Option Bytes)
    (hr : Ready m p c) (s : Session) (b0 : Bytes) (n0 : Nat) (hst : specStart c s = some (b0, n0)) :
    ∃ m0 e0, s.openH { fs := leafFS i, fsId := id, path := p } w
        = (.ok (memH i p b0 n0), w.setLeafFiles i m0) ∧
      m0.find? p = some e0 ∧ e0.ftype = .file ∧ (∀ k, k ≠ p → m0.find? k = m.find? k) := by
  cases s with
  | create acts =>
    simp only [specStart, Option.some.injEq, Prod.mk.injEq] at hst
    obtain ⟨rfl, rfl⟩ := hst
    refine ⟨m.insert p fileEntryNow, fileEntryNow, ?_, FMap.find?_insert_self _ _ _, rfl,
      fun k hk => FMap.find?_insert_ne _ _ _ _ hk⟩
    show VPath.createFile _ w = _
    unfold VPath.createFile
    simp only [bind, M.bind, run_getParent h, hr.parentOk, if_true, M.withPath,
      run_createFile h, hr.createFile, Res.map, Res.withPath]
  | append acts =>
    cases c with
    | none => cases hst
    | some old =>
      simp only [specStart, Option.some.injEq, Prod.mk.injEq] at hst
      obtain ⟨rfl, rfl⟩ := hst
      obtain ⟨e, he, hf, hc⟩ := hr.holds
      refine ⟨m, e, ?_, he, hf, fun _ _ => rfl⟩
      have happ : Mem.appendFile m p = .ok old := by rw [mem_append_handle m p e he hf, hc]
      show VPath.appendFile _ w = _
      unfold VPath.appendFile
      simp only [M.withPath, run_appendFile h, happ, Res.map, Res.withPath, h.same]

/-- **flush_visible.** A session whose script is `pre ++ flush :: post`. Right after the flush
(the handle `h1` still open, the world `w1`): the file holds exactly the vector the specification
gives for the prefix `pre`, every other key is as before the session, and a reader opened at that
moment sees exactly those bytes. The handle stays usable: running the rest `post` and dropping it
ends exactly as the whole session does — with the bytes of `specSession`. -/
theorem flush_visible (h : MemLeafAt w i m) (id : Nat) (p : Str) (c : Option Bytes)
    (hr : Ready m p c) (s : Session) (b0 : Bytes) (n0 : Nat) (hst : specStart c s = some (b0, n0))
    (pre post : List Act) :
    let P : VPath := { fs := leafFS i, fsId := id, path := p }
    let s' := s.setActs (pre ++ .flush :: post)
    ∃ h0 w0 h1 w1 m1,
      s'.openH P w = (.ok h0, w0) ∧
      applyActs h0 w0 (pre ++ [.flush]) = (h1, w1) ∧
      MemLeafAt w1 i m1 ∧
      Holds m1 p (some (specRun b0 n0 pre).1) ∧
      (∀ k, k ≠ p → m1.find? k = m.find? k) ∧
      (∃ w2, P.openFile w1 = (.ok { content := (specRun b0 n0 pre).1, pos := 0 }, w2)) ∧
      s'.run P w = C03.runActs h1 post w1 ∧
      ∃ m2, C03.runActs h1 post w1 = (.ok (), w.setLeafFiles i m2) ∧
        Holds m2 p (specSession c s') ∧ (∀ k, k ≠ p → m2.find? k = m.find? k) := by
  intro P s'
  have hst' : specStart c s' = some (b0, n0) := by rw [specStart_setActs]; exact hst
  obtain ⟨m0, e0, hopen, he0, hf0, hfr0⟩ := open_exact h id p c hr s' b0 n0 hst'
  -- the prefix
  obtain ⟨mA, hA, ⟨eA, heA, hfA, _, _⟩, hfrA⟩ :=
    applyActs_mem (i := i) (p := p) (h.set m0) e0 he0 hf0 b0 n0 pre
  rw [World.setLeafFiles_twice] at hA
  -- the flush
  have hlA : MemLeafAt (w.setLeafFiles i mA) i mA := h.set mA
  obtain ⟨e1, he1, hf1, hc1, _, _⟩ := holds_memPublish heA hfA (specRun b0 n0 pre).1
  have hl1 : MemLeafAt (w.setLeafFiles i (memPublish mA p (specRun b0 n0 pre).1)) i
      (memPublish mA p (specRun b0 n0 pre).1) := h.set _
  have hfr1 : ∀ k, k ≠ p → (memPublish mA p (specRun b0 n0 pre).1).find? k = m.find? k :=
    fun k hk => by rw [find?_memPublish_ne' _ _ _ _ hk, hfrA k hk, hfr0 k hk]
  have hh1 : Holds (memPublish mA p (specRun b0 n0 pre).1) p (some (specRun b0 n0 pre).1) :=
    ⟨e1, he1, hf1, hc1⟩
  have hstep : applyActs (memH i p b0 n0) (w.setLeafFiles i m0) (pre ++ [.flush]) =
      (memH i p (specRun b0 n0 pre).1 (specRun b0 n0 pre).2,
        w.setLeafFiles i (memPublish mA p (specRun b0 n0 pre).1)) := by
    rw [applyActs_append, hA]
    simp only [applyActs]
    rw [apply_flush_mem hlA, World.setLeafFiles_twice]
  -- the rest
  obtain ⟨m2, hrun2, ⟨e2, he2, hf2, hc2, _, _⟩, hfr2⟩ :=
    runActs_mem (i := i) (p := p) hl1 e1 he1 hf1 (specRun b0 n0 pre).1 (specRun b0 n0 pre).2 post
  rw [World.setLeafFiles_twice] at hrun2
  obtain ⟨w2, hopen2, _⟩ := open_of_holds hl1 id p _ hh1
  have hspec : specSession c s' = some (specRun (specRun b0 n0 pre).1 (specRun b0 n0 pre).2 post).1 := by
    rw [specSession_eq_start, hst', Session.acts_setActs]
    simp only [Option.map_some, specRun_append, specRun_cons, specStep]
  refine ⟨_, _, _, _, _, hopen, hstep, hl1, hh1, hfr1, ⟨w2, hopen2⟩, ?_, m2, hrun2, ?_,
    fun k hk => by rw [hfr2 k hk, hfr1 k hk]⟩
  · have hopen' : s'.openH P w = (.ok (memH i p b0 n0), w.setLeafFiles i m0) := hopen
    have hacts : s'.acts = pre ++ .flush :: post := Session.acts_setActs _ _
    rw [Session.run_eq]
    simp only [bind, M.bind, hopen', hacts]
    rw [show pre ++ C03.HAct.flush :: post = (pre ++ [.flush]) ++ post by simp, runActs_append,
      hstep]
  · rw [hspec]; exact ⟨e2, he2, hf2, hc2⟩

/-- **seek_errors_harmless.** A seek that the specification rejects (negative or overflowing
target) in the middle of a session changes nothing: the session with the failing seek and the
session without it are the same state transformer on this world (same outcome, same final
world), and the specification agrees. (`seek_fail_noop` in Proofs/SessionLemmas.lean is the
handle-level fact for every kind of handle: a failed seek returns the handle and the world
unchanged.) -/
theorem seek_errors_harmless (h : MemLeafAt w i m) (id : Nat) (p : Str) (c : Option Bytes)
    (hr : Ready m p c) (s : Session) (b0 : Bytes) (n0 : Nat) (hst : specStart c s = some (b0, n0))
    (pre post : List Act) (sk : SeekFrom)
    (hfail : specSeek (specRun b0 n0 pre).1.length (specRun b0 n0 pre).2 sk = none) :
    let P : VPath := { fs := leafFS i, fsId := id, path := p }
    (s.setActs (pre ++ .seek sk :: post)).run P w = (s.setActs (pre ++ post)).run P w ∧
    specSession c (s.setActs (pre ++ .seek sk :: post)) = specSession c (s.setActs (pre ++ post)) := by
  intro P
  have hstep : specStep (specRun b0 n0 pre) (.seek sk) = specRun b0 n0 pre := by
    unfold specStep; simp only [hfail]
  constructor
  · obtain ⟨m0, e0, hopen, he0, hf0, _⟩ := open_exact h id p c hr s b0 n0 hst
    obtain ⟨mA, hA, _, _⟩ := applyActs_mem (i := i) (p := p) (h.set m0) e0 he0 hf0 b0 n0 pre
    have hopen' : s.openH P w = (.ok (memH i p b0 n0), w.setLeafFiles i m0) := hopen
    rw [Session.run_eq, Session.run_eq]
    simp only [bind, M.bind, Session.openH_setActs, hopen', Session.acts_setActs]
    rw [runActs_append, runActs_append, hA]
    simp only [C03.runActs]
    rw [apply_seek_mem]
    simp only
    rw [show ((specRun b0 n0 pre).1, (specRun b0 n0 pre).2) = specRun b0 n0 pre from rfl, hstep]
  · rw [specSession_eq_start, specSession_eq_start, specStart_setActs, specStart_setActs, hst,
      Session.acts_setActs, Session.acts_setActs]
    simp only [Option.map_some, specRun_append, specRun_cons]
    rw [show ((specRun b0 n0 pre).1, (specRun b0 n0 pre).2) = specRun b0 n0 pre from rfl, hstep]

end inside

/-! ## 4. copy_file / move_file carry exactly the bytes (file level, via Props/C11.lean) -/

section transfer
variable {w : World} {i j : Nat} {ms md : FMap}

/-- **copy_move_exact (copy).** `copy_file s d` between memory leaves `i` and `j` (equal or
different, any `Arc` identities), `s` a file with bytes `bs`, `d` a fresh destination: success;
afterwards `d` holds exactly `bs` (and reads back as `bs`, with `metadata` length `bs.length`),
`s` still holds `bs`, every other key of both maps is unchanged. -/
theorem copy_exact (hi : MemLeafAt w i ms) (hj : MemLeafAt w j md) (sid did : Nat) (s d : Str)
    (bs : Bytes) (hs : Holds ms s (some bs)) (hd : FreshDest md d) :
    ∃ w' ms' md',
      VPath.copyFile { fs := leafFS i, fsId := sid, path := s }
        { fs := leafFS j, fsId := did, path := d } w = (.ok (), w') ∧
      MemLeafAt w' i ms' ∧ MemLeafAt w' j md' ∧
      Holds md' d (some bs) ∧ Holds ms' s (some bs) ∧
      (∀ k, k ≠ d → (i = j → k ≠ s) → md'.find? k = md.find? k) ∧
      (∀ k, k ≠ s → (i = j → k ≠ d) → ms'.find? k = ms.find? k) ∧
      (∃ w2, VPath.openFile { fs := leafFS j, fsId := did, path := d } w'
        = (.ok { content := bs, pos := 0 }, w2)) ∧
      (∃ mt, VPath.metadata { fs := leafFS j, fsId := did, path := d } w' = (.ok mt, w') ∧
        mt.len = bs.length ∧ mt.ftype = .file) := by
  obtain ⟨e, he, hf, hc⟩ := hs
  obtain ⟨w', hrun, hcp⟩ := C11.copyFile_exact hi hj sid did s d e he hf hd
  obtain ⟨ms', md', hi', hj', hmd', hms'⟩ := hcp.leaves
  have hsd : i = j → s ≠ d := by
    intro hij heq
    subst hij
    have := hi.unique hj
    subst this
    rw [heq, hd.absent] at he; cases he
  have hD : Holds md' d (some bs) := ⟨copiedEntry e.content, by rw [hmd' d]; simp, rfl, hc⟩
  have hS : Holds ms' s (some bs) := by
    refine ⟨touched e, ?_, hf, hc⟩
    rw [hms' s]
    by_cases hij : i = j
    · simp [hij, hsd hij]
    · simp [hij]
  refine ⟨w', ms', md', hrun, hi', hj', hD, hS, ?_, ?_, ?_, metadata_of_holds hj' did d bs hD⟩
  · intro k hkd hks
    rw [hmd' k, if_neg hkd]
    by_cases hij : i = j
    · simp [hij, hks hij]
    · simp [hij]
  · intro k hks hkd
    rw [hms' k]
    by_cases hij : i = j
    · simp [hij, hkd hij, hks]
    · simp [hij, hks]
  · obtain ⟨w2, hopen, _⟩ := open_of_holds hj' did d bs hD
    exact ⟨w2, hopen⟩

/-- **copy_move_exact (move).** `move_file s d`: as the copy, and `s` is absent afterwards. -/
theorem move_exact (hi : MemLeafAt w i ms) (hj : MemLeafAt w j md) (sid did : Nat) (s d : Str)
    (bs : Bytes) (hs : Holds ms s (some bs)) (hd : FreshDest md d) :
    ∃ w' ms' md',
      VPath.moveFile { fs := leafFS i, fsId := sid, path := s }
        { fs := leafFS j, fsId := did, path := d } w = (.ok (), w') ∧
      MemLeafAt w' i ms' ∧ MemLeafAt w' j md' ∧
      Holds md' d (some bs) ∧ Holds ms' s none ∧
      (∀ k, k ≠ d → (i = j → k ≠ s) → md'.find? k = md.find? k) ∧
      (∀ k, k ≠ s → (i = j → k ≠ d) → ms'.find? k = ms.find? k) ∧
      (∃ w2, VPath.openFile { fs := leafFS j, fsId := did, path := d } w'
        = (.ok { content := bs, pos := 0 }, w2)) ∧
      (∃ mt, VPath.metadata { fs := leafFS j, fsId := did, path := d } w' = (.ok mt, w') ∧
        mt.len = bs.length ∧ mt.ftype = .file) := by
  obtain ⟨e, he, hf, hc⟩ := hs
  obtain ⟨w', hrun, hmv⟩ := C11.moveFile_exact hi hj sid did s d e he hf hd
  obtain ⟨ms', md', hi', hj', hmd', hms'⟩ := hmv.leaves
  have hD : Holds md' d (some bs) := ⟨copiedEntry e.content, by rw [hmd' d]; simp, rfl, hc⟩
  have hS : Holds ms' s none := by show ms'.find? s = none; rw [hms' s]; simp
  refine ⟨w', ms', md', hrun, hi', hj', hD, hS, ?_, ?_, ?_, metadata_of_holds hj' did d bs hD⟩
  · intro k hkd hks
    rw [hmd' k, if_neg hkd]
    by_cases hij : i = j
    · simp [hij, hks hij]
    · simp [hij]
  · intro k hks hkd
    rw [hms' k, if_neg hks]
    by_cases hij : i = j
    · simp [hij, hkd hij]
    · simp [hij]
  · obtain ⟨w2, hopen, _⟩ := open_of_holds hj' did d bs hD
    exact ⟨w2, hopen⟩

/-- **copy_move_exact** — both halves -/
theorem copy_move_exact (hi : MemLeafAt w i ms) (hj : MemLeafAt w j md) (sid did : Nat) (s d : Str)
    (bs : Bytes) (hs : Holds ms s (some bs)) (hd : FreshDest md d) :
    (∃ w' ms' md',
      VPath.copyFile { fs := leafFS i, fsId := sid, path := s }
        { fs := leafFS j, fsId := did, path := d } w = (.ok (), w') ∧
      MemLeafAt w' i ms' ∧ MemLeafAt w' j md' ∧ Holds md' d (some bs) ∧ Holds ms' s (some bs)) ∧
    (∃ w' ms' md',
      VPath.moveFile { fs := leafFS i, fsId := sid, path := s }
        { fs := leafFS j, fsId := did, path := d } w = (.ok (), w') ∧
      MemLeafAt w' i ms' ∧ MemLeafAt w' j md' ∧ Holds md' d (some bs) ∧ Holds ms' s none) := by
  obtain ⟨w1, a1, b1, h1, h2, h3, h4, h5, _⟩ := copy_exact hi hj sid did s d bs hs hd
  obtain ⟨w2, a2, b2, g1, g2, g3, g4, g5, _⟩ := move_exact hi hj sid did s d bs hs hd
  exact ⟨⟨w1, a1, b1, h1, h2, h3, h4, h5⟩, ⟨w2, a2, b2, g1, g2, g3, g4, g5⟩⟩

end transfer

/-- **sessions, then copy, then more sessions on the copy** (one memory leaf): any list `ss` of
sessions on `s` that leaves it present, `copy_file s d` onto a fresh `d ≠ s`, any list `ss'` of
sessions on `d`: `d` ends with exactly the bytes the specification gives for `ss'` started from
the result of `ss`, and `s` still holds the result of `ss`. -/
theorem sessions_copy_sessions_exact {w : World} {i : Nat} {m : FMap} (h : MemLeafAt w i m)
    (id : Nat) (s d : Str) (c : Option Bytes) (hr : Ready m s c) (hd : FreshDest m d)
    (hsd : d ≠ s) (ss ss' : List Session) (bs : Bytes) (hbs : specSessions c ss = some bs) :
    let S : VPath := { fs := leafFS i, fsId := id, path := s }
    let D : VPath := { fs := leafFS i, fsId := id, path := d }
    ∃ w1 m3, S.copyFile D (runSessions S ss w) = (.ok (), w1) ∧
      MemLeafAt (runSessions D ss' w1) i m3 ∧
      Holds m3 d (specSessions (some bs) ss') ∧ Holds m3 s (some bs) := by
  intro S D
  obtain ⟨m1, hrun1, hr1, hfr1⟩ := sessions_exact h id s c hr ss
  rw [hbs] at hr1
  have hl1 : MemLeafAt (runSessions S ss w) i m1 := by rw [show runSessions S ss w = _ from hrun1]; exact h.set m1
  -- the parent of `d` is neither `s` nor `d`
  obtain ⟨pe, hpe, hpd⟩ := hd.parent
  have hps : parentInternal d ≠ s := by
    intro heq
    rw [heq] at hpe
    cases c with
    | none => have := hr.holds; simp only [Holds] at this; rw [this] at hpe; cases hpe
    | some old =>
      obtain ⟨e, he, hf, _⟩ := hr.holds
      rw [he] at hpe; injection hpe with hpe; subst hpe; rw [hf] at hpd; cases hpd
  have hpdd : parentInternal d ≠ d := by
    intro heq; rw [heq, hd.absent] at hpe; cases hpe
  have hd1 : FreshDest m1 d :=
    ⟨by rw [hfr1 d hsd]; exact hd.absent, hd.slash, ⟨pe, by rw [hfr1 _ hps]; exact hpe, hpd⟩⟩
  obtain ⟨w1, ms', m2, hcp, hi', hj', hD, hS, hfr2, _, _, _⟩ :=
    copy_exact hl1 hl1 id id s d bs hr1.holds hd1
  have hr2 : Ready m2 d (some bs) :=
    ⟨hd.slash, ⟨pe, by rw [hfr2 _ hpdd (fun _ => hps), hfr1 _ hps]; exact hpe, hpd⟩, hD⟩
  obtain ⟨m3, hrun3, hr3, hfr3⟩ := sessions_exact hj' id d (some bs) hr2 ss'
  have hS2 : Holds m2 s (some bs) := by
    have := hi'.unique hj'
    subst this
    exact hS
  refine ⟨w1, m3, hcp, ?_, hr3.holds, hS2.congr (hfr3 s hsd.symm)⟩
  rw [show runSessions D ss' w1 = _ from hrun3]
  exact hj'.set m3

/-! ## 5. through an altroot -/

/-- the parent of `P ++ q` is `P ++ parent q` (canonical strings, `q` not the root) -/
theorem parent_append_canon (P0 q : Str) (hroot : Canon P0) (hq : Canon q) (hne : q ≠ []) :
    parentInternal (P0 ++ q) = P0 ++ parentInternal q := by
  obtain ⟨ps, hps, rfl⟩ := hroot
  obtain ⟨qs, hqs, rfl⟩ := hq
  have hqne : qs ≠ [] := by intro h0; subst h0; exact hne rfl
  rw [← renderC_append, parentInternal_renderC _ (good_noSlash (good_append hps hqs)),
    parentInternal_renderC _ (good_noSlash hqs), List.dropLast_append_of_ne_nil hqne,
    renderC_append]

/-- relabelling the error of the open commutes with the rest of the session (which cannot fail) -/
theorem withPath_bind_runActs (q : Str) (op : M WHandle) (acts : List Act) (w : World) :
    M.bind (M.withPath q op) (fun h => C03.runActs h acts) w =
      ((M.bind op (fun h => C03.runActs h acts) w).1.withPath q,
        (M.bind op (fun h => C03.runActs h acts) w).2) := by
  unfold M.bind M.withPath
  cases hres : op w with
  | mk r w' =>
    cases r with
    | ok hd =>
      simp only [Res.withPath]
      rw [show C03.runActs hd acts w' = ((C03.runActs hd acts w').1, (C03.runActs hd acts w').2) from rfl,
        runActs_ok]
    | err k pth => rfl
    | panic => rfl

section altroot
variable (root : VPath) (q : Str) (aid : Nat) (hroot : Canon root.path) (hq : Canon q)

/-- the path `q` of the altroot filesystem rooted at `root` -/
abbrev altP : VPath := { fs := Altroot.fs root, fsId := aid, path := q }

/-- the path `root.path ++ q` of the underlying filesystem -/
abbrev innerP : VPath := root.withStr (root.path ++ q)

include hroot hq

/-- `append_file`, `open_file`, `metadata` through the altroot ARE the calls on `P ++ q` of the
underlying filesystem (errors relabelled with `q`) — for EVERY underlying filesystem -/
theorem altroot_appendFile : (altP root q aid).appendFile = M.withPath q (innerP root q).appendFile := by
  show M.withPath q ((Altroot.fs root).appendFile q) = _
  rw [C07.altroot_exact_appendFile root q hroot hq]

theorem altroot_openFile : (altP root q aid).openFile = M.withPath q (innerP root q).openFile := by
  show M.withPath q ((Altroot.fs root).openFile q) = _
  rw [C07.altroot_exact_openFile root q hroot hq]

theorem altroot_metadata : (altP root q aid).metadata = M.withPath q (innerP root q).metadata := by
  show M.withPath q ((Altroot.fs root).metadata q) = _
  rw [C07.altroot_exact_metadata root q hroot hq]

/-- an append session through the altroot IS the append session on `P ++ q` of the underlying
filesystem, for EVERY underlying filesystem: same final world, same outcome up to the path label
of an error of the open -/
theorem altroot_append_session (acts : List Act) (w : World) :
    (Session.append acts).run (altP root q aid) w =
      (((Session.append acts).run (innerP root q) w).1.withPath q,
        ((Session.append acts).run (innerP root q) w).2) := by
  rw [Session.run_append, Session.run_append, altroot_appendFile root q aid hroot hq]
  exact withPath_bind_runActs q _ acts w

variable {i : Nat} {m : FMap} {w : World} (hfs : root.fs = leafFS i) (hne : q ≠ [])
include hfs hne

/-- the parent probe of `create_file` through an altroot over a memory leaf: it looks at
`P ++ parent q` of the leaf and changes nothing -/
theorem altroot_getParent (h : MemLeafAt w i m) :
    (altP root q aid).getParent w =
      (if Mem.parentOk m (root.path ++ q) then .ok () else .err .other (some q), w) := by
  have hpq : Canon (parentInternal q) := C06.parent_canonical q hq
  have hex : (Altroot.fs root).exists_ (parentInternal q) w
      = (.ok (m.contains (root.path ++ parentInternal q)), w) := by
    rw [C07.altroot_exact_exists root _ hroot hpq]
    show root.fs.exists_ _ w = _
    rw [hfs, run_exists h]
    rfl
  have hmd : (Altroot.fs root).metadata (parentInternal q) w
      = ((Mem.metadata m (root.path ++ parentInternal q)).withPath (root.path ++ parentInternal q), w) := by
    rw [C07.altroot_exact_metadata root _ hroot hpq]
    show M.withPath _ (root.fs.metadata _) w = _
    unfold M.withPath
    rw [hfs, run_metadata h]
    rfl
  unfold VPath.getParent VPath.exists_ VPath.metadata VPath.parent VPath.withStr
  rw [Mem.parentOk, parent_append_canon root.path q hroot hq hne]
  rcases Option.eq_none_or_eq_some (m.find? (root.path ++ parentInternal q)) with hf | ⟨e, hf⟩
  · simp [bind, M.bind, hex, FMap.contains, hf, M.failAt]
  · by_cases hd : e.ftype = .dir
    · simp [bind, M.bind, hex, M.withPath, hmd, FMap.contains, hf, hd, Mem.metadata, Entry.meta,
        Res.withPath, Pure.pure, M.pure]
    · simp [bind, M.bind, hex, M.withPath, hmd, FMap.contains, hf, hd, Mem.metadata, Entry.meta,
        Res.withPath, M.failAt]

/-- **a session through an altroot over a memory leaf IS the session on `P ++ q` of the leaf**:
the same final world and the same outcome, an error carrying the label `q` instead of `P ++ q`.
(For a create session the altroot's `VfsPath` layer probes the parent once more than the direct
call does; on a memory leaf the probe changes nothing.) -/
theorem altroot_session (h : MemLeafAt w i m) (s : Session) :
    s.run (altP root q aid) w =
      ((s.run (innerP root q) w).1.withPath q, (s.run (innerP root q) w).2) := by
  cases s with
  | append acts => exact altroot_append_session root q aid hroot hq acts w
  | create acts =>
    have hinner : (innerP root q).getParent w =
        (if Mem.parentOk m (root.path ++ q) then .ok () else .err .other (some (root.path ++ q)), w) := by
      have := run_getParent h root.fsId (root.path ++ q)
      rw [← hfs] at this
      exact this
    rw [Session.run_create, Session.run_create]
    show M.bind (altP root q aid).createFile (fun hd => C03.runActs hd acts) w = _
    have hcf : (altP root q aid).createFile =
        M.bind (altP root q aid).getParent (fun _ => M.withPath q ((innerP root q).createFile)) := by
      show M.bind _ (fun _ => M.withPath q ((Altroot.fs root).createFile q)) = _
      rw [C07.altroot_exact_createFile root q hroot hq]
    have hg := altroot_getParent root q aid hroot hq hfs hne h
    rw [hcf]
    by_cases hp : Mem.parentOk m (root.path ++ q) = true
    · rw [if_pos hp] at hg
      have : M.bind (M.bind (altP root q aid).getParent
            (fun _ => M.withPath q ((innerP root q).createFile))) (fun hd => C03.runActs hd acts) w
          = M.bind (M.withPath q ((innerP root q).createFile)) (fun hd => C03.runActs hd acts) w := by
        simp only [M.bind, hg]
      rw [this]
      exact withPath_bind_runActs q _ acts w
    · rw [if_neg hp] at hg hinner
      have hi : (innerP root q).createFile w = (.err .other (some (root.path ++ q)), w) := by
        show M.bind (innerP root q).getParent _ w = _
        simp only [M.bind, hinner]
      have hi2 : (do let hd ← (innerP root q).createFile; C03.runActs hd acts : M Unit) w
          = (.err .other (some (root.path ++ q)), w) := by
        show M.bind (innerP root q).createFile _ w = _
        simp only [M.bind, hi]
      rw [hi2]
      simp only [M.bind, hg, Res.withPath]

/-- any list of sessions through the altroot ends in the same world as the list on `P ++ q` of
the leaf -/
theorem altroot_runSessions (h : MemLeafAt w i m) (c : Option Bytes)
    (hr : Ready m (root.path ++ q) c) (ss : List Session) :
    runSessions (altP root q aid) ss w = runSessions (innerP root q) ss w := by
  induction ss generalizing w m c with
  | nil => rfl
  | cons s rest ih =>
    have hI : innerP root q = { fs := leafFS i, fsId := root.fsId, path := root.path ++ q } := by
      show ({ fs := root.fs, fsId := root.fsId, path := root.path ++ q } : VPath) = _
      rw [hfs]
    obtain ⟨m1, hrun, hr1, _, _⟩ := session_exact h root.fsId (root.path ++ q) c hr s
    rw [← hI] at hrun
    simp only [runSessions]
    rw [altroot_session root q aid hroot hq hfs hne h s]
    simp only
    rw [hrun]
    exact ih (h.set m1) (specSession c s) hr1

/-- **sessions_exact through an altroot.** The altroot is rooted at the canonical path `P` of a
memory leaf; `q` is a canonical non-root path of the altroot filesystem; in the leaf, the parent
of `P ++ q` is a directory and `P ++ q` is absent or a file with bytes `c`. Then ANY list of
sessions on `q` through the altroot leaves the leaf holding, at `P ++ q`, exactly
`specSessions c ss`, every other key unchanged; and through the altroot a fresh `open_file` on
`q` reads exactly those bytes and `metadata` reports their length (absent: not-found). -/
theorem altroot_sessions_exact (h : MemLeafAt w i m) (c : Option Bytes)
    (hr : Ready m (root.path ++ q) c) (ss : List Session) :
    let A := altP root q aid
    let w1 := runSessions A ss w
    ∃ m', w1 = w.setLeafFiles i m' ∧ Holds m' (root.path ++ q) (specSessions c ss) ∧
      (∀ k, k ≠ root.path ++ q → m'.find? k = m.find? k) ∧
      (∀ bs, specSessions c ss = some bs →
        (∃ w2, A.openFile w1 = (.ok { content := bs, pos := 0 }, w2)) ∧
        (∀ ns : List Nat, bs.length < u64Max →
          (chunks { content := bs, pos := 0 } ns).1.flatten = bs.take ns.sum) ∧
        (∃ md, A.metadata w1 = (.ok md, w1) ∧ md.len = bs.length ∧ md.ftype = .file)) ∧
      (specSessions c ss = none → A.openFile w1 = (.err .fileNotFound (some q), w1)) := by
  intro A w1
  have hI : innerP root q = { fs := leafFS i, fsId := root.fsId, path := root.path ++ q } := by
    show ({ fs := root.fs, fsId := root.fsId, path := root.path ++ q } : VPath) = _
    rw [hfs]
  obtain ⟨m', hrun, hr', hfr⟩ := sessions_exact h root.fsId (root.path ++ q) c hr ss
  have hw1 : w1 = w.setLeafFiles i m' := by
    show runSessions (altP root q aid) ss w = _
    rw [altroot_runSessions root q aid hroot hq hfs hne h c hr ss, hI, hrun]
  have hl1 : MemLeafAt w1 i m' := by rw [hw1]; exact h.set m'
  refine ⟨m', hw1, hr'.holds, hfr, ?_, ?_⟩
  · intro bs hbs
    have hh : Holds m' (root.path ++ q) (some bs) := by rw [← hbs]; exact hr'.holds
    obtain ⟨w2, hopen, _⟩ := open_of_holds hl1 root.fsId _ bs hh
    obtain ⟨md, hmd, hlen, hft⟩ := metadata_of_holds hl1 root.fsId _ bs hh
    rw [← hI] at hopen hmd
    refine ⟨⟨w2, ?_⟩, ?_, ⟨md, ?_, hlen, hft⟩⟩
    · show (altP root q aid).openFile w1 = _
      rw [altroot_openFile root q aid hroot hq]
      unfold M.withPath
      rw [hopen]; rfl
    · intro ns hlt
      have := (reader_chunks { content := bs, pos := 0 } ns rfl hlt).1
      simpa using this
    · show (altP root q aid).metadata w1 = _
      rw [altroot_metadata root q aid hroot hq]
      unfold M.withPath
      rw [hmd]; rfl
  · intro hn
    have hh : Holds m' (root.path ++ q) none := by rw [← hn]; exact hr'.holds
    have := open_of_absent hl1 root.fsId _ hh
    rw [← hI] at this
    show (altP root q aid).openFile w1 = _
    rw [altroot_openFile root q aid hroot hq]
    unfold M.withPath
    rw [this]; rfl

end altroot

/-! ## 6. non-vacuity: concrete histories, evaluated by `decide` -/

section examples

/-- session 1: create, write 5 bytes, seek back to 1, overwrite 2 bytes in place -/
def exS1 : Session := .create [.write [1, 2, 3, 4, 5], .seek (.start 1), .write [9, 9]]
/-- session 2: append, seek past the end (gap of 3), write one byte (zero-fill), flush -/
def exS2 : Session := .append [.seek (.start 8), .write [7], .flush]
/-- session 3: plain append; a failing seek (before the start) in the middle is harmless -/
def exS3 : Session := .append [.write [6], .seek (.cur (-100)), .write [5]]

/-- the specification on the three-session history -/
example : specSessions none [exS1] = some [1, 9, 9, 4, 5] := by decide
example : specSessions none [exS1, exS2] = some [1, 9, 9, 4, 5, 0, 0, 0, 7] := by decide
example : specSessions none [exS1, exS2, exS3] = some [1, 9, 9, 4, 5, 0, 0, 0, 7, 6, 5] := by decide
/-- an append on an absent path fails and leaves it absent; a later create starts from nothing -/
example : specSessions none [exS2] = none := by decide
example : specSessions none [exS2, exS3, .create [.write [8]]] = some [8] := by decide
/-- a create truncates whatever the history was -/
example : specSessions (some [1, 2, 3]) [exS3, .create [], .append [.write [4]]] = some [4] := by decide
/-- seeks: from the end, relative, failing (cursor stays) -/
example : specRun [1, 2, 3] 3 [.seek (.fromEnd (-2)), .write [8], .seek (.cur 3), .write [9]]
    = ([1, 8, 3, 0, 0, 9], 6) := by decide
example : specRun [1, 2] 2 [.seek (.fromEnd (-3)), .write [3]] = ([1, 2, 3], 3) := by decide

/-- a memory leaf holding the directories "" and "/d" -/
def exMap : FMap := [("/d".toList, dirEntryNow), ([], dirEntryNow)]
def exW : World := { leaves := [{ kind := .mem, files := exMap }] }
def exP : VPath := { fs := leafFS 0, fsId := 0, path := "/d/f".toList }

/-- the hypotheses of `session_exact` / `sessions_exact` hold there (file absent) -/
example : MemLeafAt exW 0 exMap ∧ Ready exMap "/d/f".toList none :=
  ⟨rfl, by decide, ⟨dirEntryNow, by decide, rfl⟩, (by decide : exMap.find? "/d/f".toList = none)⟩

/-- the model run of the three-session history, read back through `open_file` + `read_to_end`,
in chunks of 4, 1 and 100 bytes, and through `metadata` -/
example : (exP.openFile (runSessions exP [exS1, exS2, exS3] exW)).1
    = .ok { content := [1, 9, 9, 4, 5, 0, 0, 0, 7, 6, 5], pos := 0 } := by decide +kernel
example : (exP.readToEndChecked (runSessions exP [exS1, exS2, exS3] exW)).1
    = .ok [1, 9, 9, 4, 5, 0, 0, 0, 7, 6, 5] := by decide +kernel
example : (chunks { content := [1, 9, 9, 4, 5, 0, 0, 0, 7, 6, 5], pos := 0 } [4, 1, 100]).1
    = [[1, 9, 9, 4], [5], [0, 0, 0, 7, 6, 5]] := by decide
example : ((exP.metadata (runSessions exP [exS1, exS2, exS3] exW)).1.map fun md => (md.len, md.ftype))
    = .ok (11, .file) := by decide +kernel
/-- the failing append on the absent file: `FileNotFound`, and the file is still absent -/
example : (exS2.run exP exW).1 = .err .fileNotFound (some "/d/f".toList) ∧
    (exP.openFile (runSessions exP [exS2] exW)).1 = .err .fileNotFound (some "/d/f".toList) := by
  constructor <;> decide +kernel
/-- the frame: the directory "/d" is still what it was -/
example : ((runSessions exP [exS1, exS2, exS3] exW).leaf? 0).map (fun l => l.files.find? "/d".toList)
    = some (some dirEntryNow) := by decide +kernel

/-- flush in the middle of a session: the reader opened right after the flush sees the prefix,
the reader opened after the drop sees everything -/
def exMid : World :=
  match exP.createFile exW with
  | (.ok h, w) => (applyActs h w [.write [1, 2], .flush, .write [3]]).2
  | (_, w) => w
example : (exP.openFile exMid).1 = .ok { content := [1, 2], pos := 0 } := by decide +kernel
example : (exP.openFile ((Session.create [.write [1, 2], .flush, .write [3]]).run exP exW).2).1
    = .ok { content := [1, 2, 3], pos := 0 } := by decide +kernel

/-- copy and move after sessions -/
def exD : VPath := { fs := leafFS 0, fsId := 0, path := "/d/g".toList }
example : FreshDest exMap "/d/g".toList := ⟨by decide, by decide, ⟨dirEntryNow, by decide, rfl⟩⟩
example : (exD.openFile (exP.copyFile exD (runSessions exP [exS1, exS2] exW)).2).1
    = .ok { content := [1, 9, 9, 4, 5, 0, 0, 0, 7], pos := 0 } := by decide +kernel
example : (exD.openFile (exP.moveFile exD (runSessions exP [exS1, exS2] exW)).2).1
      = .ok { content := [1, 9, 9, 4, 5, 0, 0, 0, 7], pos := 0 } ∧
    (exP.openFile (exP.moveFile exD (runSessions exP [exS1, exS2] exW)).2).1
      = .err .fileNotFound (some "/d/f".toList) := by
  constructor <;> decide +kernel

/-- an altroot rooted at "/d" of the leaf: the sessions on "/f" through it -/
def exRoot : VPath := { fs := leafFS 0, fsId := 0, path := "/d".toList }
def exA : VPath := altP exRoot "/f".toList 7
example : Canon exRoot.path ∧ Canon "/f".toList ∧ Ready exMap (exRoot.path ++ "/f".toList) none :=
  ⟨⟨["d".toList], by decide, by decide⟩, ⟨["f".toList], by decide, by decide⟩,
    by decide, ⟨dirEntryNow, by decide, rfl⟩,
    (by decide : exMap.find? (exRoot.path ++ "/f".toList) = none)⟩
example : (exA.openFile (runSessions exA [exS1, exS2, exS3] exW)).1
    = .ok { content := [1, 9, 9, 4, 5, 0, 0, 0, 7, 6, 5], pos := 0 } := by decide +kernel
/-- … and the bytes sit at "/d/f" of the leaf -/
example : (exP.openFile (runSessions exA [exS1, exS2, exS3] exW)).1
    = .ok { content := [1, 9, 9, 4, 5, 0, 0, 0, 7, 6, 5], pos := 0 } := by decide +kernel

end examples

end Vfs.C04
