/-
  C09 / C10 for overlays whose layers are SUB-DIRECTORY PATHS of memory filesystems
  (`OverlayFS::new(&[root_a.join("up")?, root_b.join("lo")?])` — the way the harness builds
  overlays), by SIMULATION with the overlay over the roots of memory filesystems holding the
  sub-maps, to which the theorems of Props/C09N.lean and C10N.lean apply.

  Setting: `RSub spec w1 w2` (Proofs/SubtreeSim.lean): for every listed leaf `i_k`,
  `spec i_k = .sub P_k`; leaf `i_k` of the left world `w1` holds a memory map `m_k` in which `P_k`
  and all its ancestors are directories; leaf `i_k` of the right world `w2` holds `sub P_k m_k`.
  Layers on the left: `subLayers is ids Ps = [⟨leafFS i_k, id_k, P_k⟩]`; on the right:
  `layersN is ids = [⟨leafFS i_k, id_k, ""⟩]`.

  PROVED (no sorry; axioms propext, Classical.choice, Quot.sound)
    * `overlay_over_subdirs`         the two overlays are `SimFS`-related: every trait method at the
                                     same canonical path (`create_dir`/`remove_dir`: not "") has
                                     the same outcome (value / error kind / panic) and related
                                     effects; write handles related.
    * `subdir_transfer`              any run equation of a method of the right overlay yields the
                                     outcome and the (related) final world of the left overlay.
    * `exists_is_viewN_subdir`, `metadata_is_viewN_subdir`   (C09) observers = n-layer union view
                                     of the sub-maps.
    * `removeFile_succeedsN_subdir`  (C10) `remove_file` of a file of the view succeeds.
    * `overlay_subdir_vpath`         related `VfsPath`s of the two overlay filesystems, so that every
                                     `VfsPath` operation (Proofs/Sim.lean: `sim_*`) is related too.
    * non-vacuity: a concrete 2-layer world over "/up" of leaf 0 and "/lo" of leaf 1,
      kernel-evaluated; after `create_dir` / a write session / `remove_file` through both
      overlays each right leaf is again the sub-map of the left leaf.

  NOT PROVED: error-path labels are not compared (`PTrue`); physical leaves; `create_dir("")`,
  `remove_dir("")` of the overlay root.
-/
import VfsModel.Proofs.OverlayShift
import VfsModel.Props.C07Subtree
set_option linter.unusedVariables false
namespace Vfs.C09
open Vfs Vfs.Overlay Vfs.C07

/-- the layers: sub-directory paths `P_k` of the memory leaves `i_k` -/
def subLayers : List Nat → List Nat → List Str → List VPath
  | i :: is, id :: ids, P :: Ps => { fs := leafFS i, fsId := id, path := P } :: subLayers is ids Ps
  | _, _, _ => []

theorem subLayers_rel {spec : Nat → Role} {is idrs ids : List Nat} {Ps : List Str}
    (h : SubSpec spec is idrs ids Ps) :
    ListRel (VShift spec) (subLayers is ids Ps) (layersN is ids) := by
  induction h with
  | nil => exact .nil
  | @cons i idr id P is idrs ids Ps hi hP _ ih =>
    exact .cons ⟨i, P, [], hi, hP, C06.root_canonical, rfl, rfl, (List.append_nil P).symm, rfl⟩ ih

/-- **Theorem.** The overlay over sub-directory paths (left world) is `SimFS`-related to the overlay
over the roots of the sub-maps (right world). -/
theorem overlay_over_subdirs {spec : Nat → Role} {is idrs ids : List Nat} {Ps : List Str}
    (h : SubSpec spec is idrs ids Ps) (hne : is ≠ []) :
    SimFS (RSub spec) PTrue (HSub spec) (Overlay.fs (subLayers is ids Ps))
      (Overlay.fs (layersN is ids)) := by
  refine overlay_subdir_sim (subLayers_rel h) ?_
  cases h with
  | nil => exact absurd rfl hne
  | cons _ _ _ => simp [subLayers]

/-- paths of the two overlay filesystems with the same canonical string are related: every
`VfsPath` operation on them is (`VPath.sim_*`, Proofs/Sim.lean) -/
theorem overlay_subdir_vpath {spec : Nat → Role} {is idrs ids : List Nat} {Ps : List Str}
    (h : SubSpec spec is idrs ids Ps) (hne : is ≠ []) (id : Nat) {q : Str} (hq : Canon q) :
    SimVPath (RSub spec) PTrue (HSub spec)
      { fs := Overlay.fs (subLayers is ids Ps), fsId := id, path := q }
      { fs := Overlay.fs (layersN is ids), fsId := id, path := q } :=
  ⟨overlay_over_subdirs h hne, rfl, rfl, hq⟩

/-- **transfer.** A run equation for the right-hand computation gives the outcome of the left-hand
one up to `RelRes`, and a related final world. -/
theorem subdir_transfer {spec : Nat → Role} {α β : Type} {Q : α → β → Prop} {m1 : M α} {m2 : M β}
    (h : SimM (RSub spec) PTrue Q m1 m2) {w1 w2 w2' : World} {r2 : Res β} (hr : RSub spec w1 w2)
    (h2 : m2 w2 = (r2, w2')) : RelRes PTrue Q (m1 w1).1 r2 ∧ RSub spec (m1 w1).2 w2' :=
  h.transfer hr h2

section transferred
variable {spec : Nat → Role} {u idr idu : Nat} {Pu : Str} {is idrs ids : List Nat} {Ps : List Str}
  (h : SubSpec spec (u :: is) (idr :: idrs) (idu :: ids) (Pu :: Ps))
  {w1 w2 : World} (hr : RSub spec w1 w2) {mu : FMap} {ms : List FMap}
  (hown : OWN w1 (u :: is) (idu :: ids) (mu :: ms))
include h hr hown

/-- **C09, `exists`.** For a canonical non-root path, `exists` of the overlay over the
sub-directories answers whether the path is in the n-layer union view of the sub-maps. -/
theorem exists_is_viewN_subdir (cs : List Str) (hne : cs ≠ []) (hcs : ∀ c ∈ cs, GoodComp c) :
    ((Overlay.fs (subLayers (u :: is) (idu :: ids) (Pu :: Ps))).exists_ (renderC cs) w1).1
      = .ok (viewN (sub Pu mu :: List.zipWith sub Ps ms) (renderC cs)).isSome ∧
    RSub spec ((Overlay.fs (subLayers (u :: is) (idu :: ids) (Pu :: Ps))).exists_
      (renderC cs) w1).2 w2 := by
  have hown2 := own_sub h hr hown
  obtain ⟨a, b⟩ := subdir_transfer ((overlay_over_subdirs h (by simp)).base.exists_ (renderC cs)
    ⟨cs, hcs, rfl⟩) hr (exists_is_viewN hown2 cs hne hcs)
  refine ⟨?_, b⟩
  rcases e : ((Overlay.fs (subLayers (u :: is) (idu :: ids) (Pu :: Ps))).exists_
    (renderC cs) w1).1 with x | _ | _ <;> rw [e] at a <;> cases a
  rename_i hq
  exact congrArg Res.ok hq

/-- **C09, `metadata`.** -/
theorem metadata_is_viewN_subdir (cs : List Str) (hne : cs ≠ []) (hcs : ∀ c ∈ cs, GoodComp c) :
    RelRes PTrue (· = ·)
      ((Overlay.fs (subLayers (u :: is) (idu :: ids) (Pu :: Ps))).metadata (renderC cs) w1).1
      (match viewN (sub Pu mu :: List.zipWith sub Ps ms) (renderC cs) with
       | some e => .ok e.meta
       | none => .err .fileNotFound none) ∧
    RSub spec ((Overlay.fs (subLayers (u :: is) (idu :: ids) (Pu :: Ps))).metadata
      (renderC cs) w1).2 w2 :=
  subdir_transfer ((overlay_over_subdirs h (by simp)).base.metadata (renderC cs) ⟨cs, hcs, rfl⟩) hr
    (metadata_is_viewN (own_sub h hr hown) cs hne hcs)

/-- **C10, `remove_file` succeeds** on a file of the union view of the sub-maps (hypotheses as in
`C10.removeFile_succeedsN`, about the sub-maps). -/
theorem removeFile_succeedsN_subdir (ds : List Str) (n : Str) (hds : ∀ c ∈ ds, GoodComp c)
    (hn : GoodComp n) (hroot : RootOk (sub Pu mu))
    (hwoarea : ∀ k ∈ chain [] (woDir :: ds), ∀ e, (sub Pu mu).find? k = some e → e.ftype = .dir)
    (hhead : (ds ++ [n]).head? ≠ some woDir)
    (e : Entry) (hv : viewN (sub Pu mu :: List.zipWith sub Ps ms) (renderC (ds ++ [n])) = some e)
    (hfile : e.ftype = .file) :
    ((Overlay.fs (subLayers (u :: is) (idu :: ids) (Pu :: Ps))).removeFile
      (renderC (ds ++ [n])) w1).1 = .ok () := by
  have hown2 := own_sub h hr hown
  have h2 := C10.removeFile_succeedsN hown2 ds n hds hn hroot hwoarea hhead e hv hfile
  have := ((overlay_over_subdirs h (by simp)).base.removeFile (renderC (ds ++ [n]))
    ⟨ds ++ [n], good_snoc hds hn, rfl⟩ w1 w2 hr).1
  rw [h2] at this
  rcases e' : ((Overlay.fs (subLayers (u :: is) (idu :: ids) (Pu :: Ps))).removeFile
    (renderC (ds ++ [n])) w1).1 with x | _ | _ <;> rw [e'] at this <;> cases this

end transferred

/-! ### non-vacuity -/

/-- the hypotheses hold on the concrete two-leaf world of Props/C07Subtree.lean -/
example : SubSpec ySpec [0, 1] [7, 8] [1, 2] ["/up".toList, "/lo".toList] ∧ RSub ySpec yW1 yW2 ∧
    OWN yW1 [0, 1] [1, 2] [yM0, yM1] := ⟨ySub, yRel, yOwn⟩

/-- conclusion of `exists_is_viewN_subdir` on it, and the direct evaluation of both sides -/
example :
    ((Overlay.fs (subLayers [0, 1] [1, 2] ["/up".toList, "/lo".toList])).exists_
        (renderC ["g".toList]) yW1).1
      = .ok (viewN [sub "/up".toList yM0, sub "/lo".toList yM1] (renderC ["g".toList])).isSome :=
  (exists_is_viewN_subdir ySub yRel yOwn ["g".toList] (by simp) (by decide)).1

example :
    ((Overlay.fs (subLayers [0, 1] [1, 2] ["/up".toList, "/lo".toList])).exists_ "/g".toList yW1).1
      = .ok true ∧
    ((Overlay.fs (subLayers [0, 1] [1, 2] ["/up".toList, "/lo".toList])).exists_ "/junk".toList yW1).1
      = .ok false ∧
    ((Overlay.fs (layersN [0, 1] [1, 2])).exists_ "/g".toList yW2).1 = .ok true := by
  refine ⟨?_, ?_, ?_⟩ <;> decide

/-- the relation on the concrete pair of worlds, as a decidable check: each right leaf is the
sub-map of the corresponding left leaf -/
def ySubOf (w1 w2 : World) : Bool :=
  decide (w2.leaves.map (·.files) =
    (w1.leaves.zip ["/up".toList, "/lo".toList]).map fun lp => sub lp.2 lp.1.files)

example : ySubOf yW1 yW2 = true := by decide

def yL1 : List VPath := subLayers [0, 1] [1, 2] ["/up".toList, "/lo".toList]
def yL2 : List VPath := layersN [0, 1] [1, 2]

/-- `create_dir("/n")` through both overlays -/
example :
    ((Overlay.fs yL1).createDir "/n".toList yW1).1 = .ok () ∧
    ((Overlay.fs yL2).createDir "/n".toList yW2).1 = .ok () ∧
    ySubOf ((Overlay.fs yL1).createDir "/n".toList yW1).2 ((Overlay.fs yL2).createDir "/n".toList yW2).2
      = true := by
  refine ⟨?_, ?_, ?_⟩ <;> decide

/-- `remove_file("/g")` (a file of the LOWER layer: a whiteout marker appears in the upper one) -/
example :
    ((Overlay.fs yL1).removeFile "/g".toList yW1).1 = .ok () ∧
    ((Overlay.fs yL2).removeFile "/g".toList yW2).1 = .ok () ∧
    ySubOf ((Overlay.fs yL1).removeFile "/g".toList yW1).2 ((Overlay.fs yL2).removeFile "/g".toList yW2).2
      = true ∧
    (((Overlay.fs yL1).removeFile "/g".toList yW1).2.leaves.map fun l => l.files.keys)
      = [["/up/.whiteout/g_wo".toList, "/up/.whiteout".toList, "/up/f".toList, "/up".toList,
          "/junk".toList, []],
         ["/lo/g".toList, "/lo/f".toList, "/lo".toList, []]] := by
  refine ⟨?_, ?_, ?_, ?_⟩ <;> decide

/-- an append session on "/g" (copy-up from the lower layer into the upper one) -/
example :
    ((do let hd ← (Overlay.fs yL1).appendFile "/g".toList; hd.writeAllAndDrop [7] : M Unit) yW1).1
      = .ok () ∧
    ySubOf ((do let hd ← (Overlay.fs yL1).appendFile "/g".toList; hd.writeAllAndDrop [7] : M Unit) yW1).2
      ((do let hd ← (Overlay.fs yL2).appendFile "/g".toList; hd.writeAllAndDrop [7] : M Unit) yW2).2
      = true ∧
    (((do let hd ← (Overlay.fs yL1).appendFile "/g".toList; hd.writeAllAndDrop [7] : M Unit) yW1).2.leaves.map
      fun l => (l.files.find? "/up/g".toList).map (·.content)) = [some [2, 7], none] := by
  refine ⟨?_, ?_, ?_⟩ <;> decide

end Vfs.C09
