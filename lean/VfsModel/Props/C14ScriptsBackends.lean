/-
  C14 over WHOLE SCRIPTS — handles obtained from the backends and through the altroot (part 3).
  (The n-layer overlay is Props/C14ScriptsOverlay.lean: the overlay lemma files cannot be
  imported next to this file's relatives.)

  PROVED. Each `opened_handle_*` starts from NOTHING BUT a successful `open_file` (`… = (Ok r, w')`)
  and derives what the handle is; each `read_script_on_*` then gives the script theorem
  (`read_script_is_cursor` of Props/C14Scripts.lean) for that handle.
   * memory leaf (`MemLeafAt w i m`): `opened_handle_good_mem` — `m` has a FILE entry `e` at the
     path and `r = ⟨e.content, 0⟩`, `Good r`; `opened_handle_good_mem_path`: same through
     `VfsPath::open_file`; `mem_open_exists`: and the open does succeed on a file.
     `read_script_on_mem`.
   * physical leaf (`PhysAt w i m`): `opened_handle_phys` — the world is unchanged and either the
     path is a FILE `e` and `r = ⟨e.content, 0⟩` is good, or it is a DIRECTORY and `r` is the bad
     handle `⟨[], 0, bad⟩` (Linux `File::open` on a directory). `read_script_on_phys`: in the first
     case the script theorem; in the second every call of every script fails with `Err(io)` and
     the position stays 0 (`bad_script_all_fail`).
   * EmbeddedFS: `opened_handle_good_embedded` — world unchanged, `r = ⟨b, 0⟩` for the embedded
     bytes `b` of the normalised path. `read_script_on_embedded`.
   * altroot over ANY filesystem: `altroot_open_passes` — `open_file(q)` through the altroot returns
     `(Ok r, w')` iff `open_file(root ++ q)` of the underlying filesystem does (canonical `root`,
     `q`): the handle IS the underlying handle. `read_script_on_altroot_mem / _phys / _embedded`.
   * one statement for all of them: `read_script_on_fresh` — a handle `⟨bs, 0⟩` over fewer than
     2^64 bytes answers any script as the specification run from position 0 over `bs`.
   * WRITE handles (backends that buffer: memory): `created_handle_mem` — a successful `create_file`
     on a memory leaf returns `memH i p [] 0` (create starts empty at 0) and leaves an (empty)
     file at `p`; `appended_handle_mem` — a successful `append_file` returns
     `memH i p old |old|` over the bytes `old` of the file at `p` (append starts at the end),
     world unchanged. `altroot_create_passes`, `altroot_append_passes`: through an altroot over ANY
     filesystem the write handle is the one the underlying `create_file` / `append_file` on
     `root ++ q` returned. `write_script_on_mem_create / _append`, `write_script_on_altroot_mem_*`:
     hence `write_script_is_cursor`, `write_script_published`, `write_script_dropped`
     (Props/C14ScriptsWrite.lean) apply with those start states.
   * non-vacuity (`decide`): opens on concrete memory / physical / embedded / altroot worlds.

  NOT PROVED HERE: script theorems for the PHYSICAL write handles (`physCreate`, `physAppend`:
  unbuffered, every write goes to the file; single-step model only); the harness wrappers
  (`recordFS`, `faultFS`: they pass handles through unchanged, not restated); async ports.
-/
import VfsModel.Props.C07
import VfsModel.Props.C14Scripts
import VfsModel.Props.C14ScriptsWrite
namespace Vfs.C14
open Vfs.C04

/-! ## generic -/

/-- relabelling errors does not touch a success -/
theorem withPath_ok_iff {α} (q : Str) (op : M α) (w w' : World) (a : α) :
    M.withPath q op w = (.ok a, w') ↔ op w = (.ok a, w') := by
  unfold M.withPath
  cases h : op w with
  | mk r w1 =>
    cases r with
    | ok b => simp [Res.withPath]
    | err k p => simp [Res.withPath]
    | panic => simp [Res.withPath]

/-- a freshly opened handle over `bs` answers every script as the specification from position 0 -/
theorem read_script_on_fresh (bs : Bytes) (ops : List ROp) (hlen : bs.length < u64Max) :
    runROps { content := bs, pos := 0 } ops =
      ((rspecRun bs 0 ops).map (fun o => (o.1.toModel, o.2)),
        { content := bs, pos := rspecPos bs 0 ops }) :=
  read_script_is_cursor { content := bs, pos := 0 } ops rfl hlen

/-! ## memory leaf -/

theorem mem_open_pure (m : FMap) (p : Str) (r : RHandle) (m' : FMap)
    (h : Mem.openFile m p = (.ok r, m')) :
    ∃ e, m.find? p = some e ∧ e.ftype = .file ∧ r = { content := e.content, pos := 0 } ∧
      m' = m.insert p { e with accessed := .now } := by
  unfold Mem.openFile Mem.setAccessed at h
  cases hf : m.find? p with
  | none => simp [hf, fail] at h
  | some e =>
    simp only [hf, FMap.find?_insert_self] at h
    by_cases hft : e.ftype = .file
    · simp only [hft, ne_eq, not_true_eq_false, if_false, Prod.mk.injEq, Res.ok.injEq] at h
      exact ⟨e, rfl, hft, h.1.symm, by rw [← h.2]; simp only [hft]⟩
    · simp [hft, fail] at h

section memleaf
variable {w : World} {i : Nat} {m : FMap}

/-- **memory leaf.** A successful `open_file` returns a good handle at position 0 over exactly the
bytes stored at the path (which is a file) -/
theorem opened_handle_good_mem (h : MemLeafAt w i m) (p : Str) (r : RHandle) (w' : World)
    (hopen : (leafFS i).openFile p w = (.ok r, w')) :
    ∃ e, m.find? p = some e ∧ e.ftype = .file ∧ r = { content := e.content, pos := 0 } ∧
      Good r ∧ r.pos = 0 := by
  rw [run_openFile h] at hopen
  simp only [Prod.mk.injEq] at hopen
  obtain ⟨e, he, hf, hr, _⟩ := mem_open_pure m p r (Mem.openFile m p).2 (Prod.ext hopen.1 rfl)
  exact ⟨e, he, hf, hr, by rw [hr]; rfl, by rw [hr]⟩

theorem opened_handle_good_mem_path (h : MemLeafAt w i m) (id : Nat) (p : Str) (r : RHandle)
    (w' : World)
    (hopen : VPath.openFile { fs := leafFS i, fsId := id, path := p } w = (.ok r, w')) :
    ∃ e, m.find? p = some e ∧ e.ftype = .file ∧ r = { content := e.content, pos := 0 } ∧
      Good r ∧ r.pos = 0 :=
  opened_handle_good_mem h p r w' ((withPath_ok_iff _ _ _ _ _).1 hopen)

/-- and the open of a file does succeed -/
theorem mem_open_exists (h : MemLeafAt w i m) (p : Str) (e : Entry) (he : m.find? p = some e)
    (hf : e.ftype = .file) :
    ∃ w', (leafFS i).openFile p w = (.ok { content := e.content, pos := 0 }, w') := by
  refine ⟨w.setLeafFiles i (m.insert p { e with accessed := .now }), ?_⟩
  rw [run_openFile h]
  simp [Mem.openFile, Mem.setAccessed, he, hf, FMap.find?_insert_self]

theorem read_script_on_mem (h : MemLeafAt w i m) (p : Str) (r : RHandle) (w' : World)
    (hopen : (leafFS i).openFile p w = (.ok r, w')) (ops : List ROp) :
    ∃ e, m.find? p = some e ∧ e.ftype = .file ∧ (e.content.length < u64Max →
      runROps r ops = ((rspecRun e.content 0 ops).map (fun o => (o.1.toModel, o.2)),
        { content := e.content, pos := rspecPos e.content 0 ops })) := by
  obtain ⟨e, he, hf, hr, _, _⟩ := opened_handle_good_mem h p r w' hopen
  exact ⟨e, he, hf, fun hlen => by rw [hr]; exact read_script_on_fresh e.content ops hlen⟩

end memleaf

/-! ## physical leaf -/

/-- leaf `i` of the world is a PhysicalFS whose directory holds `m` -/
def PhysAt (w : World) (i : Nat) (m : FMap) : Prop :=
  w.leaf? i = some { kind := .phys, files := m }

theorem phys_open_pure (m : FMap) (p : Str) (r : RHandle) (h : Phys.openFile m p = .ok r) :
    ∃ e, m.find? p = some e ∧
      ((e.ftype = .file ∧ r = { content := e.content, pos := 0 }) ∨
       (e.ftype = .dir ∧ r = { content := [], pos := 0, bad := true })) := by
  unfold Phys.openFile Phys.lookup at h
  cases hrp : Phys.resolveParent m p with
  | ok u =>
    simp only [hrp] at h
    cases hf : m.find? p with
    | none => simp [hf, fail] at h
    | some e =>
      simp only [hf] at h
      refine ⟨e, rfl, ?_⟩
      by_cases hd : e.ftype = .dir
      · simp only [hd, if_true, Res.ok.injEq] at h
        exact Or.inr ⟨hd, h.symm⟩
      · simp only [hd, if_false, Res.ok.injEq] at h
        have : e.ftype = .file := by cases hft : e.ftype <;> simp_all
        exact Or.inl ⟨this, h.symm⟩
  | err k q => simp [hrp] at h
  | panic => simp [hrp] at h

section physleaf
variable {w : World} {i : Nat} {m : FMap}

theorem run_openFile_phys (h : PhysAt w i m) (p : Str) :
    (leafFS i).openFile p w = (Phys.openFile m p, w) := by
  show onLeaf i _ w = _
  unfold onLeaf
  unfold PhysAt at h
  rw [h]
  simp only
  rw [World.setLeafFiles_self w i _ h]

/-- **physical leaf.** A successful `open_file` leaves the world alone and returns either a good
handle at position 0 over exactly the bytes of the file, or — on a directory — the bad handle -/
theorem opened_handle_phys (h : PhysAt w i m) (p : Str) (r : RHandle) (w' : World)
    (hopen : (leafFS i).openFile p w = (.ok r, w')) :
    w' = w ∧ r.pos = 0 ∧ ∃ e, m.find? p = some e ∧
      ((e.ftype = .file ∧ r = { content := e.content, pos := 0 } ∧ Good r) ∨
       (e.ftype = .dir ∧ r = { content := [], pos := 0, bad := true })) := by
  rw [run_openFile_phys h] at hopen
  simp only [Prod.mk.injEq] at hopen
  obtain ⟨e, he, hcase⟩ := phys_open_pure m p r hopen.1
  refine ⟨hopen.2.symm, ?_, e, he, ?_⟩
  · rcases hcase with ⟨_, hr⟩ | ⟨_, hr⟩ <;> rw [hr]
  · rcases hcase with ⟨hf, hr⟩ | ⟨hd, hr⟩
    · exact Or.inl ⟨hf, hr, by rw [hr]; rfl⟩
    · exact Or.inr ⟨hd, hr⟩

/-- on a FILE of a physical leaf the open succeeds, provided the path resolves (every ancestor
is a directory) -/
theorem phys_open_exists (h : PhysAt w i m) (p : Str) (e : Entry)
    (hres : Phys.resolveParent m p = .ok ()) (he : m.find? p = some e) (hf : e.ftype = .file) :
    (leafFS i).openFile p w = (.ok { content := e.content, pos := 0 }, w) := by
  rw [run_openFile_phys h]
  simp [Phys.openFile, Phys.lookup, hres, he, hf]

theorem read_script_on_phys (h : PhysAt w i m) (p : Str) (r : RHandle) (w' : World)
    (hopen : (leafFS i).openFile p w = (.ok r, w')) (ops : List ROp) :
    ∃ e, m.find? p = some e ∧
      ((e.ftype = .file ∧ (e.content.length < u64Max →
          runROps r ops = ((rspecRun e.content 0 ops).map (fun o => (o.1.toModel, o.2)),
            { content := e.content, pos := rspecPos e.content 0 ops }))) ∨
       (e.ftype = .dir ∧ (runROps r ops).2 = r ∧
          ∀ a ∈ (runROps r ops).1, (a.1 = .inl (fail .io) ∨ a.1 = .inr (fail .io)) ∧ a.2 = 0)) := by
  obtain ⟨_, _, e, he, hcase⟩ := opened_handle_phys h p r w' hopen
  refine ⟨e, he, ?_⟩
  rcases hcase with ⟨hf, hr, _⟩ | ⟨hd, hr⟩
  · exact Or.inl ⟨hf, fun hlen => by rw [hr]; exact read_script_on_fresh e.content ops hlen⟩
  · have := bad_script_all_fail r (by rw [hr]) ops
    refine Or.inr ⟨hd, this.1, fun a ha => ?_⟩
    have h2 := this.2 a ha
    rw [hr] at h2
    exact h2

end physleaf

/-! ## EmbeddedFS -/

/-- **embedded.** A successful `open_file` leaves the world alone and returns a good handle at
position 0 over exactly the embedded bytes of the (normalised) path -/
theorem opened_handle_good_embedded (s : Embedded.State) (p : Str) (w w' : World) (r : RHandle)
    (hopen : (Embedded.fs s).openFile p w = (.ok r, w')) :
    w' = w ∧ ∃ b, Embedded.fileGet? s.files (Embedded.normalize p) = some b ∧
      r = { content := b, pos := 0 } ∧ Good r ∧ r.pos = 0 := by
  have hrun : (Embedded.fs s).openFile p w = (Embedded.openFile s p, w) := rfl
  rw [hrun] at hopen
  simp only [Prod.mk.injEq] at hopen
  refine ⟨hopen.2.symm, ?_⟩
  have h1 := hopen.1
  unfold Embedded.openFile at h1
  cases hg : Embedded.fileGet? s.files (Embedded.normalize p) with
  | none => simp [hg, fail] at h1
  | some b =>
    simp only [hg, Res.ok.injEq] at h1
    exact ⟨b, rfl, h1.symm, by rw [← h1]; rfl, by rw [← h1]⟩

theorem embedded_open_exists (s : Embedded.State) (p : Str) (w : World) (b : Bytes)
    (hb : Embedded.fileGet? s.files (Embedded.normalize p) = some b) :
    (Embedded.fs s).openFile p w = (.ok { content := b, pos := 0 }, w) := by
  show (Embedded.openFile s p, w) = _
  unfold Embedded.openFile
  rw [hb]

theorem read_script_on_embedded (s : Embedded.State) (p : Str) (w w' : World) (r : RHandle)
    (hopen : (Embedded.fs s).openFile p w = (.ok r, w')) (ops : List ROp) :
    ∃ b, Embedded.fileGet? s.files (Embedded.normalize p) = some b ∧ (b.length < u64Max →
      runROps r ops = ((rspecRun b 0 ops).map (fun o => (o.1.toModel, o.2)),
        { content := b, pos := rspecPos b 0 ops })) := by
  obtain ⟨_, b, hb, hr, _, _⟩ := opened_handle_good_embedded s p w w' r hopen
  exact ⟨b, hb, fun hlen => by rw [hr]; exact read_script_on_fresh b ops hlen⟩

/-! ## through an altroot (over ANY filesystem) -/

section altroot
variable (root : VPath) (q : Str) (hroot : Canon root.path) (hq : Canon q)
include hroot hq

/-- **altroot passes read handles through.** `open_file(q)` through the altroot succeeds with
handle `r` exactly when `open_file(root ++ q)` of the underlying filesystem does, with the same
handle and the same world -/
theorem altroot_open_passes (w w' : World) (r : RHandle) :
    (Altroot.fs root).openFile q w = (.ok r, w') ↔
      root.fs.openFile (root.path ++ q) w = (.ok r, w') := by
  rw [C07.altroot_exact_openFile root q hroot hq]
  exact withPath_ok_iff _ _ _ _ _

/-- `append_file` likewise -/
theorem altroot_append_passes (w w' : World) (h : WHandle) :
    (Altroot.fs root).appendFile q w = (.ok h, w') ↔
      root.fs.appendFile (root.path ++ q) w = (.ok h, w') := by
  rw [C07.altroot_exact_appendFile root q hroot hq]
  exact withPath_ok_iff _ _ _ _ _

/-- `create_file`: the handle is the one the underlying `create_file(root ++ q)` returned (called
after the parent probe of `VfsPath::create_file`, which may run in between) -/
theorem altroot_create_passes (w w' : World) (h : WHandle)
    (hc : (Altroot.fs root).createFile q w = (.ok h, w')) :
    ∃ w1, root.fs.createFile (root.path ++ q) w1 = (.ok h, w') := by
  rw [C07.altroot_exact_createFile root q hroot hq] at hc
  unfold VPath.createFile at hc
  simp only [bind, M.bind] at hc
  cases hg : (root.withStr (root.path ++ q)).getParent w with
  | mk r1 w1 =>
    rw [hg] at hc
    cases r1 with
    | ok u =>
      simp only at hc
      exact ⟨w1, (withPath_ok_iff _ _ _ _ _).1 hc⟩
    | err k pth => simp at hc
    | panic => simp at hc

variable {w : World} {i : Nat} {m : FMap}

theorem read_script_on_altroot_mem (hfs : root.fs = leafFS i) (h : MemLeafAt w i m) (r : RHandle)
    (w' : World) (hopen : (Altroot.fs root).openFile q w = (.ok r, w')) (ops : List ROp) :
    ∃ e, m.find? (root.path ++ q) = some e ∧ e.ftype = .file ∧
      r = { content := e.content, pos := 0 } ∧ Good r ∧ (e.content.length < u64Max →
      runROps r ops = ((rspecRun e.content 0 ops).map (fun o => (o.1.toModel, o.2)),
        { content := e.content, pos := rspecPos e.content 0 ops })) := by
  have h1 := (altroot_open_passes root q hroot hq w w' r).1 hopen
  rw [hfs] at h1
  obtain ⟨e, he, hf, hr, hg, _⟩ := opened_handle_good_mem h _ r w' h1
  exact ⟨e, he, hf, hr, hg, fun hlen => by rw [hr]; exact read_script_on_fresh e.content ops hlen⟩

theorem read_script_on_altroot_phys (hfs : root.fs = leafFS i) (h : PhysAt w i m) (r : RHandle)
    (w' : World) (hopen : (Altroot.fs root).openFile q w = (.ok r, w')) (ops : List ROp) :
    ∃ e, m.find? (root.path ++ q) = some e ∧
      ((e.ftype = .file ∧ (e.content.length < u64Max →
          runROps r ops = ((rspecRun e.content 0 ops).map (fun o => (o.1.toModel, o.2)),
            { content := e.content, pos := rspecPos e.content 0 ops }))) ∨
       (e.ftype = .dir ∧ (runROps r ops).2 = r ∧
          ∀ a ∈ (runROps r ops).1, (a.1 = .inl (fail .io) ∨ a.1 = .inr (fail .io)) ∧ a.2 = 0)) := by
  have h1 := (altroot_open_passes root q hroot hq w w' r).1 hopen
  rw [hfs] at h1
  exact read_script_on_phys h _ r w' h1 ops

theorem read_script_on_altroot_embedded (s : Embedded.State) (hfs : root.fs = Embedded.fs s)
    (r : RHandle) (w0 w' : World) (hopen : (Altroot.fs root).openFile q w0 = (.ok r, w'))
    (ops : List ROp) :
    ∃ b, Embedded.fileGet? s.files (Embedded.normalize (root.path ++ q)) = some b ∧
      (b.length < u64Max →
      runROps r ops = ((rspecRun b 0 ops).map (fun o => (o.1.toModel, o.2)),
        { content := b, pos := rspecPos b 0 ops })) := by
  have h1 := (altroot_open_passes root q hroot hq w0 w' r).1 hopen
  rw [hfs] at h1
  exact read_script_on_embedded s _ w0 w' r h1 ops

end altroot

/-! ## write handles -/

theorem mem_create_pure (m : FMap) (p : Str) (m' : FMap) (h : Mem.createFile m p = (.ok (), m')) :
    m' = m.insert p fileEntryNow := by
  unfold Mem.createFile at h
  cases he : Mem.ensureHasParent m p with
  | ok u =>
    simp only [he] at h
    cases hf : m.find? p with
    | none => simp only [hf, Prod.mk.injEq] at h; exact h.2.symm
    | some e =>
      simp only [hf] at h
      by_cases hd : e.ftype = .dir
      · simp [hd, fail] at h
      · simp only [hd, if_false, Prod.mk.injEq] at h; exact h.2.symm
  | err k q => simp [he] at h
  | panic => simp [he] at h

section memwrite
variable {w : World} {i : Nat} {m : FMap}

/-- **create starts empty at 0.** A successful `create_file` on a memory leaf returns the
in-memory handle with the empty vector at position 0, and an (empty) file sits at the path -/
theorem created_handle_mem (h : MemLeafAt w i m) (p : Str) (hd : WHandle) (w' : World)
    (hc : (leafFS i).createFile p w = (.ok hd, w')) :
    hd = memH i p [] 0 ∧ w' = w.setLeafFiles i (m.insert p fileEntryNow) ∧
      MemLeafAt w' i (m.insert p fileEntryNow) ∧
      (m.insert p fileEntryNow).find? p = some fileEntryNow := by
  rw [run_createFile h] at hc
  simp only [Prod.mk.injEq] at hc
  obtain ⟨h1, h2⟩ := hc
  cases hr : (Mem.createFile m p).1 with
  | ok u =>
    rw [hr] at h1
    simp only [Res.map, Res.ok.injEq] at h1
    have hm := mem_create_pure m p (Mem.createFile m p).2 (Prod.ext hr rfl)
    rw [hm] at h2
    exact ⟨h1.symm, h2.symm, by rw [← h2]; exact h.set _, FMap.find?_insert_self _ _ _⟩
  | err k q => rw [hr] at h1; simp [Res.map] at h1
  | panic => rw [hr] at h1; simp [Res.map] at h1

/-- **append starts at the end of the existing bytes.** A successful `append_file` on a memory
leaf returns the in-memory handle over the bytes of the file, positioned at their end; the world
is unchanged -/
theorem appended_handle_mem (h : MemLeafAt w i m) (p : Str) (hd : WHandle) (w' : World)
    (hc : (leafFS i).appendFile p w = (.ok hd, w')) :
    w' = w ∧ ∃ e, m.find? p = some e ∧ e.ftype = .file ∧
      hd = memH i p e.content e.content.length := by
  rw [run_appendFile h] at hc
  simp only [Prod.mk.injEq] at hc
  obtain ⟨h1, h2⟩ := hc
  refine ⟨h2.symm, ?_⟩
  unfold Mem.appendFile at h1
  cases hf : m.find? p with
  | none => simp [hf, fail, Res.map] at h1
  | some e =>
    simp only [hf] at h1
    by_cases hft : e.ftype = .file
    · simp only [hft, ne_eq, not_true_eq_false, if_false, Res.map, Res.ok.injEq] at h1
      exact ⟨e, rfl, hft, h1.symm⟩
    · simp [hft, fail, Res.map] at h1

/-- a create session on a memory leaf, whole script: answers and positions are the
specification's from the empty vector at 0; while the handle is open the file holds the vector as
of the last flush (empty if none); after the drop exactly the specification's vector -/
theorem write_script_on_mem_create (h : MemLeafAt w i m) (p : Str) (hd : WHandle) (w' : World)
    (hc : (leafFS i).createFile p w = (.ok hd, w')) (acts : List Act) :
    traceActs hd w' acts = (wspecTrace [] 0 acts).map (fun o => (o.1.toModel, o.2)) ∧
    (∃ m1, applyActs hd w' acts =
        (memH i p (specRun [] 0 acts).1 (specRun [] 0 acts).2, w'.setLeafFiles i m1) ∧
      Holds m1 p (some (specFlushed [] [] 0 acts)) ∧ (∀ k, k ≠ p → m1.find? k = m.find? k)) ∧
    (∃ m2, C03.runActs hd acts w' = (.ok (), w'.setLeafFiles i m2) ∧
      Holds m2 p (some (specRun [] 0 acts).1) ∧ (∀ k, k ≠ p → m2.find? k = m.find? k)) := by
  obtain ⟨rfl, _, hl', hfind⟩ := created_handle_mem h p hd w' hc
  refine ⟨(write_script_is_cursor [] 0 acts w').1, ?_, ?_⟩
  · obtain ⟨m1, h1, h2, h3⟩ := write_script_published hl' fileEntryNow hfind rfl [] 0 acts
    exact ⟨m1, h1, h2, fun k hk => by rw [h3 k hk, FMap.find?_insert_ne _ _ _ _ hk]⟩
  · obtain ⟨m2, h1, h2, h3⟩ := write_script_dropped hl' fileEntryNow hfind rfl [] 0 acts
    exact ⟨m2, h1, h2, fun k hk => by rw [h3 k hk, FMap.find?_insert_ne _ _ _ _ hk]⟩

/-- an append session on a memory leaf, whole script, from `(old, |old|)` -/
theorem write_script_on_mem_append (h : MemLeafAt w i m) (p : Str) (hd : WHandle) (w' : World)
    (hc : (leafFS i).appendFile p w = (.ok hd, w')) (acts : List Act) :
    ∃ e, m.find? p = some e ∧ e.ftype = .file ∧
    traceActs hd w' acts =
      (wspecTrace e.content e.content.length acts).map (fun o => (o.1.toModel, o.2)) ∧
    (∃ m1, applyActs hd w' acts =
        (memH i p (specRun e.content e.content.length acts).1
          (specRun e.content e.content.length acts).2, w'.setLeafFiles i m1) ∧
      Holds m1 p (some (specFlushed e.content e.content e.content.length acts)) ∧
      (∀ k, k ≠ p → m1.find? k = m.find? k)) ∧
    (∃ m2, C03.runActs hd acts w' = (.ok (), w'.setLeafFiles i m2) ∧
      Holds m2 p (some (specRun e.content e.content.length acts).1) ∧
      (∀ k, k ≠ p → m2.find? k = m.find? k)) := by
  obtain ⟨rfl, e, he, hf, rfl⟩ := appended_handle_mem h p hd w' hc
  exact ⟨e, he, hf, (write_script_is_cursor _ _ acts w').1,
    write_script_published h e he hf _ _ acts, write_script_dropped h e he hf _ _ acts⟩

end memwrite

section altrootwrite
variable (root : VPath) (q : Str) (hroot : Canon root.path) (hq : Canon q)
  {w : World} {i : Nat} {m : FMap}
include hroot hq

/-- an append session through an altroot over a memory leaf -/
theorem write_script_on_altroot_mem_append (hfs : root.fs = leafFS i) (h : MemLeafAt w i m)
    (hd : WHandle) (w' : World) (hc : (Altroot.fs root).appendFile q w = (.ok hd, w'))
    (acts : List Act) :
    ∃ e, m.find? (root.path ++ q) = some e ∧ e.ftype = .file ∧
    hd = memH i (root.path ++ q) e.content e.content.length ∧
    traceActs hd w' acts =
      (wspecTrace e.content e.content.length acts).map (fun o => (o.1.toModel, o.2)) ∧
    (∃ m2, C03.runActs hd acts w' = (.ok (), w'.setLeafFiles i m2) ∧
      Holds m2 (root.path ++ q) (some (specRun e.content e.content.length acts).1) ∧
      (∀ k, k ≠ root.path ++ q → m2.find? k = m.find? k)) := by
  have h1 := (altroot_append_passes root q hroot hq w w' hd).1 hc
  rw [hfs] at h1
  obtain ⟨_, e, he, hf, hh⟩ := appended_handle_mem h _ hd w' h1
  obtain ⟨e', he', _, ht, _, hdrop⟩ := write_script_on_mem_append h _ hd w' h1 acts
  rw [he] at he'; injection he' with he'; subst he'
  exact ⟨e, he, hf, hh, ht, hdrop⟩

/-- `create_file` through an altroot over a memory leaf IS the `create_file` of the leaf on
`root ++ q` in the same world (the parent probe of `VfsPath::create_file` changes nothing there) -/
theorem altroot_create_passes_mem (hfs : root.fs = leafFS i) (h : MemLeafAt w i m)
    (hd : WHandle) (w' : World) (hc : (Altroot.fs root).createFile q w = (.ok hd, w')) :
    (leafFS i).createFile (root.path ++ q) w = (.ok hd, w') := by
  rw [C07.altroot_exact_createFile root q hroot hq] at hc
  obtain ⟨fs, id, rp⟩ := root
  simp only at hfs
  subst hfs
  unfold VPath.createFile at hc
  simp only [VPath.withStr, bind, M.bind] at hc
  rw [run_getParent h] at hc
  by_cases hp : Mem.parentOk m (rp ++ q) = true
  · simp only [hp, if_true] at hc
    exact (withPath_ok_iff _ _ _ _ _).1 hc
  · simp [hp] at hc

/-- a create session through an altroot over a memory leaf: the handle is the in-memory handle on
`root ++ q` with the empty vector at 0; answers and positions of any script are the
specification's; after the drop the leaf holds at `root ++ q` exactly the specification's vector -/
theorem write_script_on_altroot_mem_create (hfs : root.fs = leafFS i) (h : MemLeafAt w i m)
    (hd : WHandle) (w' : World) (hc : (Altroot.fs root).createFile q w = (.ok hd, w'))
    (acts : List Act) :
    hd = memH i (root.path ++ q) [] 0 ∧
    traceActs hd w' acts = (wspecTrace [] 0 acts).map (fun o => (o.1.toModel, o.2)) ∧
    (∃ m2, C03.runActs hd acts w' = (.ok (), w'.setLeafFiles i m2) ∧
      Holds m2 (root.path ++ q) (some (specRun [] 0 acts).1) ∧
      (∀ k, k ≠ root.path ++ q → m2.find? k = m.find? k)) := by
  have h1 := altroot_create_passes_mem root q hroot hq hfs h hd w' hc
  obtain ⟨hh, _, _, _⟩ := created_handle_mem h _ hd w' h1
  obtain ⟨ht, _, hdrop⟩ := write_script_on_mem_create h _ hd w' h1 acts
  exact ⟨hh, ht, hdrop⟩

end altrootwrite

/-! ## non-vacuity -/

def bkFiles : FMap :=
  [("/d/f".toList, { fileEntryNow with content := [10, 11, 12, 13, 14] }), ("/d".toList, dirEntryNow),
   ([], dirEntryNow)]
def bkMem : World := { leaves := [{ kind := .mem, files := bkFiles }] }
def bkPhys : World := { leaves := [{ kind := .phys, files := bkFiles }] }
def bkEmb : Embedded.State := Embedded.new [("d/f".toList, [10, 11, 12, 13, 14])]
def bkRoot : VPath := { fs := leafFS 0, fsId := 0, path := "/d".toList }

example : MemLeafAt bkMem 0 bkFiles := rfl
example : PhysAt bkPhys 0 bkFiles := rfl
example : Canon bkRoot.path ∧ Canon "/f".toList :=
  ⟨⟨["d".toList], by decide, by decide⟩, ⟨["f".toList], by decide, by decide⟩⟩

/-- the hypothesis `… = (Ok r, w')` of the `opened_handle_*` theorems, on each backend -/
example : ((leafFS 0).openFile "/d/f".toList bkMem).1 = .ok { content := [10, 11, 12, 13, 14], pos := 0 } := by
  decide
example : ((leafFS 0).openFile "/d/f".toList bkPhys).1 =
    .ok { content := [10, 11, 12, 13, 14], pos := 0 } := by decide
/-- `File::open` on a directory of the physical leaf: the bad handle -/
example : ((leafFS 0).openFile "/d".toList bkPhys).1 = .ok { content := [], pos := 0, bad := true } := by
  decide
example : ((Embedded.fs bkEmb).openFile "/d/f".toList bkMem).1 =
    .ok { content := [10, 11, 12, 13, 14], pos := 0 } := by decide
example : ((Altroot.fs bkRoot).openFile "/f".toList bkMem).1 =
    .ok { content := [10, 11, 12, 13, 14], pos := 0 } := by decide
example : ((Altroot.fs { bkRoot with fs := Embedded.fs bkEmb }).openFile "/f".toList bkMem).1 =
    .ok { content := [10, 11, 12, 13, 14], pos := 0 } := by decide

/-- the script of Props/C14Scripts.lean (End-relative seeks with negative and positive offsets,
reads beyond the data) on the handle the altroot over the memory leaf returns -/
example :
    (match (Altroot.fs bkRoot).openFile "/f".toList bkMem with
      | (.ok r, _) => (runROps r exScript).1
      | _ => []) =
    (rspecRun [10, 11, 12, 13, 14] 0 exScript).map (fun o => (o.1.toModel, o.2)) := by decide

/-- write handles: create through the altroot, append on the leaf -/
example : ((Altroot.fs bkRoot).createFile "/g".toList bkMem).1 = .ok (memH 0 "/d/g".toList [] 0) := by
  decide
example : ((leafFS 0).appendFile "/d/f".toList bkMem).1 =
    .ok (memH 0 "/d/f".toList [10, 11, 12, 13, 14] 5) := by decide
example : ((Altroot.fs bkRoot).appendFile "/f".toList bkMem).1 =
    .ok (memH 0 "/d/f".toList [10, 11, 12, 13, 14] 5) := by decide

end Vfs.C14

#print axioms Vfs.C14.opened_handle_good_mem
#print axioms Vfs.C14.read_script_on_mem
#print axioms Vfs.C14.opened_handle_phys
#print axioms Vfs.C14.read_script_on_phys
#print axioms Vfs.C14.opened_handle_good_embedded
#print axioms Vfs.C14.read_script_on_embedded
#print axioms Vfs.C14.altroot_open_passes
#print axioms Vfs.C14.altroot_append_passes
#print axioms Vfs.C14.altroot_create_passes
#print axioms Vfs.C14.read_script_on_altroot_mem
#print axioms Vfs.C14.read_script_on_altroot_phys
#print axioms Vfs.C14.read_script_on_altroot_embedded
#print axioms Vfs.C14.created_handle_mem
#print axioms Vfs.C14.appended_handle_mem
#print axioms Vfs.C14.write_script_on_mem_create
#print axioms Vfs.C14.write_script_on_mem_append
#print axioms Vfs.C14.write_script_on_altroot_mem_append
#print axioms Vfs.C14.write_script_on_altroot_mem_create
