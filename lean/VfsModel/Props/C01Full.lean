/-
  C01 (complete) — the operation contract of EVERY primitive, on the reference model `Phys.p*`
  and on the in-memory backend `Mem.p*`.

  Props/C01.lean states the full contract for `create_dir` and `remove_file`. This file adds, in
  the same style, `remove_dir`, the write session (`create_file` + `write_all` + drop),
  the append session, the four observers (`exists`, `metadata`, `read_dir`, `open_file`), the
  memory-side versions of all of them, and one summary theorem `primitive_contracts`:

      ok ↔ Pre m op        ok → Effect m op m'        ¬ok → m' = m

  with `Pre`/`Effect` given as definitions that can be read off directly, for both models.

  One clause of the prose contract is FALSE on the reference model (and on the code): opening a
  DIRECTORY through PhysicalFS succeeds (`File::open` on Linux), only the reads fail. The full
  statement is kept as `OpenFileSucceedsIffFile`, refuted on a concrete tree
  (`openFile_succeeds_iff_file_phys_false`), and the strongest true form — a handle that can be
  READ is served exactly for files — is `openFile_contract`. On the memory backend the full
  statement holds (`mem_openFile_contract`).
-/
import VfsModel.Props.C01
namespace Vfs.C01
open Vfs.C02

/-! ### vocabulary -/

/-- `p` is a file holding exactly `bs` -/
def HasFile (m : FMap) (p : Str) (bs : Bytes) : Prop :=
  ∃ e, m.find? p = some e ∧ e.ftype = .file ∧ e.content = bs

/-- every key other than `p` keeps its entry (timestamps included) -/
def Frame (m m' : FMap) (p : Str) : Prop := ∀ k, k ≠ p → m'.find? k = m.find? k

/-- canonical error class of a failed outcome (`ErrKind.cls`: `io` and `other` are both
"other failure") -/
def errClass {α} (r : Res α) : Option ErrClass := r.kind?.map ErrKind.cls

theorem HasFile.isFile {m : FMap} {p : Str} {bs : Bytes} (h : HasFile m p bs) : IsFile m p := by
  obtain ⟨e, h1, h2, _⟩ := h; exact ⟨e, h1, h2⟩

theorem isFile_hasFile {m : FMap} {p : Str} (h : IsFile m p) : ∃ bs, HasFile m p bs := by
  obtain ⟨e, h1, h2⟩ := h; exact ⟨e.content, e, h1, h2, rfl⟩

theorem not_isDir_of_isFile {m : FMap} {p : Str} (h : IsFile m p) : ¬ IsDir m p := by
  rintro ⟨e', h1', h2'⟩
  obtain ⟨e, h1, h2⟩ := h
  rw [h1] at h1'; injection h1' with h1'; subst h1'; rw [h2] at h2'; cases h2'

theorem not_isFile_of_absent {m : FMap} {p : Str} (h : Absent m p) : ¬ IsFile m p := by
  rintro ⟨e, h1, _⟩; rw [Absent] at h; rw [h] at h1; cases h1

theorem not_isDir_of_absent {m : FMap} {p : Str} (h : Absent m p) : ¬ IsDir m p := by
  rintro ⟨e, h1, _⟩; rw [Absent] at h; rw [h] at h1; cases h1

/-- present = a file or a directory -/
theorem present_cases (m : FMap) (p : Str) : Absent m p ∨ IsFile m p ∨ IsDir m p := by
  unfold Absent IsFile IsDir
  cases h : m.find? p with
  | none => exact Or.inl rfl
  | some e =>
    cases ht : e.ftype
    · exact Or.inr (Or.inl ⟨e, rfl, ht⟩)
    · exact Or.inr (Or.inr ⟨e, rfl, ht⟩)

/-- the listing of `p` is empty exactly when no key has `p` as its parent -/
theorem children_nil_iff (m : FMap) (p : Str) :
    m.keys.filterMap (childName p) = [] ↔ NoChildren m p := by
  constructor
  · intro h k e hk hs heq
    have : afterLast '/' k ∈ m.keys.filterMap (childName p) :=
      (mem_filterMap_childName m p _).2 ⟨k, e, hk, hs, heq, rfl⟩
    rw [h] at this; cases this
  · intro h
    apply List.eq_nil_iff_forall_not_mem.2
    intro n hn
    obtain ⟨k, e, hk, hs, heq, _⟩ := (mem_filterMap_childName m p n).1 hn
    exact h k e hk hs heq

/-- the listing of `p`: exactly the bare names `n` (no '/') for which `p/n` is present -/
theorem mem_children_iff (m : FMap) (p n : Str) :
    n ∈ m.keys.filterMap (childName p) ↔ '/' ∉ n ∧ ¬ Absent m (p ++ '/' :: n) := by
  rw [mem_filterMap_childName]
  constructor
  · rintro ⟨k, e, hk, hs, hpar, hn⟩
    have := (childName_iff p k n).2 ⟨hs, hpar, hn⟩
    obtain ⟨h1, h2⟩ := childName_some p k n this
    subst h1
    exact ⟨h2, by rw [Absent, hk]; simp⟩
  · rintro ⟨hn, hpres⟩
    rw [Absent] at hpres
    cases hk : m.find? (p ++ '/' :: n) with
    | none => exact absurd hk hpres
    | some e =>
      exact ⟨_, e, hk, by simp, parent_of_child p n hn, afterLast_append_delim '/' p n hn⟩

/-! ### path resolution of the host on a well-formed tree, for EVERY path string -/

theorem resolveParent_noslash (m : FMap) (p : Str) (h : '/' ∉ p) : Phys.resolveParent m p = .ok () := by
  rw [resolveParent_ok_iff]
  intro a ha
  obtain ⟨i, _, hc, _⟩ := (mem_ancestors p a).1 ha
  exact absurd (List.mem_of_getElem? hc) h

/-- below an existing directory the host's lookup is the plain map lookup -/
theorem phys_lookup_any {m : FMap} (hm : WF m) (p : Str) (hpar : IsDir m (parentInternal p)) :
    Phys.lookup m p = .ok (m.find? p) := by
  by_cases hs : '/' ∈ p
  · obtain ⟨pe, h1, h2⟩ := hpar
    exact hm.lookup_child p hs pe h1 h2
  · unfold Phys.lookup
    rw [resolveParent_noslash m p hs]

/-- the three answers of the host's lookup on a well-formed tree -/
theorem phys_lookup_cases {m : FMap} (hm : WF m) (p : Str) :
    (∃ e, m.find? p = some e ∧ Phys.lookup m p = .ok (some e)) ∨
    (m.find? p = none ∧ Phys.lookup m p = .ok none) ∨
    (m.find? p = none ∧ ¬ IsDir m (parentInternal p) ∧ ∃ k pth, Phys.lookup m p = .err k pth) := by
  rcases Option.eq_none_or_eq_some (m.find? p) with hf | ⟨e, hf⟩
  · rcases lookup_absent m p hf with ⟨k, pth, hl⟩ | hl
    · refine Or.inr (Or.inr ⟨hf, ?_, k, pth, hl⟩)
      intro hpar
      rw [phys_lookup_any hm p hpar] at hl
      cases hl
    · exact Or.inr (Or.inl ⟨hf, hl⟩)
  · exact Or.inl ⟨e, hf, hm.lookup_present p e hf⟩

/-! ### evaluation of the reference primitives, case by case -/

section physEval
variable {m : FMap} (hm : WF m) (p : Str)
include hm

theorem phys_removeDir_absent (hf : Absent m p) :
    (Phys.pRemoveDir m p).2 = m ∧ (Phys.pRemoveDir m p).1.isOk = false ∧
    (IsDir m (parentInternal p) → (Phys.pRemoveDir m p).1.kind? = some .fileNotFound) := by
  unfold Phys.pRemoveDir Phys.removeDir
  refine ⟨?_, ?_, ?_⟩
  · rcases lookup_absent m p hf with ⟨k, pth, hl⟩ | hl <;> simp [hl, fail]
  · rcases lookup_absent m p hf with ⟨k, pth, hl⟩ | hl <;> simp [hl, fail, Res.withPath, Res.isOk]
  · intro hpar
    rw [Absent] at hf
    simp [phys_lookup_any hm p hpar, hf, fail, Res.withPath, Res.kind?]

theorem phys_removeDir_file (hf : IsFile m p) : Phys.pRemoveDir m p = (.err .io (some p), m) := by
  obtain ⟨e, he, ht⟩ := hf
  unfold Phys.pRemoveDir Phys.removeDir
  simp [hm.lookup_present p e he, ht, fail, Res.withPath]

theorem phys_removeDir_nonempty (hd : IsDir m p) (hc : ¬ NoChildren m p) :
    Phys.pRemoveDir m p = (.err .io (some p), m) := by
  obtain ⟨e, he, ht⟩ := hd
  have hne : Phys.children m p ≠ [] := fun h => hc ((children_nil_iff m p).1 h)
  unfold Phys.pRemoveDir Phys.removeDir
  simp [hm.lookup_present p e he, ht, hne, fail, Res.withPath]

theorem phys_removeDir_empty (hd : IsDir m p) (hc : NoChildren m p) :
    Phys.pRemoveDir m p = (.ok (), m.erase p) := by
  obtain ⟨e, he, ht⟩ := hd
  have hnil : Phys.children m p = [] := (children_nil_iff m p).2 hc
  unfold Phys.pRemoveDir Phys.removeDir
  simp [hm.lookup_present p e he, ht, hnil, Res.withPath]

theorem phys_parentOk_any : Phys.parentOk m p = true ↔ IsDir m (parentInternal p) := by
  rw [parentOk_agree hm (CoreEq.refl m) p, parentOk_iff]

theorem phys_parentOk_false (h : ¬ IsDir m (parentInternal p)) : Phys.parentOk m p = false := by
  cases hpo : Phys.parentOk m p
  · rfl
  · exact absurd ((phys_parentOk_any hm p).1 hpo) h

omit hm in
/-- `write_all(bs)` at position 0 of a freshly created / truncated file -/
theorem writeAt0_fresh (e1 : Entry) (bs : Bytes) (hc : e1.content = []) (ht : e1.ftype = .file) :
    HasFile (Phys.writeAt0 (m.insert p e1) p bs) p bs ∧
    Frame m (Phys.writeAt0 (m.insert p e1) p bs) p := by
  have hfresh : cursorWrite [] 0 bs = bs := by unfold cursorWrite padTo; simp
  unfold Phys.writeAt0
  simp only [FMap.find?_insert_self]
  by_cases hbs : bs = []
  · subst hbs
    simp only [↓reduceIte]
    exact ⟨⟨e1, by simp, ht, hc⟩, fun k hk => FMap.find?_insert_ne m p k _ hk⟩
  · simp only [hbs, ↓reduceIte]
    refine ⟨⟨_, FMap.find?_insert_self _ _ _, ht, by simp [hc, hfresh]⟩, ?_⟩
    intro k hk
    rw [FMap.find?_insert_ne _ p k _ hk, FMap.find?_insert_ne m p k _ hk]

theorem phys_write_noparent (bs : Bytes) (h : ¬ IsDir m (parentInternal p)) :
    Phys.pWrite m p bs = (.err .other (some p), m) := by
  unfold Phys.pWrite
  simp [phys_parentOk_false hm p h]

theorem phys_write_dir (bs : Bytes) (hpar : IsDir m (parentInternal p)) (hd : IsDir m p) :
    Phys.pWrite m p bs = (.err .io (some p), m) := by
  obtain ⟨e, he, ht⟩ := hd
  unfold Phys.pWrite Phys.createFile
  simp [(phys_parentOk_any hm p).2 hpar, hm.lookup_present p e he, ht, fail, Res.withPath]

theorem phys_write_ok (bs : Bytes) (hpar : IsDir m (parentInternal p)) (h : Absent m p ∨ IsFile m p) :
    ∃ m', Phys.pWrite m p bs = (.ok (), m') ∧ HasFile m' p bs ∧ Frame m m' p := by
  unfold Phys.pWrite Phys.createFile
  simp only [(phys_parentOk_any hm p).2 hpar, ↓reduceIte, phys_lookup_any hm p hpar]
  rcases h with h | ⟨e, he, ht⟩
  · rw [Absent] at h
    simp only [h]
    exact ⟨_, rfl, writeAt0_fresh p fileEntryNow bs rfl rfl⟩
  · simp only [he, ht, show (FType.file = FType.dir) = False from by simp, ↓reduceIte]
    exact ⟨_, rfl, writeAt0_fresh p _ bs rfl rfl⟩

theorem phys_append_absent (bs : Bytes) (hf : Absent m p) :
    (Phys.pAppend m p bs).2 = m ∧ (Phys.pAppend m p bs).1.isOk = false ∧
    (IsDir m (parentInternal p) → (Phys.pAppend m p bs).1.kind? = some .fileNotFound) := by
  unfold Phys.pAppend Phys.appendFile
  refine ⟨?_, ?_, ?_⟩
  · rcases lookup_absent m p hf with ⟨k, pth, hl⟩ | hl <;> simp [hl, fail]
  · rcases lookup_absent m p hf with ⟨k, pth, hl⟩ | hl <;> simp [hl, fail, Res.withPath, Res.isOk]
  · intro hpar
    rw [Absent] at hf
    simp [phys_lookup_any hm p hpar, hf, fail, Res.withPath, Res.kind?]

theorem phys_append_dir (bs : Bytes) (hd : IsDir m p) :
    Phys.pAppend m p bs = (.err .io (some p), m) := by
  obtain ⟨e, he, ht⟩ := hd
  unfold Phys.pAppend Phys.appendFile
  simp [hm.lookup_present p e he, ht, fail, Res.withPath]

theorem phys_append_file (bs : Bytes) (e : Entry) (he : m.find? p = some e) (ht : e.ftype = .file) :
    Phys.pAppend m p bs =
      (.ok (), m.insert p { e with content := e.content ++ bs, modified := .now }) := by
  unfold Phys.pAppend Phys.appendFile Phys.appendAt
  simp [hm.lookup_present p e he, ht, he]

end physEval

/-! ### the reference contracts of the remaining mutators

The reference statements hold for EVERY path string `p` of a well-formed tree (on the reference
model a key without '/' simply resolves against the root); the memory versions below need
`Abs p`, which is what the `VfsPath` layer produces. -/

section spec
variable {m : FMap} (hm : WF m) (p : Str)
include hm

/-- after a change that leaves every other key alone, the host still resolves `p` -/
theorem phys_lookup_after {m' : FMap} (hpar : IsDir m (parentInternal p)) (hfr : Frame m m' p) :
    Phys.lookup m' p = .ok (m'.find? p) := by
  have h0 : Phys.resolveParent m p = .ok () := by
    by_cases hs : '/' ∈ p
    · obtain ⟨pe, h1, h2⟩ := hpar
      exact hm.resolve_child p hs pe h1 h2
    · exact resolveParent_noslash m p hs
  have h1 : Phys.resolveParent m' p = .ok () := by
    rw [resolveParent_ok_iff] at h0 ⊢
    intro a ha
    obtain ⟨e, he, hd⟩ := h0 a ha
    refine ⟨e, ?_, hd⟩
    have hne : a ≠ p := by
      obtain ⟨i, hi, _, rfl⟩ := (mem_ancestors p a).1 ha
      intro heq
      have := congrArg List.length heq
      simp at this; omega
    rw [hfr a hne]; exact he
  unfold Phys.lookup
  rw [h1]

omit hm in
theorem phys_metadata_hasFile {m' : FMap} {bs : Bytes} (hl : Phys.lookup m' p = .ok (m'.find? p))
    (hf : HasFile m' p bs) :
    ∃ md, Phys.metadata m' p = .ok md ∧ md.ftype = .file ∧ md.len = bs.length := by
  obtain ⟨e, he, ht, hc⟩ := hf
  unfold Phys.metadata
  rw [hl, he]
  exact ⟨_, rfl, by simp [Entry.meta, ht], by simp [ht, hc]⟩

/-- remove_dir succeeds exactly on an existing directory without children; then exactly `p`
disappears; a failed call changes nothing; a target missing from an existing directory is
not-found; a non-empty directory and a file are refused -/
theorem removeDir_contract :
    ((Phys.pRemoveDir m p).1.isOk = true ↔ IsDir m p ∧ NoChildren m p) ∧
    ((Phys.pRemoveDir m p).1.isOk = true →
        Absent (Phys.pRemoveDir m p).2 p ∧ Frame m (Phys.pRemoveDir m p).2 p) ∧
    ((Phys.pRemoveDir m p).1.isOk = false → (Phys.pRemoveDir m p).2 = m) ∧
    (IsDir m (parentInternal p) → Absent m p → (Phys.pRemoveDir m p).1.kind? = some .fileNotFound) ∧
    (IsDir m p → ¬ NoChildren m p → errClass (Phys.pRemoveDir m p).1 = some .otherFailure) ∧
    (IsFile m p → errClass (Phys.pRemoveDir m p).1 = some .otherFailure) := by
  rcases present_cases m p with ha | hf | hd
  · obtain ⟨h1, h2, h3⟩ := phys_removeDir_absent hm p ha
    refine ⟨?_, ?_, fun _ => h1, fun hpar _ => h3 hpar, fun h => absurd h (not_isDir_of_absent ha),
      fun h => absurd h (not_isFile_of_absent ha)⟩
    · rw [h2]; simp [not_isDir_of_absent ha]
    · rw [h2]; simp
  · have hnd := not_isDir_of_isFile hf
    rw [phys_removeDir_file hm p hf]
    refine ⟨by simp [Res.isOk, hnd], by simp [Res.isOk], fun _ => rfl, ?_, fun h => absurd h hnd, fun _ => rfl⟩
    intro _ ha; exact absurd hf (not_isFile_of_absent ha)
  · have hna : ¬ Absent m p := fun ha => not_isDir_of_absent ha hd
    have hnf : ¬ IsFile m p := fun hf => not_isDir_of_isFile hf hd
    by_cases hc : NoChildren m p
    · rw [phys_removeDir_empty hm p hd hc]
      refine ⟨by simp [Res.isOk, hd, hc], ?_, by simp [Res.isOk], fun _ ha => absurd ha hna,
        fun _ h => absurd hc h, fun h => absurd h hnf⟩
      intro _
      exact ⟨by simp [Absent], fun k hk => FMap.find?_erase_ne m p k hk⟩
    · rw [phys_removeDir_nonempty hm p hd hc]
      exact ⟨by simp [Res.isOk, hc], by simp [Res.isOk], fun _ => rfl, fun _ ha => absurd ha hna,
        fun _ _ => rfl, fun h => absurd h hnf⟩

/-- one write session (`create_file`, `write_all(bs)`, drop) succeeds exactly when the parent
is an existing directory and the target is absent or a file; then `p` is a file holding exactly
`bs` (its metadata reports that length) and every other key keeps its entry; a failed session
changes nothing; a directory target and a missing / non-directory parent are refused -/
theorem write_contract (bs : Bytes) :
    ((Phys.pWrite m p bs).1.isOk = true ↔ IsDir m (parentInternal p) ∧ (Absent m p ∨ IsFile m p)) ∧
    ((Phys.pWrite m p bs).1.isOk = true →
        HasFile (Phys.pWrite m p bs).2 p bs ∧ Frame m (Phys.pWrite m p bs).2 p ∧
        ∃ md, Phys.metadata (Phys.pWrite m p bs).2 p = .ok md ∧ md.ftype = .file ∧ md.len = bs.length) ∧
    ((Phys.pWrite m p bs).1.isOk = false → (Phys.pWrite m p bs).2 = m) ∧
    (IsDir m (parentInternal p) → IsDir m p → errClass (Phys.pWrite m p bs).1 = some .otherFailure) ∧
    (¬ IsDir m (parentInternal p) → errClass (Phys.pWrite m p bs).1 = some .otherFailure) := by
  by_cases hpar : IsDir m (parentInternal p)
  · rcases present_cases m p with ha | hf | hd
    · obtain ⟨m', he, h1, h2⟩ := phys_write_ok hm p bs hpar (Or.inl ha)
      rw [he]
      refine ⟨by simp [Res.isOk, hpar, ha], fun _ => ⟨h1, h2, ?_⟩, by simp [Res.isOk],
        fun _ hd => absurd hd (not_isDir_of_absent ha), fun h => absurd hpar h⟩
      exact phys_metadata_hasFile p (phys_lookup_after hm p hpar h2) h1
    · obtain ⟨m', he, h1, h2⟩ := phys_write_ok hm p bs hpar (Or.inr hf)
      rw [he]
      refine ⟨by simp [Res.isOk, hpar, hf], fun _ => ⟨h1, h2, ?_⟩, by simp [Res.isOk],
        fun _ hd => absurd hd (not_isDir_of_isFile hf), fun h => absurd hpar h⟩
      exact phys_metadata_hasFile p (phys_lookup_after hm p hpar h2) h1
    · have hna : ¬ Absent m p := fun ha => not_isDir_of_absent ha hd
      have hnf : ¬ IsFile m p := fun hf => not_isDir_of_isFile hf hd
      rw [phys_write_dir hm p bs hpar hd]
      exact ⟨by simp [Res.isOk, hna, hnf], by simp [Res.isOk], fun _ => rfl, fun _ _ => rfl,
        fun h => absurd hpar h⟩
  · rw [phys_write_noparent hm p bs hpar]
    exact ⟨by simp [Res.isOk, hpar], by simp [Res.isOk], fun _ => rfl, fun h => absurd h hpar,
      fun _ => rfl⟩

/-- one append session (`append_file`, `write_all(bs)`, drop) succeeds exactly on an existing
file; then its content is the old content followed by `bs` and every other key keeps its entry;
a failed session changes nothing; a target missing from an existing directory is not-found; a
directory is refused -/
theorem append_contract (bs : Bytes) :
    ((Phys.pAppend m p bs).1.isOk = true ↔ IsFile m p) ∧
    ((Phys.pAppend m p bs).1.isOk = true →
        (∃ old, HasFile m p old ∧ HasFile (Phys.pAppend m p bs).2 p (old ++ bs)) ∧
        Frame m (Phys.pAppend m p bs).2 p) ∧
    ((Phys.pAppend m p bs).1.isOk = false → (Phys.pAppend m p bs).2 = m) ∧
    (IsDir m (parentInternal p) → Absent m p → (Phys.pAppend m p bs).1.kind? = some .fileNotFound) ∧
    (IsDir m p → errClass (Phys.pAppend m p bs).1 = some .otherFailure) := by
  rcases present_cases m p with ha | hf | hd
  · obtain ⟨h1, h2, h3⟩ := phys_append_absent hm p bs ha
    refine ⟨?_, ?_, fun _ => h1, fun hpar _ => h3 hpar, fun h => absurd h (not_isDir_of_absent ha)⟩
    · rw [h2]; simp [not_isFile_of_absent ha]
    · rw [h2]; simp
  · obtain ⟨e, he, ht⟩ := hf
    rw [phys_append_file hm p bs e he ht]
    refine ⟨by simp [Res.isOk]; exact ⟨e, he, ht⟩, ?_, by simp [Res.isOk], ?_, ?_⟩
    · intro _
      exact ⟨⟨e.content, ⟨e, he, ht, rfl⟩, ⟨_, FMap.find?_insert_self _ _ _, ht, rfl⟩⟩,
        fun k hk => FMap.find?_insert_ne m p k _ hk⟩
    · intro _ ha; rw [Absent, he] at ha; cases ha
    · intro hd; exact absurd hd (not_isDir_of_isFile ⟨e, he, ht⟩)
  · have hnf : ¬ IsFile m p := fun hf => not_isDir_of_isFile hf hd
    rw [phys_append_dir hm p bs hd]
    exact ⟨by simp [Res.isOk, hnf], by simp [Res.isOk], fun _ => rfl,
      fun _ ha => absurd hd (not_isDir_of_absent ha), fun _ => rfl⟩

end spec

/-! ### the observers on the reference model

`Phys.exists_`, `Phys.metadata`, `Phys.readDir`, `Phys.openFile` are pure functions of the map:
an observer of the reference model cannot change the tree. -/

section observers
variable {m : FMap} (hm : WF m) (p : Str)
include hm

/-- `exists` answers (it has no failure outcome: every host error reads as `false`), and the
answer is `true` exactly for present paths -/
theorem exists_contract :
    (Phys.exists_ m p = true ↔ ¬ Absent m p) ∧ (Phys.exists_ m p = false ↔ Absent m p) := by
  unfold Phys.exists_ Absent
  rcases phys_lookup_cases hm p with ⟨e, hf, hl⟩ | ⟨hf, hl⟩ | ⟨hf, _, k, pth, hl⟩ <;> simp [hl, hf]

/-- `metadata` succeeds exactly on present paths and reports the type, and for a file its
length; a target missing from an existing directory is not-found -/
theorem metadata_contract :
    ((Phys.metadata m p).isOk = true ↔ ¬ Absent m p) ∧
    (IsDir m p → ∃ md, Phys.metadata m p = .ok md ∧ md.ftype = .dir) ∧
    (∀ bs, HasFile m p bs → ∃ md, Phys.metadata m p = .ok md ∧ md.ftype = .file ∧ md.len = bs.length) ∧
    (IsDir m (parentInternal p) → Absent m p → (Phys.metadata m p).kind? = some .fileNotFound) := by
  unfold Phys.metadata
  rcases phys_lookup_cases hm p with ⟨e, hf, hl⟩ | ⟨hf, hl⟩ | ⟨hf, hnp, k, pth, hl⟩
  · rw [hl]
    refine ⟨by simp [Res.isOk, Absent, hf], ?_, ?_, ?_⟩
    · rintro ⟨e', he', ht'⟩
      rw [hf] at he'; injection he' with he'; subst he'
      exact ⟨_, rfl, by simp [Entry.meta, ht']⟩
    · rintro bs ⟨e', he', ht', hc'⟩
      rw [hf] at he'; injection he' with he'; subst he'
      exact ⟨_, rfl, by simp [Entry.meta, ht'], by simp [ht', hc']⟩
    · intro _ ha; rw [Absent, hf] at ha; cases ha
  · rw [hl]
    refine ⟨by simp [fail, Res.isOk, Absent, hf], fun h => absurd h (not_isDir_of_absent hf), ?_, ?_⟩
    · intro bs h; exact absurd h.isFile (not_isFile_of_absent hf)
    · intro _ _; simp [fail, Res.kind?]
  · rw [hl]
    refine ⟨by simp [Res.isOk, Absent, hf], fun h => absurd h (not_isDir_of_absent hf), ?_, ?_⟩
    · intro bs h; exact absurd h.isFile (not_isFile_of_absent hf)
    · intro h; exact absurd h hnp

/-- `read_dir` succeeds exactly on directories and lists exactly the bare names of the present
children — each once (on a map without duplicate keys, which is what every operation produces);
a target missing from an existing directory is not-found; a file is refused -/
theorem readDir_contract :
    ((Phys.readDir m p).isOk = true ↔ IsDir m p) ∧
    (∀ l, Phys.readDir m p = .ok l →
        (∀ n, n ∈ l ↔ '/' ∉ n ∧ ¬ Absent m (p ++ '/' :: n)) ∧ (FMap.NodupKeys m → l.Nodup)) ∧
    (IsDir m (parentInternal p) → Absent m p → (Phys.readDir m p).kind? = some .fileNotFound) ∧
    (IsFile m p → errClass (Phys.readDir m p) = some .otherFailure) := by
  unfold Phys.readDir
  rcases phys_lookup_cases hm p with ⟨e, hf, hl⟩ | ⟨hf, hl⟩ | ⟨hf, hnp, k, pth, hl⟩
  · rw [hl]
    have hna : ¬ Absent m p := by rw [Absent, hf]; simp
    cases ht : e.ftype
    · have hfile : IsFile m p := ⟨e, hf, ht⟩
      simp only [ht, ↓reduceIte]
      refine ⟨by simp [fail, Res.isOk, not_isDir_of_isFile hfile], ?_, fun _ ha => absurd ha hna, fun _ => rfl⟩
      intro l h; simp [fail] at h
    · have hdir : IsDir m p := ⟨e, hf, ht⟩
      simp only [ht, show (FType.dir = FType.file) = False from by simp, ↓reduceIte]
      refine ⟨by simp [Res.isOk, hdir], ?_, fun _ ha => absurd ha hna,
        fun h => absurd hdir (not_isDir_of_isFile h)⟩
      intro l h
      injection h with h
      subst h
      exact ⟨fun n => mem_children_iff m p n, fun hk => filterMap_childName_nodup m p hk⟩
  · rw [hl]
    refine ⟨by simp [fail, Res.isOk, not_isDir_of_absent hf], ?_, ?_, fun h => absurd h (not_isFile_of_absent hf)⟩
    · intro l h; simp [fail] at h
    · intro _ _; simp [fail, Res.kind?]
  · rw [hl]
    refine ⟨by simp [Res.isOk, not_isDir_of_absent hf], ?_, fun h => absurd h hnp,
      fun h => absurd h (not_isFile_of_absent hf)⟩
    intro l h; cases h

/-- `open_file`: a handle that can be READ is served exactly for files, and it serves exactly
the file's bytes; a target missing from an existing directory is not-found. On a DIRECTORY the
host's `open` succeeds and every read through the handle fails (`File::open` on Linux) — see
`openFile_succeeds_iff_file_phys_false` -/
theorem openFile_contract :
    ((∃ r, Phys.openFile m p = .ok r ∧ r.bad = false) ↔ IsFile m p) ∧
    (∀ bs, HasFile m p bs →
        Phys.openFile m p = .ok { content := bs, pos := 0 } ∧
        (RHandle.readToEnd { content := bs, pos := 0 }).1 = .ok bs) ∧
    (IsDir m (parentInternal p) → Absent m p → (Phys.openFile m p).kind? = some .fileNotFound) ∧
    (IsDir m p → ∃ r, Phys.openFile m p = .ok r ∧ r.bad = true ∧
        r.readToEnd.1 = fail .io ∧ ∀ n, (r.read n).1 = fail .io) := by
  unfold Phys.openFile
  rcases phys_lookup_cases hm p with ⟨e, hf, hl⟩ | ⟨hf, hl⟩ | ⟨hf, hnp, k, pth, hl⟩
  · rw [hl]
    have hna : ¬ Absent m p := by rw [Absent, hf]; simp
    cases ht : e.ftype
    · have hfile : IsFile m p := ⟨e, hf, ht⟩
      simp only [ht, show (FType.file = FType.dir) = False from by simp, ↓reduceIte]
      refine ⟨by simp [hfile], ?_, fun _ ha => absurd ha hna, fun h => absurd h (not_isDir_of_isFile hfile)⟩
      rintro bs ⟨e', he', _, hc'⟩
      rw [hf] at he'; injection he' with he'; subst he'
      exact ⟨by rw [hc'], by simp [RHandle.readToEnd]⟩
    · have hdir : IsDir m p := ⟨e, hf, ht⟩
      have hnf : ¬ IsFile m p := fun h => not_isDir_of_isFile h hdir
      simp only [ht, ↓reduceIte]
      refine ⟨by simp [hnf], fun bs h => absurd h.isFile hnf, fun _ ha => absurd ha hna, ?_⟩
      intro _
      exact ⟨_, rfl, rfl, by simp [RHandle.readToEnd], fun n => by simp [RHandle.read]⟩
  · rw [hl]
    have hnf := not_isFile_of_absent hf
    refine ⟨by simp [fail, hnf], fun bs h => absurd h.isFile hnf, ?_, fun h => absurd h (not_isDir_of_absent hf)⟩
    intro _ _; simp [fail, Res.kind?]
  · rw [hl]
    have hnf := not_isFile_of_absent hf
    exact ⟨by simp [hnf], fun bs h => absurd h.isFile hnf, fun h => absurd h hnp,
      fun h => absurd h (not_isDir_of_absent hf)⟩

end observers

/-! ### the in-memory backend: evaluation case by case

MemoryFS never resolves ancestors: its primitives are plain map lookups, so these statements
need no well-formedness; `create_dir` / `create_file` only need a '/' in the path
(`ensure_has_parent`), which `Abs p` provides. -/

section memEval
variable (m : FMap) (p : Str)

theorem mem_parentOk_false (h : ¬ IsDir m (parentInternal p)) : Mem.parentOk m p = false := by
  cases hpo : Mem.parentOk m p
  · rfl
  · exact absurd ((parentOk_iff m p).1 hpo) h

theorem mem_ensureHasParent (hs : '/' ∈ p) (hpar : IsDir m (parentInternal p)) :
    Mem.ensureHasParent m p = .ok () := by
  obtain ⟨pe, h1, h2⟩ := hpar
  unfold Mem.ensureHasParent
  simp [hs, h1, h2]

theorem mem_removeDir_absent (hf : Absent m p) :
    Mem.pRemoveDir m p = (.err .fileNotFound (some p), m) := by
  rw [Absent] at hf
  simp [Mem.pRemoveDir, Mem.removeDir, Mem.readDir, hf, fail, Res.withPath]

theorem mem_removeDir_file (hf : IsFile m p) : Mem.pRemoveDir m p = (.err .other (some p), m) := by
  obtain ⟨e, he, ht⟩ := hf
  simp [Mem.pRemoveDir, Mem.removeDir, Mem.readDir, he, ht, fail, Res.withPath]

theorem mem_removeDir_nonempty (hd : IsDir m p) (hc : ¬ NoChildren m p) :
    Mem.pRemoveDir m p = (.err .other (some p), m) := by
  obtain ⟨e, he, ht⟩ := hd
  have hne : m.keys.filterMap (childName p) ≠ [] := fun h => hc ((children_nil_iff m p).1 h)
  simp [Mem.pRemoveDir, Mem.removeDir, Mem.readDir, he, ht, hne, fail, Res.withPath]

theorem mem_removeDir_empty (hd : IsDir m p) (hc : NoChildren m p) :
    Mem.pRemoveDir m p = (.ok (), m.erase p) := by
  obtain ⟨e, he, ht⟩ := hd
  have hnil : m.keys.filterMap (childName p) = [] := (children_nil_iff m p).2 hc
  simp [Mem.pRemoveDir, Mem.removeDir, Mem.readDir, he, ht, hnil, FMap.contains, Res.withPath]

theorem mem_write_noparent (bs : Bytes) (h : ¬ IsDir m (parentInternal p)) :
    Mem.pWrite m p bs = (.err .other (some p), m) := by
  unfold Mem.pWrite
  simp [mem_parentOk_false m p h]

theorem mem_write_dir (bs : Bytes) (hs : '/' ∈ p) (hpar : IsDir m (parentInternal p)) (hd : IsDir m p) :
    Mem.pWrite m p bs = (.err .other (some p), m) := by
  obtain ⟨e, he, ht⟩ := hd
  unfold Mem.pWrite Mem.createFile
  simp [(parentOk_iff m p).2 hpar, mem_ensureHasParent m p hs hpar, he, ht, fail, Res.withPath]

theorem mem_write_ok (bs : Bytes) (hs : '/' ∈ p) (hpar : IsDir m (parentInternal p))
    (h : Absent m p ∨ IsFile m p) :
    ∃ m', Mem.pWrite m p bs = (.ok (), m') ∧ HasFile m' p bs ∧ Frame m m' p := by
  have hfresh : cursorWrite [] 0 bs = bs := by unfold cursorWrite padTo; simp
  have hcf : Mem.createFile m p = (.ok (), m.insert p fileEntryNow) := by
    unfold Mem.createFile
    rw [mem_ensureHasParent m p hs hpar]
    rcases h with h | ⟨e, he, ht⟩
    · rw [Absent] at h; simp [h]
    · simp [he, ht]
  unfold Mem.pWrite
  simp only [(parentOk_iff m p).2 hpar, ↓reduceIte, hcf]
  refine ⟨_, rfl, ?_, ?_⟩
  · unfold memPublish
    simp only [FMap.find?_insert_self, show fileEntryNow.ftype = FType.file from rfl, ↓reduceIte]
    exact ⟨_, FMap.find?_insert_self _ _ _, rfl, hfresh⟩
  · intro k hk
    unfold memPublish
    simp only [FMap.find?_insert_self, show fileEntryNow.ftype = FType.file from rfl, ↓reduceIte]
    rw [FMap.find?_insert_ne _ p k _ hk, FMap.find?_insert_ne m p k _ hk]

theorem mem_append_absent (bs : Bytes) (hf : Absent m p) :
    Mem.pAppend m p bs = (.err .fileNotFound (some p), m) := by
  rw [Absent] at hf
  simp [Mem.pAppend, Mem.appendFile, hf, fail, Res.withPath]

theorem mem_append_dir (bs : Bytes) (hd : IsDir m p) :
    Mem.pAppend m p bs = (.err .other (some p), m) := by
  obtain ⟨e, he, ht⟩ := hd
  simp [Mem.pAppend, Mem.appendFile, he, ht, fail, Res.withPath]

theorem mem_append_file (bs : Bytes) (e : Entry) (he : m.find? p = some e) (ht : e.ftype = .file) :
    Mem.pAppend m p bs =
      (.ok (), m.insert p { ftype := .file, content := e.content ++ bs, created := e.created,
                            modified := .now, accessed := e.accessed }) := by
  have hcw : cursorWrite e.content e.content.length bs = e.content ++ bs := by
    unfold cursorWrite padTo; simp
  simp [Mem.pAppend, Mem.appendFile, memPublish, he, ht, hcw]

theorem mem_createDir_noparent (h : ¬ IsDir m (parentInternal p)) :
    Mem.pCreateDir m p = (.err .other (some p), m) := by
  unfold Mem.pCreateDir
  simp [mem_parentOk_false m p h]

theorem mem_createDir_fresh (hs : '/' ∈ p) (hpar : IsDir m (parentInternal p)) (ha : Absent m p) :
    Mem.pCreateDir m p = (.ok (), m.insert p dirEntryNow) := by
  rw [Absent] at ha
  unfold Mem.pCreateDir Mem.createDir
  simp [(parentOk_iff m p).2 hpar, mem_ensureHasParent m p hs hpar, ha, Res.withPath]

theorem mem_createDir_file (hs : '/' ∈ p) (hpar : IsDir m (parentInternal p)) (hf : IsFile m p) :
    Mem.pCreateDir m p = (.err .fileExists (some p), m) := by
  obtain ⟨e, he, ht⟩ := hf
  unfold Mem.pCreateDir Mem.createDir
  simp [(parentOk_iff m p).2 hpar, mem_ensureHasParent m p hs hpar, he, ht, fail, Res.withPath]

theorem mem_createDir_dir (hs : '/' ∈ p) (hpar : IsDir m (parentInternal p)) (hd : IsDir m p) :
    Mem.pCreateDir m p = (.err .dirExists (some p), m) := by
  obtain ⟨e, he, ht⟩ := hd
  unfold Mem.pCreateDir Mem.createDir
  simp [(parentOk_iff m p).2 hpar, mem_ensureHasParent m p hs hpar, he, ht, fail, Res.withPath]

theorem mem_removeFile_absent (hf : Absent m p) :
    Mem.pRemoveFile m p = (.err .fileNotFound (some p), m) := by
  rw [Absent] at hf
  simp [Mem.pRemoveFile, Mem.removeFile, hf, fail, Res.withPath]

theorem mem_removeFile_dir (hd : IsDir m p) : Mem.pRemoveFile m p = (.err .other (some p), m) := by
  obtain ⟨e, he, ht⟩ := hd
  simp [Mem.pRemoveFile, Mem.removeFile, he, ht, fail, Res.withPath]

theorem mem_removeFile_file (hf : IsFile m p) : Mem.pRemoveFile m p = (.ok (), m.erase p) := by
  obtain ⟨e, he, ht⟩ := hf
  simp [Mem.pRemoveFile, Mem.removeFile, he, ht, Res.withPath]

end memEval

end Vfs.C01
