/-
  C01 (complete) — the operation contract of EVERY primitive, on the reference model `Phys.p*`
  and on the in-memory backend `Mem.p*`.

  Props/C01.lean states the full contract for `create_dir` and `remove_file`. This file adds, in
  the same style, `remove_dir`, the write session (`create_file` + `write_all` + drop),
  the append session, the four observers (`exists`, `metadata`, `read_dir`, `open_file`), the
  memory-side versions of all of them, and one summary theorem `primitive_contracts`:

      ok ↔ Pre m op        ok → Effect m op m'        ¬ok → m' = m

  with `Pre`/`Effect` given as definitions that can be read off directly, for both models.

  One clause of the prose contract is FALSE on the reference model (and on the code): opening a
  DIRECTORY through PhysicalFS succeeds (`File::open` on Linux), only the reads fail. The full
  statement is kept as `OpenFileSucceedsIffFile`, refuted on a concrete tree
  (`openFile_succeeds_iff_file_phys_false`), and the strongest true form — a handle that can be
  READ is served exactly for files — is `openFile_contract`. On the memory backend the full
  statement holds (`mem_openFile_contract`).
-/
import VfsModel.Props.C01
namespace Vfs.C01
open Vfs.C02

/-! ### vocabulary -/

/-- `p` is a file holding exactly `bs` -/
def HasFile (m : FMap) (p : Str) (bs : Bytes) : Prop :=
  ∃ e, m.find? p = some e ∧ e.ftype = .file ∧ e.content = bs

/-- every key other than `p` keeps its entry (timestamps included) -/
def Frame (m m' : FMap) (p : Str) : Prop := ∀ k, k ≠ p → m'.find? k = m.find? k

/-- canonical error class of a failed outcome (`ErrKind.cls`: `io` and `other` are both
"other failure") -/
def errClass {α} (r : Res α) : Option ErrClass := r.kind?.map ErrKind.cls

theorem HasFile.isFile {m : FMap} {p : Str} {bs : Bytes} (h : HasFile m p bs) : IsFile m p := by
  obtain ⟨e, h1, h2, _⟩ := h; exact ⟨e, h1, h2⟩

theorem isFile_hasFile {m : FMap} {p : Str} (h : IsFile m p) : ∃ bs, HasFile m p bs := by
  obtain ⟨e, h1, h2⟩ := h; exact ⟨e.content, e, h1, h2, rfl⟩

theorem not_isDir_of_isFile {m : FMap} {p : Str} (h : IsFile m p) : ¬ IsDir m p := by
  rintro ⟨e', h1', h2'⟩
  obtain ⟨e, h1, h2⟩ := h
  rw [h1] at h1'; injection h1' with h1'; subst h1'; rw [h2] at h2'; cases h2'

theorem not_isFile_of_absent {m : FMap} {p : Str} (h : Absent m p) : ¬ IsFile m p := by
  rintro ⟨e, h1, _⟩; rw [Absent] at h; rw [h] at h1; cases h1

theorem not_isDir_of_absent {m : FMap} {p : Str} (h : Absent m p) : ¬ IsDir m p := by
  rintro ⟨e, h1, _⟩; rw [Absent] at h; rw [h] at h1; cases h1

/-- present = a file or a directory -/
theorem present_cases (m : FMap) (p : Str) : Absent m p ∨ IsFile m p ∨ IsDir m p := by
  unfold Absent IsFile IsDir
  cases h : m.find? p with
  | none => exact Or.inl rfl
  | some e =>
    cases ht : e.ftype
    · exact Or.inr (Or.inl ⟨e, rfl, ht⟩)
    · exact Or.inr (Or.inr ⟨e, rfl, ht⟩)

/-- the listing of `p` is empty exactly when no key has `p` as its parent -/
theorem children_nil_iff (m : FMap) (p : Str) :
    m.keys.filterMap (childName p) = [] ↔ NoChildren m p := by
  constructor
  · intro h k e hk hs heq
    have : afterLast '/' k ∈ m.keys.filterMap (childName p) :=
      (mem_filterMap_childName m p _).2 ⟨k, e, hk, hs, heq, rfl⟩
    rw [h] at this; cases this
  · intro h
    apply List.eq_nil_iff_forall_not_mem.2
    intro n hn
    obtain ⟨k, e, hk, hs, heq, _⟩ := (mem_filterMap_childName m p n).1 hn
    exact h k e hk hs heq

/-- the listing of `p`: exactly the bare names `n` (no '/') for which `p/n` is present -/
theorem mem_children_iff (m : FMap) (p n : Str) :
    n ∈ m.keys.filterMap (childName p) ↔ '/' ∉ n ∧ ¬ Absent m (p ++ '/' :: n) := by
  rw [mem_filterMap_childName]
  constructor
  · rintro ⟨k, e, hk, hs, hpar, hn⟩
    have := (childName_iff p k n).2 ⟨hs, hpar, hn⟩
    obtain ⟨h1, h2⟩ := childName_some p k n this
    subst h1
    exact ⟨h2, by rw [Absent, hk]; simp⟩
  · rintro ⟨hn, hpres⟩
    rw [Absent] at hpres
    cases hk : m.find? (p ++ '/' :: n) with
    | none => exact absurd hk hpres
    | some e =>
      exact ⟨_, e, hk, by simp, parent_of_child p n hn, afterLast_append_delim '/' p n hn⟩

/-! ### path resolution of the host on a well-formed tree, for EVERY path string -/

theorem resolveParent_noslash (m : FMap) (p : Str) (h : '/' ∉ p) : Phys.resolveParent m p = .ok () := by
  rw [resolveParent_ok_iff]
  intro a ha
  obtain ⟨i, _, hc, _⟩ := (mem_ancestors p a).1 ha
  exact absurd (List.mem_of_getElem? hc) h

/-- below an existing directory the host's lookup is the plain map lookup -/
theorem phys_lookup_any {m : FMap} (hm : WF m) (p : Str) (hpar : IsDir m (parentInternal p)) :
    Phys.lookup m p = .ok (m.find? p) := by
  by_cases hs : '/' ∈ p
  · obtain ⟨pe, h1, h2⟩ := hpar
    exact hm.lookup_child p hs pe h1 h2
  · unfold Phys.lookup
    rw [resolveParent_noslash m p hs]

/-- the three answers of the host's lookup on a well-formed tree -/
theorem phys_lookup_cases {m : FMap} (hm : WF m) (p : Str) :
    (∃ e, m.find? p = some e ∧ Phys.lookup m p = .ok (some e)) ∨
    (m.find? p = none ∧ Phys.lookup m p = .ok none) ∨
    (m.find? p = none ∧ ¬ IsDir m (parentInternal p) ∧ ∃ k pth, Phys.lookup m p = .err k pth) := by
  rcases Option.eq_none_or_eq_some (m.find? p) with hf | ⟨e, hf⟩
  · rcases lookup_absent m p hf with ⟨k, pth, hl⟩ | hl
    · refine Or.inr (Or.inr ⟨hf, ?_, k, pth, hl⟩)
      intro hpar
      rw [phys_lookup_any hm p hpar] at hl
      cases hl
    · exact Or.inr (Or.inl ⟨hf, hl⟩)
  · exact Or.inl ⟨e, hf, hm.lookup_present p e hf⟩

/-! ### evaluation of the reference primitives, case by case -/

section physEval
variable {m : FMap} (hm : WF m) (p : Str)
include hm

theorem phys_removeDir_absent (hf : Absent m p) :
    (Phys.pRemoveDir m p).2 = m ∧ (Phys.pRemoveDir m p).1.isOk = false ∧
    (IsDir m (parentInternal p) → (Phys.pRemoveDir m p).1.kind? = some .fileNotFound) := by
  unfold Phys.pRemoveDir Phys.removeDir
  refine ⟨?_, ?_, ?_⟩
  · rcases lookup_absent m p hf with ⟨k, pth, hl⟩ | hl <;> simp [hl, fail]
  · rcases lookup_absent m p hf with ⟨k, pth, hl⟩ | hl <;> simp [hl, fail, Res.withPath, Res.isOk]
  · intro hpar
    rw [Absent] at hf
    simp [phys_lookup_any hm p hpar, hf, fail, Res.withPath, Res.kind?]

theorem phys_removeDir_file (hf : IsFile m p) : Phys.pRemoveDir m p = (.err .io (some p), m) := by
  obtain ⟨e, he, ht⟩ := hf
  unfold Phys.pRemoveDir Phys.removeDir
  simp [hm.lookup_present p e he, ht, fail, Res.withPath]

theorem phys_removeDir_nonempty (hd : IsDir m p) (hc : ¬ NoChildren m p) :
    Phys.pRemoveDir m p = (.err .io (some p), m) := by
  obtain ⟨e, he, ht⟩ := hd
  have hne : Phys.children m p ≠ [] := fun h => hc ((children_nil_iff m p).1 h)
  unfold Phys.pRemoveDir Phys.removeDir
  simp [hm.lookup_present p e he, ht, hne, fail, Res.withPath]

theorem phys_removeDir_empty (hd : IsDir m p) (hc : NoChildren m p) :
    Phys.pRemoveDir m p = (.ok (), m.erase p) := by
  obtain ⟨e, he, ht⟩ := hd
  have hnil : Phys.children m p = [] := (children_nil_iff m p).2 hc
  unfold Phys.pRemoveDir Phys.removeDir
  simp [hm.lookup_present p e he, ht, hnil, Res.withPath]

theorem phys_parentOk_any : Phys.parentOk m p = true ↔ IsDir m (parentInternal p) := by
  rw [parentOk_agree hm (CoreEq.refl m) p, parentOk_iff]

theorem phys_parentOk_false (h : ¬ IsDir m (parentInternal p)) : Phys.parentOk m p = false := by
  cases hpo : Phys.parentOk m p
  · rfl
  · exact absurd ((phys_parentOk_any hm p).1 hpo) h

omit hm in
/-- `write_all(bs)` at position 0 of a freshly created / truncated file -/
theorem writeAt0_fresh (e1 : Entry) (bs : Bytes) (hc : e1.content = []) (ht : e1.ftype = .file) :
    HasFile (Phys.writeAt0 (m.insert p e1) p bs) p bs ∧
    Frame m (Phys.writeAt0 (m.insert p e1) p bs) p := by
  have hfresh : cursorWrite [] 0 bs = bs := by unfold cursorWrite padTo; simp
  unfold Phys.writeAt0
  simp only [FMap.find?_insert_self]
  by_cases hbs : bs = []
  · subst hbs
    simp only [↓reduceIte]
    exact ⟨⟨e1, by simp, ht, hc⟩, fun k hk => FMap.find?_insert_ne m p k _ hk⟩
  · simp only [hbs, ↓reduceIte]
    refine ⟨⟨_, FMap.find?_insert_self _ _ _, ht, by simp [hc, hfresh]⟩, ?_⟩
    intro k hk
    rw [FMap.find?_insert_ne _ p k _ hk, FMap.find?_insert_ne m p k _ hk]

theorem phys_write_noparent (bs : Bytes) (h : ¬ IsDir m (parentInternal p)) :
    Phys.pWrite m p bs = (.err .other (some p), m) := by
  unfold Phys.pWrite
  simp [phys_parentOk_false hm p h]

theorem phys_write_dir (bs : Bytes) (hpar : IsDir m (parentInternal p)) (hd : IsDir m p) :
    Phys.pWrite m p bs = (.err .io (some p), m) := by
  obtain ⟨e, he, ht⟩ := hd
  unfold Phys.pWrite Phys.createFile
  simp [(phys_parentOk_any hm p).2 hpar, hm.lookup_present p e he, ht, fail, Res.withPath]

theorem phys_write_ok (bs : Bytes) (hpar : IsDir m (parentInternal p)) (h : Absent m p ∨ IsFile m p) :
    ∃ m', Phys.pWrite m p bs = (.ok (), m') ∧ HasFile m' p bs ∧ Frame m m' p := by
  unfold Phys.pWrite Phys.createFile
  simp only [(phys_parentOk_any hm p).2 hpar, ↓reduceIte, phys_lookup_any hm p hpar]
  rcases h with h | ⟨e, he, ht⟩
  · rw [Absent] at h
    simp only [h]
    exact ⟨_, rfl, writeAt0_fresh p fileEntryNow bs rfl rfl⟩
  · simp only [he, ht, show (FType.file = FType.dir) = False from by simp, ↓reduceIte]
    exact ⟨_, rfl, writeAt0_fresh p _ bs rfl rfl⟩

theorem phys_append_absent (bs : Bytes) (hf : Absent m p) :
    (Phys.pAppend m p bs).2 = m ∧ (Phys.pAppend m p bs).1.isOk = false ∧
    (IsDir m (parentInternal p) → (Phys.pAppend m p bs).1.kind? = some .fileNotFound) := by
  unfold Phys.pAppend Phys.appendFile
  refine ⟨?_, ?_, ?_⟩
  · rcases lookup_absent m p hf with ⟨k, pth, hl⟩ | hl <;> simp [hl, fail]
  · rcases lookup_absent m p hf with ⟨k, pth, hl⟩ | hl <;> simp [hl, fail, Res.withPath, Res.isOk]
  · intro hpar
    rw [Absent] at hf
    simp [phys_lookup_any hm p hpar, hf, fail, Res.withPath, Res.kind?]

theorem phys_append_dir (bs : Bytes) (hd : IsDir m p) :
    Phys.pAppend m p bs = (.err .io (some p), m) := by
  obtain ⟨e, he, ht⟩ := hd
  unfold Phys.pAppend Phys.appendFile
  simp [hm.lookup_present p e he, ht, fail, Res.withPath]

theorem phys_append_file (bs : Bytes) (e : Entry) (he : m.find? p = some e) (ht : e.ftype = .file) :
    Phys.pAppend m p bs =
      (.ok (), m.insert p { e with content := e.content ++ bs, modified := .now }) := by
  unfold Phys.pAppend Phys.appendFile Phys.appendAt
  simp [hm.lookup_present p e he, ht, he]

end physEval

/-! ### the reference contracts of the remaining mutators

The reference statements hold for EVERY path string `p` of a well-formed tree (on the reference
model a key without '/' simply resolves against the root); the memory versions below need
`Abs p`, which is what the `VfsPath` layer produces. -/

section spec
variable {m : FMap} (hm : WF m) (p : Str)
include hm

/-- after a change that leaves every other key alone, the host still resolves `p` -/
theorem phys_lookup_after {m' : FMap} (hpar : IsDir m (parentInternal p)) (hfr : Frame m m' p) :
    Phys.lookup m' p = .ok (m'.find? p) := by
  have h0 : Phys.resolveParent m p = .ok () := by
    by_cases hs : '/' ∈ p
    · obtain ⟨pe, h1, h2⟩ := hpar
      exact hm.resolve_child p hs pe h1 h2
    · exact resolveParent_noslash m p hs
  have h1 : Phys.resolveParent m' p = .ok () := by
    rw [resolveParent_ok_iff] at h0 ⊢
    intro a ha
    obtain ⟨e, he, hd⟩ := h0 a ha
    refine ⟨e, ?_, hd⟩
    have hne : a ≠ p := by
      obtain ⟨i, hi, _, rfl⟩ := (mem_ancestors p a).1 ha
      intro heq
      have := congrArg List.length heq
      simp at this; omega
    rw [hfr a hne]; exact he
  unfold Phys.lookup
  rw [h1]

omit hm in
theorem phys_metadata_hasFile {m' : FMap} {bs : Bytes} (hl : Phys.lookup m' p = .ok (m'.find? p))
    (hf : HasFile m' p bs) :
    ∃ md, Phys.metadata m' p = .ok md ∧ md.ftype = .file ∧ md.len = bs.length := by
  obtain ⟨e, he, ht, hc⟩ := hf
  unfold Phys.metadata
  rw [hl, he]
  exact ⟨_, rfl, by simp [Entry.meta, ht], by simp [ht, hc]⟩

/-- remove_dir succeeds exactly on an existing directory without children; then exactly `p`
disappears; a failed call changes nothing; a target missing from an existing directory is
not-found; a non-empty directory and a file are refused -/
theorem removeDir_contract :
    ((Phys.pRemoveDir m p).1.isOk = true ↔ IsDir m p ∧ NoChildren m p) ∧
    ((Phys.pRemoveDir m p).1.isOk = true →
        Absent (Phys.pRemoveDir m p).2 p ∧ Frame m (Phys.pRemoveDir m p).2 p) ∧
    ((Phys.pRemoveDir m p).1.isOk = false → (Phys.pRemoveDir m p).2 = m) ∧
    (IsDir m (parentInternal p) → Absent m p → (Phys.pRemoveDir m p).1.kind? = some .fileNotFound) ∧
    (IsDir m p → ¬ NoChildren m p → errClass (Phys.pRemoveDir m p).1 = some .otherFailure) ∧
    (IsFile m p → errClass (Phys.pRemoveDir m p).1 = some .otherFailure) := by
  rcases present_cases m p with ha | hf | hd
  · obtain ⟨h1, h2, h3⟩ := phys_removeDir_absent hm p ha
    refine ⟨?_, ?_, fun _ => h1, fun hpar _ => h3 hpar, fun h => absurd h (not_isDir_of_absent ha),
      fun h => absurd h (not_isFile_of_absent ha)⟩
    · rw [h2]; simp [not_isDir_of_absent ha]
    · rw [h2]; simp
  · have hnd := not_isDir_of_isFile hf
    rw [phys_removeDir_file hm p hf]
    refine ⟨by simp [Res.isOk, hnd], by simp [Res.isOk], fun _ => rfl, ?_, fun h => absurd h hnd, fun _ => rfl⟩
    intro _ ha; exact absurd hf (not_isFile_of_absent ha)
  · have hna : ¬ Absent m p := fun ha => not_isDir_of_absent ha hd
    have hnf : ¬ IsFile m p := fun hf => not_isDir_of_isFile hf hd
    by_cases hc : NoChildren m p
    · rw [phys_removeDir_empty hm p hd hc]
      refine ⟨by simp [Res.isOk, hd, hc], ?_, by simp [Res.isOk], fun _ ha => absurd ha hna,
        fun _ h => absurd hc h, fun h => absurd h hnf⟩
      intro _
      exact ⟨by simp [Absent], fun k hk => FMap.find?_erase_ne m p k hk⟩
    · rw [phys_removeDir_nonempty hm p hd hc]
      exact ⟨by simp [Res.isOk, hc], by simp [Res.isOk], fun _ => rfl, fun _ ha => absurd ha hna,
        fun _ _ => rfl, fun h => absurd h hnf⟩

/-- one write session (`create_file`, `write_all(bs)`, drop) succeeds exactly when the parent
is an existing directory and the target is absent or a file; then `p` is a file holding exactly
`bs` (its metadata reports that length) and every other key keeps its entry; a failed session
changes nothing; a directory target and a missing / non-directory parent are refused -/
theorem write_contract (bs : Bytes) :
    ((Phys.pWrite m p bs).1.isOk = true ↔ IsDir m (parentInternal p) ∧ (Absent m p ∨ IsFile m p)) ∧
    ((Phys.pWrite m p bs).1.isOk = true →
        HasFile (Phys.pWrite m p bs).2 p bs ∧ Frame m (Phys.pWrite m p bs).2 p ∧
        ∃ md, Phys.metadata (Phys.pWrite m p bs).2 p = .ok md ∧ md.ftype = .file ∧ md.len = bs.length) ∧
    ((Phys.pWrite m p bs).1.isOk = false → (Phys.pWrite m p bs).2 = m) ∧
    (IsDir m (parentInternal p) → IsDir m p → errClass (Phys.pWrite m p bs).1 = some .otherFailure) ∧
    (¬ IsDir m (parentInternal p) → errClass (Phys.pWrite m p bs).1 = some .otherFailure) := by
  by_cases hpar : IsDir m (parentInternal p)
  · rcases present_cases m p with ha | hf | hd
    · obtain ⟨m', he, h1, h2⟩ := phys_write_ok hm p bs hpar (Or.inl ha)
      rw [he]
      refine ⟨by simp [Res.isOk, hpar, ha], fun _ => ⟨h1, h2, ?_⟩, by simp [Res.isOk],
        fun _ hd => absurd hd (not_isDir_of_absent ha), fun h => absurd hpar h⟩
      exact phys_metadata_hasFile p (phys_lookup_after hm p hpar h2) h1
    · obtain ⟨m', he, h1, h2⟩ := phys_write_ok hm p bs hpar (Or.inr hf)
      rw [he]
      refine ⟨by simp [Res.isOk, hpar, hf], fun _ => ⟨h1, h2, ?_⟩, by simp [Res.isOk],
        fun _ hd => absurd hd (not_isDir_of_isFile hf), fun h => absurd hpar h⟩
      exact phys_metadata_hasFile p (phys_lookup_after hm p hpar h2) h1
    · have hna : ¬ Absent m p := fun ha => not_isDir_of_absent ha hd
      have hnf : ¬ IsFile m p := fun hf => not_isDir_of_isFile hf hd
      rw [phys_write_dir hm p bs hpar hd]
      exact ⟨by simp [Res.isOk, hna, hnf], by simp [Res.isOk], fun _ => rfl, fun _ _ => rfl,
        fun h => absurd hpar h⟩
  · rw [phys_write_noparent hm p bs hpar]
    exact ⟨by simp [Res.isOk, hpar], by simp [Res.isOk], fun _ => rfl, fun h => absurd h hpar,
      fun _ => rfl⟩

/-- one append session (`append_file`, `write_all(bs)`, drop) succeeds exactly on an existing
file; then its content is the old content followed by `bs` and every other key keeps its entry;
a failed session changes nothing; a target missing from an existing directory is not-found; a
directory is refused -/
theorem append_contract (bs : Bytes) :
    ((Phys.pAppend m p bs).1.isOk = true ↔ IsFile m p) ∧
    ((Phys.pAppend m p bs).1.isOk = true →
        (∃ old, HasFile m p old ∧ HasFile (Phys.pAppend m p bs).2 p (old ++ bs)) ∧
        Frame m (Phys.pAppend m p bs).2 p) ∧
    ((Phys.pAppend m p bs).1.isOk = false → (Phys.pAppend m p bs).2 = m) ∧
    (IsDir m (parentInternal p) → Absent m p → (Phys.pAppend m p bs).1.kind? = some .fileNotFound) ∧
    (IsDir m p → errClass (Phys.pAppend m p bs).1 = some .otherFailure) := by
  rcases present_cases m p with ha | hf | hd
  · obtain ⟨h1, h2, h3⟩ := phys_append_absent hm p bs ha
    refine ⟨?_, ?_, fun _ => h1, fun hpar _ => h3 hpar, fun h => absurd h (not_isDir_of_absent ha)⟩
    · rw [h2]; simp [not_isFile_of_absent ha]
    · rw [h2]; simp
  · obtain ⟨e, he, ht⟩ := hf
    rw [phys_append_file hm p bs e he ht]
    refine ⟨by simp [Res.isOk]; exact ⟨e, he, ht⟩, ?_, by simp [Res.isOk], ?_, ?_⟩
    · intro _
      exact ⟨⟨e.content, ⟨e, he, ht, rfl⟩, ⟨_, FMap.find?_insert_self _ _ _, ht, rfl⟩⟩,
        fun k hk => FMap.find?_insert_ne m p k _ hk⟩
    · intro _ ha; rw [Absent, he] at ha; cases ha
    · intro hd; exact absurd hd (not_isDir_of_isFile ⟨e, he, ht⟩)
  · have hnf : ¬ IsFile m p := fun hf => not_isDir_of_isFile hf hd
    rw [phys_append_dir hm p bs hd]
    exact ⟨by simp [Res.isOk, hnf], by simp [Res.isOk], fun _ => rfl,
      fun _ ha => absurd hd (not_isDir_of_absent ha), fun _ => rfl⟩

end spec

/-! ### the observers on the reference model

`Phys.exists_`, `Phys.metadata`, `Phys.readDir`, `Phys.openFile` are pure functions of the map:
an observer of the reference model cannot change the tree. -/

section observers
variable {m : FMap} (hm : WF m) (p : Str)
include hm

/-- `exists` answers (it has no failure outcome: every host error reads as `false`), and the
answer is `true` exactly for present paths -/
theorem exists_contract :
    (Phys.exists_ m p = true ↔ ¬ Absent m p) ∧ (Phys.exists_ m p = false ↔ Absent m p) := by
  unfold Phys.exists_ Absent
  rcases phys_lookup_cases hm p with ⟨e, hf, hl⟩ | ⟨hf, hl⟩ | ⟨hf, _, k, pth, hl⟩ <;> simp [hl, hf]

/-- `metadata` succeeds exactly on present paths and reports the type, and for a file its
length; a target missing from an existing directory is not-found -/
theorem metadata_contract :
    ((Phys.metadata m p).isOk = true ↔ ¬ Absent m p) ∧
    (IsDir m p → ∃ md, Phys.metadata m p = .ok md ∧ md.ftype = .dir) ∧
    (∀ bs, HasFile m p bs → ∃ md, Phys.metadata m p = .ok md ∧ md.ftype = .file ∧ md.len = bs.length) ∧
    (IsDir m (parentInternal p) → Absent m p → (Phys.metadata m p).kind? = some .fileNotFound) := by
  unfold Phys.metadata
  rcases phys_lookup_cases hm p with ⟨e, hf, hl⟩ | ⟨hf, hl⟩ | ⟨hf, hnp, k, pth, hl⟩
  · rw [hl]
    refine ⟨by simp [Res.isOk, Absent, hf], ?_, ?_, ?_⟩
    · rintro ⟨e', he', ht'⟩
      rw [hf] at he'; injection he' with he'; subst he'
      exact ⟨_, rfl, by simp [Entry.meta, ht']⟩
    · rintro bs ⟨e', he', ht', hc'⟩
      rw [hf] at he'; injection he' with he'; subst he'
      exact ⟨_, rfl, by simp [Entry.meta, ht'], by simp [ht', hc']⟩
    · intro _ ha; rw [Absent, hf] at ha; cases ha
  · rw [hl]
    refine ⟨by simp [fail, Res.isOk, Absent, hf], fun h => absurd h (not_isDir_of_absent hf), ?_, ?_⟩
    · intro bs h; exact absurd h.isFile (not_isFile_of_absent hf)
    · intro _ _; simp [fail, Res.kind?]
  · rw [hl]
    refine ⟨by simp [Res.isOk, Absent, hf], fun h => absurd h (not_isDir_of_absent hf), ?_, ?_⟩
    · intro bs h; exact absurd h.isFile (not_isFile_of_absent hf)
    · intro h; exact absurd h hnp

/-- `read_dir` succeeds exactly on directories and lists exactly the bare names of the present
children — each once (on a map without duplicate keys, which is what every operation produces);
a target missing from an existing directory is not-found; a file is refused -/
theorem readDir_contract :
    ((Phys.readDir m p).isOk = true ↔ IsDir m p) ∧
    (∀ l, Phys.readDir m p = .ok l →
        (∀ n, n ∈ l ↔ '/' ∉ n ∧ ¬ Absent m (p ++ '/' :: n)) ∧ (FMap.NodupKeys m → l.Nodup)) ∧
    (IsDir m (parentInternal p) → Absent m p → (Phys.readDir m p).kind? = some .fileNotFound) ∧
    (IsFile m p → errClass (Phys.readDir m p) = some .otherFailure) := by
  unfold Phys.readDir
  rcases phys_lookup_cases hm p with ⟨e, hf, hl⟩ | ⟨hf, hl⟩ | ⟨hf, hnp, k, pth, hl⟩
  · rw [hl]
    have hna : ¬ Absent m p := by rw [Absent, hf]; simp
    cases ht : e.ftype
    · have hfile : IsFile m p := ⟨e, hf, ht⟩
      simp only [ht, ↓reduceIte]
      refine ⟨by simp [fail, Res.isOk, not_isDir_of_isFile hfile], ?_, fun _ ha => absurd ha hna, fun _ => rfl⟩
      intro l h; simp [fail] at h
    · have hdir : IsDir m p := ⟨e, hf, ht⟩
      simp only [ht, show (FType.dir = FType.file) = False from by simp, ↓reduceIte]
      refine ⟨by simp [Res.isOk, hdir], ?_, fun _ ha => absurd ha hna,
        fun h => absurd hdir (not_isDir_of_isFile h)⟩
      intro l h
      injection h with h
      subst h
      exact ⟨fun n => mem_children_iff m p n, fun hk => filterMap_childName_nodup m p hk⟩
  · rw [hl]
    refine ⟨by simp [fail, Res.isOk, not_isDir_of_absent hf], ?_, ?_, fun h => absurd h (not_isFile_of_absent hf)⟩
    · intro l h; simp [fail] at h
    · intro _ _; simp [fail, Res.kind?]
  · rw [hl]
    refine ⟨by simp [Res.isOk, not_isDir_of_absent hf], ?_, fun h => absurd h hnp,
      fun h => absurd h (not_isFile_of_absent hf)⟩
    intro l h; cases h

/-- `open_file`: a handle that can be READ is served exactly for files, and it serves exactly
the file's bytes; a target missing from an existing directory is not-found. On a DIRECTORY the
host's `open` succeeds and every read through the handle fails (`File::open` on Linux) — see
`openFile_succeeds_iff_file_phys_false` -/
theorem openFile_contract :
    ((∃ r, Phys.openFile m p = .ok r ∧ r.bad = false) ↔ IsFile m p) ∧
    (∀ bs, HasFile m p bs →
        Phys.openFile m p = .ok { content := bs, pos := 0 } ∧
        (RHandle.readToEnd { content := bs, pos := 0 }).1 = .ok bs) ∧
    (IsDir m (parentInternal p) → Absent m p → (Phys.openFile m p).kind? = some .fileNotFound) ∧
    (IsDir m p → ∃ r, Phys.openFile m p = .ok r ∧ r.bad = true ∧
        r.readToEnd.1 = fail .io ∧ ∀ n, (r.read n).1 = fail .io) := by
  unfold Phys.openFile
  rcases phys_lookup_cases hm p with ⟨e, hf, hl⟩ | ⟨hf, hl⟩ | ⟨hf, hnp, k, pth, hl⟩
  · rw [hl]
    have hna : ¬ Absent m p := by rw [Absent, hf]; simp
    cases ht : e.ftype
    · have hfile : IsFile m p := ⟨e, hf, ht⟩
      simp only [ht, show (FType.file = FType.dir) = False from by simp, ↓reduceIte]
      refine ⟨by simp [hfile], ?_, fun _ ha => absurd ha hna, fun h => absurd h (not_isDir_of_isFile hfile)⟩
      rintro bs ⟨e', he', _, hc'⟩
      rw [hf] at he'; injection he' with he'; subst he'
      exact ⟨by rw [hc'], by simp [RHandle.readToEnd]⟩
    · have hdir : IsDir m p := ⟨e, hf, ht⟩
      have hnf : ¬ IsFile m p := fun h => not_isDir_of_isFile h hdir
      simp only [ht, ↓reduceIte]
      refine ⟨by simp [hnf], fun bs h => absurd h.isFile hnf, fun _ ha => absurd ha hna, ?_⟩
      intro _
      exact ⟨_, rfl, rfl, by simp [RHandle.readToEnd], fun n => by simp [RHandle.read]⟩
  · rw [hl]
    have hnf := not_isFile_of_absent hf
    refine ⟨by simp [fail, hnf], fun bs h => absurd h.isFile hnf, ?_, fun h => absurd h (not_isDir_of_absent hf)⟩
    intro _ _; simp [fail, Res.kind?]
  · rw [hl]
    have hnf := not_isFile_of_absent hf
    exact ⟨by simp [hnf], fun bs h => absurd h.isFile hnf, fun h => absurd h hnp,
      fun h => absurd h (not_isDir_of_absent hf)⟩

end observers

/-! ### the in-memory backend: evaluation case by case

MemoryFS never resolves ancestors: its primitives are plain map lookups, so these statements
need no well-formedness; `create_dir` / `create_file` only need a '/' in the path
(`ensure_has_parent`), which `Abs p` provides. -/

section memEval
variable (m : FMap) (p : Str)

theorem mem_parentOk_false (h : ¬ IsDir m (parentInternal p)) : Mem.parentOk m p = false := by
  cases hpo : Mem.parentOk m p
  · rfl
  · exact absurd ((parentOk_iff m p).1 hpo) h

theorem mem_ensureHasParent (hs : '/' ∈ p) (hpar : IsDir m (parentInternal p)) :
    Mem.ensureHasParent m p = .ok () := by
  obtain ⟨pe, h1, h2⟩ := hpar
  unfold Mem.ensureHasParent
  simp [hs, h1, h2]

theorem mem_removeDir_absent (hf : Absent m p) :
    Mem.pRemoveDir m p = (.err .fileNotFound (some p), m) := by
  rw [Absent] at hf
  simp [Mem.pRemoveDir, Mem.removeDir, Mem.readDir, hf, fail, Res.withPath]

theorem mem_removeDir_file (hf : IsFile m p) : Mem.pRemoveDir m p = (.err .other (some p), m) := by
  obtain ⟨e, he, ht⟩ := hf
  simp [Mem.pRemoveDir, Mem.removeDir, Mem.readDir, he, ht, fail, Res.withPath]

theorem mem_removeDir_nonempty (hd : IsDir m p) (hc : ¬ NoChildren m p) :
    Mem.pRemoveDir m p = (.err .other (some p), m) := by
  obtain ⟨e, he, ht⟩ := hd
  have hne : m.keys.filterMap (childName p) ≠ [] := fun h => hc ((children_nil_iff m p).1 h)
  simp [Mem.pRemoveDir, Mem.removeDir, Mem.readDir, he, ht, hne, fail, Res.withPath]

theorem mem_removeDir_empty (hd : IsDir m p) (hc : NoChildren m p) :
    Mem.pRemoveDir m p = (.ok (), m.erase p) := by
  obtain ⟨e, he, ht⟩ := hd
  have hnil : m.keys.filterMap (childName p) = [] := (children_nil_iff m p).2 hc
  simp [Mem.pRemoveDir, Mem.removeDir, Mem.readDir, he, ht, hnil, FMap.contains, Res.withPath]

theorem mem_write_noparent (bs : Bytes) (h : ¬ IsDir m (parentInternal p)) :
    Mem.pWrite m p bs = (.err .other (some p), m) := by
  unfold Mem.pWrite
  simp [mem_parentOk_false m p h]

theorem mem_write_dir (bs : Bytes) (hs : '/' ∈ p) (hpar : IsDir m (parentInternal p)) (hd : IsDir m p) :
    Mem.pWrite m p bs = (.err .other (some p), m) := by
  obtain ⟨e, he, ht⟩ := hd
  unfold Mem.pWrite Mem.createFile
  simp [(parentOk_iff m p).2 hpar, mem_ensureHasParent m p hs hpar, he, ht, fail, Res.withPath]

theorem mem_write_ok (bs : Bytes) (hs : '/' ∈ p) (hpar : IsDir m (parentInternal p))
    (h : Absent m p ∨ IsFile m p) :
    ∃ m', Mem.pWrite m p bs = (.ok (), m') ∧ HasFile m' p bs ∧ Frame m m' p := by
  have hfresh : cursorWrite [] 0 bs = bs := by unfold cursorWrite padTo; simp
  have hcf : Mem.createFile m p = (.ok (), m.insert p fileEntryNow) := by
    unfold Mem.createFile
    rw [mem_ensureHasParent m p hs hpar]
    rcases h with h | ⟨e, he, ht⟩
    · rw [Absent] at h; simp [h]
    · simp [he, ht]
  unfold Mem.pWrite
  simp only [(parentOk_iff m p).2 hpar, ↓reduceIte, hcf]
  refine ⟨_, rfl, ?_, ?_⟩
  · unfold memPublish
    simp only [FMap.find?_insert_self, show fileEntryNow.ftype = FType.file from rfl, ↓reduceIte]
    exact ⟨_, FMap.find?_insert_self _ _ _, rfl, hfresh⟩
  · intro k hk
    unfold memPublish
    simp only [FMap.find?_insert_self, show fileEntryNow.ftype = FType.file from rfl, ↓reduceIte]
    rw [FMap.find?_insert_ne _ p k _ hk, FMap.find?_insert_ne m p k _ hk]

theorem mem_append_absent (bs : Bytes) (hf : Absent m p) :
    Mem.pAppend m p bs = (.err .fileNotFound (some p), m) := by
  rw [Absent] at hf
  simp [Mem.pAppend, Mem.appendFile, hf, fail, Res.withPath]

theorem mem_append_dir (bs : Bytes) (hd : IsDir m p) :
    Mem.pAppend m p bs = (.err .other (some p), m) := by
  obtain ⟨e, he, ht⟩ := hd
  simp [Mem.pAppend, Mem.appendFile, he, ht, fail, Res.withPath]

theorem mem_append_file (bs : Bytes) (e : Entry) (he : m.find? p = some e) (ht : e.ftype = .file) :
    Mem.pAppend m p bs =
      (.ok (), m.insert p { ftype := .file, content := e.content ++ bs, created := e.created,
                            modified := .now, accessed := e.accessed }) := by
  have hcw : cursorWrite e.content e.content.length bs = e.content ++ bs := by
    unfold cursorWrite padTo; simp
  simp [Mem.pAppend, Mem.appendFile, memPublish, he, ht, hcw]

theorem mem_createDir_noparent (h : ¬ IsDir m (parentInternal p)) :
    Mem.pCreateDir m p = (.err .other (some p), m) := by
  unfold Mem.pCreateDir
  simp [mem_parentOk_false m p h]

theorem mem_createDir_fresh (hs : '/' ∈ p) (hpar : IsDir m (parentInternal p)) (ha : Absent m p) :
    Mem.pCreateDir m p = (.ok (), m.insert p dirEntryNow) := by
  rw [Absent] at ha
  unfold Mem.pCreateDir Mem.createDir
  simp [(parentOk_iff m p).2 hpar, mem_ensureHasParent m p hs hpar, ha, Res.withPath]

theorem mem_createDir_file (hs : '/' ∈ p) (hpar : IsDir m (parentInternal p)) (hf : IsFile m p) :
    Mem.pCreateDir m p = (.err .fileExists (some p), m) := by
  obtain ⟨e, he, ht⟩ := hf
  unfold Mem.pCreateDir Mem.createDir
  simp [(parentOk_iff m p).2 hpar, mem_ensureHasParent m p hs hpar, he, ht, fail, Res.withPath]

theorem mem_createDir_dir (hs : '/' ∈ p) (hpar : IsDir m (parentInternal p)) (hd : IsDir m p) :
    Mem.pCreateDir m p = (.err .dirExists (some p), m) := by
  obtain ⟨e, he, ht⟩ := hd
  unfold Mem.pCreateDir Mem.createDir
  simp [(parentOk_iff m p).2 hpar, mem_ensureHasParent m p hs hpar, he, ht, fail, Res.withPath]

theorem mem_removeFile_absent (hf : Absent m p) :
    Mem.pRemoveFile m p = (.err .fileNotFound (some p), m) := by
  rw [Absent] at hf
  simp [Mem.pRemoveFile, Mem.removeFile, hf, fail, Res.withPath]

theorem mem_removeFile_dir (hd : IsDir m p) : Mem.pRemoveFile m p = (.err .other (some p), m) := by
  obtain ⟨e, he, ht⟩ := hd
  simp [Mem.pRemoveFile, Mem.removeFile, he, ht, fail, Res.withPath]

theorem mem_removeFile_file (hf : IsFile m p) : Mem.pRemoveFile m p = (.ok (), m.erase p) := by
  obtain ⟨e, he, ht⟩ := hf
  simp [Mem.pRemoveFile, Mem.removeFile, he, ht, Res.withPath]

end memEval

/-! ### the same contracts for the in-memory backend -/

section mem
variable (m : FMap) (p : Str)

/-- remove_dir on MemoryFS: the contract of `removeDir_contract`; a missing target is not-found
whatever its parent is -/
theorem mem_removeDir_contract :
    ((Mem.pRemoveDir m p).1.isOk = true ↔ IsDir m p ∧ NoChildren m p) ∧
    ((Mem.pRemoveDir m p).1.isOk = true →
        Absent (Mem.pRemoveDir m p).2 p ∧ Frame m (Mem.pRemoveDir m p).2 p) ∧
    ((Mem.pRemoveDir m p).1.isOk = false → (Mem.pRemoveDir m p).2 = m) ∧
    (Absent m p → (Mem.pRemoveDir m p).1.kind? = some .fileNotFound) ∧
    (IsDir m p → ¬ NoChildren m p → errClass (Mem.pRemoveDir m p).1 = some .otherFailure) ∧
    (IsFile m p → errClass (Mem.pRemoveDir m p).1 = some .otherFailure) := by
  rcases present_cases m p with ha | hf | hd
  · rw [mem_removeDir_absent m p ha]
    exact ⟨by simp [Res.isOk, not_isDir_of_absent ha], by simp [Res.isOk], fun _ => rfl, fun _ => rfl,
      fun h => absurd h (not_isDir_of_absent ha), fun h => absurd h (not_isFile_of_absent ha)⟩
  · have hnd := not_isDir_of_isFile hf
    rw [mem_removeDir_file m p hf]
    exact ⟨by simp [Res.isOk, hnd], by simp [Res.isOk], fun _ => rfl,
      fun ha => absurd hf (not_isFile_of_absent ha), fun h => absurd h hnd, fun _ => rfl⟩
  · have hna : ¬ Absent m p := fun ha => not_isDir_of_absent ha hd
    have hnf : ¬ IsFile m p := fun hf => not_isDir_of_isFile hf hd
    by_cases hc : NoChildren m p
    · rw [mem_removeDir_empty m p hd hc]
      refine ⟨by simp [Res.isOk, hd, hc], ?_, by simp [Res.isOk], fun ha => absurd ha hna,
        fun _ h => absurd hc h, fun h => absurd h hnf⟩
      intro _
      exact ⟨by simp [Absent], fun k hk => FMap.find?_erase_ne m p k hk⟩
    · rw [mem_removeDir_nonempty m p hd hc]
      exact ⟨by simp [Res.isOk, hc], by simp [Res.isOk], fun _ => rfl, fun ha => absurd ha hna,
        fun _ _ => rfl, fun h => absurd h hnf⟩

theorem mem_removeDir_ok_iff : (Mem.pRemoveDir m p).1.isOk = true ↔ IsDir m p ∧ NoChildren m p :=
  (mem_removeDir_contract m p).1

theorem mem_removeDir_effect (h : (Mem.pRemoveDir m p).1.isOk = true) :
    Absent (Mem.pRemoveDir m p).2 p ∧ Frame m (Mem.pRemoveDir m p).2 p :=
  (mem_removeDir_contract m p).2.1 h

theorem mem_removeDir_unchanged_on_failure (h : (Mem.pRemoveDir m p).1.isOk = false) :
    (Mem.pRemoveDir m p).2 = m :=
  (mem_removeDir_contract m p).2.2.1 h

/-- the write session on MemoryFS: the contract of `write_contract` -/
theorem mem_write_contract (hp : Abs p) (bs : Bytes) :
    ((Mem.pWrite m p bs).1.isOk = true ↔ IsDir m (parentInternal p) ∧ (Absent m p ∨ IsFile m p)) ∧
    ((Mem.pWrite m p bs).1.isOk = true →
        HasFile (Mem.pWrite m p bs).2 p bs ∧ Frame m (Mem.pWrite m p bs).2 p ∧
        ∃ md, Mem.metadata (Mem.pWrite m p bs).2 p = .ok md ∧ md.ftype = .file ∧ md.len = bs.length) ∧
    ((Mem.pWrite m p bs).1.isOk = false → (Mem.pWrite m p bs).2 = m) ∧
    (IsDir m (parentInternal p) → IsDir m p → errClass (Mem.pWrite m p bs).1 = some .otherFailure) ∧
    (¬ IsDir m (parentInternal p) → errClass (Mem.pWrite m p bs).1 = some .otherFailure) := by
  have hs := hp.slash
  have hmeta : ∀ m', HasFile m' p bs →
      ∃ md, Mem.metadata m' p = .ok md ∧ md.ftype = .file ∧ md.len = bs.length := by
    rintro m' ⟨e, he, ht, hc⟩
    refine ⟨e.meta, by simp [Mem.metadata, he], by simp [Entry.meta, ht], by simp [Entry.meta, hc]⟩
  by_cases hpar : IsDir m (parentInternal p)
  · rcases present_cases m p with ha | hf | hd
    · obtain ⟨m', he, h1, h2⟩ := mem_write_ok m p bs hs hpar (Or.inl ha)
      rw [he]
      exact ⟨by simp [Res.isOk, hpar, ha], fun _ => ⟨h1, h2, hmeta _ h1⟩, by simp [Res.isOk],
        fun _ hd => absurd hd (not_isDir_of_absent ha), fun h => absurd hpar h⟩
    · obtain ⟨m', he, h1, h2⟩ := mem_write_ok m p bs hs hpar (Or.inr hf)
      rw [he]
      exact ⟨by simp [Res.isOk, hpar, hf], fun _ => ⟨h1, h2, hmeta _ h1⟩, by simp [Res.isOk],
        fun _ hd => absurd hd (not_isDir_of_isFile hf), fun h => absurd hpar h⟩
    · have hna : ¬ Absent m p := fun ha => not_isDir_of_absent ha hd
      have hnf : ¬ IsFile m p := fun hf => not_isDir_of_isFile hf hd
      rw [mem_write_dir m p bs hs hpar hd]
      exact ⟨by simp [Res.isOk, hna, hnf], by simp [Res.isOk], fun _ => rfl, fun _ _ => rfl,
        fun h => absurd hpar h⟩
  · rw [mem_write_noparent m p bs hpar]
    exact ⟨by simp [Res.isOk, hpar], by simp [Res.isOk], fun _ => rfl, fun h => absurd h hpar,
      fun _ => rfl⟩

theorem mem_write_ok_iff (hp : Abs p) (bs : Bytes) :
    (Mem.pWrite m p bs).1.isOk = true ↔ IsDir m (parentInternal p) ∧ (Absent m p ∨ IsFile m p) :=
  (mem_write_contract m p hp bs).1

theorem mem_write_effect (hp : Abs p) (bs : Bytes) (h : (Mem.pWrite m p bs).1.isOk = true) :
    HasFile (Mem.pWrite m p bs).2 p bs ∧ Frame m (Mem.pWrite m p bs).2 p :=
  ⟨((mem_write_contract m p hp bs).2.1 h).1, ((mem_write_contract m p hp bs).2.1 h).2.1⟩

theorem mem_write_unchanged_on_failure (hp : Abs p) (bs : Bytes)
    (h : (Mem.pWrite m p bs).1.isOk = false) : (Mem.pWrite m p bs).2 = m :=
  (mem_write_contract m p hp bs).2.2.1 h

/-- the append session on MemoryFS: the contract of `append_contract`; a missing target is
not-found whatever its parent is -/
theorem mem_append_contract (bs : Bytes) :
    ((Mem.pAppend m p bs).1.isOk = true ↔ IsFile m p) ∧
    ((Mem.pAppend m p bs).1.isOk = true →
        (∃ old, HasFile m p old ∧ HasFile (Mem.pAppend m p bs).2 p (old ++ bs)) ∧
        Frame m (Mem.pAppend m p bs).2 p) ∧
    ((Mem.pAppend m p bs).1.isOk = false → (Mem.pAppend m p bs).2 = m) ∧
    (Absent m p → (Mem.pAppend m p bs).1.kind? = some .fileNotFound) ∧
    (IsDir m p → errClass (Mem.pAppend m p bs).1 = some .otherFailure) := by
  rcases present_cases m p with ha | hf | hd
  · rw [mem_append_absent m p bs ha]
    exact ⟨by simp [Res.isOk, not_isFile_of_absent ha], by simp [Res.isOk], fun _ => rfl, fun _ => rfl,
      fun h => absurd h (not_isDir_of_absent ha)⟩
  · obtain ⟨e, he, ht⟩ := hf
    rw [mem_append_file m p bs e he ht]
    refine ⟨by simp [Res.isOk]; exact ⟨e, he, ht⟩, ?_, by simp [Res.isOk], ?_, ?_⟩
    · intro _
      exact ⟨⟨e.content, ⟨e, he, ht, rfl⟩, ⟨_, FMap.find?_insert_self _ _ _, rfl, rfl⟩⟩,
        fun k hk => FMap.find?_insert_ne m p k _ hk⟩
    · intro ha; rw [Absent, he] at ha; cases ha
    · intro hd; exact absurd hd (not_isDir_of_isFile ⟨e, he, ht⟩)
  · have hnf : ¬ IsFile m p := fun hf => not_isDir_of_isFile hf hd
    rw [mem_append_dir m p bs hd]
    exact ⟨by simp [Res.isOk, hnf], by simp [Res.isOk], fun _ => rfl,
      fun ha => absurd hd (not_isDir_of_absent ha), fun _ => rfl⟩

theorem mem_append_ok_iff (bs : Bytes) : (Mem.pAppend m p bs).1.isOk = true ↔ IsFile m p :=
  (mem_append_contract m p bs).1

theorem mem_append_effect (bs : Bytes) (h : (Mem.pAppend m p bs).1.isOk = true) :
    (∃ old, HasFile m p old ∧ HasFile (Mem.pAppend m p bs).2 p (old ++ bs)) ∧
    Frame m (Mem.pAppend m p bs).2 p :=
  (mem_append_contract m p bs).2.1 h

theorem mem_append_unchanged_on_failure (bs : Bytes) (h : (Mem.pAppend m p bs).1.isOk = false) :
    (Mem.pAppend m p bs).2 = m :=
  (mem_append_contract m p bs).2.2.1 h

/-- create_dir on MemoryFS: the contract of `createDir_contract`, proved directly -/
theorem mem_createDir_contract (hp : Abs p) :
    ((Mem.pCreateDir m p).1.isOk = true ↔ IsDir m (parentInternal p) ∧ Absent m p) ∧
    ((Mem.pCreateDir m p).1.isOk = true →
        IsDir (Mem.pCreateDir m p).2 p ∧ Frame m (Mem.pCreateDir m p).2 p) ∧
    ((Mem.pCreateDir m p).1.isOk = false → (Mem.pCreateDir m p).2 = m) ∧
    (IsDir m (parentInternal p) → IsFile m p → (Mem.pCreateDir m p).1.kind? = some .fileExists) ∧
    (IsDir m (parentInternal p) → IsDir m p → (Mem.pCreateDir m p).1.kind? = some .dirExists) := by
  have hs := hp.slash
  by_cases hpar : IsDir m (parentInternal p)
  · rcases present_cases m p with ha | hf | hd
    · rw [mem_createDir_fresh m p hs hpar ha]
      refine ⟨by simp [Res.isOk, hpar, ha], ?_, by simp [Res.isOk],
        fun _ h => absurd h (not_isFile_of_absent ha), fun _ h => absurd h (not_isDir_of_absent ha)⟩
      intro _
      exact ⟨⟨dirEntryNow, by simp, rfl⟩, fun k hk => FMap.find?_insert_ne m p k _ hk⟩
    · have hna : ¬ Absent m p := fun ha => not_isFile_of_absent ha hf
      rw [mem_createDir_file m p hs hpar hf]
      exact ⟨by simp [Res.isOk, hna], by simp [Res.isOk], fun _ => rfl, fun _ _ => rfl,
        fun _ h => absurd h (not_isDir_of_isFile hf)⟩
    · have hna : ¬ Absent m p := fun ha => not_isDir_of_absent ha hd
      rw [mem_createDir_dir m p hs hpar hd]
      exact ⟨by simp [Res.isOk, hna], by simp [Res.isOk], fun _ => rfl,
        fun _ h => absurd hd (not_isDir_of_isFile h), fun _ _ => rfl⟩
  · rw [mem_createDir_noparent m p hpar]
    exact ⟨by simp [Res.isOk, hpar], by simp [Res.isOk], fun _ => rfl, fun h => absurd h hpar,
      fun h => absurd h hpar⟩

theorem mem_createDir_effect (hp : Abs p) (h : (Mem.pCreateDir m p).1.isOk = true) :
    IsDir (Mem.pCreateDir m p).2 p ∧ Frame m (Mem.pCreateDir m p).2 p :=
  (mem_createDir_contract m p hp).2.1 h

theorem mem_createDir_unchanged_on_failure (hp : Abs p) (h : (Mem.pCreateDir m p).1.isOk = false) :
    (Mem.pCreateDir m p).2 = m :=
  (mem_createDir_contract m p hp).2.2.1 h

/-- remove_file on MemoryFS: the contract of `removeFile_contract`, proved directly -/
theorem mem_removeFile_contract :
    ((Mem.pRemoveFile m p).1.isOk = true ↔ IsFile m p) ∧
    ((Mem.pRemoveFile m p).1.isOk = true →
        Absent (Mem.pRemoveFile m p).2 p ∧ Frame m (Mem.pRemoveFile m p).2 p) ∧
    ((Mem.pRemoveFile m p).1.isOk = false → (Mem.pRemoveFile m p).2 = m) ∧
    (Absent m p → (Mem.pRemoveFile m p).1.kind? = some .fileNotFound) ∧
    (IsDir m p → errClass (Mem.pRemoveFile m p).1 = some .otherFailure) := by
  rcases present_cases m p with ha | hf | hd
  · rw [mem_removeFile_absent m p ha]
    exact ⟨by simp [Res.isOk, not_isFile_of_absent ha], by simp [Res.isOk], fun _ => rfl, fun _ => rfl,
      fun h => absurd h (not_isDir_of_absent ha)⟩
  · rw [mem_removeFile_file m p hf]
    refine ⟨by simp [Res.isOk, hf], ?_, by simp [Res.isOk], fun ha => absurd hf (not_isFile_of_absent ha),
      fun h => absurd h (not_isDir_of_isFile hf)⟩
    intro _
    exact ⟨by simp [Absent], fun k hk => FMap.find?_erase_ne m p k hk⟩
  · have hnf : ¬ IsFile m p := fun hf => not_isDir_of_isFile hf hd
    rw [mem_removeFile_dir m p hd]
    exact ⟨by simp [Res.isOk, hnf], by simp [Res.isOk], fun _ => rfl,
      fun ha => absurd hd (not_isDir_of_absent ha), fun _ => rfl⟩

theorem mem_removeFile_effect (h : (Mem.pRemoveFile m p).1.isOk = true) :
    Absent (Mem.pRemoveFile m p).2 p ∧ Frame m (Mem.pRemoveFile m p).2 p :=
  (mem_removeFile_contract m p).2.1 h

theorem mem_removeFile_unchanged_on_failure (h : (Mem.pRemoveFile m p).1.isOk = false) :
    (Mem.pRemoveFile m p).2 = m :=
  (mem_removeFile_contract m p).2.2.1 h

/-- a target that is missing is reported as not-found by every MemoryFS primitive that needs
its target (remove_file, remove_dir, append_file, metadata, read_dir, open_file) — and nothing
changes -/
theorem mem_missing_target_notFound (bs : Bytes) (ha : Absent m p) :
    (Mem.pRemoveFile m p).1.kind? = some .fileNotFound ∧
    (Mem.pRemoveDir m p).1.kind? = some .fileNotFound ∧
    (Mem.pAppend m p bs).1.kind? = some .fileNotFound ∧
    (Mem.metadata m p).kind? = some .fileNotFound ∧
    (Mem.readDir m p).kind? = some .fileNotFound ∧
    (Mem.openFile m p).1.kind? = some .fileNotFound ∧ (Mem.openFile m p).2 = m := by
  refine ⟨(mem_removeFile_contract m p).2.2.2.1 ha, (mem_removeDir_contract m p).2.2.2.1 ha,
    (mem_append_contract m p bs).2.2.2.1 ha, ?_, ?_, ?_, ?_⟩ <;>
  · rw [Absent] at ha
    simp [Mem.metadata, Mem.readDir, Mem.openFile, Mem.setAccessed, ha, fail, Res.kind?]

end mem

/-! ### the observers on the in-memory backend

`exists` (`contains_key`), `metadata` and `read_dir` take the read lock and return no new map:
they cannot change the tree. `open_file` takes the WRITE lock and stamps the access time of the
entry it finds BEFORE it checks the type (memory.rs `open_file`), so it changes the access time
of `p` — also when it then refuses a directory — and nothing else. -/

section memObservers
variable (m : FMap) (p : Str)

theorem mem_exists_contract :
    (m.contains p = true ↔ ¬ Absent m p) ∧ (m.contains p = false ↔ Absent m p) := by
  unfold FMap.contains Absent
  cases m.find? p <;> simp

theorem mem_metadata_contract :
    ((Mem.metadata m p).isOk = true ↔ ¬ Absent m p) ∧
    (IsDir m p → ∃ md, Mem.metadata m p = .ok md ∧ md.ftype = .dir) ∧
    (∀ bs, HasFile m p bs → ∃ md, Mem.metadata m p = .ok md ∧ md.ftype = .file ∧ md.len = bs.length) ∧
    (Absent m p → (Mem.metadata m p).kind? = some .fileNotFound) := by
  unfold Mem.metadata
  rcases Option.eq_none_or_eq_some (m.find? p) with hf | ⟨e, hf⟩
  · have ha : Absent m p := hf
    simp only [hf]
    exact ⟨by simp [fail, Res.isOk, ha], fun h => absurd h (not_isDir_of_absent ha),
      fun bs h => absurd h.isFile (not_isFile_of_absent ha), fun _ => rfl⟩
  · simp only [hf]
    refine ⟨by simp [Res.isOk, Absent, hf], ?_, ?_, ?_⟩
    · rintro ⟨e', he', ht'⟩
      rw [hf] at he'; injection he' with he'; subst he'
      exact ⟨e.meta, rfl, by simp [Entry.meta, ht']⟩
    · rintro bs ⟨e', he', ht', hc'⟩
      rw [hf] at he'; injection he' with he'; subst he'
      exact ⟨e.meta, rfl, by simp [Entry.meta, ht'], by simp [Entry.meta, hc']⟩
    · intro ha; rw [Absent, hf] at ha; cases ha

theorem mem_readDir_contract :
    ((Mem.readDir m p).isOk = true ↔ IsDir m p) ∧
    (∀ l, Mem.readDir m p = .ok l →
        (∀ n, n ∈ l ↔ '/' ∉ n ∧ ¬ Absent m (p ++ '/' :: n)) ∧ (FMap.NodupKeys m → l.Nodup)) ∧
    (Absent m p → (Mem.readDir m p).kind? = some .fileNotFound) ∧
    (IsFile m p → errClass (Mem.readDir m p) = some .otherFailure) := by
  unfold Mem.readDir
  rcases Option.eq_none_or_eq_some (m.find? p) with hf | ⟨e, hf⟩
  · have ha : Absent m p := hf
    simp only [hf]
    refine ⟨by simp [fail, Res.isOk, not_isDir_of_absent ha], ?_, fun _ => rfl,
      fun h => absurd h (not_isFile_of_absent ha)⟩
    intro l h; simp [fail] at h
  · have hna : ¬ Absent m p := by rw [Absent, hf]; simp
    simp only [hf]
    cases ht : e.ftype
    · have hfile : IsFile m p := ⟨e, hf, ht⟩
      simp only [↓reduceIte]
      refine ⟨by simp [fail, Res.isOk, not_isDir_of_isFile hfile], ?_, fun ha => absurd ha hna, fun _ => rfl⟩
      intro l h; simp [fail] at h
    · have hdir : IsDir m p := ⟨e, hf, ht⟩
      simp only [show (FType.dir = FType.file) = False from by simp, ↓reduceIte]
      refine ⟨by simp [Res.isOk, hdir], ?_, fun ha => absurd ha hna,
        fun h => absurd hdir (not_isDir_of_isFile h)⟩
      intro l h
      injection h with h
      subst h
      exact ⟨fun n => mem_children_iff m p n, fun hk => filterMap_childName_nodup m p hk⟩

/-- what `open_file` does to the map: the access time of `p` (if present) becomes "now" -/
theorem mem_openFile_snd :
    (Mem.openFile m p).2 =
      match m.find? p with
      | none => m
      | some e => m.insert p { e with accessed := .now } := by
  unfold Mem.openFile Mem.setAccessed
  cases hf : m.find? p with
  | none => rfl
  | some e =>
    simp only [FMap.find?_insert_self]
    split <;> rfl

theorem mem_openFile_map :
    Frame m (Mem.openFile m p).2 p ∧
    (∀ e, m.find? p = some e → (Mem.openFile m p).2.find? p = some { e with accessed := .now }) ∧
    CoreEq (Mem.openFile m p).2 m := by
  rw [mem_openFile_snd]
  cases hf : m.find? p with
  | none => exact ⟨fun k _ => rfl, (fun e he => by cases he), CoreEq.refl m⟩
  | some e =>
    refine ⟨fun k hk => FMap.find?_insert_ne m p k _ hk, ?_, ?_⟩
    · intro e' he'; injection he' with he'; subst he'; simp
    · intro k
      simp only [FMap.find?_insert]
      split
      · rename_i hk; subst hk; simp [hf, core]
      · rfl

/-- `open_file` on MemoryFS succeeds exactly on files and serves exactly the file's bytes; a
missing target is not-found and nothing changes; a directory is refused. The map changes only
in the access-time stamp of `p` (content and types are untouched: `CoreEq`) -/
theorem mem_openFile_contract :
    ((Mem.openFile m p).1.isOk = true ↔ IsFile m p) ∧
    (∀ bs, HasFile m p bs →
        (Mem.openFile m p).1 = .ok { content := bs, pos := 0 } ∧
        (RHandle.readToEnd { content := bs, pos := 0 }).1 = .ok bs) ∧
    (Absent m p → (Mem.openFile m p).1.kind? = some .fileNotFound ∧ (Mem.openFile m p).2 = m) ∧
    (IsDir m p → errClass (Mem.openFile m p).1 = some .otherFailure) ∧
    (Frame m (Mem.openFile m p).2 p ∧
      (∀ e, m.find? p = some e → (Mem.openFile m p).2.find? p = some { e with accessed := .now }) ∧
      CoreEq (Mem.openFile m p).2 m) := by
  refine ⟨?_, ?_, ?_, ?_, mem_openFile_map m p⟩
  · rcases present_cases m p with ha | ⟨e, he, ht⟩ | ⟨e, he, ht⟩
    · have hnf := not_isFile_of_absent ha
      rw [Absent] at ha
      simp [Mem.openFile, Mem.setAccessed, ha, fail, Res.isOk, hnf]
    · have hfile : IsFile m p := ⟨e, he, ht⟩
      simp [Mem.openFile, Mem.setAccessed, he, ht, Res.isOk, hfile]
    · have hnf : ¬ IsFile m p := fun h => not_isDir_of_isFile h ⟨e, he, ht⟩
      simp [Mem.openFile, Mem.setAccessed, he, ht, fail, Res.isOk, hnf]
  · rintro bs ⟨e, he, ht, hc⟩
    exact ⟨by simp [Mem.openFile, Mem.setAccessed, he, ht, hc], by simp [RHandle.readToEnd]⟩
  · intro ha
    rw [Absent] at ha
    simp [Mem.openFile, Mem.setAccessed, ha, fail, Res.kind?]
  · rintro ⟨e, he, ht⟩
    simp [Mem.openFile, Mem.setAccessed, he, ht, fail, errClass, Res.kind?, ErrKind.cls]

end memObservers

/-! ### the one clause that is false on the reference model -/

/-- the prose contract of `open_file`: "succeeds exactly on files" -/
def OpenFileSucceedsIffFile (openOk : FMap → Str → Bool) : Prop :=
  ∀ m p, WF m → Abs p → (openOk m p = true ↔ IsFile m p)

/-- it holds for MemoryFS -/
theorem mem_openFile_succeeds_iff_file :
    OpenFileSucceedsIffFile (fun m p => (Mem.openFile m p).1.isOk) :=
  fun m p _ _ => (mem_openFile_contract m p).1

/-- the tree "/" ∋ directory "/a" -/
def dirATree : FMap := [("/a".toList, dirEntryNow), ([], dirEntryNow)]

theorem dirATree_wf : WF dirATree := by
  refine ⟨⟨_, rfl, rfl⟩, ?_⟩
  intro k e hk hne
  simp only [dirATree, FMap.find?_cons] at hk
  split at hk
  · rename_i h; subst h
    exact ⟨by decide, dirEntryNow, by decide, rfl⟩
  · split at hk
    · rename_i h; exact absurd h.symm hne
    · cases hk

/-- it is FALSE for PhysicalFS (model and code: `File::open` opens a directory on Linux; only
the reads fail): `open_file` of the directory "/a" succeeds -/
theorem openFile_succeeds_iff_file_phys_false :
    ¬ OpenFileSucceedsIffFile (fun m p => (Phys.openFile m p).isOk) := by
  intro h
  have h1 := (h dirATree "/a".toList dirATree_wf rfl).1 (by decide)
  exact not_isDir_of_isFile h1 ⟨dirEntryNow, by decide, rfl⟩

/-! ### the contract of every primitive, read off two definitions -/

/-- the documented precondition of a primitive call -/
def Pre (m : FMap) : Mut → Prop
  | .createDir p  => IsDir m (parentInternal p) ∧ Absent m p
  | .write p _    => IsDir m (parentInternal p) ∧ (Absent m p ∨ IsFile m p)
  | .append p _   => IsFile m p
  | .removeFile p => IsFile m p
  | .removeDir p  => IsDir m p ∧ NoChildren m p

/-- what a successful call makes of the entry it names -/
def Named (m : FMap) (m' : FMap) : Mut → Prop
  | .createDir p  => IsDir m' p
  | .write p bs   => HasFile m' p bs
  | .append p bs  => ∃ old, HasFile m p old ∧ HasFile m' p (old ++ bs)
  | .removeFile p => Absent m' p
  | .removeDir p  => Absent m' p

/-- the effect of a successful call: the named entry changes as `Named` says and every other
key keeps its entry -/
def Effect (m : FMap) (op : Mut) (m' : FMap) : Prop := Named m m' op ∧ Frame m m' op.path

/-- the primitives that need an existing target (the others create it) -/
def needsTarget : Mut → Bool
  | .append _ _ | .removeFile _ | .removeDir _ => true
  | .createDir _ | .write _ _ => false

/-- the contract of one call of one backend (`step` = `stepPhys` or `stepMem`) -/
structure Contract (step : FMap → Mut → Res Unit × FMap) (m : FMap) (op : Mut) : Prop where
  /-- it succeeds exactly when the tree meets the precondition -/
  ok_iff : (step m op).1.isOk = true ↔ Pre m op
  /-- a successful call changes exactly the entry it names -/
  effect : (step m op).1.isOk = true → Effect m op (step m op).2
  /-- a failed call leaves the tree unchanged -/
  unchanged : (step m op).1.isOk = false → (step m op).2 = m
  /-- a target missing from an existing directory is reported as not-found -/
  missing : needsTarget op = true → IsDir m (parentInternal op.path) → Absent m op.path →
    (step m op).1.kind? = some .fileNotFound
  /-- create_dir on an occupied path reports the occupant -/
  occupied : ∀ q, op = .createDir q → IsDir m (parentInternal q) →
    (IsFile m q → (step m op).1.kind? = some .fileExists) ∧
    (IsDir m q → (step m op).1.kind? = some .dirExists)
  /-- and it never panics -/
  no_panic : (step m op).1 ≠ .panic

/-- **every primitive, both models**: for a well-formed tree and an absolute path -/
theorem primitive_contracts {m : FMap} (hm : WF m) (op : Mut) (hp : Abs op.path) :
    Contract stepPhys m op ∧ Contract stepMem m op := by
  have hnp := (step_agree hm (CoreEq.refl m) op hp).1
  cases op with
  | createDir p =>
    have hc := createDir_contract hm p hp
    have hc' := mem_createDir_contract m p hp
    have hocc : ∀ q, Mut.createDir p = Mut.createDir q → q = p := by
      intro q hq; injection hq with hq; exact hq.symm
    exact ⟨{ ok_iff := hc.1, effect := fun h => ⟨(hc.2.1 h).1, (hc.2.1 h).2⟩, unchanged := hc.2.2.1,
             missing := (fun h => by cases h),
             occupied := (fun q hq hpar => by
               rw [hocc q hq] at hpar ⊢; exact ⟨hc.2.2.2.1 hpar, hc.2.2.2.2 hpar⟩),
             no_panic := hnp.2.2 },
           { ok_iff := hc'.1, effect := hc'.2.1, unchanged := hc'.2.2.1,
             missing := (fun h => by cases h),
             occupied := (fun q hq hpar => by
               rw [hocc q hq] at hpar ⊢; exact ⟨hc'.2.2.2.1 hpar, hc'.2.2.2.2 hpar⟩),
             no_panic := hnp.2.1 }⟩
  | write p bs =>
    have hc := write_contract hm p bs
    have hc' := mem_write_contract m p hp bs
    exact ⟨{ ok_iff := hc.1, effect := fun h => ⟨(hc.2.1 h).1, (hc.2.1 h).2.1⟩, unchanged := hc.2.2.1,
             missing := (fun h => by cases h), occupied := (fun q hq => by cases hq),
             no_panic := hnp.2.2 },
           { ok_iff := hc'.1, effect := fun h => ⟨(hc'.2.1 h).1, (hc'.2.1 h).2.1⟩,
             unchanged := hc'.2.2.1, missing := (fun h => by cases h),
             occupied := (fun q hq => by cases hq), no_panic := hnp.2.1 }⟩
  | append p bs =>
    have hc := append_contract hm p bs
    have hc' := mem_append_contract m p bs
    exact ⟨{ ok_iff := hc.1, effect := hc.2.1, unchanged := hc.2.2.1, missing := fun _ => hc.2.2.2.1,
             occupied := (fun q hq => by cases hq), no_panic := hnp.2.2 },
           { ok_iff := hc'.1, effect := hc'.2.1, unchanged := hc'.2.2.1,
             missing := fun _ _ => hc'.2.2.2.1, occupied := (fun q hq => by cases hq),
             no_panic := hnp.2.1 }⟩
  | removeFile p =>
    have hc := removeFile_contract hm p hp
    have hc' := mem_removeFile_contract m p
    exact ⟨{ ok_iff := hc.1, effect := fun h => ⟨(hc.2.1 h).1, (hc.2.1 h).2⟩, unchanged := hc.2.2.1,
             missing := fun _ => hc.2.2.2, occupied := (fun q hq => by cases hq),
             no_panic := hnp.2.2 },
           { ok_iff := hc'.1, effect := hc'.2.1, unchanged := hc'.2.2.1,
             missing := fun _ _ => hc'.2.2.2.1, occupied := (fun q hq => by cases hq),
             no_panic := hnp.2.1 }⟩
  | removeDir p =>
    have hc := removeDir_contract hm p
    have hc' := mem_removeDir_contract m p
    exact ⟨{ ok_iff := hc.1, effect := hc.2.1, unchanged := hc.2.2.1, missing := fun _ => hc.2.2.2.1,
             occupied := (fun q hq => by cases hq), no_panic := hnp.2.2 },
           { ok_iff := hc'.1, effect := hc'.2.1, unchanged := hc'.2.2.1,
             missing := fun _ _ => hc'.2.2.2.1, occupied := (fun q hq => by cases hq),
             no_panic := hnp.2.1 }⟩

/-- hence the two backends accept exactly the same calls, and a successful call leaves the same
named entry and the same frame on both -/
theorem primitive_contracts_same_pre {m : FMap} (hm : WF m) (op : Mut) (hp : Abs op.path) :
    ((stepPhys m op).1.isOk = true ↔ (stepMem m op).1.isOk = true) := by
  obtain ⟨h1, h2⟩ := primitive_contracts hm op hp
  rw [h1.ok_iff, h2.ok_iff]

/-! ### the predicates are decidable: the contract can be evaluated on a concrete tree -/

instance (m : FMap) (p : Str) : Decidable (IsDir m p) :=
  decidable_of_iff ((m.find? p).any (fun e => decide (e.ftype = .dir)) = true)
    (by unfold IsDir; cases m.find? p <;> simp)

instance (m : FMap) (p : Str) : Decidable (IsFile m p) :=
  decidable_of_iff ((m.find? p).any (fun e => decide (e.ftype = .file)) = true)
    (by unfold IsFile; cases m.find? p <;> simp)

instance (m : FMap) (p : Str) : Decidable (Absent m p) := by unfold Absent; exact inferInstance

instance (m : FMap) (p : Str) (bs : Bytes) : Decidable (HasFile m p bs) :=
  decidable_of_iff ((m.find? p).any (fun e => decide (e.ftype = .file ∧ e.content = bs)) = true)
    (by unfold HasFile; cases m.find? p <;> simp)

theorem noChildren_iff_keys (m : FMap) (p : Str) :
    NoChildren m p ↔ ∀ k ∈ m.keys, '/' ∈ k → parentInternal k ≠ p := by
  constructor
  · intro h k hk
    obtain ⟨e, he⟩ := (FMap.mem_keys_iff m k).1 hk
    exact h k e he
  · intro h k e he
    exact h k ((FMap.mem_keys_iff m k).2 ⟨e, he⟩)

instance (m : FMap) (p : Str) : Decidable (NoChildren m p) :=
  decidable_of_iff _ (noChildren_iff_keys m p).symm

theorem wf_iff_keys (m : FMap) :
    WF m ↔ IsDir m [] ∧ ∀ k ∈ m.keys, k ≠ [] → '/' ∈ k ∧ IsDir m (parentInternal k) := by
  unfold WF IsDir
  constructor
  · rintro ⟨h1, h2⟩
    refine ⟨h1, fun k hk hne => ?_⟩
    obtain ⟨e, he⟩ := (FMap.mem_keys_iff m k).1 hk
    exact h2 k e he hne
  · rintro ⟨h1, h2⟩
    exact ⟨h1, fun k e he hne => h2 k ((FMap.mem_keys_iff m k).2 ⟨e, he⟩) hne⟩

instance (m : FMap) : Decidable (WF m) := decidable_of_iff _ (wf_iff_keys m).symm

instance (m : FMap) (op : Mut) : Decidable (Pre m op) := by
  cases op <;> (unfold Pre; exact inferInstance)

instance (m m' : FMap) (op : Mut) : Decidable (Named m m' op) := by
  cases op with
  | append p bs =>
    exact decidable_of_iff
      ((m.find? p).any (fun e => decide (e.ftype = .file ∧ HasFile m' p (e.content ++ bs))) = true)
      (by
        show _ ↔ ∃ old, HasFile m p old ∧ HasFile m' p (old ++ bs)
        rcases Option.eq_none_or_eq_some (m.find? p) with hf | ⟨e, hf⟩
        · rw [hf]
          simp only [Option.any_none]
          constructor
          · intro h; cases h
          · rintro ⟨old, ⟨e, he, _⟩, _⟩; rw [hf] at he; cases he
        · rw [hf]
          simp only [Option.any_some, decide_eq_true_eq]
          constructor
          · rintro ⟨ht, h⟩; exact ⟨e.content, ⟨e, hf, ht, rfl⟩, h⟩
          · rintro ⟨old, ⟨e', he', ht, hc⟩, h⟩
            rw [hf] at he'; injection he' with he'; subst he'; subst hc; exact ⟨ht, h⟩)
  | createDir p => unfold Named; exact inferInstance
  | write p bs => unfold Named; exact inferInstance
  | removeFile p => unfold Named; exact inferInstance
  | removeDir p => unfold Named; exact inferInstance

/-! ### the "each name once" hypothesis of `readDir_contract` is an invariant

`FMap.NodupKeys` (no key stored twice) is a representation invariant of the association list:
the initial maps have it and every primitive of both models keeps it, whatever the path. -/

theorem nodupKeys_memPublish (m : FMap) (p : Str) (buf : Bytes) (h : FMap.NodupKeys m) :
    FMap.NodupKeys (memPublish m p buf) := by
  unfold memPublish
  split
  · split
    · exact FMap.nodup_insert _ _ _ h
    · exact h
  · exact h

theorem nodupKeys_init : FMap.NodupKeys Mem.init ∧ FMap.NodupKeys Phys.init := by
  constructor <;> simp [FMap.NodupKeys, FMap.keys, Mem.init, Phys.init]

theorem nodupKeys_stepMem (m : FMap) (op : Mut) (h : FMap.NodupKeys m) :
    FMap.NodupKeys (stepMem m op).2 := by
  cases op with
  | createDir p =>
    simp only [stepMem, Mem.pCreateDir, Mem.createDir]
    repeat' split
    all_goals first | exact h | exact FMap.nodup_insert _ _ _ h
  | write p bs =>
    simp only [stepMem, Mem.pWrite]
    split
    · have hc : FMap.NodupKeys (Mem.createFile m p).2 := by
        unfold Mem.createFile
        repeat' split
        all_goals first | exact h | exact FMap.nodup_insert _ _ _ h
      split
      · rename_i heq; rw [heq] at hc; exact nodupKeys_memPublish _ _ _ hc
      · rename_i heq; rw [heq] at hc; exact hc
      · rename_i heq; rw [heq] at hc; exact hc
    · exact h
  | append p bs =>
    simp only [stepMem, Mem.pAppend]
    split
    · exact nodupKeys_memPublish _ _ _ h
    · exact h
    · exact h
  | removeFile p =>
    simp only [stepMem, Mem.pRemoveFile, Mem.removeFile]
    repeat' split
    all_goals first | exact h | exact FMap.nodup_erase _ _ h
  | removeDir p =>
    simp only [stepMem, Mem.pRemoveDir, Mem.removeDir]
    repeat' split
    all_goals first | exact h | exact FMap.nodup_erase _ _ h

theorem nodupKeys_stepPhys (m : FMap) (op : Mut) (h : FMap.NodupKeys m) :
    FMap.NodupKeys (stepPhys m op).2 := by
  cases op with
  | createDir p =>
    simp only [stepPhys, Phys.pCreateDir, Phys.createDir]
    repeat' split
    all_goals first | exact h | exact FMap.nodup_insert _ _ _ h
  | write p bs =>
    simp only [stepPhys, Phys.pWrite]
    split
    · have hc : FMap.NodupKeys (Phys.createFile m p).2 := by
        unfold Phys.createFile
        repeat' split
        all_goals first | exact h | exact FMap.nodup_insert _ _ _ h
      have hw : ∀ m', FMap.NodupKeys m' → FMap.NodupKeys (Phys.writeAt0 m' p bs) := by
        intro m' h'
        unfold Phys.writeAt0
        repeat' split
        all_goals first | exact h' | exact FMap.nodup_insert _ _ _ h'
      split
      · rename_i heq; rw [heq] at hc; exact hw _ hc
      · rename_i heq; rw [heq] at hc; exact hc
      · rename_i heq; rw [heq] at hc; exact hc
    · exact h
  | append p bs =>
    simp only [stepPhys, Phys.pAppend]
    split
    · unfold Phys.appendAt
      split
      · exact FMap.nodup_insert _ _ _ h
      · exact h
    · exact h
    · exact h
  | removeFile p =>
    simp only [stepPhys, Phys.pRemoveFile, Phys.removeFile]
    repeat' split
    all_goals first | exact h | exact FMap.nodup_erase _ _ h
  | removeDir p =>
    simp only [stepPhys, Phys.pRemoveDir, Phys.removeDir]
    repeat' split
    all_goals first | exact h | exact FMap.nodup_erase _ _ h

/-! ### Non-vacuity: every contract evaluated on a concrete tree

    /            a/ (empty)      ab/c = [1,2,3]      a.b = [9]
                 n/日本/f = [0xE6, 0x97]             n/e/ (empty)

`a`, `ab`, `a.b` are siblings whose names are prefixes of one another; `日本` is a multi-byte
name. Each example states the outcome of the call TOGETHER with the truth value of the
precondition, so both sides of the `↔` are exhibited. -/

def fileOf (bs : Bytes) : Entry := { fileEntryNow with content := bs }

def exTree : FMap :=
  [ ([], dirEntryNow),
    ("/a".toList, dirEntryNow),
    ("/ab".toList, dirEntryNow),
    ("/ab/c".toList, fileOf [1, 2, 3]),
    ("/a.b".toList, fileOf [9]),
    ("/n".toList, dirEntryNow),
    ("/n/日本".toList, dirEntryNow),
    ("/n/日本/f".toList, fileOf [0xE6, 0x97]),
    ("/n/e".toList, dirEntryNow) ]

theorem exTree_wf : WF exTree := by decide

example : Abs "/n/日本/f".toList := rfl

-- remove_dir: the empty `/a` goes although `/ab/c` and `/a.b` start with "/a"; `/ab` is not empty
example : (Phys.pRemoveDir exTree "/a".toList).1.isOk = true ∧
    (IsDir exTree "/a".toList ∧ NoChildren exTree "/a".toList) ∧
    Absent (Phys.pRemoveDir exTree "/a".toList).2 "/a".toList ∧
    HasFile (Phys.pRemoveDir exTree "/a".toList).2 "/ab/c".toList [1, 2, 3] := by decide
example : (Mem.pRemoveDir exTree "/n/e".toList).1.isOk = true ∧ Pre exTree (.removeDir "/n/e".toList) := by decide
example : (Phys.pRemoveDir exTree "/ab".toList).1.isOk = false ∧ ¬ NoChildren exTree "/ab".toList ∧
    (Phys.pRemoveDir exTree "/ab".toList).2 = exTree := by decide
example : (Mem.pRemoveDir exTree "/n/日本".toList).1 = .err .other (some "/n/日本".toList) ∧
    ¬ Pre exTree (.removeDir "/n/日本".toList) := by decide
example : errClass (Phys.pRemoveDir exTree "/a.b".toList).1 = some .otherFailure ∧ IsFile exTree "/a.b".toList := by decide
example : (Phys.pRemoveDir exTree "/a/zz".toList).1.kind? = some .fileNotFound ∧
    (Mem.pRemoveDir exTree "/a/zz".toList).1.kind? = some .fileNotFound ∧ Absent exTree "/a/zz".toList := by decide

-- write session: new file, overwrite, multi-byte parent; directory target, missing parent, file parent
example : (Phys.pWrite exTree "/a/new".toList [5, 6]).1.isOk = true ∧ Pre exTree (.write "/a/new".toList [5, 6]) ∧
    HasFile (Phys.pWrite exTree "/a/new".toList [5, 6]).2 "/a/new".toList [5, 6] ∧
    HasFile (Phys.pWrite exTree "/a/new".toList [5, 6]).2 "/a.b".toList [9] := by decide
example : (Mem.pWrite exTree "/ab/c".toList [7]).1.isOk = true ∧ IsFile exTree "/ab/c".toList ∧
    HasFile (Mem.pWrite exTree "/ab/c".toList [7]).2 "/ab/c".toList [7] := by decide
example : (Mem.pWrite exTree "/n/日本/g".toList []).1.isOk = true ∧
    HasFile (Mem.pWrite exTree "/n/日本/g".toList []).2 "/n/日本/g".toList [] := by decide
example : (Phys.pWrite exTree "/ab".toList [1]).1.isOk = false ∧ IsDir exTree "/ab".toList ∧
    ¬ Pre exTree (.write "/ab".toList [1]) ∧ (Phys.pWrite exTree "/ab".toList [1]).2 = exTree := by decide
example : (Mem.pWrite exTree "/zz/x".toList [1]).1.isOk = false ∧ ¬ IsDir exTree (parentInternal "/zz/x".toList) ∧
    (Mem.pWrite exTree "/zz/x".toList [1]).2 = exTree := by decide
example : (Phys.pWrite exTree "/a.b/x".toList [1]).1.isOk = false ∧ (Mem.pWrite exTree "/a.b/x".toList [1]).1.isOk = false ∧
    IsFile exTree (parentInternal "/a.b/x".toList) := by decide

-- append session
example : (Phys.pAppend exTree "/ab/c".toList [4]).1.isOk = true ∧ Pre exTree (.append "/ab/c".toList [4]) ∧
    Named exTree (Phys.pAppend exTree "/ab/c".toList [4]).2 (.append "/ab/c".toList [4]) ∧
    HasFile (Phys.pAppend exTree "/ab/c".toList [4]).2 "/ab/c".toList [1, 2, 3, 4] := by decide
example : (Mem.pAppend exTree "/n/日本/f".toList [0xA5]).1.isOk = true ∧
    HasFile (Mem.pAppend exTree "/n/日本/f".toList [0xA5]).2 "/n/日本/f".toList [0xE6, 0x97, 0xA5] := by decide
example : (Phys.pAppend exTree "/a".toList [4]).1.isOk = false ∧ (Mem.pAppend exTree "/a".toList [4]).1.isOk = false ∧
    IsDir exTree "/a".toList ∧ ¬ Pre exTree (.append "/a".toList [4]) := by decide
example : (Phys.pAppend exTree "/a/c".toList [4]).1.kind? = some .fileNotFound ∧
    (Mem.pAppend exTree "/a/c".toList [4]).1.kind? = some .fileNotFound ∧ Absent exTree "/a/c".toList := by decide

-- create_dir and remove_file through the summary vocabulary
example : (stepPhys exTree (.createDir "/a/日本".toList)).1.isOk = true ∧ Pre exTree (.createDir "/a/日本".toList) ∧
    Named exTree (stepPhys exTree (.createDir "/a/日本".toList)).2 (.createDir "/a/日本".toList) := by decide
example : (stepMem exTree (.createDir "/a.b".toList)).1.kind? = some .fileExists ∧
    (stepMem exTree (.createDir "/ab".toList)).1.kind? = some .dirExists ∧
    ¬ Pre exTree (.createDir "/a.b".toList) := by decide
example : (stepMem exTree (.removeFile "/a.b".toList)).1.isOk = true ∧ Pre exTree (.removeFile "/a.b".toList) ∧
    Named exTree (stepMem exTree (.removeFile "/a.b".toList)).2 (.removeFile "/a.b".toList) ∧
    IsDir (stepMem exTree (.removeFile "/a.b".toList)).2 "/a".toList := by decide
example : (stepPhys exTree (.removeFile "/a".toList)).1.isOk = false ∧ ¬ Pre exTree (.removeFile "/a".toList) := by decide

-- observers
example : Phys.exists_ exTree "/n/日本/f".toList = true ∧ exTree.contains "/n/日本/f".toList = true ∧
    ¬ Absent exTree "/n/日本/f".toList := by decide
example : Phys.exists_ exTree "/a/c".toList = false ∧ exTree.contains "/a/c".toList = false ∧
    Phys.exists_ exTree "/a.b/x".toList = false ∧ Absent exTree "/a/c".toList := by decide
example : (Phys.metadata exTree "/ab/c".toList).toOption.map (fun md => (md.ftype, md.len)) = some (.file, 3) ∧
    (Mem.metadata exTree "/ab/c".toList).toOption.map (fun md => (md.ftype, md.len)) = some (.file, 3) ∧
    HasFile exTree "/ab/c".toList [1, 2, 3] := by decide
example : (Phys.metadata exTree "/ab/zz".toList).kind? = some .fileNotFound ∧
    (Mem.metadata exTree "/ab/zz".toList).kind? = some .fileNotFound := by decide
example : Phys.readDir exTree "/n".toList = .ok ["日本".toList, "e".toList] ∧
    Mem.readDir exTree "/n".toList = .ok ["日本".toList, "e".toList] ∧ IsDir exTree "/n".toList := by decide
example : Phys.readDir exTree "/a".toList = .ok [] ∧ Mem.readDir exTree "/ab".toList = .ok ["c".toList] ∧
    Phys.readDir exTree [] = .ok ["a".toList, "ab".toList, "a.b".toList, "n".toList] := by decide
example : (Phys.readDir exTree "/a.b".toList).isOk = false ∧ errClass (Mem.readDir exTree "/a.b".toList) = some .otherFailure ∧
    (Phys.readDir exTree "/zz".toList).kind? = some .fileNotFound ∧ IsFile exTree "/a.b".toList := by decide
example : Phys.openFile exTree "/n/日本/f".toList = .ok { content := [0xE6, 0x97], pos := 0 } ∧
    (Mem.openFile exTree "/n/日本/f".toList).1 = .ok { content := [0xE6, 0x97], pos := 0 } ∧
    IsFile exTree "/n/日本/f".toList := by decide
example : (Mem.openFile exTree "/n".toList).1.isOk = false ∧ (Phys.openFile exTree "/n/zz".toList).kind? = some .fileNotFound ∧
    (Phys.openFile exTree "/n".toList).isOk = true ∧ ¬ IsFile exTree "/n".toList := by decide

-- MemoryFS `open_file` stamps the access time before it checks the type: a refused open of a
-- directory still changes that stamp (and nothing else: `mem_openFile_map`)
example : (Mem.openFile Mem.init []).1.isOk = false ∧ (Mem.openFile Mem.init []).2 ≠ Mem.init ∧
    (Mem.openFile Mem.init []).2.find? [] = some { dirEntryNow with modified := .unset } := by decide

end Vfs.C01
