/-
  Non-vacuity for Props/C11OverlayTree.lean: the 3-layer example world of Props/C09Refine.lean
  (leaves 2,0,1) plus a source leaf 3 holding a NESTED tree (depth 3, an empty directory, storage
  order not sorted); the reference world holds `C09.xRef` at leaf 0 and the same source leaf.
  `y_ros`, `y_srcNames`: the hypotheses of `copyDir_into_overlay_sim` hold (`decide`);
  `y_copy_sim`: the theorem instantiated; `y_outcomes`, `y_final_agree`: the two runs evaluated
  independently by the kernel (`decide +kernel`): both `Ok 4`, final view = final reference map on
  every key that occurs; out-of-fuel and refused destination behave alike on both sides.
  `y_move_sim`, `y_move_outcomes`, `y_move_final_agree`: the same for `move_dir` (the source tree is
  gone from leaf 3 on both sides; `remove_dir_all` evaluated through its structural twin `rmAllK`).
-/
import VfsModel.Props.C11OverlayTree
set_option linter.unusedSimpArgs false
set_option linter.unusedVariables false
namespace Vfs.C11
open Vfs Vfs.Overlay Vfs.C02 Vfs.C01 Vfs.C09 Vfs.C05

/-! ### non-vacuity: the 3-layer example world of Props/C09Refine.lean, a nested source tree -/

section example4
open Vfs.C10 (mapsOfN world4)

/-- the source tree on leaf 3: "/t" with a sub-directory "/t/a" holding a file and an EMPTY
directory, and a file "/t/g" (depth 3; storage order not sorted) -/
def ySrc : FMap :=
  [("/t/g".toList, C09.fileOf [3]), ("/t/a/e".toList, dirEntryNow), ("/t/a/f".toList, C09.fileOf [1, 2]),
   ("/t/a".toList, dirEntryNow), ("/t".toList, dirEntryNow), ([], dirEntryNow)]

/-- overlay world: leaves 0,1,2 as in `C09.xw` (layers 2,0,1), leaf 3 the source -/
def yw1 : World := world4 xA xB xU ySrc
/-- reference world: leaf 0 holds the reference tree `C09.xRef`, leaf 3 the source -/
def yw2 : World := world4 xRef [] [] ySrc

def ySrcP : VPath := ⟨leafFS 3, 4, "/t".toList⟩
def yDst1 : VPath := ⟨Overlay.fs (layersN [2, 0, 1] [7, 8, 9]), 5, renderC ["d".toList, "copy".toList]⟩
def yDst2 : VPath := ⟨leafFS 0, 6, renderC ["d".toList, "copy".toList]⟩

theorem srcNames_of_keys {m : FMap}
    (h : ∀ k ∈ m.keys, '/' ∈ k → GoodComp (afterLast '/' k) ∧ NoWo (afterLast '/' k)) : SrcNames m :=
  fun k e he hsl => h k ((FMap.mem_keys_iff m k).2 ⟨e, he⟩) hsl

theorem y_ros : ROS 2 7 [0, 1] [8, 9] 0 3 ySrc xU [xA, xB] xRef yw1 yw2 :=
  ⟨⟨⟨.cons rfl (by decide) (.cons rfl (by decide) (.cons rfl (by decide) .nil)), xw_inv, xw_viewWF⟩,
    rfl, xw_refines⟩, rfl, rfl⟩

theorem y_srcNames : SrcNames ySrc := srcNames_of_keys (by decide)

/-- the theorem, instantiated: all its hypotheses hold on this world -/
theorem y_copy_sim :
    ∃ m' mu' ms' a',
      ROS 2 7 [0, 1] [8, 9] 0 3 m' mu' ms' a' (VPath.copyDir 10 ySrcP yDst1 yw1).2
        (VPath.copyDir 10 ySrcP yDst2 yw2).2 ∧ SrcNames m' ∧
      OutSame (VPath.copyDir 10 ySrcP yDst1 yw1).1 (VPath.copyDir 10 ySrcP yDst2 yw2).1 :=
  copyDir_into_overlay_sim (by decide) (by decide) 5 6 4 (by decide) (by decide) 10 "/t".toList
    (by decide) y_ros y_srcNames

/-- … and, independently, by evaluation: both runs copy the four entries -/
theorem y_outcomes : (VPath.copyDir 10 ySrcP yDst1 yw1).1 = .ok 4 ∧
    (VPath.copyDir 10 ySrcP yDst2 yw2).1 = .ok 4 := by decide +kernel

/-- the final view of the overlay is the final reference map on every key that occurs -/
theorem y_final_agree :
    ∀ q ∈ (mapsOfN (VPath.copyDir 10 ySrcP yDst1 yw1).2 [2, 0, 1]).flatMap FMap.keys ++
        (mapsOfN (VPath.copyDir 10 ySrcP yDst2 yw2).2 [0]).flatMap FMap.keys,
      Vis q → (oview (mapsOfN (VPath.copyDir 10 ySrcP yDst1 yw1).2 [2, 0, 1]) q).map vcore
        = (mview ((mapsOfN (VPath.copyDir 10 ySrcP yDst2 yw2).2 [0]).headD []) q).map vcore := by
  decide +kernel

/-- the nested tree arrived through the overlay: the empty directory and the deep file -/
example : (oview (mapsOfN (VPath.copyDir 10 ySrcP yDst1 yw1).2 [2, 0, 1]) "/d/copy/a/e".toList).map vcore
    = some (.dir, []) := by decide +kernel
example : (oview (mapsOfN (VPath.copyDir 10 ySrcP yDst1 yw1).2 [2, 0, 1]) "/d/copy/a/f".toList).map vcore
    = some (.file, [1, 2]) := by decide +kernel
/-- too little fuel: both sides give up alike (the out-of-fuel sentinel) -/
example : (VPath.copyDir 3 ySrcP yDst1 yw1).1 = .panic ∧ (VPath.copyDir 3 ySrcP yDst2 yw2).1 = .panic := by
  decide +kernel
/-- an occupied destination is refused on both sides -/
example : (VPath.copyDir 10 ySrcP ⟨Overlay.fs (layersN [2, 0, 1] [7, 8, 9]), 5, "/d".toList⟩ yw1).1.isOk = false ∧
    (VPath.copyDir 10 ySrcP ⟨leafFS 0, 6, "/d".toList⟩ yw2).1.isOk = false := by decide +kernel

/-- `moveDir_into_overlay_sim`, instantiated -/
theorem y_move_sim :
    ∃ m' mu' ms' a',
      ROS 2 7 [0, 1] [8, 9] 0 3 m' mu' ms' a' (VPath.moveDir 10 ySrcP yDst1 yw1).2
        (VPath.moveDir 10 ySrcP yDst2 yw2).2 ∧
      OutSame (VPath.moveDir 10 ySrcP yDst1 yw1).1 (VPath.moveDir 10 ySrcP yDst2 yw2).1 :=
  moveDir_into_overlay_sim (by decide) (by decide) 5 6 4 (by decide) (by decide) 10 "/t".toList
    (by decide) y_ros y_srcNames

/-- both moves complete; the source is gone from leaf 3 on both sides; the views agree -/
theorem y_move_outcomes : (VPath.moveDir 10 ySrcP yDst1 yw1).1 = .ok () ∧
    (VPath.moveDir 10 ySrcP yDst2 yw2).1 = .ok () ∧
    (mapsOfN (VPath.moveDir 10 ySrcP yDst1 yw1).2 [3]) = (mapsOfN (VPath.moveDir 10 ySrcP yDst2 yw2).2 [3]) ∧
    ((mapsOfN (VPath.moveDir 10 ySrcP yDst1 yw1).2 [3]).headD []).find? "/t".toList = none := by
  unfold VPath.moveDir
  simp only [← rmAllK_eq]
  decide +kernel

theorem y_move_final_agree :
    ∀ q ∈ (mapsOfN (VPath.moveDir 10 ySrcP yDst1 yw1).2 [2, 0, 1]).flatMap FMap.keys ++
        (mapsOfN (VPath.moveDir 10 ySrcP yDst2 yw2).2 [0]).flatMap FMap.keys,
      Vis q → (oview (mapsOfN (VPath.moveDir 10 ySrcP yDst1 yw1).2 [2, 0, 1]) q).map vcore
        = (mview ((mapsOfN (VPath.moveDir 10 ySrcP yDst2 yw2).2 [0]).headD []) q).map vcore := by
  unfold VPath.moveDir
  simp only [← rmAllK_eq]
  decide +kernel

/-- `copyFile_into_overlay_sim`, instantiated: a file of the source leaf onto "/d/x2" -/
example := copyFile_into_overlay_sim (u := 2) (idu := 7) (is := [0, 1]) (ids := [8, 9]) (r := 0) (s := 3)
  (by decide) (by decide) 5 6 4 (by decide) (by decide) "/t/a/f".toList
  (cs := ["d".toList, "x2".toList]) (by decide) y_ros

end example4

end Vfs.C11

section audit
open Vfs.C11
#print axioms y_copy_sim
#print axioms y_outcomes
#print axioms y_final_agree
#print axioms y_move_sim
#print axioms y_move_outcomes
#print axioms y_move_final_agree
end audit
