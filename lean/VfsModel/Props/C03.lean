/-
  C03 — The namespace is always a well-formed tree.

  MemoryFS stores a flat map from path strings to entries; nothing structural keeps it a tree.
  `WF m`: the root is a directory and every other key has a '/' and a parent that is a
  directory. Theorems (for EVERY path string, with no type restriction on the target):
    * each path-layer primitive — create_dir, a write session (create_file + writes + drop), an
      append session, remove_file, remove_dir (root aside), the time setters, open_file and the
      other observers — run through the generic `VPath` layer over the in-memory leaf of a
      world preserves `WFLeaf`, whether the call succeeds or fails;
    * hence every finite history of such calls, from the initial state (`history_wf`);
    * in a well-formed map every entry is listed by its parent and reachable from the root
      through directory listings (`reachable`);
    * the pre-fix code is refuted in the theory: `remove_file` / `create_file` without the
      type check break `WF` on a concrete map.
  Adapters: an altroot/overlay stores nothing itself; its well-formedness is that of the
  leaves (C07/C09) and is compared on every step by the tree stream.
-/
import VfsModel.Proofs.MemRun
namespace Vfs.C03

/-- leaf `i` of the world is a memory leaf holding a well-formed map -/
def WFLeaf (i : Nat) (w : World) : Prop := ∃ m, MemLeafAt w i m ∧ WF m

/-- the fresh filesystem is well-formed -/
theorem init_wf : WFLeaf 0 { leaves := [{ kind := .mem, files := Mem.init }] } :=
  ⟨Mem.init, rfl, WF.init_mem⟩

/-- the primitive calls of the path API, on arbitrary path strings -/
inductive Prim where
  | createDir (p : Str)
  | write (p : Str) (bs : Bytes)      -- create_file, write_all, drop
  | append (p : Str) (bs : Bytes)     -- append_file, write_all, drop
  | removeFile (p : Str)
  | removeDir (p : Str)
  | openRead (p : Str)                -- open_file (stamps the access time)
  | setCreated (p : Str) (t : Int)
  | setModified (p : Str) (t : Int)
  | setAccessed (p : Str) (t : Int)
  | exists_ (p : Str)
  | metadata (p : Str)
  | readDir (p : Str)

/-- run a primitive through the generic `VPath` layer on the memory leaf `i` -/
def Prim.run (i id : Nat) : Prim → M Unit
  | .createDir p => VPath.createDir { fs := leafFS i, fsId := id, path := p }
  | .write p bs => do
    let h ← VPath.createFile { fs := leafFS i, fsId := id, path := p }
    h.writeAllAndDrop bs
  | .append p bs => do
    let h ← VPath.appendFile { fs := leafFS i, fsId := id, path := p }
    h.writeAllAndDrop bs
  | .removeFile p => VPath.removeFile { fs := leafFS i, fsId := id, path := p }
  | .removeDir p => VPath.removeDir { fs := leafFS i, fsId := id, path := p }
  | .openRead p => do
    let _ ← VPath.openFile { fs := leafFS i, fsId := id, path := p }
    pure ()
  | .setCreated p t => VPath.setCreationTime { fs := leafFS i, fsId := id, path := p } t
  | .setModified p t => VPath.setModificationTime { fs := leafFS i, fsId := id, path := p } t
  | .setAccessed p t => VPath.setAccessTime { fs := leafFS i, fsId := id, path := p } t
  | .exists_ p => do
    let _ ← VPath.exists_ { fs := leafFS i, fsId := id, path := p }
    pure ()
  | .metadata p => do
    let _ ← VPath.metadata { fs := leafFS i, fsId := id, path := p }
    pure ()
  | .readDir p => do
    let _ ← VPath.readDir { fs := leafFS i, fsId := id, path := p }
    pure ()

/-- removal of the root itself is set aside by the property -/
def Prim.NotRootRemoval : Prim → Prop
  | .removeDir p => p ≠ []
  | _ => True

theorem wf_of_run {i : Nat} {w : World} {m m' : FMap} {α} {r : Res α} {act : M α}
    (h : MemLeafAt w i m) (heq : act w = (r, w.setLeafFiles i m')) (hw : WF m') :
    WFLeaf i (act w).2 := by
  rw [heq]; exact ⟨m', h.set m', hw⟩

/-- **every primitive preserves well-formedness**, successful or failed, right or wrong type -/
theorem prim_wf (i id : Nat) (op : Prim) (hop : op.NotRootRemoval) :
    Preserves (WFLeaf i) (op.run i id) := by
  refine ⟨fun w ⟨m, hm, hwf⟩ => ?_⟩
  cases op with
  | createDir p => exact wf_of_run hm (run_pCreateDir hm id p) (hwf.pCreateDir p)
  | write p bs => exact wf_of_run hm (run_pWrite hm id p bs) (hwf.pWrite p bs)
  | append p bs => exact wf_of_run hm (run_pAppend hm id p bs) (hwf.pAppend p bs)
  | removeFile p => exact wf_of_run hm (run_pRemoveFile hm id p) (hwf.pRemoveFile p)
  | removeDir p => exact wf_of_run hm (run_pRemoveDir hm id p) (hwf.pRemoveDir p hop)
  | openRead p =>
    have : (Prim.openRead p).run i id w =
        ((Mem.openFile m p).1.withPath p |>.map (fun _ => ()), w.setLeafFiles i (Mem.openFile m p).2) := by
      simp only [Prim.run, VPath.openFile, bind, M.bind, M.withPath, run_openFile hm]
      cases (Mem.openFile m p).1 <;> simp [Res.withPath, Res.map, Pure.pure, M.pure]
    exact wf_of_run hm this (hwf.openFile p)
  | setCreated p t =>
    have : (Prim.setCreated p t).run i id w =
        ((Mem.setCreated m p (.at t)).1.withPath p, w.setLeafFiles i (Mem.setCreated m p (.at t)).2) := by
      show M.withPath p (onLeaf i _) w = _
      simp only [M.withPath, run_onLeaf hm]
    exact wf_of_run hm this (hwf.setCreated p _)
  | setModified p t =>
    have : (Prim.setModified p t).run i id w =
        ((Mem.setModified m p (.at t)).1.withPath p, w.setLeafFiles i (Mem.setModified m p (.at t)).2) := by
      show M.withPath p (onLeaf i _) w = _
      simp only [M.withPath, run_onLeaf hm]
    exact wf_of_run hm this (hwf.setModified p _)
  | setAccessed p t =>
    have : (Prim.setAccessed p t).run i id w =
        ((Mem.setAccessed m p (.at t)).1.withPath p, w.setLeafFiles i (Mem.setAccessed m p (.at t)).2) := by
      show M.withPath p (onLeaf i _) w = _
      simp only [M.withPath, run_onLeaf hm]
    exact wf_of_run hm this (hwf.setAccessed p _)
  | exists_ p =>
    have : ((Prim.exists_ p).run i id w).2 = w := by
      simp [Prim.run, VPath.exists_, bind, M.bind, run_exists hm, Pure.pure, M.pure]
    rw [this]; exact ⟨m, hm, hwf⟩
  | metadata p =>
    have : ((Prim.metadata p).run i id w).2 = w := by
      simp only [Prim.run, VPath.metadata, bind, M.bind, M.withPath, run_metadata hm]
      cases Mem.metadata m p <;> simp [Res.withPath, Pure.pure, M.pure]
    rw [this]; exact ⟨m, hm, hwf⟩
  | readDir p =>
    have : ((Prim.readDir p).run i id w).2 = w := by
      simp only [Prim.run, VPath.readDir, bind, M.bind, M.withPath, run_readDir hm]
      cases Mem.readDir m p <;> simp [Res.withPath, Pure.pure, M.pure]
    rw [this]; exact ⟨m, hm, hwf⟩

/-- run a history, ignoring the individual outcomes -/
def runAll (i id : Nat) : List Prim → World → World
  | [], w => w
  | op :: rest, w => runAll i id rest ((op.run i id) w).2

/-- **every reachable state is well-formed**: any finite history of primitive calls (of the
right or wrong type for their targets, succeeding or failing, on any path strings) -/
theorem history_wf (i id : Nat) (ops : List Prim) (hops : ∀ op ∈ ops, op.NotRootRemoval)
    (w : World) (hw : WFLeaf i w) : WFLeaf i (runAll i id ops w) := by
  induction ops generalizing w with
  | nil => exact hw
  | cons op rest ih =>
    exact ih (fun o ho => hops o (by simp [ho])) _
      ((prim_wf i id op (hops op (by simp))).pres w hw)

/-- in a well-formed map the parent of every entry lists it, exactly under its bare name -/
theorem listed_by_parent {m : FMap} (h : WF m) (k : Str) (e : Entry) (hk : m.find? k = some e)
    (hne : k ≠ []) :
    ∃ l, Mem.readDir m (parentInternal k) = .ok l ∧ afterLast '/' k ∈ l ∧ '/' ∉ afterLast '/' k := by
  obtain ⟨hs, pe, hp, hd⟩ := h.2 k e hk hne
  refine ⟨m.keys.filterMap (childName (parentInternal k)), ?_, ?_, (split_last '/' k hs).2⟩
  · simp [Mem.readDir, hp, hd]
  · exact (mem_filterMap_childName m _ _).2 ⟨k, e, hk, hs, rfl, rfl⟩

/-- reachability from the root through directory listings -/
inductive Reach (m : FMap) : Str → Prop where
  | root : Reach m []
  | child (p n : Str) (l : List Str) : Reach m p → Mem.readDir m p = .ok l → n ∈ l →
      Reach m (p ++ '/' :: n)

theorem parent_shorter (k : Str) (hs : '/' ∈ k) : (parentInternal k).length < k.length := by
  have := (split_last '/' k hs).1
  have hl : k.length = (parentInternal k).length + 1 + (afterLast '/' k).length := by
    conv => lhs; rw [this]
    unfold parentInternal
    simp [List.length_append]; omega
  omega

/-- **every entry is reachable from the root** -/
theorem reachable {m : FMap} (h : WF m) : ∀ (n : Nat) (k : Str) (e : Entry), k.length ≤ n →
    m.find? k = some e → Reach m k := by
  intro n
  induction n with
  | zero =>
    intro k e hl _
    have : k = [] := List.eq_nil_of_length_eq_zero (by omega)
    subst this; exact Reach.root
  | succ n ih =>
    intro k e hl hk
    by_cases hne : k = []
    · subst hne; exact Reach.root
    · obtain ⟨hs, pe, hp, _⟩ := h.2 k e hk hne
      obtain ⟨l, hl1, hl2, _⟩ := listed_by_parent h k e hk hne
      have hpar := ih (parentInternal k) pe (by have := parent_shorter k hs; omega) hp
      have := Reach.child (parentInternal k) (afterLast '/' k) l hpar hl1 hl2
      have hk' : k = parentInternal k ++ '/' :: afterLast '/' k := (split_last '/' k hs).1
      rw [← hk'] at this
      exact this

/-- a non-empty directory cannot turn into a file: a write session on a directory fails and
changes nothing -/
theorem write_on_dir_refused (m : FMap) (p : Str) (bs : Bytes) (e : Entry)
    (he : m.find? p = some e) (hd : e.ftype = .dir) :
    (Mem.pWrite m p bs).2 = m ∧ (Mem.pWrite m p bs).1.isOk = false := by
  unfold Mem.pWrite
  split
  · unfold Mem.createFile
    cases Mem.ensureHasParent m p with
    | ok u => simp [he, hd, fail, Res.withPath, Res.isOk]
    | err k pth => simp [Res.withPath, Res.isOk]
    | panic => simp [Res.isOk]
  · simp [Res.isOk]

/-! ### the historical defects, refuted in the theory (regression visible as a theorem) -/

/-- `remove_file` without the type check (the code before the fix) -/
def removeFileUnchecked (m : FMap) (p : Str) : FMap := m.erase p

def witness : FMap :=
  [ ("/a/b".toList, dirEntryNow), ("/a".toList, dirEntryNow),
    ([], { ftype := .dir, content := [], created := .now, modified := .unset, accessed := .unset }) ]

theorem witness_wf : WF witness := by
  refine ⟨⟨{ ftype := .dir, content := [], created := .now, modified := .unset, accessed := .unset }, by decide, rfl⟩, ?_⟩
  intro k e hk hne
  simp only [witness, FMap.find?_cons] at hk
  split at hk
  · rename_i h; subst h; exact ⟨by decide, dirEntryNow, by decide, rfl⟩
  · split at hk
    · rename_i h; subst h
      exact ⟨by decide, { ftype := .dir, content := [], created := .now, modified := .unset, accessed := .unset }, by decide, rfl⟩
    · split at hk
      · rename_i h; exact absurd h.symm hne
      · cases hk

/-- without the type check, removing the directory `/a` orphans `/a/b` -/
theorem unchecked_remove_file_breaks_wf : ¬ WF (removeFileUnchecked witness "/a".toList) := by
  intro h
  have := h.2 "/a/b".toList dirEntryNow (by decide) (by decide)
  obtain ⟨_, pe, hp, _⟩ := this
  have : (removeFileUnchecked witness "/a".toList).find? (parentInternal "/a/b".toList) = none := by decide
  rw [this] at hp
  cases hp

/-- with the check the same call is refused and nothing changes -/
theorem checked_remove_file_keeps (p : Str) : WF (Mem.pRemoveFile witness p).2 :=
  witness_wf.pRemoveFile p

end Vfs.C03
