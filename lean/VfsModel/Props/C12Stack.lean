/-
  C12, classification part, for EVERY adapter stacking over in-memory leaves.

  CLASSES
    * `MStackW fs` : a memory leaf `leafFS i`, or AltrootFS (rooted at a canonical path) over an
      `MStackW`.
    * `MStack fs`  : an `MStackW`, AltrootFS (canonical root) over an `MStack`, or OverlayFS over ANY
      list of layers each of which is a path of an `MStack` (overlays of overlays, overlays of
      altroots, altroots over overlays, ... included).
    The world hypothesis is `AllMem w` (every leaf of the world is a memory leaf).

  ABSENCE is read off the stacking itself: "`p` is absent from the view" is
  `(fs.exists_ p w).1 = .ok false` (the stacking's own `exists` answers `false`).

  PROVED (axioms: propext, Classical.choice, Quot.sound)
    * `stack_exPure` : `exists` of every `MStack` leaves the world unchanged.
    * `stack_miss` / `missing_is_not_found` : for every `MStack`, every world of memory leaves, every
      canonical non-root `p` that the stacking's `exists` reports absent:
      `metadata`, `open_file`, `read_dir`, `remove_file`, `remove_dir` through the `VfsPath` layer
      return EXACTLY `.err .fileNotFound (some p)` and leave the world unchanged.  (No hypothesis on
      the parent is needed over memory leaves: MemoryFS answers not-found on any missing key, also
      below a missing or a file parent; PhysicalFS would answer `io`/ENOTDIR below a file, see
      `C12.phys_missing_ancestor`.  No invariant (OInv/ViewWF) is needed either.)
    * `stackW_missW` / `missing_is_not_found_W` : for `MStackW` additionally `append_file`, the three
      time setters → `.err .fileNotFound (some p)`, world unchanged; `copy_file` / `move_file` FROM
      `p` to a canonical absent destination of the same filesystem or of any filesystem with
      another identity → `.err .fileNotFound (some p)` (the model: the fast path answers
      NotSupported, the generic route fails in `open_file`; Rust: path.rs copy_file/move_file, same).
    * `overlay_missing_is_not_found` : the same five operations for an overlay over ANY layers whose
      `exists` leaves the world unchanged (`ExPure`: memory AND physical leaves `leaf_exPure`,
      EmbeddedFS `embedded_exPure`, altroots `altroot_exPure`, overlays `overlay_exPure`): no
      hypothesis on the leaf kinds at all — the overlay decides by `exists` of its layers.
    * `missing_copy_move` / `overlay_missing_copy_move` : `copy_file` / `move_file` FROM an absent
      path of any `MStack` (to another filesystem identity / within one overlay).
    * `overlay_setters_missing(_of)` : the three setters THROUGH an overlay whose write layer is an
      `MStackW`: not-found provided the write layer itself has nothing at `p`
      (`exists` of the write layer at `p` is `false`; under `OInv` this follows from absence in the
      view, clause `ghost`, see C12StackN.overlayN_setters_missing).  NOTE the model (and
      overlay.rs:192-202) send setters to the write layer only, so a path that exists only in a
      lower layer ALSO answers not-found: see the example with "/d/f" at the end.
    * `occupied_create_dir` (`stackW_occ`): for `MStackW`, `create_dir` through the `VfsPath`
      layer on a canonical non-root path whose parent exists and is a directory: occupant a
      directory → `.err .dirExists (some p)`, a file → `.err .fileExists (some p)`, world unchanged.
    * `unsupported_set_creation_time` : `set_creation_time` on a physical leaf, through altroots and
      through overlays whose WRITE layer is such a stacking (`UStack (PhysLeaf w)`; the lower layers
      are arbitrary) → `.err .notSupported (some p)`, world unchanged.
      `unsupported_setters_embedded` : the three setters of EmbeddedFS, directly / through altroots /
      through overlays with an embedded-backed write layer (`UStack IsEmbedded`).
      `unsupported_mutators_embedded` : `append_file`, `remove_file`, `remove_dir` of EmbeddedFS
      directly and through altroots (`EStackW`).  `unsupported_create_embedded` : `create_dir` /
      `create_file` directly on EmbeddedFS once `get_parent` has passed.  The transfers:
      `C12.embedded_defaults`, `C12.overlay_defaults`, `C12.altroot_defaults` (existing).
    * `walk_error_items_labelled` : for ANY `FS` record: every `.err` item of
      `VPath.walkAll fuel s` after `root.walkDir = ok s` carries a label (never the placeholder),
      and the label is `root.path` or has the prefix `root.path ++ "/"` (`Below`); ok items are
      below the root too; no item is a panic.
  NOT PROVED HERE
    * `append_file` and `create_dir`-occupied THROUGH an overlay (they run `ensure_has_parent`, which
      writes to the write layer; needs the invariants): Props/C12StackN.lean does them for overlays
      over n memory leaves (OWN/OInv/ViewWF); for altroot over such an overlay see
      Props/C01OverlayAlt.lean.  Overlays over altroots: only the operations above.
    * leaves/altroots over PHYSICAL leaves for the not-found part (needs the parent-chain hypothesis
      `Phys.resolveParent = ok`, cf. `C12.vpath_missing_phys`); overlays over physical layers ARE
      covered for the five operations (`overlay_missing_is_not_found`).
    * `create_dir`/`create_file` of EmbeddedFS through altroot (the `get_parent` prelude answers
      `Other`/not-found first when the parent is missing); `append_file`/`remove_*` through an
      overlay with an embedded write layer (they fail in `create_dir_all` of the bookkeeping area).
-/
import VfsModel.Props.C12
import VfsModel.Props.C07
set_option linter.unusedVariables false
set_option linter.unusedSimpArgs false
namespace Vfs.C12
open Vfs

/-! ### a small calculus: world-preserving computations with a postcondition at a fixed world -/

/-- `m`, run at `w`, does not change the world, and a value it returns satisfies `Q` -/
def Post {α} (m : M α) (w : World) (Q : α → Prop) : Prop :=
  (m w).2 = w ∧ ∀ a, (m w).1 = .ok a → Q a

theorem Post.pure {α} (a : α) (w : World) {Q : α → Prop} (h : Q a) : Post (Pure.pure a : M α) w Q :=
  ⟨rfl, fun b hb => by cases hb; exact h⟩

theorem Post.ret {α} (r : Res α) (w : World) {Q : α → Prop} (h : ∀ a, r = .ok a → Q a) :
    Post (M.ret r) w Q := ⟨rfl, fun a ha => h a ha⟩

theorem Post.failK {α} (k : ErrKind) (w : World) {Q : α → Prop} : Post (M.failK k : M α) w Q :=
  ⟨rfl, fun a ha => by cases ha⟩

theorem Post.bind {α β} {m : M α} {f : α → M β} {w : World} {Q : α → Prop} {R : β → Prop}
    (hm : Post m w Q) (hf : ∀ a, Q a → Post (f a) w R) : Post (m >>= f) w R := by
  obtain ⟨h1, h2⟩ := hm
  show Post (M.bind m f) w R
  unfold Post M.bind
  cases hr : m w with
  | mk r w' =>
    rw [hr] at h1 h2
    simp only at h1; subst h1
    cases r with
    | ok a => exact hf a (h2 a rfl)
    | err k p => exact ⟨rfl, fun a ha => by cases ha⟩
    | panic => exact ⟨rfl, fun a ha => by cases ha⟩

theorem Post.mono {α} {m : M α} {w : World} {Q R : α → Prop} (h : Post m w Q)
    (hqr : ∀ a, Q a → R a) : Post m w R := ⟨h.1, fun a ha => hqr a (h.2 a ha)⟩

/-- the backend's `exists` never changes the world -/
def ExPure (fs : FS) : Prop := ∀ p w, (fs.exists_ p w).2 = w

theorem ExPure.post {fs : FS} (h : ExPure fs) (x : VPath) (hx : x.fs = fs) (w : World) :
    Post x.exists_ w (fun b => x.exists_ w = (.ok b, w)) := by
  refine ⟨by unfold VPath.exists_; rw [hx]; exact h _ _, fun b hb => ?_⟩
  have h2 : (x.exists_ w).2 = w := by unfold VPath.exists_; rw [hx]; exact h _ _
  exact Prod.ext hb h2

theorem exPure_default : ExPure (default : FS) := fun _ _ => rfl

/-- `m` fails at `w` with not-found (some label), leaving the world unchanged -/
def NF {α} (m : M α) (w : World) : Prop := ∃ lbl, m w = (.err .fileNotFound lbl, w)

theorem NF.bind {α β} {m : M α} {w : World} (h : NF m w) (f : α → M β) : NF (m >>= f) w := by
  obtain ⟨lbl, h⟩ := h
  exact ⟨lbl, by show M.bind m f w = _; unfold M.bind; rw [h]⟩

theorem NF.withPath {α} {m : M α} {w : World} (h : NF m w) (p : Str) :
    M.withPath p m w = (.err .fileNotFound (some p), w) := by
  obtain ⟨lbl, h⟩ := h
  unfold M.withPath; rw [h]; rfl

theorem NF.withPath' {α} {m : M α} {w : World} (h : NF m w) (p : Str) : NF (M.withPath p m) w :=
  ⟨_, h.withPath p⟩

theorem NF.failK {α} (w : World) : NF (M.failK .fileNotFound : M α) w := ⟨none, rfl⟩

/-- `m >>= f` where `m` succeeds purely -/
theorem bind_of_eq {α β} {m : M α} {f : α → M β} {w w' : World} {a : α} (h : m w = (.ok a, w')) :
    (m >>= f) w = f a w' := by
  show M.bind m f w = _; unfold M.bind; rw [h]

theorem mpure_bind {α β} (a : α) (f : α → M β) : ((Pure.pure a : M α) >>= f) = f a := rfl

theorem ret_ok_bind {α β} (a : α) (f : α → M β) : (M.ret (.ok a) >>= f) = f a := rfl

/-! ### the contracts -/

/-- the five operations that every stacking answers with not-found on an absent path -/
structure Miss (fs : FS) (w : World) (p : Str) : Prop where
  metadata : NF (fs.metadata p) w
  openFile : NF (fs.openFile p) w
  readDir : NF (fs.readDir p) w
  removeFile : NF (fs.removeFile p) w
  removeDir : NF (fs.removeDir p) w

/-- … and the operations that go to one backend (no overlay in between) -/
structure MissW (fs : FS) (w : World) (p : Str) : Prop extends Miss fs w p where
  appendFile : NF (fs.appendFile p) w
  setC : ∀ t, NF (fs.setCreationTime p t) w
  setM : ∀ t, NF (fs.setModificationTime p t) w
  setA : ∀ t, NF (fs.setAccessTime p t) w
  copyFile : ∀ d, Canon d → (fs.exists_ d w).1 = .ok false →
    ∃ k lbl, fs.copyFile p d w = (.err k lbl, w) ∧ (k = .notSupported ∨ k = .fileNotFound)
  moveFile : ∀ d, fs.moveFile p d w = (fail .notSupported, w)

/-- every leaf of the world is a memory leaf -/
def AllMem (w : World) : Prop := ∀ i l, w.leaf? i = some l → l.kind = .mem

/-! ### the classes -/

inductive MStackW : FS → Prop
  | leaf (i : Nat) : MStackW (leafFS i)
  | altroot {fs : FS} (id : Nat) (root : Str) : MStackW fs → Canon root →
      MStackW (Altroot.fs { fs := fs, fsId := id, path := root })

inductive MStack : FS → Prop
  | w {fs : FS} : MStackW fs → MStack fs
  | altroot {fs : FS} (id : Nat) (root : Str) : MStack fs → Canon root →
      MStack (Altroot.fs { fs := fs, fsId := id, path := root })
  | overlay (layers : List VPath) : (∀ l ∈ layers, MStack l.fs) → MStack (Overlay.fs layers)

/-! ### leaves -/

theorem leaf_exPure (i : Nat) : ExPure (leafFS i) := by
  intro p w
  simp only [leafFS, onLeaf]
  cases hl : w.leaf? i with
  | none => rfl
  | some l => cases hk : l.kind <;> simp [hk, World.setLeafFiles_self w i l hl]

theorem leaf_exists_false {i : Nat} {w : World} {p : Str} (hm : AllMem w)
    (h : ((leafFS i).exists_ p w).1 = .ok false) :
    ∃ l, w.leaf? i = some l ∧ l.kind = .mem ∧ l.files.find? p = none := by
  simp only [leafFS, onLeaf] at h
  cases hl : w.leaf? i with
  | none => rw [hl] at h; cases h
  | some l =>
    have hk := hm i l hl
    simp only [hl, hk, Res.ok.injEq] at h
    refine ⟨l, rfl, hk, ?_⟩
    unfold FMap.contains at h
    cases hf : l.files.find? p with
    | none => rfl
    | some e => rw [hf] at h; cases h

/-- the core: a memory leaf whose map has nothing at `p` -/
theorem leaf_missW_of {i : Nat} {w : World} {p : Str} {l : Leaf} (hl : w.leaf? i = some l)
    (hk : l.kind = .mem) (hf : l.files.find? p = none) : MissW (leafFS i) w p := by
  have hs := World.setLeafFiles_self w i l hl
  have mm := fun ts => mem_missing l.files p ts hf
  obtain ⟨h1, h2, h3, h4, h5, h6, _⟩ := mm .now
  refine { metadata := ⟨none, ?_⟩, openFile := ⟨none, ?_⟩, readDir := ⟨none, ?_⟩,
           removeFile := ⟨none, ?_⟩, removeDir := ⟨none, ?_⟩, appendFile := ⟨none, ?_⟩,
           setC := fun t => ⟨none, ?_⟩, setM := fun t => ⟨none, ?_⟩, setA := fun t => ⟨none, ?_⟩,
           copyFile := fun d _ _ => ⟨.notSupported, none, ?_, Or.inl rfl⟩, moveFile := fun d => ?_ }
  all_goals
    simp only [leafFS, onLeaf, hl, hk, h1, h2, h3, h4, h5, h6, (mm (.at _)).2.2.2.2.2.2.1,
      (mm (.at _)).2.2.2.2.2.2.2.1, (mm (.at _)).2.2.2.2.2.2.2.2, hs, fail, Res.map]

theorem leaf_missW {i : Nat} {w : World} {p : Str} (hm : AllMem w)
    (h : ((leafFS i).exists_ p w).1 = .ok false) : MissW (leafFS i) w p := by
  obtain ⟨l, hl, hk, hf⟩ := leaf_exists_false hm h
  exact leaf_missW_of hl hk hf

/-! ### AltrootFS -/

section altroot
variable {fs : FS} {id : Nat} {root : Str}

theorem altroot_path (hroot : Canon root) {p : Str} (hp : Canon p) :
    Altroot.path { fs := fs, fsId := id, path := root } p
      = .ok { fs := fs, fsId := id, path := root ++ p } :=
  Altroot.path_canon _ p hroot hp

theorem altroot_path_fs (r : VPath) (p : Str) (q : VPath) (h : Altroot.path r p = .ok q) :
    q.fs = r.fs := by
  unfold Altroot.path at h
  split at h
  · cases h; rfl
  · have : ∀ arg, r.join arg = .ok q → q.fs = r.fs := by
      intro arg ha
      unfold VPath.join at ha
      cases hj : joinInternal r.path arg <;> simp only [hj, Res.map] at ha <;> cases ha
      rfl
    split at h <;> exact this _ h

theorem altroot_exPure (r : VPath) (h : ExPure r.fs) : ExPure (Altroot.fs r) := by
  intro p w
  simp only [Altroot.fs]
  cases hq : Altroot.path r p with
  | ok q =>
    simp only
    unfold VPath.exists_; rw [altroot_path_fs r p q hq]; exact h _ _
  | err k l => rfl
  | panic => rfl

theorem canon_append {a b : Str} (ha : Canon a) (hb : Canon b) : Canon (a ++ b) := by
  obtain ⟨as, h1, rfl⟩ := ha
  obtain ⟨bs, h2, rfl⟩ := hb
  refine ⟨as ++ bs, ?_, by simp⟩
  intro c hc
  rcases List.mem_append.1 hc with h | h
  · exact h1 c h
  · exact h2 c h

theorem altroot_exists_eq (hroot : Canon root) {p : Str} (hp : Canon p) (w : World) :
    (Altroot.fs { fs := fs, fsId := id, path := root }).exists_ p w = fs.exists_ (root ++ p) w := by
  simp only [Altroot.fs, altroot_path hroot hp]; rfl

theorem altroot_miss (hroot : Canon root) {p : Str} (hp : Canon p) {w : World}
    (h : Miss fs w (root ++ p)) : Miss (Altroot.fs { fs := fs, fsId := id, path := root }) w p := by
  refine { metadata := ?_, openFile := ?_, readDir := ?_, removeFile := ?_, removeDir := ?_ }
  all_goals simp only [Altroot.fs, altroot_path hroot hp]
  all_goals rw [ret_ok_bind]
  · exact h.metadata.withPath' _
  · exact h.openFile.withPath' _
  · exact ((h.readDir.withPath' _).bind _).bind _
  · exact h.removeFile.withPath' _
  · exact h.removeDir.withPath' _

end altroot

/-! ### OverlayFS: an absent path makes `read_path` fail with not-found -/

section overlay
open Overlay
variable {layers : List VPath}

theorem join_fs (l : VPath) (arg : Str) (q : VPath) (h : l.join arg = .ok q) : q.fs = l.fs := by
  unfold VPath.join at h
  cases hj : joinInternal l.path arg <;> simp only [hj, Res.map] at h <;> cases h
  rfl

theorem writeLayer_exPure (h : ∀ l ∈ layers, ExPure l.fs) : ExPure (writeLayer layers).fs := by
  unfold writeLayer
  cases layers with
  | nil => exact exPure_default
  | cons a t => exact h a (by simp)

theorem whiteoutPath_fs (p : Str) (q : VPath) (h : whiteoutPath layers p = .ok q) :
    q.fs = (writeLayer layers).fs := by
  unfold whiteoutPath at h
  split at h <;> exact join_fs _ _ _ h

theorem writePath_fs (p : Str) (q : VPath) (h : writePath layers p = .ok q) :
    q.fs = (writeLayer layers).fs := by
  unfold writePath at h
  split at h
  · cases h; rfl
  · exact join_fs _ _ _ h

theorem firstExisting_post (p : Str) (w : World) : ∀ (ls : List VPath), (∀ l ∈ ls, ExPure l.fs) →
    Post (firstExisting p ls) w (fun o => ∀ lp, o = some lp → lp.exists_ w = (.ok true, w))
  | [], _ => Post.pure none w (by intro lp h; cases h)
  | l :: rest, h => by
    unfold firstExisting
    refine Post.bind (Q := fun lp => lp.fs = l.fs) (Post.ret _ w (fun a ha => join_fs _ _ _ ha)) ?_
    intro lp hlp
    refine Post.bind ((h l (by simp)).post lp hlp w) ?_
    intro b hb
    split
    · rename_i hbt
      subst hbt
      exact Post.pure _ w (by intro x hx; cases hx; exact hb)
    · exact firstExisting_post p w rest (fun x hx => h x (by simp [hx]))

theorem readPath_post (h : ∀ l ∈ layers, ExPure l.fs) {p : Str} (hp : p ≠ []) (w : World) :
    Post (readPath layers p) w (fun q => q.exists_ w = (.ok true, w)) := by
  unfold readPath
  rw [if_neg hp]
  refine Post.bind (Q := fun wo => wo.fs = (writeLayer layers).fs)
    (Post.ret _ w (fun a ha => whiteoutPath_fs _ _ ha)) ?_
  intro wo hwo
  refine Post.bind ((writeLayer_exPure h).post wo hwo w) ?_
  intro marked _
  split
  · exact Post.failK _ w
  · refine Post.bind (firstExisting_post p w layers h) ?_
    intro found hfound
    split
    · rename_i lp; exact Post.pure _ w (hfound lp rfl)
    · refine Post.bind (Q := fun rp => rp.fs = (writeLayer layers).fs)
        (Post.ret _ w (fun a ha => join_fs _ _ _ ha)) ?_
      intro rp hrp
      refine Post.bind ((writeLayer_exPure h).post rp hrp w) ?_
      intro ex hex
      split
      · exact Post.failK _ w
      · rename_i hne
        refine Post.pure _ w ?_
        cases ex
        · exact absurd rfl hne
        · exact hex

/-- `read_path` never changes the world, whatever the path -/
theorem readPath_pure (h : ∀ l ∈ layers, ExPure l.fs) (p : Str) (w : World) :
    (readPath layers p w).2 = w := by
  by_cases hp : p = []
  · unfold readPath; rw [if_pos hp]; rfl
  · exact (readPath_post h hp w).1

theorem overlay_exPure (h : ∀ l ∈ layers, ExPure l.fs) : ExPure (Overlay.fs layers) := by
  intro p w
  show (Overlay.exists_ layers p w).2 = w
  unfold Overlay.exists_
  show (M.bind _ _ w).2 = w
  unfold M.bind M.ret
  cases hwo : whiteoutPath layers p with
  | err k l => rfl
  | panic => rfl
  | ok wo =>
    simp only
    show (M.bind _ _ w).2 = w
    unfold M.bind
    have h1 := ((writeLayer_exPure h).post wo (whiteoutPath_fs _ _ hwo) w).1
    cases hex : wo.exists_ w with
    | mk r w1 =>
      rw [hex] at h1; simp only at h1; subst h1
      cases r with
      | err k l => rfl
      | panic => rfl
      | ok marked =>
        simp only
        split
        · rfl
        · have h2 := readPath_pure h p w1
          dsimp only
          cases hr : readPath layers p w1 with
          | mk r2 w2 =>
            rw [hr] at h2; simp only at h2; subst h2
            cases r2 with
            | ok q =>
              simp only
              by_cases hp : p = []
              · unfold readPath at hr; rw [if_pos hp] at hr; cases hr
                exact (writeLayer_exPure h) _ _
              · have := (readPath_post h hp w2).2 q (by rw [hr])
                rw [this]
            | err k l => cases k <;> rfl
            | panic => rfl

/-- **the key fact**: if the overlay's own `exists` says `false` for a non-root path, its
`read_path` fails with not-found (marker, or no layer has the path) -/
theorem overlay_readPath_nf (h : ∀ l ∈ layers, ExPure l.fs) {p : Str} (hp : p ≠ []) {w : World}
    (hex : ((Overlay.fs layers).exists_ p w).1 = .ok false) : NF (readPath layers p) w := by
  have hpost := readPath_post h hp w
  change (Overlay.exists_ layers p w).1 = .ok false at hex
  unfold Overlay.exists_ at hex
  change (M.bind _ _ w).1 = _ at hex
  unfold M.bind M.ret at hex
  cases hwo : whiteoutPath layers p with
  | err k l => rw [hwo] at hex; cases hex
  | panic => rw [hwo] at hex; cases hex
  | ok wo =>
    rw [hwo] at hex
    simp only at hex
    change (M.bind _ _ w).1 = _ at hex
    unfold M.bind at hex
    have h1 := ((writeLayer_exPure h).post wo (whiteoutPath_fs _ _ hwo) w).1
    cases hwe : wo.exists_ w with
    | mk r w1 =>
      rw [hwe] at h1 hex; simp only at h1 hex; subst h1
      cases r with
      | err k l => cases hex
      | panic => cases hex
      | ok marked =>
        simp only at hex
        cases marked with
        | true =>
          refine ⟨none, ?_⟩
          unfold readPath
          rw [if_neg hp]
          rw [hwo, ret_ok_bind, bind_of_eq hwe]
          rfl
        | false =>
          simp only [Bool.false_eq_true, if_false] at hex
          cases hr : readPath layers p w1 with
          | mk r2 w2 =>
            have h2 := hpost.1
            rw [hr] at h2 hex; simp only at h2 hex; subst h2
            cases r2 with
            | ok q =>
              have := hpost.2 q (by rw [hr])
              simp only at this hex
              rw [this] at hex; cases hex
            | err k l =>
              cases k <;> first | exact ⟨l, hr⟩ | cases hex
            | panic => cases hex

theorem overlay_miss (h : ∀ l ∈ layers, ExPure l.fs) {p : Str} (hp : p ≠ []) {w : World}
    (hex : ((Overlay.fs layers).exists_ p w).1 = .ok false) : Miss (Overlay.fs layers) w p := by
  have hnf := overlay_readPath_nf h hp hex
  exact { metadata := hnf.bind _, openFile := hnf.bind _, readDir := hnf.bind _,
          removeFile := hnf.bind _, removeDir := hnf.bind _ }

end overlay

/-! ### every stacking -/

theorem stackW_exPure {fs : FS} (h : MStackW fs) : ExPure fs := by
  induction h with
  | leaf i => exact leaf_exPure i
  | altroot id root _ _ ih => exact altroot_exPure _ ih

theorem stack_exPure {fs : FS} (h : MStack fs) : ExPure fs := by
  induction h with
  | w hw => exact stackW_exPure hw
  | altroot id root _ _ ih => exact altroot_exPure _ ih
  | overlay layers _ ih => exact overlay_exPure ih

theorem canon_append_ne {a b : Str} (hb : b ≠ []) : a ++ b ≠ [] := by
  intro h; exact hb (List.append_eq_nil_iff.1 h).2

/-- **every stacking over memory leaves: the five operations on an absent path** -/
theorem stack_miss {fs : FS} (hs : MStack fs) {w : World} (hm : AllMem w) :
    ∀ {p : Str}, Canon p → p ≠ [] → (fs.exists_ p w).1 = .ok false → Miss fs w p := by
  induction hs with
  | w hw =>
    induction hw with
    | leaf i => intro p _ _ h; exact (leaf_missW hm h).toMiss
    | altroot id root _ hroot ih =>
      intro p hp hne h
      rw [altroot_exists_eq hroot hp] at h
      exact altroot_miss hroot hp (ih (canon_append hroot hp) (canon_append_ne hne) h)
  | altroot id root _ hroot ih =>
    intro p hp hne h
    rw [altroot_exists_eq hroot hp] at h
    exact altroot_miss hroot hp (ih (canon_append hroot hp) (canon_append_ne hne) h)
  | overlay layers hl _ =>
    intro p _ hne h
    exact overlay_miss (fun l hl' => stack_exPure (hl l hl')) hne h

/-! ### through the `VfsPath` layer -/

theorem bind_of_err {α β} {m : M α} {f : α → M β} {w w' : World} {k : ErrKind} {l : Option Str}
    (h : m w = (.err k l, w')) : (m >>= f) w = (.err k l, w') := by
  show M.bind m f w = _; unfold M.bind; rw [h]

/-- **missing_is_not_found** (the five operations, every stacking). For every `MStack fs`, every
world of memory leaves, every canonical non-root `p` which `fs`'s own `exists` reports absent:
the `VfsPath` operations answer `FileNotFound`, labelled with `p`, and change nothing. -/
theorem missing_is_not_found {fs : FS} (hs : MStack fs) {w : World} (hm : AllMem w) (id : Nat)
    {p : Str} (hc : Canon p) (hne : p ≠ []) (hex : (fs.exists_ p w).1 = .ok false) :
    let vp : VPath := { fs := fs, fsId := id, path := p }
    vp.exists_ w = (.ok false, w) ∧
    vp.metadata w = (.err .fileNotFound (some p), w) ∧
    vp.openFile w = (.err .fileNotFound (some p), w) ∧
    vp.readDir w = (.err .fileNotFound (some p), w) ∧
    vp.walkDir w = (.err .fileNotFound (some p), w) ∧
    vp.removeFile w = (.err .fileNotFound (some p), w) ∧
    vp.removeDir w = (.err .fileNotFound (some p), w) ∧
    vp.readToEndChecked w = (.err .fileNotFound (some p), w) := by
  have h := stack_miss hs hm hc hne hex
  have hrd : VPath.readDir { fs := fs, fsId := id, path := p } w
      = (.err .fileNotFound (some p), w) := by
    unfold VPath.readDir; exact bind_of_err (h.readDir.withPath p)
  refine ⟨Prod.ext hex (stack_exPure hs p w), h.metadata.withPath p, h.openFile.withPath p, hrd,
    ?_, h.removeFile.withPath p, h.removeDir.withPath p, ?_⟩
  · unfold VPath.walkDir; exact bind_of_err hrd
  · unfold VPath.readToEndChecked; exact bind_of_err (h.metadata.withPath p)

/-- the same for an overlay over ANY layers whose `exists` does not change the world (memory,
physical, embedded leaves, altroots over them, overlays of such): no hypothesis on the kinds of
the leaves, no invariant -/
theorem overlay_missing_is_not_found {layers : List VPath} (h : ∀ l ∈ layers, ExPure l.fs)
    {w : World} (id : Nat) {p : Str} (hne : p ≠ [])
    (hex : ((Overlay.fs layers).exists_ p w).1 = .ok false) :
    let vp : VPath := { fs := Overlay.fs layers, fsId := id, path := p }
    vp.metadata w = (.err .fileNotFound (some p), w) ∧
    vp.openFile w = (.err .fileNotFound (some p), w) ∧
    vp.readDir w = (.err .fileNotFound (some p), w) ∧
    vp.removeFile w = (.err .fileNotFound (some p), w) ∧
    vp.removeDir w = (.err .fileNotFound (some p), w) := by
  have hm := overlay_miss h hne hex
  refine ⟨hm.metadata.withPath p, hm.openFile.withPath p, ?_, hm.removeFile.withPath p,
    hm.removeDir.withPath p⟩
  unfold VPath.readDir; exact bind_of_err (hm.readDir.withPath p)

theorem embedded_exPure (st : Embedded.State) : ExPure (Embedded.fs st) := fun _ _ => rfl

/-! ### `copy_file` / `move_file` FROM an absent path -/

theorem vpath_copyFile_missing (src dst : VPath) (w : World)
    (hdst : dst.exists_ w = (.ok false, w))
    (hfast : src.fsId = dst.fsId → ∃ k lbl, src.fs.copyFile src.path dst.path w = (.err k lbl, w) ∧
      (k = .notSupported ∨ k = .fileNotFound))
    (hopen : NF (src.fs.openFile src.path) w) :
    src.copyFile dst w = (.err .fileNotFound (some src.path), w) := by
  unfold VPath.copyFile
  refine NF.withPath ?_ _
  unfold NF
  rw [bind_of_eq hdst]
  simp only [Bool.false_eq_true, if_false]
  by_cases hid : src.fsId = dst.fsId
  · obtain ⟨k, lbl, hk, hor⟩ := hfast hid
    have hat : M.attempt (src.fs.copyFile src.path dst.path) w = (.ok (.err k lbl), w) := by
      unfold M.attempt; rw [hk]
    rw [if_pos hid, bind_of_eq hat]
    rcases hor with rfl | rfl
    · simp only [ne_eq, not_true_eq_false, if_false]
      exact (hopen.withPath' _).bind _
    · exact ⟨lbl, by simp [M.ret]⟩
  · rw [if_neg hid, mpure_bind]
    simp only [fail, ne_eq, not_true_eq_false, if_false]
    exact (hopen.withPath' _).bind _

theorem vpath_moveFile_missing (src dst : VPath) (w : World)
    (hdst : dst.exists_ w = (.ok false, w))
    (hfast : src.fsId = dst.fsId → src.fs.moveFile src.path dst.path w = (fail .notSupported, w))
    (hopen : NF (src.fs.openFile src.path) w) :
    src.moveFile dst w = (.err .fileNotFound (some src.path), w) := by
  unfold VPath.moveFile
  refine NF.withPath ?_ _
  unfold NF
  rw [bind_of_eq hdst]
  simp only [Bool.false_eq_true, if_false]
  by_cases hid : src.fsId = dst.fsId
  · have hat : M.attempt (src.fs.moveFile src.path dst.path) w
        = (.ok (fail .notSupported), w) := by
      unfold M.attempt; rw [hfast hid]
    rw [if_pos hid, bind_of_eq hat]
    simp only [fail, ne_eq, not_true_eq_false, if_false]
    exact (hopen.withPath' _).bind _
  · rw [if_neg hid, mpure_bind]
    simp only [fail, ne_eq, not_true_eq_false, if_false]
    exact (hopen.withPath' _).bind _

/-! ### `MStackW`: all single-backend operations -/

theorem altroot_missW {fs : FS} {id : Nat} {root : Str} (hroot : Canon root) (hpure : ExPure fs)
    {p : Str} (hp : Canon p) {w : World} (h : MissW fs w (root ++ p)) :
    MissW (Altroot.fs { fs := fs, fsId := id, path := root }) w p := by
  refine { toMiss := altroot_miss hroot hp h.toMiss, appendFile := ?_, setC := fun t => ?_,
           setM := fun t => ?_, setA := fun t => ?_, copyFile := fun d hd hdex => ?_,
           moveFile := fun d => rfl }
  · simp only [Altroot.fs, altroot_path hroot hp]; rw [ret_ok_bind]; exact h.appendFile.withPath' _
  · simp only [Altroot.fs, altroot_path hroot hp]; rw [ret_ok_bind]; exact (h.setC t).withPath' _
  · simp only [Altroot.fs, altroot_path hroot hp]; rw [ret_ok_bind]; exact (h.setM t).withPath' _
  · simp only [Altroot.fs, altroot_path hroot hp]; rw [ret_ok_bind]; exact (h.setA t).withPath' _
  · by_cases hd0 : d = []
    · exact ⟨.notSupported, none, by simp only [Altroot.fs, if_pos hd0]; rfl, Or.inl rfl⟩
    · rw [altroot_exists_eq hroot hd] at hdex
      refine ⟨.fileNotFound, some (root ++ p), ?_, Or.inr rfl⟩
      simp only [Altroot.fs, if_neg hd0, altroot_path hroot hp, altroot_path hroot hd]
      rw [ret_ok_bind, ret_ok_bind]
      exact vpath_copyFile_missing _ _ w (Prod.ext hdex (hpure _ _))
        (fun _ => h.copyFile (root ++ d) (canon_append hroot hd) hdex) h.openFile

theorem stackW_missW {fs : FS} (hs : MStackW fs) {w : World} (hm : AllMem w) :
    ∀ {p : Str}, Canon p → (fs.exists_ p w).1 = .ok false → MissW fs w p := by
  induction hs with
  | leaf i => intro p _ h; exact leaf_missW hm h
  | altroot id root hw hroot ih =>
    intro p hp h
    rw [altroot_exists_eq hroot hp] at h
    exact altroot_missW hroot (stackW_exPure hw) hp (ih (canon_append hroot hp) h)

/-- **missing_is_not_found, single-backend stackings** (leaf, altroots over a leaf): additionally
`append_file`, the three setters, and `copy_file` / `move_file` FROM `p` to a canonical absent
destination `d` — on the same filesystem (`dst` with the same identity) or on ANY filesystem with
another identity whose `exists` answers `false` without changing the world. -/
theorem missing_is_not_found_W {fs : FS} (hs : MStackW fs) {w : World} (hm : AllMem w) (id : Nat)
    {p : Str} (hc : Canon p) (hex : (fs.exists_ p w).1 = .ok false) (t : Int) :
    let vp : VPath := { fs := fs, fsId := id, path := p }
    vp.appendFile w = (.err .fileNotFound (some p), w) ∧
    vp.setCreationTime t w = (.err .fileNotFound (some p), w) ∧
    vp.setModificationTime t w = (.err .fileNotFound (some p), w) ∧
    vp.setAccessTime t w = (.err .fileNotFound (some p), w) ∧
    (∀ d, Canon d → (fs.exists_ d w).1 = .ok false →
      vp.copyFile { fs := fs, fsId := id, path := d } w = (.err .fileNotFound (some p), w) ∧
      vp.moveFile { fs := fs, fsId := id, path := d } w = (.err .fileNotFound (some p), w)) ∧
    (∀ dst : VPath, dst.fsId ≠ id → dst.exists_ w = (.ok false, w) →
      vp.copyFile dst w = (.err .fileNotFound (some p), w) ∧
      vp.moveFile dst w = (.err .fileNotFound (some p), w)) := by
  have h := stackW_missW hs hm hc hex
  refine ⟨h.appendFile.withPath p, (h.setC t).withPath p, (h.setM t).withPath p,
    (h.setA t).withPath p, fun d hd hdex => ?_, fun dst hne hdst => ?_⟩
  · have hde : VPath.exists_ { fs := fs, fsId := id, path := d } w = (.ok false, w) :=
      Prod.ext hdex (stackW_exPure hs d w)
    exact ⟨vpath_copyFile_missing _ _ w hde (fun _ => h.copyFile d hd hdex) h.openFile,
      vpath_moveFile_missing _ _ w hde (fun _ => h.moveFile d) h.openFile⟩
  · exact ⟨vpath_copyFile_missing _ _ w hdst (fun he => absurd he.symm hne) h.openFile,
      vpath_moveFile_missing _ _ w hdst (fun he => absurd he.symm hne) h.openFile⟩

/-- `copy_file` / `move_file` FROM an absent path of ANY stacking (overlays included): the overlay
does not override the fast paths, the generic route fails in `open_file` -/
theorem missing_copy_move {fs : FS} (hs : MStack fs) {w : World} (hm : AllMem w) (id : Nat)
    {p : Str} (hc : Canon p) (hne : p ≠ []) (hex : (fs.exists_ p w).1 = .ok false)
    (dst : VPath) (hdst : dst.exists_ w = (.ok false, w)) (hid : dst.fsId ≠ id) :
    VPath.copyFile { fs := fs, fsId := id, path := p } dst w = (.err .fileNotFound (some p), w) ∧
    VPath.moveFile { fs := fs, fsId := id, path := p } dst w = (.err .fileNotFound (some p), w) := by
  have h := stack_miss hs hm hc hne hex
  exact ⟨vpath_copyFile_missing _ _ w hdst (fun he => absurd he.symm hid) h.openFile,
    vpath_moveFile_missing _ _ w hdst (fun he => absurd he.symm hid) h.openFile⟩

/-- the same within ONE overlay (same identity): the overlay's fast paths are the trait defaults -/
theorem overlay_missing_copy_move {layers : List VPath} (hl : ∀ l ∈ layers, MStack l.fs)
    {w : World} (hm : AllMem w) (id : Nat) {p d : Str} (hc : Canon p) (hne : p ≠ [])
    (hex : ((Overlay.fs layers).exists_ p w).1 = .ok false)
    (hdex : ((Overlay.fs layers).exists_ d w).1 = .ok false) :
    VPath.copyFile { fs := Overlay.fs layers, fsId := id, path := p }
      { fs := Overlay.fs layers, fsId := id, path := d } w = (.err .fileNotFound (some p), w) ∧
    VPath.moveFile { fs := Overlay.fs layers, fsId := id, path := p }
      { fs := Overlay.fs layers, fsId := id, path := d } w = (.err .fileNotFound (some p), w) := by
  have hs : MStack (Overlay.fs layers) := .overlay layers hl
  have h := stack_miss hs hm hc hne hex
  have hde : VPath.exists_ { fs := Overlay.fs layers, fsId := id, path := d } w = (.ok false, w) :=
    Prod.ext hdex (stack_exPure hs d w)
  exact ⟨vpath_copyFile_missing _ _ w hde (fun _ => ⟨.notSupported, none, rfl, Or.inl rfl⟩) h.openFile,
    vpath_moveFile_missing _ _ w hde (fun _ => rfl) h.openFile⟩

/-! ### the time setters through an overlay -/

section overlaySetters
open Overlay
variable {layers : List VPath}

theorem canon_head {p : Str} (hp : Canon p) (hne : p ≠ []) : p.head? = some '/' := by
  obtain ⟨cs, _, rfl⟩ := hp
  cases cs with
  | nil => exact absurd rfl hne
  | cons c cs => simp

theorem writePath_canon (hwc : Canon (writeLayer layers).path) {p : Str} (hp : Canon p)
    (hne : p ≠ []) :
    writePath layers p = .ok ((writeLayer layers).withStr ((writeLayer layers).path ++ p)) := by
  have := Altroot.path_canon (writeLayer layers) p hwc hp
  unfold Altroot.path at this
  rw [if_neg hne, if_pos (canon_head hp hne)] at this
  unfold writePath tail1
  rw [if_neg hne]; exact this

/-- the three setters go to the write layer only (overlay.rs: `self.write_path(path)?.set_…`):
when the write layer answers not-found at `p` they answer not-found — whether or not a lower
layer has `p` -/
theorem overlay_setters_missing_of (hwc : Canon (writeLayer layers).path) {w : World} {p : Str}
    (hp : Canon p) (hne : p ≠ [])
    (h : MissW (writeLayer layers).fs w ((writeLayer layers).path ++ p)) (id : Nat) (t : Int) :
    let vp : VPath := { fs := Overlay.fs layers, fsId := id, path := p }
    vp.setCreationTime t w = (.err .fileNotFound (some p), w) ∧
    vp.setModificationTime t w = (.err .fileNotFound (some p), w) ∧
    vp.setAccessTime t w = (.err .fileNotFound (some p), w) := by
  have hwp := writePath_canon hwc hp hne
  refine ⟨NF.withPath ?_ _, NF.withPath ?_ _, NF.withPath ?_ _⟩
  · show NF (do let wp ← M.ret (writePath layers p); wp.setCreationTime t) w
    rw [hwp, ret_ok_bind]; exact (h.setC t).withPath' _
  · show NF (do let wp ← M.ret (writePath layers p); wp.setModificationTime t) w
    rw [hwp, ret_ok_bind]; exact (h.setM t).withPath' _
  · show NF (do let wp ← M.ret (writePath layers p); wp.setAccessTime t) w
    rw [hwp, ret_ok_bind]; exact (h.setA t).withPath' _

/-- … in particular when the write layer is an `MStackW` over memory leaves that has nothing at
`p` (under `OInv` this follows from absence in the view, clause `ghost`) -/
theorem overlay_setters_missing (hw : MStackW (writeLayer layers).fs)
    (hwc : Canon (writeLayer layers).path) {w : World} (hm : AllMem w) {p : Str} (hp : Canon p)
    (hne : p ≠ [])
    (hup : ((writeLayer layers).fs.exists_ ((writeLayer layers).path ++ p) w).1 = .ok false)
    (id : Nat) (t : Int) :
    let vp : VPath := { fs := Overlay.fs layers, fsId := id, path := p }
    vp.setCreationTime t w = (.err .fileNotFound (some p), w) ∧
    vp.setModificationTime t w = (.err .fileNotFound (some p), w) ∧
    vp.setAccessTime t w = (.err .fileNotFound (some p), w) :=
  overlay_setters_missing_of hwc hp hne (stackW_missW hw hm (canon_append hwc hp) hup) id t

end overlaySetters

/-! ### `create_dir` on an occupied path (single-backend stackings) -/

def MetaPure (fs : FS) : Prop := ∀ p w, (fs.metadata p w).2 = w

theorem leaf_metaPure (i : Nat) : MetaPure (leafFS i) := by
  intro p w
  simp only [leafFS, onLeaf]
  cases hl : w.leaf? i with
  | none => rfl
  | some l => cases hk : l.kind <;> simp [hk, World.setLeafFiles_self w i l hl]

theorem altroot_metaPure (r : VPath) (h : MetaPure r.fs) : MetaPure (Altroot.fs r) := by
  intro p w
  simp only [Altroot.fs]
  cases hq : Altroot.path r p with
  | ok q =>
    rw [ret_ok_bind]
    show (M.withPath _ _ w).2 = w
    rw [withPath_world, altroot_path_fs r p q hq]; exact h _ _
  | err k l => rfl
  | panic => rfl

theorem stackW_metaPure {fs : FS} (h : MStackW fs) : MetaPure fs := by
  induction h with
  | leaf i => exact leaf_metaPure i
  | altroot id root _ _ ih => exact altroot_metaPure _ ih

theorem parent_append {root p : Str} (hroot : Canon root) (hp : Canon p) (hne : p ≠ []) :
    parentInternal (root ++ p) = root ++ parentInternal p ∧ Canon (parentInternal p) := by
  obtain ⟨rs, hrs, rfl⟩ := hroot
  obtain ⟨ps, hps, rfl⟩ := hp
  have hps0 : ps ≠ [] := by rintro rfl; exact hne rfl
  have hall : ∀ c ∈ rs ++ ps, '/' ∉ c := by
    intro c hc
    rcases List.mem_append.1 hc with h | h
    · exact (hrs c h).2.1
    · exact (hps c h).2.1
  rw [← renderC_append, parentInternal_renderC _ hall,
    parentInternal_renderC _ (fun c hc => (hps c hc).2.1), List.dropLast_append_of_ne_nil hps0,
    renderC_append]
  exact ⟨rfl, ps.dropLast, fun c hc => hps c ((List.dropLast_sublist ps).subset hc), rfl⟩

theorem withPath_ok {α} {m : M α} {w w' : World} {a : α} (p : Str)
    (h : M.withPath p m w = (.ok a, w')) : m w = (.ok a, w') := by
  unfold M.withPath at h
  cases hm : m w with
  | mk r w1 =>
    rw [hm] at h
    cases r with
    | ok b => simp only [Res.withPath, Prod.mk.injEq] at h; rw [h.1, h.2]
    | err k l => simp only [Res.withPath, Prod.mk.injEq] at h; cases h.1
    | panic => simp only [Res.withPath, Prod.mk.injEq] at h; cases h.1

theorem withPath_of_ok {α} {m : M α} {w w' : World} {a : α} (p : Str)
    (h : m w = (.ok a, w')) : M.withPath p m w = (.ok a, w') := by
  unfold M.withPath; rw [h]; rfl

/-- the trait-level statement carried through the altroots: with the parent an existing
directory and `p` occupied, `create_dir` fails with the kind of the occupant and changes nothing -/
theorem stackW_occ {fs : FS} (hs : MStackW fs) {w : World} (hm : AllMem w) :
    ∀ {p : Str}, Canon p → p ≠ [] → ∀ (md pmd : Meta),
      fs.exists_ (parentInternal p) w = (.ok true, w) →
      fs.metadata (parentInternal p) w = (.ok pmd, w) → pmd.ftype = .dir →
      fs.metadata p w = (.ok md, w) →
      ∃ lbl, fs.createDir p w
        = (.err (if md.ftype = .file then .fileExists else .dirExists) lbl, w) := by
  induction hs with
  | leaf i =>
    intro p hp hne md pmd hpe hpm hpd hmd
    simp only [leafFS, onLeaf] at hpm hmd ⊢
    cases hl : w.leaf? i with
    | none => rw [hl] at hmd; cases hmd
    | some l =>
      have hk := hm i l hl
      have hs := World.setLeafFiles_self w i l hl
      simp only [hl, hk, hs] at hpm hmd ⊢
      simp only [Prod.mk.injEq, and_true] at hpm hmd
      have hslash : '/' ∈ p := by
        have := canon_head hp hne
        cases p with
        | nil => cases this
        | cons c cs => simp at this; subst this; simp
      unfold Mem.metadata at hpm hmd
      cases hfp : l.files.find? (parentInternal p) with
      | none => rw [hfp] at hpm; cases hpm
      | some pe =>
        rw [hfp] at hpm
        cases hf : l.files.find? p with
        | none => rw [hf] at hmd; cases hmd
        | some e =>
          rw [hf] at hmd
          have hpar : Mem.ensureHasParent l.files p = .ok () := by
            unfold Mem.ensureHasParent
            rw [if_pos hslash, hfp]
            have : pe.ftype = .dir := by cases hpm; exact hpd
            simp [this]
          have hty : md.ftype = e.ftype := by cases hmd; rfl
          refine ⟨none, ?_⟩
          rw [mem_createDir_occupied l.files p e hpar hf]
          simp only [hs, hty, fail]
  | @altroot fs0 id root hw hroot ih =>
    intro p hp hne md pmd hpe hpm hpd hmd
    obtain ⟨hpa, hpc⟩ := parent_append hroot hp hne
    rw [altroot_exists_eq hroot hpc] at hpe
    simp only [Altroot.fs, altroot_path hroot hp, altroot_path hroot hpc] at hpm hmd ⊢
    rw [ret_ok_bind] at hpm hmd ⊢
    have hpm' := withPath_ok _ hpm
    have hmd' := withPath_ok _ hmd
    obtain ⟨lbl, hcd⟩ := ih (canon_append hroot hp) (canon_append_ne hne) md pmd
      (by rw [hpa]; exact hpe) (by rw [hpa]; exact hpm') hpd hmd'
    refine ⟨some (root ++ p), ?_⟩
    unfold VPath.createDir VPath.getParent
    have hex : VPath.exists_ (VPath.parent { fs := fs0, fsId := id, path := root ++ p }) w
        = (.ok true, w) := by
      show VPath.exists_ { fs := fs0, fsId := id, path := parentInternal (root ++ p) } w = _
      rw [hpa]; exact hpe
    have hmeta : VPath.metadata (VPath.parent { fs := fs0, fsId := id, path := root ++ p }) w
        = (.ok pmd, w) := by
      show VPath.metadata { fs := fs0, fsId := id, path := parentInternal (root ++ p) } w = _
      rw [hpa]; exact withPath_of_ok _ hpm'
    have hgp : (do
        if !(← VPath.exists_ (VPath.parent { fs := fs0, fsId := id, path := root ++ p }))
          then M.failAt .other (root ++ p)
        else
          let md ← VPath.metadata (VPath.parent { fs := fs0, fsId := id, path := root ++ p })
          if md.ftype ≠ .dir then M.failAt .other (root ++ p) else pure () : M Unit) w
          = (.ok (), w) := by
      rw [bind_of_eq hex]
      simp only [Bool.not_true, Bool.false_eq_true, if_false]
      rw [bind_of_eq hmeta]
      simp [hpd]; rfl
    rw [bind_of_eq hgp]
    unfold M.withPath; rw [hcd]; rfl

/-- **occupied_create_dir** (leaf, altroots over a leaf; memory leaves): `create_dir` through the
`VfsPath` layer on a canonical non-root path whose parent exists and is a directory, and which
itself is present with metadata `md`: `DirectoryExists` for a directory, `FileExists` for a
file, labelled `p`, nothing changed. -/
theorem occupied_create_dir {fs : FS} (hs : MStackW fs) {w : World} (hm : AllMem w) (id : Nat)
    {p : Str} (hc : Canon p) (hne : p ≠ []) (md pmd : Meta)
    (hpe : (fs.exists_ (parentInternal p) w).1 = .ok true)
    (hpm : (fs.metadata (parentInternal p) w).1 = .ok pmd) (hpd : pmd.ftype = .dir)
    (hmd : (fs.metadata p w).1 = .ok md) :
    VPath.createDir { fs := fs, fsId := id, path := p } w
      = (.err (if md.ftype = .file then .fileExists else .dirExists) (some p), w) := by
  have hpe' : fs.exists_ (parentInternal p) w = (.ok true, w) := Prod.ext hpe (stackW_exPure hs _ _)
  have hpm' : fs.metadata (parentInternal p) w = (.ok pmd, w) :=
    Prod.ext hpm (stackW_metaPure hs _ _)
  have hmd' : fs.metadata p w = (.ok md, w) := Prod.ext hmd (stackW_metaPure hs _ _)
  obtain ⟨lbl, hcd⟩ := stackW_occ hs hm hc hne md pmd hpe' hpm' hpd hmd'
  unfold VPath.createDir VPath.getParent
  have hgp : (do
      if !(← VPath.exists_ (VPath.parent { fs := fs, fsId := id, path := p }))
        then M.failAt .other p
      else
        let md ← VPath.metadata (VPath.parent { fs := fs, fsId := id, path := p })
        if md.ftype ≠ .dir then M.failAt .other p else pure () : M Unit) w
        = (.ok (), w) := by
    have hex : VPath.exists_ (VPath.parent { fs := fs, fsId := id, path := p }) w
        = (.ok true, w) := hpe'
    have hmeta : VPath.metadata (VPath.parent { fs := fs, fsId := id, path := p }) w
        = (.ok pmd, w) := withPath_of_ok _ hpm'
    rw [bind_of_eq hex]
    simp only [Bool.not_true, Bool.false_eq_true, if_false]
    rw [bind_of_eq hmeta]
    simp [hpd]; rfl
  rw [bind_of_eq hgp]
  unfold M.withPath; rw [hcd]; rfl

/-! ### unimplemented optional operations: NotSupported, also THROUGH the adapters -/

/-- `m` fails at `w` with not-supported (some label), leaving the world unchanged -/
def NS {α} (m : M α) (w : World) : Prop := ∃ lbl, m w = (.err .notSupported lbl, w)

theorem NS.withPath {α} {m : M α} {w : World} (h : NS m w) (p : Str) :
    M.withPath p m w = (.err .notSupported (some p), w) := by
  obtain ⟨lbl, h⟩ := h
  unfold M.withPath; rw [h]; rfl

theorem NS.withPath' {α} {m : M α} {w : World} (h : NS m w) (p : Str) : NS (M.withPath p m) w :=
  ⟨_, h.withPath p⟩

/-- the three time setters, indexed -/
inductive SetK where
  | c | m | a

def setter : SetK → FS → Str → Int → M Unit
  | .c, fs => fs.setCreationTime
  | .m, fs => fs.setModificationTime
  | .a, fs => fs.setAccessTime

theorem altroot_setter (j : SetK) {fs : FS} {id : Nat} {root : Str} (hroot : Canon root) {p : Str}
    (hp : Canon p) (t : Int) :
    setter j (Altroot.fs { fs := fs, fsId := id, path := root }) p t
      = M.withPath (root ++ p) (setter j fs (root ++ p) t) := by
  cases j <;> (simp only [setter, Altroot.fs, altroot_path hroot hp]; rw [ret_ok_bind]; rfl)

theorem overlay_setter (j : SetK) {layers : List VPath} (hwc : Canon (Overlay.writeLayer layers).path)
    {p : Str} (hp : Canon p) (t : Int) :
    setter j (Overlay.fs layers) p t
      = M.withPath ((Overlay.writeLayer layers).path ++ p)
          (setter j (Overlay.writeLayer layers).fs ((Overlay.writeLayer layers).path ++ p) t) := by
  have hwp : Overlay.writePath layers p = .ok ((Overlay.writeLayer layers).withStr
      ((Overlay.writeLayer layers).path ++ p)) := by
    by_cases hne : p = []
    · subst hne; unfold Overlay.writePath; rw [if_pos rfl, List.append_nil]; rfl
    · exact writePath_canon hwc hp hne
  cases j
  · show (do let wp ← M.ret (Overlay.writePath layers p); wp.setCreationTime t) = _
    rw [hwp, ret_ok_bind]; rfl
  · show (do let wp ← M.ret (Overlay.writePath layers p); wp.setModificationTime t) = _
    rw [hwp, ret_ok_bind]; rfl
  · show (do let wp ← M.ret (Overlay.writePath layers p); wp.setAccessTime t) = _
    rw [hwp, ret_ok_bind]; rfl

/-- stackings over a base class `B` of backends in which the WRITE layer of every overlay is
again such a stacking (the lower layers of the overlays are arbitrary `VfsPath`s) -/
inductive UStack (B : FS → Prop) : FS → Prop
  | base {fs : FS} : B fs → UStack B fs
  | altroot {fs : FS} (id : Nat) (root : Str) : UStack B fs → Canon root →
      UStack B (Altroot.fs { fs := fs, fsId := id, path := root })
  | overlay (layers : List VPath) : UStack B (Overlay.writeLayer layers).fs →
      Canon (Overlay.writeLayer layers).path → UStack B (Overlay.fs layers)

/-- a setter that the base backends do not implement is NotSupported through every stacking -/
theorem ustack_setter_ns {B : FS → Prop} (j : SetK) (w : World)
    (hB : ∀ fs, B fs → ∀ p t, NS (setter j fs p t) w) {fs : FS} (hs : UStack B fs) :
    ∀ {p : Str}, Canon p → ∀ t, NS (setter j fs p t) w := by
  induction hs with
  | base hb => intro p _ t; exact hB _ hb p t
  | altroot id root _ hroot ih =>
    intro p hp t
    rw [altroot_setter j hroot hp]
    exact (ih (canon_append hroot hp) t).withPath' _
  | overlay layers _ hwc ih =>
    intro p hp t
    rw [overlay_setter j hwc hp]
    exact (ih (canon_append hwc hp) t).withPath' _

/-- physical leaf `i` of the world `w` -/
def PhysLeaf (w : World) (fs : FS) : Prop := ∃ i l, fs = leafFS i ∧ w.leaf? i = some l ∧ l.kind = .phys

def IsEmbedded (fs : FS) : Prop := ∃ st, fs = Embedded.fs st

/-- **unsupported_is_not_supported (1)**: `set_creation_time` on a physical leaf, through any
number of altroots, and through overlays whose write layer is such a stacking: `NotSupported`,
labelled with the caller's path, nothing changed (physical.rs does not override
`set_creation_time`; filesystem.rs default = `Err(VfsErrorKind::NotSupported.into())`) -/
theorem unsupported_set_creation_time {w : World} {fs : FS} (hs : UStack (PhysLeaf w) fs)
    (id : Nat) {p : Str} (hp : Canon p) (t : Int) :
    VPath.setCreationTime { fs := fs, fsId := id, path := p } t w
      = (.err .notSupported (some p), w) := by
  refine (ustack_setter_ns .c w ?_ hs hp t).withPath p
  rintro _ ⟨i, l, rfl, hl, hk⟩ q t
  refine ⟨none, ?_⟩
  simp only [setter, leafFS, onLeaf, hl, hk, World.setLeafFiles_self w i l hl, fail]

/-- **unsupported_is_not_supported (2)**: all three setters of EmbeddedFS, directly, through
altroots, and through overlays whose write layer is embedded-backed -/
theorem unsupported_setters_embedded {w : World} {fs : FS} (hs : UStack IsEmbedded fs)
    (id : Nat) {p : Str} (hp : Canon p) (t : Int) :
    let vp : VPath := { fs := fs, fsId := id, path := p }
    vp.setCreationTime t w = (.err .notSupported (some p), w) ∧
    vp.setModificationTime t w = (.err .notSupported (some p), w) ∧
    vp.setAccessTime t w = (.err .notSupported (some p), w) := by
  have hB : ∀ j fs, IsEmbedded fs → ∀ p t, NS (setter j fs p t) w := by
    rintro j _ ⟨st, rfl⟩ q t
    cases j <;> exact ⟨none, rfl⟩
  exact ⟨(ustack_setter_ns .c w (hB .c) hs hp t).withPath p,
    (ustack_setter_ns .m w (hB .m) hs hp t).withPath p,
    (ustack_setter_ns .a w (hB .a) hs hp t).withPath p⟩

/-- the remaining mutators that reach the backend without a prelude -/
structure Unsup (fs : FS) (w : World) (p : Str) : Prop where
  appendFile : NS (fs.appendFile p) w
  removeFile : NS (fs.removeFile p) w
  removeDir : NS (fs.removeDir p) w

/-- EmbeddedFS, or altroots over it -/
inductive EStackW : FS → Prop
  | emb (st : Embedded.State) : EStackW (Embedded.fs st)
  | altroot {fs : FS} (id : Nat) (root : Str) : EStackW fs → Canon root →
      EStackW (Altroot.fs { fs := fs, fsId := id, path := root })

theorem estackW_unsup {fs : FS} (hs : EStackW fs) (w : World) :
    ∀ {p : Str}, Canon p → Unsup fs w p := by
  induction hs with
  | emb st => intro p _; exact ⟨⟨none, rfl⟩, ⟨none, rfl⟩, ⟨none, rfl⟩⟩
  | altroot id root _ hroot ih =>
    intro p hp
    have h := ih (canon_append hroot hp)
    refine ⟨?_, ?_, ?_⟩
    all_goals simp only [Altroot.fs, altroot_path hroot hp]
    all_goals rw [ret_ok_bind]
    · exact h.appendFile.withPath' _
    · exact h.removeFile.withPath' _
    · exact h.removeDir.withPath' _

theorem estackW_ustack {fs : FS} (hs : EStackW fs) : UStack IsEmbedded fs := by
  induction hs with
  | emb st => exact .base ⟨st, rfl⟩
  | altroot id root _ hroot ih => exact .altroot id root ih hroot

/-- **unsupported_is_not_supported (3)**: `append_file`, `remove_file`, `remove_dir` of
EmbeddedFS, directly and through altroots; `create_dir` / `create_file` directly on EmbeddedFS
once `get_parent` has passed; the three transfers (trait defaults) -/
theorem unsupported_mutators_embedded {fs : FS} (hs : EStackW fs) (w : World) (id : Nat)
    {p : Str} (hp : Canon p) :
    let vp : VPath := { fs := fs, fsId := id, path := p }
    vp.appendFile w = (.err .notSupported (some p), w) ∧
    vp.removeFile w = (.err .notSupported (some p), w) ∧
    vp.removeDir w = (.err .notSupported (some p), w) := by
  have h := estackW_unsup hs w hp
  exact ⟨h.appendFile.withPath p, h.removeFile.withPath p, h.removeDir.withPath p⟩

theorem unsupported_create_embedded (st : Embedded.State) (id : Nat) (p : Str) (w w' : World)
    (hgp : VPath.getParent { fs := Embedded.fs st, fsId := id, path := p } w = (.ok (), w')) :
    VPath.createDir { fs := Embedded.fs st, fsId := id, path := p } w
      = (.err .notSupported (some p), w') ∧
    (VPath.createFile { fs := Embedded.fs st, fsId := id, path := p } w)
      = (.err .notSupported (some p), w') := by
  unfold VPath.createDir VPath.createFile
  rw [bind_of_eq hgp, bind_of_eq hgp]
  exact ⟨rfl, rfl⟩

/-! ### `walk_dir`: every error item names the walked root or something below it (ANY `FS`) -/

theorem Below.child {base d : Str} (n : Str) (h : Below base d) : Below base (d ++ '/' :: n) := by
  right
  rcases h with rfl | ⟨t, rfl⟩
  · exact ⟨n, by simp⟩
  · exact ⟨t ++ '/' :: n, by simp⟩

/-- what a walk may yield: a path at or below `base`, or an error LABELLED with such a path -/
def ItemOK (base : Str) : Res VPath → Prop
  | .ok x => Below base x.path
  | .err _ p => ∃ s, p = some s ∧ Below base s
  | .panic => False

def WalkBelow (base : Str) (s : VPath.Walk) : Prop :=
  (∀ x ∈ s.inner, Below base x.path) ∧ (∀ x ∈ s.todo, Below base x.path)

theorem readDir_below {base : Str} (d : VPath) (hd : Below base d.path) (w w' : World)
    (l : List VPath) (h : d.readDir w = (.ok l, w')) : ∀ x ∈ l, Below base x.path := by
  intro x hx
  obtain ⟨_, n, hn⟩ := (readDir_children d).post w l (by rw [h]) x hx
  rw [hn]; exact hd.child n

theorem walkFind_inv (base : Str) : ∀ (todo inner : List VPath) (w : World),
    (∀ x ∈ inner, Below base x.path) → (∀ x ∈ todo, Below base x.path) →
    ∀ item s' w', VPath.walkFind inner todo w = (.ok (item, s'), w') →
      (∀ it, item = some it → ItemOK base it) ∧ WalkBelow base s' := by
  intro todo
  induction todo with
  | nil =>
    intro inner w hi ht item s' w' h
    cases inner with
    | nil =>
      simp only [VPath.walkFind] at h
      cases h
      exact ⟨fun it hit => (by cases hit), ⟨by simp, by simp⟩⟩
    | cons x inner =>
      simp only [VPath.walkFind] at h
      cases h
      exact ⟨fun it hit => by cases hit; exact hi x (by simp),
        ⟨fun y hy => hi y (by simp [hy]), ht⟩⟩
  | cons d todo ih =>
    intro inner w hi ht item s' w' h
    cases inner with
    | cons x inner =>
      simp only [VPath.walkFind] at h
      cases h
      exact ⟨fun it hit => by cases hit; exact hi x (by simp),
        ⟨fun y hy => hi y (by simp [hy]), ht⟩⟩
    | nil =>
      simp only [VPath.walkFind] at h
      have hdB := ht d (by simp)
      have htB : ∀ x ∈ todo, Below base x.path := fun x hx => ht x (by simp [hx])
      cases hr : d.readDir w with
      | mk r w1 =>
        rw [hr] at h
        cases r with
        | ok l =>
          have hl := readDir_below d hdB w w1 l hr
          cases l with
          | nil =>
            simp only at h
            exact ih [] w1 (by simp) htB item s' w' h
          | cons x inner =>
            simp only at h
            cases h
            exact ⟨fun it hit => by cases hit; exact hl x (by simp),
              ⟨fun y hy => hl y (by simp [hy]), htB⟩⟩
        | err k p =>
          simp only at h
          cases h
          refine ⟨fun it hit => ?_, ⟨by simp, htB⟩⟩
          cases hit
          obtain ⟨s, h1, h2⟩ := readDir_err d w k p (by rw [hr])
          exact ⟨s, h1, by rw [h2]; exact hdB⟩
        | panic => simp only at h; cases h

theorem walkNext_inv (base : Str) (s : VPath.Walk) (hs : WalkBelow base s) (w : World)
    (item : Option (Res VPath)) (s' : VPath.Walk) (w' : World)
    (h : VPath.walkNext s w = (.ok (item, s'), w')) :
    (∀ it, item = some it → ItemOK base it) ∧ WalkBelow base s' := by
  unfold VPath.walkNext at h
  change M.bind _ _ w = _ at h
  unfold M.bind at h
  cases hf : VPath.walkFind s.inner s.todo w with
  | mk r w1 =>
    rw [hf] at h
    cases r with
    | err k p => cases h
    | panic => cases h
    | ok pr =>
      obtain ⟨it0, s0⟩ := pr
      obtain ⟨hit0, hs0⟩ := walkFind_inv base s.todo s.inner w hs.1 hs.2 it0 s0 w1 hf
      simp only at h
      split at h
      · rename_i x
        have hx : Below base x.path := hit0 _ rfl
        cases hm : x.metadata w1 with
        | mk r2 w2 =>
          rw [hm] at h
          cases r2 with
          | ok md =>
            simp only at h
            split at h
            · cases h
              exact ⟨fun it hit => by cases hit; exact hx,
                ⟨hs0.1, fun y hy => by
                  rcases List.mem_cons.1 hy with rfl | hy
                  · exact hx
                  · exact hs0.2 y hy⟩⟩
            · cases h
              exact ⟨fun it hit => by cases hit; exact hx, hs0⟩
          | err k p =>
            simp only at h
            cases h
            refine ⟨fun it hit => ?_, hs0⟩
            cases hit
            obtain ⟨s, h1, h2⟩ := metadata_err x w1 k p (by rw [hm])
            exact ⟨s, h1, by rw [h2]; exact hx⟩
          | panic => simp only at h; cases h
      · cases h
        exact ⟨hit0, hs0⟩

theorem walkAll_inv (base : Str) : ∀ (fuel : Nat) (s : VPath.Walk), WalkBelow base s →
    ∀ (w w' : World) (l : List (Res VPath)), VPath.walkAll fuel s w = (.ok l, w') →
      ∀ it ∈ l, ItemOK base it := by
  intro fuel
  induction fuel with
  | zero => intro s _ w w' l h; cases h
  | succ fuel ih =>
    intro s hs w w' l h
    unfold VPath.walkAll at h
    change M.bind _ _ w = _ at h
    unfold M.bind at h
    cases hn : VPath.walkNext s w with
    | mk r w1 =>
      rw [hn] at h
      cases r with
      | err k p => cases h
      | panic => cases h
      | ok pr =>
        obtain ⟨item, s1⟩ := pr
        obtain ⟨hit, hs1⟩ := walkNext_inv base s hs w item s1 w1 hn
        simp only at h
        cases item with
        | none => cases h; intro it hit'; cases hit'
        | some it0 =>
          simp only at h
          change M.bind _ _ w1 = _ at h
          unfold M.bind at h
          cases ha : VPath.walkAll fuel s1 w1 with
          | mk r2 w2 =>
            rw [ha] at h
            cases r2 with
            | err k p => cases h
            | panic => cases h
            | ok rest =>
              cases h
              intro it hmem
              rcases List.mem_cons.1 hmem with rfl | hmem
              · exact hit _ rfl
              · exact ih s1 hs1 w1 _ rest ha it hmem

/-- **walk_error_items_labelled** — for ANY filesystem record (nothing is assumed about the
labels of the backend's errors): in a completed walk of `root`, every item is either a path
at or below `root.path`, or an error whose label is present (never the
placeholder) and is `root.path` or has the prefix `root.path ++ "/"`.  The error of `walk_dir`
itself names `root.path` (`C12.walkDir_err`). -/
theorem walk_error_items_labelled (root : VPath) (fuel : Nat) (w w1 w2 : World) (s : VPath.Walk)
    (l : List (Res VPath)) (hw : root.walkDir w = (.ok s, w1))
    (ha : VPath.walkAll fuel s w1 = (.ok l, w2)) :
    (∀ k lbl, Res.err k lbl ∈ l → ∃ q, lbl = some q ∧ Below root.path q) ∧
    (∀ x, Res.ok x ∈ l → Below root.path x.path) ∧ Res.panic ∉ l := by
  have hs : WalkBelow root.path s := by
    unfold VPath.walkDir at hw
    change M.bind _ _ w = _ at hw
    unfold M.bind at hw
    cases hr : root.readDir w with
    | mk r w' =>
      rw [hr] at hw
      cases r with
      | ok l0 =>
        cases hw
        exact ⟨readDir_below root (Below.refl _) w _ l0 hr, by simp⟩
      | err k p => cases hw
      | panic => cases hw
  have hall := walkAll_inv root.path fuel s hs w1 w2 l ha
  exact ⟨fun k lbl hm => hall _ hm, fun x hm => hall _ hm, fun hm => hall _ hm⟩

/-! ### Non-vacuity: concrete worlds -/

section examples

def rootDir : Entry :=
  { ftype := .dir, content := [], created := .now, modified := .unset, accessed := .unset }

/-- leaf 0: "/up" (the overlay's write area); leaf 1: "/d", "/d/f" (file), "/d/sub" -/
def exW : World :=
  { leaves := [ { kind := .mem, files := [([], rootDir), ("/up".toList, dirEntryNow)] },
                { kind := .mem, files := [([], rootDir), ("/d".toList, dirEntryNow),
                    ("/d/f".toList, fileEntryNow), ("/d/sub".toList, dirEntryNow)] } ] }

theorem exW_allMem : AllMem exW := by
  intro i l h
  unfold exW World.leaf? at h
  rcases i with _ | _ | i
  · simp at h; subst h; rfl
  · simp at h; subst h; rfl
  · simp at h

theorem canon_of_comps (cs : List Str) (h : ∀ c ∈ cs, GoodComp c) : Canon (renderC cs) := ⟨cs, h, rfl⟩

/-- write layer: the root of an altroot at "/up" of leaf 0; lower layer: the root of leaf 1 -/
def exLayers : List VPath :=
  [ { fs := Altroot.fs { fs := leafFS 0, fsId := 10, path := "/up".toList }, fsId := 11, path := [] },
    { fs := leafFS 1, fsId := 1, path := [] } ]

/-- altroot at "/d" over the overlay over (altroot over leaf 0, leaf 1) -/
def exFS : FS := Altroot.fs { fs := Overlay.fs exLayers, fsId := 20, path := "/d".toList }

theorem exFS_stack : MStack exFS := by
  refine .altroot 20 _ (.overlay exLayers ?_) (canon_of_comps ["d".toList] (by decide))
  intro l hl
  simp only [exLayers, List.mem_cons, List.not_mem_nil, or_false] at hl
  rcases hl with rfl | rfl
  · exact .w (.altroot 10 _ (.leaf 0) (canon_of_comps ["up".toList] (by decide)))
  · exact .w (.leaf 1)

/-- the hypotheses of `missing_is_not_found` hold for "/nope" (parent: the root of the altroot, a
directory of the view) and for "/sub/x" -/
example : Canon "/nope".toList ∧ "/nope".toList ≠ [] ∧
    (exFS.exists_ "/nope".toList exW).1 = .ok false ∧
    (exFS.exists_ [] exW).1 = .ok true ∧ (exFS.exists_ "/f".toList exW).1 = .ok true :=
  ⟨canon_of_comps ["nope".toList] (by decide), by decide, by decide, by decide, by decide⟩

example : VPath.metadata { fs := exFS, fsId := 0, path := "/nope".toList } exW
    = (.err .fileNotFound (some "/nope".toList), exW) :=
  (missing_is_not_found exFS_stack exW_allMem 0 (canon_of_comps ["nope".toList] (by decide))
    (by decide) (by decide)).2.1

example : VPath.removeDir { fs := exFS, fsId := 0, path := "/sub/x".toList } exW
    = (.err .fileNotFound (some "/sub/x".toList), exW) :=
  (missing_is_not_found exFS_stack exW_allMem 0
    (canon_of_comps ["sub".toList, "x".toList] (by decide)) (by decide) (by decide)).2.2.2.2.2.2.1

/-- single-backend stacking: altroot at "/d" of leaf 1 -/
def exFSW : FS := Altroot.fs { fs := leafFS 1, fsId := 1, path := "/d".toList }

theorem exFSW_stack : MStackW exFSW :=
  .altroot 1 _ (.leaf 1) (canon_of_comps ["d".toList] (by decide))

example : VPath.setModificationTime { fs := exFSW, fsId := 0, path := "/nope".toList } 5 exW
    = (.err .fileNotFound (some "/nope".toList), exW) :=
  (missing_is_not_found_W exFSW_stack exW_allMem 0 (canon_of_comps ["nope".toList] (by decide))
    (by decide) 5).2.2.1

example : VPath.copyFile { fs := exFSW, fsId := 0, path := "/nope".toList }
    { fs := exFSW, fsId := 0, path := "/new".toList } exW
    = (.err .fileNotFound (some "/nope".toList), exW) :=
  ((missing_is_not_found_W exFSW_stack exW_allMem 0 (canon_of_comps ["nope".toList] (by decide))
    (by decide) 5).2.2.2.2.1 _ (canon_of_comps ["new".toList] (by decide)) (by decide)).1

/-- the setters through the overlay: "/d/f" EXISTS in the view (lower layer) but not in the
write layer — not-found all the same (the behaviour of overlay.rs) -/
example : VPath.setAccessTime { fs := Overlay.fs exLayers, fsId := 0, path := "/d/f".toList } 7 exW
    = (.err .fileNotFound (some "/d/f".toList), exW) ∧
    ((Overlay.fs exLayers).exists_ "/d/f".toList exW).1 = .ok true :=
  ⟨(overlay_setters_missing (layers := exLayers)
      (.altroot 10 _ (.leaf 0) (canon_of_comps ["up".toList] (by decide))) (canon_of_comps [] (by decide))
      exW_allMem (canon_of_comps ["d".toList, "f".toList] (by decide)) (by decide) (by decide) 0 7).2.2,
    by decide⟩

/-- occupied `create_dir`: a file and a directory -/
example : VPath.createDir { fs := exFSW, fsId := 0, path := "/f".toList } exW
    = (.err .fileExists (some "/f".toList), exW) :=
  occupied_create_dir exFSW_stack exW_allMem 0 (canon_of_comps ["f".toList] (by decide)) (by decide)
    fileEntryNow.meta dirEntryNow.meta (by decide) (by decide) rfl (by decide)

example : VPath.createDir { fs := exFSW, fsId := 0, path := "/sub".toList } exW
    = (.err .dirExists (some "/sub".toList), exW) :=
  occupied_create_dir exFSW_stack exW_allMem 0 (canon_of_comps ["sub".toList] (by decide)) (by decide)
    dirEntryNow.meta dirEntryNow.meta (by decide) (by decide) rfl (by decide)

/-- a physical write layer below an overlay below an altroot -/
def exWP : World := { leaves := [ { kind := .phys, files := Phys.init } ] }

example : VPath.setCreationTime
    { fs := Altroot.fs { fs := Overlay.fs [{ fs := leafFS 0, fsId := 0, path := [] }], fsId := 1,
                          path := "/a".toList }, fsId := 2, path := "/x".toList } 3 exWP
    = (.err .notSupported (some "/x".toList), exWP) :=
  unsupported_set_creation_time
    (.altroot 1 _ (.overlay [{ fs := leafFS 0, fsId := 0, path := [] }] (.base ⟨0, _, rfl, rfl, rfl⟩)
        ⟨[], by simp, rfl⟩)
      (canon_of_comps ["a".toList] (by decide))) 2 (canon_of_comps ["x".toList] (by decide)) 3

def exEmb : Embedded.State := Embedded.new [("a/b.txt".toList, [1, 2])]

example : VPath.removeFile
    { fs := Altroot.fs { fs := Embedded.fs exEmb, fsId := 0, path := "/a".toList }, fsId := 1,
      path := "/b.txt".toList } exW = (.err .notSupported (some "/b.txt".toList), exW) :=
  (unsupported_mutators_embedded (.altroot 0 _ (.emb exEmb) (canon_of_comps ["a".toList] (by decide)))
    exW 1 (canon_of_comps ["b.txt".toList] (by decide))).2.1

example : VPath.setAccessTime
    { fs := Overlay.fs [{ fs := Embedded.fs exEmb, fsId := 0, path := [] }], fsId := 1,
      path := "/a/b.txt".toList } 9 exW = (.err .notSupported (some "/a/b.txt".toList), exW) :=
  (unsupported_setters_embedded (.overlay [{ fs := Embedded.fs exEmb, fsId := 0, path := [] }]
      (.base ⟨exEmb, rfl⟩) ⟨[], by simp, rfl⟩)
    1 (canon_of_comps ["a".toList, "b.txt".toList] (by decide)) 9).2.2

/-- a backend whose errors carry no label: `read_dir("")` lists "x", everything else is the
trait default. The walk yields one error item, labelled "/x" by the `VfsPath` layer. -/
def exBadFS : FS :=
  { (default : FS) with readDir := fun p => if p = [] then pure ["x".toList] else M.failK .io }

example :
    (match VPath.walkDir { fs := exBadFS, fsId := 0, path := [] } exW with
     | (.ok s, w1) => ((VPath.walkAll 3 s w1).1.toOption.map
        (·.map fun it => (it.kind?, it.errPath?)))
     | _ => none)
    = some [(some .notSupported, some (some "/x".toList))] := by decide

end examples

end Vfs.C12

