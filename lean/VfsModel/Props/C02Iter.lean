/-
  C02 for stackings, continued — "MemoryFS is a faithful stand-in for PhysicalFS" for the file
  transfers (`copy_file`, `append_file` of an overlay = copy-up) and what can be said about the
  operations that ITERATE over listings.  Builds on Props/C02Stack.lean (class-level simulation
  `CSim RCore KRel Q`), lemma library Proofs/ClassSimIter.lean.

  DEFINITIONS
    * `StackI fs` : the stackings of `C02.Stack` with the model's reading of `Arc` identity made
      explicit for overlays: a layer that carries the write layer's `fsId` carries the write
      layer's filesystem value (`Compat`).  Needed (and true of every real program): `copy_file`
      takes the same-filesystem fast path when the two `fsId`s are equal, and the copy-up of an
      overlay copies from a lower layer to the write layer.  `stackI_stack : StackI fs → Stack fs`.
    * `OpX` : the operations of `C02.Op` plus `copy_file s d` and append sessions on EVERY stacking
      (overlays included).  `OpX.Pre` : the precondition of a call in the (memory-side) world in
      which it is made: for `copy_file s d`, "`metadata s` does not answer directory" (`NotDirAt`).

  THEOREMS (no sorry; axioms: propext, Classical.choice, Quot.sound)
    * `stackI_all` : every `StackI` stacking is related to itself across `RCore` for the transfers
      (`SimX`: `open_file` of a non-directory returns equal handles, `copy_file` between two of its
      paths), is `Tame`, and its append sessions are related (`SimA`).
    * `copy_agree` : `copy_file s d` on any `StackI` stacking, `s`, `d` canonical: from `RCore`
      related worlds in which `s` is not a directory (file, absent, below a file, …; destination
      arbitrary: existing, parent missing, parent a file) the two runs return outcomes in the same
      class and end in `RCore`-related worlds.  On leaves the memory side runs the generic
      open/create/copy route and the physical side `std::fs::copy`.
      `copy_agree_isFile` : the hypothesis in the form `is_file(s) = Ok(true)`;
      `copy_guarded_agree` : `is_file(s)` as a guard IN the program (no hypothesis on the worlds).
      (The form `is_dir(s) = Ok(false)` of `copy_stmt` in Props/C02Stack.lean additionally needs
      "`metadata` succeeds only where `exists` says yes" for every stacking; not proved, so the
      `copy_file` half of `copy_stmt` is proved here with `NotDirAt` / `is_file` instead.)
      `copy_cross_agree` : source and destination on two different stackings (different `fsId`).
    * `append_agree` : append sessions (`append_file`, any list of writes, drop) on every `StackI`
      stacking — for an overlay this is the copy-up from a FILE source (a directory source is
      refused by the overlay's own `is_file` guard before `copy_file` is reached).
    * `stackX_agree`, `stackX_history_agree`, `stackX_from_empty` : `stack_agree` /
      `stack_history_agree` extended with these operations; for histories the precondition of
      each call is required in the memory-side world in which the call is made (`HistPre`).
    * order-insensitivity of iteration, abstractly (`perm_commute`, `iter_perm`): `forEach step l`
      is the shape of every loop over a listing.  If (H1) each step on an item of the list is
      simulated in the SUCCESS case (`SuccSim`; implied by `CSim`, `SuccSim.of_csim`), and on the
      right-hand side only (H2) successful steps respect an equivalence `E` that `R` absorbs and
      (H3) two successful steps on different items commute up to `E`, then: the left run over `l1`
      completes ⇒ the right run over ANY permutation `l2` completes and the final worlds are
      `R`-related.  `PhysEquiv` (same kinds, `CoreEq` maps, equal ghost fields) is the `E` for
      `RCore`: `physEquiv_refl/trans`, `rcore_absorbs`.  This is the precise content of "the
      result does not depend on the order in which `read_dir` returns the names"; (H2)/(H3) are
      NOT discharged for stackings (see below).
    * `removeChildren_eq`, `namesSet_perm` : the loop of `remove_dir_all` is such an iteration, and
      set-equal duplicate-free listings are permutations.
    * non-vacuity (kernel-evaluated): `exX_valid`, `exX_pre`, `ex_copy_outcomes`,
      `ex_iter_agrees` — `copy_file`, an append session through the overlay, `copy_dir` and
      `remove_dir_all` on the altroot over the two-layer overlay, memory against physical: same
      outcomes, `CoreEq` leaves.

  NOT PROVED (stated as `…_stmt`), and why:
    * `move_stmt` — `move_file`.  On a leaf the memory side removes the source while the bytes are
      pending in the destination handle and the physical side renames; through an altroot and an
      overlay the generic route runs on both sides with an OPEN destination handle across
      `remove_file(source)` (for an overlay: across the whole whiteout bookkeeping, which contains
      a second `create_file` session).  The closed-session interface `SimC`/`SimW` cannot express
      this; it needs a frame statement ("the interlude does not touch the file the handle is
      writing").  Not attempted (time).  A candidate divergence (destination = the whiteout
      marker of the source) was evaluated and does NOT diverge: the marker hides the source, both
      sides fail with not-found (`ex_move_marker`).
    * `iter_stmt` (Props/C02Stack.lean) — `remove_dir_all`, `copy_dir`, `move_dir`, `walk_dir`:
      the commutation of the per-child steps on one side (up to storage order and timestamps) is
      not proved for arbitrary stackings; for an overlay two sibling removals share the whiteout
      directory, so the argument needs a frame calculus for the adapters that does not exist yet.
      Moreover `RCore` does not say that the keys of the PHYSICAL map are duplicate-free (it
      constrains lookups only), so a physical listing may in principle repeat a name, in which
      case `remove_dir_all` fails on the physical side only: `iter_stmt` needs `RCore`
      strengthened by `NodupKeys` on both sides.  What can be said in the FAILURE case: both runs
      fail iff … cannot be claimed call by call: the operations are not atomic, the two sides stop
      after different prefixes of their (differently ordered) listings, and the worlds then differ
      in how far the operation got.  The property's phrase "resulting observable tree" is about
      completed calls.
    * overlays as WRITE layers of overlays: `SimW` for an overlay needs, besides the append session
      proved here, `createClear` (the overlay's own `remove_file` — with its nested whiteout session
      — run while a handle is open: the same frame problem as `move_file`) and `clearT`.
-/
import VfsModel.Proofs.ClassSimIter
import VfsModel.Props.C02Stack
set_option linter.unusedVariables false
namespace Vfs.C02

/-! ### stackings with explicit `Arc` identity -/

inductive StackI : FS → Prop
  | w {fs : FS} : StackW fs → StackI fs
  | altroot {fs : FS} (id : Nat) (root : Str) : StackI fs → Canon root →
      StackI (Altroot.fs { fs := fs, fsId := id, path := root })
  | overlay (layers : List VPath) : StackW (Overlay.writeLayer layers).fs →
      (∀ l ∈ layers, StackI l.fs) → (∀ l ∈ layers, Canon l.path) →
      Canon (Overlay.writeLayer layers).path →
      (∀ l ∈ layers, Compat l (Overlay.writeLayer layers)) → StackI (Overlay.fs layers)

theorem stackI_stack {fs : FS} (h : StackI fs) : Stack fs := by
  induction h with
  | w hw => exact .w hw
  | altroot id root _ hroot ih => exact .altroot id root ih hroot
  | overlay layers hw _ hc hwc _ ih => exact .overlay layers hw ih hc hwc

/-- related append sessions -/
def SimA (R : World → World → Prop) (fs1 fs2 : FS) : Prop :=
  ∀ p s, Canon p → CSim R KRel (· = ·) (appendSession fs1 p s) (appendSession fs2 p s)

theorem Altroot.simA {R : World → World → Prop} {root1 root2 : VPath} (hp : root2.path = root1.path)
    (hc : Canon root1.path) (ha : SimA R root1.fs root2.fs) :
    SimA R (Vfs.Altroot.fs root1) (Vfs.Altroot.fs root2) := by
  intro p s hpc
  have hc2 : Canon root2.path := by rw [hp]; exact hc
  show CSim R _ _ ((M.ret (Vfs.Altroot.path root1 p) >>= _) >>= _)
    ((M.ret (Vfs.Altroot.path root2 p) >>= _) >>= _)
  rw [Altroot.fs_method root1 p hc hpc, Altroot.fs_method root2 p hc2 hpc]
  show CSim R _ _ (VPath.appendSession (root1.withStr (root1.path ++ p)) s)
    (VPath.appendSession (root2.withStr (root2.path ++ p)) s)
  unfold VPath.appendSession Vfs.VPath.appendFile
  rw [hp]
  exact CSim.of_pathEq (PathEq.withPath_bind _ _ _) (PathEq.withPath_bind _ _ _)
    (ha _ s (Vfs.canon_append hc hpc))

theorem stackW_all {fs : FS} (h : StackW fs) : SimX RCore fs fs ∧ Tame fs := by
  induction h with
  | leaf i => exact ⟨leaf_simX i, leaf_tame i⟩
  | altroot id root _ hroot ih =>
    exact ⟨Altroot.simX ⟨ih.1, rfl, hroot, rfl, ih.2⟩, Altroot.tame ih.2⟩

/-- **every stacking is related to itself for the transfers and the append sessions** -/
theorem stackI_all {fs : FS} (h : StackI fs) :
    SimX RCore fs fs ∧ Tame fs ∧ SimA RCore fs fs := by
  induction h with
  | w hw =>
    exact ⟨(stackW_all hw).1, (stackW_all hw).2, fun p s hp => (stackW_simW hw).appendSession p s hp⟩
  | altroot id root _ hroot ih =>
    exact ⟨Altroot.simX ⟨ih.1, rfl, hroot, rfl, ih.2.1⟩, Altroot.tame ih.2.1,
      Altroot.simA rfl hroot ih.2.2⟩
  | overlay layers hw _ hcanon hwc hcompat ih =>
    have hL : ∀ (l : List VPath), (∀ x ∈ l, x ∈ layers) → ListRel (SimVX RCore) l l := by
      intro l
      induction l with
      | nil => intro _; exact .nil
      | cons x rest ihl =>
        intro hsub
        have hx := hsub x (by simp)
        exact .cons ⟨(ih x hx).1, rfl, hcanon x hx, rfl, (ih x hx).2.1⟩
          (ihl fun y hy => hsub y (by simp [hy]))
    have hW : SimVW RCore (Overlay.writeLayer layers) (Overlay.writeLayer layers) :=
      ⟨stackW_simW hw, rfl, hwc⟩
    have hWX : SimVX RCore (Overlay.writeLayer layers) (Overlay.writeLayer layers) :=
      ⟨(stackW_all hw).1, rfl, hwc, rfl, (stackW_all hw).2⟩
    have hLL := hL layers fun _ h => h
    exact ⟨Overlay.simX hLL hW hWX hcompat hcompat, Overlay.tame1 hLL hW hWX hcompat hcompat,
      fun p s _ => Overlay.sim_appendSession hLL hW hWX hcompat hcompat p s⟩

/-! ### `copy_file` -/

/-- **`copy_file` on every stacking**, the source not a directory of the memory side -/
theorem copy_agree {fs : FS} (hs : StackI fs) (id : Nat) (s d : Str) (hsc : Canon s) (hdc : Canon d) :
    CSimP (NotDirAt fs s) RCore KRel (· = ·)
      (VPath.copyFile { fs := fs, fsId := id, path := s } { fs := fs, fsId := id, path := d })
      (VPath.copyFile { fs := fs, fsId := id, path := s } { fs := fs, fsId := id, path := d }) :=
  (stackI_all hs).1.copyV id s d hsc hdc

/-- source and destination on two different stackings -/
theorem copy_cross_agree {fs fd : FS} (hs : StackI fs) (hd : StackI fd) (ids idd : Nat)
    (hne : ids ≠ idd) (s d : Str) (hsc : Canon s) (hdc : Canon d) :
    CSimP (NotDirAt fs s) RCore KRel (· = ·)
      (VPath.copyFile { fs := fs, fsId := ids, path := s } { fs := fd, fsId := idd, path := d })
      (VPath.copyFile { fs := fs, fsId := ids, path := s } { fs := fd, fsId := idd, path := d }) :=
  VPath.sim_copyFile (s1 := { fs := fs, fsId := ids, path := s }) (s2 := { fs := fs, fsId := ids, path := s })
    (d1 := { fs := fd, fsId := idd, path := d }) (d2 := { fs := fd, fsId := idd, path := d })
    ⟨(stackI_all hs).1, rfl, hsc, rfl, (stackI_all hs).2.1⟩
    ⟨(stackI_all hd).1.toSimC, rfl, hdc⟩ (stackI_all hd).2.1 rfl
    (fun h => absurd h hne) (fun h => absurd h hne)

/-- the hypothesis in the form "`is_file(s)` answered yes" (observers are pure) -/
theorem copy_agree_isFile {fs : FS} (hs : StackI fs) (id : Nat) (s d : Str) (hsc : Canon s)
    (hdc : Canon d) (w1 w2 : World) (hr : RCore w1 w2)
    (hf : (VPath.isFile { fs := fs, fsId := id, path := s } w1).1 = .ok true) :
    CRes KRel (· = ·)
      (VPath.copyFile { fs := fs, fsId := id, path := s } { fs := fs, fsId := id, path := d } w1).1
      (VPath.copyFile { fs := fs, fsId := id, path := s } { fs := fs, fsId := id, path := d } w2).1 ∧
    RCore
      (VPath.copyFile { fs := fs, fsId := id, path := s } { fs := fs, fsId := id, path := d } w1).2
      (VPath.copyFile { fs := fs, fsId := id, path := s } { fs := fs, fsId := id, path := d } w2).2 :=
  copy_agree hs id s d hsc hdc w1 w2 hr
    (isFile_true_notDir (v := { fs := fs, fsId := id, path := s }) (stackI_all hs).2.1 w1 hf)

/-- the guarded form (what `OverlayFS::append_file` runs): no hypothesis on the worlds -/
theorem copy_guarded_agree {fs : FS} (hs : StackI fs) (id : Nat) (s d : Str) (hsc : Canon s)
    (hdc : Canon d) :
    CSim RCore KRel (· = ·)
      (VPath.isFile { fs := fs, fsId := id, path := s } >>= fun isf =>
        if (!isf) = true then M.failK .other
        else VPath.copyFile { fs := fs, fsId := id, path := s } { fs := fs, fsId := id, path := d })
      (VPath.isFile { fs := fs, fsId := id, path := s } >>= fun isf =>
        if (!isf) = true then M.failK .other
        else VPath.copyFile { fs := fs, fsId := id, path := s } { fs := fs, fsId := id, path := d }) :=
  sim_guardedCopy (s1 := { fs := fs, fsId := id, path := s }) (s2 := { fs := fs, fsId := id, path := s })
    (d1 := { fs := fs, fsId := id, path := d }) (d2 := { fs := fs, fsId := id, path := d })
    ⟨(stackI_all hs).1, rfl, hsc, rfl, (stackI_all hs).2.1⟩ ⟨(stackI_all hs).1.toSimC, rfl, hdc⟩
    (stackI_all hs).2.1 rfl (fun _ => rfl) (fun _ => rfl)

/-! ### append sessions on every stacking -/

/-- **append sessions, overlays included** (copy-up from a FILE source) -/
theorem append_agree {fs : FS} (hs : StackI fs) (id : Nat) (p : Str) (hp : Canon p) (s : List Bytes) :
    CSim RCore KRel (· = ·)
      (VPath.appendSession { fs := fs, fsId := id, path := p } s)
      (VPath.appendSession { fs := fs, fsId := id, path := p } s) := by
  unfold VPath.appendSession Vfs.VPath.appendFile
  exact CSim.of_pathEq (PathEq.withPath_bind _ _ _) (PathEq.withPath_bind _ _ _)
    ((stackI_all hs).2.2 p s hp)

/-! ### the extended operation set -/

inductive OpX where
  | base (op : Op)
  | copyFile (s d : Str)
  | append (p : Str) (script : List Bytes)

def OpX.run (fs : FS) (id : Nat) : OpX → M Val
  | .base op => op.run fs id
  | .copyFile s d =>
    VPath.copyFile { fs := fs, fsId := id, path := s } { fs := fs, fsId := id, path := d } >>= fun _ => pure .unit
  | .append p s => VPath.appendSession { fs := fs, fsId := id, path := p } s >>= fun _ => pure .unit

/-- static validity: canonical paths (and `Op.Valid` for the old operations) -/
def OpX.Valid (fs : FS) : OpX → Prop
  | .base op => op.Valid fs
  | .copyFile s d => Canon s ∧ Canon d
  | .append p _ => Canon p

/-- what must hold in the memory-side world in which the call is made -/
def OpX.Pre (fs : FS) : OpX → World → Prop
  | .copyFile s _, w => NotDirAt fs s w
  | _, _ => True

/-- **C02 for every stacking, transfers and append sessions included** -/
theorem stackX_agree {fs : FS} (hs : StackI fs) (id : Nat) (op : OpX) (hop : op.Valid fs) :
    CSimP (op.Pre fs) RCore KRel ValRel (op.run fs id) (op.run fs id) := by
  cases op with
  | base op => exact CSimP.of (stack_agree (stackI_stack hs) id op hop)
  | copyFile s d =>
    exact CSimP.bindR (copy_agree hs id s d hop.1 hop.2) fun _ _ _ => CSim.pure trivial
  | append p s =>
    exact CSimP.of (CSim.bind_eq (append_agree hs id p hop s) fun _ => CSim.pure trivial)

def runHistX (fs : FS) (id : Nat) : List OpX → World → List (Res Val) × World
  | [], w => ([], w)
  | op :: rest, w =>
    let r := op.run fs id w
    let t := runHistX fs id rest r.2
    (r.1 :: t.1, t.2)

/-- the precondition of every call holds in the (memory-side) world in which it is made -/
def HistPre (fs : FS) (id : Nat) : List OpX → World → Prop
  | [], _ => True
  | op :: rest, w => op.Pre fs w ∧ HistPre fs id rest (op.run fs id w).2

/-- **every finite history**, transfers and append sessions included -/
theorem stackX_history_agree {fs : FS} (hs : StackI fs) (id : Nat) (ops : List OpX)
    (hops : ∀ op ∈ ops, op.Valid fs) (w1 w2 : World) (hr : RCore w1 w2)
    (hpre : HistPre fs id ops w1) :
    ListRel (CRes KRel ValRel) (runHistX fs id ops w1).1 (runHistX fs id ops w2).1 ∧
    RCore (runHistX fs id ops w1).2 (runHistX fs id ops w2).2 := by
  induction ops generalizing w1 w2 with
  | nil => exact ⟨.nil, hr⟩
  | cons op rest ih =>
    obtain ⟨h1, h2⟩ := stackX_agree hs id op (hops op (by simp)) w1 w2 hr hpre.1
    obtain ⟨i1, i2⟩ := ih (fun o ho => hops o (by simp [ho])) _ _ h2 hpre.2
    exact ⟨.cons h1 i1, i2⟩

theorem stackX_from_empty {fs : FS} (hs : StackI fs) (id n : Nat) (ops : List OpX)
    (hops : ∀ op ∈ ops, op.Valid fs) (hpre : HistPre fs id ops (memWorld n)) :
    ListRel (CRes KRel ValRel) (runHistX fs id ops (memWorld n)).1 (runHistX fs id ops (physWorld n)).1 ∧
    RCore (runHistX fs id ops (memWorld n)).2 (runHistX fs id ops (physWorld n)).2 :=
  stackX_history_agree hs id ops hops _ _ (rcore_init n) hpre

/-! ### order-insensitivity of iteration, abstractly

`forEach step l` is the shape of every loop over a listing in PathOps.lean (`removeChildren`, the
`for` loops of `copy_dir` / `move_dir`): run the step on each item in order, stop at the first
failure.  The two backends list a directory in different orders, so the two runs execute
`forEach step1 l1` and `forEach step2 l2` with `l1 ~ l2` (a permutation).  `iter_perm` reduces
"the completed runs end in related worlds" to (H1) the lock-step simulation of ONE step and, on the
right-hand side only, (H2) steps respect an equivalence `E` that `R` absorbs (storage order,
timestamps) and (H3) two successful steps commute up to `E`. -/

section iter
variable {ι : Type}

def forEach (step : ι → M Unit) : List ι → M Unit
  | [] => pure ()
  | c :: rest => step c >>= fun _ => forEach step rest

theorem forEach_cons (step : ι → M Unit) (c : ι) (rest : List ι) :
    forEach step (c :: rest) = step c >>= fun _ => forEach step rest := rfl

theorem forEach_cons_ok {step : ι → M Unit} {c : ι} {rest : List ι} {w : World}
    (h : (forEach step (c :: rest) w).1 = .ok ()) :
    (step c w).1 = .ok () ∧ forEach step (c :: rest) w = forEach step rest (step c w).2 := by
  rw [forEach_cons] at h ⊢
  rw [bind_eval] at h ⊢
  rcases e : step c w with ⟨r, w'⟩
  rw [e] at h
  cases r with
  | ok u => exact ⟨rfl, rfl⟩
  | err k p => cases h
  | panic => cases h

theorem forEach_cons_of_ok {step : ι → M Unit} {c : ι} {rest : List ι} {w : World}
    (h : (step c w).1 = .ok ()) :
    forEach step (c :: rest) w = forEach step rest (step c w).2 := by
  show (step c >>= fun _ => forEach step rest) w = _
  rw [bind_eval]
  rcases e : step c w with ⟨r, w'⟩
  rw [e] at h
  simp only at h
  subst h
  rfl

/-- (H2) a successful step stays successful on an `E`-equivalent world, with `E`-equivalent result -/
def RespectsE (E : World → World → Prop) (m : M Unit) : Prop :=
  ∀ w w', E w w' → (m w).1 = .ok () → (m w').1 = .ok () ∧ E (m w).2 (m w').2

/-- (H3) two successful steps commute up to `E` -/
def CommutesE (E : World → World → Prop) (m m' : M Unit) : Prop :=
  ∀ w, ((m >>= fun _ => m') w).1 = .ok () →
    ((m' >>= fun _ => m) w).1 = .ok () ∧ E ((m >>= fun _ => m') w).2 ((m' >>= fun _ => m) w).2

theorem forEach_respects {E : World → World → Prop} {step : ι → M Unit}
    (h2 : ∀ c, RespectsE E (step c)) (l : List ι) : RespectsE E (forEach step l) := by
  induction l with
  | nil => intro w w' he _; exact ⟨rfl, he⟩
  | cons c rest ih =>
    intro w w' he hok
    obtain ⟨h1, e1⟩ := forEach_cons_ok hok
    obtain ⟨h1', he'⟩ := h2 c w w' he h1
    rw [e1] at hok ⊢
    rw [forEach_cons_of_ok h1']
    exact ih _ _ he' hok

/-- **on one side**: a completed run over a list and over a permutation of it end `E`-equivalent -/
theorem perm_commute {E : World → World → Prop} (hrefl : ∀ w, E w w)
    (htrans : ∀ a b c, E a b → E b c → E a c) {step : ι → M Unit}
    (h2 : ∀ c, RespectsE E (step c)) (h3 : ∀ c c', c ≠ c' → CommutesE E (step c) (step c'))
    {l1 l2 : List ι} (hp : l1.Perm l2) :
    ∀ w, (forEach step l1 w).1 = .ok () →
      (forEach step l2 w).1 = .ok () ∧ E (forEach step l1 w).2 (forEach step l2 w).2 := by
  induction hp with
  | nil => intro w h; exact ⟨h, hrefl _⟩
  | cons x _ ih =>
    intro w h
    obtain ⟨h1, e1⟩ := forEach_cons_ok h
    rw [e1] at h ⊢
    rw [forEach_cons_of_ok h1]
    exact ih _ h
  | swap x y l =>
    intro w h
    by_cases hxy : y = x
    · subst hxy; exact ⟨h, hrefl _⟩
    · -- the run over `y :: x :: l`
      obtain ⟨hy, ey⟩ := forEach_cons_ok h
      rw [ey] at h
      obtain ⟨hx, ex⟩ := forEach_cons_ok h
      rw [ex] at h
      have two : ((step y >>= fun _ => step x) w) = step x (step y w).2 := by
        rw [bind_eval]
        rcases e : step y w with ⟨r, w'⟩
        rw [e] at hy
        simp only at hy
        subst hy
        rfl
      have hc := h3 y x hxy w (by rw [two]; exact hx)
      rw [two] at hc
      -- the run over `x :: y :: l`
      have two' : ((step x >>= fun _ => step y) w).1 = .ok () := hc.1
      have hx' : (step x w).1 = .ok () := by
        rw [bind_eval] at two'
        rcases e : step x w with ⟨r, w'⟩
        rw [e] at two'
        cases r with
        | ok u => rfl
        | err k p => cases two'
        | panic => cases two'
      have two'' : ((step x >>= fun _ => step y) w) = step y (step x w).2 := by
        rw [bind_eval]
        rcases e : step x w with ⟨r, w'⟩
        rw [e] at hx'
        simp only at hx'
        subst hx'
        rfl
      rw [two''] at hc
      rw [ey, ex, forEach_cons_of_ok hx', forEach_cons_of_ok hc.1]
      exact forEach_respects h2 l _ _ hc.2 h
  | trans _ _ ih1 ih2 =>
    intro w h
    obtain ⟨a1, a2⟩ := ih1 w h
    obtain ⟨b1, b2⟩ := ih2 w a1
    exact ⟨b1, htrans _ _ _ a2 b2⟩

/-- lock step: the same list on both sides -/
theorem forEach_sim {R : World → World → Prop} {step1 step2 : ι → M Unit}
    (h1 : ∀ c, CSim R KRel (· = ·) (step1 c) (step2 c)) (l : List ι) :
    CSim R KRel (· = ·) (forEach step1 l) (forEach step2 l) := by
  induction l with
  | nil => exact CSim.pure rfl
  | cons c rest ih => exact CSim.bind_eq (h1 c) fun _ => ih

/-- simulation of the SUCCESS case only (what a recursive use needs: the hypothesis for the
children of a directory is again about completed runs) -/
def SuccSim (R : World → World → Prop) (m1 m2 : M Unit) : Prop :=
  ∀ w1 w2, R w1 w2 → (m1 w1).1 = .ok () → (m2 w2).1 = .ok () ∧ R (m1 w1).2 (m2 w2).2

theorem SuccSim.of_csim {R : World → World → Prop} {m1 m2 : M Unit}
    (h : CSim R KRel (· = ·) m1 m2) : SuccSim R m1 m2 := by
  intro w1 w2 hr hok
  obtain ⟨a1, a2⟩ := h w1 w2 hr
  rw [hok] at a1
  generalize (m2 w2).1 = r2 at a1
  cases a1 with
  | ok _ => exact ⟨rfl, a2⟩

theorem forEach_succ {R : World → World → Prop} {step1 step2 : ι → M Unit} (l : List ι)
    (h1 : ∀ c ∈ l, SuccSim R (step1 c) (step2 c)) :
    SuccSim R (forEach step1 l) (forEach step2 l) := by
  induction l with
  | nil => intro w1 w2 hr _; exact ⟨rfl, hr⟩
  | cons c rest ih =>
    intro w1 w2 hr hok
    obtain ⟨hc, e1⟩ := forEach_cons_ok hok
    obtain ⟨hc2, hr'⟩ := h1 c (by simp) w1 w2 hr hc
    rw [e1] at hok ⊢
    rw [forEach_cons_of_ok hc2]
    exact ih (fun x hx => h1 x (by simp [hx])) _ _ hr' hok

/-- **order-insensitivity of a completed iteration**: the left run over `l1` succeeds; then the
right run over ANY permutation `l2` succeeds and the final worlds are related.  (H1) is only
needed for the items of the list and only in the success case. -/
theorem iter_perm {R E : World → World → Prop} (hrefl : ∀ w, E w w)
    (htrans : ∀ a b c, E a b → E b c → E a c)
    (habs : ∀ w1 w2 w2', R w1 w2 → E w2 w2' → R w1 w2')
    {step1 step2 : ι → M Unit} {l1 l2 : List ι}
    (h1 : ∀ c ∈ l1, SuccSim R (step1 c) (step2 c))
    (h2 : ∀ c, RespectsE E (step2 c)) (h3 : ∀ c c', c ≠ c' → CommutesE E (step2 c) (step2 c'))
    (hp : l1.Perm l2) (w1 w2 : World) (hr : R w1 w2)
    (hok : (forEach step1 l1 w1).1 = .ok ()) :
    (forEach step2 l2 w2).1 = .ok () ∧ R (forEach step1 l1 w1).2 (forEach step2 l2 w2).2 := by
  obtain ⟨hok2, a2⟩ := forEach_succ l1 h1 w1 w2 hr hok
  obtain ⟨b1, b2⟩ := perm_commute hrefl htrans h2 h3 hp w2 hok2
  exact ⟨b1, habs _ _ _ a2 b2⟩

/-- `RCore` absorbs content-equivalence of the right-hand (physical) world: the `E` to use -/
def PhysEquiv (w w' : World) : Prop :=
  w.leaves.length = w'.leaves.length ∧ w.log = w'.log ∧ w.fault = w'.fault ∧ w.fired = w'.fired ∧
  ∀ i, match w.leaf? i, w'.leaf? i with
    | some l, some l' => l.kind = l'.kind ∧ CoreEq l.files l'.files
    | none, none => True
    | _, _ => False

theorem physEquiv_refl (w : World) : PhysEquiv w w := by
  refine ⟨rfl, rfl, rfl, rfl, fun i => ?_⟩
  cases w.leaf? i with
  | none => trivial
  | some l => exact ⟨rfl, CoreEq.refl _⟩

theorem rcore_absorbs (w1 w2 w2' : World) (hr : RCore w1 w2) (he : PhysEquiv w2 w2') : RCore w1 w2' := by
  obtain ⟨_, hlog, hfault, hfired, hleaf⟩ := he
  refine ⟨fun i => ?_, hr.log.trans hlog, hr.fault.trans hfault, hr.fired.trans hfired⟩
  have h1 := hr.leaf i
  have h2 := hleaf i
  cases e1 : w1.leaf? i with
  | none =>
    rw [e1] at h1
    cases e2 : w2.leaf? i with
    | some y => rw [e2] at h1; exact absurd h1 id
    | none =>
      rw [e2] at h2
      cases e3 : w2'.leaf? i with
      | none => trivial
      | some z => rw [e3] at h2; exact absurd h2 id
  | some x =>
    rw [e1] at h1
    cases e2 : w2.leaf? i with
    | none => rw [e2] at h1; exact absurd h1 id
    | some y =>
      rw [e2] at h1 h2
      cases e3 : w2'.leaf? i with
      | none => rw [e3] at h2; exact absurd h2 id
      | some z =>
        rw [e3] at h2
        exact ⟨h1.1, by rw [← h2.1]; exact h1.2.1,
          ⟨h1.2.2.wf, fun k => (h1.2.2.core k).trans (h2.2 k), h1.2.2.keys⟩⟩

theorem physEquiv_trans (a b c : World) (h1 : PhysEquiv a b) (h2 : PhysEquiv b c) : PhysEquiv a c := by
  obtain ⟨a1, a2, a3, a4, a5⟩ := h1
  obtain ⟨b1, b2, b3, b4, b5⟩ := h2
  refine ⟨a1.trans b1, a2.trans b2, a3.trans b3, a4.trans b4, fun i => ?_⟩
  have x := a5 i
  have y := b5 i
  cases e1 : a.leaf? i <;> cases e2 : b.leaf? i <;> cases e3 : c.leaf? i <;>
    rw [e1, e2] at x <;> rw [e2, e3] at y <;> simp only at x y ⊢ <;>
    first
      | trivial
      | exact absurd x id
      | exact absurd y id
      | exact ⟨x.1.trans y.1, fun k => (x.2 k).trans (y.2 k)⟩

/-- the hypotheses of `iter_perm` are jointly satisfiable with `R := RCore`, `E := PhysEquiv`
(steps that do nothing; the real instances are what is NOT proved) -/
example (w1 w2 : World) (hr : RCore w1 w2) :
    RCore (forEach (fun _ : Nat => (pure () : M Unit)) [1, 2, 3] w1).2
      (forEach (fun _ : Nat => (pure () : M Unit)) [3, 1, 2] w2).2 :=
  (iter_perm (R := RCore) (E := PhysEquiv) physEquiv_refl physEquiv_trans rcore_absorbs
    (step1 := fun _ : Nat => (pure () : M Unit)) (step2 := fun _ : Nat => (pure () : M Unit))
    (l1 := [1, 2, 3]) (l2 := [3, 1, 2])
    (fun c _ w1 w2 hr _ => ⟨rfl, hr⟩) (fun c w w' he _ => ⟨rfl, he⟩)
    (fun c c' _ w _ => ⟨rfl, physEquiv_refl _⟩) (by decide) w1 w2 hr rfl).2

/-- the loop of `remove_dir_all` is a `forEach` -/
def childStep (fuel : Nat) (c : VPath) : M Unit :=
  c.metadata >>= fun md =>
    match md.ftype with
    | .file => c.removeFile
    | .dir => VPath.removeDirAll fuel c

theorem removeChildren_cons (fuel : Nat) (c : VPath) (rest : List VPath) :
    VPath.removeChildren fuel (c :: rest) =
      childStep fuel c >>= fun _ => VPath.removeChildren fuel rest := by
  rw [VPath.removeChildren.eq_2]
  unfold childStep
  rw [M.bind_assoc3]
  congr 1
  funext md
  cases md.ftype <;> rfl

theorem removeChildren_eq (fuel : Nat) (l : List VPath) :
    VPath.removeChildren fuel l = forEach (childStep fuel) l := by
  induction l with
  | nil => unfold VPath.removeChildren forEach; rfl
  | cons c rest ih =>
    rw [forEach_cons, ← ih, removeChildren_cons]

/-- listings agree as SETS and are duplicate-free on both sides: they are permutations -/
theorem namesSet_perm {l1 l2 : List Str} (h : NamesSet l1 l2) (d1 : l1.Nodup) (d2 : l2.Nodup) :
    l1.Perm l2 := (List.perm_ext_iff_of_nodup d1 d2).2 h.1

end iter

/-! ### non-vacuity: the altroot over the two-layer overlay of Props/C02Stack.lean -/

theorem exStackI : StackI exFS := by
  refine StackI.altroot 20 [] (StackI.overlay exLayers (StackW.leaf 0) ?_ ?_ canon_nil ?_) canon_nil
  · intro l hl
    simp only [exLayers, List.mem_cons, List.mem_nil_iff, or_false] at hl
    rcases hl with rfl | rfl
    · exact StackI.w (StackW.leaf 0)
    · exact StackI.w (StackW.leaf 1)
  · intro l hl
    simp only [exLayers, List.mem_cons, List.mem_nil_iff, or_false] at hl
    rcases hl with rfl | rfl <;> exact canon_nil
  · intro l hl
    simp only [exLayers, List.mem_cons, List.mem_nil_iff, or_false] at hl
    rcases hl with rfl | rfl
    · intro _; rfl
    · intro h; exact absurd h (by decide)

def pG : Str := "/d/g".toList
def pM : Str := "/.whiteout/x_wo".toList
def pY : Str := "/y".toList

/-- a history with a `copy_file` (file source, through the overlay: generic route on both
backends), an append session on the overlay (copy-up is not needed here: the file is in the write
layer) and reads -/
def exOpsX : List OpX :=
  [.base (.createDir pD), .base (.write pF ["ab".toUTF8.toList]), .copyFile pF pG,
   .append pG ["!".toUTF8.toList], .base (.read pG), .copyFile pX pE, .base (.createDir pD)]

theorem exX_valid : ∀ op ∈ exOpsX, op.Valid exFS := by
  have hD : Canon pD := ⟨["d".toList], by decide, by decide⟩
  have hF : Canon pF := ⟨["d".toList, "f".toList], by decide, by decide⟩
  have hG : Canon pG := ⟨["d".toList, "g".toList], by decide, by decide⟩
  have hX : Canon pX := ⟨["x".toList], by decide, by decide⟩
  have hE : Canon pE := ⟨["e".toList], by decide, by decide⟩
  intro op hop
  simp only [exOpsX, List.mem_cons, List.mem_nil_iff, or_false] at hop
  rcases hop with rfl | rfl | rfl | rfl | rfl | rfl | rfl
  · exact ⟨hD, by decide⟩
  · exact ⟨hF, trivial⟩
  · exact ⟨hF, hG⟩
  · exact hG
  · exact ⟨hG, trivial⟩
  · exact ⟨hX, hE⟩
  · exact ⟨hD, by decide⟩

theorem notDirAt_of_eval {fs : FS} {p : Str} {w : World}
    (h : (fs.metadata p w).1.isOk = false ∨ (fs.metadata p w).1.map (·.ftype) = .ok .file) :
    NotDirAt fs p w := by
  intro md hm
  rw [hm] at h
  rcases h with h | h
  · cases h
  · simp only [Res.map, Res.ok.injEq] at h
    exact h

/-- the preconditions of the two `copy_file` calls hold when they are made: "/d/f" is a file,
"/x" is absent -/
theorem exX_pre : HistPre exFS 20 exOpsX (memWorld 2) := by
  refine ⟨trivial, trivial, notDirAt_of_eval (Or.inr (by decide +kernel)), trivial, trivial,
    notDirAt_of_eval (Or.inl (by decide +kernel)), trivial, trivial⟩

/-- `stackX_from_empty` instantiated -/
example := stackX_from_empty exStackI 20 2 exOpsX exX_valid exX_pre

/-- what it says there, evaluated by the kernel: the copy is made, the append session gives "ab!"
on both backends, the copy of the absent "/x" fails with not-found on both, the repeated
`create_dir` with `DirExists` -/
theorem ex_copy_outcomes :
    (runHistX exFS 20 exOpsX (memWorld 2)).1 =
      [.ok .unit, .ok .unit, .ok .unit, .ok .unit, .ok (.bytes "ab!".toUTF8.toList),
       .err .fileNotFound (some pX), .err .dirExists (some pD)] ∧
    (runHistX exFS 20 exOpsX (physWorld 2)).1 =
      [.ok .unit, .ok .unit, .ok .unit, .ok .unit, .ok (.bytes "ab!".toUTF8.toList),
       .err .fileNotFound (some pX), .err .dirExists (some pD)] := by
  decide +kernel

/-- the children loop with the recursive call abstracted (structural recursion on the list) -/
def rmChildrenWithS (rec : VPath → M Unit) : List VPath → M Unit
  | [] => pure ()
  | c :: rest => do
    let md ← c.metadata
    match md.ftype with
    | .file => c.removeFile
    | .dir => rec c
    rmChildrenWithS rec rest

/-- `remove_dir_all` by structural recursion on the fuel (the model's `removeDirAll` is compiled
by well-founded recursion, which the kernel does not evaluate) -/
def rmAllS : Nat → VPath → M Unit
  | 0, _ => M.ret .panic
  | fuel + 1, p => do
    if !(← p.exists_) then pure ()
    else
      let children ← p.readDir
      rmChildrenWithS (rmAllS fuel) children
      p.removeDir

theorem rmChildrenWithS_eq (fuel : Nat) (h : ∀ p, rmAllS fuel p = Vfs.VPath.removeDirAll fuel p) :
    ∀ l, rmChildrenWithS (rmAllS fuel) l = Vfs.VPath.removeChildren fuel l := by
  intro l
  induction l with
  | nil => rw [Vfs.VPath.removeChildren.eq_1]; rfl
  | cons c rest ih =>
    rw [Vfs.VPath.removeChildren.eq_2, rmChildrenWithS, ih, h c]
    rfl

theorem rmAllS_eq : ∀ fuel p, rmAllS fuel p = Vfs.VPath.removeDirAll fuel p := by
  intro fuel
  induction fuel with
  | zero => intro p; rw [Vfs.VPath.removeDirAll.eq_1]; rfl
  | succ fuel ih =>
    intro p
    rw [Vfs.VPath.removeDirAll.eq_2, rmAllS]
    have := rmChildrenWithS_eq fuel ih
    simp only [this]

/-- the iterating operations on the two concrete worlds (NOT covered by a theorem): a `copy_dir`
of a directory with two files and a `remove_dir_all`, through the altroot over the overlay -/
def exIter : M (List (Res Val)) := do
  let d : VPath := { fs := exFS, fsId := 20, path := pD }
  let f : VPath := { fs := exFS, fsId := 20, path := pF }
  let g : VPath := { fs := exFS, fsId := 20, path := pG }
  let e : VPath := { fs := exFS, fsId := 20, path := pE }
  let r1 ← M.attempt (d.createDir >>= fun _ => pure Val.unit)
  let r2 ← M.attempt (VPath.createSession f ["ab".toUTF8.toList] >>= fun _ => pure Val.unit)
  let r3 ← M.attempt (f.copyFile g >>= fun _ => pure Val.unit)
  let r4 ← M.attempt (Vfs.VPath.copyDir 8 d e >>= fun n => pure (Val.md .dir n))
  let r5 ← M.attempt (Vfs.VPath.removeDirAll 8 d >>= fun _ => pure Val.unit)
  let r6 ← M.attempt (d.exists_ >>= fun b => pure (Val.bool b))
  let r7 ← M.attempt (Vfs.VPath.removeDirAll 8 e >>= fun _ => pure Val.unit)
  pure [r1, r2, r3, r4, r5, r6, r7]

/-- same outcomes call by call (`copy_dir` returns the count 2 on both), and the final leaves
hold the same tree and bytes -/
theorem ex_iter_agrees :
    (exIter (memWorld 2)).1 = (exIter (physWorld 2)).1 ∧
    (exIter (memWorld 2)).1 = .ok [.ok .unit, .ok .unit, .ok .unit, .ok (.md .dir 2), .ok .unit,
      .ok (.bool false), .ok .unit] ∧
    ((exIter (memWorld 2)).2.leaves.zip (exIter (physWorld 2)).2.leaves).all
      (fun l => l.1.kind == .mem && l.2.kind == .phys && coreEqB l.1.files l.2.files) = true := by
  unfold exIter
  simp only [← rmAllS_eq]
  decide +kernel

/-- `move_file` onto the whiteout-marker path of its own source, through the overlay: the marker
hides the source as soon as the destination is created, `remove_file(source)` answers not-found on
BOTH backends and the destination keeps the bytes on both — no divergence -/
def exMove : M (List (Res Unit) × Res Bytes) := do
  let x : VPath := { fs := exFS, fsId := 20, path := pX }
  let y : VPath := { fs := exFS, fsId := 20, path := pY }
  let m : VPath := { fs := exFS, fsId := 20, path := pM }
  let r1 ← M.attempt (VPath.createSession x ["ab".toUTF8.toList])
  let r2 ← M.attempt (VPath.createSession y ["q".toUTF8.toList])
  let r3 ← M.attempt y.removeFile
  let r4 ← M.attempt (x.moveFile m)
  let b ← M.attempt (VPath.readAll m)
  pure ([r1, r2, r3, r4], b)

theorem ex_move_marker :
    (exMove (memWorld 2)).1 = (exMove (physWorld 2)).1 ∧
    (exMove (memWorld 2)).1 =
      .ok ([.ok (), .ok (), .ok (), .err .fileNotFound (some pX)], .ok "ab".toUTF8.toList) := by
  decide +kernel

/-! ### what is not proved -/

/-- `move_file` (NOT PROVED, see the header) -/
def move_stmt : Prop :=
  ∀ (fs : FS), StackI fs → ∀ (id : Nat) (s d : Str), Canon s → Canon d →
    CSimP (NotDirAt fs s) RCore KRel (· = ·)
      (Vfs.VPath.moveFile { fs := fs, fsId := id, path := s } { fs := fs, fsId := id, path := d })
      (Vfs.VPath.moveFile { fs := fs, fsId := id, path := s } { fs := fs, fsId := id, path := d })

/-- an overlay as the WRITE layer of another overlay (NOT PROVED: `createClear` and `clearT` of
`SimW`; the append session IS proved: `append_agree`) -/
def overlayW_stmt : Prop :=
  ∀ (layers : List VPath), StackI (Overlay.fs layers) →
    SimW RCore (Overlay.fs layers) (Overlay.fs layers)

/-- the success case of `remove_dir_all` (NOT PROVED: needs `RespectsE` / `CommutesE` of the child
steps on the physical side and duplicate-free listings, see `iter_perm`) -/
def removeDirAll_success_stmt : Prop :=
  ∀ (fs : FS), StackI fs → ∀ (id fuel : Nat) (s : Str), Canon s → s ≠ [] →
    ∀ w1 w2, RCore w1 w2 →
      (Vfs.VPath.removeDirAll fuel { fs := fs, fsId := id, path := s } w1).1 = .ok () →
      (Vfs.VPath.removeDirAll fuel { fs := fs, fsId := id, path := s } w2).1 = .ok () ∧
      RCore (Vfs.VPath.removeDirAll fuel { fs := fs, fsId := id, path := s } w1).2
        (Vfs.VPath.removeDirAll fuel { fs := fs, fsId := id, path := s } w2).2

#print axioms stackI_all
#print axioms copy_agree
#print axioms copy_cross_agree
#print axioms copy_agree_isFile
#print axioms copy_guarded_agree
#print axioms append_agree
#print axioms stackX_agree
#print axioms stackX_history_agree
#print axioms stackX_from_empty
#print axioms iter_perm
#print axioms perm_commute
#print axioms rcore_absorbs
#print axioms ex_copy_outcomes
#print axioms ex_iter_agrees
#print axioms ex_move_marker
#print axioms exX_pre

end Vfs.C02
