/-
  C11 THROUGH AN OVERLAY — the composite `VfsPath` operations on an overlay over n ≥ 1 in-memory
  layers are exact relative to the overlay's view `oview`.

  SETTING (as in Props/C09Contract.lean / C01Overlay.lean): `h : OWN w (u :: is) (idu :: ids)
  (mu :: ms)` (pairwise distinct memory leaves whose roots are the layers; `mu` upper map, `ms`
  lower maps), `inv : OInv mu ms`, `hv : ViewWF (oview (mu :: ms))` — invariants of every
  disciplined history. Paths: `OpPath cs` (canonical, non-root, first component ≠ ".whiteout", no
  component ending in "_wo"). The calls are the USER-LEVEL ones of VfsModel/PathOps.lean on
  `⟨Overlay.fs (layersN …), id, renderC cs⟩`, any `id`. Entries are compared by `vcore` (type,
  bytes of a file); "visible" = `Vis` (root and every absolute path outside ".whiteout").
  "Lower layers unchanged" (1., 2.) = the resulting world is `w.setLeafFiles u mu'` and is again
  in the setting with the SAME `ms`; where a file is READ (3., 4.) the serving layer gets an access
  stamp, and the statement is `LowerSame ms ms'` (same maps up to access times).

  PROVED (no sorry; axioms propext, Classical.choice, Quot.sound)
  1. `overlay_createDirAll_exact`: no prefix of `cs` is a FILE of the view ⇒ `create_dir_all`
     returns Ok; afterwards every prefix is a directory of the view; every visible path that is
     not a prefix keeps its `vcore` (frame); every previously present visible path keeps its
     `vcore`; only the upper leaf changed; `OWN`/`OInv`/`ViewWF` (and `NamesOK`) hold again.
     `overlay_createDirAll_file_prefix`: the prefix `a ++ [c]` of `a ++ c :: b` is a file of the
     view ⇒ `FileExists` labelled with THAT PREFIX; the prefixes before it were directories of the
     view already (well-formed view: ancestors of a present path), so nothing visible is created:
     the view is unchanged (`VSame`; the upper map may have materialised lower directories, which
     `vcore` does not see); invariants again.
     `overlay_createDirAll_existing`: every prefix a directory already ⇒ Ok, view unchanged.
  2. `overlay_removeDirAll_exact`: `cs` a directory of the view, name discipline `NamesOK`
     (Props/C05WalkView.lean: every present bare name below a disciplined path is a canonical
     component not ending in "_wo" — what `read_dir` lists must be a legal operand), fuel above
     the depth of the subtree (`FuelOK`: every present disciplined `cs ++ ts` has `|ts| < fuel`;
     `fuelOK_of_keys` is a decidable sufficient check) ⇒ Ok; `cs` and EVERY disciplined path at or
     below it (`InSub cs`; `inSub_iff`: = `OVis q ∧ within (renderC cs) q`) is absent afterwards;
     every other visible path keeps its `vcore`; only the upper leaf changed; all invariants
     (`NamesOK` included) hold again. NO O3 hypothesis is needed: the recursion asks `metadata`
     first and calls `remove_file` only on files of the view, `remove_dir_all` on directories —
     this is proved, not assumed (Proofs/OverlayRemoveAll.lean, full mutual induction).
     `overlay_removeDirAll_absent`: absent path ⇒ Ok, world unchanged.
     `overlay_removeDirAll_file`: a FILE of the view ⇒ `Other` labelled with the path (from
     `read_dir`), world unchanged.
  3. `overlay_copyFile_exact` / `overlay_moveFile_exact` WITHIN one overlay (any two `Arc`
     identities: the overlay's own `copy_file` / `move_file` answer NotSupported, so the generic
     route open_file → create_file → write → [remove_file] → drop runs): source a file of the view
     holding `bs`, destination absent below a directory of the view ⇒ Ok; the destination is a
     file of the view holding exactly `bs`; copy: the source still holds `bs`, every visible path
     other than the destination keeps its `vcore`; move: the source is absent, every visible path
     other than source and destination keeps its `vcore`; the lower maps are unchanged UP TO THE
     ACCESS STAMP of the source entry (`LowerSame`: `open_file` stamps the serving layer — upper or
     lower — literally what the code does); invariants again.
     `overlay_transfer_refused`: an existing destination (file or directory of the view) ⇒ both
     fail with `Other` labelled with the source path, the WORLD is unchanged.
     `overlay_transfer_missing_source`: source absent from the view ⇒ both fail with not-found
     labelled with the source path, the world is unchanged.
  4. Props/C11OverlayDir.lean: `copy_dir` (with the count) and `move_dir` of a flat directory.
  5. Non-vacuity: the 3-layer world of Props/C09Refine.lean (theorems instantiated, hypotheses by
     `decide`, results re-evaluated independently by `decide +kernel`), and a nested 3-layer tree
     of depth 3 for `remove_dir_all` (with the exact out-of-fuel behaviour at fuel 2).
  NOT PROVED: the root as operand of `remove_dir_all` (its final `remove_dir("")` is outside the
  path discipline); undisciplined strings below `cs` (they are never listed, never operated on
  and are covered by the FRAME clause: they keep their `vcore`); a missing destination parent for
  copy_file / move_file (it fails in `get_parent`; not stated here); `copy_file` /
  `move_file` between an overlay and another filesystem; layers that are not roots of memory
  leaves; nested `copy_dir` / `move_dir` through the overlay.
-/
import VfsModel.Proofs.OverlayRemoveAll
import VfsModel.Proofs.OverlayCreateAll
import VfsModel.Proofs.OverlayTransfer
set_option linter.unusedSimpArgs false
set_option linter.unusedVariables false
set_option linter.unusedSectionVars false
namespace Vfs.C11
open Vfs Vfs.Overlay Vfs.C02 Vfs.C01 Vfs.C09 Vfs.C05 Vfs.Wk

instance (v : View) (p : Str) : Decidable (VIsFile v p) :=
  decidable_of_iff ((v p).any (fun e => decide (e.ftype = .file)) = true)
    (by unfold VIsFile; cases v p <;> simp)

/-- a decidable form of "no prefix is a file of the view" -/
theorem noFilePrefix_of_check {v : View} {cs : List Str}
    (h : ∀ k ∈ List.range cs.length, ¬ VIsFile v (renderC (cs.take (k + 1)))) :
    ∀ j, 1 ≤ j → j ≤ cs.length → ¬ VIsFile v (renderC (cs.take j)) := by
  intro j h1 h2
  obtain ⟨k, rfl⟩ : ∃ k, j = k + 1 := ⟨j - 1, by omega⟩
  exact h k (List.mem_range.2 (by omega))

/-- `remove_dir_all` by structural recursion (the kernel can evaluate this one; the model's
`removeDirAll` is a mutual definition) -/
def rmChildrenK (rec : VPath → M Unit) : List VPath → M Unit
  | [] => pure ()
  | c :: rest => do
    let md ← c.metadata
    match md.ftype with
    | .file => c.removeFile
    | .dir => rec c
    rmChildrenK rec rest

def rmAllK : Nat → VPath → M Unit
  | 0, _ => M.ret .panic
  | fuel + 1, p => do
    if !(← p.exists_) then pure ()
    else
      let children ← p.readDir
      rmChildrenK (rmAllK fuel) children
      p.removeDir

theorem rmChildrenK_eq (fuel : Nat) (h : ∀ p, rmAllK fuel p = VPath.removeDirAll fuel p) :
    ∀ l, rmChildrenK (rmAllK fuel) l = VPath.removeChildren fuel l := by
  intro l
  induction l with
  | nil => rw [VPath.removeChildren.eq_1]; rfl
  | cons c rest ih =>
    rw [VPath.removeChildren.eq_2, rmChildrenK, ih, h c]
    rfl

theorem rmAllK_eq : ∀ fuel p, rmAllK fuel p = VPath.removeDirAll fuel p := by
  intro fuel
  induction fuel with
  | zero => intro p; rw [VPath.removeDirAll.eq_1]; rfl
  | succ fuel ih =>
    intro p
    rw [VPath.removeDirAll.eq_2, rmAllK]
    have := rmChildrenK_eq fuel ih
    simp only [this]

/-! ## 1. create_dir_all -/

section createAll
variable {w : World} {u idu : Nat} {mu : FMap} {is ids : List Nat} {ms : List FMap}
  (h : OWN w (u :: is) (idu :: ids) (mu :: ms)) (inv : OInv mu ms)
  (hv : ViewWF (oview (mu :: ms))) (id : Nat)
include h inv hv

/-- **create_dir_all through the overlay, no prefix a file of the view**: Ok; every prefix is a
directory of the view afterwards; every visible path that is not a prefix, and every visible path
that was present, keeps its type and bytes; only the upper leaf changed; invariants again. -/
theorem overlay_createDirAll_exact {cs : List Str} (hp : OpPath cs)
    (hnf : ∀ j, 1 ≤ j → j ≤ cs.length → ¬ VIsFile (oview (mu :: ms)) (renderC (cs.take j))) :
    ∃ mu', VPath.createDirAll ⟨Overlay.fs (layersN (u :: is) (idu :: ids)), id, renderC cs⟩ w
        = (.ok (), w.setLeafFiles u mu') ∧
      OWN (w.setLeafFiles u mu') (u :: is) (idu :: ids) (mu' :: ms) ∧ OInv mu' ms ∧
      ViewWF (oview (mu' :: ms)) ∧ (NamesOK (mu :: ms) → NamesOK (mu' :: ms)) ∧
      (∀ j, 1 ≤ j → j ≤ cs.length → VIsDir (oview (mu' :: ms)) (renderC (cs.take j))) ∧
      (∀ q, Vis q → (∀ j, 1 ≤ j → j ≤ cs.length → q ≠ renderC (cs.take j)) →
        (oview (mu' :: ms) q).map vcore = (oview (mu :: ms) q).map vcore) ∧
      (∀ q, Vis q → oview (mu :: ms) q ≠ none →
        (oview (mu' :: ms) q).map vcore = (oview (mu :: ms) q).map vcore) := by
  have st : OSt u idu is ids ms w mu := ⟨h, inv, hv⟩
  obtain ⟨mu', hrun, st', hn', hM⟩ := cda_loop
    (⟨Overlay.fs (layersN (u :: is) (idu :: ids)), id, renderC cs⟩ : VPath) rfl cs [] w mu st
    (rootIsDir inv.root) (fun _ => hp) hnf
  unfold Made at hM
  simp only [List.nil_append] at hM
  refine ⟨mu', ?_, st'.own, st'.inv, st'.vwf, hn', hM.1, hM.2, ?_⟩
  · unfold VPath.createDirAll
    simp only [renderC_ne_nil hp.ne, if_false, dirPrefixes_renderC cs (good_noSlash hp.good)]
    exact hrun
  · intro q hq hpres
    open Classical in
    by_cases hpre : ∃ j, 1 ≤ j ∧ j ≤ cs.length ∧ q = renderC (cs.take j)
    · obtain ⟨j, h1, h2, rfl⟩ := hpre
      obtain ⟨e, he⟩ := (C05.ne_none_iff _).1 hpres
      have hdir : e.ftype = .dir := by
        cases hft : e.ftype with
        | dir => rfl
        | file => exact absurd ⟨e, he, hft⟩ (hnf j h1 h2)
      obtain ⟨e', he', hdir'⟩ := hM.1 j h1 h2
      rw [he, he']
      simp only [Option.map_some, vcore_dir hdir, vcore_dir hdir']
    · exact hM.2 q hq (fun j h1 h2 h0 => hpre ⟨j, h1, h2, h0⟩)

/-- **create_dir_all below a FILE of the view**: `FileExists` labelled with the file prefix; the
prefixes before it were directories of the view already, nothing visible changes (`VSame`);
invariants again. -/
theorem overlay_createDirAll_file_prefix (a b : List Str) (c : Str) (hp : OpPath (a ++ c :: b))
    (hf : VIsFile (oview (mu :: ms)) (renderC (a ++ [c]))) :
    ∃ mu', VPath.createDirAll
        ⟨Overlay.fs (layersN (u :: is) (idu :: ids)), id, renderC (a ++ c :: b)⟩ w
        = (.err .fileExists (some (renderC (a ++ [c]))), w.setLeafFiles u mu') ∧
      OWN (w.setLeafFiles u mu') (u :: is) (idu :: ids) (mu' :: ms) ∧ OInv mu' ms ∧
      ViewWF (oview (mu' :: ms)) ∧ (NamesOK (mu :: ms) → NamesOK (mu' :: ms)) ∧
      VSame (oview (mu :: ms)) (oview (mu' :: ms)) ∧
      (∀ j, 1 ≤ j → j ≤ a.length → VIsDir (oview (mu :: ms)) (renderC (a.take j))) := by
  have st : OSt u idu is ids ms w mu := ⟨h, inv, hv⟩
  obtain ⟨mu', hrun, st', hn', hs⟩ := cdf_loop
    (⟨Overlay.fs (layersN (u :: is) (idu :: ids)), id, renderC (a ++ c :: b)⟩ : VPath) rfl c b a []
    w mu st (rootIsDir inv.root) (by simpa using hp) (by simpa using hf)
  simp only [List.nil_append] at hrun
  refine ⟨mu', ?_, st'.own, st'.inv, st'.vwf, hn', hs, ?_⟩
  · unfold VPath.createDirAll
    simp only [renderC_ne_nil hp.ne, if_false, dirPrefixes_renderC _ (good_noSlash hp.good)]
    exact hrun
  · intro j h1 h2
    have hne : a.take j ≠ [] := by
      intro h0
      have := congrArg List.length h0
      rw [List.length_take, List.length_nil] at this; omega
    have hpf : OpPath (a ++ [c]) := by
      have : OpPath ((a ++ [c]) ++ b) := by rw [← List.append_cons]; exact hp
      exact this.prefix (by simp)
    have hsplit : a ++ [c] = a.take j ++ (a.drop j ++ [c]) := by
      rw [← List.append_assoc, List.take_append_drop]
    exact present_below_dir hv hne (a.drop j ++ [c]) (by simp) (by rw [← hsplit]; exact hpf)
      (by rw [← hsplit]; exact not_absent_of_file hf)

/-- **create_dir_all is idempotent**: when every prefix is a directory of the view already, it
succeeds and nothing visible changes -/
theorem overlay_createDirAll_existing {cs : List Str} (hp : OpPath cs)
    (hall : ∀ j, 1 ≤ j → j ≤ cs.length → VIsDir (oview (mu :: ms)) (renderC (cs.take j))) :
    ∃ mu', VPath.createDirAll ⟨Overlay.fs (layersN (u :: is) (idu :: ids)), id, renderC cs⟩ w
        = (.ok (), w.setLeafFiles u mu') ∧
      OWN (w.setLeafFiles u mu') (u :: is) (idu :: ids) (mu' :: ms) ∧ OInv mu' ms ∧
      ViewWF (oview (mu' :: ms)) ∧ VSame (oview (mu :: ms)) (oview (mu' :: ms)) := by
  obtain ⟨mu', hrun, a, b, c, _, _, hfr, hold⟩ := overlay_createDirAll_exact h inv hv id hp
    (fun j h1 h2 hf => not_file_and_dir hf (hall j h1 h2))
  refine ⟨mu', hrun, a, b, c, fun q hq => ?_⟩
  cases hvq : oview (mu :: ms) q with
  | some e => rw [← hvq]; exact hold q hq (by rw [hvq]; simp)
  | none =>
    rw [← hvq]
    exact hfr q hq (fun j h1 h2 h0 => not_absent_of_dir (hall j h1 h2) (by rw [← h0]; exact hvq))

end createAll

/-! ## 2. remove_dir_all -/

/-- a decidable sufficient check of the depth bound `FuelOK` on the keys of the layer maps: every
key below `renderC cs` is shorter than `|renderC cs| + 2 * fuel` (a component takes at least two
characters of the rendered string) -/
theorem fuelOK_of_keys {all : List FMap} {cs : List Str} {fuel : Nat} (hne : cs ≠ [])
    (hk : ∀ m ∈ all, ∀ k ∈ m.keys, (renderC cs).isPrefixOf k = true →
      k.length < (renderC cs).length + 2 * fuel) : FuelOK (oview all) cs fuel := by
  intro ts hp hpres
  have hne' : renderC (cs ++ ts) ≠ [] := renderC_ne_nil (by simp [hne])
  rw [oview_ne hne'] at hpres
  obtain ⟨m, hm, hkm⟩ := C05.viewN_some_key hpres
  have hpre : (renderC cs).isPrefixOf (renderC (cs ++ ts)) = true := by
    rw [List.isPrefixOf_iff_prefix, renderC_append]; exact List.prefix_append _ _
  have hlen := hk m hm _ hkm hpre
  have hts : ∀ l : List Str, (∀ c ∈ l, GoodComp c) → 2 * l.length ≤ (renderC l).length := by
    intro l
    induction l with
    | nil => intro _; simp
    | cons x l ih =>
      intro hg
      have hx : x ≠ [] := (hg x (by simp)).1
      have : 1 ≤ x.length := List.length_pos_iff.2 hx
      have := ih (fun c hc => hg c (by simp [hc]))
      rw [renderC_cons, List.length_append, List.length_cons, List.length_cons]
      omega
  have := hts ts (fun c hc => hp.good c (by simp [hc]))
  rw [renderC_append, List.length_append] at hlen
  omega

/-- `InSub`, read on strings: the disciplined strings equal to or below `renderC cs` by name -/
theorem inSub_iff {cs : List Str} (hp : OpPath cs) (q : Str) :
    InSub cs q ↔ (OVis q ∧ within (renderC cs) q = true) := by
  constructor
  · rintro ⟨ts, hpt, rfl⟩
    refine ⟨Or.inr ⟨_, hpt, rfl⟩, ?_⟩
    unfold within
    cases ts with
    | nil => simp
    | cons t ts =>
      have : below (renderC cs) (renderC (cs ++ t :: ts)) = true := by
        rw [below_iff, renderC_append, renderC_cons]
        exact ⟨t ++ renderC ts, by simp⟩
      rw [this]; simp
  · rintro ⟨hvis, hw⟩
    unfold within at hw
    rcases Bool.or_eq_true _ _ ▸ hw with h0 | h0
    · have : q = renderC cs := by simpa using h0
      rw [this]; exact InSub.self hp
    · obtain ⟨t, ht⟩ := (below_iff _ _).1 h0
      rcases hvis with rfl | ⟨cs', hcs', rfl⟩
      · simp at ht
      · -- `cs` is a proper prefix of `cs'`
        have key : ∀ (a b : List Str) (t : Str), (∀ c ∈ a, '/' ∉ c) → (∀ c ∈ b, '/' ∉ c) →
            renderC b = renderC a ++ '/' :: t → ∃ ts, b = a ++ ts := by
          intro a
          induction a with
          | nil => intro b t _ _ _; exact ⟨b, rfl⟩
          | cons x a ih =>
            intro b t ha hb heq
            cases b with
            | nil => simp at heq
            | cons y b =>
              rw [renderC_cons, renderC_cons] at heq
              simp only [List.cons_append, List.cons.injEq, true_and, List.append_assoc] at heq
              have hx := takeWhile_noSlash x (renderC a ++ '/' :: t) (ha x (by simp))
                (Or.inr (by cases a <;> simp))
              have hy := takeWhile_noSlash y (renderC b) (hb y (by simp)) (renderC_nil_or_head b)
              rw [heq, hx] at hy
              subst hy
              have heq' := List.append_cancel_left heq
              obtain ⟨ts, rfl⟩ := ih b t (fun c hc => ha c (by simp [hc]))
                (fun c hc => hb c (by simp [hc])) heq'
              exact ⟨ts, rfl⟩
        obtain ⟨ts, rfl⟩ := key cs cs' t (good_noSlash hp.good) (good_noSlash hcs'.good) ht
        exact ⟨ts, hcs', rfl⟩

section removeAll
variable {w : World} {u idu : Nat} {mu : FMap} {is ids : List Nat} {ms : List FMap}
  (h : OWN w (u :: is) (idu :: ids) (mu :: ms)) (inv : OInv mu ms)
  (hv : ViewWF (oview (mu :: ms))) (id : Nat)
include h inv

omit inv in
/-- **remove_dir_all on an absent path**: Ok, nothing happens -/
theorem overlay_removeDirAll_absent {cs : List Str} (hp : OpPath cs)
    (ha : oview (mu :: ms) (renderC cs) = none) (fuel : Nat) :
    VPath.removeDirAll (fuel + 1)
      ⟨Overlay.fs (layersN (u :: is) (idu :: ids)), id, renderC cs⟩ w = (.ok (), w) := by
  have hex : VPath.exists_ ⟨Overlay.fs (layersN (u :: is) (idu :: ids)), id, renderC cs⟩ w
      = (.ok false, w) := by
    show (Overlay.fs (layersN (u :: is) (idu :: ids))).exists_ (renderC cs) w = _
    rw [exists_is_viewN h cs hp.ne hp.good, ← oview_ne (renderC_ne_nil hp.ne), ha]; rfl
  rw [VPath.removeDirAll.eq_2]
  simp only [bind, M.bind, hex]
  rfl

/-- **remove_dir_all on a FILE of the view**: `read_dir` refuses it — `Other` labelled with the
path, the world is unchanged -/
theorem overlay_removeDirAll_file {cs : List Str} (hp : OpPath cs)
    (hf : VIsFile (oview (mu :: ms)) (renderC cs)) (fuel : Nat) :
    VPath.removeDirAll (fuel + 1)
      ⟨Overlay.fs (layersN (u :: is) (idu :: ids)), id, renderC cs⟩ w
      = (.err .other (some (renderC cs)), w) := by
  obtain ⟨e, he, hft⟩ := hf
  have hex : VPath.exists_ ⟨Overlay.fs (layersN (u :: is) (idu :: ids)), id, renderC cs⟩ w
      = (.ok true, w) := by
    show (Overlay.fs (layersN (u :: is) (idu :: ids))).exists_ (renderC cs) w = _
    rw [exists_is_viewN h cs hp.ne hp.good, ← oview_ne (renderC_ne_nil hp.ne), he]; rfl
  have hspec := overlay_readDir_spec h inv cs hp.good hp.nowo
  rw [he] at hspec
  simp only [hft, reduceCtorEq, if_false] at hspec
  have hrd : VPath.readDir ⟨Overlay.fs (layersN (u :: is) (idu :: ids)), id, renderC cs⟩ w
      = (.err .other (some (renderC cs)), w) := by
    show (do let names ← M.withPath (renderC cs)
                ((Overlay.fs (layersN (u :: is) (idu :: ids))).readDir (renderC cs))
             pure (names.map fun n =>
               (VPath.withStr ⟨Overlay.fs (layersN (u :: is) (idu :: ids)), id, renderC cs⟩
                 (renderC cs ++ '/' :: n))) : M (List VPath)) w = _
    simp only [bind, M.bind, run_withPath, hspec, Res.withPath]
  rw [VPath.removeDirAll.eq_2]
  simp only [bind, M.bind, hex, hrd, Bool.not_true, Bool.false_eq_true, if_false]

include hv in
/-- **remove_dir_all through the overlay removes exactly the subtree.** `cs` a directory of the
view, name discipline, fuel above the depth of the subtree: Ok; `cs` and every disciplined path
at or below it is absent from the view afterwards; every other visible path keeps its type and
bytes; only the upper leaf changed (the lower maps `ms` are the same); all invariants hold again. -/
theorem overlay_removeDirAll_exact (hn : NamesOK (mu :: ms)) (fuel : Nat) {cs : List Str}
    (hp : OpPath cs) (hd : VIsDir (oview (mu :: ms)) (renderC cs))
    (hfuel : FuelOK (oview (mu :: ms)) cs fuel) :
    ∃ mu', VPath.removeDirAll fuel
        ⟨Overlay.fs (layersN (u :: is) (idu :: ids)), id, renderC cs⟩ w
        = (.ok (), w.setLeafFiles u mu') ∧
      OWN (w.setLeafFiles u mu') (u :: is) (idu :: ids) (mu' :: ms) ∧ OInv mu' ms ∧
      ViewWF (oview (mu' :: ms)) ∧ NamesOK (mu' :: ms) ∧
      (∀ q, InSub cs q → oview (mu' :: ms) q = none) ∧
      (∀ q, Vis q → ¬ InSub cs q →
        (oview (mu' :: ms) q).map vcore = (oview (mu :: ms) q).map vcore) := by
  obtain ⟨mu', hrun, st', hn', hG⟩ := rda_all (id := id) fuel w mu cs ⟨h, inv, hv⟩ hn hp hd hfuel
  exact ⟨mu', hrun, st'.own, st'.inv, st'.vwf, hn', hG.1, hG.2⟩

include hv in
/-- the same, with the subtree read on strings: the disciplined strings equal to `renderC cs` or
below it by name -/
theorem overlay_removeDirAll_exact_str (hn : NamesOK (mu :: ms)) (fuel : Nat) {cs : List Str}
    (hp : OpPath cs) (hd : VIsDir (oview (mu :: ms)) (renderC cs))
    (hfuel : FuelOK (oview (mu :: ms)) cs fuel) :
    ∃ mu', VPath.removeDirAll fuel
        ⟨Overlay.fs (layersN (u :: is) (idu :: ids)), id, renderC cs⟩ w
        = (.ok (), w.setLeafFiles u mu') ∧
      OWN (w.setLeafFiles u mu') (u :: is) (idu :: ids) (mu' :: ms) ∧ OInv mu' ms ∧
      ViewWF (oview (mu' :: ms)) ∧ NamesOK (mu' :: ms) ∧
      (∀ q, OVis q → within (renderC cs) q = true → oview (mu' :: ms) q = none) ∧
      (∀ q, Vis q → ¬ (OVis q ∧ within (renderC cs) q = true) →
        (oview (mu' :: ms) q).map vcore = (oview (mu :: ms) q).map vcore) := by
  obtain ⟨mu', a, b, c, d, e, f, g⟩ := overlay_removeDirAll_exact h inv hv id hn fuel hp hd hfuel
  exact ⟨mu', a, b, c, d, e, fun q h1 h2 => f q ((inSub_iff hp q).2 ⟨h1, h2⟩),
    fun q hq hns => g q hq (fun h0 => hns ((inSub_iff hp q).1 h0))⟩

end removeAll


/-! ## 3. copy_file / move_file within one overlay -/

section transfer
variable {w : World} {u idu : Nat} {mu : FMap} {is ids : List Nat} {ms : List FMap}
  (h : OWN w (u :: is) (idu :: ids) (mu :: ms)) (inv : OInv mu ms)
  (hv : ViewWF (oview (mu :: ms))) (id id' : Nat)
include h

/-- **an existing destination is refused without side effects** (file or directory of the
view): `copy_file` and `move_file` answer `Other` labelled with the SOURCE path, the world is
unchanged -/
theorem overlay_transfer_refused (s : Str) {cs : List Str} (hp : OpPath cs)
    (hpres : oview (mu :: ms) (renderC cs) ≠ none) :
    VPath.copyFile ⟨Overlay.fs (layersN (u :: is) (idu :: ids)), id, s⟩
        ⟨Overlay.fs (layersN (u :: is) (idu :: ids)), id', renderC cs⟩ w
      = (.err .other (some s), w) ∧
    VPath.moveFile ⟨Overlay.fs (layersN (u :: is) (idu :: ids)), id, s⟩
        ⟨Overlay.fs (layersN (u :: is) (idu :: ids)), id', renderC cs⟩ w
      = (.err .other (some s), w) := by
  have hex : VPath.exists_ ⟨Overlay.fs (layersN (u :: is) (idu :: ids)), id', renderC cs⟩ w
      = (.ok true, w) := by
    show (Overlay.fs (layersN (u :: is) (idu :: ids))).exists_ (renderC cs) w = _
    rw [exists_is_viewN h cs hp.ne hp.good, ← oview_ne (renderC_ne_nil hp.ne)]
    obtain ⟨e, he⟩ := (C05.ne_none_iff _).1 hpres
    rw [he]; rfl
  constructor
  · unfold VPath.copyFile
    simp [M.withPath, bind, M.bind, hex, M.failAt, Res.withPath]
  · unfold VPath.moveFile
    simp [M.withPath, bind, M.bind, hex, M.failAt, Res.withPath]

include inv in
/-- **a missing source**: destination absent, source absent from the view ⇒ `copy_file` and
`move_file` fail with not-found labelled with the source path, the world is unchanged -/
theorem overlay_transfer_missing_source {ss cs : List Str} (hs : OpPath ss) (hp : OpPath cs)
    (hsabs : oview (mu :: ms) (renderC ss) = none) (hdabs : oview (mu :: ms) (renderC cs) = none) :
    VPath.copyFile ⟨Overlay.fs (layersN (u :: is) (idu :: ids)), id, renderC ss⟩
        ⟨Overlay.fs (layersN (u :: is) (idu :: ids)), id', renderC cs⟩ w
      = (.err .fileNotFound (some (renderC ss)), w) ∧
    VPath.moveFile ⟨Overlay.fs (layersN (u :: is) (idu :: ids)), id, renderC ss⟩
        ⟨Overlay.fs (layersN (u :: is) (idu :: ids)), id', renderC cs⟩ w
      = (.err .fileNotFound (some (renderC ss)), w) := by
  have hex : VPath.exists_ ⟨Overlay.fs (layersN (u :: is) (idu :: ids)), id', renderC cs⟩ w
      = (.ok false, w) := by
    show (Overlay.fs (layersN (u :: is) (idu :: ids))).exists_ (renderC cs) w = _
    rw [exists_is_viewN h cs hp.ne hp.good, ← oview_ne (renderC_ne_nil hp.ne), hdabs]; rfl
  have hopen : VPath.openFile ⟨Overlay.fs (layersN (u :: is) (idu :: ids)), id, renderC ss⟩ w
      = (.err .fileNotFound (some (renderC ss)), w) := by
    show M.withPath (renderC ss)
      ((Overlay.fs (layersN (u :: is) (idu :: ids))).openFile (renderC ss)) w = _
    rw [run_withPath, (overlay_absent_all_fail h inv hs hsabs).2.2.2]; rfl
  constructor
  · unfold VPath.copyFile
    simp only [M.withPath, bind, M.bind, hex, overlay_fast_copy, fail, hopen, Res.withPath,
      Bool.false_eq_true, if_false, ne_eq, not_true_eq_false]
  · unfold VPath.moveFile
    simp only [M.withPath, bind, M.bind, hex, overlay_fast_move, fail, hopen, Res.withPath,
      Bool.false_eq_true, if_false, ne_eq, not_true_eq_false]

include inv hv

/-- **copy_file within one overlay** (any `Arc` identities of the two paths; the generic route
runs because the overlay's `copy_file` answers NotSupported): source a file of the view holding
`bs`, destination absent below a directory of the view ⇒ Ok; the destination is a file of the
view holding exactly `bs`; the source still holds `bs`; every visible path other than the
destination keeps its type and bytes; the lower maps are unchanged up to the access stamp of the
source (`LowerSame`, from `open_file`); the invariants hold again. -/
theorem overlay_copyFile_exact {ss dd : List Str} {n : Str} (hs : OpPath ss)
    (hd : OpPath (dd ++ [n])) {bs : Bytes}
    (hsrc : VHasFile (oview (mu :: ms)) (renderC ss) bs)
    (hpar : VIsDir (oview (mu :: ms)) (renderC dd))
    (habs : VAbsent (oview (mu :: ms)) (renderC (dd ++ [n]))) :
    ∃ w' mu' ms', VPath.copyFile ⟨Overlay.fs (layersN (u :: is) (idu :: ids)), id, renderC ss⟩
        ⟨Overlay.fs (layersN (u :: is) (idu :: ids)), id', renderC (dd ++ [n])⟩ w = (.ok (), w') ∧
      OWN w' (u :: is) (idu :: ids) (mu' :: ms') ∧ LowerSame ms ms' ∧ OInv mu' ms' ∧
      ViewWF (oview (mu' :: ms')) ∧ (NamesOK (mu :: ms) → NamesOK (mu' :: ms')) ∧
      VHasFile (oview (mu' :: ms')) (renderC (dd ++ [n])) bs ∧
      VHasFile (oview (mu' :: ms')) (renderC ss) bs ∧
      VFrame (oview (mu :: ms)) (oview (mu' :: ms')) (renderC (dd ++ [n])) := by
  have st : OSt u idu is ids ms w mu := ⟨h, inv, hv⟩
  have hex := o_exists st id' hd
  rw [show oview (mu :: ms) (renderC (dd ++ [n])) = none from habs] at hex
  obtain ⟨w1, mu1, ms1, hopen, st1, hm1, hl1, hs1, hn1⟩ := o_openFile_step st id hs hsrc
  have hd1 : VIsDir (oview (mu1 :: ms1)) (renderC dd) := (isDir_of_vcore (hs1 _ hd.parentVis)).2 hpar
  have habs1 : VAbsent (oview (mu1 :: ms1)) (renderC (dd ++ [n])) :=
    (none_of_vcore (hs1 _ hd.vis)).2 habs
  obtain ⟨mu2, hcreate, st2, hn2, hfind2, hview2, hframe2⟩ := o_createFile_step st1 id' hd hd1
    (fun hdd => not_absent_of_dir hdd habs1)
  obtain ⟨mu3, hdrop, st3, hn3, hfile3, hframe3⟩ := o_publish_step st2 hd hfind2 rfl
    (cursorWrite [] 0 bs) (0 + bs.length)
  rw [World.setLeafFiles_twice] at hdrop st3
  rw [cursorWrite_nil] at hfile3
  have hwrite : WHandle.writeAllAndDrop
      { leaf := u, key := renderC (dd ++ [n]), kind := .memFile, buf := [], pos := 0 } bs
      (w1.setLeafFiles u mu2) = (.ok (), w1.setLeafFiles u mu3) := by
    simp only [WHandle.writeAllAndDrop, bind, M.bind, WHandle.write]
    exact hdrop
  have hframe : VFrame (oview (mu :: ms)) (oview (mu3 :: ms1)) (renderC (dd ++ [n])) :=
    fun q hq hne => ((hframe3 q hq hne).trans (hframe2 q hq hne)).trans (hs1 q hq)
  have hne : renderC ss ≠ renderC (dd ++ [n]) := by
    intro h0
    obtain ⟨e, he, _⟩ := hsrc
    rw [h0, show oview (mu :: ms) (renderC (dd ++ [n])) = none from habs] at he
    cases he
  exact ⟨_, mu3, ms1, copyFile_route _ id id' _ _ w w1 _ _ bs _ hex hopen hcreate hwrite,
    st3.own, hl1, st3.inv, st3.vwf, fun hn => hn3 (hn2 (hn1 hn)), hfile3,
    (hasFile_of_vcore (hframe _ hs.vis hne)).2 hsrc, hframe⟩

/-- **move_file within one overlay**: as `copy_file`, and the source is absent afterwards; every
visible path other than source and destination keeps its type and bytes. (The model follows the
code: the destination handle is still open while the source is removed, and is published
afterwards.) -/
theorem overlay_moveFile_exact {ss dd : List Str} {n : Str} (hs : OpPath ss)
    (hd : OpPath (dd ++ [n])) {bs : Bytes}
    (hsrc : VHasFile (oview (mu :: ms)) (renderC ss) bs)
    (hpar : VIsDir (oview (mu :: ms)) (renderC dd))
    (habs : VAbsent (oview (mu :: ms)) (renderC (dd ++ [n]))) :
    ∃ w' mu' ms', VPath.moveFile ⟨Overlay.fs (layersN (u :: is) (idu :: ids)), id, renderC ss⟩
        ⟨Overlay.fs (layersN (u :: is) (idu :: ids)), id', renderC (dd ++ [n])⟩ w = (.ok (), w') ∧
      OWN w' (u :: is) (idu :: ids) (mu' :: ms') ∧ LowerSame ms ms' ∧ OInv mu' ms' ∧
      ViewWF (oview (mu' :: ms')) ∧ (NamesOK (mu :: ms) → NamesOK (mu' :: ms')) ∧
      VHasFile (oview (mu' :: ms')) (renderC (dd ++ [n])) bs ∧
      VAbsent (oview (mu' :: ms')) (renderC ss) ∧
      (∀ q, Vis q → q ≠ renderC (dd ++ [n]) → q ≠ renderC ss →
        (oview (mu' :: ms') q).map vcore = (oview (mu :: ms) q).map vcore) := by
  have st : OSt u idu is ids ms w mu := ⟨h, inv, hv⟩
  have hex := o_exists st id' hd
  rw [show oview (mu :: ms) (renderC (dd ++ [n])) = none from habs] at hex
  have hne : renderC ss ≠ renderC (dd ++ [n]) := by
    intro h0
    obtain ⟨e, he, _⟩ := hsrc
    rw [h0, show oview (mu :: ms) (renderC (dd ++ [n])) = none from habs] at he
    cases he
  obtain ⟨w1, mu1, ms1, hopen, st1, hm1, hl1, hs1, hn1⟩ := o_openFile_step st id hs hsrc
  have hd1 : VIsDir (oview (mu1 :: ms1)) (renderC dd) := (isDir_of_vcore (hs1 _ hd.parentVis)).2 hpar
  have habs1 : VAbsent (oview (mu1 :: ms1)) (renderC (dd ++ [n])) :=
    (none_of_vcore (hs1 _ hd.vis)).2 habs
  obtain ⟨mu2, hcreate, st2, hn2, hfind2, hview2, hframe2⟩ := o_createFile_step st1 id' hd hd1
    (fun hdd => not_absent_of_dir hdd habs1)
  -- the source is still a file of the view
  have hsrc2 : VHasFile (oview (mu2 :: ms1)) (renderC ss) bs :=
    (hasFile_of_vcore ((hframe2 _ hs.vis hne).trans (hs1 _ hs.vis))).2 hsrc
  have hfile2 : VIsFile (oview (mu2 :: ms1)) (renderC ss) := by
    obtain ⟨e, he, hf, _⟩ := hsrc2; exact ⟨e, he, hf⟩
  obtain ⟨mu3, hrm, st3, hn3, habs3, hframe3, hold3⟩ := o_removeFile_step' st2 id hs hfile2
  rw [World.setLeafFiles_twice] at hrm st3
  have hsabs : (renderC ss).head? = some '/' := (NR_renderC hs.ne (good_noSlash hs.good) hs.head).1
  have hfind3 : mu3.find? (renderC (dd ++ [n])) = some fileEntryNow := by
    rw [hold3 _ (fun h0 => hne h0.symm) (hd.nr.ne_marker hsabs) (contains_of_find hfind2)]
    exact hfind2
  obtain ⟨mu4, hdrop, st4, hn4, hfile4, hframe4⟩ := o_publish_step st3 hd hfind3 rfl
    (cursorWrite [] 0 bs) (0 + bs.length)
  rw [World.setLeafFiles_twice] at hdrop st4
  rw [cursorWrite_nil] at hfile4
  have hwrite : WHandle.write
      { leaf := u, key := renderC (dd ++ [n]), kind := .memFile, buf := [], pos := 0 } bs
      (w1.setLeafFiles u mu2) = (.ok (bs.length,
        { leaf := u, key := renderC (dd ++ [n]), kind := .memFile, buf := cursorWrite [] 0 bs,
          pos := 0 + bs.length }), w1.setLeafFiles u mu2) := rfl
  refine ⟨_, mu4, ms1,
    moveFile_route _ id id' _ _ w w1 _ _ _ bs _ _ _ hex hopen hcreate hwrite hrm hdrop,
    st4.own, hl1, st4.inv, st4.vwf, fun hn => hn4 (hn3 (hn2 (hn1 hn))), hfile4, ?_, ?_⟩
  · exact (none_of_vcore (hframe4 _ hs.vis hne)).2 habs3
  · intro q hq h1 h2
    exact (((hframe4 q hq h1).trans (hframe3 q hq h2)).trans (hframe2 q hq h1)).trans (hs1 q hq)

end transfer

/-! ## non-vacuity: the 3-layer world of Props/C09Refine.lean, and a nested one -/

section example3

/-- "/d" (files in layers 1 and 2, "x" in both) is a directory of the view; depth 1 -/
example : ∃ mu', VPath.removeDirAll 2 ⟨xfs, 5, "/d".toList⟩ xw = (.ok (), xw.setLeafFiles 2 mu') ∧
    OWN (xw.setLeafFiles 2 mu') [2, 0, 1] [7, 8, 9] [mu', xA, xB] ∧ OInv mu' [xA, xB] ∧
    ViewWF (oview [mu', xA, xB]) ∧ NamesOK [mu', xA, xB] ∧
    (∀ q, InSub ["d".toList] q → oview [mu', xA, xB] q = none) ∧
    (∀ q, Vis q → ¬ InSub ["d".toList] q →
      (oview [mu', xA, xB] q).map vcore = (oview [xU, xA, xB] q).map vcore) :=
  overlay_removeDirAll_exact xw_setting xw_inv xw_viewWF 5 xw_names 2 (cs := ["d".toList])
    (by decide) (by decide) (fuelOK_of_keys (by decide) (by decide))

/-- evaluated independently: afterwards "/d" and its children are gone, "/e/z" and "/top" stay -/
example :
    let w' := (VPath.removeDirAll 2 ⟨xfs, 5, "/d".toList⟩ xw).2
    (VPath.removeDirAll 2 ⟨xfs, 5, "/d".toList⟩ xw).1 = .ok () ∧
    (xfs.exists_ "/d".toList w').1 = .ok false ∧ (xfs.exists_ "/d/x".toList w').1 = .ok false ∧
    (xfs.exists_ "/d/c".toList w').1 = .ok false ∧ (xfs.exists_ "/e/z".toList w').1 = .ok true ∧
    (xfs.exists_ "/top".toList w').1 = .ok true ∧ (xfs.readDir [] w').1 = .ok ["top".toList, "e".toList] := by
  rw [← rmAllK_eq]; decide +kernel

/-- with fuel 1 the recursion runs out of fuel only if there is a sub-DIRECTORY: "/d" has files
only, so fuel 2 is what `FuelOK` asks (the files are at depth 1) and fuel 1 … still works: the
bound of the theorem is sufficient, not necessary -/
example : (VPath.removeDirAll 1 ⟨xfs, 5, "/d".toList⟩ xw).1 = .ok () := by
  rw [← rmAllK_eq]; decide +kernel

example := overlay_removeDirAll_absent xw_setting 5 (cs := ["nope".toList]) (by decide) (by decide) 3
example := overlay_removeDirAll_file xw_setting xw_inv 5 (cs := ["top".toList]) (by decide)
  (by decide) 3

/-- create_dir_all of "/d/p/q": "/d" comes from the lower layers, "/d/p", "/d/p/q" are new -/
example := overlay_createDirAll_exact xw_setting xw_inv xw_viewWF 5
  (cs := ["d".toList, "p".toList, "q".toList]) (by decide) (noFilePrefix_of_check (by decide))

example :
    let w' := (VPath.createDirAll ⟨xfs, 5, "/d/p/q".toList⟩ xw).2
    (VPath.createDirAll ⟨xfs, 5, "/d/p/q".toList⟩ xw).1 = .ok () ∧
    (xfs.readDir "/d".toList w').1 = .ok ["p".toList, "x".toList, "b".toList, "c".toList] ∧
    (xfs.readDir "/d/p".toList w').1 = .ok ["q".toList] := by
  decide +kernel

/-- create_dir_all below the file "/d/x" -/
example := overlay_createDirAll_file_prefix xw_setting xw_inv xw_viewWF 5
  ["d".toList] ["y".toList] "x".toList (by decide) (by decide)

example : (VPath.createDirAll ⟨xfs, 5, "/d/x/y".toList⟩ xw).1
    = .err .fileExists (some "/d/x".toList) := by decide +kernel


/-! copy_file / move_file on the 3-layer world: "/d/x" lives in layers 1 and 2 (the view serves
layer 1's byte 49), "/d/c" only in layer 2, "/e" only in layer 2 -/

example := overlay_copyFile_exact xw_setting xw_inv xw_viewWF 5 6
  (ss := ["d".toList, "x".toList]) (dd := ["e".toList]) (n := "y".toList) (bs := [49])
  (by decide) (by decide) ⟨C09.fileOf [49], by decide, rfl, rfl⟩ (by decide)
  (show oview [xU, xA, xB] "/e/y".toList = none by decide)

example :
    let w' := (VPath.copyFile ⟨xfs, 5, "/d/x".toList⟩ ⟨xfs, 5, "/e/y".toList⟩ xw).2
    (VPath.copyFile ⟨xfs, 5, "/d/x".toList⟩ ⟨xfs, 5, "/e/y".toList⟩ xw).1 = .ok () ∧
    C09.readAllN xfs "/e/y" w' = .ok [49] ∧ C09.readAllN xfs "/d/x" w' = .ok [49] ∧
    (xfs.readDir "/e".toList w').1 = .ok ["y".toList, "z".toList] := by
  decide +kernel

example := overlay_moveFile_exact xw_setting xw_inv xw_viewWF 5 5
  (ss := ["d".toList, "c".toList]) (dd := ["d".toList]) (n := "moved".toList) (bs := [67])
  (by decide) (by decide) ⟨C09.fileOf [67], by decide, rfl, rfl⟩ (by decide)
  (show oview [xU, xA, xB] "/d/moved".toList = none by decide)

example :
    let w' := (VPath.moveFile ⟨xfs, 5, "/d/c".toList⟩ ⟨xfs, 5, "/d/moved".toList⟩ xw).2
    (VPath.moveFile ⟨xfs, 5, "/d/c".toList⟩ ⟨xfs, 5, "/d/moved".toList⟩ xw).1 = .ok () ∧
    C09.readAllN xfs "/d/moved" w' = .ok [67] ∧ (xfs.exists_ "/d/c".toList w').1 = .ok false ∧
    (xfs.readDir "/d".toList w').1 = .ok ["moved".toList, "x".toList, "b".toList] := by
  decide +kernel

/-- an existing destination (here a file served by a lower layer) is refused, nothing changes -/
example := overlay_transfer_refused xw_setting 5 5 "/top".toList (cs := ["d".toList, "b".toList])
  (by decide) (by decide)

/-! a nested tree spread over the layers: "/t/s/r/g" three levels deep, "/t/s" in layers 0 and 2,
"/t/s/f" only in the upper layer, "/t/s/r" only in layer 2 -/

def nU : FMap := [("/t/s/f".toList, C09.fileOf [1]), ("/t/s".toList, dirEntryNow),
  ("/t".toList, dirEntryNow), ("/keep".toList, C09.fileOf [7]), ([], dirEntryNow)]
def nA : FMap := [("/t/a".toList, C09.fileOf [2]), ("/t".toList, dirEntryNow), ([], dirEntryNow)]
def nB : FMap := [("/t/s/r/g".toList, C09.fileOf [3]), ("/t/s/r".toList, dirEntryNow),
  ("/t/s/h".toList, C09.fileOf [4]), ("/t/s".toList, dirEntryNow), ("/t".toList, dirEntryNow),
  ("/other/k".toList, C09.fileOf [5]), ("/other".toList, dirEntryNow), ([], dirEntryNow)]
def nw : World := C10.world3 nA nB nU

theorem nw_setting : OWN nw [2, 0, 1] [7, 8, 9] [nU, nA, nB] :=
  .cons rfl (by decide) (.cons rfl (by decide) (.cons rfl (by decide) .nil))
theorem nw_wf : ∀ m ∈ [nU, nA, nB], WF m := by decide
theorem nw_inv : OInv nU [nA, nB] := OInv.initial nw_wf (noWhiteout_of_keys (by decide))
theorem nw_viewWF : ViewWF (oview [nU, nA, nB]) :=
  ViewWF.initial nw_wf (noWhiteout_of_keys (by decide)) (typeConsistent_of_keys (by decide))
theorem nw_names : NamesOK [nU, nA, nB] := namesOK_of_keys (by decide)

/-- the hypotheses hold for "/t" with fuel 4 (depth 3) -/
example := overlay_removeDirAll_exact nw_setting nw_inv nw_viewWF 5 nw_names 4 (cs := ["t".toList])
  (by decide) (by decide) (fuelOK_of_keys (by decide) (by decide))

example :
    let w' := (VPath.removeDirAll 4 ⟨xfs, 5, "/t".toList⟩ nw).2
    (VPath.removeDirAll 4 ⟨xfs, 5, "/t".toList⟩ nw).1 = .ok () ∧
    (xfs.exists_ "/t".toList w').1 = .ok false ∧ (xfs.exists_ "/t/s/r/g".toList w').1 = .ok false ∧
    (xfs.exists_ "/t/s/f".toList w').1 = .ok false ∧ (xfs.exists_ "/t/a".toList w').1 = .ok false ∧
    (xfs.readDir [] w').1 = .ok ["keep".toList, "other".toList] ∧
    (xfs.readDir "/other".toList w').1 = .ok ["k".toList] := by
  rw [← rmAllK_eq]; decide +kernel

/-- … and with too little fuel the model reports the out-of-fuel sentinel -/
example : (VPath.removeDirAll 2 ⟨xfs, 5, "/t".toList⟩ nw).1 = .panic := by
  rw [← rmAllK_eq]; decide +kernel

end example3

section audit
#print axioms overlay_createDirAll_exact
#print axioms overlay_createDirAll_file_prefix
#print axioms overlay_removeDirAll_exact
#print axioms overlay_removeDirAll_exact_str
#print axioms overlay_removeDirAll_absent
#print axioms overlay_removeDirAll_file
#print axioms overlay_createDirAll_existing
#print axioms overlay_transfer_missing_source
#print axioms overlay_transfer_refused
#print axioms overlay_copyFile_exact
#print axioms overlay_moveFile_exact
#print axioms fuelOK_of_keys
#print axioms inSub_iff
end audit

end Vfs.C11
