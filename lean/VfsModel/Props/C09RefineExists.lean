/-
  C09 — the reference tree of the overlay refinement theorem EXISTS (the last hypothesis of
  `C09.overlay_refines_reference` removed).

  Props/C09Refine.lean proves refinement of the reference backend for every disciplined history
  under the hypothesis `(m0 : FMap) (href : Refines (oview (mu :: ms)) m0)` and exhibits such a
  tree on a concrete world only. Here:

  1. `refTree all` — a COMPUTABLE flat map built from the layer maps: the keys of all layer maps
     (without repetitions), restricted to the visible ones (`Vis`: the root and absolute paths
     outside ".whiteout") that are present in the view, each with the `dirBlind`-normalised entry
     the view shows.
     `reference_tree_exists`: `ViewWF (oview all)` and `ViewCanon (oview all)` (every present
     non-reserved path of the view is canonical) ⟹ `Refines (oview all) (refTree all)`.
     `reference_tree_exists_iff`: the two hypotheses are NECESSARY as well:
     `(∃ m0, Refines (oview all) m0) ↔ ViewWF (oview all) ∧ ViewCanon (oview all)`;
     more generally `Refines.viewWF`, `Refines.viewCanon` for any view.
     `reference_tree_exists_of_support`: the same for ANY view with a finite support list.
     `viewCanon_of_canonKeys`: the decidable sufficient condition `CanonKeys all` (every
     non-reserved absolute key of every layer map is the rendering of its own good components).
     `reference_tree_unique`: two reference trees of the same view agree (by `vcore`) on EVERY
     path string.
     Neither `OInv` nor `WF` of the layer maps nor `NamesOK` is needed for existence.
  2. `refO3Free_iff_viewO3Free`: under refinement the O3 discipline read off the reference run
     (`RefO3Free`) and the one read off the overlay's own views (`C03.ViewO3Free`) say the same.
     `overlay_refines_some_reference`: setting `OWN`, `OInv`, `ViewWF`, `ViewCanon`: there is ONE
     tree `m0` with `Refines (oview (mu :: ms)) m0` such that for EVERY disciplined history whose
     O3 discipline is read off the overlay's own views all conclusions of
     `overlay_refines_reference` hold (and `RefO3Free ops m0`, and `ViewCanon` of the final view).
     `vpath_overlay_refines_some_reference`: the same for the user-level (`VfsPath`) history
     `C01.runV` of Props/C01Overlay.lean.
     `overlay_refines_some_reference_initial`: from the initial hypotheses (well-formed,
     type-consistent layers, no markers, `CanonKeys`).
     `removed_stays_absent_history_noref`, `recreated_file_fresh_history_noref`: the two history
     theorems of Props/C10History.lean with no reference tree in the statement at all.
  3. `x_refTree_perm`: on the 3-layer example world of C09Refine the constructed tree is a
     permutation of the hand-written `xRef` (`decide`); `x_some_reference` instantiates (2).
     `xBad_no_reference` (+ `xBad_inv`, `xBad_viewWF`): a one-layer `WF` world with the key "/a/"
     satisfies `OInv` and `ViewWF` but has NO reference tree — so the remaining hypotheses of
     `overlay_refines_reference` alone do not imply existence; `ViewCanon` is exactly what is
     missing (`reference_tree_exists_iff`).

  HYPOTHESES of the main theorems: as listed; `ViewCanon` is needed only for the INITIAL view (it
  is re-established by refinement in every later state: `Refines.viewCanon`).
  NOT PROVED: that `CanonKeys` itself (a statement about hidden keys, also outside the view) is
  preserved by the operations — not needed, since `ViewCanon` is; nothing new about histories
  outside the path discipline `OpOK` or the O3 discipline.
-/
import VfsModel.Props.C01Overlay
import VfsModel.Props.C10History
set_option linter.unusedSimpArgs false
set_option linter.unusedVariables false
namespace Vfs.C09
open Vfs Vfs.Overlay Vfs.C02 Vfs.C01
open Vfs.C10 (mapsOfN)

/-! ### 1. existence of the reference tree -/

/-- every present non-reserved path of the view is canonical (the rendering of a non-empty list
of good components) -/
def ViewCanon (v : View) : Prop :=
  ∀ q, NR q → v q ≠ none → ∃ cs, cs ≠ [] ∧ (∀ c ∈ cs, GoodComp c) ∧ q = renderC cs

/-- a list with the same members and no repetitions -/
def dedupStr : List Str → List Str
  | [] => []
  | a :: l => a :: (dedupStr l).filter (fun x => x ≠ a)

theorem mem_dedupStr (l : List Str) (q : Str) : q ∈ dedupStr l ↔ q ∈ l := by
  induction l with
  | nil => simp [dedupStr]
  | cons a l ih =>
    simp only [dedupStr, List.mem_cons, List.mem_filter, ih, decide_eq_true_eq]
    by_cases h : q = a
    · simp [h]
    · simp [h]

theorem nodup_dedupStr (l : List Str) : (dedupStr l).Nodup := by
  induction l with
  | nil => simp [dedupStr]
  | cons a l ih =>
    simp only [dedupStr, List.nodup_cons, List.mem_filter, decide_eq_true_eq]
    exact ⟨fun h => h.2 rfl, ih.filter _⟩

/-- a flat map given by a key list and a lookup function -/
def tabulate (l : List Str) (g : Str → Option Entry) : FMap :=
  l.filterMap (fun k => (g k).map (fun e => (k, e)))

theorem find?_tabulate (l : List Str) (g : Str → Option Entry) (q : Str) :
    (tabulate l g).find? q = if q ∈ l then g q else none := by
  induction l with
  | nil => simp [tabulate]
  | cons a l ih =>
    unfold tabulate at ih ⊢
    rw [List.filterMap_cons]
    cases hg : g a with
    | none =>
      simp only [Option.map_none]
      rw [ih]
      by_cases hq : q = a
      · subst hq; simp [hg]
      · simp [hq]
    | some e =>
      simp only [Option.map_some]
      rw [FMap.find?_cons, ih]
      by_cases hq : a = q
      · subst hq; simp [hg]
      · have : ¬ q = a := fun h => hq h.symm
        simp [hq, this]

/-- what the reference tree holds at `q`: nothing outside the visible namespace, otherwise the
normalised entry of the view -/
def refEntry (v : View) (q : Str) : Option Entry :=
  if Vis q then (v q).map dirBlind else none

/-- the reference tree of a view with support list `L` -/
def refTreeOf (L : List Str) (v : View) : FMap := tabulate (dedupStr L) (refEntry v)

/-- the candidate paths: the keys of all layer maps -/
def cands (all : List FMap) : List Str := all.flatMap FMap.keys

/-- **the constructed reference tree** of the overlay over the maps `all` -/
def refTree (all : List FMap) : FMap := refTreeOf (cands all) (oview all)

theorem find?_refTreeOf {L : List Str} {v : View} (hsupp : ∀ q, v q ≠ none → q ∈ L) (q : Str) :
    (refTreeOf L v).find? q = refEntry v q := by
  unfold refTreeOf
  rw [find?_tabulate]
  split
  · rfl
  · rename_i hq
    rw [mem_dedupStr] at hq
    have : v q = none := by
      cases hv : v q with
      | none => rfl
      | some e => exact absurd (hsupp q (by rw [hv]; simp)) hq
    unfold refEntry
    rw [this]; split <;> rfl

/-- the view shows only keys of layer maps -/
theorem oview_none_of_not_cand {all : List FMap} {q : Str} (hq : q ∉ cands all) :
    oview all q = none := by
  have hall : ∀ m ∈ all, m.find? q = none := by
    intro m hm
    cases hf : m.find? q with
    | none => rfl
    | some e =>
      exact absurd (List.mem_flatMap.2 ⟨m, hm, (FMap.mem_keys_iff m q).2 ⟨e, hf⟩⟩) hq
  unfold oview dirEntryN
  split
  · cases all with
    | nil => rfl
    | cons m rest => rename_i hq0; rw [← hq0]; exact hall m (by simp)
  · unfold viewN
    split
    · rfl
    · exact (firstN_none_iff _ _).2 hall

theorem oview_supp (all : List FMap) : ∀ q, oview all q ≠ none → q ∈ cands all := by
  intro q hq
  by_cases h : q ∈ cands all
  · exact h
  · exact absurd (oview_none_of_not_cand h) hq

theorem find?_refTree (all : List FMap) (q : Str) :
    (refTree all).find? q = refEntry (oview all) q :=
  find?_refTreeOf (oview_supp all) q

theorem vcore_dirBlind (e : Entry) : vcore (dirBlind e) = vcore e := by
  by_cases h : e.ftype = .dir
  · rw [vcore_dir h, vcore_dir (by rw [dirBlind_ftype]; exact h)]
  · have hf : e.ftype = .file := by
      cases hft : e.ftype with
      | file => rfl
      | dir => exact absurd hft h
    rw [dirBlind_file e hf]

theorem refEntry_some {v : View} {q : Str} {e : Entry} (h : refEntry v q = some e) :
    Vis q ∧ ∃ e0, v q = some e0 ∧ e = dirBlind e0 := by
  unfold refEntry at h
  split at h
  · rename_i hvis
    cases hv : v q with
    | none => rw [hv] at h; cases h
    | some e0 =>
      rw [hv] at h
      simp only [Option.map_some, Option.some.injEq] at h
      exact ⟨hvis, e0, rfl, h.symm⟩
  · cases h

theorem refEntry_of_isDir {v : View} {q : Str} (hvis : Vis q) (hd : VIsDir v q) :
    ∃ pe, refEntry v q = some pe ∧ pe.ftype = .dir := by
  obtain ⟨e, he, hdir⟩ := hd
  refine ⟨dirBlind e, ?_, by rw [dirBlind_ftype]; exact hdir⟩
  unfold refEntry
  rw [if_pos hvis, he]; rfl

/-- a canonical non-reserved path: its component list does not start with ".whiteout" -/
theorem head_ne_wo_of_NR {cs : List Str} (hcs : ∀ c ∈ cs, GoodComp c) (hnr : NR (renderC cs)) :
    cs.head? ≠ some woDir := by
  cases cs with
  | nil => simp
  | cons c cs =>
    intro h
    simp only [List.head?_cons, Option.some.injEq] at h
    apply hnr.2
    rw [firstComp_renderC c cs (hcs c (by simp)).noSlash, h]

theorem slash_mem_renderC {cs : List Str} (hne : cs ≠ []) : '/' ∈ renderC cs := by
  cases cs with
  | nil => exact absurd rfl hne
  | cons c cs => rw [renderC_cons]; simp

/-- **existence for any finitely supported view**: a well-formed view with canonical present
paths and support list `L` is held by the tree `refTreeOf L v` -/
theorem reference_tree_exists_of_support {v : View} {L : List Str}
    (hsupp : ∀ q, v q ≠ none → q ∈ L) (hv : ViewWF v) (hcan : ViewCanon v) :
    Refines v (refTreeOf L v) := by
  have hfind := find?_refTreeOf hsupp
  -- the keys
  have hkeys : ∀ k e, (refTreeOf L v).find? k = some e → k = [] ∨
      ∃ cs, cs ≠ [] ∧ (∀ c ∈ cs, GoodComp c) ∧ cs.head? ≠ some woDir ∧ k = renderC cs := by
    intro k e hk
    rw [hfind] at hk
    obtain ⟨hvis, e0, he0, _⟩ := refEntry_some hk
    rcases hvis with rfl | hnr
    · exact Or.inl rfl
    · obtain ⟨cs, hne, hcs, rfl⟩ := hcan k hnr (by rw [he0]; simp)
      exact Or.inr ⟨cs, hne, hcs, head_ne_wo_of_NR hcs hnr, rfl⟩
  refine ⟨⟨?_, ?_⟩, hkeys, ?_⟩
  · -- the root
    obtain ⟨pe, hpe, hd⟩ := refEntry_of_isDir (Or.inl rfl) hv.1
    exact ⟨pe, by rw [hfind]; exact hpe, hd⟩
  · -- every other key has a directory parent
    intro k e hk hkne
    rcases hkeys k e hk with rfl | ⟨cs, hne, hcs, hhead, rfl⟩
    · exact absurd rfl hkne
    · refine ⟨slash_mem_renderC hne, ?_⟩
      rw [hfind] at hk
      obtain ⟨_, e0, he0, _⟩ := refEntry_some hk
      have hpar := C03.viewWF_no_orphan hv hne hcs hhead (by rw [he0]; simp)
      have hvisp : Vis (parentInternal (renderC cs)) := by
        rcases List.eq_nil_or_concat cs with rfl | ⟨ds, n, rfl⟩
        · exact absurd rfl hne
        · rw [List.concat_eq_append] at hcs hhead ⊢
          obtain ⟨hds, hn⟩ := good_of_snoc hcs
          rw [parent_snoc ds n hds hn]
          by_cases hd : ds = []
          · left; rw [hd]; rfl
          · right
            refine NR_renderC hd (good_noSlash hds) ?_
            intro h0; apply hhead
            cases ds with
            | nil => exact absurd rfl hd
            | cons d ds => simpa using h0
      obtain ⟨pe, hpe, hd⟩ := refEntry_of_isDir hvisp hpar
      exact ⟨pe, by rw [hfind]; exact hpe, hd⟩
  · -- the same view
    intro q hq
    show (v q).map vcore = ((refTreeOf L v).find? q).map vcore
    rw [hfind]
    unfold refEntry
    rw [if_pos hq]
    cases v q with
    | none => rfl
    | some e => simp [vcore_dirBlind]

/-- **reference_tree_exists.** The view of the overlay over ANY list of layer maps: if it is
well-formed (`ViewWF`) and its present non-reserved paths are canonical (`ViewCanon`), the
constructed tree `refTree all` holds it. -/
theorem reference_tree_exists (all : List FMap) (hv : ViewWF (oview all))
    (hcan : ViewCanon (oview all)) : Refines (oview all) (refTree all) :=
  reference_tree_exists_of_support (oview_supp all) hv hcan

/-- in the setting of the history theorems (`OInv` is not needed for existence) -/
theorem reference_tree_exists' {mu : FMap} {ms : List FMap} (hv : ViewWF (oview (mu :: ms)))
    (hcan : ViewCanon (oview (mu :: ms))) : ∃ m0, Refines (oview (mu :: ms)) m0 :=
  ⟨_, reference_tree_exists _ hv hcan⟩

/-! the two hypotheses are necessary -/

theorem Refines.viewCanon {v : View} {m : FMap} (href : Refines v m) : ViewCanon v := by
  intro q hnr hpres
  have hs := href.same q (Or.inr hnr)
  cases hm : m.find? q with
  | none =>
    exfalso; apply hpres
    unfold mview at hs; rw [hm] at hs
    cases hv : v q with
    | none => rfl
    | some e => rw [hv] at hs; cases hs
  | some e =>
    rcases href.keys q e hm with rfl | ⟨cs, hne, hcs, _, rfl⟩
    · exact absurd rfl hnr.ne_nil
    · exact ⟨cs, hne, hcs, rfl⟩

theorem Refines.viewWF {v : View} {m : FMap} (href : Refines v m) : ViewWF v := by
  refine ⟨?_, ?_⟩
  · apply (isDir_of_vcore (href.same [] (Or.inl rfl))).2
    obtain ⟨e, he, hd⟩ := href.wf.1
    exact ⟨e, he, hd⟩
  · intro ds n hne hds hn hhead hpres
    have hq : Vis (renderC ds ++ '/' :: n) := Or.inr (NR_child hne (good_noSlash hds) hhead n)
    have hpv : Vis (renderC ds) := Or.inr (NR_renderC hne (good_noSlash hds) hhead)
    apply (isDir_of_vcore (href.same _ hpv)).2
    cases hm : m.find? (renderC ds ++ '/' :: n) with
    | none =>
      exfalso; apply hpres
      exact (none_of_vcore (href.same _ hq)).2 hm
    | some e =>
      obtain ⟨_, pe, hpe, hpd⟩ := href.wf.2 _ e hm (by simp)
      rw [parent_of_child _ n hn] at hpe
      exact ⟨pe, hpe, hpd⟩

/-- **exactly when**: the overlay's view is held by some reference tree iff it is well-formed
and its present non-reserved paths are canonical -/
theorem reference_tree_exists_iff (all : List FMap) :
    (∃ m0, Refines (oview all) m0) ↔ ViewWF (oview all) ∧ ViewCanon (oview all) :=
  ⟨fun ⟨_, href⟩ => ⟨href.viewWF, href.viewCanon⟩,
   fun ⟨hv, hcan⟩ => ⟨_, reference_tree_exists all hv hcan⟩⟩

/-- the reference tree is unique up to `vcore` — on EVERY path string, visible or not -/
theorem reference_tree_unique {v : View} {m m' : FMap} (h : Refines v m) (h' : Refines v m')
    (q : Str) : (m.find? q).map vcore = (m'.find? q).map vcore := by
  by_cases hq : Vis q
  · exact ((h.same q hq).symm.trans (h'.same q hq))
  · have hnone : ∀ {x : FMap}, Refines v x → x.find? q = none := by
      intro x hx
      cases hf : x.find? q with
      | none => rfl
      | some e =>
        exfalso; apply hq
        rcases hx.keys q e hf with rfl | ⟨cs, hne, hcs, hhead, rfl⟩
        · exact Or.inl rfl
        · exact Or.inr (NR_renderC hne (good_noSlash hcs) hhead)
    rw [hnone h, hnone h']

/-! the decidable sufficient condition on the layer maps -/

/-- every non-reserved absolute key of every layer map is the rendering of its own (good)
components -/
def CanonKeys (all : List FMap) : Prop :=
  ∀ m ∈ all, ∀ k ∈ m.keys, NR k →
    pathComps k ≠ [] ∧ (∀ c ∈ pathComps k, GoodComp c) ∧ k = renderC (pathComps k)

instance (all : List FMap) : Decidable (CanonKeys all) := by unfold CanonKeys; exact inferInstance

theorem viewCanon_of_canonKeys {all : List FMap} (h : CanonKeys all) : ViewCanon (oview all) := by
  intro q hnr hpres
  obtain ⟨m, hm, hk⟩ := List.mem_flatMap.1 (oview_supp all q hpres)
  obtain ⟨h1, h2, h3⟩ := h m hm q hk hnr
  exact ⟨pathComps q, h1, h2, h3⟩

/-- existence from the initial hypotheses: well-formed, type-consistent layers without markers
whose keys are canonical -/
theorem reference_tree_exists_initial {mu : FMap} {ms : List FMap} (hwf : ∀ m ∈ mu :: ms, WF m)
    (hnw : NoWhiteout mu) (htc : TypeConsistent (mu :: ms)) (hck : CanonKeys (mu :: ms)) :
    Refines (oview (mu :: ms)) (refTree (mu :: ms)) :=
  reference_tree_exists _ (ViewWF.initial hwf hnw htc) (viewCanon_of_canonKeys hck)

/-! ### 2. the history theorems without the reference-tree hypothesis -/

section histories
variable {w : World} {u idu : Nat} {mu : FMap} {is ids : List Nat} {ms : List FMap}

theorem o3ok_iff_o3Free {v : View} {m : FMap} (href : Refines v m) {op : Mut} (hop : OpOK op) :
    o3ok m op ↔ O3Free v op := by
  have hs := isDir_of_vcore (href.same _ (opOK_vis hop))
  cases op with
  | removeFile p =>
    simp only [Mut.path] at hs
    constructor
    · intro h q hq hd
      injection hq with hq; subst hq
      exact h (hs.1 hd)
    · intro h hd
      exact h p rfl (hs.2 hd)
  | createDir p => exact ⟨fun _ q hq => (by cases hq), fun _ => trivial⟩
  | write p bs => exact ⟨fun _ q hq => (by cases hq), fun _ => trivial⟩
  | append p bs => exact ⟨fun _ q hq => (by cases hq), fun _ => trivial⟩
  | removeDir p => exact ⟨fun _ q hq => (by cases hq), fun _ => trivial⟩

/-- **the two readings of the O3 discipline agree**: under refinement, `remove_file` never hits a
directory of the reference run iff it never hits a directory of the overlay's own views -/
theorem refO3Free_iff_viewO3Free (ops : List Mut) (hops : ∀ op ∈ ops, OpOK op)
    (h : OWN w (u :: is) (idu :: ids) (mu :: ms)) (inv : OInv mu ms)
    (hv : ViewWF (oview (mu :: ms))) (m0 : FMap) (href : Refines (oview (mu :: ms)) m0) :
    RefO3Free ops m0 ↔
      C03.ViewO3Free (Overlay.fs (layersN (u :: is) (idu :: ids))) (u :: is) ops w := by
  induction ops generalizing w mu ms m0 with
  | nil => exact ⟨fun _ => trivial, fun _ => trivial⟩
  | cons op rest ih =>
    have hop := hops op (by simp)
    have hhead := o3ok_iff_o3Free href hop
    have key : O3Free (oview (mu :: ms)) op →
        (RefO3Free rest (stepPhys m0 op).2 ↔
          C03.ViewO3Free (Overlay.fs (layersN (u :: is) (idu :: ids))) (u :: is) rest
            (ostep (Overlay.fs (layersN (u :: is) (idu :: ids))) op w).2) := by
      intro hd3
      obtain ⟨r, w', mu1, ms1, hrun, hown1, _, _, inv1, hv1, hc⟩ :=
        overlay_contractN h inv hv op hop hd3
      obtain ⟨_, _, _, href1⟩ := refines_step href hop hc
      have h2 : (ostep (Overlay.fs (layersN (u :: is) (idu :: ids))) op w).2 = w' := by rw [hrun]
      rw [h2]
      exact ih (fun o ho => hops o (by simp [ho])) hown1 inv1 hv1 _ href1
    unfold RefO3Free C03.ViewO3Free
    rw [C03.mapsOfN_of_OWN h]
    constructor
    · rintro ⟨h1, h2⟩
      have hd3 := hhead.1 h1
      exact ⟨hd3, (key hd3).1 h2⟩
    · rintro ⟨h1, h2⟩
      exact ⟨hhead.2 h1, (key h1).2 h2⟩

/-- **overlay_refines_some_reference.** n ≥ 1 memory layers (`OWN`), hidden state in order
(`OInv`), well-formed view (`ViewWF`) whose present paths are canonical (`ViewCanon`; e.g.
`CanonKeys`). Then there IS a reference tree `m0` holding the initial view — the constructed
`refTree (mu :: ms)` — such that for EVERY finite list of mutators on disciplined paths (`OpOK`)
that respects the O3 discipline read off the overlay's own views (`C03.ViewO3Free`): the overlay
and the reference backend agree call by call on success / failure, neither ever panics, the final
view is (up to timestamps) the final reference tree, the final world is again in the setting
with `LowerSame` lower maps, all invariants (`ViewCanon` included) hold again, and the reference
run obeys `RefO3Free`. -/
theorem overlay_refines_some_reference
    (h : OWN w (u :: is) (idu :: ids) (mu :: ms)) (inv : OInv mu ms)
    (hv : ViewWF (oview (mu :: ms))) (hcan : ViewCanon (oview (mu :: ms))) :
    ∃ m0, Refines (oview (mu :: ms)) m0 ∧
      ∀ ops : List Mut, (∀ op ∈ ops, OpOK op) →
        C03.ViewO3Free (Overlay.fs (layersN (u :: is) (idu :: ids))) (u :: is) ops w →
        ∃ mu' ms',
          OWN (runOverlay (Overlay.fs (layersN (u :: is) (idu :: ids))) ops w).2
            (u :: is) (idu :: ids) (mu' :: ms') ∧
          LowerSame ms ms' ∧ OInv mu' ms' ∧ ViewWF (oview (mu' :: ms')) ∧
          ViewCanon (oview (mu' :: ms')) ∧
          (runOverlay (Overlay.fs (layersN (u :: is) (idu :: ids))) ops w).1.map Res.isOk
            = (runRef ops m0).1.map Res.isOk ∧
          (∀ r ∈ (runOverlay (Overlay.fs (layersN (u :: is) (idu :: ids))) ops w).1, r ≠ .panic) ∧
          (∀ r ∈ (runRef ops m0).1, r ≠ .panic) ∧
          Refines (oview (mu' :: ms')) (runRef ops m0).2 ∧
          RefO3Free ops m0 := by
  have href := reference_tree_exists (mu :: ms) hv hcan
  refine ⟨refTree (mu :: ms), href, ?_⟩
  intro ops hops hdisc
  have hd := (refO3Free_iff_viewO3Free ops hops h inv hv _ href).2 hdisc
  obtain ⟨mu', ms', hown, hls, inv', hv', hoks, hnp1, hnp2, href'⟩ :=
    overlay_refines_reference ops hops h inv hv _ href hd
  exact ⟨mu', ms', hown, hls, inv', hv', href'.viewCanon, hoks, hnp1, hnp2, href', hd⟩

/-- the same from the INITIAL hypotheses: well-formed, type-consistent layer maps without markers
whose non-reserved keys are canonical (all four are decidable checks on the maps) -/
theorem overlay_refines_some_reference_initial
    (h : OWN w (u :: is) (idu :: ids) (mu :: ms)) (hwf : ∀ m ∈ mu :: ms, WF m)
    (hnw : NoWhiteout mu) (htc : TypeConsistent (mu :: ms)) (hck : CanonKeys (mu :: ms)) :
    ∃ m0, Refines (oview (mu :: ms)) m0 ∧
      ∀ ops : List Mut, (∀ op ∈ ops, OpOK op) →
        C03.ViewO3Free (Overlay.fs (layersN (u :: is) (idu :: ids))) (u :: is) ops w →
        ∃ mu' ms',
          OWN (runOverlay (Overlay.fs (layersN (u :: is) (idu :: ids))) ops w).2
            (u :: is) (idu :: ids) (mu' :: ms') ∧
          LowerSame ms ms' ∧ OInv mu' ms' ∧ ViewWF (oview (mu' :: ms')) ∧
          ViewCanon (oview (mu' :: ms')) ∧
          (runOverlay (Overlay.fs (layersN (u :: is) (idu :: ids))) ops w).1.map Res.isOk
            = (runRef ops m0).1.map Res.isOk ∧
          (∀ r ∈ (runOverlay (Overlay.fs (layersN (u :: is) (idu :: ids))) ops w).1, r ≠ .panic) ∧
          (∀ r ∈ (runRef ops m0).1, r ≠ .panic) ∧
          Refines (oview (mu' :: ms')) (runRef ops m0).2 ∧
          RefO3Free ops m0 :=
  overlay_refines_some_reference h (OInv.initial hwf hnw) (ViewWF.initial hwf hnw htc)
    (viewCanon_of_canonKeys hck)

/-- **vpath_overlay_refines_some_reference.** The same for the history of USER-level calls
(`C01.runV`, through the `VfsPath` layer, any `fsId`): additionally every failure of the overlay
is labelled with the path of its call. -/
theorem vpath_overlay_refines_some_reference (id : Nat)
    (h : OWN w (u :: is) (idu :: ids) (mu :: ms)) (inv : OInv mu ms)
    (hv : ViewWF (oview (mu :: ms))) (hcan : ViewCanon (oview (mu :: ms))) :
    ∃ m0, Refines (oview (mu :: ms)) m0 ∧
      ∀ ops : List Mut, (∀ op ∈ ops, OpOK op) →
        C03.ViewO3Free (Overlay.fs (layersN (u :: is) (idu :: ids))) (u :: is) ops w →
        ∃ mu' ms',
          OWN (runV (Overlay.fs (layersN (u :: is) (idu :: ids))) id ops w).2
            (u :: is) (idu :: ids) (mu' :: ms') ∧
          LowerSame ms ms' ∧ OInv mu' ms' ∧ ViewWF (oview (mu' :: ms')) ∧
          ViewCanon (oview (mu' :: ms')) ∧
          (runV (Overlay.fs (layersN (u :: is) (idu :: ids))) id ops w).1.map Res.isOk
            = (runRef ops m0).1.map Res.isOk ∧
          (∀ r ∈ (runV (Overlay.fs (layersN (u :: is) (idu :: ids))) id ops w).1, r ≠ .panic) ∧
          (∀ r ∈ (runRef ops m0).1, r ≠ .panic) ∧
          Labelled ops (runV (Overlay.fs (layersN (u :: is) (idu :: ids))) id ops w).1 ∧
          Refines (oview (mu' :: ms')) (runRef ops m0).2 := by
  have href := reference_tree_exists (mu :: ms) hv hcan
  refine ⟨refTree (mu :: ms), href, ?_⟩
  intro ops hops hdisc
  have hd := (refO3Free_iff_viewO3Free ops hops h inv hv _ href).2 hdisc
  obtain ⟨mu', ms', hown, hls, inv', hv', hoks, hnp1, hnp2, hlab, href'⟩ :=
    vpath_overlay_refines_reference id ops hops h inv hv _ href hd
  exact ⟨mu', ms', hown, hls, inv', hv', href'.viewCanon, hoks, hnp1, hnp2, hlab, href'⟩

/-- `C10.removed_stays_absent_history` with NO reference tree in the statement: a successful
`remove_file p` / `remove_dir p`, then any disciplined history that does not create `p` (O3
discipline read off the overlay's own views): `p` is absent at the end and every observer says
so. -/
theorem removed_stays_absent_history_noref
    (h : OWN w (u :: is) (idu :: ids) (mu :: ms)) (inv : OInv mu ms)
    (hv : ViewWF (oview (mu :: ms))) (hcan : ViewCanon (oview (mu :: ms)))
    (p : Str) (rm : Mut)
    (hrm : rm = .removeFile p ∨ rm = .removeDir p) (ops : List Mut)
    (hops : ∀ op ∈ rm :: ops, OpOK op) (hnc : ∀ op ∈ ops, ¬ C10.Creates p op)
    (hdisc : C03.ViewO3Free (Overlay.fs (layersN (u :: is) (idu :: ids))) (u :: is) (rm :: ops) w)
    (hok : (ostep (Overlay.fs (layersN (u :: is) (idu :: ids))) rm w).1.isOk = true) :
    let fs := Overlay.fs (layersN (u :: is) (idu :: ids))
    let w' := (runOverlay fs (rm :: ops) w).2
    ∃ mu' ms',
      OWN w' (u :: is) (idu :: ids) (mu' :: ms') ∧ LowerSame ms ms' ∧ OInv mu' ms' ∧
      ViewWF (oview (mu' :: ms')) ∧
      oview (mu' :: ms') p = none ∧
      fs.exists_ p w' = (.ok false, w') ∧
      fs.metadata p w' = (.err .fileNotFound none, w') ∧
      fs.readDir p w' = (.err .fileNotFound none, w') ∧
      fs.openFile p w' = (.err .fileNotFound none, w') := by
  have href := reference_tree_exists (mu :: ms) hv hcan
  exact C10.removed_stays_absent_history h inv hv _ href p rm hrm ops hops hnc
    ((refO3Free_iff_viewO3Free _ hops h inv hv _ href).2 hdisc) hok

/-- `C10.recreated_starts_fresh_history` with NO reference tree in the statement: a re-created
path starts fresh (exactly the new bytes / an empty directory), for every disciplined history
around the re-creation. -/
theorem recreated_starts_fresh_history_noref
    (h : OWN w (u :: is) (idu :: ids) (mu :: ms)) (inv : OInv mu ms)
    (hv : ViewWF (oview (mu :: ms))) (hcan : ViewCanon (oview (mu :: ms)))
    (p : Str) (c : Mut)
    (hc : (∃ bs, c = .write p bs) ∨ c = .createDir p) (pre post : List Mut)
    (hops : ∀ op ∈ pre ++ [c] ++ post, OpOK op)
    (hpost : ∀ op ∈ post, op.path ≠ p ∧ (c = .createDir p → parentInternal op.path ≠ p))
    (hdisc : C03.ViewO3Free (Overlay.fs (layersN (u :: is) (idu :: ids))) (u :: is)
      (pre ++ [c] ++ post) w)
    (hok : (ostep (Overlay.fs (layersN (u :: is) (idu :: ids))) c
      (runOverlay (Overlay.fs (layersN (u :: is) (idu :: ids))) pre w).2).1.isOk = true) :
    let fs := Overlay.fs (layersN (u :: is) (idu :: ids))
    let w' := (runOverlay fs (pre ++ [c] ++ post) w).2
    ∃ mu' ms',
      OWN w' (u :: is) (idu :: ids) (mu' :: ms') ∧ LowerSame ms ms' ∧ OInv mu' ms' ∧
      ViewWF (oview (mu' :: ms')) ∧
      (∀ bs, c = .write p bs → VHasFile (oview (mu' :: ms')) p bs ∧
        ∃ w'', fs.openFile p w' = (.ok { content := bs, pos := 0 }, w'')) ∧
      (c = .createDir p → VIsDir (oview (mu' :: ms')) p ∧ VNoChildren (oview (mu' :: ms')) p ∧
        fs.readDir p w' = (.ok [], w')) := by
  have href := reference_tree_exists (mu :: ms) hv hcan
  exact C10.recreated_starts_fresh_history h inv hv _ href p c hc pre post hops hpost
    ((refO3Free_iff_viewO3Free _ hops h inv hv _ href).2 hdisc) hok

end histories

/-! ### 3. the 3-layer example world of Props/C09Refine.lean -/

section example3

theorem x_canonKeys : CanonKeys [xU, xA, xB] := by decide

/-- the constructed tree is the hand-written reference tree `xRef`, up to order -/
theorem x_refTree_perm : (refTree [xU, xA, xB]).Perm xRef := by decide

/-- … and holds the view (by the theorem; `xw_refines` of C09Refine checks `xRef` by evaluation) -/
theorem x_refTree_refines : Refines (oview [xU, xA, xB]) (refTree [xU, xA, xB]) :=
  reference_tree_exists_initial xw_wf (noWhiteout_of_keys (by decide))
    (typeConsistent_of_keys (by decide)) x_canonKeys

/-- the hypotheses of `reference_tree_exists` / `overlay_refines_some_reference` hold there -/
theorem x_viewCanon : ViewCanon (oview [xU, xA, xB]) := viewCanon_of_canonKeys x_canonKeys

/-- `overlay_refines_some_reference`, instantiated on the 12-call history `xOps` -/
theorem x_some_reference :
    ∃ m0, Refines (oview [xU, xA, xB]) m0 ∧
      ∃ mu' ms',
        OWN (runOverlay xfs xOps xw).2 [2, 0, 1] [7, 8, 9] (mu' :: ms') ∧
        LowerSame [xA, xB] ms' ∧ OInv mu' ms' ∧ ViewWF (oview (mu' :: ms')) ∧
        ViewCanon (oview (mu' :: ms')) ∧
        (runOverlay xfs xOps xw).1.map Res.isOk = (runRef xOps m0).1.map Res.isOk ∧
        (∀ r ∈ (runOverlay xfs xOps xw).1, r ≠ .panic) ∧
        (∀ r ∈ (runRef xOps m0).1, r ≠ .panic) ∧
        Refines (oview (mu' :: ms')) (runRef xOps m0).2 ∧ RefO3Free xOps m0 := by
  obtain ⟨m0, href, hall⟩ := overlay_refines_some_reference xw_setting xw_inv xw_viewWF x_viewCanon
  exact ⟨m0, href, hall xOps xOps_ok C03.xOps_viewO3⟩

/-- a world where NO reference tree exists although every layer is `WF`: a key with a trailing
slash ("/a/" below the directory "/a") is visible but not canonical -/
def xBad : FMap := [("/a/".toList, fileOf [1]), ("/a".toList, dirEntryNow), ([], dirEntryNow)]

example : WF xBad := by decide

/-- … although `OInv` and `ViewWF` hold there: the hypotheses of `overlay_refines_reference` other
than the reference tree do NOT imply its existence; `ViewCanon` is the missing one -/
theorem xBad_inv : OInv xBad [] := OInv.initial (by decide) (noWhiteout_of_keys (by decide))

theorem xBad_viewWF : ViewWF (oview [xBad]) :=
  ViewWF.initial (by decide) (noWhiteout_of_keys (by decide)) (typeConsistent_of_keys (by decide))

example : ¬ CanonKeys [xBad] := by decide

theorem xBad_no_reference : ¬ ∃ m0, Refines (oview [xBad]) m0 := by
  rintro ⟨m0, href⟩
  obtain ⟨cs, hne, hcs, hq⟩ := href.viewCanon "/a/".toList (by decide) (by decide)
  rcases List.eq_nil_or_concat cs with rfl | ⟨ds, n, rfl⟩
  · exact hne rfl
  · rw [List.concat_eq_append, renderC_snoc] at hq
    have hn := (hcs n (by simp)).1
    have hlast : ("/a/".toList).getLast? = (renderC ds ++ '/' :: n).getLast? := by rw [hq]
    cases n with
    | nil => exact hn rfl
    | cons a n =>
      have hns := (hcs (a :: n) (by simp)).noSlash
      rw [List.getLast?_append, List.getLast?_cons_cons] at hlast
      cases hl : (a :: n).getLast? with
      | none => simp at hl
      | some l =>
        rw [hl] at hlast
        have hl' : l = '/' := by
          have h0 : ("/a/".toList).getLast? = some '/' := by decide
          rw [h0] at hlast
          simpa using hlast.symm
        subst hl'
        exact hns (List.mem_of_getLast? hl)

end example3

end Vfs.C09

section audit
open Vfs.C09
#print axioms reference_tree_exists_of_support
#print axioms reference_tree_exists
#print axioms reference_tree_exists_iff
#print axioms reference_tree_unique
#print axioms viewCanon_of_canonKeys
#print axioms reference_tree_exists_initial
#print axioms refO3Free_iff_viewO3Free
#print axioms overlay_refines_some_reference
#print axioms overlay_refines_some_reference_initial
#print axioms vpath_overlay_refines_some_reference
#print axioms removed_stays_absent_history_noref
#print axioms recreated_starts_fresh_history_noref
#print axioms x_refTree_perm
#print axioms x_refTree_refines
#print axioms x_some_reference
#print axioms xBad_no_reference
#print axioms xBad_viewWF
end audit
