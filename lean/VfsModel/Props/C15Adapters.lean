/-
  C15 LIFTED THROUGH THE ADAPTERS (namespace Vfs.C15)

  WHAT IS PROVED (no sorry, axioms: propext, Classical.choice, Quot.sound)
   §1 `leaf_sim i : SimFS RTS PR HM (aleafFS i) (qleafFS i)` — the model of AsyncMemoryFS and the
      sync MemoryFS with its timestamps unobserved are related filesystems in the form the
      parametricity theorems of Proofs/Sim.lean accept; `simHandles : SimHandles RTS PR HM`.
        RTS wa ws  :=  wa.eraseTS = ws.eraseTS (equal once every timestamp is forgotten: the relation
                       of C15Async, made symmetric) ∧ every leaf of ws is a memory leaf with
                       canonical keys (needed: `read_dir` must list canonical names)
        HM h1 h2   :=  the same in-memory writer
        results    :=  EQUAL (answers, error kinds, error paths)
   §2 `StackRel fa fs` (mutual with `LayersRel`): async and sync stackings built in parallel —
      leaves `aleafFS i` / `qleafFS i`, altroots over a canonical sub-directory, overlays over a
      non-empty layer list (async side `overlayFSA` = the overlay with AsyncOverlayFS's own
      `read_dir`, `Overlay.readDirA`); `stack_sim : StackRel fa fs → SimFS RTS PR HM fa fs`.
   §3 `Op` (exists, metadata, read_dir, create_dir, create_dir_all, create_file+write_all+drop,
      append_file+write_all+drop, read_to_string, remove_file, remove_dir, remove_dir_all, walk_dir
      to the end, copy_file, move_file, copy_dir, move_dir), `Op.run`, `runAll` (histories);
      `async_stack_eq_sync_stack`, `async_stack_eq_sync_stack_history`: on the async stacking, with
      the async port's own `copyFileA`/`moveFileA`, every call / every finite history gives the SAME
      observations as on the sync stacking, and RTS-related final worlds.
   §4 non-vacuity: 2-layer overlay under an altroot over two memory leaves, 9-call history.

  HYPOTHESES of the final theorems: `StackRel fa fs` (which contains: altroot roots and layer paths
  canonical, layer lists non-empty, `Overlay.LayersOK` on both sides — layers with the same fsId
  carry the same filesystem, e.g. pairwise distinct fsIds); `Op.OK` (path arguments canonical, as
  `join` produces them; create_dir / remove_dir / remove_dir_all / destination of copy_dir / both
  arguments of move_dir not the root); `RTS wa ws`; for `move_file` calls only:
  `RemovalCommutes` of the async source path (C15Async §6; proved there for memory-leaf paths,
  NOT proved here for paths of an arbitrary stacking — without it the theorem still holds with
  `VPath.moveFile` on both sides: `op_sim`, `runAll_sim`). Leaves need not be distinct.

  NOT PROVED / the sync side is `qleafFS`, not `leafFS`. `qleafFS i` is `leafFS i` except:
  `open_file` does not record the access time, `metadata` answers with erased times, the three time
  setters and copy_file/move_file/move_dir are the trait defaults (NotSupported — for the last
  three `leafFS` answers the same on a memory leaf). Reasons, all REAL differences of the model:
   * time setters: AsyncMemoryFS has none (C15Async `async_memory_has_no_timestamps`); they are
     also left out of `Op`.
   * metadata: `SimFS0` of Sim.lean demands EQUAL metadata, the async answer has no times; a
     parametricity theorem with "equal type and length" would need Sim.lean re-proved with a
     generalised field (the path operations only read `ftype`/`len`).
   * open_file: the sync `Mem.openFile` re-inserts the entry (access time), which moves it to the
     front of the association list that stands for the unobservable HashMap order; `read_dir`
     lists in that order, so after an `open_file` the model's sync and async listings agree only
     up to permutation. Sim.lean's `NamesRel` is list equality; a permutation-insensitive
     parametricity (walks in permuted orders!) is not available. C15Async
     `Mem_openFile_world_eraseTS` is the extensional bridge at the leaf.
  The bridge `qleafFS` → `leafFS` through the adapters (equal up to timestamps and listing order)
  is therefore NOT proved. Also outside: the writers are the sync `WHandle` on both sides (the
  record type fixes it; AWHandle poll-level behaviour is C15Async §1-4, `amemPublish_eraseTS` the
  bridge); the async physical port; executors / Pending (poll-level theorems of C15.lean).
-/
import VfsModel.Proofs.SubtreeSim
import VfsModel.Props.C15Async
set_option linter.unusedVariables false
namespace Vfs.C15

/-! ## 1. the leaf: AsyncMemoryFS against MemoryFS as a `SimFS` instance -/

/-- worlds that are equal once every timestamp is forgotten (the relation of C15Async, made
symmetric because the record type `FS` fixes the writer to the sync `WHandle`, whose flush stamps a
modification time on BOTH sides); every leaf is an in-memory leaf with canonical keys -/
def RTS (wa ws : World) : Prop :=
  wa.eraseTS = ws.eraseTS ∧ ∀ i l, ws.leaf? i = some l → l.kind = .mem ∧ KeysCanon l.files

/-- related writers: the same in-memory writer -/
def HM (h1 h2 : WHandle) : Prop := h1 = h2 ∧ h1.kind = .memFile

/-- the sync MemoryFS with its timestamps unobserved: `open_file` does not record the access
time, `metadata` answers with the three times erased, the three time setters and
`copy_file`/`move_file`/`move_dir` are the trait defaults (MemoryFS implements none of the latter
three; `leafFS` answers NotSupported there too). Every other field is the field of `leafFS`. -/
def qleafFS (i : Nat) : FS :=
  { leafFS i with
    openFile := fun p => onLeaf i fun l => match l.kind with
      | .mem => ((Mem.openFile l.files p).1, l.files)
      | .phys => (Phys.openFile l.files p, l.files)
    metadata := fun p => onLeaf i fun l => match l.kind with
      | .mem => ((Mem.metadata l.files p).map Meta.eraseTS, l.files)
      | .phys => ((Phys.metadata l.files p).map Meta.eraseTS, l.files)
    setCreationTime := fun _ _ => M.failK .notSupported
    setModificationTime := fun _ _ => M.failK .notSupported
    setAccessTime := fun _ _ => M.failK .notSupported
    copyFile := fun _ _ => M.failK .notSupported
    moveFile := fun _ _ => M.failK .notSupported
    moveDir := fun _ _ => M.failK .notSupported }

section maps
variable {ma ms : FMap} (E : ma.eraseTS = ms.eraseTS)
include E

theorem find_rel (k : Str) :
    (ma.find? k).map Entry.eraseTS = (ms.find? k).map Entry.eraseTS := by
  rw [← FMap.find?_eraseTS, ← FMap.find?_eraseTS, E]

theorem via2 {α} (F G : FMap → Str → Res α × FMap)
    (hF : ∀ m p, F m.eraseTS p = ((F m p).1, (F m p).2.eraseTS))
    (hG : ∀ m p, F m.eraseTS p = ((G m p).1, (G m p).2.eraseTS)) (p : Str) :
    (F ma p).1 = (G ms p).1 ∧ (F ma p).2.eraseTS = (G ms p).2.eraseTS := by
  have a := hF ma p
  have b := hG ms p
  rw [E] at a
  rw [a] at b
  exact ⟨congrArg (fun x => x.1) b, congrArg (fun x => x.2) b⟩

theorem via1 {α} (F G : FMap → Str → Res α)
    (hF : ∀ m p, F m.eraseTS p = F m p) (hG : ∀ m p, F m.eraseTS p = G m p) (p : Str) :
    F ma p = G ms p := by
  rw [← hF ma p, E, hG]

end maps

theorem AMem_createDir_comm (m : FMap) (p : Str) :
    AMem.createDir m.eraseTS p = ((AMem.createDir m p).1, (AMem.createDir m p).2.eraseTS) := by
  unfold AMem.createDir
  rw [Mem.ensureHasParent_eraseTS, FMap.find?_eraseTS]
  cases Mem.ensureHasParent m p with
  | ok _ =>
    cases m.find? p with
    | none => simp [FMap.insert_eraseTS' m p adirEntry adirEntry rfl]
    | some e => rfl
  | err k q => rfl
  | panic => rfl

theorem AMem_createFile_comm (m : FMap) (p : Str) :
    AMem.createFile m.eraseTS p = ((AMem.createFile m p).1, (AMem.createFile m p).2.eraseTS) := by
  unfold AMem.createFile
  rw [Mem.ensureHasParent_eraseTS, FMap.find?_eraseTS]
  cases Mem.ensureHasParent m p with
  | ok _ =>
    cases m.find? p with
    | none => simp [FMap.insert_eraseTS' m p (afileEntry []) (afileEntry []) rfl]
    | some e =>
      by_cases hd : e.ftype = .dir
      · simp [hd]
      · simp [hd, FMap.insert_eraseTS' m p (afileEntry []) (afileEntry []) rfl]
  | err k q => rfl
  | panic => rfl

theorem AMem_metadata_comm (m : FMap) (p : Str) :
    AMem.metadata m.eraseTS p = AMem.metadata m p := by
  unfold AMem.metadata
  rw [FMap.find?_eraseTS]
  cases m.find? p <;> rfl

theorem AMem_openFile_comm (m : FMap) (p : Str) :
    AMem.openFile m.eraseTS p = AMem.openFile m p := by
  unfold AMem.openFile
  rw [FMap.find?_eraseTS]
  cases m.find? p <;> rfl

/-! keys stay canonical -/

theorem keys_createDir {m : FMap} (hk : KeysCanon m) {p : Str} (hp : Canon p) :
    KeysCanon (Mem.createDir m p).2 := by
  unfold Mem.createDir
  repeat' split
  all_goals first | exact hk | exact hk.insert hp _

theorem keys_createFile {m : FMap} (hk : KeysCanon m) {p : Str} (hp : Canon p) :
    KeysCanon (Mem.createFile m p).2 := by
  unfold Mem.createFile
  repeat' split
  all_goals first | exact hk | exact hk.insert hp _

theorem keys_removeFile {m : FMap} (hk : KeysCanon m) (p : Str) :
    KeysCanon (Mem.removeFile m p).2 := by
  unfold Mem.removeFile
  repeat' split
  all_goals first | exact hk | exact hk.erase _

theorem keys_removeDir {m : FMap} (hk : KeysCanon m) (p : Str) :
    KeysCanon (Mem.removeDir m p).2 := by
  unfold Mem.removeDir
  repeat' split
  all_goals first | exact hk | exact hk.erase _

theorem keys_memPublish {m : FMap} (hk : KeysCanon m) (k : Str) (b : Bytes) :
    KeysCanon (memPublish m k b) := by
  unfold memPublish
  cases h : m.find? k with
  | none => exact hk
  | some e =>
    dsimp only
    split
    · exact hk.insert (hk k ((FMap.mem_keys_iff m k).2 ⟨e, h⟩)) _
    · exact hk

/-! the world level -/

theorem leaf_rel {wa ws : World} (E : wa.eraseTS = ws.eraseTS) (i : Nat) :
    (wa.leaf? i).map Leaf.eraseTS = (ws.leaf? i).map Leaf.eraseTS := by
  rw [← World.leaf?_eraseTS, ← World.leaf?_eraseTS, E]

theorem rts_setLeaf {wa ws : World} (h : RTS wa ws) (i : Nat) (fa fs : FMap)
    (hf : fa.eraseTS = fs.eraseTS) (hk : KeysCanon fs) :
    RTS (wa.setLeafFiles i fa) (ws.setLeafFiles i fs) := by
  refine ⟨by rw [World.setLeafFiles_eraseTS, World.setLeafFiles_eraseTS, h.1, hf], ?_⟩
  intro j l hl
  by_cases hj : j = i
  · subst hj
    cases h0 : ws.leaf? j with
    | none => rw [World.leaf?_setLeafFiles_noneA ws j fs h0, h0] at hl; cases hl
    | some l0 =>
      rw [World.leaf?_setLeafFiles_selfA ws j fs l0 h0] at hl
      cases hl
      exact ⟨(h.2 j l0 h0).1, hk⟩
  · rw [World.leaf?_setLeafFiles_neA ws i j fs hj] at hl
    exact h.2 j l hl

variable {PR : Option Str → Option Str → Prop} [ReflPR PR]

/-- two leaf functions that agree on timestamp-erased maps are related computations -/
theorem sim_onLeaf {α β} {Q : α → β → Prop} (i : Nat) (f : Leaf → Res α × FMap)
    (g : Leaf → Res β × FMap)
    (h : ∀ la ls : Leaf, la.kind = .mem → ls.kind = .mem → KeysCanon ls.files →
      la.files.eraseTS = ls.files.eraseTS →
      RelRes PR Q (f la).1 (g ls).1 ∧ (f la).2.eraseTS = (g ls).2.eraseTS ∧ KeysCanon (g ls).2) :
    SimM RTS PR Q (onLeaf i f) (onLeaf i g) := by
  intro wa ws hr
  have hl := leaf_rel hr.1 i
  unfold onLeaf
  cases ha : wa.leaf? i with
  | none =>
    cases hs : ws.leaf? i with
    | none => exact ⟨.panic, hr⟩
    | some ls => rw [ha, hs] at hl; cases hl
  | some la =>
    cases hs : ws.leaf? i with
    | none => rw [ha, hs] at hl; cases hl
    | some ls =>
      rw [ha, hs] at hl
      simp only [Option.map_some, Option.some.injEq] at hl
      obtain ⟨ka, fa⟩ := la
      obtain ⟨ks, fs⟩ := ls
      simp only [Leaf.eraseTS, Leaf.mk.injEq] at hl
      obtain ⟨hk, hf⟩ := hl
      obtain ⟨hm, hkc⟩ := hr.2 i _ hs
      simp only at hm hkc
      subst hm
      subst hk
      obtain ⟨h1, h2, h3⟩ := h ⟨.mem, fa⟩ ⟨.mem, fs⟩ rfl rfl hkc hf
      exact ⟨h1, rts_setLeaf hr i _ _ h2 h3⟩

theorem RelRes.of_eq {α} {r1 r2 : Res α} (h : r1 = r2) : RelRes PR (· = ·) r1 r2 := by
  subst h; exact RelRes.refl (fun _ => rfl) _

/-- the handle operations on related in-memory writers -/
theorem simHandles : SimHandles RTS PR HM where
  write := by
    rintro h1 h2 bs ⟨rfl, hk⟩ wa ws hr
    unfold WHandle.write
    simp only [hk]
    exact ⟨.ok ⟨rfl, rfl, rfl⟩, hr⟩
  flush := by
    rintro h1 h2 ⟨rfl, hk⟩ wa ws hr
    have hl := leaf_rel hr.1 h1.leaf
    unfold WHandle.flush
    simp only [hk]
    cases ha : wa.leaf? h1.leaf with
    | none =>
      cases hs : ws.leaf? h1.leaf with
      | none => exact ⟨.ok (by first | rfl | trivial), hr⟩
      | some ls => rw [ha, hs] at hl; cases hl
    | some la =>
      cases hs : ws.leaf? h1.leaf with
      | none => rw [ha, hs] at hl; cases hl
      | some ls =>
        rw [ha, hs] at hl
        simp only [Option.map_some, Option.some.injEq] at hl
        obtain ⟨ka, fa⟩ := la
        obtain ⟨ks, fs⟩ := ls
        simp only [Leaf.eraseTS, Leaf.mk.injEq] at hl
        refine ⟨.ok (by first | rfl | trivial), rts_setLeaf hr _ _ _ ?_ (keys_memPublish (hr.2 _ _ hs).2 _ _)⟩
        rw [← amemPublish_eraseTS, ← amemPublish_eraseTS, hl.2]
  seek := by
    rintro h1 h2 s ⟨rfl, hk⟩ wa ws hr
    unfold WHandle.seek WHandle.fileLen
    simp only [hk]
    cases cursorSeek h1.buf.length h1.pos s with
    | ok n => exact ⟨.ok ⟨rfl, rfl, rfl⟩, hr⟩
    | err k p => exact ⟨.err (ReflPR.refl _), hr⟩
    | panic => exact ⟨.panic, hr⟩

set_option hygiene false in
macro "leaf_prelude" : tactic => `(tactic|
  (refine sim_onLeaf _ _ _ fun la ls hka hks hkc E => ?_
   obtain ⟨ka, fa⟩ := la
   obtain ⟨ks, fs⟩ := ls
   simp only at hka hks hkc E
   subst hka
   subst hks
   dsimp only))

theorem leaf_sim0 (i : Nat) : SimFS0 RTS PR HM (aleafFS i) (qleafFS i) where
  readDir p hp := by
    show SimM RTS PR _ (onLeaf i _) (onLeaf i _)
    leaf_prelude
    have e : AMem.readDir fa p = Mem.readDir fs p := by
      unfold AMem.readDir; rw [← Mem.readDir_eraseTS fa, E, Mem.readDir_eraseTS]
    refine ⟨?_, E, hkc⟩
    rw [e]
    cases h : Mem.readDir fs p with
    | ok l => exact .ok ⟨rfl, readDir_names_good fs p hkc l h⟩
    | err k q => exact .err (ReflPR.refl _)
    | panic => exact .panic
  createDir p hp _ := by
    show SimM RTS PR _ (onLeaf i _) (onLeaf i _)
    leaf_prelude
    obtain ⟨h1, h2⟩ := via2 E AMem.createDir Mem.createDir AMem_createDir_comm
      AMem_createDir_eraseTS p
    exact ⟨RelRes.of_eq h1, h2, keys_createDir hkc hp⟩
  openFile p hp := by
    show SimM RTS PR _ (onLeaf i _) (onLeaf i _)
    leaf_prelude
    have h1 := via1 E AMem.openFile (fun m p => (Mem.openFile m p).1) AMem_openFile_comm
      AMem_openFile_eraseTS p
    exact ⟨RelRes.of_eq h1, E, hkc⟩
  createFile p hp := by
    show SimM RTS PR _ (onLeaf i _) (onLeaf i _)
    leaf_prelude
    obtain ⟨h1, h2⟩ := via2 E AMem.createFile Mem.createFile AMem_createFile_comm
      AMem_createFile_eraseTS p
    have h3 := keys_createFile hkc hp
    rcases hA : AMem.createFile fa p with ⟨ra, fa'⟩
    rcases hS : Mem.createFile fs p with ⟨rs, fs'⟩
    rw [hA, hS] at h1 h2
    rw [hS] at h3
    simp only at h1 h2 h3
    subst h1
    refine ⟨?_, h2, h3⟩
    cases ra with
    | ok _ => exact .ok ⟨rfl, rfl⟩
    | err k q => exact .err (ReflPR.refl _)
    | panic => exact .panic
  appendFile p hp := by
    show SimM RTS PR _ (onLeaf i _) (onLeaf i _)
    leaf_prelude
    have h1 := via1 E AMem.appendFile Mem.appendFile (fun m p => Mem.appendFile_eraseTS m p)
      (fun m p => Mem.appendFile_eraseTS m p) p
    refine ⟨?_, E, hkc⟩
    rw [h1]
    cases Mem.appendFile fs p with
    | ok _ => exact .ok ⟨rfl, rfl⟩
    | err k q => exact .err (ReflPR.refl _)
    | panic => exact .panic
  metadata p hp := by
    show SimM RTS PR _ (onLeaf i _) (onLeaf i _)
    leaf_prelude
    have h1 := via1 E AMem.metadata (fun m p => (Mem.metadata m p).map Meta.eraseTS)
      AMem_metadata_comm AMem_metadata_eraseTS p
    exact ⟨RelRes.of_eq h1, E, hkc⟩
  setCreationTime _ _ _ := SimM.failK _
  setModificationTime _ _ _ := SimM.failK _
  setAccessTime _ _ _ := SimM.failK _
  exists_ p hp := by
    show SimM RTS PR _ (onLeaf i _) (onLeaf i _)
    leaf_prelude
    have h1 : AMem.exists_ fa p = fs.contains p := by
      unfold AMem.exists_; rw [← FMap.contains_eraseTS fa, E, FMap.contains_eraseTS]
    exact ⟨RelRes.of_eq (by rw [h1]), E, hkc⟩
  removeFile p hp := by
    show SimM RTS PR _ (onLeaf i _) (onLeaf i _)
    leaf_prelude
    obtain ⟨h1, h2⟩ := via2 E Mem.removeFile Mem.removeFile Mem.removeFile_eraseTS
      Mem.removeFile_eraseTS p
    exact ⟨RelRes.of_eq h1, h2, keys_removeFile hkc p⟩
  removeDir p hp _ := by
    show SimM RTS PR _ (onLeaf i _) (onLeaf i _)
    leaf_prelude
    obtain ⟨h1, h2⟩ := via2 E Mem.removeDir Mem.removeDir Mem.removeDir_eraseTS
      Mem.removeDir_eraseTS p
    exact ⟨RelRes.of_eq h1, h2, keys_removeDir hkc p⟩
  moveFile _ _ _ _ := SimM.failK _
  moveDir _ _ _ _ := SimM.failK _

/-- **AsyncMemoryFS ~ MemoryFS (timestamps unobserved)** in the form the parametricity theorems
of Proofs/Sim.lean accept -/
theorem leaf_sim (i : Nat) : SimFS RTS PR HM (aleafFS i) (qleafFS i) :=
  SimFS.of_strong simHandles (leaf_sim0 i) (fun _ _ _ _ => SimM.failK _)

/-! ## 2. stackings, built on both sides in parallel -/

/-- `AsyncOverlayFS` with its own `read_dir` (overlay.rs:93-131, `Overlay.readDirA`) -/
def overlayFSA (layers : List VPath) : FS :=
  { Overlay.fs layers with readDir := Overlay.readDirA layers }

theorem overlayFSA_eq (layers : List VPath) : overlayFSA layers = Overlay.fs layers := by
  unfold overlayFSA
  rw [overlay_readDirA_eq_readDir]
  rfl

mutual
/-- async stacking (left) and sync stacking (right) of the same shape: memory leaves, altroots over
a canonical sub-directory, overlays (async: `overlayFSA`) over non-empty lists of layers -/
inductive StackRel : FS → FS → Prop
  | leaf (i : Nat) : StackRel (aleafFS i) (qleafFS i)
  | altroot {f1 f2 : FS} (id : Nat) (root : Str) : StackRel f1 f2 → Canon root →
      StackRel (Altroot.fs ⟨f1, id, root⟩) (Altroot.fs ⟨f2, id, root⟩)
  | overlay {l1 l2 : List VPath} : LayersRel l1 l2 → l1 ≠ [] → Overlay.LayersOK l1 →
      Overlay.LayersOK l2 → StackRel (overlayFSA l1) (Overlay.fs l2)
/-- layer lists of the same shape -/
inductive LayersRel : List VPath → List VPath → Prop
  | nil : LayersRel [] []
  | cons {f1 f2 : FS} (id : Nat) (p : Str) {l1 l2 : List VPath} : StackRel f1 f2 → Canon p →
      LayersRel l1 l2 → LayersRel (⟨f1, id, p⟩ :: l1) (⟨f2, id, p⟩ :: l2)
end

mutual
theorem stack_sim {f1 f2 : FS} : StackRel f1 f2 → SimFS RTS PR HM f1 f2
  | .leaf i => leaf_sim i
  | .altroot id root h hc => Altroot.sim_fs simHandles ⟨stack_sim h, rfl, rfl, hc⟩
  | .overlay hl hne h1 h2 => by
      rw [overlayFSA_eq]
      exact Overlay.sim_fs (layers_sim hl) hne simHandles h1 h2
theorem layers_sim {l1 l2 : List VPath} : LayersRel l1 l2 → ListRel (SimVPath RTS PR HM) l1 l2
  | .nil => .nil
  | .cons id p h hc hl => .cons ⟨stack_sim h, rfl, rfl, hc⟩ (layers_sim hl)
end

/-! ## 3. operations of the path API, histories -/

/-- what a caller observes of one call -/
inductive Obs
  | unit | bool (b : Bool) | nat (n : Nat) | md (m : Meta) | names (l : List Str)
  | bytes (b : Bytes) | items (l : List (Res Str))

/-- calls of the path API on paths of one filesystem (path strings relative to its root) -/
inductive Op
  | exists_ (p : Str) | metadata (p : Str) | readDir (p : Str) | createDir (p : Str)
  | createDirAll (p : Str) | write (p : Str) (bs : Bytes) | append (p : Str) (bs : Bytes)
  | readToString (p : Str) | removeFile (p : Str) | removeDir (p : Str)
  | removeDirAll (fuel : Nat) (p : Str) | walk (fuel : Nat) (p : Str)
  | copyFile (s d : Str) | moveFile (s d : Str)
  | copyDir (fuel : Nat) (s d : Str) | moveDir (fuel : Nat) (s d : Str)

/-- the path arguments are canonical (what `VfsPath::join` produces); `create_dir`, `remove_dir`,
`remove_dir_all`, the destination of `copy_dir` and both arguments of `move_dir` are not the root -/
def Op.OK : Op → Prop
  | .exists_ p => Canon p | .metadata p => Canon p | .readDir p => Canon p
  | .createDir p => Canon p ∧ p ≠ [] | .createDirAll p => Canon p | .write p _ => Canon p
  | .append p _ => Canon p | .readToString p => Canon p | .removeFile p => Canon p
  | .removeDir p => Canon p ∧ p ≠ [] | .removeDirAll _ p => Canon p ∧ p ≠ []
  | .walk _ p => Canon p | .copyFile s d => Canon s ∧ Canon d | .moveFile s d => Canon s ∧ Canon d
  | .copyDir _ s d => Canon s ∧ Canon d ∧ d ≠ []
  | .moveDir _ s d => Canon s ∧ Canon d ∧ s ≠ [] ∧ d ≠ []

/-- one call on the filesystem `f` (identity `id`); `cp` / `mv` = the `copy_file` / `move_file`
of the port (`VPath.copyFile`/`moveFile` sync, `VPath.copyFileA`/`moveFileA` async) -/
def Op.run (cp mv : VPath → VPath → M Unit) (f : FS) (id : Nat) : Op → M Obs
  | .exists_ p => do let b ← (VPath.mk f id p).exists_; pure (.bool b)
  | .metadata p => do let m ← (VPath.mk f id p).metadata; pure (.md m)
  | .readDir p => do let l ← (VPath.mk f id p).readDir; pure (.names (l.map (·.path)))
  | .createDir p => do let _ ← (VPath.mk f id p).createDir; pure .unit
  | .createDirAll p => do let _ ← (VPath.mk f id p).createDirAll; pure .unit
  | .write p bs => do
      let _ ← (do let hd ← (VPath.mk f id p).createFile; hd.writeAllAndDrop bs : M Unit)
      pure .unit
  | .append p bs => do
      let _ ← (do let hd ← (VPath.mk f id p).appendFile; hd.writeAllAndDrop bs : M Unit)
      pure .unit
  | .readToString p => do let b ← (VPath.mk f id p).readToEndChecked; pure (.bytes b)
  | .removeFile p => do let _ ← (VPath.mk f id p).removeFile; pure .unit
  | .removeDir p => do let _ ← (VPath.mk f id p).removeDir; pure .unit
  | .removeDirAll fuel p => do let _ ← VPath.removeDirAll fuel (VPath.mk f id p); pure .unit
  | .walk fuel p => do
      let s ← (VPath.mk f id p).walkDir
      let l ← VPath.walkAll fuel s
      pure (.items (l.map fun x => x.map (·.path)))
  | .copyFile s d => do let _ ← cp (VPath.mk f id s) (VPath.mk f id d); pure .unit
  | .moveFile s d => do let _ ← mv (VPath.mk f id s) (VPath.mk f id d); pure .unit
  | .copyDir fuel s d => do
      let n ← VPath.copyDir fuel (VPath.mk f id s) (VPath.mk f id d); pure (.nat n)
  | .moveDir fuel s d => do
      let _ ← VPath.moveDir fuel (VPath.mk f id s) (VPath.mk f id d); pure .unit

/-- a history: every call runs, its outcome (answer or error) is recorded -/
def runAll (cp mv : VPath → VPath → M Unit) (f : FS) (id : Nat) : List Op → M (List (Res Obs))
  | [] => pure []
  | op :: ops => do
    let x ← M.attempt (op.run cp mv f id)
    let xs ← runAll cp mv f id ops
    pure (x :: xs)

abbrev PE : Option Str → Option Str → Prop := (· = ·)
abbrev BT : VPath → VPath → Prop := fun _ _ => True

theorem items_eq {l1 l2 : List (Res VPath)}
    (h : ListRel (RelRes PE (SimVP RTS PE HM BT)) l1 l2) :
    (l1.map fun x => x.map (·.path)) = (l2.map fun x => x.map (·.path)) := by
  induction h with
  | nil => rfl
  | @cons a b l1 l2 hab _ ih =>
    simp only [List.map_cons, ih]
    congr 1
    cases hab with
    | ok hq => simp only [Res.map, hq.1.path]
    | err hp => cases hp; rfl
    | panic => rfl

section ops
variable {f1 f2 : FS} (hfs : SimFS RTS PE HM f1 f2) (id : Nat)
include hfs

theorem vp_sim {p : Str} (hp : Canon p) : SimVPath RTS PE HM ⟨f1, id, p⟩ ⟨f2, id, p⟩ :=
  ⟨hfs, rfl, rfl, hp⟩

/-- every call of the path API: related filesystems give equal observations and related worlds -/
theorem op_sim (op : Op) (hok : op.OK) :
    SimM RTS PE (· = ·) (op.run VPath.copyFile VPath.moveFile f1 id)
      (op.run VPath.copyFile VPath.moveFile f2 id) := by
  have hh : SimHandles RTS PE HM := simHandles
  cases op with
  | exists_ p => exact SimM.bind_eq (VPath.sim_exists (vp_sim hfs id hok)) fun _ => SimM.pure rfl
  | metadata p => exact SimM.bind_eq (VPath.sim_metadata (vp_sim hfs id hok)) fun _ => SimM.pure rfl
  | readDir p =>
    refine SimM.bind (VPath.sim_readDir (B0 := BT) (B := BT) (vp_sim hfs id hok) trivial
      childClosed_true.step) fun l1 l2 hl => SimM.pure ?_
    rw [Overlay.paths_of_listRel hl]
  | createDir p =>
    exact SimM.bind_eq (VPath.sim_createDir (vp_sim hfs id hok.1) hok.2) fun _ => SimM.pure rfl
  | createDirAll p =>
    exact SimM.bind_eq (VPath.sim_createDirAll (vp_sim hfs id hok)) fun _ => SimM.pure rfl
  | write p bs =>
    exact SimM.bind_eq (VPath.sim_writeSession hh (vp_sim hfs id hok) bs) fun _ => SimM.pure rfl
  | append p bs =>
    exact SimM.bind_eq (VPath.sim_appendSession hh (vp_sim hfs id hok) bs) fun _ => SimM.pure rfl
  | readToString p =>
    exact SimM.bind_eq (VPath.sim_readToEndChecked (vp_sim hfs id hok)) fun _ => SimM.pure rfl
  | removeFile p =>
    exact SimM.bind_eq (VPath.sim_removeFile (vp_sim hfs id hok)) fun _ => SimM.pure rfl
  | removeDir p =>
    exact SimM.bind_eq (VPath.sim_removeDir (vp_sim hfs id hok.1) hok.2) fun _ => SimM.pure rfl
  | removeDirAll fuel p =>
    exact SimM.bind_eq (VPath.sim_removeDirAll fuel (vp_sim hfs id hok.1) hok.2) fun _ =>
      SimM.pure rfl
  | walk fuel p =>
    refine SimM.bind (VPath.sim_walkDir (B0 := BT) (B := BT) (vp_sim hfs id hok) trivial
      childClosed_true.step) fun s1 s2 hs => ?_
    refine SimM.bind (VPath.sim_walkAll childClosed_true fuel hs) fun l1 l2 hl => SimM.pure ?_
    rw [items_eq hl]
  | copyFile s d =>
    exact SimM.bind_eq (VPath.sim_copyFile hh (vp_sim hfs id hok.1) (vp_sim hfs id hok.2)
      (fun _ => rfl) (fun _ => rfl)) fun _ => SimM.pure rfl
  | moveFile s d =>
    exact SimM.bind_eq (VPath.sim_moveFile hh (vp_sim hfs id hok.1) (vp_sim hfs id hok.2))
      fun _ => SimM.pure rfl
  | copyDir fuel s d =>
    exact SimM.bind_eq (VPath.sim_copyDir hh fuel (vp_sim hfs id hok.1) (vp_sim hfs id hok.2.1)
      hok.2.2 (fun _ => rfl) (fun _ => rfl)) fun _ => SimM.pure rfl
  | moveDir fuel s d =>
    exact SimM.bind_eq (VPath.sim_moveDir hh fuel (vp_sim hfs id hok.1) (vp_sim hfs id hok.2.1)
      hok.2.2.1 hok.2.2.2 (fun _ => rfl) (fun _ => rfl)) fun _ => SimM.pure rfl

theorem runAll_sim (ops : List Op) (hok : ∀ op ∈ ops, op.OK) :
    SimM RTS PE (· = ·) (runAll VPath.copyFile VPath.moveFile f1 id ops)
      (runAll VPath.copyFile VPath.moveFile f2 id ops) := by
  induction ops with
  | nil => exact SimM.pure rfl
  | cons op ops ih =>
    unfold runAll
    refine SimM.bind (SimM.attempt (op_sim hfs id op (hok op (by simp)))) fun x1 x2 hx => ?_
    have := hx.eq_of_eq
    subst this
    exact SimM.bind_eq (ih fun o ho => hok o (by simp [ho])) fun _ => SimM.pure rfl

end ops

/-- the async port's own `copy_file` / `move_file` in place of the sync ones: the same
computation, for `move_file` when removing the source commutes with flushing a writer
(`RemovalCommutes`, C15Async §6; proved there for paths of a memory leaf) -/
theorem run_async_eq (f : FS) (id : Nat) (op : Op)
    (hrc : ∀ s d, op = .moveFile s d → RemovalCommutes ⟨f, id, s⟩) :
    op.run VPath.copyFileA VPath.moveFileA f id = op.run VPath.copyFile VPath.moveFile f id := by
  rw [copyFileA_eq_copyFile]
  cases op with
  | moveFile s d =>
    simp only [Op.run]
    rw [moveFileA_eq_moveFile _ _ (hrc s d rfl)]
  | _ => rfl

theorem runAll_async_eq (f : FS) (id : Nat) (ops : List Op)
    (hrc : ∀ s d, Op.moveFile s d ∈ ops → RemovalCommutes ⟨f, id, s⟩) :
    runAll VPath.copyFileA VPath.moveFileA f id ops = runAll VPath.copyFile VPath.moveFile f id ops := by
  induction ops with
  | nil => rfl
  | cons op ops ih =>
    unfold runAll
    rw [run_async_eq f id op (fun s d h => hrc s d (by simp [h])),
      ih (fun s d h => hrc s d (by simp [h]))]

/-- **C15 through the adapters, one call.** `fa` an async stacking (AsyncAltrootFS /
AsyncOverlayFS with its own `read_dir`, over AsyncMemoryFS leaves), `fs` the sync stacking of the
same shape; the call runs the async port's `copy_file`/`move_file` on the async side. From worlds
equal up to timestamps: the same observation (answer or error, error path included) and again
worlds equal up to timestamps. -/
theorem async_stack_eq_sync_stack {fa fs : FS} (hst : StackRel fa fs) (id : Nat) (op : Op)
    (hok : op.OK) (hrc : ∀ s d, op = .moveFile s d → RemovalCommutes ⟨fa, id, s⟩)
    (wa ws : World) (hw : RTS wa ws) :
    (op.run VPath.copyFileA VPath.moveFileA fa id wa).1
        = (op.run VPath.copyFile VPath.moveFile fs id ws).1 ∧
      RTS (op.run VPath.copyFileA VPath.moveFileA fa id wa).2
        (op.run VPath.copyFile VPath.moveFile fs id ws).2 := by
  rw [run_async_eq fa id op hrc]
  obtain ⟨h1, h2⟩ := op_sim (stack_sim hst) id op hok wa ws hw
  exact ⟨h1.eq_of_eq, h2⟩

/-- **C15 through the adapters, any finite history of calls.** -/
theorem async_stack_eq_sync_stack_history {fa fs : FS} (hst : StackRel fa fs) (id : Nat)
    (ops : List Op) (hok : ∀ op ∈ ops, op.OK)
    (hrc : ∀ s d, Op.moveFile s d ∈ ops → RemovalCommutes ⟨fa, id, s⟩)
    (wa ws : World) (hw : RTS wa ws) :
    (runAll VPath.copyFileA VPath.moveFileA fa id ops wa).1
        = (runAll VPath.copyFile VPath.moveFile fs id ops ws).1 ∧
      RTS (runAll VPath.copyFileA VPath.moveFileA fa id ops wa).2
        (runAll VPath.copyFile VPath.moveFile fs id ops ws).2 := by
  rw [runAll_async_eq fa id ops hrc]
  obtain ⟨h1, h2⟩ := runAll_sim (stack_sim hst) id ops hok wa ws hw
  exact ⟨h1.eq_of_eq, h2⟩

#print axioms async_stack_eq_sync_stack
#print axioms async_stack_eq_sync_stack_history

/-! ## 4. non-vacuity: a 2-layer overlay under an altroot, over async / sync memory leaves -/

theorem canon_nil : Canon [] := ⟨[], by simp, rfl⟩

def exLa : List VPath := [⟨aleafFS 0, 0, []⟩, ⟨aleafFS 1, 1, []⟩]
def exLs : List VPath := [⟨qleafFS 0, 0, []⟩, ⟨qleafFS 1, 1, []⟩]
def exFa : FS := Altroot.fs ⟨overlayFSA exLa, 5, []⟩
def exFs : FS := Altroot.fs ⟨Overlay.fs exLs, 5, []⟩

theorem exLa_ok : Overlay.LayersOK exLa := by
  intro a ha b hb h
  simp only [exLa, List.mem_cons, List.not_mem_nil, or_false] at ha hb
  rcases ha with rfl | rfl <;> rcases hb with rfl | rfl <;> first | rfl | (simp at h)

theorem exLs_ok : Overlay.LayersOK exLs := by
  intro a ha b hb h
  simp only [exLs, List.mem_cons, List.not_mem_nil, or_false] at ha hb
  rcases ha with rfl | rfl <;> rcases hb with rfl | rfl <;> first | rfl | (simp at h)

theorem exStack : StackRel exFa exFs :=
  .altroot 5 [] (.overlay (.cons 0 [] (.leaf 0) canon_nil (.cons 1 [] (.leaf 1) canon_nil .nil))
    (by simp [exLa]) exLa_ok exLs_ok) canon_nil

/-- the sync world (with timestamps) and the async world (none) -/
def adWs : World := { leaves := [⟨.mem, [([], dirEntryNow)]⟩, ⟨.mem, [([], dirEntryNow)]⟩] }
def adWa : World := { leaves := [⟨.mem, AMem.init⟩, ⟨.mem, AMem.init⟩] }

theorem exRTS : RTS adWa adWs := by
  refine ⟨rfl, fun i l h => ?_⟩
  have hk : KeysCanon [(([] : Str), dirEntryNow)] := by
    intro k hk
    simp [FMap.keys] at hk
    subst hk
    exact canon_nil
  match i, h with
  | 0, h => cases h; exact ⟨rfl, hk⟩
  | 1, h => cases h; exact ⟨rfl, hk⟩
  | n + 2, h => simp [World.leaf?, adWs] at h

def sA : Str := ['/', 'a']
def sAF : Str := ['/', 'a', '/', 'f']
def sAG : Str := ['/', 'a', '/', 'g']

def adOps : List Op :=
  [.createDir sA, .write sAF [1, 2], .readToString sAF, .copyFile sAF sAG, .readDir sA,
   .walk 8 [], .metadata sAG, .removeDirAll 8 sA, .exists_ sA]

theorem exOps_ok : ∀ op ∈ adOps, op.OK := by
  have c1 : Canon sA := ⟨[['a']], by decide, rfl⟩
  have c2 : Canon sAF := ⟨[['a'], ['f']], by decide, rfl⟩
  have c3 : Canon sAG := ⟨[['a'], ['g']], by decide, rfl⟩
  intro op hop
  simp only [adOps, List.mem_cons, List.not_mem_nil, or_false] at hop
  rcases hop with rfl | rfl | rfl | rfl | rfl | rfl | rfl | rfl | rfl
  · exact ⟨c1, by decide⟩
  · exact c2
  · exact c2
  · exact ⟨c2, c3⟩
  · exact c1
  · exact canon_nil
  · exact c3
  · exact ⟨c1, by decide⟩
  · exact c1

/-- the hypotheses of the history theorem hold on this world, and its conclusion there -/
example :
    (runAll VPath.copyFileA VPath.moveFileA exFa 5 adOps adWa).1
      = (runAll VPath.copyFile VPath.moveFile exFs 5 adOps adWs).1 ∧
    RTS (runAll VPath.copyFileA VPath.moveFileA exFa 5 adOps adWa).2
      (runAll VPath.copyFile VPath.moveFile exFs 5 adOps adWs).2 :=
  async_stack_eq_sync_stack_history exStack 5 adOps exOps_ok
    (fun s d h => by simp [adOps] at h) adWa adWs exRTS


/-- … and the history is not a list of refusals: the first five calls, kernel-evaluated, all succeed
on the async stacking (the whole of `adOps` evaluates to nine successes on both sides with `#eval`;
the kernel does not reduce `walk` / `remove_dir_all` in reasonable time) -/
example : ((runAll VPath.copyFileA VPath.moveFileA exFa 5
      [.createDir sA, .write sAF [1, 2], .readToString sAF, .copyFile sAF sAG, .readDir sA] adWa).1.map
    fun r => r.map (fun x => x.isOk)) = .ok [true, true, true, true, true] := by decide +kernel

end Vfs.C15
