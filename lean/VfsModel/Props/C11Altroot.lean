/-
  C11 through an AltrootFS — create_dir_all / remove_dir_all / copy_dir / move_dir called on paths
  of an altroot filesystem rooted at a canonical directory `P` of an in-memory filesystem are
  EXACT in the sense of Props/C11.lean / C11Nested.lean: the exactness theorems of the in-memory
  backend are TRANSFERRED along the simulation "the altroot over `P` is the memory filesystem
  holding `sub P m`" (Proofs/SubtreeSim.lean, Props/C07Subtree.lean) with `SimM.transfer`.

  IMPORTS. Props/C11*.lean are built on Proofs/TransferLemmas.lean, the simulation calculus
  (Proofs/Sim.lean) on Proofs/OverlayLemmas.lean; the two cannot be imported into one file (five
  equal declaration names). This file therefore uses the namespace-separated verbatim copies
  Proofs/SimT.lean, Proofs/SubtreeSimT.lean, Proofs/AltrootSubtreeT.lean (namespace `Vfs.T`),
  which import the TransferLemmas side, and two NEW lemma files on top of them:
  Proofs/AltrootFrameT.lean (the simulation strengthened by "nothing outside `P` changes") and
  Proofs/LeafRootSimT.lean (a plain memory leaf inside the relation).

  SETTING `AltSub w i P m`: leaf `i` of the world is a memory leaf holding `m`; `P` canonical;
  `Inv0 (sub P m)` (`P` is a directory of `m`, the keys at or below `P` are canonical after
  stripping `P`); `AncOK P m` (the proper ancestors of `P` are directories). `sub P m` = the map
  below `P` with `P` stripped: `(sub P m).find? q = m.find? (P ++ q)` for `q = ""` or `q = "/…"`
  (`T.find?_sub`). Paths of the altroot: `apath i id P id' q` =
  `⟨Altroot.fs ⟨leafFS i, id, P⟩, id', q⟩`, `q` canonical. The in-memory theorems are applied to
  the sub-map, so their hypotheses are stated for `sub P m`: `WF (sub P m)`,
  `FMap.NodupKeys (sub P m)` — both follow from `WF m`, `NodupKeys m` (`wf_sub`, `nodupKeys_sub`).

  PROVED (propext, Classical.choice, Quot.sound only). In each theorem `out` is the result of the
  call through the altroot on the world `w`; `m1'` is the map of leaf `i` afterwards:
  * `altroot_createDirAll_exact`  no prefix of `P ++ q` below `P` is a file ⟹ `Ok`, and
      `ChainMade (sub P m) (sub P m1') cs`: below `P` exactly the chain of directories was added
      (every prefix a directory, missing ones fresh, every old entry kept, no other key touched).
  * `altroot_removeDirAll_exact`  `q ≠ ""` a directory below `P`, fuel bound of
      `C11.removeDirAll_exact` (on the sub-map) ⟹ `Ok`, and below `P` exactly the subtree at `q`
      is gone: `(sub P m1').find? k = if under q k then none else (sub P m).find? k` for EVERY
      `k`; spelled out on the leaf map: `m1'.find? (P ++ k) = …` (`altroot_removeDirAll_exact_leaf`).
  * `altroot_copyDir_exact`  source `s` and destination `d = renderC bs` both through the
      altroot; hypotheses of `C11.copyDir_exact` on the sub-map ⟹ `Ok (descendants (sub P m) s)`,
      `d` a fresh directory, the subtree grafted (`d/t` exists iff `s/t` did, same type, same
      bytes), every other key below `P` unchanged up to access times.
  * `altroot_moveDir_exact`  as copy, plus no trace of the source below `P`.
  In all four: the other leaves of the world are unchanged; `P` and its ancestors are still
  directories of `m1'` (`Inv0 (sub P m1')`, `AncOK P m1'`); the result is EQUAL to the in-memory
  result (`Ok` with the same value).
  * `altroot_results_agree`  the general transfer: for ANY outcome of the in-memory run (also
      failures) the altroot run has the same outcome class — `Ok` with the same value, or the same
      error kind, or both the fuel sentinel — for all four operations.
  * `altroot_outside_unchanged`  NOTHING OUTSIDE `P` CHANGES: after each of the four operations
      (any outcome, any fuel, any canonical paths) leaf `i` is a memory leaf whose map agrees with
      `m` on EVERY key that is not at or below `P` (`under P k = false`) — no entry changed, none
      removed, none created. Proved by strengthening the simulation with the unary invariant
      `T.Outside` (Proofs/AltrootFrameT.lean) and running the parametricity theorems again.
  * `wf_sub`, `nodupKeys_sub`: the hypotheses on the sub-map from those on the leaf map.
  * non-vacuity: a concrete leaf with a populated directory "/r" next to entries outside it
    (`decide`), the theorems instantiated, and the runs evaluated by the kernel.

  * `altroot_copyDir_to_leaf_exact`, `altroot_moveDir_to_leaf_exact`  source through the altroot
      on leaf `i`, destination a PLAIN memory filesystem on another leaf `j` (well-formed,
      canonical keys; different `Arc` identities `id' ≠ did`): the hypotheses of
      `C11.copyDir_exact_cross` / `moveDir_exact_cross` on the sub-map and on `md` ⟹ `Ok`, the
      subtree `P ++ s` of leaf `i` is grafted below `d` on leaf `j` (`d/t` exists iff `P ++ s/t`
      did, same type, same bytes), the rest of leaf `j` and the source below `P` are unchanged
      up to access times (move: the source subtree is gone), the other leaves are untouched.
      (Proofs/LeafRootSimT.lean: a plain memory leaf is the role `.sub ""` of the relation.)
  NOT PROVED
  * in the two-filesystem theorems the statements about leaf `j` are for rooted keys (`""` or
    `"/…"`; a well-formed map has no others) and the frame of leaf `i` outside `P` is not
    restated there; a destination altroot / a physical or overlay destination;
    `remove_dir_all("")` on the altroot's own root (outside the simulation: it would remove `P`
    itself).
-/
import VfsModel.Proofs.LeafRootSimT
set_option linter.unusedVariables false
set_option linter.unusedSectionVars false
set_option linter.unusedSimpArgs false
namespace Vfs.C11
open Vfs Vfs.T Vfs.T.C07
open Vfs.CD (shape)

/-! ### the setting and the transfer principle -/

/-- leaf `i` is a memory leaf holding `m`, and `P` is a canonical directory of `m` with canonical
keys below it and directory ancestors -/
structure AltSub (w : World) (i : Nat) (P : Str) (m : FMap) : Prop where
  leaf : MemLeafAt w i m
  canonP : Canon P
  inv : Inv0 (sub P m)
  anc : AncOK P m

/-- the world in which leaf `i` holds the sub-map -/
abbrev subWorld (w : World) (i : Nat) (P : Str) (m : FMap) : World := w.setLeafFiles i (sub P m)

theorem specOne_self (i : Nat) (P : Str) : specOne i P i = .sub P := by
  unfold specOne; rw [if_pos rfl]

theorem specOne_other {i j : Nat} (P : Str) (h : j ≠ i) : specOne i P j = .free := by
  unfold specOne; rw [if_neg h]

section setting
variable {w : World} {i : Nat} {P : Str} {m : FMap} (a : AltSub w i P m)
include a

theorem AltSub.rel : RSub (specOne i P) w (subWorld w i P m) :=
  rsub_of_leaf w i P m a.leaf a.inv a.anc

theorem AltSub.subLeaf : MemLeafAt (subWorld w i P m) i (sub P m) := a.leaf.set _

theorem AltSub.find (q : Str) (hq : Canon q) : (sub P m).find? q = m.find? (P ++ q) :=
  find?_sub P m q hq.rootedT

theorem AltSub.keysCanon : ∀ k e, (sub P m).find? k = some e → Canon k :=
  fun k e he => a.inv.2 k ((FMap.mem_keys_iff _ k).2 ⟨e, he⟩)

omit a in
theorem subWorld_other (w : World) (P : Str) (m : FMap) {i j : Nat} (h : j ≠ i) :
    (subWorld w i P m).leaf? j = w.leaf? j :=
  World.leaf?_setLeafFiles_ne w i j _ (fun e => h e.symm)

end setting

theorem relres_ok_inv {α : Type} {r1 : Res α} {x : α} (h : RelRes PRdrop (· = ·) r1 (.ok x)) :
    r1 = .ok x := by
  cases h with
  | ok hq => rw [hq]

theorem relres_err_inv {α : Type} {r1 : Res α} {k : ErrKind} {p2 : Option Str}
    (h : RelRes PRdrop (· = ·) r1 (.err k p2)) : ∃ p1, r1 = .err k p1 := by
  cases h with
  | err hp => exact ⟨_, rfl⟩

theorem relres_panic_iff {α β : Type} {PR : Option Str → Option Str → Prop} {Q : α → β → Prop}
    {r1 : Res α} {r2 : Res β} (h : RelRes PR Q r1 r2) : r1 = .panic ↔ r2 = .panic := by
  cases h <;> simp

theorem relres_isOk {α β : Type} {PR : Option Str → Option Str → Prop} {Q : α → β → Prop}
    {r1 : Res α} {r2 : Res β} (h : RelRes PR Q r1 r2) : r1.isOk = r2.isOk := by
  cases h <;> rfl

theorem relres_kind {α β : Type} {PR : Option Str → Option Str → Prop} {Q : α → β → Prop}
    {r1 : Res α} {r2 : Res β} (h : RelRes PR Q r1 r2) : r1.kind? = r2.kind? := by
  cases h <;> rfl

theorem memLeafAt_inj {w : World} {i : Nat} {m m' : FMap} (h : MemLeafAt w i m)
    (h' : MemLeafAt w i m') : m = m' := by
  unfold MemLeafAt at h h'
  rw [h] at h'
  injection h' with h'
  injection h' with _ h'

/-- what the relation says about the worlds after a run: leaf `i` on the altroot side is a memory
leaf whose sub-map is the leaf of the in-memory side; `P` and its ancestors are still
directories; the other leaves are equal -/
theorem after_sub {i : Nat} {P : Str} {w1' w2' : World} (hr : RSub (specOne i P) w1' w2')
    {m2' : FMap} (h2 : MemLeafAt w2' i m2') :
    ∃ m1', MemLeafAt w1' i m1' ∧ sub P m1' = m2' ∧ Inv0 (sub P m1') ∧ AncOK P m1' ∧
      ∀ j, j ≠ i → w1'.leaf? j = w2'.leaf? j := by
  have hl := hr.leaf i
  rw [specOne_self] at hl
  obtain ⟨m1, a1, a2, a3, a4⟩ := hl
  have h2' : MemLeafAt w2' i (sub P m1) := a2
  refine ⟨m1, a1, memLeafAt_inj h2' h2, a3, a4, fun j hj => ?_⟩
  have := hr.leaf j
  rw [specOne_other P hj] at this
  exact this

/-! ### the hypotheses on the sub-map follow from those on the leaf map -/

theorem mem_keys_sub {P : Str} {m : FMap} {q : Str} (h : q ∈ (sub P m).keys) :
    ∃ k ∈ m.keys, stripP P k = some q := by
  induction m with
  | nil => simp [sub, FMap.keys] at h
  | cons kv rest ih =>
    obtain ⟨k, v⟩ := kv
    cases hs : stripP P k with
    | none =>
      rw [sub_cons_none v rest hs] at h
      obtain ⟨k', hk', hq⟩ := ih h
      exact ⟨k', by simp [FMap.keys] at hk' ⊢; exact Or.inr hk', hq⟩
    | some q' =>
      rw [sub_cons_some v rest hs] at h
      simp only [FMap.keys, List.map_cons, List.mem_cons] at h
      rcases h with rfl | h
      · exact ⟨k, by simp [FMap.keys], hs⟩
      · obtain ⟨k', hk', hq⟩ := ih (by simpa [FMap.keys] using h)
        exact ⟨k', by simp [FMap.keys] at hk' ⊢; exact Or.inr hk', hq⟩

/-- unique keys are inherited by the sub-map -/
theorem nodupKeys_sub (P : Str) {m : FMap} (h : FMap.NodupKeys m) : FMap.NodupKeys (sub P m) := by
  unfold FMap.NodupKeys at h ⊢
  induction m with
  | nil => simp [sub, FMap.keys]
  | cons kv rest ih =>
    obtain ⟨k, v⟩ := kv
    have hnd : k ∉ FMap.keys rest ∧ (FMap.keys rest).Nodup := by
      simpa [FMap.keys] using h
    cases hs : stripP P k with
    | none => rw [sub_cons_none v rest hs]; exact ih hnd.2
    | some q =>
      rw [sub_cons_some v rest hs]
      have : FMap.keys ((q, v) :: sub P rest) = q :: FMap.keys (sub P rest) := by simp [FMap.keys]
      rw [this, List.nodup_cons]
      refine ⟨?_, ih hnd.2⟩
      intro hq
      obtain ⟨k', hk', hs'⟩ := mem_keys_sub hq
      have e1 := (stripP_some hs).1
      have e2 := (stripP_some hs').1
      exact hnd.1 (by rw [e1, ← e2]; exact hk')

/-- well-formedness is inherited by the sub-map (its keys are canonical: `Inv0`) -/
theorem wf_sub {P : Str} {m : FMap} (hwf : WF m) (hinv : Inv0 (sub P m)) : WF (sub P m) := by
  refine ⟨hinv.1, ?_⟩
  intro k e he hne
  have hk : Canon k := hinv.2 k ((FMap.mem_keys_iff _ k).2 ⟨e, he⟩)
  obtain ⟨h1, h2, h3, h4⟩ := parent_shift P hk hne
  refine ⟨h3, ?_⟩
  rw [find?_sub P m k hk.rootedT] at he
  have hne' : P ++ k ≠ [] := by
    intro h0; apply hne
    exact (List.append_eq_nil_iff.1 h0).2
  obtain ⟨_, pe, hpe, hpd⟩ := hwf.2 _ e he hne'
  rw [h1] at hpe
  exact ⟨pe, by rw [find?_sub P m _ h2]; exact hpe, hpd⟩

/-! ### the four operations through the altroot -/

section ops
variable {w : World} {i : Nat} {P : Str} {m : FMap} (a : AltSub w i P m) (id id' : Nat)
include a

/-- **create_dir_all through the altroot is exact.** No prefix of the requested path (below `P`)
is a file: the call succeeds, and below `P` the new map is the old one plus exactly the chain of
directories. -/
theorem altroot_createDirAll_exact (hwf : WF (sub P m)) (cs : List Str)
    (hg : ∀ c ∈ cs, GoodComp c)
    (hnf : ∀ k, k < cs.length → ∀ e, m.find? (P ++ renderC (cs.take (k + 1))) = some e →
      e.ftype = .dir) :
    (VPath.createDirAll (apath i id P id' (renderC cs)) w).1 = .ok () ∧
    ∃ m1', MemLeafAt (VPath.createDirAll (apath i id P id' (renderC cs)) w).2 i m1' ∧
      ChainMade (sub P m) (sub P m1') cs ∧ Inv0 (sub P m1') ∧ AncOK P m1' ∧
      ∀ j, j ≠ i → (VPath.createDirAll (apath i id P id' (renderC cs)) w).2.leaf? j = w.leaf? j := by
  have hnf' : ∀ k, k < cs.length → ∀ e, (sub P m).find? (renderC (cs.take (k + 1))) = some e →
      e.ftype = .dir := by
    intro k hk e he
    rw [a.find _ ⟨cs.take (k + 1), fun c hc => hg c (List.mem_of_mem_take hc), rfl⟩] at he
    exact hnf k hk e he
  obtain ⟨m', hrun, hmade⟩ := C11.createDirAll_exact a.subLeaf hwf id' cs hg hnf'
  obtain ⟨hres, hrel⟩ := (altroot_create_dir_all (specOne_self i P) a.canonP id id'
    (q := renderC cs) ⟨cs, hg, rfl⟩).transfer a.rel hrun
  obtain ⟨m1', hl1, hsub, hinv1, hanc1, hoth⟩ := after_sub hrel ((a.subLeaf).set m')
  refine ⟨relres_ok_inv hres, m1', hl1, by rw [hsub]; exact hmade, hinv1, hanc1, fun j hj => ?_⟩
  rw [hoth j hj, World.leaf?_setLeafFiles_ne _ i j _ (fun e => hj e.symm), subWorld_other w P m hj]

/-- **remove_dir_all through the altroot is exact.** `q ≠ ""` is a directory below `P`; fuel as
in `C11.removeDirAll_exact`, measured on the sub-map: the call succeeds and below `P` exactly the
keys at or below `q` are gone. -/
theorem altroot_removeDirAll_exact (hwf : WF (sub P m)) (hnd : FMap.NodupKeys (sub P m))
    (fuel : Nat) {q : Str} (hq : Canon q) (hne : q ≠ [])
    (hdir : ∃ e, m.find? (P ++ q) = some e ∧ e.ftype = .dir)
    (hfuel : ∀ k e', (sub P m).find? k = some e' → k.length < q.length + fuel) :
    (VPath.removeDirAll fuel (apath i id P id' q) w).1 = .ok () ∧
    ∃ m1', MemLeafAt (VPath.removeDirAll fuel (apath i id P id' q) w).2 i m1' ∧
      (∀ k, (sub P m1').find? k = if under q k then none else (sub P m).find? k) ∧
      WF (sub P m1') ∧ FMap.NodupKeys (sub P m1') ∧ Inv0 (sub P m1') ∧ AncOK P m1' ∧
      ∀ j, j ≠ i → (VPath.removeDirAll fuel (apath i id P id' q) w).2.leaf? j = w.leaf? j := by
  obtain ⟨e, he, hd⟩ := hdir
  rw [← a.find q hq] at he
  obtain ⟨m', hrun, hwf', hnd', hfind⟩ :=
    C11.removeDirAll_exact a.subLeaf hwf hnd id' fuel q e hne he hd hfuel
  obtain ⟨hres, hrel⟩ := (altroot_remove_dir_all (specOne_self i P) a.canonP id id' fuel hq
    hne).transfer a.rel hrun
  obtain ⟨m1', hl1, hsub, hinv1, hanc1, hoth⟩ := after_sub hrel ((a.subLeaf).set m')
  refine ⟨relres_ok_inv hres, m1', hl1, by rw [hsub]; exact hfind, by rw [hsub]; exact hwf',
    by rw [hsub]; exact hnd', hinv1, hanc1, fun j hj => ?_⟩
  rw [hoth j hj, World.leaf?_setLeafFiles_ne _ i j _ (fun e => hj e.symm), subWorld_other w P m hj]

/-- the same, read on the leaf map itself: for every relative path `k` (`""` or `"/…"`), the key
`P ++ k` is gone if `k` is at or below `q`, and unchanged otherwise -/
theorem altroot_removeDirAll_exact_leaf (hwf : WF (sub P m)) (hnd : FMap.NodupKeys (sub P m))
    (fuel : Nat) {q : Str} (hq : Canon q) (hne : q ≠ [])
    (hdir : ∃ e, m.find? (P ++ q) = some e ∧ e.ftype = .dir)
    (hfuel : ∀ k e', (sub P m).find? k = some e' → k.length < q.length + fuel) :
    ∃ m1', MemLeafAt (VPath.removeDirAll fuel (apath i id P id' q) w).2 i m1' ∧
      ∀ k, Rooted k → m1'.find? (P ++ k) = if under q k then none else m.find? (P ++ k) := by
  obtain ⟨_, m1', hl, hfind, _⟩ := altroot_removeDirAll_exact a id id' hwf hnd fuel hq hne hdir hfuel
  refine ⟨m1', hl, fun k hk => ?_⟩
  rw [← find?_sub P m1' k hk, ← find?_sub P m k hk]
  exact hfind k

/-- **copy_dir between two paths of the altroot is exact.** The hypotheses of
`C11.copyDir_exact` on the sub-map (source `s` a directory, destination `d = renderC bs` fresh
and not at or below `s`, fuel above the number of descendants): `Ok` with that number, `d` is a
fresh directory, the whole subtree is grafted below it, every other key below `P` is unchanged up
to access times. -/
theorem altroot_copyDir_exact (hwf : WF (sub P m)) (hnd : FMap.NodupKeys (sub P m))
    (fuel : Nat) {s : Str} (hs : Canon s) (bs : List Str) (hbs : ∀ c ∈ bs, GoodComp c)
    (hdir : ∃ se, m.find? (P ++ s) = some se ∧ se.ftype = .dir)
    (hfresh : FreshDest (sub P m) (renderC bs)) (hout : under s (renderC bs) = false)
    (hfuel : descendants (sub P m) s < fuel) :
    (VPath.copyDir fuel (apath i id P id' s) (apath i id P id' (renderC bs)) w).1
      = .ok (descendants (sub P m) s) ∧
    ∃ m1', MemLeafAt (VPath.copyDir fuel (apath i id P id' s) (apath i id P id' (renderC bs)) w).2
        i m1' ∧
      (sub P m1').find? (renderC bs) = some dirEntryNow ∧
      (∀ t, ((sub P m1').find? (renderC bs ++ '/' :: t)).map core =
        ((sub P m).find? (s ++ '/' :: t)).map shape) ∧
      (∀ k, under (renderC bs) k = false →
        ((sub P m1').find? k).map stripAcc = ((sub P m).find? k).map stripAcc) ∧
      WF (sub P m1') ∧ Inv0 (sub P m1') ∧ AncOK P m1' ∧
      ∀ j, j ≠ i → (VPath.copyDir fuel (apath i id P id' s)
        (apath i id P id' (renderC bs)) w).2.leaf? j = w.leaf? j := by
  obtain ⟨se, hse, hsd⟩ := hdir
  rw [← a.find s hs] at hse
  obtain ⟨w', ms', md', hrun, hi', hj', hwfs', hwfd', hoth', hd1, hgraft, hframe, _⟩ :=
    C11.copyDir_exact a.subLeaf a.subLeaf hwf hwf hnd id' id' fuel s bs hbs ⟨se, hse, hsd⟩
      (fun k e he _ => a.keysCanon k e he) hfresh (fun _ => hout) hfuel
  have hdne : renderC bs ≠ [] := by
    intro h0; have := hfresh.slash; rw [h0] at this; cases this
  obtain ⟨hres, hrel⟩ := (altroot_copy_dir (specOne_self i P) a.canonP id id' fuel hs
    (d := renderC bs) ⟨bs, hbs, rfl⟩ hdne).transfer a.rel hrun
  obtain ⟨m1', hl1, hsub, hinv1, hanc1, hoth⟩ := after_sub hrel hj'
  refine ⟨relres_ok_inv hres, m1', hl1, by rw [hsub]; exact hd1, by rw [hsub]; exact hgraft,
    by rw [hsub]; exact hframe, by rw [hsub]; exact hwfd', hinv1, hanc1, fun j hj => ?_⟩
  rw [hoth j hj, hoth' j hj hj, subWorld_other w P m hj]

/-- **move_dir between two paths of the altroot is exact**: as `altroot_copyDir_exact`, and no
key at or below the source is left below `P`; every key below `P` that is neither at or below
the source nor at or below the destination is unchanged up to access times. -/
theorem altroot_moveDir_exact (hwf : WF (sub P m)) (hnd : FMap.NodupKeys (sub P m))
    (fuel : Nat) {s : Str} (hs : Canon s) (hsne : s ≠ []) (bs : List Str)
    (hbs : ∀ c ∈ bs, GoodComp c)
    (hdir : ∃ se, m.find? (P ++ s) = some se ∧ se.ftype = .dir)
    (hfresh : FreshDest (sub P m) (renderC bs)) (hout : under s (renderC bs) = false)
    (hfuel : descendants (sub P m) s < fuel)
    (hb1 : ∀ k e, (sub P m).find? k = some e → k.length < s.length + fuel)
    (hb2 : ∀ k e, (sub P m).find? k = some e → under s k = true →
      (renderC bs).length + k.length < 2 * s.length + fuel) :
    (VPath.moveDir fuel (apath i id P id' s) (apath i id P id' (renderC bs)) w).1 = .ok () ∧
    ∃ m1', MemLeafAt (VPath.moveDir fuel (apath i id P id' s) (apath i id P id' (renderC bs)) w).2
        i m1' ∧
      (∀ k, under s k = true → (sub P m1').find? k = none) ∧
      (sub P m1').find? (renderC bs) = some dirEntryNow ∧
      (∀ t, ((sub P m1').find? (renderC bs ++ '/' :: t)).map core =
        ((sub P m).find? (s ++ '/' :: t)).map shape) ∧
      (∀ k, under (renderC bs) k = false → under s k = false →
        ((sub P m1').find? k).map stripAcc = ((sub P m).find? k).map stripAcc) ∧
      WF (sub P m1') ∧ Inv0 (sub P m1') ∧ AncOK P m1' ∧
      ∀ j, j ≠ i → (VPath.moveDir fuel (apath i id P id' s)
        (apath i id P id' (renderC bs)) w).2.leaf? j = w.leaf? j := by
  obtain ⟨se, hse, hsd⟩ := hdir
  rw [← a.find s hs] at hse
  obtain ⟨w', ms', md', hrun, hi', hj', hwfs', hwfd', hoth', hgone, hd1, hgraft, hframe, _⟩ :=
    C11.moveDir_exact a.subLeaf a.subLeaf hwf hwf hnd id' id' fuel s bs hsne hbs ⟨se, hse, hsd⟩
      (fun k e he _ => a.keysCanon k e he) hfresh (fun _ => hout) hfuel hb1 (fun _ => hb2)
  have hdne : renderC bs ≠ [] := by
    intro h0; have := hfresh.slash; rw [h0] at this; cases this
  have hmm : ms' = md' := memLeafAt_inj hi' hj'
  obtain ⟨hres, hrel⟩ := (altroot_move_dir (specOne_self i P) a.canonP id id' fuel hs
    (d := renderC bs) ⟨bs, hbs, rfl⟩ hsne hdne).transfer a.rel hrun
  obtain ⟨m1', hl1, hsub, hinv1, hanc1, hoth⟩ := after_sub hrel hj'
  refine ⟨relres_ok_inv hres, m1', hl1, by rw [hsub, ← hmm]; exact hgone, by rw [hsub]; exact hd1,
    by rw [hsub]; exact hgraft, ?_, by rw [hsub]; exact hwfd', hinv1, hanc1, fun j hj => ?_⟩
  · intro k hk1 hk2
    rw [hsub]; exact hframe k hk1 (fun _ => hk2)
  · rw [hoth j hj, hoth' j hj hj, subWorld_other w P m hj]

/-- **the results agree, whatever the outcome**: for each of the four operations, the call
through the altroot on `w` and the call on the bare memory filesystem holding the sub-map have the
same outcome class (both `Ok` with equal values / both the same error kind / both the fuel
sentinel), and the worlds afterwards are again related (`RSub`). No hypothesis on the tree. -/
theorem altroot_results_agree (fuel : Nat) {s d : Str} (hs : Canon s) (hd : Canon d) :
    (RelRes PRdrop (· = ·) (VPath.createDirAll (apath i id P id' s) w).1
        (VPath.createDirAll (spath i id' s) (subWorld w i P m)).1) ∧
    (s ≠ [] → RelRes PRdrop (· = ·) (VPath.removeDirAll fuel (apath i id P id' s) w).1
        (VPath.removeDirAll fuel (spath i id' s) (subWorld w i P m)).1) ∧
    (d ≠ [] → RelRes PRdrop (· = ·)
        (VPath.copyDir fuel (apath i id P id' s) (apath i id P id' d) w).1
        (VPath.copyDir fuel (spath i id' s) (spath i id' d) (subWorld w i P m)).1) ∧
    (s ≠ [] → d ≠ [] → RelRes PRdrop (· = ·)
        (VPath.moveDir fuel (apath i id P id' s) (apath i id P id' d) w).1
        (VPath.moveDir fuel (spath i id' s) (spath i id' d) (subWorld w i P m)).1) :=
  ⟨(altroot_create_dir_all (specOne_self i P) a.canonP id id' hs _ _ a.rel).1,
   fun hne => (altroot_remove_dir_all (specOne_self i P) a.canonP id id' fuel hs hne _ _ a.rel).1,
   fun hne => (altroot_copy_dir (specOne_self i P) a.canonP id id' fuel hs hd hne _ _ a.rel).1,
   fun h1 h2 => (altroot_move_dir (specOne_self i P) a.canonP id id' fuel hs hd h1 h2 _ _ a.rel).1⟩

/-- **nothing outside `P` changes.** Whatever the outcome, after create_dir_all / remove_dir_all /
copy_dir / move_dir through the altroot, leaf `i` is a memory leaf whose map agrees with `m` on
every key that is not at or below `P`. -/
theorem altroot_outside_unchanged (fuel : Nat) {s d : Str} (hs : Canon s) (hd : Canon d) :
    (∃ m1', MemLeafAt (VPath.createDirAll (apath i id P id' s) w).2 i m1' ∧
      ∀ k, under P k = false → m1'.find? k = m.find? k) ∧
    (s ≠ [] → ∃ m1', MemLeafAt (VPath.removeDirAll fuel (apath i id P id' s) w).2 i m1' ∧
      ∀ k, under P k = false → m1'.find? k = m.find? k) ∧
    (d ≠ [] → ∃ m1',
      MemLeafAt (VPath.copyDir fuel (apath i id P id' s) (apath i id P id' d) w).2 i m1' ∧
      ∀ k, under P k = false → m1'.find? k = m.find? k) ∧
    (s ≠ [] → d ≠ [] → ∃ m1',
      MemLeafAt (VPath.moveDir fuel (apath i id P id' s) (apath i id P id' d) w).2 i m1' ∧
      ∀ k, under P k = false → m1'.find? k = m.find? k) := by
  have hfs := altroot_sim_frame (specOne_self i P) a.canonP id m
  have hh := simHandles_frame (specOne_self i P) (P := P) m
  have hv : ∀ {q : Str}, Canon q → SimVPath (RF (specOne i P) i P m) PRdrop (HSub (specOne i P))
      (apath i id P id' q) (spath i id' q) := fun hq => ⟨hfs, rfl, rfl, hq⟩
  have hr0 : RF (specOne i P) i P m w (subWorld w i P m) := ⟨a.rel, Outside.init a.leaf⟩
  have fin : ∀ {w1 w2 : World}, RF (specOne i P) i P m w1 w2 →
      ∃ m1', MemLeafAt w1 i m1' ∧ ∀ k, under P k = false → m1'.find? k = m.find? k := by
    intro w1 w2 hr
    obtain ⟨m1', hl, hk⟩ := hr.2.leafAt
    exact ⟨m1', hl, fun k hu => hk k ((stripP_none_iff_under P k).2 hu)⟩
  refine ⟨fin (T.VPath.sim_createDirAll (hv hs) _ _ hr0).2, fun hne => ?_, fun hne => ?_,
    fun h1 h2 => ?_⟩
  · exact fin (T.VPath.sim_removeDirAll fuel (hv hs) hne _ _ hr0).2
  · exact fin (T.VPath.sim_copyDir hh fuel (hv hs) (hv hd) hne (fun _ => rfl) (fun _ => rfl)
      _ _ hr0).2
  · exact fin (T.VPath.sim_moveDir hh fuel (hv hs) (hv hd) h1 h2 (fun _ => rfl) (fun _ => rfl)
      _ _ hr0).2

end ops

/-! ### from the altroot to a plain memory filesystem on another leaf -/

theorem after_two {i j : Nat} {P : Str} (hji : j ≠ i) {w1' w2' : World}
    (hr : RSub (specTwo i P j) w1' w2') {ms' md' : FMap} (h2i : MemLeafAt w2' i ms')
    (h2j : MemLeafAt w2' j md') :
    ∃ m1' md1', MemLeafAt w1' i m1' ∧ sub P m1' = ms' ∧ MemLeafAt w1' j md1' ∧
      sub [] md1' = md' ∧ Inv0 (sub P m1') ∧ AncOK P m1' ∧
      ∀ l, l ≠ i → l ≠ j → w1'.leaf? l = w2'.leaf? l := by
  have hli := hr.leaf i
  rw [specTwo_i] at hli
  obtain ⟨m1, a1, a2, a3, a4⟩ := hli
  have hlj := hr.leaf j
  rw [specTwo_j P hji] at hlj
  obtain ⟨d1, b1, b2, _, _⟩ := hlj
  refine ⟨m1, d1, a1, memLeafAt_inj (show MemLeafAt w2' i (sub P m1) from a2) h2i, b1,
    memLeafAt_inj (show MemLeafAt w2' j (sub [] d1) from b2) h2j, a3, a4, fun l h1 h2 => ?_⟩
  have := hr.leaf l
  rw [specTwo_other P h1 h2] at this
  exact this

section cross
variable {w : World} {i j : Nat} {P : Str} {m md : FMap} (a : AltSub w i P m) (hji : j ≠ i)
  (hj : MemLeafAt w j md) (hwfd : WF md) (hcan : ∀ k ∈ md.keys, Canon k) (id id' did : Nat)
  (hid : id' ≠ did)
include a hji hj hwfd hcan hid

theorem AltSub.rel2 : RSub (specTwo i P j) w (subWorld w i P m) :=
  rsub_two w i P m a.leaf a.inv a.anc j hji md hj hwfd.1 hcan

/-- **copy_dir from the altroot to a plain memory filesystem on another leaf is exact** -/
theorem altroot_copyDir_to_leaf_exact (hwf : WF (sub P m)) (hnd : FMap.NodupKeys (sub P m))
    (fuel : Nat) {s : Str} (hs : Canon s) (bs : List Str) (hbs : ∀ c ∈ bs, GoodComp c)
    (hdir : ∃ se, m.find? (P ++ s) = some se ∧ se.ftype = .dir)
    (hfresh : FreshDest md (renderC bs)) (hfuel : descendants (sub P m) s < fuel) :
    (VPath.copyDir fuel (apath i id P id' s)
      { fs := leafFS j, fsId := did, path := renderC bs } w).1 = .ok (descendants (sub P m) s) ∧
    ∃ m1' md1',
      MemLeafAt (VPath.copyDir fuel (apath i id P id' s)
        { fs := leafFS j, fsId := did, path := renderC bs } w).2 i m1' ∧
      MemLeafAt (VPath.copyDir fuel (apath i id P id' s)
        { fs := leafFS j, fsId := did, path := renderC bs } w).2 j md1' ∧
      md1'.find? (renderC bs) = some dirEntryNow ∧
      (∀ t, (md1'.find? (renderC bs ++ '/' :: t)).map core =
        (m.find? (P ++ (s ++ '/' :: t))).map shape) ∧
      (∀ k, Rooted k → under (renderC bs) k = false →
        (md1'.find? k).map stripAcc = (md.find? k).map stripAcc) ∧
      (∀ k, ((sub P m1').find? k).map stripAcc = ((sub P m).find? k).map stripAcc) ∧
      Inv0 (sub P m1') ∧ AncOK P m1' ∧
      ∀ l, l ≠ i → l ≠ j → (VPath.copyDir fuel (apath i id P id' s)
        { fs := leafFS j, fsId := did, path := renderC bs } w).2.leaf? l = w.leaf? l := by
  obtain ⟨se, hse, hsd⟩ := hdir
  rw [← a.find s hs] at hse
  have hj2 : MemLeafAt (subWorld w i P m) j md := hj.set_ne (fun e => hji e.symm) _
  obtain ⟨w', ms', md', hrun, hi', hj', _, _, hoth', hd1, hgraft, hframe, hsrc⟩ :=
    C11.copyDir_exact_cross (fun e => hji e.symm) a.subLeaf hj2 hwf hwfd hnd id' did fuel s bs hbs
      ⟨se, hse, hsd⟩ (fun k e he _ => a.keysCanon k e he) hfresh hfuel
  have hdne : renderC bs ≠ [] := by
    intro h0; have := hfresh.slash; rw [h0] at this; cases this
  have hsim := T.VPath.sim_copyDir (simHandles_sub (specTwo i P j)) (PR := PRdrop) fuel
    (src1 := apath i id P id' s) (src2 := spath i id' s)
    (dst1 := { fs := leafFS j, fsId := did, path := renderC bs })
    (dst2 := { fs := leafFS j, fsId := did, path := renderC bs })
    ⟨altroot_sim_leaf (specTwo_i i P j) a.canonP id, rfl, rfl, hs⟩
    ⟨leafFS_sim_root (specTwo_j P hji), rfl, rfl, ⟨bs, hbs, rfl⟩⟩ hdne
    (fun h => absurd h hid) (fun h => absurd h hid)
  obtain ⟨hres, hrel⟩ := hsim.transfer (AltSub.rel2 a hji hj hwfd hcan id' did hid) hrun
  obtain ⟨m1', md1', hl1, hsub, hlj, hsubj, hinv1, hanc1, hoth⟩ := after_two hji hrel hi' hj'
  have hfj : ∀ k, Rooted k → md1'.find? k = md'.find? k := by
    intro k hk
    rw [← hsubj, find?_sub [] md1' k hk]; rfl
  have hrd : Rooted (renderC bs) := Canon.rootedT ⟨bs, hbs, rfl⟩
  refine ⟨relres_ok_inv hres, m1', md1', hl1, hlj, by rw [hfj _ hrd]; exact hd1, fun t => ?_,
    fun k hk hu => by rw [hfj k hk]; exact hframe k hu, by rw [hsub]; exact hsrc, hinv1, hanc1,
    fun l h1 h2 => ?_⟩
  · rw [hfj _ (hrd.child t), hgraft t, find?_sub P m _ (hs.rootedT.child t)]
  · rw [hoth l h1 h2, hoth' l h1 h2, subWorld_other w P m h1]

/-- **move_dir from the altroot to a plain memory filesystem on another leaf is exact** -/
theorem altroot_moveDir_to_leaf_exact (hwf : WF (sub P m)) (hnd : FMap.NodupKeys (sub P m))
    (fuel : Nat) {s : Str} (hs : Canon s) (hsne : s ≠ []) (bs : List Str)
    (hbs : ∀ c ∈ bs, GoodComp c)
    (hdir : ∃ se, m.find? (P ++ s) = some se ∧ se.ftype = .dir)
    (hfresh : FreshDest md (renderC bs)) (hfuel : descendants (sub P m) s < fuel)
    (hb1 : ∀ k e, (sub P m).find? k = some e → k.length < s.length + fuel) :
    (VPath.moveDir fuel (apath i id P id' s)
      { fs := leafFS j, fsId := did, path := renderC bs } w).1 = .ok () ∧
    ∃ m1' md1',
      MemLeafAt (VPath.moveDir fuel (apath i id P id' s)
        { fs := leafFS j, fsId := did, path := renderC bs } w).2 i m1' ∧
      MemLeafAt (VPath.moveDir fuel (apath i id P id' s)
        { fs := leafFS j, fsId := did, path := renderC bs } w).2 j md1' ∧
      (∀ k, under s k = true → (sub P m1').find? k = none) ∧
      (∀ k, under s k = false →
        ((sub P m1').find? k).map stripAcc = ((sub P m).find? k).map stripAcc) ∧
      md1'.find? (renderC bs) = some dirEntryNow ∧
      (∀ t, (md1'.find? (renderC bs ++ '/' :: t)).map core =
        (m.find? (P ++ (s ++ '/' :: t))).map shape) ∧
      (∀ k, Rooted k → under (renderC bs) k = false →
        (md1'.find? k).map stripAcc = (md.find? k).map stripAcc) ∧
      Inv0 (sub P m1') ∧ AncOK P m1' ∧
      ∀ l, l ≠ i → l ≠ j → (VPath.moveDir fuel (apath i id P id' s)
        { fs := leafFS j, fsId := did, path := renderC bs } w).2.leaf? l = w.leaf? l := by
  obtain ⟨se, hse, hsd⟩ := hdir
  rw [← a.find s hs] at hse
  have hj2 : MemLeafAt (subWorld w i P m) j md := hj.set_ne (fun e => hji e.symm) _
  obtain ⟨w', ms', md', hrun, hi', hj', _, _, hoth', hgone, hkeep, hd1, hgraft, hframe⟩ :=
    C11.moveDir_exact_cross (fun e => hji e.symm) a.subLeaf hj2 hwf hwfd hnd id' did fuel s bs hsne
      hbs ⟨se, hse, hsd⟩ (fun k e he _ => a.keysCanon k e he) hfresh hfuel hb1
  have hdne : renderC bs ≠ [] := by
    intro h0; have := hfresh.slash; rw [h0] at this; cases this
  have hsim := T.VPath.sim_moveDir (simHandles_sub (specTwo i P j)) (PR := PRdrop) fuel
    (src1 := apath i id P id' s) (src2 := spath i id' s)
    (dst1 := { fs := leafFS j, fsId := did, path := renderC bs })
    (dst2 := { fs := leafFS j, fsId := did, path := renderC bs })
    ⟨altroot_sim_leaf (specTwo_i i P j) a.canonP id, rfl, rfl, hs⟩
    ⟨leafFS_sim_root (specTwo_j P hji), rfl, rfl, ⟨bs, hbs, rfl⟩⟩ hsne hdne
    (fun h => absurd h hid) (fun h => absurd h hid)
  obtain ⟨hres, hrel⟩ := hsim.transfer (AltSub.rel2 a hji hj hwfd hcan id' did hid) hrun
  obtain ⟨m1', md1', hl1, hsub, hlj, hsubj, hinv1, hanc1, hoth⟩ := after_two hji hrel hi' hj'
  have hfj : ∀ k, Rooted k → md1'.find? k = md'.find? k := by
    intro k hk
    rw [← hsubj, find?_sub [] md1' k hk]; rfl
  have hrd : Rooted (renderC bs) := Canon.rootedT ⟨bs, hbs, rfl⟩
  refine ⟨relres_ok_inv hres, m1', md1', hl1, hlj, by rw [hsub]; exact hgone,
    by rw [hsub]; exact hkeep, by rw [hfj _ hrd]; exact hd1, fun t => ?_,
    fun k hk hu => by rw [hfj k hk]; exact hframe k hu, hinv1, hanc1, fun l h1 h2 => ?_⟩
  · rw [hfj _ (hrd.child t), hgraft t, find?_sub P m _ (hs.rootedT.child t)]
  · rw [hoth l h1 h2, hoth' l h1 h2, subWorld_other w P m h1]

/-- the two-filesystem simulations themselves (any outcome, any fuel): copy_dir / move_dir from
the altroot to the plain memory filesystem on leaf `j` are related to copy_dir / move_dir from the
sub-leaf to leaf `j` -/
theorem altroot_to_leaf_sim (fuel : Nat) {s d : Str} (hs : Canon s) (hd : Canon d)
    (hdne : d ≠ []) :
    SimM (RSub (specTwo i P j)) PRdrop (· = ·)
      (VPath.copyDir fuel (apath i id P id' s) { fs := leafFS j, fsId := did, path := d })
      (VPath.copyDir fuel (spath i id' s) { fs := leafFS j, fsId := did, path := d }) ∧
    (s ≠ [] → SimM (RSub (specTwo i P j)) PRdrop (· = ·)
      (VPath.moveDir fuel (apath i id P id' s) { fs := leafFS j, fsId := did, path := d })
      (VPath.moveDir fuel (spath i id' s) { fs := leafFS j, fsId := did, path := d })) :=
  ⟨T.VPath.sim_copyDir (simHandles_sub (specTwo i P j)) (PR := PRdrop) fuel
      (src1 := apath i id P id' s) (src2 := spath i id' s)
      (dst1 := { fs := leafFS j, fsId := did, path := d })
      (dst2 := { fs := leafFS j, fsId := did, path := d })
      ⟨altroot_sim_leaf (specTwo_i i P j) a.canonP id, rfl, rfl, hs⟩
      ⟨leafFS_sim_root (specTwo_j P hji), rfl, rfl, hd⟩ hdne
      (fun h => absurd h hid) (fun h => absurd h hid),
   fun hsne => T.VPath.sim_moveDir (simHandles_sub (specTwo i P j)) (PR := PRdrop) fuel
      (src1 := apath i id P id' s) (src2 := spath i id' s)
      (dst1 := { fs := leafFS j, fsId := did, path := d })
      (dst2 := { fs := leafFS j, fsId := did, path := d })
      ⟨altroot_sim_leaf (specTwo_i i P j) a.canonP id, rfl, rfl, hs⟩
      ⟨leafFS_sim_root (specTwo_j P hji), rfl, rfl, hd⟩ hsne hdne
      (fun h => absurd h hid) (fun h => absurd h hid)⟩

end cross

/-! ### non-vacuity: `C11.wN` — leaf 0 holds a tree of depth 4 below "/r" and "/other" outside it -/

section example_wN

theorem inv0_of_check (m : FMap)
    (h : ((m.find? []).any (fun e => decide (e.ftype = .dir)) && m.keys.all canonB) = true) :
    Inv0 m := by
  rw [Bool.and_eq_true] at h
  refine ⟨?_, fun k hk => canon_of_check k (List.all_eq_true.1 h.2 k hk)⟩
  cases hf : m.find? [] with
  | none => rw [hf] at h; simp at h
  | some e => rw [hf] at h; exact ⟨e, rfl, by simpa using h.1⟩

/-- a one-component directory `/c`: its only proper ancestor is the root -/
theorem ancOK_one (c : Str) (hc : GoodComp c) (m : FMap) (e : Entry) (he : m.find? [] = some e)
    (hd : e.ftype = .dir) : AncOK (renderC [c]) m := by
  intro ps hps hP j hj
  have : ps = [c] :=
    (C06.renderC_injective [c] ps (by simpa using hc.noSlash) (good_noSlash hps) hP).symm
  subst this
  have hj0 : j = 0 := by simp at hj; exact hj
  subst hj0
  exact ⟨e, he, hd⟩

def rP : Str := "/r".toList

/-- the sub-map: the subtree below "/r", re-rooted; "/other" is not in it -/
example : (sub rP mN).keys =
    ["/a/b/c/f".toList, "/ab".toList, "/a/e".toList, [], "/a.b".toList, "/a/b/c".toList,
     "/a".toList, "/a/x".toList, "/a/b".toList] := by decide

theorem wN_altSub : AltSub wN 0 rP mN :=
  ⟨wN_leaf0, ⟨["r".toList], by decide, by decide⟩, inv0_of_check _ (by decide),
    ancOK_one "r".toList (by decide) mN dirEntryNow (by decide) rfl⟩

theorem rSub_wf : WF (sub rP mN) := wf_sub mN_wf wN_altSub.inv
theorem rSub_nodup : FMap.NodupKeys (sub rP mN) := nodupKeys_sub rP mN_nodup

theorem rSub_len : ∀ k e, (sub rP mN).find? k = some e → k.length < 9 := by
  have hall : ∀ k ∈ (sub rP mN).keys, k.length < 9 := by decide
  exact fun k e he => hall k ((FMap.mem_keys_iff _ k).2 ⟨e, he⟩)

/-- create_dir_all "/a/new/deep" through the altroot at "/r": "/r/a" exists, two directories are
added below it -/
example := altroot_createDirAll_exact wN_altSub 5 6 rSub_wf
  ["a".toList, "new".toList, "deep".toList] (by decide) (by
    intro k hk e he
    have h0 : mN.find? (rP ++ "/a".toList) = some dirEntryNow := by decide
    have h1 : mN.find? (rP ++ "/a/new".toList) = none := by decide
    have h2 : mN.find? (rP ++ "/a/new/deep".toList) = none := by decide
    match k, hk with
    | 0, _ => rw [show rP ++ renderC (List.take 1 ["a".toList, "new".toList, "deep".toList])
        = rP ++ "/a".toList from by decide, h0] at he; injection he with he; subst he; rfl
    | 1, _ => rw [show rP ++ renderC (List.take 2 ["a".toList, "new".toList, "deep".toList])
        = rP ++ "/a/new".toList from by decide, h1] at he; cases he
    | 2, _ => rw [show rP ++ renderC (List.take 3 ["a".toList, "new".toList, "deep".toList])
        = rP ++ "/a/new/deep".toList from by decide, h2] at he; cases he)

/-- remove_dir_all "/a" through the altroot: the subtree "/r/a" (depth 3) -/
example := altroot_removeDirAll_exact wN_altSub 5 6 rSub_wf rSub_nodup 7
  (q := "/a".toList) ⟨["a".toList], by decide, by decide⟩ (by decide)
  ⟨dirEntryNow, by decide, rfl⟩ (fun k e he => by have := rSub_len k e he; simp; omega)

/-- copy_dir "/a" → "/z", both through the altroot: 5 descendants -/
example := altroot_copyDir_exact wN_altSub 5 6 rSub_wf rSub_nodup 7 (s := "/a".toList)
  ⟨["a".toList], by decide, by decide⟩ ["z".toList] (by decide) ⟨dirEntryNow, by decide, rfl⟩
  (fresh_of_check _ _ (by decide)) (by decide) (by decide)

/-- move_dir "/a" → "/z" -/
example := altroot_moveDir_exact wN_altSub 5 6 rSub_wf rSub_nodup 7 (s := "/a".toList)
  ⟨["a".toList], by decide, by decide⟩ (by decide) ["z".toList] (by decide)
  ⟨dirEntryNow, by decide, rfl⟩ (fresh_of_check _ _ (by decide)) (by decide) (by decide)
  (fun k e he => by have := rSub_len k e he; simp; omega)
  (fun k e he _ => by have := rSub_len k e he; simp; omega)

/-- nothing outside "/r" changes, for these paths and any fuel -/
example := altroot_outside_unchanged wN_altSub 5 6 7 (s := "/a".toList) (d := "/z".toList)
  ⟨["a".toList], by decide, by decide⟩ ⟨["z".toList], by decide, by decide⟩

/-- evaluated independently by the kernel: the results, and "/other" (outside "/r") and leaf 1
are untouched -/
example : (VPath.removeDirAll 7 (apath 0 5 rP 6 "/a".toList) wN).1 = .ok () := by
  rw [← rmAll_eq]; decide +kernel
example : ((VPath.removeDirAll 7 (apath 0 5 rP 6 "/a".toList) wN).2.leaves.map
    (fun l => l.files.keys)) =
    [["/r/ab".toList, "/other".toList, "/r".toList, "/r/a.b".toList, []],
     ["/keep".toList, []]] := by rw [← rmAll_eq]; decide +kernel
example : (VPath.copyDir 7 (apath 0 5 rP 6 "/a".toList) (apath 0 5 rP 6 "/z".toList) wN).1
    = .ok 5 := by decide +kernel
example : (VPath.moveDir 7 (apath 0 5 rP 6 "/a".toList) (apath 0 5 rP 6 "/z".toList) wN).1
    = .ok () := by unfold VPath.moveDir; simp only [← rmAll_eq]; decide +kernel
example : ((VPath.moveDir 7 (apath 0 5 rP 6 "/a".toList) (apath 0 5 rP 6 "/z".toList) wN).2.leaf? 0).map
    (fun l => ((l.files.find? "/other".toList).map core, (l.files.find? "/r/a".toList).isSome,
      (l.files.find? "/r/z/b/c/f".toList).map core))
    = some (some (.file, [111]), false, some (.file, [100, 101, 101, 112])) := by
  unfold VPath.moveDir; simp only [← rmAll_eq]; decide +kernel

/-- copy_dir / move_dir of "/a" from the altroot (leaf 0, "/r") to "/c" on the plain memory
filesystem of leaf 1 -/
theorem mK_canon : ∀ k ∈ mK.keys, Canon k :=
  fun k hk => canon_of_check k (List.all_eq_true.1 (by decide) k hk)

example := altroot_copyDir_to_leaf_exact wN_altSub (j := 1) (by decide) wN_leaf1 mK_wf mK_canon
  5 6 9 (by decide) rSub_wf rSub_nodup 7 (s := "/a".toList) ⟨["a".toList], by decide, by decide⟩
  ["c".toList] (by decide) ⟨dirEntryNow, by decide, rfl⟩ (fresh_of_check _ _ (by decide))
  (by decide)
example := altroot_moveDir_to_leaf_exact wN_altSub (j := 1) (by decide) wN_leaf1 mK_wf mK_canon
  5 6 9 (by decide) rSub_wf rSub_nodup 7 (s := "/a".toList) ⟨["a".toList], by decide, by decide⟩
  (by decide) ["c".toList] (by decide) ⟨dirEntryNow, by decide, rfl⟩
  (fresh_of_check _ _ (by decide)) (by decide)
  (fun k e he => by have := rSub_len k e he; simp; omega)
example : (VPath.copyDir 7 (apath 0 5 rP 6 "/a".toList)
    { fs := leafFS 1, fsId := 9, path := "/c".toList } wN).1 = .ok 5 := by decide +kernel
example : ((VPath.copyDir 7 (apath 0 5 rP 6 "/a".toList)
    { fs := leafFS 1, fsId := 9, path := "/c".toList } wN).2.leaf? 1).map
    (fun l => ((l.files.find? "/c/b/c/f".toList).map core, (l.files.find? "/keep".toList).map core))
    = some (some (.file, [100, 101, 101, 112]), some (.file, [107])) := by decide +kernel

end example_wN

end Vfs.C11

section audit
open Vfs.C11
#print axioms wf_sub
#print axioms nodupKeys_sub
#print axioms altroot_createDirAll_exact
#print axioms altroot_removeDirAll_exact
#print axioms altroot_removeDirAll_exact_leaf
#print axioms altroot_copyDir_exact
#print axioms altroot_moveDir_exact
#print axioms altroot_results_agree
#print axioms altroot_outside_unchanged
#print axioms altroot_copyDir_to_leaf_exact
#print axioms altroot_moveDir_to_leaf_exact
#print axioms wN_altSub
end audit
