/-
  C08 — OverlayFS never modifies lower layers; observers modify nothing.

  Stated for ARBITRARY inner layers (records of functions, nothing assumed about what they
  implement) and an ARBITRARY invariant `I` of the world:
    * `overlay_all_preserve`: if every method of the upper layer's filesystem preserves `I`, and
      the four observer methods (exists, metadata, read_dir, open_file) of every other layer
      preserve `I`, then every method of the overlay preserves `I` — i.e. the overlay issues
      nothing but observer calls to layers other than the first. (A layer that is the *same*
      filesystem value as the upper layer is, of course, reached through the upper layer.)
    * `overlay_observers_pure`: the overlay's observers preserve every invariant that the
      observers of its layers preserve: they issue no mutating call to any layer, the first
      included.
  Instances: `I` := "leaf j of the world is unchanged" for every leaf j not reachable through
  the upper layer (`lower_leaf_unchanged`), and the ghost log of mutating calls recorded
  around a lower layer (`lower_log_unchanged`). Nesting and any number of layers are covered
  because the hypotheses are about the layers' methods, not about what the layers are.
-/
import VfsModel.Proofs.PreservesOps
import VfsModel.Proofs.LeafFrame
namespace Vfs.C08
open Vfs.VPath Vfs.Overlay

variable {I : World → Prop}

/-- hypotheses about the observers of the layers -/
structure ObsLayers (I : World → Prop) (layers : List VPath) : Prop where
  nonempty : layers ≠ []
  observers : ∀ l ∈ layers, l.fs.ObsPreserve I

/-- hypotheses about the layers of an overlay -/
structure Layers (I : World → Prop) (layers : List VPath) : Prop extends ObsLayers I layers where
  upper : (writeLayer layers).fs.AllPreserve I
  same : ∀ l ∈ layers, l.fsId = (writeLayer layers).fsId → l.fs.AllPreserve I

/-- a path inside some layer -/
def InLayer (layers : List VPath) (q : VPath) : Prop := ∃ l ∈ layers, q.fs = l.fs ∧ q.fsId = l.fsId

theorem writeLayer_mem (layers : List VPath) (h : layers ≠ []) : writeLayer layers ∈ layers := by
  cases layers with
  | nil => exact absurd rfl h
  | cons a t => simp [writeLayer]

theorem InLayer.obs {layers : List VPath} {q : VPath} (hl : ObsLayers I layers) (h : InLayer layers q) :
    q.fs.ObsPreserve I := by
  obtain ⟨l, hm, hfs, _⟩ := h
  rw [hfs]; exact hl.observers l hm

/-- a path of the upper layer -/
def InUpper (layers : List VPath) (q : VPath) : Prop :=
  q.fs = (writeLayer layers).fs ∧ q.fsId = (writeLayer layers).fsId

theorem InUpper.all {layers : List VPath} {q : VPath} (hl : Layers I layers) (h : InUpper layers q) :
    q.fs.AllPreserve I := by rw [h.1]; exact hl.upper

theorem InUpper.inLayer {layers : List VPath} {q : VPath} (hne : layers ≠ [])
    (h : InUpper layers q) : InLayer layers q :=
  ⟨writeLayer layers, writeLayer_mem layers hne, h.1, h.2⟩

theorem InUpper.obs {layers : List VPath} {q : VPath} (hl : ObsLayers I layers) (h : InUpper layers q) :
    q.fs.ObsPreserve I := (h.inLayer hl.nonempty).obs hl

theorem join_inUpper (layers : List VPath) (arg : Str) :
    Returns (M.ret ((writeLayer layers).join arg)) (InUpper layers) :=
  Returns.ret _ (fun q h => join_fs _ _ _ h)

theorem whiteoutPath_inUpper (layers : List VPath) (p : Str) :
    Returns (M.ret (whiteoutPath layers p)) (InUpper layers) := by
  apply Returns.ret
  intro q h
  unfold whiteoutPath at h
  split at h <;> exact join_fs _ _ _ h

theorem writePath_inUpper (layers : List VPath) (p : Str) :
    Returns (M.ret (writePath layers p)) (InUpper layers) := by
  apply Returns.ret
  intro q h
  unfold writePath at h
  split at h
  · injection h with h; subst h; exact ⟨rfl, rfl⟩
  · exact join_fs _ _ _ h

theorem join_layer (l : VPath) (arg : Str) :
    Returns (M.ret (l.join arg)) (fun lp => lp.fs = l.fs ∧ lp.fsId = l.fsId) :=
  Returns.ret _ (fun q hq => join_fs _ _ _ hq)

/-! #### observers of the overlay (only observer hypotheses are used) -/

theorem firstExisting_pres (all : List VPath) (hl : ObsLayers I all) (p : Str) (ls : List VPath)
    (hs : ∀ l ∈ ls, l ∈ all) : Preserves I (firstExisting p ls) := by
  induction ls with
  | nil => unfold firstExisting; exact Preserves.pure _
  | cons l rest ih =>
    unfold firstExisting
    apply Preserves.bindQ _ (Preserves.ret _) (join_layer l _)
    intro lp hlp
    apply Preserves.bind
    · rw [VPath.exists_, hlp.1]; exact (hl.observers l (hs l (by simp))).exists_ _
    · intro b; split
      · exact Preserves.pure _
      · exact ih (fun x hx => hs x (by simp [hx]))

theorem firstExisting_ret (all : List VPath) (p : Str) (ls : List VPath) (hs : ∀ l ∈ ls, l ∈ all) :
    Returns (firstExisting p ls) (fun o => ∀ q, o = some q → InLayer all q) := by
  induction ls with
  | nil =>
    unfold firstExisting
    exact Returns.pure _ (by simp)
  | cons l rest ih =>
    unfold firstExisting
    apply Returns.bindQ (join_layer l _)
    intro lp hlp
    apply Returns.bind
    intro b
    split
    · apply Returns.pure
      intro q hq; injection hq with hq; subst hq
      exact ⟨l, hs l (by simp), hlp.1, hlp.2⟩
    · exact ih (fun x hx => hs x (by simp [hx]))

theorem readPath_pres (layers : List VPath) (hl : ObsLayers I layers) (p : Str) :
    Preserves I (readPath layers p) := by
  unfold readPath
  split
  · exact Preserves.pure _
  · apply Preserves.bindQ _ (Preserves.ret _) (whiteoutPath_inUpper layers p)
    intro wo hwo
    apply Preserves.bind (pres_exists wo (hwo.obs hl))
    intro b; split
    · exact Preserves.failK _
    · apply Preserves.bind (firstExisting_pres layers hl p layers (fun _ h => h))
      intro o
      split
      · exact Preserves.pure _
      · apply Preserves.bindQ _ (Preserves.ret _) (join_inUpper layers _)
        intro rp hrp
        apply Preserves.bind (pres_exists rp (hrp.obs hl))
        intro b; split
        · exact Preserves.failK _
        · exact Preserves.pure _

theorem readPath_ret (layers : List VPath) (hne : layers ≠ []) (p : Str) :
    Returns (readPath layers p) (InLayer layers) := by
  unfold readPath
  split
  · exact Returns.pure _ ⟨writeLayer layers, writeLayer_mem layers hne, rfl, rfl⟩
  · apply Returns.bind; intro wo
    apply Returns.bind; intro b
    split
    · exact Returns.failK _
    · apply Returns.bindQ (firstExisting_ret layers p layers (fun _ h => h))
      intro o ho
      split
      · rename_i lp; exact Returns.pure _ (ho lp rfl)
      · apply Returns.bindQ (join_inUpper layers _)
        intro rp hrp
        apply Returns.bind; intro b
        split
        · exact Returns.failK _
        · exact Returns.pure _ (hrp.inLayer hne)

theorem exists_pres (layers : List VPath) (hl : ObsLayers I layers) (p : Str) :
    Preserves I (Overlay.exists_ layers p) := by
  unfold Overlay.exists_
  apply Preserves.bindQ _ (Preserves.ret _) (whiteoutPath_inUpper layers p)
  intro wo hwo
  apply Preserves.bind (pres_exists wo (hwo.obs hl))
  intro b; split
  · exact Preserves.pure _
  · refine ⟨fun w hw => ?_⟩
    have h1 := (readPath_pres layers hl p).pres w hw
    have h2 := (readPath_ret layers hl.nonempty p).post w
    cases hres : readPath layers p w with
    | mk r w' =>
      rw [hres] at h1 h2
      cases r with
      | ok q => exact (pres_exists q ((h2 q rfl).obs hl)).pres w' h1
      | err k pth => cases k <;> exact h1
      | panic => exact h1

theorem mergeListings_pres (all : List VPath) (hl : ObsLayers I all) (actual : Str) (ls : List VPath)
    (hs : ∀ l ∈ ls, l ∈ all) (acc : List Str) : Preserves I (mergeListings actual ls acc) := by
  induction ls generalizing acc with
  | nil => unfold mergeListings; exact Preserves.pure _
  | cons l rest ih =>
    unfold mergeListings
    apply Preserves.bindQ _ (Preserves.ret _) (join_layer l _)
    intro lp hlp
    have hobs : lp.fs.ObsPreserve I := by rw [hlp.1]; exact hl.observers l (hs l (by simp))
    apply Preserves.bind (pres_isDir lp hobs)
    intro b; split
    · apply Preserves.bind (pres_readDir lp hobs)
      intro cs
      exact ih (fun x hx => hs x (by simp [hx])) _
    · exact ih (fun x hx => hs x (by simp [hx])) _

theorem readDir_pres (layers : List VPath) (hl : ObsLayers I layers) (p : Str) :
    Preserves I (Overlay.readDir layers p) := by
  unfold Overlay.readDir
  apply Preserves.bindQ _ (readPath_pres layers hl p) (readPath_ret layers hl.nonempty p)
  intro rp hrp
  apply Preserves.bind (pres_exists rp (hrp.obs hl))
  intro b; split
  · exact Preserves.failK _
  · apply Preserves.bind (pres_isDir rp (hrp.obs hl))
    intro b2; split
    · exact Preserves.failK _
    · apply Preserves.bind (mergeListings_pres layers hl _ layers (fun _ h => h) [])
      intro entries
      apply Preserves.bindQ _ (Preserves.ret _) (join_inUpper layers _)
      intro wp hwp
      apply Preserves.bind (pres_exists wp (hwp.obs hl))
      intro b3; split
      · apply Preserves.bind (pres_readDir wp (hwp.obs hl))
        intro marks; exact Preserves.pure _
      · exact Preserves.pure _

/-- **Observers are pure.** The overlay's observers preserve every invariant preserved by the
observer methods of its layers: no hypothesis on any mutating method is needed, because none
is called — on any layer, the first included. -/
theorem overlay_observers_pure (layers : List VPath) (hl : ObsLayers I layers) :
    (Overlay.fs layers).ObsPreserve I where
  readDir p := readDir_pres layers hl p
  openFile p := Preserves.bindQ _ (readPath_pres layers hl p) (readPath_ret layers hl.nonempty p)
    (fun q hq => pres_openFile q (hq.obs hl))
  metadata p := Preserves.bindQ _ (readPath_pres layers hl p) (readPath_ret layers hl.nonempty p)
    (fun q hq => pres_metadata q (hq.obs hl))
  exists_ p := exists_pres layers hl p

/-! #### mutators of the overlay -/

theorem ensureHasParent_pres (layers : List VPath) (hl : Layers I layers) (p : Str) :
    Preserves I (ensureHasParent layers p) := by
  unfold ensureHasParent
  split
  · apply Preserves.bind (exists_pres layers hl.toObsLayers _)
    intro b; split
    · -- the two added observer steps: the parent is read through the merged view and typed
      apply Preserves.bindQ _ (readPath_pres layers hl.toObsLayers _)
        (readPath_ret layers hl.nonempty _)
      intro rp hrp
      apply Preserves.bind (pres_isDir rp (hrp.obs hl.toObsLayers))
      intro isd; split
      · apply Preserves.bindQ _ (Preserves.ret _) (writePath_inUpper layers _)
        intro wp hwp
        exact pres_createDirAll wp (hwp.all hl)
      · exact Preserves.failK _
    · exact Preserves.failK _
  · exact Preserves.failK _

theorem clearWhiteout_pres (layers : List VPath) (hl : Layers I layers) (p : Str) :
    Preserves I (clearWhiteout layers p) := by
  unfold clearWhiteout
  apply Preserves.bindQ _ (Preserves.ret _) (whiteoutPath_inUpper layers p)
  intro wo hwo
  apply Preserves.bind (pres_exists wo (hwo.all hl).obs)
  intro b; split
  · exact pres_removeFile wo (hwo.all hl)
  · exact Preserves.pure _

/-- `clear_whiteout` of `create_dir` (fix of O11): the same two calls as `clearWhiteout`, only the
outcome of the removal is inspected -/
theorem clearWhiteoutT_pres (layers : List VPath) (hl : Layers I layers) (p : Str) :
    Preserves I (clearWhiteoutT layers p) := by
  unfold clearWhiteoutT
  apply Preserves.bindQ _ (Preserves.ret _) (whiteoutPath_inUpper layers p)
  intro wo hwo
  apply Preserves.bind (pres_exists wo (hwo.all hl).obs)
  intro b; split
  · refine ⟨fun w hw => ?_⟩
    have h1 := (pres_removeFile wo (hwo.all hl)).pres w hw
    cases hres : wo.removeFile w with
    | mk r w' =>
      rw [hres] at h1
      cases r with
      | ok u => exact h1
      | err k pth => cases k <;> exact h1
      | panic => exact h1
  · exact Preserves.pure _

theorem addWhiteout_pres (layers : List VPath) (hl : Layers I layers) (p : Str) :
    Preserves I (addWhiteout layers p) := by
  unfold addWhiteout
  apply Preserves.bindQ _ (Preserves.ret _) (whiteoutPath_inUpper layers p)
  intro wo hwo
  have hpar : wo.parent.fs.AllPreserve I := by rw [parent_fs]; exact hwo.all hl
  apply Preserves.bind (pres_createDirAll wo.parent hpar)
  intro _
  apply Preserves.bindQ _ (pres_createFile wo (hwo.all hl)) (createFile_handle wo (hwo.all hl))
  intro h hh
  exact hh.drop

theorem createDir_pres (layers : List VPath) (hl : Layers I layers) (p : Str) :
    Preserves I (Overlay.createDir layers p) := by
  unfold Overlay.createDir
  apply Preserves.bind (ensureHasParent_pres layers hl p)
  intro _
  apply Preserves.bind (exists_pres layers hl.toObsLayers p)
  intro b; split
  · apply Preserves.bindQ _ (readPath_pres layers hl.toObsLayers p) (readPath_ret layers hl.nonempty p)
    intro q hq
    apply Preserves.bind (pres_metadata q (hq.obs hl.toObsLayers))
    intro md; exact Preserves.failK _
  · apply Preserves.bindQ _ (Preserves.ret _) (writePath_inUpper layers p)
    intro wp hwp
    -- whatever the write layer answers, at most the tolerant clearing of the whiteout follows
    refine ⟨fun w hw => ?_⟩
    have h1 := (pres_createDir wp (hwp.all hl)).pres w hw
    cases hres : wp.createDir w with
    | mk r w' =>
      rw [hres] at h1
      have h2 := (clearWhiteoutT_pres layers hl p).pres w' h1
      cases r with
      | ok u => cases u; exact h2
      | err k pth =>
        cases k <;> try exact h1
        dsimp only
        cases hres2 : clearWhiteoutT layers p w' with
        | mk r2 w2 =>
          rw [hres2] at h2
          cases r2 with
          | ok u => cases u; exact h2
          | err k2 pth2 => exact h2
          | panic => exact h2
      | panic => exact h1

theorem refuseDir_pres (layers : List VPath) (hl : ObsLayers I layers) (p : Str) :
    Preserves I (refuseDir layers p) := by
  unfold refuseDir
  apply Preserves.bind (exists_pres layers hl p)
  intro b; split
  · apply Preserves.bindQ _ (readPath_pres layers hl p) (readPath_ret layers hl.nonempty p)
    intro q hq
    apply Preserves.bind (pres_metadata q (hq.obs hl))
    intro md; split
    · exact Preserves.failK _
    · exact Preserves.pure _
  · exact Preserves.pure _

theorem createFile_pres (layers : List VPath) (hl : Layers I layers) (p : Str) :
    Preserves I (Overlay.createFile layers p) := by
  unfold Overlay.createFile
  apply Preserves.bind (ensureHasParent_pres layers hl p)
  intro _
  apply Preserves.bind (refuseDir_pres layers hl.toObsLayers p)
  intro _
  apply Preserves.bindQ _ (Preserves.ret _) (writePath_inUpper layers p)
  intro wp hwp
  apply Preserves.bind (pres_createFile wp (hwp.all hl))
  intro h
  apply Preserves.bind (clearWhiteout_pres layers hl p)
  intro _; exact Preserves.pure _

theorem createFile_handle' (layers : List VPath) (hl : Layers I layers) (p : Str) :
    Returns (Overlay.createFile layers p) (HandleOK I) := by
  unfold Overlay.createFile
  apply Returns.bind; intro _
  apply Returns.bind; intro _
  apply Returns.bindQ (writePath_inUpper layers p)
  intro wp hwp
  apply Returns.bindQ (createFile_handle wp (hwp.all hl))
  intro h hh
  apply Returns.bind; intro _
  exact Returns.pure _ hh

theorem copyUp_pres (layers : List VPath) (hl : Layers I layers) (p : Str) (wp : VPath)
    (hwp : InUpper layers wp) : Preserves I (copyUp layers p wp) := by
  unfold copyUp
  apply Preserves.bind (pres_exists wp (hwp.all hl).obs)
  intro b; split
  · apply Preserves.bind (ensureHasParent_pres layers hl p)
    intro _
    apply Preserves.bindQ _ (readPath_pres layers hl.toObsLayers p) (readPath_ret layers hl.nonempty p)
    intro rp hrp
    apply Preserves.bind (pres_isFile rp (hrp.obs hl.toObsLayers))
    intro b2; split
    · exact Preserves.failK _
    · apply pres_copyFile rp wp (hrp.obs hl.toObsLayers) (hwp.all hl)
      intro hid
      obtain ⟨l, hm, hfs, hfid⟩ := hrp
      rw [hfs]
      exact hl.same l hm (by rw [← hfid, hid, hwp.2])
  · exact Preserves.pure _

theorem appendFile_pres (layers : List VPath) (hl : Layers I layers) (p : Str) :
    Preserves I (Overlay.appendFile layers p) := by
  unfold Overlay.appendFile
  apply Preserves.bindQ _ (Preserves.ret _) (writePath_inUpper layers p)
  intro wp hwp
  apply Preserves.bind (copyUp_pres layers hl p wp hwp)
  intro _; exact pres_appendFile wp (hwp.all hl)

theorem appendFile_handle' (layers : List VPath) (hl : Layers I layers) (p : Str) :
    Returns (Overlay.appendFile layers p) (HandleOK I) := by
  unfold Overlay.appendFile
  apply Returns.bindQ (writePath_inUpper layers p)
  intro wp hwp
  apply Returns.bind; intro _
  exact appendFile_handle wp (hwp.all hl)

theorem removeFile_pres (layers : List VPath) (hl : Layers I layers) (p : Str) :
    Preserves I (Overlay.removeFile layers p) := by
  unfold Overlay.removeFile
  apply Preserves.bind (readPath_pres layers hl.toObsLayers p)
  intro _
  apply Preserves.bindQ _ (Preserves.ret _) (writePath_inUpper layers p)
  intro wp hwp
  apply Preserves.bind (pres_exists wp (hwp.all hl).obs)
  intro b
  apply Preserves.bind
  · split
    · exact pres_removeFile wp (hwp.all hl)
    · exact Preserves.pure _
  · intro _; exact addWhiteout_pres layers hl p

theorem removeDir_pres (layers : List VPath) (hl : Layers I layers) (p : Str) :
    Preserves I (Overlay.removeDir layers p) := by
  unfold Overlay.removeDir
  apply Preserves.bind (readPath_pres layers hl.toObsLayers p)
  intro _
  apply Preserves.bind (readDir_pres layers hl.toObsLayers p)
  intro l; split
  · exact Preserves.failK _
  · apply Preserves.bindQ _ (Preserves.ret _) (writePath_inUpper layers p)
    intro wp hwp
    apply Preserves.bind (pres_exists wp (hwp.all hl).obs)
    intro b
    apply Preserves.bind
    · split
      · exact pres_removeDir wp (hwp.all hl)
      · exact Preserves.pure _
    · intro _; exact addWhiteout_pres layers hl p

/-- **Main theorem.** Every method of the overlay preserves `I`, and so do the write handles
it returns: all mutations go through the upper layer. -/
theorem overlay_all_preserve (layers : List VPath) (hl : Layers I layers) :
    (Overlay.fs layers).AllPreserve I where
  readDir p := readDir_pres layers hl.toObsLayers p
  createDir p := createDir_pres layers hl p
  openFile p := (overlay_observers_pure layers hl.toObsLayers).openFile p
  createFile p := createFile_pres layers hl p
  appendFile p := appendFile_pres layers hl p
  metadata p := (overlay_observers_pure layers hl.toObsLayers).metadata p
  setCreationTime p t := Preserves.bindQ _ (Preserves.ret _) (writePath_inUpper layers p)
    (fun q hq => pres_setCreationTime q t (hq.all hl))
  setModificationTime p t := Preserves.bindQ _ (Preserves.ret _) (writePath_inUpper layers p)
    (fun q hq => pres_setModificationTime q t (hq.all hl))
  setAccessTime p t := Preserves.bindQ _ (Preserves.ret _) (writePath_inUpper layers p)
    (fun q hq => pres_setAccessTime q t (hq.all hl))
  exists_ p := exists_pres layers hl.toObsLayers p
  removeFile p := removeFile_pres layers hl p
  removeDir p := removeDir_pres layers hl p
  copyFile _ _ := Preserves.failK _
  moveFile _ _ := Preserves.failK _
  moveDir _ _ := Preserves.failK _
  createHandle p := createFile_handle' layers hl p
  appendHandle p := appendFile_handle' layers hl p

/-! ### Concrete instances -/

/-- layers that are directories of leaf filesystems: layer `n` lives on leaf `leafOf n`; the
layers sharing the upper layer's filesystem value live on the upper layer's leaf -/
structure LeafLayers (layers : List VPath) (up : Nat) : Prop where
  nonempty : layers ≠ []
  upper : (writeLayer layers).fs = leafFS up
  leaves : ∀ l ∈ layers, ∃ k, l.fs = leafFS k ∧ (l.fsId = (writeLayer layers).fsId → k = up)

/-- **Lower layers are never modified.** For an overlay (2, 3, 4 … layers) over leaf
filesystems, every leaf `j` other than the upper layer's leaf keeps exactly its entries
(type, bytes, creation and modification times) under every overlay method and every handle
the overlay returns — whatever the arguments, whether the call succeeds or fails. -/
theorem lower_leaf_unchanged (layers : List VPath) (up j : Nat) (hl : LeafLayers layers up)
    (hj : j ≠ up) (kind : LeafKind) (m0 : FMap) :
    (Overlay.fs layers).AllPreserve (SameLeaf j kind m0) := by
  apply overlay_all_preserve
  refine { nonempty := hl.nonempty, observers := ?_, upper := ?_, same := ?_ }
  · intro l hm
    obtain ⟨k, hk, _⟩ := hl.leaves l hm
    rw [hk]
    by_cases hkj : k = j
    · subst hkj; exact leafFS_obs_same k kind m0
    · exact (leafFS_all_preserve k (SameLeaf.ignores j k kind m0 hkj)).obs
  · rw [hl.upper]
    exact leafFS_all_preserve up (SameLeaf.ignores j up kind m0 (fun h => hj h.symm))
  · intro l hm hid
    obtain ⟨k, hk, hup⟩ := hl.leaves l hm
    rw [hk, hup hid]
    exact leafFS_all_preserve up (SameLeaf.ignores j up kind m0 (fun h => hj h.symm))

/-- the same through an altroot placed on top of the overlay (adapters stacked on adapters) -/
theorem lower_leaf_unchanged_alt (layers : List VPath) (up j : Nat) (hl : LeafLayers layers up)
    (hj : j ≠ up) (kind : LeafKind) (m0 : FMap) (id : Nat) (at_ : Str) :
    (Altroot.fs { fs := Overlay.fs layers, fsId := id, path := at_ }).AllPreserve (SameLeaf j kind m0) :=
  Altroot.all_preserve _ (lower_leaf_unchanged layers up j hl hj kind m0)

/-- no mutating call is recorded on a lower layer: the ghost log of a recording wrapper with
tag `t` contains no mutating method -/
def NoMutation (t : Nat) (w : World) : Prop :=
  ∀ e ∈ w.log, e.tag = t → e.method.mutating = false

theorem logCall_pres (t tag : Nat) (m : Method) (p p2 : Str) (h : tag = t → m.mutating = false) :
    Preserves (NoMutation t) (logCall tag m p p2) := by
  refine ⟨fun w hw => ?_⟩
  unfold logCall NoMutation at *
  intro e he
  simp only [List.mem_append, List.mem_singleton] at he
  rcases he with he | rfl
  · exact hw e he
  · exact h

/-- the observer methods of a recorded layer only add observer entries to the log -/
theorem recordFS_obs (t tag : Nat) (inner : FS) (hi : inner.ObsPreserve (NoMutation t)) :
    (recordFS tag inner).ObsPreserve (NoMutation t) where
  readDir p := Preserves.bind (logCall_pres t tag _ p [] (fun _ => rfl)) (fun _ => hi.readDir p)
  openFile p := Preserves.bind (logCall_pres t tag _ p [] (fun _ => rfl)) (fun _ => hi.openFile p)
  metadata p := Preserves.bind (logCall_pres t tag _ p [] (fun _ => rfl)) (fun _ => hi.metadata p)
  exists_ p := Preserves.bind (logCall_pres t tag _ p [] (fun _ => rfl)) (fun _ => hi.exists_ p)

/-- a leaf filesystem never writes to the log -/
theorem leafFS_log (t i : Nat) : (leafFS i).AllPreserve (NoMutation t) :=
  leafFS_all_preserve i (fun w f h => by unfold NoMutation World.setLeafFiles at *; exact h)

/-- a recording wrapper with another tag may log anything -/
theorem recordFS_other (t tag : Nat) (inner : FS) (hne : tag ≠ t)
    (hi : inner.AllPreserve (NoMutation t)) : (recordFS tag inner).AllPreserve (NoMutation t) where
  readDir p := Preserves.bind (logCall_pres t tag _ p [] (fun h => absurd h hne)) (fun _ => hi.readDir p)
  createDir p := Preserves.bind (logCall_pres t tag _ p [] (fun h => absurd h hne)) (fun _ => hi.createDir p)
  openFile p := Preserves.bind (logCall_pres t tag _ p [] (fun h => absurd h hne)) (fun _ => hi.openFile p)
  createFile p := Preserves.bind (logCall_pres t tag _ p [] (fun h => absurd h hne)) (fun _ => hi.createFile p)
  appendFile p := Preserves.bind (logCall_pres t tag _ p [] (fun h => absurd h hne)) (fun _ => hi.appendFile p)
  metadata p := Preserves.bind (logCall_pres t tag _ p [] (fun h => absurd h hne)) (fun _ => hi.metadata p)
  setCreationTime p x := Preserves.bind (logCall_pres t tag _ p [] (fun h => absurd h hne)) (fun _ => hi.setCreationTime p x)
  setModificationTime p x := Preserves.bind (logCall_pres t tag _ p [] (fun h => absurd h hne)) (fun _ => hi.setModificationTime p x)
  setAccessTime p x := Preserves.bind (logCall_pres t tag _ p [] (fun h => absurd h hne)) (fun _ => hi.setAccessTime p x)
  exists_ p := Preserves.bind (logCall_pres t tag _ p [] (fun h => absurd h hne)) (fun _ => hi.exists_ p)
  removeFile p := Preserves.bind (logCall_pres t tag _ p [] (fun h => absurd h hne)) (fun _ => hi.removeFile p)
  removeDir p := Preserves.bind (logCall_pres t tag _ p [] (fun h => absurd h hne)) (fun _ => hi.removeDir p)
  copyFile s d := Preserves.bind (logCall_pres t tag _ s d (fun h => absurd h hne)) (fun _ => hi.copyFile s d)
  moveFile s d := Preserves.bind (logCall_pres t tag _ s d (fun h => absurd h hne)) (fun _ => hi.moveFile s d)
  moveDir s d := Preserves.bind (logCall_pres t tag _ s d (fun h => absurd h hne)) (fun _ => hi.moveDir s d)
  createHandle p := Returns.bind (fun _ => hi.createHandle p)
  appendHandle p := Returns.bind (fun _ => hi.appendHandle p)

/-- **No mutating call reaches a lower layer** (the statement of the recording wrappers of the
harness): overlay `[rec 0 (leaf a), rec 1 (leaf b)]`, distinct filesystem ids — every overlay
method leaves the log free of mutating calls tagged 1. -/
theorem lower_log_unchanged (a b : Nat) (pa pb : Str) :
    (Overlay.fs [{ fs := recordFS 0 (leafFS a), fsId := 0, path := pa },
                 { fs := recordFS 1 (leafFS b), fsId := 1, path := pb }]).AllPreserve (NoMutation 1) := by
  apply overlay_all_preserve
  refine { nonempty := by simp, observers := ?_, upper := ?_, same := ?_ }
  · intro l hm
    simp only [List.mem_cons, List.mem_nil_iff, or_false] at hm
    rcases hm with rfl | rfl
    · exact (recordFS_other 1 0 _ (by decide) (leafFS_log 1 a)).obs
    · exact recordFS_obs 1 1 _ (leafFS_log 1 b).obs
  · exact recordFS_other 1 0 _ (by decide) (leafFS_log 1 a)
  · intro l hm hid
    simp only [List.mem_cons, List.mem_nil_iff, or_false] at hm
    rcases hm with rfl | rfl
    · exact recordFS_other 1 0 _ (by decide) (leafFS_log 1 a)
    · simp [writeLayer] at hid

/-- observers of that overlay record no mutating call on ANY layer, the first included -/
theorem observers_log_clean (a b : Nat) (pa pb : Str) (t : Nat) :
    (Overlay.fs [{ fs := recordFS 0 (leafFS a), fsId := 0, path := pa },
                 { fs := recordFS 1 (leafFS b), fsId := 1, path := pb }]).ObsPreserve (NoMutation t) := by
  apply overlay_observers_pure
  refine { nonempty := by simp, observers := ?_ }
  intro l hm
  simp only [List.mem_cons, List.mem_nil_iff, or_false] at hm
  rcases hm with rfl | rfl
  · exact recordFS_obs t 0 _ (leafFS_log t a).obs
  · exact recordFS_obs t 1 _ (leafFS_log t b).obs

/-! Non-vacuity: a two-layer overlay over two memory leaves satisfies the hypotheses, and the
lower leaf really holds something. -/
example : LeafLayers [{ fs := leafFS 0, fsId := 0, path := [] }, { fs := leafFS 1, fsId := 1, path := [] }] 0 :=
  { nonempty := by simp
    upper := rfl
    leaves := by
      intro l hm
      simp only [List.mem_cons, List.mem_nil_iff, or_false] at hm
      rcases hm with rfl | rfl
      · exact ⟨0, rfl, fun _ => rfl⟩
      · exact ⟨1, rfl, fun h => by simp [writeLayer] at h⟩ }

example : SameLeaf 1 .mem Mem.init { leaves := [{ kind := .mem, files := Mem.init }, { kind := .mem, files := Mem.init }] } :=
  ⟨_, rfl, rfl, fun _ => rfl⟩

end Vfs.C08
