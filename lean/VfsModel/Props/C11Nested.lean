/-
  C11 (nested trees) — `VfsPath::copy_dir` / `move_dir` on the in-memory backend reproduce the
  WHOLE source subtree at the destination, whatever its depth: every nested directory (empty
  ones included), every file byte for byte; `copy_dir` leaves the source unchanged and returns the
  number of entries copied; `move_dir` leaves no trace of the source.

  Props/C11.lean STATES this as `CopyDirExact` / `MoveDirExact` and proves it for flat
  directories. This file proves it for trees of ANY depth, for source and destination on two
  different memory leaves AND on the same leaf, and settles the two stated `def`s.

  Setting (as in C11.lean): leaf `i` of the world is a memory leaf holding the map `ms`
  (`MemLeafAt w i ms`), leaf `j` one holding `md`; `i = j` (then `ms = md`) or `i ≠ j`; any `Arc`
  identities `sid`, `did`. `S` is the source path string, `D = renderC bs` the destination.
  `under P k`: `k = P` or `k = P/t`. `descendants ms S`: number of keys strictly below `S`.
  `core e = (type, bytes)`; `CD.shape e = (type, bytes if a file, else none)`;
  `stripAcc`: the entry with its access time erased (`copy_file` opens the source for reading, which
  stamps its access time — inside the backend, as the OS does).

  RESULT ON THE STATED DEFS: both are FALSE as stated, for one reason only.
    * `copyDirExact_false : ¬ CopyDirExact`, `moveDirExact_false : ¬ MoveDirExact` — kernel-checked
      counterexample `wBad`: a well-formed map may hold a DIRECTORY entry whose `content` field is
      not empty (nothing in `WF` forbids it; MemoryFS itself never creates one). `create_dir` at the
      destination makes a directory with no bytes, so `core` of the copy differs from `core` of the
      source. The stated defs compare `core` for every descendant.
    * The corrected statements `CopyDirExact'` / `MoveDirExact'` are the stated ones plus the single
      hypothesis `DirsBare ms S` ("directory entries at or below S carry no bytes") and are PROVED:
      `copyDirExact' : CopyDirExact'`, `moveDirExact' : MoveDirExact'`.
    * Without that hypothesis the theorems below state the conclusion with `CD.shape` on the source
      side (type equal; bytes equal for files; a copied directory has no bytes): nothing is lost.

  PROVED (no sorry, no axiom beyond propext / Classical.choice / Quot.sound):
    1. `copyDir_exact` — any `i`, `j`, any depth. Hypotheses: both leaves memory leaves; `WF ms`,
       `WF md`; `FMap.NodupKeys ms`; the components of `D` canonical; `S` a directory of `ms`; the
       keys at or below `S` canonical (`Canon`: what `VfsPath::join` can produce); `D` absent from
       `md`, its parent a directory (`FreshDest`); on one leaf: `D` not at or below `S`;
       `descendants ms S < fuel`. Conclusion: the call is `Ok (descendants ms S)`; the destination
       leaf holds a fresh directory at `D`; for EVERY relative path `t`:
       `D/t` exists iff `S/t` existed, with the same type, a file with the same bytes, a directory
       with none; every key of the destination leaf not at or below `D` is unchanged; every key of
       the source leaf (on one leaf: not at or below `D`) is unchanged — both up to access times;
       every other leaf is untouched; both leaves stay well-formed.
       `copyDir_exact_cross` (i ≠ j: the whole source map unchanged), `copyDir_exact_same` (one
       leaf, one map).
    2. what the grafting clause says, item by item: `graft_dir` (every directory below `S`, empty
       or not, is a directory below `D`), `graft_file` (every file arrives with its bytes),
       `graft_none` (nothing else appears below `D`), `graft_empty_dir` (an empty directory is
       copied, and is empty at the destination).
    3. `moveDir_exact` — as 1. plus `S ≠ ""` and the fuel bounds of `MoveDirExact` (fuel is also the
       recursion depth of `remove_dir_all`: every key of the source leaf — on one leaf also every
       copied key — is shorter than `|S| + fuel`). Conclusion: `Ok`; NO key at or below `S` is
       left on the source leaf; the destination subtree as in 1.; everything else unchanged.
       `moveDir_exact_cross`, `moveDir_exact_same`.
    4. `descendants_eq`: the count of C11.lean is the count of the walk (`Wk.below`).
    5. non-vacuity: `wN` — leaf 0 holds a tree of depth 4 below `/r` with an empty directory
       `/r/a/e`, an empty file, siblings `/r/a`, `/r/ab`, `/r/a.b`, storage order not sorted; leaf 1
       holds `/keep`. copy_dir / move_dir across leaves and inside leaf 0 are evaluated by the
       kernel (`decide +kernel`), the hypotheses of the theorems are discharged on it by `decide`,
       and the exactness of the fuel bound is shown (`fuel = descendants` runs out of fuel).

  ASSUMED: exactly the hypotheses listed in 1. and 3. — nothing about the storage order of the
  maps, nothing about the depth.

  NOT PROVED HERE: other backends (overlay, altroot, physical) as source or destination of
  copy_dir; `NodupKeys` of the destination map afterwards when it was not assumed before;
  copy_dir INTO the own subtree (diverges, see C11.lean `copyDir_into_itself_diverges_*`).
-/
import VfsModel.Props.C11
import VfsModel.Proofs.CopyDirLemmas
namespace Vfs.C11
open Vfs.CD (shape)
open Vfs.Wk (below)

/-! ## the count -/

/-- the number of keys strictly below `S` (C11.lean) is the number of keys the walk yields -/
theorem descendants_eq (m : FMap) (S : Str) :
    descendants m S = (m.keys.filter (below S)).length := by
  unfold descendants
  congr 1
  apply List.filter_congr
  intro k _
  by_cases h : k = S
  · subst h; simp [Wk.below_irrefl]
  · simp [under, below, h]

/-! ## 1. copy_dir, any depth, one leaf or two -/

theorem copyDir_exact {w : World} {i j : Nat} {ms md : FMap}
    (hi : MemLeafAt w i ms) (hj : MemLeafAt w j md) (hwfs : WF ms) (hwfd : WF md)
    (hnd : FMap.NodupKeys ms) (sid did fuel : Nat) (S : Str) (bs : List Str)
    (hbs : ∀ c ∈ bs, GoodComp c) (hdir : ∃ se, ms.find? S = some se ∧ se.ftype = .dir)
    (hcanon : ∀ k e, ms.find? k = some e → under S k = true → Canon k)
    (hfresh : FreshDest md (renderC bs)) (hout : i = j → under S (renderC bs) = false)
    (hfuel : descendants ms S < fuel) :
    ∃ w' ms' md',
      VPath.copyDir fuel { fs := leafFS i, fsId := sid, path := S }
        { fs := leafFS j, fsId := did, path := renderC bs } w = (.ok (descendants ms S), w') ∧
      MemLeafAt w' i ms' ∧ MemLeafAt w' j md' ∧ WF ms' ∧ WF md' ∧
      (∀ l, l ≠ i → l ≠ j → w'.leaf? l = w.leaf? l) ∧
      -- the destination is a fresh directory
      md'.find? (renderC bs) = some dirEntryNow ∧
      -- the subtree is grafted below it: `D/t` exists iff `S/t` did; same type; a file has the
      -- same bytes, a directory none
      (∀ t, (md'.find? (renderC bs ++ '/' :: t)).map core =
        (ms.find? (S ++ '/' :: t)).map shape) ∧
      -- nothing else changes on the destination leaf
      (∀ k, under (renderC bs) k = false →
        (md'.find? k).map stripAcc = (md.find? k).map stripAcc) ∧
      -- the source leaf is unchanged
      (∀ k, (i = j → under (renderC bs) k = false) →
        (ms'.find? k).map stripAcc = (ms.find? k).map stripAcc) := by
  rw [descendants_eq] at hfuel ⊢
  obtain ⟨w', hrun, hoth, _, ms', md', hi', hj', h1, h2, _, h4, h5, h6, h7⟩ :=
    CD.copyDir_tree hi hj sid did fuel S bs (fun c hc => (hbs c hc).2.1) hwfs hwfd hnd hdir hcanon
      hfresh hout hfuel
  exact ⟨w', ms', md', hrun, hi', hj', h1, h2, hoth, h4, h5, h6, h7⟩

/-- source and destination on two DIFFERENT leaves, any depth: the source map is unchanged at
every key -/
theorem copyDir_exact_cross {w : World} {i j : Nat} {ms md : FMap} (hij : i ≠ j)
    (hi : MemLeafAt w i ms) (hj : MemLeafAt w j md) (hwfs : WF ms) (hwfd : WF md)
    (hnd : FMap.NodupKeys ms) (sid did fuel : Nat) (S : Str) (bs : List Str)
    (hbs : ∀ c ∈ bs, GoodComp c) (hdir : ∃ se, ms.find? S = some se ∧ se.ftype = .dir)
    (hcanon : ∀ k e, ms.find? k = some e → under S k = true → Canon k)
    (hfresh : FreshDest md (renderC bs)) (hfuel : descendants ms S < fuel) :
    ∃ w' ms' md',
      VPath.copyDir fuel { fs := leafFS i, fsId := sid, path := S }
        { fs := leafFS j, fsId := did, path := renderC bs } w = (.ok (descendants ms S), w') ∧
      MemLeafAt w' i ms' ∧ MemLeafAt w' j md' ∧ WF ms' ∧ WF md' ∧
      (∀ l, l ≠ i → l ≠ j → w'.leaf? l = w.leaf? l) ∧
      md'.find? (renderC bs) = some dirEntryNow ∧
      (∀ t, (md'.find? (renderC bs ++ '/' :: t)).map core =
        (ms.find? (S ++ '/' :: t)).map shape) ∧
      (∀ k, under (renderC bs) k = false →
        (md'.find? k).map stripAcc = (md.find? k).map stripAcc) ∧
      (∀ k, (ms'.find? k).map stripAcc = (ms.find? k).map stripAcc) := by
  obtain ⟨w', ms', md', h1, h2, h3, h4, h5, h6, h7, h8, h9, h10⟩ :=
    copyDir_exact hi hj hwfs hwfd hnd sid did fuel S bs hbs hdir hcanon hfresh
      (fun h => absurd h hij) hfuel
  exact ⟨w', ms', md', h1, h2, h3, h4, h5, h6, h7, h8, h9, fun k => h10 k (fun h => absurd h hij)⟩

/-- source and destination on the SAME leaf (`D` not at or below `S`), any depth -/
theorem copyDir_exact_same {w : World} {i : Nat} {m : FMap}
    (hi : MemLeafAt w i m) (hwf : WF m) (hnd : FMap.NodupKeys m) (sid did fuel : Nat) (S : Str)
    (bs : List Str) (hbs : ∀ c ∈ bs, GoodComp c)
    (hdir : ∃ se, m.find? S = some se ∧ se.ftype = .dir)
    (hcanon : ∀ k e, m.find? k = some e → under S k = true → Canon k)
    (hfresh : FreshDest m (renderC bs)) (hout : under S (renderC bs) = false)
    (hfuel : descendants m S < fuel) :
    ∃ w' m',
      VPath.copyDir fuel { fs := leafFS i, fsId := sid, path := S }
        { fs := leafFS i, fsId := did, path := renderC bs } w = (.ok (descendants m S), w') ∧
      MemLeafAt w' i m' ∧ WF m' ∧ (∀ l, l ≠ i → w'.leaf? l = w.leaf? l) ∧
      m'.find? (renderC bs) = some dirEntryNow ∧
      (∀ t, (m'.find? (renderC bs ++ '/' :: t)).map core = (m.find? (S ++ '/' :: t)).map shape) ∧
      -- everything outside the new subtree — the source subtree included — is unchanged
      (∀ k, under (renderC bs) k = false → (m'.find? k).map stripAcc = (m.find? k).map stripAcc) := by
  obtain ⟨w', ms', md', h1, h2, h3, h4, _, h6, h7, h8, h9, _⟩ :=
    copyDir_exact hi hi hwf hwf hnd sid did fuel S bs hbs hdir hcanon hfresh (fun _ => hout) hfuel
  have := h2.unique h3; subst this
  exact ⟨w', ms', h1, h2, h4, fun l hl => h6 l hl hl, h7, h8, h9⟩

/-! ## 2. what the grafting clause says -/

section graft
variable {ms md' : FMap} {S D : Str}
  (h : ∀ t, (md'.find? (D ++ '/' :: t)).map core = (ms.find? (S ++ '/' :: t)).map shape)
include h

/-- every directory below the source — empty or not — is a directory below the destination -/
theorem graft_dir (t : Str) (e : Entry) (he : ms.find? (S ++ '/' :: t) = some e)
    (hd : e.ftype = .dir) :
    ∃ e', md'.find? (D ++ '/' :: t) = some e' ∧ e'.ftype = .dir ∧ e'.content = [] := by
  have := h t
  rw [he] at this
  cases hf : md'.find? (D ++ '/' :: t) with
  | none => rw [hf] at this; simp at this
  | some e' =>
    rw [hf] at this
    simp only [Option.map_some, Option.some.injEq, CD.shape_dir hd, core, Prod.mk.injEq] at this
    exact ⟨e', rfl, this.1, this.2⟩

/-- every file below the source arrives with its bytes -/
theorem graft_file (t : Str) (e : Entry) (he : ms.find? (S ++ '/' :: t) = some e)
    (hf : e.ftype = .file) :
    ∃ e', md'.find? (D ++ '/' :: t) = some e' ∧ e'.ftype = .file ∧ e'.content = e.content := by
  have := h t
  rw [he] at this
  cases hq : md'.find? (D ++ '/' :: t) with
  | none => rw [hq] at this; simp at this
  | some e' =>
    rw [hq] at this
    simp only [Option.map_some, Option.some.injEq, CD.shape_file hf, core, Prod.mk.injEq] at this
    exact ⟨e', rfl, this.1, this.2⟩

/-- nothing else appears below the destination -/
theorem graft_none (t : Str) (he : ms.find? (S ++ '/' :: t) = none) :
    md'.find? (D ++ '/' :: t) = none := by
  have := h t
  rw [he] at this
  cases hq : md'.find? (D ++ '/' :: t) with
  | none => rfl
  | some e' => rw [hq] at this; simp at this

/-- and conversely: whatever is below the destination came from the source -/
theorem graft_only (t : Str) (e' : Entry) (he : md'.find? (D ++ '/' :: t) = some e') :
    ∃ e, ms.find? (S ++ '/' :: t) = some e ∧ e.ftype = e'.ftype := by
  have := h t
  rw [he] at this
  cases hq : ms.find? (S ++ '/' :: t) with
  | none => rw [hq] at this; simp at this
  | some e =>
    rw [hq] at this
    simp only [Option.map_some, Option.some.injEq, core, shape, Prod.mk.injEq] at this
    exact ⟨e, rfl, this.1.symm⟩

/-- an EMPTY directory is copied, and is empty at the destination -/
theorem graft_empty_dir (t : Str) (e : Entry) (he : ms.find? (S ++ '/' :: t) = some e)
    (hd : e.ftype = .dir) (hempty : ∀ u, ms.find? (S ++ '/' :: (t ++ '/' :: u)) = none) :
    (∃ e', md'.find? (D ++ '/' :: t) = some e' ∧ e'.ftype = .dir) ∧
    ∀ u, md'.find? (D ++ '/' :: (t ++ '/' :: u)) = none := by
  obtain ⟨e', h1, h2, _⟩ := graft_dir h t e he hd
  exact ⟨⟨e', h1, h2⟩, fun u => graft_none h _ (hempty u)⟩

end graft

/-! ## 3. move_dir, any depth, one leaf or two -/

theorem moveDir_exact {w : World} {i j : Nat} {ms md : FMap}
    (hi : MemLeafAt w i ms) (hj : MemLeafAt w j md) (hwfs : WF ms) (hwfd : WF md)
    (hnd : FMap.NodupKeys ms) (sid did fuel : Nat) (S : Str) (bs : List Str) (hS : S ≠ [])
    (hbs : ∀ c ∈ bs, GoodComp c) (hdir : ∃ se, ms.find? S = some se ∧ se.ftype = .dir)
    (hcanon : ∀ k e, ms.find? k = some e → under S k = true → Canon k)
    (hfresh : FreshDest md (renderC bs)) (hout : i = j → under S (renderC bs) = false)
    (hfuel : descendants ms S < fuel)
    (hb1 : ∀ k e, ms.find? k = some e → k.length < S.length + fuel)
    (hb2 : i = j → ∀ k e, ms.find? k = some e → under S k = true →
      (renderC bs).length + k.length < 2 * S.length + fuel) :
    ∃ w' ms' md',
      VPath.moveDir fuel { fs := leafFS i, fsId := sid, path := S }
        { fs := leafFS j, fsId := did, path := renderC bs } w = (.ok (), w') ∧
      MemLeafAt w' i ms' ∧ MemLeafAt w' j md' ∧ WF ms' ∧ WF md' ∧
      (∀ l, l ≠ i → l ≠ j → w'.leaf? l = w.leaf? l) ∧
      -- no trace of the source
      (∀ k, under S k = true → ms'.find? k = none) ∧
      md'.find? (renderC bs) = some dirEntryNow ∧
      (∀ t, (md'.find? (renderC bs ++ '/' :: t)).map core =
        (ms.find? (S ++ '/' :: t)).map shape) ∧
      (∀ k, under (renderC bs) k = false → (i = j → under S k = false) →
        (md'.find? k).map stripAcc = (md.find? k).map stripAcc) ∧
      (∀ k, under S k = false → (i = j → under (renderC bs) k = false) →
        (ms'.find? k).map stripAcc = (ms.find? k).map stripAcc) := by
  rw [descendants_eq] at hfuel
  obtain ⟨w', hrun, hoth, ms', md', hi', hj', h1, h2, _, h4, h5, h6, h7, h8⟩ :=
    CD.moveDir_tree hi hj sid did fuel S bs (fun c hc => (hbs c hc).2.1) hwfs hwfd hnd hS hdir
      hcanon hfresh hout hfuel hb1 hb2
  exact ⟨w', ms', md', hrun, hi', hj', h1, h2, hoth, h4, h5, h6, h7, h8⟩

/-- move_dir between two DIFFERENT leaves, any depth: the source subtree is gone and nothing else
of the source leaf changed; the destination leaf gained exactly the subtree -/
theorem moveDir_exact_cross {w : World} {i j : Nat} {ms md : FMap} (hij : i ≠ j)
    (hi : MemLeafAt w i ms) (hj : MemLeafAt w j md) (hwfs : WF ms) (hwfd : WF md)
    (hnd : FMap.NodupKeys ms) (sid did fuel : Nat) (S : Str) (bs : List Str) (hS : S ≠ [])
    (hbs : ∀ c ∈ bs, GoodComp c) (hdir : ∃ se, ms.find? S = some se ∧ se.ftype = .dir)
    (hcanon : ∀ k e, ms.find? k = some e → under S k = true → Canon k)
    (hfresh : FreshDest md (renderC bs)) (hfuel : descendants ms S < fuel)
    (hb1 : ∀ k e, ms.find? k = some e → k.length < S.length + fuel) :
    ∃ w' ms' md',
      VPath.moveDir fuel { fs := leafFS i, fsId := sid, path := S }
        { fs := leafFS j, fsId := did, path := renderC bs } w = (.ok (), w') ∧
      MemLeafAt w' i ms' ∧ MemLeafAt w' j md' ∧ WF ms' ∧ WF md' ∧
      (∀ l, l ≠ i → l ≠ j → w'.leaf? l = w.leaf? l) ∧
      (∀ k, under S k = true → ms'.find? k = none) ∧
      (∀ k, under S k = false → (ms'.find? k).map stripAcc = (ms.find? k).map stripAcc) ∧
      md'.find? (renderC bs) = some dirEntryNow ∧
      (∀ t, (md'.find? (renderC bs ++ '/' :: t)).map core =
        (ms.find? (S ++ '/' :: t)).map shape) ∧
      (∀ k, under (renderC bs) k = false →
        (md'.find? k).map stripAcc = (md.find? k).map stripAcc) := by
  obtain ⟨w', ms', md', h1, h2, h3, h4, h5, h6, h7, h8, h9, h10, h11⟩ :=
    moveDir_exact hi hj hwfs hwfd hnd sid did fuel S bs hS hbs hdir hcanon hfresh
      (fun h => absurd h hij) hfuel hb1 (fun h => absurd h hij)
  exact ⟨w', ms', md', h1, h2, h3, h4, h5, h6, h7, fun k hk => h11 k hk (fun h => absurd h hij),
    h8, h9, fun k hk => h10 k hk (fun h => absurd h hij)⟩

/-- move_dir inside ONE leaf (`D` not at or below `S`), any depth -/
theorem moveDir_exact_same {w : World} {i : Nat} {m : FMap}
    (hi : MemLeafAt w i m) (hwf : WF m) (hnd : FMap.NodupKeys m) (sid did fuel : Nat) (S : Str)
    (bs : List Str) (hS : S ≠ []) (hbs : ∀ c ∈ bs, GoodComp c)
    (hdir : ∃ se, m.find? S = some se ∧ se.ftype = .dir)
    (hcanon : ∀ k e, m.find? k = some e → under S k = true → Canon k)
    (hfresh : FreshDest m (renderC bs)) (hout : under S (renderC bs) = false)
    (hfuel : descendants m S < fuel)
    (hb1 : ∀ k e, m.find? k = some e → k.length < S.length + fuel)
    (hb2 : ∀ k e, m.find? k = some e → under S k = true →
      (renderC bs).length + k.length < 2 * S.length + fuel) :
    ∃ w' m',
      VPath.moveDir fuel { fs := leafFS i, fsId := sid, path := S }
        { fs := leafFS i, fsId := did, path := renderC bs } w = (.ok (), w') ∧
      MemLeafAt w' i m' ∧ WF m' ∧ (∀ l, l ≠ i → w'.leaf? l = w.leaf? l) ∧
      (∀ k, under S k = true → m'.find? k = none) ∧
      m'.find? (renderC bs) = some dirEntryNow ∧
      (∀ t, (m'.find? (renderC bs ++ '/' :: t)).map core = (m.find? (S ++ '/' :: t)).map shape) ∧
      (∀ k, under S k = false → under (renderC bs) k = false →
        (m'.find? k).map stripAcc = (m.find? k).map stripAcc) := by
  obtain ⟨w', ms', md', h1, h2, h3, h4, _, h6, h7, h8, h9, h10, _⟩ :=
    moveDir_exact hi hi hwf hwf hnd sid did fuel S bs hS hbs hdir hcanon hfresh (fun _ => hout)
      hfuel hb1 (fun _ => hb2)
  have := h2.unique h3; subst this
  exact ⟨w', ms', h1, h2, h4, fun l hl => h6 l hl hl, h7, h8, h9,
    fun k hk1 hk2 => h10 k hk2 (fun _ => hk1)⟩

/-! ## the stated defs of C11.lean: false as stated, true with one more hypothesis -/

/-- directory entries at or below `S` carry no bytes (MemoryFS never creates one that does, but
`WF` does not say so) -/
def DirsBare (ms : FMap) (S : Str) : Prop :=
  ∀ k e, ms.find? k = some e → under S k = true → e.ftype = .dir → e.content = []

theorem shape_eq_core (e : Entry) (h : e.ftype = .dir → e.content = []) : shape e = core e := by
  cases hft : e.ftype with
  | file => simp [shape, core, hft]
  | dir => simp [shape, core, hft, h hft]

/-- `CopyDirExact` with the hypothesis `DirsBare ms S` added; everything else verbatim -/
def CopyDirExact' : Prop :=
  ∀ (w : World) (i j : Nat) (ms md : FMap) (sid did fuel : Nat) (S : Str) (bs : List Str),
    MemLeafAt w i ms → MemLeafAt w j md → WF ms → WF md → FMap.NodupKeys ms →
    (∀ c ∈ bs, GoodComp c) → (∃ se, ms.find? S = some se ∧ se.ftype = .dir) →
    (∀ k e, ms.find? k = some e → under S k = true → Canon k) →
    DirsBare ms S →
    FreshDest md (renderC bs) → (i = j → under S (renderC bs) = false) →
    descendants ms S < fuel →
    ∃ w' ms' md',
      VPath.copyDir fuel { fs := leafFS i, fsId := sid, path := S }
        { fs := leafFS j, fsId := did, path := renderC bs } w = (.ok (descendants ms S), w') ∧
      MemLeafAt w' i ms' ∧ MemLeafAt w' j md' ∧
      (md'.find? (renderC bs)).map core = some (.dir, []) ∧
      (∀ t, (md'.find? (renderC bs ++ '/' :: t)).map core = (ms.find? (S ++ '/' :: t)).map core) ∧
      (∀ k, under (renderC bs) k = false →
        (md'.find? k).map stripAcc = (md.find? k).map stripAcc) ∧
      (∀ k, (i = j → under (renderC bs) k = false) →
        (ms'.find? k).map stripAcc = (ms.find? k).map stripAcc)

theorem graft_core {ms md' : FMap} {S D : Str} (hbare : DirsBare ms S)
    (h : ∀ t, (md'.find? (D ++ '/' :: t)).map core = (ms.find? (S ++ '/' :: t)).map shape) (t : Str) :
    (md'.find? (D ++ '/' :: t)).map core = (ms.find? (S ++ '/' :: t)).map core := by
  rw [h t]
  cases hf : ms.find? (S ++ '/' :: t) with
  | none => rfl
  | some e =>
    simp only [Option.map_some]
    rw [shape_eq_core e (hbare _ e hf (CD.under_graft S t))]

theorem copyDirExact' : CopyDirExact' := by
  intro w i j ms md sid did fuel S bs hi hj hwfs hwfd hnd hbs hdir hcanon hbare hfresh hout hfuel
  obtain ⟨w', ms', md', h1, h2, h3, _, _, _, h7, h8, h9, h10⟩ :=
    copyDir_exact hi hj hwfs hwfd hnd sid did fuel S bs hbs hdir hcanon hfresh hout hfuel
  exact ⟨w', ms', md', h1, h2, h3, by rw [h7]; rfl, graft_core hbare h8, h9, h10⟩

/-- `MoveDirExact` with the hypothesis `DirsBare ms S` added; everything else verbatim -/
def MoveDirExact' : Prop :=
  ∀ (w : World) (i j : Nat) (ms md : FMap) (sid did fuel : Nat) (S : Str) (bs : List Str),
    MemLeafAt w i ms → MemLeafAt w j md → WF ms → WF md → FMap.NodupKeys ms → FMap.NodupKeys md →
    S ≠ [] → (∀ c ∈ bs, GoodComp c) → (∃ se, ms.find? S = some se ∧ se.ftype = .dir) →
    (∀ k e, ms.find? k = some e → under S k = true → Canon k) →
    DirsBare ms S →
    FreshDest md (renderC bs) → (i = j → under S (renderC bs) = false) →
    descendants ms S < fuel →
    (∀ k e, ms.find? k = some e → k.length < S.length + fuel) →
    (i = j → ∀ k e, ms.find? k = some e → under S k = true →
      (renderC bs).length + k.length < 2 * S.length + fuel) →
    ∃ w' ms' md',
      VPath.moveDir fuel { fs := leafFS i, fsId := sid, path := S }
        { fs := leafFS j, fsId := did, path := renderC bs } w = (.ok (), w') ∧
      MemLeafAt w' i ms' ∧ MemLeafAt w' j md' ∧
      (∀ k, under S k = true → ms'.find? k = none) ∧
      (md'.find? (renderC bs)).map core = some (.dir, []) ∧
      (∀ t, (md'.find? (renderC bs ++ '/' :: t)).map core = (ms.find? (S ++ '/' :: t)).map core) ∧
      (∀ k, under (renderC bs) k = false → (i = j → under S k = false) →
        (md'.find? k).map stripAcc = (md.find? k).map stripAcc) ∧
      (∀ k, under S k = false → (i = j → under (renderC bs) k = false) →
        (ms'.find? k).map stripAcc = (ms.find? k).map stripAcc)

theorem moveDirExact' : MoveDirExact' := by
  intro w i j ms md sid did fuel S bs hi hj hwfs hwfd hnd _ hS hbs hdir hcanon hbare hfresh hout
    hfuel hb1 hb2
  obtain ⟨w', ms', md', h1, h2, h3, _, _, _, h7, h8, h9, h10, h11⟩ :=
    moveDir_exact hi hj hwfs hwfd hnd sid did fuel S bs hS hbs hdir hcanon hfresh hout hfuel hb1 hb2
  exact ⟨w', ms', md', h1, h2, h3, h7, by rw [h8]; rfl, graft_core hbare h9, h10, h11⟩

/-! ### the counterexample to the stated defs -/

/-- a directory entry that carries a byte -/
def badE : Entry := { dirEntryNow with content := [1] }

/-- well-formed, unique keys, canonical — and `/s/d` is a directory whose `content` is `[1]` -/
def mBad : FMap := [("/s/d".toList, badE), ("/s".toList, dirEntryNow), ([], dirEntryNow)]

def wBad : World := { leaves := [{ kind := .mem, files := mBad }, { kind := .mem, files := Mem.init }] }

theorem mBad_wf : WF mBad := WF.of_check mBad (by decide)
theorem mBad_nodup : FMap.NodupKeys mBad := by unfold FMap.NodupKeys; decide

/-- a decidable sufficient check of `Canon` -/
def canonComps (k : Str) : List Str := if k = [] then [] else splitSlash (k.drop 1)

def canonB (k : Str) : Bool :=
  decide (k = renderC (canonComps k)) && (canonComps k).all (fun c => decide (GoodComp c))

theorem canon_of_check (k : Str) (h : canonB k = true) : Canon k := by
  unfold canonB at h
  rw [Bool.and_eq_true, decide_eq_true_eq, List.all_eq_true] at h
  exact ⟨canonComps k, fun c hc => by simpa using h.2 c hc, h.1⟩

theorem canon_keys (m : FMap) (h : m.keys.all canonB = true) (S : Str) :
    ∀ k e, m.find? k = some e → under S k = true → Canon k := by
  intro k e hk _
  have hmem : k ∈ m.keys := (FMap.mem_keys_iff m k).2 ⟨e, hk⟩
  exact canon_of_check k (List.all_eq_true.1 h k hmem)

theorem fresh_of_check (m : FMap) (d : Str)
    (h : (m.find? d).isNone && decide ('/' ∈ d) && isDirOpt (m.find? (parentInternal d)) = true) :
    FreshDest m d := by
  simp only [Bool.and_eq_true, Option.isNone_iff_eq_none, decide_eq_true_eq] at h
  exact ⟨h.1.1, h.1.2, isDirOpt_spec _ h.2⟩

/-- the destination leaf after copy_dir on the counterexample: `/t/d` has no bytes -/
theorem wBad_copy :
    ((at_ 0 "/s").copyDir 5 (at_ 1 "/t") wBad).2.leaf? 1 =
      some { kind := .mem, files := [("/t/d".toList, dirEntryNow), ("/t".toList, dirEntryNow),
        ([], { ftype := .dir, content := [], created := .now, modified := .unset, accessed := .unset })] } := by
  decide +kernel

/-- `CopyDirExact` as stated in C11.lean does not hold -/
theorem copyDirExact_false : ¬ CopyDirExact := by
  intro h
  obtain ⟨w', ms', md', hrun, _, hj', _, hg, _, _⟩ :=
    h wBad 0 1 mBad Mem.init 0 1 5 "/s".toList ["t".toList] rfl rfl mBad_wf WF.init_mem mBad_nodup
      (by decide) ⟨dirEntryNow, by decide, rfl⟩ (canon_keys mBad (by decide) _)
      (fresh_of_check _ _ (by decide)) (by decide) (by decide)
  have hw : w' = ((at_ 0 "/s").copyDir 5 (at_ 1 "/t") wBad).2 := (congrArg Prod.snd hrun).symm
  unfold MemLeafAt at hj'
  rw [hw, wBad_copy] at hj'
  injection hj' with hj'
  injection hj' with _ hj'
  have := hg "d".toList
  rw [← hj'] at this
  revert this
  decide

/-- the destination leaf after move_dir on the counterexample -/
theorem wBad_move :
    ((at_ 0 "/s").moveDir 5 (at_ 1 "/t") wBad).2.leaf? 1 =
      some { kind := .mem, files := [("/t/d".toList, dirEntryNow), ("/t".toList, dirEntryNow),
        ([], { ftype := .dir, content := [], created := .now, modified := .unset, accessed := .unset })] } := by
  unfold VPath.moveDir; simp only [← rmAll_eq]; decide +kernel

/-- `MoveDirExact` as stated in C11.lean does not hold -/
theorem moveDirExact_false : ¬ MoveDirExact := by
  intro h
  obtain ⟨w', ms', md', hrun, _, hj', _, _, hg, _, _⟩ :=
    h wBad 0 1 mBad Mem.init 0 1 5 "/s".toList ["t".toList] rfl rfl mBad_wf WF.init_mem mBad_nodup
      (by unfold FMap.NodupKeys; decide) (by decide) (by decide) ⟨dirEntryNow, by decide, rfl⟩
      (canon_keys mBad (by decide) _) (fresh_of_check _ _ (by decide)) (by decide) (by decide)
      (keys_bound mBad _ (by decide)) (fun h => absurd h (by decide))
  have hw : w' = ((at_ 0 "/s").moveDir 5 (at_ 1 "/t") wBad).2 := (congrArg Prod.snd hrun).symm
  unfold MemLeafAt at hj'
  rw [hw, wBad_move] at hj'
  injection hj' with hj'
  injection hj' with _ hj'
  have := hg "d".toList
  rw [← hj'] at this
  revert this
  decide

/-! ## 5. non-vacuity: a tree of depth 4 with an empty directory and siblings a / ab / a.b -/

/-- leaf 0 (storage order deliberately not sorted):
`/r/` — `a/` (`b/` (`c/` (`f` "deep")), `e/` (EMPTY), `x` (empty file)), `ab` "1", `a.b` "22";
and `/other` "o" outside the tree -/
def mN : FMap :=
  [ ("/r/a/b/c/f".toList, fileE [100, 101, 101, 112]), ("/r/ab".toList, fileE [49]),
    ("/other".toList, fileE [111]), ("/r/a/e".toList, dirEntryNow), ("/r".toList, dirEntryNow),
    ("/r/a.b".toList, fileE [50, 50]), ("/r/a/b/c".toList, dirEntryNow), ("/r/a".toList, dirEntryNow),
    ("/r/a/x".toList, fileE []), ("/r/a/b".toList, dirEntryNow), ([], dirEntryNow) ]

/-- leaf 1: `/keep` "k" -/
def mK : FMap := [("/keep".toList, fileE [107]), ([], dirEntryNow)]

def wN : World := { leaves := [{ kind := .mem, files := mN }, { kind := .mem, files := mK }] }

theorem mN_wf : WF mN := WF.of_check mN (by decide)
theorem mN_nodup : FMap.NodupKeys mN := by unfold FMap.NodupKeys; decide
theorem mK_wf : WF mK := WF.of_check mK (by decide)
theorem wN_leaf0 : MemLeafAt wN 0 mN := rfl
theorem wN_leaf1 : MemLeafAt wN 1 mK := rfl
theorem mN_canon (S : Str) : ∀ k e, mN.find? k = some e → under S k = true → Canon k :=
  canon_keys mN (by decide) S
theorem mN_bare (S : Str) : DirsBare mN S := by
  intro k e hk _
  have hmem : (k, e) ∈ mN := Wk.find?_mem mN k e hk
  revert hmem
  simp only [mN, List.mem_cons, Prod.mk.injEq, List.not_mem_nil, or_false]
  rintro (⟨_, rfl⟩ | ⟨_, rfl⟩ | ⟨_, rfl⟩ | ⟨_, rfl⟩ | ⟨_, rfl⟩ | ⟨_, rfl⟩ | ⟨_, rfl⟩ | ⟨_, rfl⟩ |
    ⟨_, rfl⟩ | ⟨_, rfl⟩ | ⟨_, rfl⟩) <;> decide

example : descendants mN "/r".toList = 8 := by decide

/-! across leaves -/
example : ((at_ 0 "/r").copyDir 9 (at_ 1 "/c") wN).1 = .ok 8 := by decide +kernel
/-- the bound `descendants < fuel` is exact: with fuel = 8 the loop runs out of fuel -/
example : ((at_ 0 "/r").copyDir 8 (at_ 1 "/c") wN).1 = .panic := by decide +kernel
example : view ((at_ 0 "/r").copyDir 9 (at_ 1 "/c") wN).2 1 =
    [("/c/a/b/c/f", .file, [100, 101, 101, 112]), ("/c/a/b/c", .dir, []), ("/c/a/b", .dir, []),
     ("/c/a/x", .file, []), ("/c/a/e", .dir, []), ("/c/a", .dir, []), ("/c/a.b", .file, [50, 50]),
     ("/c/ab", .file, [49]), ("/c", .dir, []), ("/keep", .file, [107]), ("", .dir, [])] := by
  decide +kernel
/-- the source leaf holds the same entries (types and bytes) -/
example : (view ((at_ 0 "/r").copyDir 9 (at_ 1 "/c") wN).2 0).isPerm (view wN 0) = true := by
  decide +kernel

/-! inside one leaf; and a subtree next to its siblings `ab`, `a.b` -/
example : ((at_ 0 "/r").copyDir 9 (at_ 0 "/r2") wN).1 = .ok 8 := by decide +kernel
example : (view ((at_ 0 "/r").copyDir 9 (at_ 0 "/r2") wN).2 0).isPerm
    ([("/r2/a/b/c/f", .file, [100, 101, 101, 112]), ("/r2/a/b/c", .dir, []), ("/r2/a/b", .dir, []),
      ("/r2/a/x", .file, []), ("/r2/a/e", .dir, []), ("/r2/a", .dir, []), ("/r2/a.b", .file, [50, 50]),
      ("/r2/ab", .file, [49]), ("/r2", .dir, [])] ++ view wN 0) = true := by decide +kernel
example : ((at_ 0 "/r/a").copyDir 9 (at_ 0 "/r/a2") wN).1 = .ok 5 := by decide +kernel
example : (view ((at_ 0 "/r/a").copyDir 9 (at_ 0 "/r/a2") wN).2 0).isPerm
    ([("/r/a2/b/c/f", .file, [100, 101, 101, 112]), ("/r/a2/b/c", .dir, []), ("/r/a2/b", .dir, []),
      ("/r/a2/x", .file, []), ("/r/a2/e", .dir, []), ("/r/a2", .dir, [])] ++ view wN 0) = true := by
  decide +kernel

/-! move_dir -/
example : ((at_ 0 "/r").moveDir 12 (at_ 1 "/c") wN).1 = .ok () := by
  unfold VPath.moveDir; simp only [← rmAll_eq]; decide +kernel
example : view ((at_ 0 "/r").moveDir 12 (at_ 1 "/c") wN).2 0 =
    [("/other", .file, [111]), ("", .dir, [])] := by
  unfold VPath.moveDir; simp only [← rmAll_eq]; decide +kernel
example : view ((at_ 0 "/r").moveDir 12 (at_ 1 "/c") wN).2 1 =
    [("/c/a/b/c/f", .file, [100, 101, 101, 112]), ("/c/a/b/c", .dir, []), ("/c/a/b", .dir, []),
     ("/c/a/x", .file, []), ("/c/a/e", .dir, []), ("/c/a", .dir, []), ("/c/a.b", .file, [50, 50]),
     ("/c/ab", .file, [49]), ("/c", .dir, []), ("/keep", .file, [107]), ("", .dir, [])] := by
  unfold VPath.moveDir; simp only [← rmAll_eq]; decide +kernel
example : view ((at_ 0 "/r").moveDir 12 (at_ 0 "/r2") wN).2 0 =
    [("/r2/a/b/c/f", .file, [100, 101, 101, 112]), ("/r2/a/b/c", .dir, []), ("/r2/a/b", .dir, []),
     ("/r2/a/x", .file, []), ("/r2/a/e", .dir, []), ("/r2/a", .dir, []), ("/r2/a.b", .file, [50, 50]),
     ("/r2/ab", .file, [49]), ("/r2", .dir, []), ("/other", .file, [111]), ("", .dir, [])] := by
  unfold VPath.moveDir; simp only [← rmAll_eq]; decide +kernel

/-! the hypotheses of the theorems hold on the concrete world -/

/-- `copyDir_exact_cross` instantiated: `/r` of leaf 0 to `/c` of leaf 1 -/
example : ∃ w' ms' md',
    VPath.copyDir 9 (at_ 0 "/r") { fs := leafFS 1, fsId := 1, path := renderC ["c".toList] } wN =
      (.ok (descendants mN "/r".toList), w') ∧
    MemLeafAt w' 0 ms' ∧ MemLeafAt w' 1 md' ∧ WF ms' ∧ WF md' ∧
    (∀ l, l ≠ 0 → l ≠ 1 → w'.leaf? l = wN.leaf? l) ∧
    md'.find? (renderC ["c".toList]) = some dirEntryNow ∧
    (∀ t, (md'.find? (renderC ["c".toList] ++ '/' :: t)).map core =
      (mN.find? ("/r".toList ++ '/' :: t)).map shape) ∧
    (∀ k, under (renderC ["c".toList]) k = false →
      (md'.find? k).map stripAcc = (mK.find? k).map stripAcc) ∧
    (∀ k, (ms'.find? k).map stripAcc = (mN.find? k).map stripAcc) :=
  copyDir_exact_cross (by decide) wN_leaf0 wN_leaf1 mN_wf mK_wf mN_nodup 0 1 9 "/r".toList ["c".toList]
    (by decide) ⟨dirEntryNow, by decide, rfl⟩ (mN_canon _) (fresh_of_check _ _ (by decide))
    (by decide)

/-- `copyDir_exact_same` instantiated: `/r/a` to `/r/a2` inside leaf 0 (next to `ab`, `a.b`) -/
example : ∃ w' m',
    VPath.copyDir 9 (at_ 0 "/r/a")
      { fs := leafFS 0, fsId := 0, path := renderC ["r".toList, "a2".toList] } wN =
      (.ok (descendants mN "/r/a".toList), w') ∧
    MemLeafAt w' 0 m' ∧ WF m' ∧ (∀ l, l ≠ 0 → w'.leaf? l = wN.leaf? l) ∧
    m'.find? (renderC ["r".toList, "a2".toList]) = some dirEntryNow ∧
    (∀ t, (m'.find? (renderC ["r".toList, "a2".toList] ++ '/' :: t)).map core =
      (mN.find? ("/r/a".toList ++ '/' :: t)).map shape) ∧
    (∀ k, under (renderC ["r".toList, "a2".toList]) k = false →
      (m'.find? k).map stripAcc = (mN.find? k).map stripAcc) :=
  copyDir_exact_same wN_leaf0 mN_wf mN_nodup 0 0 9 "/r/a".toList ["r".toList, "a2".toList]
    (by decide) ⟨dirEntryNow, by decide, rfl⟩ (mN_canon _) (fresh_of_check _ _ (by decide))
    (by decide) (by decide)

/-- the corrected `CopyDirExact'` applies to the concrete world (its hypotheses are satisfiable) -/
example : ∃ w' ms' md',
    VPath.copyDir 9 (at_ 0 "/r") { fs := leafFS 1, fsId := 1, path := renderC ["c".toList] } wN =
      (.ok (descendants mN "/r".toList), w') ∧
    MemLeafAt w' 0 ms' ∧ MemLeafAt w' 1 md' ∧
    (md'.find? (renderC ["c".toList])).map core = some (.dir, []) ∧
    (∀ t, (md'.find? (renderC ["c".toList] ++ '/' :: t)).map core =
      (mN.find? ("/r".toList ++ '/' :: t)).map core) ∧
    (∀ k, under (renderC ["c".toList]) k = false →
      (md'.find? k).map stripAcc = (mK.find? k).map stripAcc) ∧
    (∀ k, ((0 : Nat) = 1 → under (renderC ["c".toList]) k = false) →
      (ms'.find? k).map stripAcc = (mN.find? k).map stripAcc) :=
  copyDirExact' wN 0 1 mN mK 0 1 9 "/r".toList ["c".toList] wN_leaf0 wN_leaf1 mN_wf mK_wf mN_nodup
    (by decide) ⟨dirEntryNow, by decide, rfl⟩ (mN_canon _) (mN_bare _)
    (fresh_of_check _ _ (by decide)) (by decide) (by decide)

/-- `moveDir_exact_cross` instantiated -/
example : ∃ w' ms' md',
    VPath.moveDir 12 (at_ 0 "/r") { fs := leafFS 1, fsId := 1, path := renderC ["c".toList] } wN =
      (.ok (), w') ∧
    MemLeafAt w' 0 ms' ∧ MemLeafAt w' 1 md' ∧ WF ms' ∧ WF md' ∧
    (∀ l, l ≠ 0 → l ≠ 1 → w'.leaf? l = wN.leaf? l) ∧
    (∀ k, under "/r".toList k = true → ms'.find? k = none) ∧
    (∀ k, under "/r".toList k = false → (ms'.find? k).map stripAcc = (mN.find? k).map stripAcc) ∧
    md'.find? (renderC ["c".toList]) = some dirEntryNow ∧
    (∀ t, (md'.find? (renderC ["c".toList] ++ '/' :: t)).map core =
      (mN.find? ("/r".toList ++ '/' :: t)).map shape) ∧
    (∀ k, under (renderC ["c".toList]) k = false →
      (md'.find? k).map stripAcc = (mK.find? k).map stripAcc) :=
  moveDir_exact_cross (by decide) wN_leaf0 wN_leaf1 mN_wf mK_wf mN_nodup 0 1 12 "/r".toList ["c".toList]
    (by decide) (by decide) ⟨dirEntryNow, by decide, rfl⟩ (mN_canon _)
    (fresh_of_check _ _ (by decide)) (by decide) (keys_bound mN _ (by decide))

/-- `moveDir_exact_same` instantiated: `/r` to `/r2` inside leaf 0 -/
example : ∃ w' m',
    VPath.moveDir 12 (at_ 0 "/r") { fs := leafFS 0, fsId := 0, path := renderC ["r2".toList] } wN =
      (.ok (), w') ∧
    MemLeafAt w' 0 m' ∧ WF m' ∧ (∀ l, l ≠ 0 → w'.leaf? l = wN.leaf? l) ∧
    (∀ k, under "/r".toList k = true → m'.find? k = none) ∧
    m'.find? (renderC ["r2".toList]) = some dirEntryNow ∧
    (∀ t, (m'.find? (renderC ["r2".toList] ++ '/' :: t)).map core =
      (mN.find? ("/r".toList ++ '/' :: t)).map shape) ∧
    (∀ k, under "/r".toList k = false → under (renderC ["r2".toList]) k = false →
      (m'.find? k).map stripAcc = (mN.find? k).map stripAcc) :=
  moveDir_exact_same wN_leaf0 mN_wf mN_nodup 0 0 12 "/r".toList ["r2".toList] (by decide) (by decide)
    ⟨dirEntryNow, by decide, rfl⟩ (mN_canon _) (fresh_of_check _ _ (by decide)) (by decide)
    (by decide) (keys_bound mN _ (by decide))
    (fun k e hk _ => by
      have := keys_bound mN 12 (by decide) k e hk
      show 3 + k.length < 2 * 2 + 12
      omega)

/-- the source may be the ROOT of its filesystem (two leaves): the whole of leaf 1 under `/k2` of
leaf 0 -/
example : ((at_ 1 "").copyDir 5 (at_ 0 "/k2") wN).1 = .ok 1 := by decide +kernel
example : ∃ w' ms' md',
    VPath.copyDir 5 (at_ 1 "") { fs := leafFS 0, fsId := 0, path := renderC ["k2".toList] } wN =
      (.ok (descendants mK []), w') ∧
    MemLeafAt w' 1 ms' ∧ MemLeafAt w' 0 md' ∧ WF ms' ∧ WF md' ∧
    (∀ l, l ≠ 1 → l ≠ 0 → w'.leaf? l = wN.leaf? l) ∧
    md'.find? (renderC ["k2".toList]) = some dirEntryNow ∧
    (∀ t, (md'.find? (renderC ["k2".toList] ++ '/' :: t)).map core =
      (mK.find? ([] ++ '/' :: t)).map shape) ∧
    (∀ k, under (renderC ["k2".toList]) k = false →
      (md'.find? k).map stripAcc = (mN.find? k).map stripAcc) ∧
    (∀ k, (ms'.find? k).map stripAcc = (mK.find? k).map stripAcc) :=
  copyDir_exact_cross (by decide) wN_leaf1 wN_leaf0 mK_wf mN_wf (by unfold FMap.NodupKeys; decide)
    1 0 5 [] ["k2".toList] (by decide) ⟨dirEntryNow, by decide, rfl⟩
    (canon_keys mK (by decide) _) (fresh_of_check _ _ (by decide)) (by decide)

/-- the empty directory `/r/a/e` is copied and is empty at the destination (from the theorem, not
by evaluation) -/
example (md' : FMap)
    (h : ∀ t, (md'.find? ("/c".toList ++ '/' :: t)).map core =
      (mN.find? ("/r".toList ++ '/' :: t)).map shape) :
    ∃ e', md'.find? "/c/a/e".toList = some e' ∧ e'.ftype = .dir ∧ e'.content = [] :=
  graft_dir h "a/e".toList dirEntryNow (by decide) rfl

end Vfs.C11
