/-
  C17 for an ALTROOT over MemoryFS, under ALL interleavings — "Any number of threads calling
  create_dir_all concurrently on arbitrary, possibly overlapping paths of one filesystem (with no
  concurrent removals and no files in the way) all return success under every interleaving, and
  afterwards every requested path and each of its ancestors is a directory."

  Object: the interleaving model VfsModel/OverlayConc.lean (`Prog`, `Sys`, `step`, `run`): one
  atomic step = one `FileSystem` trait call of the in-memory leaf (`exists`, `metadata`,
  `create_dir` of MemoryFS — the linearizable calls of C16).  `AltrootFS` (src/impls/altroot.rs)
  holds no state: `create_dir(d)` = `self.path(d)?.create_dir()`, i.e. `VfsPath::create_dir` on the
  leaf path `root.join(&d[1..])` = three leaf calls (`exists(parent)`, `metadata(parent)`,
  `create_dir`); `VfsPath::create_dir_all` on an altroot path is that once per prefix, ignoring
  exactly `DirectoryExists` (`cdaWith`).  The program is `AConc.altCreateDirAll root p`
  (Proofs/AltrootConcThread.lean).

  PROVED (no sorry, no axiom beyond propext / Classical.choice / Quot.sound):

  1. THE SMALL-STEP PROGRAM IS THE MODELLED CODE (arbitrary `root`, every path string, no
     hypothesis): `small_step_is_altroot_createDirAll` :
       `(altCreateDirAll root p).run = VPath.createDirAll ⟨Altroot.fs root, id, p⟩`;
     `altroot_one_thread_alone` : one thread scheduled `callsFrom` times has returned the result of
     that shallow definition, in its final world.

  2. `altroot_create_dir_all_concurrent` : leaf `u` of the world is a memory leaf holding `m0`
     (`MemLeafAt`), `WF m0`; the altroot's root is the path `/p1/…/pn` (canonical components, n ≥ 0)
     of that leaf (`root.fs = leafFS u`, `root.path = renderC ps`) and is a directory of `m0`; any
     number of threads, thread i = `create_dir_all(renderC cs_i)` on the altroot, components of
     `cs_i` canonical (`GoodComp`: non-empty, no '/', not "." / ".."); no FILE of `m0` sits at a
     leaf key `/p1/…/pn/c1/…/cj` (j ≥ 1) of a requested prefix (`hnofile`, the "no files in the
     way" of C17).  Then for EVERY schedule, at every moment, there is a map `mu` with
       (a) `s.world = w0.setLeafFiles u mu` (all other leaves and the ghost fields untouched), the
           leaf still a memory leaf, `GrowA ps paths m0 mu` (every entry of `m0` persists unchanged;
           every new entry is a directory at a requested leaf key), `WF mu`;
       (b) every thread that has returned has returned `Ok(())`, and the root and every prefix of
           ITS path below the root is a directory of `mu`;
       (c) when all threads have finished all results are `Ok(())` and every requested prefix is a
           directory of `mu`.
     `altroot_frame` : consequence of (a): a key that is not STRICTLY below the root (not
     `renderC (ps ++ qs)`, `qs ≠ []` canonical) has in `mu` exactly what it had in `m0` (also: absent
     stays absent); `altroot_other_leaves`: the other leaves of the world are untouched.
     `altroot_sees_dirs` : (c) read through the altroot: afterwards `VfsPath::is_dir` on the
     altroot path of every requested prefix answers `Ok(true)` (run on the final world).
     Proof: the rely-guarantee calculus of Proofs/OverlayConcCalc.lean (`wpR`, `run_SInv`) with the
     relation `GrowA`, instantiated with no lower layers; one thread: `AConc.sp_altCreateDirAll`.

  4. NON-VACUITY: world `wA` (leaf 0 = {"", "/srv", "/srv/data", file "/srv/data/f", file "/x"}),
     root "/srv/data", threads `create_dir_all("/a/b")`, `create_dir_all("/a/c")` (6 leaf calls each):
     `wA_instance` instantiates (2) for every schedule; `wA_all_interleavings` : ALL C(12,6) = 924
     interleavings (`OConc.interleavings 6 6`) end with both `Ok`, "/srv/data/a", "/srv/data/a/b",
     "/srv/data/a/c" directories and the five old entries unchanged — kernel-evaluated; one
     interleaving spelled out (`wA_one`).

  `wA_file_in_the_way` : `hnofile` is needed — with a FILE at "/srv/data/a" both threads return
     `Err(FileExists)`.

  (3) of the task — the overlay theorem for layers at SUB-DIRECTORY paths — is proved in
  Props/C17OverlaySubdirConc.lean (`overlay_subdir_create_dir_all_concurrent`), by refinement +
  transfer (Proofs/OverlaySubdirConcRef.lean, OverlaySubdirConcProg.lean); the note at the end of
  this file records what in C17OverlayConc's proof is tied to root-path layers.
  NOT PROVED: anything about PhysicalFS leaves, concurrent removals / file creation, a root that is
  not canonical (".."-components in `root.path`), or requested paths with non-canonical components.
  Do not import together with Props/C17.lean (TransferLemmas / OverlayLemmas name clash).
-/
import VfsModel.Proofs.AltrootConcThread
set_option linter.unusedVariables false
set_option linter.unusedSimpArgs false
namespace Vfs.C17
open Vfs Vfs.OConc Vfs.AConc

/-! ## 1. the small-step program is the modelled code -/

/-- all calls of the small-step program, one after the other, are `VfsPath::create_dir_all` on
the altroot path — arbitrary root, every path string -/
theorem small_step_is_altroot_createDirAll (root : VPath) (id : Nat) (p : Str) :
    (altCreateDirAll root p).run
      = VPath.createDirAll { fs := Altroot.fs root, fsId := id, path := p } :=
  run_altCreateDirAll root id p

/-- one thread alone, scheduled until it has made all its calls -/
theorem altroot_one_thread_alone (root : VPath) (id : Nat) (p : Str) (w : World) :
    OConc.run (altInitSys root w [p])
        (List.replicate ((altCreateDirAll root p).callsFrom w) 0)
      = { world := (VPath.createDirAll { fs := Altroot.fs root, fsId := id, path := p } w).2,
          threads := [.done (VPath.createDirAll { fs := Altroot.fs root, fsId := id, path := p } w).1] } := by
  rw [← small_step_is_altroot_createDirAll root id p]
  exact alone_run _ w

/-! ## 2. all interleavings -/

/-- **altroot_create_dir_all_concurrent** (C17 for AltrootFS over MemoryFS, every interleaving of
leaf calls). See the header for the reading of (a), (b), (c). -/
theorem altroot_create_dir_all_concurrent (w0 : World) (u : Nat) (m0 : FMap) (root : VPath)
    (ps : List Str) (paths : List (List Str))
    (hleaf : MemLeafAt w0 u m0) (hfs : root.fs = leafFS u) (hrp : root.path = renderC ps)
    (hps : ∀ c ∈ ps, GoodComp c) (hpaths : ∀ cs ∈ paths, ∀ c ∈ cs, GoodComp c)
    (hwf : WF m0) (hrootdir : IsDirU m0 root.path)
    (hnofile : ∀ cs ∈ paths, ∀ j, 1 ≤ j → j ≤ cs.length →
      ∀ e, m0.find? (renderC (ps ++ cs.take j)) = some e → e.ftype = .dir)
    (schedule : List Nat) :
    let s := OConc.run (altInitSys root w0 (paths.map renderC)) schedule
    ∃ mu,
      -- (a)
      (s.world = w0.setLeafFiles u mu ∧ MemLeafAt s.world u mu ∧ GrowA ps paths m0 mu ∧ WF mu) ∧
      -- (b)
      (s.threads.length = paths.length ∧
       ∀ (i : Nat) (cs : List Str) (r : Res Unit), paths[i]? = some cs →
        s.results[i]? = some (some r) →
        r = .ok () ∧ ∀ j, j ≤ cs.length → IsDirU mu (renderC (ps ++ cs.take j))) ∧
      -- (c)
      (s.finished = true →
        s.results = paths.map (fun _ => some (.ok ())) ∧
        ∀ cs ∈ paths, ∀ j, j ≤ cs.length → IsDirU mu (renderC (ps ++ cs.take j))) := by
  obtain ⟨rfs, idr, rpath⟩ := root
  simp only at hfs hrp hrootdir
  subst hfs; subst hrp
  intro s
  have hown : St u 0 [] [] [] w0 m0 := .cons hleaf (by simp) .nil
  have g0 : GIA ps paths m0 := by
    rintro q ⟨cs, hcs, j, h1, h2, rfl⟩ e he
    exact hnofile cs hcs j h1 h2 e he
  let Qs : List (Res Unit → World → Prop) := paths.map fun cs => fun r w' =>
    ∃ mu', St u 0 [] [] [] w' mu' ∧ (r = .ok () ∧ DirUpTo ps cs cs.length mu')
  have hR : ∀ w, RelW u 0 [] [] [] (GrowA ps paths) w w := RelW_refl GrowA.refl
  have hT := RelW_trans (u := u) (idu := 0) (is := []) (ids := []) (ms := [])
    (Rel := GrowA ps paths) (fun _ _ _ => GrowA.trans)
  have hinit : SInv (RelW u 0 [] [] [] (GrowA ps paths)) Qs w0
      (altInitSys { fs := leafFS u, fsId := idr, path := renderC ps } w0 (paths.map renderC)) := by
    refine ⟨hR w0, by simp [altInitSys, Qs], ?_⟩
    intro i t Q ht hQ
    simp only [altInitSys, List.map_map, List.getElem?_map] at ht
    simp only [Qs, List.getElem?_map] at hQ
    cases hpi : paths[i]? with
    | none => simp [hpi] at ht
    | some cs =>
      simp only [hpi, Option.map_some, Option.some.injEq, Function.comp] at ht hQ
      subst ht; subst hQ
      exact sp_altCreateDirAll idr hps hpaths cs (List.mem_of_getElem? hpi) m0 g0 hrootdir w0 hown
  have hinv : SInv (RelW u 0 [] [] [] (GrowA ps paths)) Qs w0 s :=
    run_SInv hR hT Qs w0 _ schedule hinit
  obtain ⟨mu, hw, hev⟩ := hinv.rel m0 hown
  have hst : St u 0 [] [] [] s.world mu := by rw [hw]; exact hown.setHead mu
  have hlen : s.threads.length = paths.length := by rw [hinv.len]; simp [Qs]
  have hb : ∀ (i : Nat) (cs : List Str) (r : Res Unit), paths[i]? = some cs →
      s.results[i]? = some (some r) →
      r = .ok () ∧ ∀ j, j ≤ cs.length → IsDirU mu (renderC (ps ++ cs.take j)) := by
    intro i cs r hpi hres
    simp only [Sys.results, List.getElem?_map] at hres
    cases hti : s.threads[i]? with
    | none => simp [hti] at hres
    | some t =>
      simp only [hti, Option.map_some, Option.some.injEq] at hres
      cases t with
      | done r' =>
        simp only [Prog.result?, Option.some.injEq] at hres
        subst hres
        have hQ : Qs[i]? = some (fun r w' =>
            ∃ mu', St u 0 [] [] [] w' mu' ∧ (r = .ok () ∧ DirUpTo ps cs cs.length mu')) := by
          simp [Qs, hpi]
        obtain ⟨mu', hst', hr, hvis⟩ := wpR_done hR _ _ _ (hinv.thr i _ _ hti hQ)
        have := St.unique hst hst'
        subst this
        exact ⟨hr, hvis⟩
      | exists_ _ _ _ => simp [Prog.result?] at hres
      | metadata _ _ _ => simp [Prog.result?] at hres
      | createDir _ _ _ => simp [Prog.result?] at hres
      | removeFile _ _ _ => simp [Prog.result?] at hres
  refine ⟨mu, ⟨hw, OWN.hu hst, hev, hev.wf hwf⟩, ⟨hlen, hb⟩, ?_⟩
  intro hfin
  have hall : ∀ (i : Nat) (cs : List Str), paths[i]? = some cs →
      s.results[i]? = some (some (.ok ())) ∧
      ∀ j, j ≤ cs.length → IsDirU mu (renderC (ps ++ cs.take j)) := by
    intro i cs hpi
    have hlt : i < s.threads.length := by rw [hlen]; exact (List.getElem?_eq_some_iff.1 hpi).1
    have hti : s.threads[i]? = some s.threads[i] := List.getElem?_eq_getElem hlt
    have hsome : (s.threads[i]).result?.isSome = true := by
      have := List.all_eq_true.1 hfin s.threads[i] (List.getElem_mem hlt)
      simpa using this
    obtain ⟨r, hr⟩ := Option.isSome_iff_exists.1 hsome
    have hres : s.results[i]? = some (some r) := by
      simp [Sys.results, hti, hr]
    obtain ⟨hok, hd⟩ := hb i cs r hpi hres
    subst hok
    exact ⟨hres, hd⟩
  refine ⟨?_, ?_⟩
  · apply List.ext_getElem?
    intro i
    cases hpi : paths[i]? with
    | none =>
      have : paths.length ≤ i := by
        rcases Nat.lt_or_ge i paths.length with h | h
        · rw [List.getElem?_eq_getElem h] at hpi; cases hpi
        · exact h
      simp [Sys.results, hpi, List.getElem?_eq_none (by rw [hlen]; exact this)]
    | some cs => rw [(hall i cs hpi).1]; simp [hpi]
  · intro cs hcs
    obtain ⟨i, hi⟩ := List.mem_iff_getElem?.1 hcs
    exact (hall i cs hi).2

/-- nothing outside the subtree strictly below the root changed (consequence of (a)): such a key
holds in `mu` exactly what it held in `m0` -/
theorem altroot_frame {ps : List Str} {paths : List (List Str)} {m0 mu : FMap}
    (hpaths : ∀ cs ∈ paths, ∀ c ∈ cs, GoodComp c) (h : GrowA ps paths m0 mu) (k : Str)
    (hk : ¬ ∃ qs : List Str, qs ≠ [] ∧ (∀ c ∈ qs, GoodComp c) ∧ k = renderC (ps ++ qs)) :
    mu.find? k = m0.find? k := by
  rcases Option.eq_none_or_eq_some (mu.find? k) with hf | ⟨e, hf⟩
  · rcases Option.eq_none_or_eq_some (m0.find? k) with h0 | ⟨e0, h0⟩
    · rw [hf, h0]
    · rw [h.keeps k e0 h0] at hf; cases hf
  · rcases h.news k e hf with h0 | ⟨_, cs, hcs, j, h1, h2, rfl⟩
    · rw [hf, h0]
    · exact absurd ⟨cs.take j, take_ne_nil h1 h2,
        fun c hc => hpaths cs hcs c (List.mem_of_mem_take hc), rfl⟩ hk

/-- inside the subtree too, every old entry is still there, unchanged -/
theorem altroot_keeps {ps : List Str} {paths : List (List Str)} {m0 mu : FMap}
    (h : GrowA ps paths m0 mu) (k : Str) (e : Entry) (hk : m0.find? k = some e) :
    mu.find? k = some e := h.keeps k e hk

/-- the other leaves and the ghost fields never change (consequence of (a)) -/
theorem altroot_other_leaves (w0 : World) (u : Nat) (mu : FMap) (i : Nat) (hi : i ≠ u) :
    (w0.setLeafFiles u mu).leaf? i = w0.leaf? i ∧ (w0.setLeafFiles u mu).log = w0.log ∧
    (w0.setLeafFiles u mu).fault = w0.fault ∧ (w0.setLeafFiles u mu).fired = w0.fired :=
  ⟨World.leaf?_setLeafFiles_ne w0 u i mu (fun h => hi h.symm), rfl, rfl, rfl⟩

/-- a directory of the leaf below the root is a directory for the altroot: `VfsPath::is_dir` on
the altroot path answers `Ok(true)` and leaves the world as it is -/
theorem altroot_isDir_of_leaf (w : World) (u : Nat) (mu : FMap) (root : VPath) (ps qs : List Str)
    (id : Nat) (hleaf : MemLeafAt w u mu) (hfs : root.fs = leafFS u) (hrp : root.path = renderC ps)
    (hps : ∀ c ∈ ps, GoodComp c) (hqs : ∀ c ∈ qs, GoodComp c)
    (hd : IsDirU mu (renderC (ps ++ qs))) :
    VPath.isDir { fs := Altroot.fs root, fsId := id, path := renderC qs } w = (.ok true, w) := by
  obtain ⟨rfs, idr, rpath⟩ := root
  simp only at hfs hrp
  subst hfs; subst hrp
  obtain ⟨e, he, hdd⟩ := hd
  have hpath := Altroot.path_renderC { fs := leafFS u, fsId := idr, path := renderC ps } ps qs rfl
    hps hqs
  have hex : (Altroot.fs { fs := leafFS u, fsId := idr, path := renderC ps }).exists_ (renderC qs) w
      = (.ok true, w) := by
    simp only [Altroot.fs, hpath, VPath.exists_, VPath.withStr]
    rw [run_exists hleaf, contains_of_find he]
  have hmd : (Altroot.fs { fs := leafFS u, fsId := idr, path := renderC ps }).metadata (renderC qs) w
      = (.ok e.meta, w) := by
    show (M.ret (Altroot.path _ (renderC qs)) >>= fun q => q.metadata) w = _
    rw [hpath]
    show VPath.metadata _ w = _
    simp only [VPath.metadata, VPath.withStr, M.withPath, run_metadata hleaf, Mem.metadata, he,
      Res.withPath]
  unfold VPath.isDir
  simp only [bind, M.bind, VPath.exists_, hex, VPath.metadata, M.withPath, hmd, Res.withPath,
    Bool.not_true, Bool.false_eq_true, ↓reduceIte, pure, M.pure, Entry.meta, hdd, decide_true]

/-- (c) seen through the altroot: when all threads have finished, `is_dir` on the altroot path of
every requested prefix answers `Ok(true)` in the final world -/
theorem altroot_sees_dirs (w0 : World) (u : Nat) (m0 : FMap) (root : VPath)
    (ps : List Str) (paths : List (List Str))
    (hleaf : MemLeafAt w0 u m0) (hfs : root.fs = leafFS u) (hrp : root.path = renderC ps)
    (hps : ∀ c ∈ ps, GoodComp c) (hpaths : ∀ cs ∈ paths, ∀ c ∈ cs, GoodComp c)
    (hwf : WF m0) (hrootdir : IsDirU m0 root.path)
    (hnofile : ∀ cs ∈ paths, ∀ j, 1 ≤ j → j ≤ cs.length →
      ∀ e, m0.find? (renderC (ps ++ cs.take j)) = some e → e.ftype = .dir)
    (schedule : List Nat) (id : Nat)
    (hfin : (OConc.run (altInitSys root w0 (paths.map renderC)) schedule).finished = true) :
    ∀ cs ∈ paths, ∀ j, j ≤ cs.length →
      VPath.isDir { fs := Altroot.fs root, fsId := id, path := renderC (cs.take j) }
          (OConc.run (altInitSys root w0 (paths.map renderC)) schedule).world
        = (.ok true, (OConc.run (altInitSys root w0 (paths.map renderC)) schedule).world) := by
  obtain ⟨mu, ⟨_, hl, _, _⟩, _, hc⟩ := altroot_create_dir_all_concurrent w0 u m0 root ps paths hleaf
    hfs hrp hps hpaths hwf hrootdir hnofile schedule
  intro cs hcs j hj
  exact altroot_isDir_of_leaf _ u mu root ps (cs.take j) id hl hfs hrp hps
    (fun c hc => hpaths cs hcs c (List.mem_of_mem_take hc)) ((hc hfin).2 cs hcs j hj)

/-! ## 4. the example -/

def fileOfA (b : Bytes) : Entry := { fileEntryNow with content := b }
def kSrv : Str := ['/', 's', 'r', 'v']
def kData : Str := kSrv ++ ['/', 'd', 'a', 't', 'a']
def kF : Str := kData ++ ['/', 'f']
def kX : Str := ['/', 'x']
def kA : Str := kData ++ ['/', 'a']
def kAB : Str := kA ++ ['/', 'b']
def kAC : Str := kA ++ ['/', 'c']

/-- leaf 0: "/srv/data" (the altroot's root) with a file in it, a file "/x" outside -/
def mA : FMap :=
  [(kF, fileOfA [49]), (kData, dirEntryNow), (kSrv, dirEntryNow), (kX, fileOfA [50]), ([], dirEntryNow)]
def wA : World := { leaves := [{ kind := .mem, files := mA }] }
def rootA : VPath := { fs := leafFS 0, fsId := 3, path := kData }
def psA : List Str := [['s', 'r', 'v'], ['d', 'a', 't', 'a']]
def pathsA : List (List Str) := [[['a'], ['b']], [['a'], ['c']]]
def pAB : Str := ['/', 'a', '/', 'b']
def pAC : Str := ['/', 'a', '/', 'c']

example : pathsA.map renderC = [pAB, pAC] := by decide
example : renderC psA = kData := by decide

/-- T0 = `create_dir_all("/a/b")`, T1 = `create_dir_all("/a/c")` on `AltrootFS::new("/srv/data")` -/
def sA : Sys := altInitSys rootA wA [pAB, pAC]

/-- both threads returned `Ok(())`; "/srv/data/a", "/srv/data/a/b", "/srv/data/a/c" are
directories of the leaf; the five old entries are as before; eight entries in all -/
def goodA (s : Sys) : Bool :=
  s.results = [some (.ok ()), some (.ok ())] &&
  (s.world.leaves.map fun l => ([kA, kAB, kAC].map fun q => (l.files.find? q).map (·.ftype))) ==
    [[some .dir, some .dir, some .dir]] &&
  (s.world.leaves.map fun l => mA.all fun (k, e) => l.files.find? k == some e) == [true] &&
  (s.world.leaves.map fun l => l.files.length) == [8]

theorem mA_wf : WF mA := by
  refine ⟨⟨dirEntryNow, by decide, rfl⟩, ?_⟩
  intro k e hk hne
  have hmem : k = kF ∨ k = kData ∨ k = kSrv ∨ k = kX ∨ k = [] := by
    have h1 : k ∈ FMap.keys mA := (FMap.mem_keys_iff _ _).2 ⟨e, hk⟩
    have h2 : FMap.keys mA = [kF, kData, kSrv, kX, []] := by decide
    rw [h2] at h1
    simpa using h1
  rcases hmem with rfl | rfl | rfl | rfl | rfl
  · exact ⟨by decide, dirEntryNow, by decide, rfl⟩
  · exact ⟨by decide, dirEntryNow, by decide, rfl⟩
  · exact ⟨by decide, dirEntryNow, by decide, rfl⟩
  · exact ⟨by decide, dirEntryNow, by decide, rfl⟩
  · exact absurd rfl hne

theorem pathsA_good : ∀ cs ∈ pathsA, ∀ c ∈ cs, GoodComp c := by decide

/-- the hypotheses of `altroot_create_dir_all_concurrent` hold in `wA`: the theorem instantiated,
for EVERY schedule -/
theorem wA_instance (schedule : List Nat) :
    ∃ mu, (OConc.run sA schedule).world = wA.setLeafFiles 0 mu ∧ GrowA psA pathsA mA mu ∧ WF mu ∧
      mu.find? kX = some (fileOfA [50]) ∧ mu.find? kF = some (fileOfA [49]) ∧
      (∀ (i : Nat) (r : Res Unit), i < 2 → (OConc.run sA schedule).results[i]? = some (some r) →
        r = .ok ()) ∧
      ((OConc.run sA schedule).finished = true →
        (OConc.run sA schedule).results = [some (.ok ()), some (.ok ())] ∧
        ∀ q ∈ [kData, kA, kAB, kAC], IsDirU mu q) := by
  have hnofile : ∀ cs ∈ pathsA, ∀ j, 1 ≤ j → j ≤ cs.length →
      ∀ e, mA.find? (renderC (psA ++ cs.take j)) = some e → e.ftype = .dir := by
    intro cs hcs j h1 h2 e he
    simp only [pathsA, List.mem_cons, List.not_mem_nil, or_false] at hcs
    have hnone : mA.find? (renderC (psA ++ cs.take j)) = none := by
      rcases hcs with rfl | rfl
      · have : j = 1 ∨ j = 2 := by simp at h2; omega
        rcases this with rfl | rfl <;> decide
      · have : j = 1 ∨ j = 2 := by simp at h2; omega
        rcases this with rfl | rfl <;> decide
    rw [hnone] at he; cases he
  obtain ⟨mu, ⟨hw, _, hev, hwf⟩, ⟨_, hb⟩, hc⟩ := altroot_create_dir_all_concurrent wA 0 mA rootA
    psA pathsA rfl rfl (by decide) (by decide) pathsA_good mA_wf ⟨dirEntryNow, by decide, rfl⟩
    hnofile schedule
  refine ⟨mu, hw, hev, hwf, hev.keeps _ _ (by decide), hev.keeps _ _ (by decide), ?_, ?_⟩
  · intro i r hi hres
    have h2 : i = 0 ∨ i = 1 := by omega
    rcases h2 with rfl | rfl
    · exact (hb 0 _ r rfl hres).1
    · exact (hb 1 _ r rfl hres).1
  · intro hfin
    obtain ⟨h1, h2⟩ := hc hfin
    refine ⟨h1, ?_⟩
    intro q hq
    simp only [List.mem_cons, List.not_mem_nil, or_false] at hq
    rcases hq with rfl | rfl | rfl | rfl
    · exact h2 [['a'], ['b']] (by simp [pathsA]) 0 (by omega)
    · exact h2 [['a'], ['b']] (by simp [pathsA]) 1 (by simp)
    · exact h2 [['a'], ['b']] (by simp [pathsA]) 2 (by simp)
    · exact h2 [['a'], ['c']] (by simp [pathsA]) 2 (by simp)

/-! ### kernel-evaluated schedules -/

/-- each thread makes 6 leaf calls when it runs alone from `wA` -/
example : (altCreateDirAll rootA pAB).callsFrom wA = 6 ∧
    (altCreateDirAll rootA pAC).callsFrom wA = 6 := by decide +kernel

/-- one interleaving spelled out: both probe the parent of "/a", T1 creates "/srv/data/a" first, T0
gets `DirectoryExists` for it and goes on -/
theorem wA_one : goodA (OConc.run sA [0, 1, 0, 1, 1, 0, 0, 1, 0, 1, 1, 0]) = true := by
  decide +kernel

/-- under that interleaving T0's third call (the `create_dir("/srv/data/a")` of the leaf) comes
after T1's -/
example : ((OConc.run sA [0, 1, 0, 1]).threads.map Prog.label) = ["create_dir", "create_dir"] := by
  decide +kernel

example : (interleavings 6 6).length = 924 := by decide +kernel

set_option maxRecDepth 100000 in
/-- ALL interleavings of the two threads' 6 + 6 leaf calls end well -/
theorem wA_all_interleavings :
    (interleavings 6 6).all (fun sc => goodA (OConc.run sA sc)) = true := by
  decide +kernel

/-- `hnofile` is needed: a FILE at the leaf key "/srv/data/a" of a requested prefix makes both
threads fail (run one after the other) -/
def wAbad : World := { leaves := [{ kind := .mem, files := (kA, fileOfA []) :: mA }] }

theorem wA_file_in_the_way :
    (OConc.run (altInitSys rootA wAbad [pAB, pAC]) (List.replicate 6 0 ++ List.replicate 6 1)).results
      = [some (.err .fileExists (some ['/', 'a'])), some (.err .fileExists (some ['/', 'a']))] := by
  decide +kernel

/-
  NOTE on (3), the overlay over SUB-DIRECTORY layers (`layers = [⟨leafFS 1, "/layers/up"⟩,
  ⟨leafFS 0, "/low"⟩]`): what in the proof of `overlay_create_dir_all_concurrent` is tied to
  root-path layers.
  * The calculus (Proofs/OverlayConcCalc.lean: `wpR`, `SInv`, `run_SInv`, `St`/`OWN`, `RelW`, `WP`
    and all `WP_*` rules) speaks about leaf INDICES and leaf maps only; it does not mention layer
    paths and is reused unchanged above (with no lower layers).  Likewise part A
    (`small_step_is_createDirAll`) is for arbitrary layers.
  * Tied to root paths: `layersN` (Proofs/OverlayNLemmas.lean) builds `⟨leafFS i, id, ""⟩`, and the
    five path computations `join_leafRoot`, `whiteoutPath_layersN`, `writeLayer_layersN`,
    `writePath_layersN(_any)`, `writePath_root` rewrite `layer.join(&p[1..])` to the overlay path
    ITSELF (`renderC cs`) resp. `marker (renderC cs)`.  Consequently every assertion of
    Proofs/OverlayConcInv.lean / OverlayConcThread.lean (`Req`, `Evolve`, `GI`, `VisDir`, `Found`,
    `firstPath`, `viewN`, `firstN`, `marker`) uses ONE key for a path in every layer.  With
    layer i at `/b_i` the key of overlay path `q = renderC cs` in layer i is `renderC (b_i ++ cs)`
    and its marker key is `renderC (b_u ++ ".whiteout" :: …)`; `viewN`/`firstN` over the maps
    `ms` must become the view over the re-rooted maps (`k ↦ m_i.find? (renderC b_i ++ k)`), and
    `GI.root`/`RootOk` ("" is a directory) must become "`renderC b_i` is a directory of layer i".
    Two routes: (i) restate `Evolve`/`GI`/`VisDir` over the re-rooted write-layer map and reprove
    the `sp_*` lemmas with shifted path lemmas; (ii) keep the thread proof as it is and TRANSFER
    its `wpR` specification: the program over sub-directory layers refines the program over root
    layers call for call (same calls at keys `base ++ k`), except that `vCreateDirAll` on the write
    path `/b_u/c1/…` ALSO issues `create_dir` for the prefixes of the base, which answer
    `DirectoryExists` and change nothing (needs: the base and its ancestors are directories and
    stay so — `CInv`, kept because nothing outside the base's subtree changes, `Out`), and error
    paths are labelled differently (ignored by `RR`).  The re-rooting `m ↦ sub (renderC b) m`
    commutes with `exists`/`metadata`/`create_dir`/`remove_file` at canonical keys below `b`
    (Proofs/SubtreeSim.lean).  Route (ii) is carried out in Proofs/OverlaySubdirConcRef.lean
    (`Ref`, `transfer`), Proofs/OverlaySubdirConcProg.lean (`ref_createDirAll`) and
    Props/C17OverlaySubdirConc.lean (`overlay_subdir_create_dir_all_concurrent`).
-/

end Vfs.C17

#print axioms Vfs.C17.small_step_is_altroot_createDirAll
#print axioms Vfs.C17.altroot_one_thread_alone
#print axioms Vfs.C17.altroot_create_dir_all_concurrent
#print axioms Vfs.C17.altroot_frame
#print axioms Vfs.C17.altroot_sees_dirs
#print axioms Vfs.C17.wA_instance
#print axioms Vfs.C17.wA_one
#print axioms Vfs.C17.wA_all_interleavings
#print axioms Vfs.C17.wA_file_in_the_way
