/-
  C01 for overlays whose layers are SUB-DIRECTORIES `P_k` of pairwise distinct memory leaves
  (`OverlayFS::new(&[root_a.join("up")?, root_b.join("lo")?])`: `subLayers`) or ALTROOTS rooted
  there (`altLayers`): the operation contract `VContract` of Props/C09Contract.lean, for the
  MUTATORS (Props/C09Subdir.lean and C07Subtree.lean transfer the observers only), relative to the
  union view of the SUB-MAPS  `oview (sub Pu mu :: zipWith sub Ps ms)`.

  SETTING (as in Props/C09Subdir.lean): `SubSpec spec (u :: is) (idr :: idrs) (idu :: ids)
  (Pu :: Ps)` (leaf `i_k` is re-rooted at the canonical directory `P_k`), `RSub spec w1 w2` (the
  companion world `w2` holds the sub-maps; it exists for every world whose leaves have canonical
  keys below `P_k` and directories above: `C07.rsub_of_leaf`), `OWN w1 (u :: is) (idu :: ids)
  (mu :: ms)` (the leaves are pairwise distinct memory leaves holding `mu :: ms`). Invariants
  `OInv (sub Pu mu) (zipWith sub Ps ms)`, `ViewWF (oview (sub Pu mu :: zipWith sub Ps ms))` about
  the SUB-maps; per call `OpOK op`, `O3Free`.

  PROVED (no sorry; axioms propext, Classical.choice, Quot.sound)
   * `sim_ostep`, `sim_vstep`: related filesystems (`SimFS`) give related mutator calls, at the
     trait level and through the `VfsPath` layer (any relation, any handle relation).
   * `own_of_sub`: the converse of `C07.own_sub`.
   * `contract_transfer`: the core — a run equation + `OWN` + `VContract` for the right-hand
     computation yields the outcome (same class), `OWN` and `VContract` for the left-hand one;
     generic in a relation `R'` that implies `RSub spec`.
   * MAIN THEOREMS (`SubContractF`): `overlay_contractN_subdir`, `overlay_contractN_altroot`
     (trait level, `ostep`) and `vpath_overlay_contractN_subdir`, `vpath_overlay_contractN_altroot`
     (user level, `vstep`, any `fsId`): every mutator on a disciplined path
       - obeys `VContract` relative to the view of the sub-maps,
       - ends in a world that is again in the setting (`OWN`, a companion world `RSub`, `OInv`
         and `ViewWF` of the sub-maps), the lower SUB-maps unchanged (append: `LowerSame`),
       - and the FRAME `OutSame (Pu :: Ps) (mu :: ms) (mu' :: ms')`: in every layer leaf every key
         that is NOT at or below `P_k` (`stripP P_k key = none`) keeps its entry.
     The frame comes from the simulations STRENGTHENED by the unary invariant `OutsideAll`
     (Proofs/OverlayFrameSub.lean: altroot layers; Proofs/OverlayFrameSubdir.lean: sub-directory
     layers), instantiated with the files of the initial world (`outsideAll_init`).
     `…_view` variants: the same without the frame, over the plain relation `RSub spec`.
   * non-vacuity on the two-leaf world of Props/C07Subtree.lean ("/up" of leaf 0 over "/lo" of
     leaf 1, with "/junk" outside both): all hypotheses discharged, the theorems instantiated, a
     run `decide`-checked.
  HYPOTHESES: the setting above; altroot layers additionally `(idu :: ids).Nodup` (pairwise distinct
  layer identities, as `C07.overlay_over_subtrees`).
  NOT PROVED: error LABELS are not compared (the two sides label with different strings: `P ++ q`
  vs `q`); leaves other than the layer leaves are not mentioned by `OutSame` (they are related by
  `RSub` as `free` leaves: equal to the companion world's); physical leaves; `create_dir("")` /
  `remove_dir("")` of the overlay root (excluded by `OpOK`); that a companion world exists is a
  hypothesis (`RSub spec w1 w2`; `C07.rsub_of_leaf` builds it for one leaf, the concrete world
  exhibits it for two).
-/
import VfsModel.Props.C01Overlay
import VfsModel.Props.C09Subdir
import VfsModel.Proofs.OverlayFrameSubdir
set_option linter.unusedSimpArgs false
set_option linter.unusedVariables false
set_option linter.unusedSectionVars false
namespace Vfs.C01
open Vfs Vfs.Overlay Vfs.C02 Vfs.C09 Vfs.C07 Vfs.Frm

/-! ### related filesystems give related mutator calls -/

section sim
variable {R : World → World → Prop} {PR : Option Str → Option Str → Prop}
  {H : WHandle → WHandle → Prop} [ReflPR PR] {fs1 fs2 : FS}

theorem sim_ostep (hfs : SimFS R PR H fs1 fs2) (hh : SimHandles R PR H) (op : Mut)
    (hc : Canon op.path) (hne : op.path ≠ []) :
    SimM R PR (· = ·) (ostep fs1 op) (ostep fs2 op) := by
  cases op with
  | createDir p => exact hfs.base.createDir p hc hne
  | write p bs =>
    exact SimM.bind (hfs.base.createFile p hc) fun _ _ hw => VPath.sim_writeAllAndDrop hh hw bs
  | append p bs =>
    exact SimM.bind (hfs.base.appendFile p hc) fun _ _ hw => VPath.sim_writeAllAndDrop hh hw bs
  | removeFile p => exact hfs.base.removeFile p hc
  | removeDir p => exact hfs.base.removeDir p hc hne

theorem sim_vstep (hfs : SimFS R PR H fs1 fs2) (hh : SimHandles R PR H) (id : Nat) (op : Mut)
    (hc : Canon op.path) (hne : op.path ≠ []) :
    SimM R PR (· = ·) (vstep fs1 id op) (vstep fs2 id op) := by
  have hv : SimVPath R PR H ⟨fs1, id, op.path⟩ ⟨fs2, id, op.path⟩ := ⟨hfs, rfl, rfl, hc⟩
  cases op with
  | createDir p => exact VPath.sim_createDir hv hne
  | write p bs => exact VPath.sim_writeSession hh hv bs
  | append p bs => exact VPath.sim_appendSession hh hv bs
  | removeFile p => exact VPath.sim_removeFile hv
  | removeDir p => exact VPath.sim_removeDir hv hne

end sim

theorem opOK_canon {op : Mut} (hop : OpOK op) : Canon op.path ∧ op.path ≠ [] := by
  obtain ⟨ds, n, hp, hpath⟩ := hop
  rw [hpath]
  exact ⟨⟨ds ++ [n], hp.good, rfl⟩, renderC_ne_nil hp.ne⟩

/-- related outcomes of the same class satisfy the same contract -/
theorem _root_.Vfs.C09.VContract.of_relRes {v v' : View} {op : Mut} {r1 r2 : Res Unit}
    {PR : Option Str → Option Str → Prop} (h : VContract v op r2 v')
    (hrel : RelRes PR (· = ·) r1 r2) : VContract v op r1 v' :=
  h.congr hrel.isOk_eq hrel.kind_eq (fun h0 => by subst h0; cases hrel; rfl)

/-! ### the setting, backwards -/

/-- the converse of `C07.own_sub`: when the companion world is in the setting `OWN`, so is the
left world, and the maps of the companion world are the sub-maps -/
theorem own_of_sub {spec : Nat → Role} {is idrs ids : List Nat} {Ps : List Str} {w1 w2 : World}
    (h : SubSpec spec is idrs ids Ps) (hr : RSub spec w1 w2) {ms2 : List FMap}
    (hown : OWN w2 is ids ms2) : ∃ ms1, OWN w1 is ids ms1 ∧ ms2 = List.zipWith sub Ps ms1 := by
  induction h generalizing ms2 with
  | nil => cases hown; exact ⟨[], .nil, rfl⟩
  | @cons i idr id P is idrs ids Ps hi hP _ ih =>
    cases hown with
    | @cons _ _ m0 _ _ _ hm hni hrest =>
      obtain ⟨m1, a1, a2, _⟩ := hr.leafAt hi
      have : sub P m1 = m0 := by
        unfold MemLeafAt at a2 hm
        rw [a2] at hm
        injection hm with hm
        injection hm with _ hm
      subst this
      obtain ⟨ms1, hown1, rfl⟩ := ih hrest
      exact ⟨m1 :: ms1, .cons a1 hni hown1, rfl⟩

/-! ### the frame: outside the `P_k` nothing changes -/

/-- layer by layer: every key that is not at or below `P_k` has the same entry in both maps -/
def OutSame : List Str → List FMap → List FMap → Prop
  | P :: Ps, m :: ms, m' :: ms' =>
    (∀ k, stripP P k = none → m'.find? k = m.find? k) ∧ OutSame Ps ms ms'
  | _, _, _ => True

theorem OutSame.refl (Ps : List Str) (ms : List FMap) : OutSame Ps ms ms := by
  induction Ps generalizing ms with
  | nil => cases ms <;> trivial
  | cons P Ps ih =>
    cases ms with
    | nil => trivial
    | cons m ms => exact ⟨fun _ _ => rfl, ih ms⟩

theorem OutSame.trans {Ps : List Str} {a b c : List FMap} (hl : a.length = b.length)
    (h1 : OutSame Ps a b) (h2 : OutSame Ps b c) : OutSame Ps a c := by
  induction Ps generalizing a b c with
  | nil => cases a <;> cases c <;> trivial
  | cons P Ps ih =>
    cases a with
    | nil => trivial
    | cons x a =>
      cases c with
      | nil => trivial
      | cons z c =>
        cases b with
        | nil => simp at hl
        | cons y b =>
          exact ⟨fun k hk => by rw [h2.1 k hk, h1.1 k hk], ih (by simpa using hl) h1.2 h2.2⟩

/-! ### the core of the transfer -/

/-- **transfer of one contract-respecting call along a simulation.** `R'` is any relation that
implies `RSub spec` (e.g. `RSub spec` itself, or `RSub spec` strengthened by a unary invariant of
the left world). If the right-hand computation runs to `(r2, w2')` in the setting `OWN` and obeys
`VContract v op r2 v'`, then the left-hand computation ends in a related world that is in the
setting with maps whose SUB-maps are the right-hand maps, with an outcome of the same class, and
obeys the same contract. -/
theorem contract_transfer {spec : Nat → Role} {R' : World → World → Prop}
    (hR' : ∀ a b, R' a b → RSub spec a b) {PR : Option Str → Option Str → Prop}
    {is idrs ids : List Nat} {Ps : List Str} (h : SubSpec spec is idrs ids Ps)
    {m1 m2 : M Unit} (hsim : SimM R' PR (· = ·) m1 m2) {w1 w2 w2' : World} (hr : R' w1 w2)
    {r2 : Res Unit} (hrun : m2 w2 = (r2, w2')) {ms2 : List FMap} (hown2 : OWN w2' is ids ms2)
    {v v' : View} {op : Mut} (hc : VContract v op r2 v') :
    ∃ r1 w1' ms1, m1 w1 = (r1, w1') ∧ R' w1' w2' ∧ OWN w1' is ids ms1 ∧
      ms2 = List.zipWith sub Ps ms1 ∧ RelRes PR (· = ·) r1 r2 ∧ VContract v op r1 v' := by
  obtain ⟨hrel, hr'⟩ := hsim w1 w2 hr
  rw [hrun] at hrel hr'
  obtain ⟨ms1, hown1, hms⟩ := own_of_sub h (hR' _ _ hr') hown2
  exact ⟨(m1 w1).1, (m1 w1).2, ms1, rfl, hr', hown1, hms, hrel, hc.of_relRes hrel⟩

theorem zipWith_sub_cons_inv {Pu : Str} {Ps : List Str} {mu2 : FMap} {ms2 ms1 : List FMap}
    (h : mu2 :: ms2 = List.zipWith sub (Pu :: Ps) ms1) :
    ∃ mu' ms', ms1 = mu' :: ms' ∧ mu2 = sub Pu mu' ∧ ms2 = List.zipWith sub Ps ms' := by
  cases ms1 with
  | nil => simp at h
  | cons mu' ms' =>
    simp only [List.zipWith_cons_cons, List.cons.injEq] at h
    exact ⟨mu', ms', rfl, h.1, h.2⟩

/-- the statement shared by the four theorems below: the call `m1` on the left world obeys the
contract relative to the view of the sub-maps, and ends in the setting again -/
def SubContract (spec : Nat → Role) (R' : World → World → Prop) (is ids : List Nat) (Pu : Str)
    (Ps : List Str) (mu : FMap) (ms : List FMap) (op : Mut) (m1 : M Unit) (w1 : World) : Prop :=
  ∃ r w1' w2' mu' ms',
    m1 w1 = (r, w1') ∧ OWN w1' is ids (mu' :: ms') ∧ R' w1' w2' ∧
    LowerSame (List.zipWith sub Ps ms) (List.zipWith sub Ps ms') ∧
    ((∀ p bs, op ≠ .append p bs) → List.zipWith sub Ps ms' = List.zipWith sub Ps ms) ∧
    OInv (sub Pu mu') (List.zipWith sub Ps ms') ∧
    ViewWF (oview (sub Pu mu' :: List.zipWith sub Ps ms')) ∧
    VContract (oview (sub Pu mu :: List.zipWith sub Ps ms)) op r
      (oview (sub Pu mu' :: List.zipWith sub Ps ms'))

section transferred
variable {spec : Nat → Role} {R' : World → World → Prop} (hR' : ∀ a b, R' a b → RSub spec a b)
  {u idr idu : Nat} {Pu : Str} {is idrs ids : List Nat} {Ps : List Str}
  (h : SubSpec spec (u :: is) (idr :: idrs) (idu :: ids) (Pu :: Ps))
  {w1 w2 : World} (hr : R' w1 w2) {mu : FMap} {ms : List FMap}
  (hown : OWN w1 (u :: is) (idu :: ids) (mu :: ms))
  (inv : OInv (sub Pu mu) (List.zipWith sub Ps ms))
  (hv : ViewWF (oview (sub Pu mu :: List.zipWith sub Ps ms)))
include hR' h hr hown inv hv

/-- trait level: any filesystem `fs1` whose `ostep` is simulated by the overlay over the roots -/
theorem subContract_ostep {PR : Option Str → Option Str → Prop} {fs1 : FS} (op : Mut)
    (hop : OpOK op) (hdisc : O3Free (oview (sub Pu mu :: List.zipWith sub Ps ms)) op)
    (hsim : SimM R' PR (· = ·) (ostep fs1 op)
      (ostep (Overlay.fs (layersN (u :: is) (idu :: ids))) op)) :
    SubContract spec R' (u :: is) (idu :: ids) Pu Ps mu ms op (ostep fs1 op) w1 := by
  have hown2 : OWN w2 (u :: is) (idu :: ids) (sub Pu mu :: List.zipWith sub Ps ms) :=
    own_sub h (hR' _ _ hr) hown
  obtain ⟨r2, w2', mu2, ms2, hrun, hown2', hls, hms, inv', hv', hc⟩ :=
    overlay_contractN hown2 inv hv op hop hdisc
  obtain ⟨r1, w1', ms1, hrun1, hr', hown1, hms1, hrel, hc1⟩ :=
    contract_transfer hR' h hsim hr hrun hown2' hc
  obtain ⟨mu', ms', rfl, rfl, rfl⟩ := zipWith_sub_cons_inv hms1
  exact ⟨r1, w1', w2', mu', ms', hrun1, hown1, hr', hls, hms, inv', hv', hc1⟩

/-- user level -/
theorem subContract_vstep {PR : Option Str → Option Str → Prop} {fs1 : FS} (id : Nat) (op : Mut)
    (hop : OpOK op) (hdisc : O3Free (oview (sub Pu mu :: List.zipWith sub Ps ms)) op)
    (hsim : SimM R' PR (· = ·) (vstep fs1 id op)
      (vstep (Overlay.fs (layersN (u :: is) (idu :: ids))) id op)) :
    SubContract spec R' (u :: is) (idu :: ids) Pu Ps mu ms op (vstep fs1 id op) w1 := by
  have hown2 : OWN w2 (u :: is) (idu :: ids) (sub Pu mu :: List.zipWith sub Ps ms) :=
    own_sub h (hR' _ _ hr) hown
  obtain ⟨r2, w2', mu2, ms2, hrun, hown2', hls, hms, inv', hv', hc, _, _⟩ :=
    vpath_overlay_contractN hown2 inv hv id op hop hdisc
  obtain ⟨r1, w1', ms1, hrun1, hr', hown1, hms1, hrel, hc1⟩ :=
    contract_transfer hR' h hsim hr hrun hown2' hc
  obtain ⟨mu', ms', rfl, rfl, rfl⟩ := zipWith_sub_cons_inv hms1
  exact ⟨r1, w1', w2', mu', ms', hrun1, hown1, hr', hls, hms, inv', hv', hc1⟩

end transferred

/-! ### the four instances over the plain relation `RSub spec` -/

section instances
variable {spec : Nat → Role} {u idr idu : Nat} {Pu : Str} {is idrs ids : List Nat} {Ps : List Str}
  (h : SubSpec spec (u :: is) (idr :: idrs) (idu :: ids) (Pu :: Ps))
  {w1 w2 : World} (hr : RSub spec w1 w2) {mu : FMap} {ms : List FMap}
  (hown : OWN w1 (u :: is) (idu :: ids) (mu :: ms))
  (inv : OInv (sub Pu mu) (List.zipWith sub Ps ms))
  (hv : ViewWF (oview (sub Pu mu :: List.zipWith sub Ps ms)))
include h hr hown inv hv

/-- **overlay_contractN_subdir (contract part).** Layers = the sub-directory paths
`⟨leafFS i_k, id_k, P_k⟩` of pairwise distinct memory leaves. Every mutator on a disciplined path
through the overlay (trait level) obeys `VContract` relative to the union view of the SUB-MAPS;
the world is again in the setting, the lower sub-maps unchanged (append: `LowerSame`), the
invariants of the sub-maps hold again. (Frame outside the `P_k`: `overlay_contractN_subdir`
below.) -/
theorem overlay_contractN_subdir_view (op : Mut) (hop : OpOK op)
    (hdisc : O3Free (oview (sub Pu mu :: List.zipWith sub Ps ms)) op) :
    SubContract spec (RSub spec) (u :: is) (idu :: ids) Pu Ps mu ms op
      (ostep (Overlay.fs (subLayers (u :: is) (idu :: ids) (Pu :: Ps))) op) w1 :=
  subContract_ostep (fun _ _ x => x) h hr hown inv hv op hop hdisc
    (sim_ostep (overlay_over_subdirs h (by simp)) (simHandles_sub spec) op (opOK_canon hop).1
      (opOK_canon hop).2)

/-- the same through the `VfsPath` layer (`VfsPath::create_dir`, sessions, …) -/
theorem vpath_overlay_contractN_subdir_view (id : Nat) (op : Mut) (hop : OpOK op)
    (hdisc : O3Free (oview (sub Pu mu :: List.zipWith sub Ps ms)) op) :
    SubContract spec (RSub spec) (u :: is) (idu :: ids) Pu Ps mu ms op
      (vstep (Overlay.fs (subLayers (u :: is) (idu :: ids) (Pu :: Ps))) id op) w1 :=
  subContract_vstep (fun _ _ x => x) h hr hown inv hv id op hop hdisc
    (sim_vstep (overlay_over_subdirs h (by simp)) (simHandles_sub spec) id op (opOK_canon hop).1
      (opOK_canon hop).2)

/-- **overlay_contractN_altroot (contract part).** Layers = (roots of) altroots rooted at the
directories `P_k` of pairwise distinct memory leaves (`altLayers`; layer identities pairwise
distinct). -/
theorem overlay_contractN_altroot_view (hn : (idu :: ids).Nodup) (op : Mut) (hop : OpOK op)
    (hdisc : O3Free (oview (sub Pu mu :: List.zipWith sub Ps ms)) op) :
    SubContract spec (RSub spec) (u :: is) (idu :: ids) Pu Ps mu ms op
      (ostep (Overlay.fs (altLayers (u :: is) (idr :: idrs) (idu :: ids) (Pu :: Ps))) op) w1 :=
  subContract_ostep (fun _ _ x => x) h hr hown inv hv op hop hdisc
    (sim_ostep (overlay_over_subtrees h (by simp) hn) (subtree_handles spec) op (opOK_canon hop).1
      (opOK_canon hop).2)

theorem vpath_overlay_contractN_altroot_view (hn : (idu :: ids).Nodup) (id : Nat) (op : Mut)
    (hop : OpOK op) (hdisc : O3Free (oview (sub Pu mu :: List.zipWith sub Ps ms)) op) :
    SubContract spec (RSub spec) (u :: is) (idu :: ids) Pu Ps mu ms op
      (vstep (Overlay.fs (altLayers (u :: is) (idr :: idrs) (idu :: ids) (Pu :: Ps))) id op) w1 :=
  subContract_vstep (fun _ _ x => x) h hr hown inv hv id op hop hdisc
    (sim_vstep (overlay_over_subtrees h (by simp) hn) (subtree_handles spec) id op
      (opOK_canon hop).1 (opOK_canon hop).2)

end instances

/-! ### with the frame: nothing outside the `P_k` changes (altroot layers) -/

/-- the invariant `OutsideAll` (relative to the files of the initial world), read off two worlds
in the setting: layer by layer the maps agree outside `P_k` -/
theorem outSame_of_outsideAll {spec : Nat → Role} {is idrs ids : List Nat} {Ps : List Str}
    (h : SubSpec spec is idrs ids Ps) {w1 w1' : World} {ms ms' : List FMap}
    (hown : OWN w1 is ids ms) (hown' : OWN w1' is ids ms')
    (hI : OutsideAll spec (filesOf w1) w1') : OutSame Ps ms ms' := by
  induction h generalizing ms ms' with
  | nil => cases hown; cases hown'; trivial
  | @cons i idr id P is idrs ids Ps hi hP _ ih =>
    cases hown with
    | @cons _ _ m _ _ ms0 hm _ hrest =>
      cases hown' with
      | @cons _ _ m' _ _ ms0' hm' _ hrest' =>
        refine ⟨?_, ih hrest hrest'⟩
        obtain ⟨l, hl, _, hk⟩ := hI i P hi
        have e1 : l.files = m' := by
          unfold MemLeafAt at hm'; rw [hm'] at hl; injection hl with hl; rw [← hl]
        have e2 : filesOf w1 i = m := by
          unfold filesOf; unfold MemLeafAt at hm; rw [hm]; rfl
        intro k hk0
        rw [← e1, ← e2]
        exact hk k hk0

/-- `SubContract` over the plain relation, plus the frame `OutSame`: in every layer leaf every
key that is not at or below `P_k` keeps its entry -/
def SubContractF (spec : Nat → Role) (is ids : List Nat) (Pu : Str)
    (Ps : List Str) (mu : FMap) (ms : List FMap) (op : Mut) (m1 : M Unit) (w1 : World) : Prop :=
  ∃ r w1' w2' mu' ms',
    m1 w1 = (r, w1') ∧ OWN w1' is ids (mu' :: ms') ∧ RSub spec w1' w2' ∧
    OutSame (Pu :: Ps) (mu :: ms) (mu' :: ms') ∧
    LowerSame (List.zipWith sub Ps ms) (List.zipWith sub Ps ms') ∧
    ((∀ p bs, op ≠ .append p bs) → List.zipWith sub Ps ms' = List.zipWith sub Ps ms) ∧
    OInv (sub Pu mu') (List.zipWith sub Ps ms') ∧
    ViewWF (oview (sub Pu mu' :: List.zipWith sub Ps ms')) ∧
    VContract (oview (sub Pu mu :: List.zipWith sub Ps ms)) op r
      (oview (sub Pu mu' :: List.zipWith sub Ps ms'))

theorem SubContract.frame {spec : Nat → Role} {u idr idu : Nat} {Pu : Str}
    {is idrs ids : List Nat} {Ps : List Str}
    (h : SubSpec spec (u :: is) (idr :: idrs) (idu :: ids) (Pu :: Ps))
    {w1 : World} {mu : FMap} {ms : List FMap} (hown : OWN w1 (u :: is) (idu :: ids) (mu :: ms))
    {op : Mut} {m1 : M Unit}
    (hc : SubContract spec (RFA spec (filesOf w1)) (u :: is) (idu :: ids) Pu Ps mu ms op m1 w1) :
    SubContractF spec (u :: is) (idu :: ids) Pu Ps mu ms op m1 w1 := by
  obtain ⟨r, w1', w2', mu', ms', hrun, hown', hr', hls, hms, inv', hv', hc'⟩ := hc
  exact ⟨r, w1', w2', mu', ms', hrun, hown', hr'.1, outSame_of_outsideAll h hown hown' hr'.2,
    hls, hms, inv', hv', hc'⟩

section instancesF
variable {spec : Nat → Role} {u idr idu : Nat} {Pu : Str} {is idrs ids : List Nat} {Ps : List Str}
  (h : SubSpec spec (u :: is) (idr :: idrs) (idu :: ids) (Pu :: Ps))
  {w1 w2 : World} (hr : RSub spec w1 w2) {mu : FMap} {ms : List FMap}
  (hown : OWN w1 (u :: is) (idu :: ids) (mu :: ms))
  (inv : OInv (sub Pu mu) (List.zipWith sub Ps ms))
  (hv : ViewWF (oview (sub Pu mu :: List.zipWith sub Ps ms)))
include h hr hown inv hv

/-- **overlay_contractN_subdir.** Layers = the sub-directory paths `⟨leafFS i_k, id_k, P_k⟩`
(`P_k` canonical) of pairwise distinct memory leaves. Every mutator on a disciplined path through
the overlay (trait level)
* obeys `VContract` relative to the union view of the SUB-MAPS `sub Pu mu :: zipWith sub Ps ms`,
* leaves a world in the setting again (`OWN`, a companion world, `OInv`, `ViewWF` of the
  sub-maps; lower sub-maps unchanged, append: `LowerSame`),
* and changes NOTHING outside the `P_k`: in every layer leaf every key that is not at or below
  `P_k` keeps its entry (`OutSame`). -/
theorem overlay_contractN_subdir (op : Mut) (hop : OpOK op)
    (hdisc : O3Free (oview (sub Pu mu :: List.zipWith sub Ps ms)) op) :
    SubContractF spec (u :: is) (idu :: ids) Pu Ps mu ms op
      (ostep (Overlay.fs (subLayers (u :: is) (idu :: ids) (Pu :: Ps))) op) w1 :=
  SubContract.frame h hown
    (subContract_ostep (fun _ _ x => x.1) h ⟨hr, outsideAll_init hr⟩ hown inv hv op hop hdisc
      (sim_ostep (overlay_over_subdirs_frame h (by simp)) (simHandles_frameAll' spec _) op
        (opOK_canon hop).1 (opOK_canon hop).2))

/-- the same through the `VfsPath` layer -/
theorem vpath_overlay_contractN_subdir (id : Nat) (op : Mut)
    (hop : OpOK op) (hdisc : O3Free (oview (sub Pu mu :: List.zipWith sub Ps ms)) op) :
    SubContractF spec (u :: is) (idu :: ids) Pu Ps mu ms op
      (vstep (Overlay.fs (subLayers (u :: is) (idu :: ids) (Pu :: Ps))) id op) w1 :=
  SubContract.frame h hown
    (subContract_vstep (fun _ _ x => x.1) h ⟨hr, outsideAll_init hr⟩ hown inv hv id op hop hdisc
      (sim_vstep (overlay_over_subdirs_frame h (by simp)) (simHandles_frameAll' spec _) id op
        (opOK_canon hop).1 (opOK_canon hop).2))

/-- **overlay_contractN_altroot.** Layers = (roots of) altroots rooted at the canonical
directories `P_k` of pairwise distinct memory leaves, layer identities pairwise distinct. Every
mutator on a disciplined path through the overlay (trait level)
* obeys `VContract` relative to the union view of the SUB-MAPS `sub Pu mu :: zipWith sub Ps ms`,
* leaves a world in the setting again (`OWN`, a companion world, `OInv`, `ViewWF` of the
  sub-maps; lower sub-maps unchanged, append: `LowerSame`),
* and changes NOTHING outside the `P_k`: in every layer leaf every key that is not at or below
  `P_k` keeps its entry (`OutSame`). -/
theorem overlay_contractN_altroot (hn : (idu :: ids).Nodup) (op : Mut) (hop : OpOK op)
    (hdisc : O3Free (oview (sub Pu mu :: List.zipWith sub Ps ms)) op) :
    SubContractF spec (u :: is) (idu :: ids) Pu Ps mu ms op
      (ostep (Overlay.fs (altLayers (u :: is) (idr :: idrs) (idu :: ids) (Pu :: Ps))) op) w1 :=
  SubContract.frame h hown
    (subContract_ostep (fun _ _ x => x.1) h ⟨hr, outsideAll_init hr⟩ hown inv hv op hop hdisc
      (sim_ostep (overlay_over_subtrees_frame h (by simp) hn) (simHandles_frameAll spec _) op
        (opOK_canon hop).1 (opOK_canon hop).2))

/-- the same through the `VfsPath` layer -/
theorem vpath_overlay_contractN_altroot (hn : (idu :: ids).Nodup) (id : Nat) (op : Mut)
    (hop : OpOK op) (hdisc : O3Free (oview (sub Pu mu :: List.zipWith sub Ps ms)) op) :
    SubContractF spec (u :: is) (idu :: ids) Pu Ps mu ms op
      (vstep (Overlay.fs (altLayers (u :: is) (idr :: idrs) (idu :: ids) (Pu :: Ps))) id op) w1 :=
  SubContract.frame h hown
    (subContract_vstep (fun _ _ x => x.1) h ⟨hr, outsideAll_init hr⟩ hown inv hv id op hop hdisc
      (sim_vstep (overlay_over_subtrees_frame h (by simp) hn) (simHandles_frameAll spec _) id op
        (opOK_canon hop).1 (opOK_canon hop).2))

end instancesF

/-! ### non-vacuity: the two-leaf world of Props/C07Subtree.lean
leaf 0: "/up/f" = [1], "/up", "/junk" (outside), ""; leaf 1: "/lo/g" = [2], "/lo/f" = [3], "/lo", "";
layers "/up" of leaf 0 over "/lo" of leaf 1 -/

section exampleY

theorem y_wf : ∀ m ∈ [sub "/up".toList yM0, sub "/lo".toList yM1], WF m := by decide

theorem y_inv : OInv (sub "/up".toList yM0) (List.zipWith sub ["/lo".toList] [yM1]) :=
  OInv.initial y_wf (noWhiteout_of_keys (by decide))

theorem y_viewWF :
    ViewWF (oview (sub "/up".toList yM0 :: List.zipWith sub ["/lo".toList] [yM1])) :=
  ViewWF.initial y_wf (noWhiteout_of_keys (by decide)) (typeConsistent_of_keys (by decide))

/-- all hypotheses of the four theorems hold; a call of each kind -/
example := overlay_contractN_subdir_view ySub yRel yOwn y_inv y_viewWF (.createDir "/n".toList)
  (opOK_of_check (by decide)) (by intro p hp; cases hp)
example := overlay_contractN_subdir_view ySub yRel yOwn y_inv y_viewWF (.append "/g".toList [7])
  (opOK_of_check (by decide)) (by intro p hp; cases hp)
example := overlay_contractN_subdir_view ySub yRel yOwn y_inv y_viewWF (.removeFile "/g".toList)
  (opOK_of_check (by decide)) (by intro p hp; injection hp with hp; subst hp; decide)
example := vpath_overlay_contractN_subdir_view ySub yRel yOwn y_inv y_viewWF 5
  (.write "/f".toList [4]) (opOK_of_check (by decide)) (by intro p hp; cases hp)
example := overlay_contractN_altroot_view ySub yRel yOwn y_inv y_viewWF (by decide)
  (.removeDir "/n".toList) (opOK_of_check (by decide)) (by intro p hp; cases hp)
example := vpath_overlay_contractN_altroot_view ySub yRel yOwn y_inv y_viewWF (by decide) 5
  (.createDir "/n".toList) (opOK_of_check (by decide)) (by intro p hp; cases hp)

-- … and of the theorems with the frame
example := overlay_contractN_subdir ySub yRel yOwn y_inv y_viewWF (.append "/g".toList [7])
  (opOK_of_check (by decide)) (by intro p hp; cases hp)
example := vpath_overlay_contractN_subdir ySub yRel yOwn y_inv y_viewWF 5 (.createDir "/n".toList)
  (opOK_of_check (by decide)) (by intro p hp; cases hp)
example := overlay_contractN_altroot ySub yRel yOwn y_inv y_viewWF (by decide)
  (.removeFile "/g".toList) (opOK_of_check (by decide))
  (by intro p hp; injection hp with hp; subst hp; decide)
example := vpath_overlay_contractN_altroot ySub yRel yOwn y_inv y_viewWF (by decide) 5
  (.write "/f".toList [4]) (opOK_of_check (by decide)) (by intro p hp; cases hp)

/-- by evaluation: the append session with copy-up through the overlay over the sub-directories
succeeds, the view of the sub-maps shows the continued bytes, and "/junk" (outside "/up") is
untouched -/
example :
    (ostep (Overlay.fs yL1) (.append "/g".toList [7]) yW1).1 = .ok () ∧
    ((ostep (Overlay.fs yL1) (.append "/g".toList [7]) yW1).2.leaves.map fun l =>
      (l.files.find? "/up/g".toList).map (·.content)) = [some [2, 7], none] ∧
    ((ostep (Overlay.fs yL1) (.append "/g".toList [7]) yW1).2.leaves.map fun l =>
      l.files.find? "/junk".toList) = [yM0.find? "/junk".toList, none] := by
  refine ⟨?_, ?_, ?_⟩ <;> decide +kernel

end exampleY

section audit
#print axioms contract_transfer
#print axioms overlay_contractN_subdir_view
#print axioms vpath_overlay_contractN_subdir_view
#print axioms overlay_contractN_altroot_view
#print axioms vpath_overlay_contractN_altroot_view
#print axioms overlay_contractN_subdir
#print axioms vpath_overlay_contractN_subdir
#print axioms overlay_contractN_altroot
#print axioms vpath_overlay_contractN_altroot
end audit

end Vfs.C01
