/-
  C13 (termination) through an AltrootFS — walk_dir / remove_dir_all / copy_dir / move_dir called
  on paths of an altroot rooted at a canonical directory `P` of an in-memory filesystem never
  reach the out-of-fuel sentinel (`.panic`) for sufficient, explicit fuel: TERMINATION THROUGH THE
  ADAPTER. Props/C13Term.lean proves this for in-memory leaves and says for the other backends:
  "termination of the recursive operations is not proved". Here it is carried to the altroot
  along the simulation of Props/C07Subtree.lean: `RelRes` relates `.panic` only to `.panic`
  (`C11.relres_panic_iff`), so the altroot run is the sentinel IFF the run of the bare memory
  filesystem holding `sub P m` is, and that one is decided by C13Term.

  SETTING / IMPORTS: as in Props/C11Altroot.lean (`AltSub w i P m`; the namespace-separated copies
  `Vfs.T` of the simulation calculus). Fuel bounds are those of C13Term, measured on the SUB-MAP
  `sub P m` (the tree below `P`): they do not depend on what lies outside `P`.

  PROVED (propext, Classical.choice, Quot.sound only), `q`, `s` canonical, `d = renderC bs`:
  * `altroot_walk_sentinel_iff`   the collected walk through the altroot is the sentinel IFF `q`
      is a directory below `P` and fuel ≤ number of its descendants (`descCount (sub P m) q`) —
      the exact bound, as in memory;
    `altroot_walk_never_panics`   fuel > `descCount (sub P m) q`, or fuel = number of entries of
      the sub-map: not the sentinel — for EVERY canonical `q` (directory, file, absent, root).
  * `altroot_removeDirAll_never_panics`  `q ≠ ""`, fuel ≥ 1 and above the key-length bound of
      `C13.removeDirAll_never_panics` on the sub-map; `…_keyFuel`: the computed fuel
      `keyFuel (sub P m)`. EVERY kind of `q` (absent, file, directory).
  * `altroot_copyDir_never_panics`, `altroot_moveDir_never_panics`  source and destination both
      through the altroot; every state of the destination and every kind of source; when the
      copy actually runs: `d` not at or below `s` (and for move `s ≠ ""` and the two length
      bounds).
  * `altroot_copyDir_to_leaf_never_panics`, `altroot_moveDir_to_leaf_never_panics`  source
      through the altroot (leaf `i`), destination a plain memory filesystem on another leaf `j`
      (well-formed, canonical keys, different `Arc` identity).
  * `altroot_panic_iff`  the general principle, for all four operations and ANY fuel: sentinel
      through the altroot ⇔ sentinel on the sub-leaf.
  * non-vacuity on `C11.wN` (altroot at "/r"): the theorems instantiated; the exactness of the
    walk bound evaluated by the kernel (fuel 8 vs 9 for the 8 descendants of the altroot's root).
  NOT PROVED: `remove_dir_all("")` on the altroot's own root (outside the simulation);
  destinations that are themselves altroots of another filesystem, physical or overlay
  destinations; overlays (their recursive operations: only C13.lean's
  "panic ⇒ fuel sentinel").
-/
import VfsModel.Props.C11Altroot
set_option linter.unusedVariables false
set_option linter.unusedSectionVars false
set_option linter.unusedSimpArgs false
namespace Vfs.C13
open Vfs Vfs.T Vfs.T.C07 Vfs.C11 Vfs.C05 Vfs.Wk

section ops
variable {w : World} {i : Nat} {P : Str} {m : FMap} (a : AltSub w i P m) (id id' : Nat)
include a

/-- **the principle**: through the altroot the fuel sentinel is reached iff it is reached on the
bare memory filesystem holding the sub-map — for the walk, remove_dir_all, copy_dir, move_dir and
every fuel -/
theorem altroot_panic_iff (fuel : Nat) {s d : Str} (hs : Canon s) (hd : Canon d) :
    ((walkCollect fuel (apath i id P id' s) w).1 = .panic ↔
      (walkCollect fuel (spath i id' s) (subWorld w i P m)).1 = .panic) ∧
    (s ≠ [] → ((VPath.removeDirAll fuel (apath i id P id' s) w).1 = .panic ↔
      (VPath.removeDirAll fuel (spath i id' s) (subWorld w i P m)).1 = .panic)) ∧
    (d ≠ [] → ((VPath.copyDir fuel (apath i id P id' s) (apath i id P id' d) w).1 = .panic ↔
      (VPath.copyDir fuel (spath i id' s) (spath i id' d) (subWorld w i P m)).1 = .panic)) ∧
    (s ≠ [] → d ≠ [] →
      ((VPath.moveDir fuel (apath i id P id' s) (apath i id P id' d) w).1 = .panic ↔
      (VPath.moveDir fuel (spath i id' s) (spath i id' d) (subWorld w i P m)).1 = .panic)) :=
  ⟨relres_panic_iff (altroot_walk (specOne_self i P) a.canonP id id' fuel hs _ _ a.rel).1,
   fun hne => relres_panic_iff
     (altroot_remove_dir_all (specOne_self i P) a.canonP id id' fuel hs hne _ _ a.rel).1,
   fun hne => relres_panic_iff
     (altroot_copy_dir (specOne_self i P) a.canonP id id' fuel hs hd hne _ _ a.rel).1,
   fun h1 h2 => relres_panic_iff
     (altroot_move_dir (specOne_self i P) a.canonP id id' fuel hs hd h1 h2 _ _ a.rel).1⟩

/-- **walk_dir through the altroot: the sentinel is reachable only by starving the fuel** -/
theorem altroot_walk_sentinel_iff (hwf : WF (sub P m)) (hk : FMap.NodupKeys (sub P m))
    {q : Str} (hq : Canon q) (fuel : Nat) :
    (walkCollect fuel (apath i id P id' q) w).1 = .panic ↔
      (∃ e, m.find? (P ++ q) = some e ∧ e.ftype = .dir) ∧ fuel ≤ descCount (sub P m) q := by
  rw [(altroot_panic_iff a id id' fuel hq hq).1]
  have := (walk_never_panics a.subLeaf hwf hk id' q).2.2.1 fuel
  rw [show spath i id' q = mk i id' q from rfl, this]
  unfold IsDirOf
  rw [a.find q hq]

/-- **walk_dir through the altroot terminates**: for every canonical path, fuel above the number
of descendants below `P ++ q`, or the number of entries of the sub-map, is enough -/
theorem altroot_walk_never_panics (hwf : WF (sub P m)) (hk : FMap.NodupKeys (sub P m))
    {q : Str} (hq : Canon q) :
    (walkCollect (sub P m).length (apath i id P id' q) w).1 ≠ .panic ∧
    ∀ fuel, descCount (sub P m) q < fuel →
      (walkCollect fuel (apath i id P id' q) w).1 ≠ .panic := by
  obtain ⟨h1, h2, _⟩ := walk_never_panics a.subLeaf hwf hk id' q
  refine ⟨fun hp => h1 ((altroot_panic_iff a id id' _ hq hq).1.1 hp), fun fuel hf hp => ?_⟩
  exact h2 fuel hf ((altroot_panic_iff a id id' fuel hq hq).1.1 hp)

/-- **remove_dir_all through the altroot terminates** — every kind of `q ≠ ""` -/
theorem altroot_removeDirAll_never_panics (hwf : WF (sub P m)) (hk : FMap.NodupKeys (sub P m))
    (fuel : Nat) {q : Str} (hq : Canon q) (hne : q ≠ []) (hf0 : 0 < fuel)
    (hfuel : ∀ k e', (sub P m).find? k = some e' → k.length < q.length + fuel) :
    (VPath.removeDirAll fuel (apath i id P id' q) w).1 ≠ .panic := fun hp =>
  removeDirAll_never_panics a.subLeaf hwf hk id' fuel q hf0 hfuel
    (((altroot_panic_iff a id id' fuel hq hq).2.1 hne).1 hp)

/-- … with the fuel computed from the sub-map: longest key length + 1 -/
theorem altroot_removeDirAll_never_panics_keyFuel (hwf : WF (sub P m))
    (hk : FMap.NodupKeys (sub P m)) {q : Str} (hq : Canon q) (hne : q ≠ []) :
    (VPath.removeDirAll (keyFuel (sub P m)) (apath i id P id' q) w).1 ≠ .panic := fun hp =>
  removeDirAll_never_panics_keyFuel a.subLeaf hwf hk id' q
    (((altroot_panic_iff a id id' _ hq hq).2.1 hne).1 hp)

/-- **copy_dir between two paths of the altroot terminates** — every state of the destination,
every kind of source; when the copy runs, `d` is not at or below `s` -/
theorem altroot_copyDir_never_panics (hwf : WF (sub P m)) (hk : FMap.NodupKeys (sub P m))
    (fuel : Nat) {s : Str} (hs : Canon s) (bs : List Str) (hbs : ∀ c ∈ bs, GoodComp c)
    (hbne : bs ≠ [])
    (hsrc : (∃ e, m.find? (P ++ s) = some e ∧ e.ftype = .dir) → under s (renderC bs) = false)
    (hfuel : descendants (sub P m) s < fuel) :
    (VPath.copyDir fuel (apath i id P id' s) (apath i id P id' (renderC bs)) w).1 ≠ .panic := by
  intro hp
  have hdne : renderC bs ≠ [] := by
    cases bs with
    | nil => exact absurd rfl hbne
    | cons c cs => simp
  refine copyDir_never_panics a.subLeaf a.subLeaf hwf hwf hk id' id' fuel s bs hbs ?_ hfuel
    (((altroot_panic_iff a id id' fuel hs ⟨bs, hbs, rfl⟩).2.2.1 hdne).1 hp)
  intro hdir
  refine ⟨fun k e he _ => a.keysCanon k e he, fun _ => hsrc ?_⟩
  unfold IsDirOf at hdir
  rwa [a.find s hs] at hdir

/-- **move_dir between two paths of the altroot terminates** -/
theorem altroot_moveDir_never_panics (hwf : WF (sub P m)) (hk : FMap.NodupKeys (sub P m))
    (fuel : Nat) {s : Str} (hs : Canon s) (hsne : s ≠ []) (bs : List Str)
    (hbs : ∀ c ∈ bs, GoodComp c) (hbne : bs ≠ [])
    (hsrc : (∃ e, m.find? (P ++ s) = some e ∧ e.ftype = .dir) →
      under s (renderC bs) = false ∧
      ∀ k e, (sub P m).find? k = some e → under s k = true →
        (renderC bs).length + k.length < 2 * s.length + fuel)
    (hfuel : descendants (sub P m) s < fuel)
    (hb1 : ∀ k e, (sub P m).find? k = some e → k.length < s.length + fuel) :
    (VPath.moveDir fuel (apath i id P id' s) (apath i id P id' (renderC bs)) w).1 ≠ .panic := by
  intro hp
  have hdne : renderC bs ≠ [] := by
    cases bs with
    | nil => exact absurd rfl hbne
    | cons c cs => simp
  refine moveDir_never_panics a.subLeaf a.subLeaf hwf hwf hk id' id' fuel s bs hbs ?_ hfuel hb1
    (((altroot_panic_iff a id id' fuel hs ⟨bs, hbs, rfl⟩).2.2.2 hsne hdne).1 hp)
  intro hdir
  have hdir' : ∃ e, m.find? (P ++ s) = some e ∧ e.ftype = .dir := by
    unfold IsDirOf at hdir
    rwa [a.find s hs] at hdir
  exact ⟨hsne, fun k e he _ => a.keysCanon k e he, fun _ => (hsrc hdir').1,
    fun _ => (hsrc hdir').2⟩

end ops

/-! ### from the altroot to a plain memory filesystem on another leaf -/

section cross
variable {w : World} {i j : Nat} {P : Str} {m md : FMap} (a : AltSub w i P m) (hji : j ≠ i)
  (hj : MemLeafAt w j md) (hwfd : WF md) (hcan : ∀ k ∈ md.keys, Canon k) (id id' did : Nat)
  (hid : id' ≠ did)
include a hji hj hwfd hcan hid

/-- **copy_dir from the altroot to a plain memory filesystem terminates** — every state of the
destination `d = renderC bs` on leaf `j`, every kind of source -/
theorem altroot_copyDir_to_leaf_never_panics (hwf : WF (sub P m))
    (hk : FMap.NodupKeys (sub P m)) (fuel : Nat) {s : Str} (hs : Canon s) (bs : List Str)
    (hbs : ∀ c ∈ bs, GoodComp c) (hbne : bs ≠ []) (hfuel : descendants (sub P m) s < fuel) :
    (VPath.copyDir fuel (apath i id P id' s)
      { fs := leafFS j, fsId := did, path := renderC bs } w).1 ≠ .panic := by
  intro hp
  have hdne : renderC bs ≠ [] := by
    cases bs with
    | nil => exact absurd rfl hbne
    | cons c cs => simp
  have hj2 : MemLeafAt (subWorld w i P m) j md := hj.set_ne (fun e => hji e.symm) _
  have hsim := (altroot_to_leaf_sim a hji hj hwfd hcan id id' did hid fuel hs
    (d := renderC bs) ⟨bs, hbs, rfl⟩ hdne).1 _ _ (AltSub.rel2 a hji hj hwfd hcan id' did hid)
  refine copyDir_never_panics a.subLeaf hj2 hwf hwfd hk id' did fuel s bs hbs ?_ hfuel
    ((relres_panic_iff hsim.1).1 hp)
  intro _
  exact ⟨fun k e he _ => a.keysCanon k e he, fun e => absurd e.symm hji⟩

/-- **move_dir from the altroot to a plain memory filesystem terminates** -/
theorem altroot_moveDir_to_leaf_never_panics (hwf : WF (sub P m))
    (hk : FMap.NodupKeys (sub P m)) (fuel : Nat) {s : Str} (hs : Canon s) (hsne : s ≠ [])
    (bs : List Str) (hbs : ∀ c ∈ bs, GoodComp c) (hbne : bs ≠ [])
    (hfuel : descendants (sub P m) s < fuel)
    (hb1 : ∀ k e, (sub P m).find? k = some e → k.length < s.length + fuel) :
    (VPath.moveDir fuel (apath i id P id' s)
      { fs := leafFS j, fsId := did, path := renderC bs } w).1 ≠ .panic := by
  intro hp
  have hdne : renderC bs ≠ [] := by
    cases bs with
    | nil => exact absurd rfl hbne
    | cons c cs => simp
  have hj2 : MemLeafAt (subWorld w i P m) j md := hj.set_ne (fun e => hji e.symm) _
  have hsim := (altroot_to_leaf_sim a hji hj hwfd hcan id id' did hid fuel hs
    (d := renderC bs) ⟨bs, hbs, rfl⟩ hdne).2 hsne _ _ (AltSub.rel2 a hji hj hwfd hcan id' did hid)
  refine moveDir_never_panics a.subLeaf hj2 hwf hwfd hk id' did fuel s bs hbs ?_ hfuel hb1
    ((relres_panic_iff hsim.1).1 hp)
  intro _
  exact ⟨hsne, fun k e he _ => a.keysCanon k e he, fun e => absurd e.symm hji,
    fun e => absurd e.symm hji⟩

end cross

/-! ### non-vacuity: `C11.wN`, altroot at "/r" of leaf 0 -/

section example_wN

example := altroot_walk_never_panics wN_altSub 5 6 rSub_wf rSub_nodup (q := [])
  ⟨[], by simp, rfl⟩
example := altroot_walk_sentinel_iff wN_altSub 5 6 rSub_wf rSub_nodup (q := "/a".toList)
  ⟨["a".toList], by decide, by decide⟩ 3
example := altroot_removeDirAll_never_panics_keyFuel wN_altSub 5 6 rSub_wf rSub_nodup
  (q := "/a".toList) ⟨["a".toList], by decide, by decide⟩ (by decide)
example := altroot_copyDir_never_panics wN_altSub 5 6 rSub_wf rSub_nodup 7 (s := "/a".toList)
  ⟨["a".toList], by decide, by decide⟩ ["z".toList] (by decide) (by decide) (fun _ => by decide)
  (by decide)
example := altroot_moveDir_never_panics wN_altSub 5 6 rSub_wf rSub_nodup 7 (s := "/a".toList)
  ⟨["a".toList], by decide, by decide⟩ (by decide) ["z".toList] (by decide) (by decide)
  (fun _ => ⟨by decide, fun k e he _ => by have := rSub_len k e he; simp; omega⟩) (by decide)
  (fun k e he => by have := rSub_len k e he; simp; omega)

example := altroot_copyDir_to_leaf_never_panics wN_altSub (j := 1) (by decide) wN_leaf1 mK_wf
  mK_canon 5 6 9 (by decide) rSub_wf rSub_nodup 7 (s := "/a".toList)
  ⟨["a".toList], by decide, by decide⟩ ["c".toList] (by decide) (by decide) (by decide)
example := altroot_moveDir_to_leaf_never_panics wN_altSub (j := 1) (by decide) wN_leaf1 mK_wf
  mK_canon 5 6 9 (by decide) rSub_wf rSub_nodup 7 (s := "/a".toList)
  ⟨["a".toList], by decide, by decide⟩ (by decide) ["c".toList] (by decide) (by decide)
  (by decide) (fun k e he => by have := rSub_len k e he; simp; omega)

/-- the walk bound is exact through the altroot too: the altroot's root has 8 descendants -/
example : descCount (sub rP mN) [] = 8 := by decide
example : (walkCollect 8 (apath 0 5 rP 6 []) wN).1.isPanic = true := by decide +kernel
example : (walkCollect 9 (apath 0 5 rP 6 []) wN).1.isOk = true := by decide +kernel

end example_wN

end Vfs.C13

section audit
open Vfs.C13
#print axioms altroot_panic_iff
#print axioms altroot_walk_sentinel_iff
#print axioms altroot_walk_never_panics
#print axioms altroot_removeDirAll_never_panics
#print axioms altroot_removeDirAll_never_panics_keyFuel
#print axioms altroot_copyDir_never_panics
#print axioms altroot_moveDir_never_panics
#print axioms altroot_copyDir_to_leaf_never_panics
#print axioms altroot_moveDir_to_leaf_never_panics
end audit
