/-
  C18, fourth part: the `walk_dir` agreement between EmbeddedFS and the physical folder ON THE
  FOLDER THE MODEL'S OWN OPERATIONS BUILD (closing the gap noted in Props/C18Built.lean).

  WHAT IS PROVED HERE
  * `embedded_walk_matches_physical_lk`: for every `GoodFiles` list `fl`, every world `w` whose
    leaf `i` is a physical filesystem holding ANY map `m` with duplicate-free keys and the lookups
    of `folderMap fl` (`∀ k, m.find? k = (folderMap fl).find? k`, the hypothesis of
    `embedded_matches_physical_lk`; well-formedness of `m` FOLLOWS from it and is not assumed),
    from every directory `renderC cs` of the folder (`GoodCs cs`, `IsDirC fl cs`; the root `cs = []`
    included) and with more fuel than descendants: the collected walks of EmbeddedFS and of that
    leaf are `.ok` lists of `.ok` items, the path strings are permutations of each other, each
    once, exactly the present paths strictly below the directory, no path before one of its
    ancestors on either side, both worlds unchanged.
  * `createDirAllLoop_nodup`, `putFile_spec_nd`, `buildFolder_spec_nd`, `folder_built_nodup`: the
    build of Props/C18Built.lean additionally leaves a map with duplicate-free keys
    (`FMap.NodupKeys`), proved FROM THE BUILD (every update of the physical leaf is `FMap.insert`).
  * `embedded_walk_matches_built_folder`: end to end — build the folder on a fresh physical
    filesystem with the model's own `create_dir_all` + `create_file` + write sessions
    (`buildFolder 0 0 fl freshPhys`), then in the resulting world the walks agree as above, from
    every directory of the folder.
  * Non-vacuity: `harnessFixture_walk_hyps` (the hypotheses hold for the harness fixture, from
    the root and from `a/x`), `harnessFixture_walk_root` (the theorem instantiated),
    `harnessFixture_walk_eval` (the two walks on the built world evaluated by the kernel).
  HYPOTHESES: `GoodFiles fl`; `GoodCs cs`; `IsDirC fl cs` (hence `fl ≠ []`); fuel above the number
  of keys of `folderMap fl` strictly below the start; for the `_lk` form `FMap.NodupKeys m` and the
  lookup equation.
  NOT PROVED: the ORDER of the two walks is not compared (it differs: storage order of the built
  map against the embedded directory map; only Perm + ancestors-first on each side); the
  short-fuel sentinel is not restated here (it is `WkG.walk_from_dir`.2); non-directories are in
  `embedded_walk_nondir` (Props/C18Phys.lean), stated for `folderMap fl` itself only.
-/
import VfsModel.Props.C18Built
namespace Vfs.C18
open Vfs.Embedded

/-! ### 1. the walk on any physical map with the lookups of `folderMap fl` -/

theorem embedded_walk_matches_physical_lk (fl : List (Str × Bytes)) (hG : GoodFiles fl)
    (cs : List Str) (hcs : GoodCs cs) (hd : IsDirC fl cs)
    (w : World) (i : Nat) (m : FMap) (h : PhysLeafAt w i m) (hnk : FMap.NodupKeys m)
    (hm : ∀ k, m.find? k = (folderMap fl).find? k) (idE idP : Nat) (fuel : Nat)
    (hf : ((folderMap fl).keys.filter (Wk.below (renderC cs))).length < fuel) :
    ∃ LE LP : List Str,
      WkG.collect fuel (embVP fl idE (renderC cs)) w =
        (.ok (LE.map fun k => .ok (embVP fl idE k)), w) ∧
      WkG.collect fuel (physVP i idP (renderC cs)) w =
        (.ok (LP.map fun k => .ok (physVP i idP k)), w) ∧
      LE.Perm LP ∧ LE.Nodup ∧ LP.Nodup ∧
      (∀ k, k ∈ LE ↔ (folderMap fl).find? k ≠ none ∧ Wk.below (renderC cs) k = true) ∧
      LE.Pairwise (fun a b => Wk.below b a = false) ∧
      LP.Pairwise (fun a b => Wk.below b a = false) := by
  have hne : fl ≠ [] := by
    obtain ⟨f, hf', _⟩ := hd
    intro e; subst e; cases hf'
  have hwf := folderMap_wf fl
  have hnk' := folderMap_nodupKeys fl hG
  have hwfm : WF m := WF_congr hm hwf
  have hfind := folderMap_find?_dir fl cs hcs.noSlash (Or.inr hd)
  have tE := embedded_treeView fl hG hne w
  have tP0 := phys_treeView h hwfm hnk
  have hfun : m.find? = (folderMap fl).find? := funext hm
  have tP : WkG.TreeView (leafFS i) w (folderMap fl).find? := hfun ▸ tP0
  obtain ⟨LE, wE, hwE, hE, hmE, hndE, hordE⟩ :=
    (WkG.walk_from_dir (P := embVP fl idE (renderC cs)) tE hwf hnk' w rfl (renderC cs)
      dirEntryNow hfind rfl fuel).1 hf
  obtain ⟨LP, wP, hwP, hP, hmP, hndP, hordP⟩ :=
    (WkG.walk_from_dir (P := physVP i idP (renderC cs)) tP hwf hnk' w rfl (renderC cs)
      dirEntryNow hfind rfl fuel).1 hf
  subst hwE; subst hwP
  refine ⟨LE, LP, hE, hP, ?_, hndE, hndP, ?_, hordE, hordP⟩
  · exact (List.perm_ext_iff_of_nodup hndE hndP).2 (fun k => by rw [hmE k, hmP k])
  · intro k
    rw [hmE k, FMap.mem_keys_iff, C05.ne_none_iff]

/-! ### 2. the build leaves duplicate-free keys -/

theorem nodup_createDir (m : FMap) (d : Str) (h : FMap.NodupKeys m) :
    FMap.NodupKeys (Phys.createDir m d).2 := by
  unfold Phys.createDir
  split
  · exact FMap.nodup_insert m d _ h
  all_goals exact h

/-- the loop of `create_dir_all` on a physical leaf keeps the keys duplicate-free, whatever its
outcome -/
theorem createDirAllLoop_nodup (i id : Nat) (q : Str) : ∀ (l : List Str) (w : World) (m : FMap),
    PhysLeafAt w i m → FMap.NodupKeys m →
    ∃ m', PhysLeafAt (VPath.createDirAllLoop (physVP i id q) l w).2 i m' ∧ FMap.NodupKeys m' := by
  intro l
  induction l with
  | nil =>
    intro w m h hnd
    exact ⟨m, h, hnd⟩
  | cons d rest ih =>
    intro w m h hnd
    have hrun : (physVP i id q).fs.createDir d w =
        ((Phys.createDir m d).1, w.setLeafFiles i (Phys.createDir m d).2) := by
      show (leafFS i).createDir _ w = _
      exact run_createDir h d
    have hnd1 := nodup_createDir m d hnd
    have hl1 := physLeafAt_set h (Phys.createDir m d).2
    unfold VPath.createDirAllLoop
    rw [hrun]
    split
    · rename_i heq; obtain ⟨-, rfl⟩ := Prod.mk.inj heq; exact ih _ _ hl1 hnd1
    · rename_i heq; obtain ⟨-, rfl⟩ := Prod.mk.inj heq; exact ih _ _ hl1 hnd1
    · rename_i heq; obtain ⟨-, rfl⟩ := Prod.mk.inj heq; exact ⟨_, hl1, hnd1⟩
    · rename_i heq; obtain ⟨-, rfl⟩ := Prod.mk.inj heq; exact ⟨_, hl1, hnd1⟩

/-- `putFile_spec` of Props/C18Built.lean with the duplicate-freeness carried along -/
theorem putFile_spec_nd (i id : Nat) (fl₁ : List (Str × Bytes)) (f : Str × Bytes)
    (hG : GoodFiles (fl₁ ++ [f])) (w : World) (m : FMap) (h : PhysLeafAt w i m)
    (hlk : ∀ k, m.find? k = (folderMap fl₁).find? k) (hndm : FMap.NodupKeys m) :
    ∃ w' m', putFile i id f w = (.ok (), w') ∧ PhysLeafAt w' i m' ∧ FMap.NodupKeys m' ∧
      ∀ k, m'.find? k = (folderMap (fl₁ ++ [f])).find? k := by
  obtain ⟨l, c, hsp⟩ : ∃ l c, splitSlash f.1 = l ++ [c] := by
    rcases List.eq_nil_or_concat (splitSlash f.1) with h0 | ⟨l, c, h0⟩
    · exact absurd h0 (splitOnC_ne_nil _ _)
    · exact ⟨l, c, by simpa using h0⟩
  have hns := om_noSlash hsp
  have hnsl : NoSlash l := fun x hx => hns x (List.mem_append_left _ hx)
  have hP := om_path hsp
  obtain ⟨hfresh, hnotchain⟩ := om_path_fresh hG hsp
  have hwf : WF m := WF_congr hlk (folderMap_wf fl₁)
  have hdn : DirsNow m := fun k e hk hd =>
    folderMap_dirsNow fl₁ k e (by rw [← hlk]; exact hk) hd
  have hparent : parentInternal ('/' :: f.1) = renderC l := by
    rw [hP, parentInternal_renderC _ hns, List.dropLast_concat]
  have hpp : (physVP i id ('/' :: f.1)).parent = physVP i id (renderC l) := by
    unfold VPath.parent VPath.withStr physVP
    simp only [hparent]
  -- step 1: create_dir_all of the parent
  have step1 : ∃ w₁ m₁, (physVP i id (renderC l)).createDirAll w = (.ok (), w₁) ∧
      PhysLeafAt w₁ i m₁ ∧ WF m₁ ∧ DirsNow m₁ ∧ FMap.NodupKeys m₁ ∧
      ∀ k, m₁.find? k = if k ∈ chain [] l then some dirEntryNow else m.find? k := by
    by_cases hl : l = []
    · subst hl
      exact ⟨w, m, rfl, h, hwf, hdn, hndm, fun k => by simp [chain]⟩
    · obtain ⟨w₁, m₁, h1, h2, h3, h4, h5⟩ := createDirAllLoop_chain i id (renderC l) l [] w m h
        hwf hdn hwf.1 (by simpa using hnsl)
        (fun k hk e he => om_chain_not_file hG hsp k hk e (by rw [← hlk]; exact he))
      have hndm₁ : FMap.NodupKeys m₁ := by
        obtain ⟨m₁', hl', hn'⟩ := createDirAllLoop_nodup i id (renderC l) (chain [] l) w m h hndm
        rw [h1] at hl'
        have : m₁ = m₁' := by
          have := h2.symm.trans hl'
          injection this with this
          injection this
        rw [this]; exact hn'
      refine ⟨w₁, m₁, ?_, h2, h3, h4, hndm₁, h5⟩
      unfold VPath.createDirAll
      rw [if_neg (show ¬ (physVP i id (renderC l)).path = [] from renderC_ne_nil hl)]
      show VPath.createDirAllLoop _ (VPath.dirPrefixes (renderC l)) w = _
      rw [dirPrefixes_renderC l hnsl]
      exact h1
  obtain ⟨w₁, m₁, hrun1, hleaf1, hwf1, hdn1, hndm1, hfind1⟩ := step1
  -- the parent is a directory now
  have hpar1 : m₁.find? (renderC l) = some dirEntryNow := by
    rw [hfind1]
    by_cases hl : l = []
    · subst hl
      rw [if_neg (by simp [chain]), hlk]
      exact folderMap_find?_dir fl₁ [] (fun _ h => by cases h) (Or.inl rfl)
    · have hin : renderC l ∈ chain [] l := (mem_chain _ l []).2 ⟨l, [], by simp, hl, rfl⟩
      rw [if_pos hin]
  have hPnone : m₁.find? ('/' :: f.1) = none := by
    rw [hfind1, if_neg hnotchain, hlk, hfresh]
  -- step 2: create_file
  have hgp : (physVP i id ('/' :: f.1)).getParent w₁ = (.ok (), w₁) := by
    have r := phys_runs hleaf1 id (renderC l)
    rw [phys_present hwf1 _ _ hpar1] at r
    exact getParent_of_runs _ w₁ _ (by rw [hpp]; exact r) rfl _ rfl rfl
  have hsl : '/' ∈ ('/' :: f.1 : Str) := by simp
  have hcf : Phys.createFile m₁ ('/' :: f.1) =
      (.ok (), m₁.insert ('/' :: f.1) fileEntryNow) := by
    unfold Phys.createFile
    rw [hwf1.lookup_child _ hsl dirEntryNow (by rw [hparent]; exact hpar1) rfl, hPnone]
  have hrun2 : (physVP i id ('/' :: f.1)).createFile w₁ =
      (.ok { leaf := i, key := '/' :: f.1, kind := .physCreate, buf := [], pos := 0 },
        w₁.setLeafFiles i (m₁.insert ('/' :: f.1) fileEntryNow)) := by
    unfold VPath.createFile
    simp only [bind, M.bind, hgp, M.withPath]
    show (match (leafFS i).createFile ('/' :: f.1) w₁ with | (r, w') => (r.withPath _, w')) = _
    rw [run_createFile hleaf1, hcf]
    rfl
  -- step 3: the write session
  have hleaf2 := physLeafAt_set hleaf1 (m₁.insert ('/' :: f.1) fileEntryNow)
  have hrun3 := run_write_session hleaf2 ('/' :: f.1) f.2 (FMap.find?_insert_self _ _ _)
  refine ⟨(w₁.setLeafFiles i (m₁.insert ('/' :: f.1) fileEntryNow)).setLeafFiles i
      ((m₁.insert ('/' :: f.1) fileEntryNow).insert ('/' :: f.1) (fileEntry f.2)),
    (m₁.insert ('/' :: f.1) fileEntryNow).insert ('/' :: f.1) (fileEntry f.2),
    ?_, physLeafAt_set hleaf2 _,
    FMap.nodup_insert _ _ _ (FMap.nodup_insert _ _ _ hndm1), ?_⟩
  · unfold putFile
    simp only [bind, M.bind, hpp, hrun1, hrun2, hrun3]
  · intro k
    rw [FMap.find?_insert, FMap.find?_insert, hfind1, hlk, folderMap_snoc_find? hG hsp k]
    by_cases hk : k = '/' :: f.1
    · simp [hk]
    · simp [hk]

/-- building the rest of the list on top of the folder of the first part -/
theorem buildFolder_spec_nd (i id : Nat) : ∀ (fl₂ fl₁ : List (Str × Bytes)),
    GoodFiles (fl₁ ++ fl₂) → ∀ (w : World) (m : FMap), PhysLeafAt w i m →
    (∀ k, m.find? k = (folderMap fl₁).find? k) → FMap.NodupKeys m →
    ∃ w' m', buildFolder i id fl₂ w = (.ok (), w') ∧ PhysLeafAt w' i m' ∧ FMap.NodupKeys m' ∧
      ∀ k, m'.find? k = (folderMap (fl₁ ++ fl₂)).find? k := by
  intro fl₂
  induction fl₂ with
  | nil =>
    intro fl₁ _ w m h hlk hnd
    exact ⟨w, m, rfl, h, hnd, by simpa using hlk⟩
  | cons f rest ih =>
    intro fl₁ hG w m h hlk hnd
    have hG' : GoodFiles ((fl₁ ++ [f]) ++ rest) := by simpa using hG
    obtain ⟨w₁, m₁, h1, h2, hn1, h3⟩ :=
      putFile_spec_nd i id fl₁ f (goodFiles_left hG') w m h hlk hnd
    obtain ⟨w₂, m₂, h4, h5, hn2, h6⟩ := ih (fl₁ ++ [f]) hG' w₁ m₁ h2 h3 hn1
    refine ⟨w₂, m₂, ?_, h5, hn2, by simpa using h6⟩
    unfold buildFolder
    simp only [bind, M.bind, h1, h4]

theorem nodupKeys_physInit : FMap.NodupKeys Phys.init := by unfold FMap.NodupKeys; decide

/-- `folder_built_lookup` with the duplicate-freeness (and well-formedness) of the built map -/
theorem folder_built_nodup (fl : List (Str × Bytes)) (hG : GoodFiles fl) :
    ∃ w' m', buildFolder 0 0 fl freshPhys = (.ok (), w') ∧ PhysLeafAt w' 0 m' ∧
      FMap.NodupKeys m' ∧ WF m' ∧ ∀ k, m'.find? k = (folderMap fl).find? k := by
  have h0 : PhysLeafAt freshPhys 0 Phys.init := rfl
  have hlk0 : ∀ k, Phys.init.find? k = (folderMap []).find? k := fun k => rfl
  obtain ⟨w', m', h1, h2, h3, h4⟩ := buildFolder_spec_nd 0 0 fl [] (by simpa using hG) freshPhys
    Phys.init h0 hlk0 nodupKeys_physInit
  have h4' : ∀ k, m'.find? k = (folderMap fl).find? k := by simpa using h4
  exact ⟨w', m', h1, h2, h3, WF_congr h4' (folderMap_wf fl), h4'⟩

/-! ### 3. end to end -/

/-- **C18, traversal, end to end**: build the folder with the model's own operations on a fresh
physical filesystem; in the resulting world, from every directory of the folder (root included)
and with enough fuel, the collected walks of EmbeddedFS and of the built physical filesystem
yield the same set of paths (Perm), each once, ancestors first on both sides, world unchanged -/
theorem embedded_walk_matches_built_folder (fl : List (Str × Bytes)) (hG : GoodFiles fl) :
    ∃ w m, buildFolder 0 0 fl freshPhys = (.ok (), w) ∧ PhysLeafAt w 0 m ∧
      FMap.NodupKeys m ∧ WF m ∧ (∀ k, m.find? k = (folderMap fl).find? k) ∧
      ∀ (cs : List Str), GoodCs cs → IsDirC fl cs → ∀ (idE idP fuel : Nat),
        ((folderMap fl).keys.filter (Wk.below (renderC cs))).length < fuel →
        ∃ LE LP : List Str,
          WkG.collect fuel (embVP fl idE (renderC cs)) w =
            (.ok (LE.map fun k => .ok (embVP fl idE k)), w) ∧
          WkG.collect fuel (physVP 0 idP (renderC cs)) w =
            (.ok (LP.map fun k => .ok (physVP 0 idP k)), w) ∧
          LE.Perm LP ∧ LE.Nodup ∧ LP.Nodup ∧
          (∀ k, k ∈ LE ↔ (folderMap fl).find? k ≠ none ∧ Wk.below (renderC cs) k = true) ∧
          LE.Pairwise (fun a b => Wk.below b a = false) ∧
          LP.Pairwise (fun a b => Wk.below b a = false) := by
  obtain ⟨w, m, h1, h2, h3, h4, h5⟩ := folder_built_nodup fl hG
  refine ⟨w, m, h1, h2, h3, h4, h5, ?_⟩
  intro cs hcs hd idE idP fuel hf
  exact embedded_walk_matches_physical_lk fl hG cs hcs hd w 0 m h2 h3 h5 idE idP fuel hf

/-! ### 4. non-vacuity -/

/-- the hypotheses on the start directory hold for the harness fixture: the root and `a/x` -/
theorem harnessFixture_walk_hyps :
    GoodFiles harnessFixture ∧ (GoodCs [] ∧ IsDirC harnessFixture []) ∧
    (GoodCs ["a".toList, "x".toList] ∧ IsDirC harnessFixture ["a".toList, "x".toList]) :=
  ⟨harnessFixture_good, ⟨by decide, isDirC_nil (by decide)⟩, by decide,
    ⟨("a/x/y.bin".toList, [8, 9]), by decide, "y.bin".toList, [], by decide⟩⟩

/-- the end-to-end theorem instantiated: harness fixture, from the root -/
theorem harnessFixture_walk_root :
    ∃ (w : World) (fuel : Nat) (LE LP : List Str), buildFolder 0 0 harnessFixture freshPhys = (.ok (), w) ∧
      WkG.collect fuel (embVP harnessFixture 0 []) w =
        (.ok (LE.map fun k => .ok (embVP harnessFixture 0 k)), w) ∧
      WkG.collect fuel (physVP 0 0 []) w = (.ok (LP.map fun k => .ok (physVP 0 0 k)), w) ∧
      LE.Perm LP ∧ LE.Nodup := by
  obtain ⟨w, m, h1, _, _, _, _, hw⟩ := embedded_walk_matches_built_folder harnessFixture
    harnessFixture_good
  obtain ⟨LE, LP, a, b, c, d, _⟩ := hw [] harnessFixture_walk_hyps.2.1.1
    harnessFixture_walk_hyps.2.1.2 0 0 _ (Nat.lt_succ_self _)
  exact ⟨w, _, LE, LP, h1, a, b, c, d⟩

/-- the path strings of a collected walk whose every item is `.ok` -/
def okPaths : Res (List (Res VPath)) → Option (List Str)
  | .ok l => l.mapM (fun r => match r with | .ok v => some v.path | _ => none)
  | _ => none

/-- both walks succeeded with `.ok` items only, non-empty, the same set of paths -/
def sameSetB : Option (List Str) → Option (List Str) → Bool
  | some a, some b => a.length == b.length && a.length != 0 && a.all (b.contains ·) &&
      b.all (a.contains ·)
  | _, _ => false

/-- by kernel evaluation, on the world the build of the harness fixture produces: both collected
walks from the root succeed with `.ok` items only, the same set -/
theorem harnessFixture_walk_eval :
    sameSetB
      (okPaths (WkG.collect 40 (embVP harnessFixture 0 [])
        (buildFolder 0 0 harnessFixture freshPhys).2).1)
      (okPaths (WkG.collect 40 (physVP 0 0 [])
        (buildFolder 0 0 harnessFixture freshPhys).2).1) = true := by decide +kernel

end Vfs.C18

#print axioms Vfs.C18.embedded_walk_matches_physical_lk
#print axioms Vfs.C18.folder_built_nodup
#print axioms Vfs.C18.embedded_walk_matches_built_folder
#print axioms Vfs.C18.harnessFixture_walk_root
#print axioms Vfs.C18.harnessFixture_walk_eval
