/-
  C17 for an overlay whose layers are SUB-DIRECTORY PATHS of in-memory filesystems
  (`OverlayFS::new(&[fs_u_root.join("layers/up")?, fs_l_root.join("low")?, …])`), under ALL
  interleavings of layer calls — the analogue of `overlay_create_dir_all_concurrent`
  (Props/C17OverlayConc.lean, layers = roots of memory filesystems).

  Object: the interleaving model VfsModel/OverlayConc.lean, program `OConc.createDirAll layers p`
  (tied to the modelled code for ARBITRARY layers by `small_step_is_createDirAll`), layers
  `layersSub (u :: is) (idu :: ids) (bu :: bs)` = the directory `renderC b_i` of leaf `i`.

  PROVED (no sorry, no axiom beyond propext / Classical.choice / Quot.sound):
  `overlay_subdir_create_dir_all_concurrent` : the leaves `u :: is` are pairwise distinct memory
  leaves holding `Mu0 :: Ms` (`OWN`); bases canonical (`GoodComp` components, possibly empty = the
  root); the proper ancestors of the write base are directories of `Mu0` (`AncOK`); with
  `mu0 := sub (renderC bu) Mu0` (the write leaf's map re-rooted at the base, Proofs/SubtreeSim.lean)
  and `ms := subMs bs Ms` (the lower leaves' maps re-rooted at their bases) the hypotheses of the
  root-layer theorem: `PathsOK paths`, `RootOk mu0` (the base is a directory, no root marker), no
  FILE of the view at a requested prefix (`hnofile`), `hghost`, `hmark`.  Then for EVERY schedule,
  at every moment, there is a map `Mu` of leaf `u` with
    (a) `s.world = w0.setLeafFiles u Mu` (other leaves, ghost fields untouched), `OWN`,
        `Evolve paths mu0 (sub (renderC bu) Mu)` (below the base: entries persist except cleared
        markers of requested prefixes, new entries are directories at requested prefixes) and
        `Out bu Mu0 Mu` (NOTHING outside the subtree at the write base changed);
    (b) every thread that has returned has returned `Ok(())`, and every non-empty prefix of ITS
        path is a directory of the n-layer view of the re-rooted maps;
    (c) when all threads have finished all results are `Ok(())` and every requested prefix is a
        directory of that view.
  Proof: NOT a re-proof of the thread lemmas.  The program over sub-directory layers REFINES the
  program over root layers call for call (`SConc.ref_createDirAll`,
  Proofs/OverlaySubdirConcProg.lean), up to stutter steps (`create_dir_all` on the write path walks
  the prefixes of the base first: `DirectoryExists`, no change) and error-path labels; the
  thread specification `OConc.sp_createDirAll` of the root-layer program on the re-rooted world
  `absW spec w` is transferred along the refinement (`SConc.transfer`,
  Proofs/OverlaySubdirConcRef.lean) to a `wpR` specification of the real program under the real
  rely `RC`; then `run_SInv` as before.
  `wS_instance` : the theorem instantiated on the world `wS` of
  Props/C17OverlaySubdirConcEval.lean (layers "/layers/up" of leaf 1 and "/low" of leaf 0, whiteout
  at "/c", threads "/c/x", "/c/y"), for every schedule.

  NOT PROVED: two layers living in the SAME leaf (e.g. "/layers/up" and "/low" of one MemoryFS:
  `OWN` demands distinct leaves); PhysicalFS leaves; concurrent removals / file creation.
  Do not import together with Props/C17.lean (TransferLemmas / OverlayLemmas name clash).
-/
import VfsModel.Proofs.OverlaySubdirConcProg
import VfsModel.Props.C17OverlaySubdirConcEval
set_option linter.unusedVariables false
set_option linter.unusedSimpArgs false
namespace Vfs.C17
open Vfs Vfs.Overlay Vfs.OConc Vfs.SConc

/-- the layers: directory `renderC b_i` of leaf `i` -/
def layersSub : List Nat → List Nat → List (List Str) → List VPath
  | i :: is, id :: ids, b :: bs =>
    { fs := leafFS i, fsId := id, path := renderC b } :: layersSub is ids bs
  | _, _, _ => []

/-- leaf ↦ base -/
def specOf : List Nat → List (List Str) → Nat → Option Str
  | i :: is, b :: bs, j => if j = i then some (renderC b) else specOf is bs j
  | _, _, _ => none

theorem _root_.Vfs.SConc.SpecFor.congr {spec spec' : Nat → Option Str} {is : List Nat} {bs : List (List Str)}
    (h : SpecFor spec is bs) (he : ∀ j ∈ is, spec' j = spec j) : SpecFor spec' is bs := by
  induction h with
  | nil => exact .nil
  | cons hb _ ih =>
    exact .cons (by rw [he _ (by simp)]; exact hb) (ih (fun j hj => he j (by simp [hj])))

theorem specFor_specOf : ∀ (is : List Nat) (bs : List (List Str)), is.Nodup →
    bs.length = is.length → SpecFor (specOf is bs) is bs
  | [], [], _, _ => .nil
  | [], _ :: _, _, h => by simp at h
  | _ :: _, [], _, h => by simp at h
  | i :: is, b :: bs, hnd, hl => by
    have hnd' := List.nodup_cons.1 hnd
    refine .cons (by simp [specOf]) ?_
    refine (specFor_specOf is bs hnd'.2 (by simpa using hl)).congr ?_
    intro j hj
    have : j ≠ i := fun e => hnd'.1 (e ▸ hj)
    simp [specOf, this]

theorem lrel_layers {spec : Nat → Option Str} (ls : List Nat) :
    ∀ (is ids : List Nat) (bs : List (List Str)), (∀ i ∈ is, i ∈ ls) → SpecFor spec is bs →
      (∀ b ∈ bs, ∀ c ∈ b, GoodComp c) → is.length = ids.length →
      LRel spec ls (layersSub is ids bs) (layersN is ids) := by
  intro is ids bs hsub hs
  induction hs generalizing ids with
  | nil => intro _ _; cases ids <;> exact .nil
  | @cons i b is bs hb _ ih =>
    intro hg hl
    cases ids with
    | nil => simp at hl
    | cons id ids =>
      exact .cons (hsub i (by simp)) hb (hg b (by simp))
        (ih ids (fun j hj => hsub j (by simp [hj])) (fun b' hb' => hg b' (by simp [hb']))
          (by simpa using hl))

section main
variable {u idu : Nat} {is ids : List Nat} {Ms : List FMap} {bu : List Str}
  {bs : List (List Str)} {paths : List (List Str)}

/-- **overlay_subdir_create_dir_all_concurrent** (C17 for OverlayFS over sub-directory paths of n
memory filesystems, every interleaving of layer calls). See the header. -/
theorem overlay_subdir_create_dir_all_concurrent (w0 : World) (Mu0 : FMap)
    (hown : OWN w0 (u :: is) (idu :: ids) (Mu0 :: Ms)) (hlen : bs.length = is.length)
    (hbu : ∀ c ∈ bu, GoodComp c) (hbs : ∀ b ∈ bs, ∀ c ∈ b, GoodComp c)
    (hanc : AncOK (renderC bu) Mu0) (hp : PathsOK paths)
    (hroot : RootOk (sub (renderC bu) Mu0))
    (hnofile : ∀ cs ∈ paths, ∀ j, 1 ≤ j → j ≤ cs.length →
      ∀ e, viewN (sub (renderC bu) Mu0 :: subMs bs Ms) (renderC (cs.take j)) = some e →
        e.ftype = .dir)
    (hghost : ∀ q, Req paths q → (sub (renderC bu) Mu0).contains (marker q) = true →
      ∀ e, (sub (renderC bu) Mu0).find? q = some e → e.ftype = .dir)
    (hmark : ∀ q, Req paths q →
      ∀ e, (sub (renderC bu) Mu0).find? (marker q) = some e → e.ftype = .file)
    (schedule : List Nat) :
    let s := OConc.run
      (initSys (layersSub (u :: is) (idu :: ids) (bu :: bs)) w0 (paths.map renderC)) schedule
    ∃ Mu,
      -- (a)
      (s.world = w0.setLeafFiles u Mu ∧ OWN s.world (u :: is) (idu :: ids) (Mu :: Ms) ∧
        Evolve paths (sub (renderC bu) Mu0) (sub (renderC bu) Mu) ∧ Out bu Mu0 Mu) ∧
      -- (b)
      (s.threads.length = paths.length ∧
       ∀ (i : Nat) (cs : List Str) (r : Res Unit), paths[i]? = some cs →
        s.results[i]? = some (some r) →
        r = .ok () ∧ ∀ j, 1 ≤ j → j ≤ cs.length →
          ∃ e, viewN (sub (renderC bu) Mu :: subMs bs Ms) (renderC (cs.take j)) = some e ∧
            e.ftype = .dir) ∧
      -- (c)
      (s.finished = true →
        s.results = paths.map (fun _ => some (.ok ())) ∧
        ∀ cs ∈ paths, ∀ j, 1 ≤ j → j ≤ cs.length →
          ∃ e, viewN (sub (renderC bu) Mu :: subMs bs Ms) (renderC (cs.take j)) = some e ∧
            e.ftype = .dir) := by
  intro s
  -- the setting
  have hnd : (u :: is).Nodup := hown.nodup
  have hl1 : is.length = ids.length := by have := hown.len_ids; simpa using this
  have hlM : is.length = Ms.length := by have := hown.len_ms; simpa using this
  have hl2 : is.length = (subMs bs Ms).length := by
    simp only [subMs, List.length_zipWith]; omega
  let spec := specOf (u :: is) (bu :: bs)
  have hspecAll : SpecFor spec (u :: is) (bu :: bs) :=
    specFor_specOf (u :: is) (bu :: bs) hnd (by simpa using hlen)
  obtain ⟨hspecu, hspec⟩ : spec u = some (renderC bu) ∧ SpecFor spec is bs := by
    cases hspecAll with
    | cons h1 h2 => exact ⟨h1, h2⟩
  have hL : LRel spec (u :: is) (layersSub is ids bs) (layersN is ids) :=
    lrel_layers (u :: is) is ids bs (fun i hi => by simp [hi]) hspec hbs hl1
  have hinv0 : CInv bu Mu0 := by
    refine ⟨hanc, ?_⟩
    obtain ⟨e, he, hd⟩ := hroot.root
    exact ⟨e, by rw [← find?_sub_nil]; exact he, hd⟩
  have g0 : GI (subMs bs Ms) paths (sub (renderC bu) Mu0) := GI_init _ hroot
    (fun q ⟨cs, hcs, j, h1, h2, hq⟩ e he => hnofile cs hcs j h1 h2 e (hq ▸ he)) hghost hmark
  -- the postconditions of the threads
  let Q' : List Str → Res Unit → World → Prop := fun cs r w' =>
    ∃ mu', St u idu is ids (subMs bs Ms) w' mu' ∧
      (r = .ok () ∧ VisUpTo (subMs bs Ms) cs cs.length mu')
  let Qs : List (Res Unit → World → Prop) := paths.map fun cs => fun r w' =>
    ∃ r', RR EqV r r' ∧ Q' cs r' (absW spec w')
  have hR : ∀ w, RC u idu is ids Ms bu paths w w := RC.refl
  have hT : ∀ a b c, RC u idu is ids Ms bu paths a b → RC u idu is ids Ms bu paths b c →
      RC u idu is ids Ms bu paths a c := RC.trans hp
  have hinit : SInv (RC u idu is ids Ms bu paths) Qs w0
      (initSys (layersSub (u :: is) (idu :: ids) (bu :: bs)) w0 (paths.map renderC)) := by
    refine ⟨hR w0, by simp [initSys, Qs], ?_⟩
    intro i t Q ht hQ
    simp only [initSys, List.map_map, List.getElem?_map] at ht
    simp only [Qs, List.getElem?_map] at hQ
    cases hpi : paths[i]? with
    | none => simp [hpi] at ht
    | some cs =>
      simp only [hpi, Option.map_some, Option.some.injEq, Function.comp] at ht hQ
      subst ht; subst hQ
      have hcs := List.mem_of_getElem? hpi
      have href : Ref spec (u :: is) u bu EqV
          (OConc.createDirAll (layersSub (u :: is) (idu :: ids) (bu :: bs)) (renderC cs))
          (OConc.createDirAll (layersN (u :: is) (idu :: ids)) (renderC cs)) :=
        ref_createDirAll (ls := u :: is) (by simp) hspecu hbu hL cs (hp cs hcs).1
      exact transfer hspecu hspec hp hbu href (Q' cs) w0 Mu0 hown hinv0
        (sp_createDirAll hp hl1 hl2 cs hcs _ g0 _ (abs_st hspecu hspec hown))
  have hinv : SInv (RC u idu is ids Ms bu paths) Qs w0 s := run_SInv hR hT Qs w0 _ schedule hinit
  obtain ⟨Mu, hw, hev, hout⟩ := hinv.rel Mu0 hown
  have hownS : OWN s.world (u :: is) (idu :: ids) (Mu :: Ms) := by rw [hw]; exact hown.setHead Mu
  have hstA : St u idu is ids (subMs bs Ms) (absW spec s.world) (sub (renderC bu) Mu) :=
    abs_st hspecu hspec hownS
  have hlen' : s.threads.length = paths.length := by rw [hinv.len]; simp [Qs]
  have hb : ∀ (i : Nat) (cs : List Str) (r : Res Unit), paths[i]? = some cs →
      s.results[i]? = some (some r) →
      r = .ok () ∧ ∀ j, 1 ≤ j → j ≤ cs.length →
        ∃ e, viewN (sub (renderC bu) Mu :: subMs bs Ms) (renderC (cs.take j)) = some e ∧
          e.ftype = .dir := by
    intro i cs r hpi hres
    simp only [Sys.results, List.getElem?_map] at hres
    cases hti : s.threads[i]? with
    | none => simp [hti] at hres
    | some t =>
      simp only [hti, Option.map_some, Option.some.injEq] at hres
      cases t with
      | done r' =>
        simp only [Prog.result?, Option.some.injEq] at hres
        subst hres
        have hQ : Qs[i]? = some (fun r w' => ∃ r', RR EqV r r' ∧ Q' cs r' (absW spec w')) := by
          simp [Qs, hpi]
        obtain ⟨r2, hrr, mu', hst', hr, hvis⟩ := wpR_done hR _ _ _ (hinv.thr i _ _ hti hQ)
        have := St.unique hstA hst'
        subst this
        subst hr
        refine ⟨?_, fun j h1 h2 => (hvis j h1 h2).view⟩
        cases r' <;> simp [RR] at hrr
        rfl
      | exists_ _ _ _ => simp [Prog.result?] at hres
      | metadata _ _ _ => simp [Prog.result?] at hres
      | createDir _ _ _ => simp [Prog.result?] at hres
      | removeFile _ _ _ => simp [Prog.result?] at hres
  refine ⟨Mu, ⟨hw, hownS, hev, hout⟩, ⟨hlen', hb⟩, ?_⟩
  intro hfin
  have hall : ∀ (i : Nat) (cs : List Str), paths[i]? = some cs →
      s.results[i]? = some (some (.ok ())) ∧
      ∀ j, 1 ≤ j → j ≤ cs.length →
        ∃ e, viewN (sub (renderC bu) Mu :: subMs bs Ms) (renderC (cs.take j)) = some e ∧
          e.ftype = .dir := by
    intro i cs hpi
    have hlt : i < s.threads.length := by rw [hlen']; exact (List.getElem?_eq_some_iff.1 hpi).1
    have hti : s.threads[i]? = some s.threads[i] := List.getElem?_eq_getElem hlt
    have hsome : (s.threads[i]).result?.isSome = true := by
      have := List.all_eq_true.1 hfin s.threads[i] (List.getElem_mem hlt)
      simpa using this
    obtain ⟨r, hr⟩ := Option.isSome_iff_exists.1 hsome
    have hres : s.results[i]? = some (some r) := by
      simp [Sys.results, hti, hr]
    obtain ⟨hok, hd⟩ := hb i cs r hpi hres
    subst hok
    exact ⟨hres, hd⟩
  refine ⟨?_, ?_⟩
  · apply List.ext_getElem?
    intro i
    cases hpi : paths[i]? with
    | none =>
      have : paths.length ≤ i := by
        rcases Nat.lt_or_ge i paths.length with h | h
        · rw [List.getElem?_eq_getElem h] at hpi; cases hpi
        · exact h
      simp [Sys.results, hpi, List.getElem?_eq_none (by rw [hlen']; exact this)]
    | some cs => rw [(hall i cs hpi).1]; simp [hpi]
  · intro cs hcs
    obtain ⟨i, hi⟩ := List.mem_iff_getElem?.1 hcs
    exact (hall i cs hi).2

/-- what the view of the re-rooted maps says about the real leaf: a directory of the view that
comes from the write layer is the entry of leaf `u` at the key below the base -/
theorem sub_find (P : Str) (M : FMap) (cs : List Str) (hcs : ∀ c ∈ cs, GoodComp c) :
    (sub P M).find? (renderC cs) = M.find? (P ++ renderC cs) :=
  find?_sub P M _ (Canon.rooted ⟨cs, hcs, rfl⟩)

end main

/-! ## the example of Props/C17OverlaySubdirConcEval.lean, for every schedule -/

example : layersSub [1, 0] [7, 8] [[['l', 'a', 'y', 'e', 'r', 's'], ['u', 'p']], [['l', 'o', 'w']]] = layS := rfl

theorem wS_setting : OWN wS [1, 0] [7, 8] [muS, mlS] :=
  .cons rfl (by decide) (.cons rfl (by decide) .nil)

theorem sub_muS : sub sUp muS = muC := by decide
theorem sub_mlS : sub sLow mlS = mlC := by decide

/-- the theorem instantiated on `wS`, for EVERY schedule: all results that exist are `Ok`; when
both threads have finished "/c", "/c/x", "/c/y" are directories of the view; leaf 1 changed only
below "/layers/up" -/
theorem wS_instance (schedule : List Nat) :
    ∃ Mu, (OConc.run sNewS schedule).world = wS.setLeafFiles 1 Mu ∧
      Evolve pathsC muC (sub sUp Mu) ∧
      Mu.find? sLayers = some dirEntryNow ∧ Mu.find? [] = some dirEntryNow ∧
      (∀ (i : Nat) (r : Res Unit), i < 2 → (OConc.run sNewS schedule).results[i]? = some (some r) →
        r = .ok ()) ∧
      ((OConc.run sNewS schedule).finished = true →
        (OConc.run sNewS schedule).results = [some (.ok ()), some (.ok ())] ∧
        ∀ q ∈ [kC, pX, pY], ∃ e, viewN [sub sUp Mu, mlC] q = some e ∧ e.ftype = .dir) := by
  have hroot : RootOk muC := ⟨⟨_, rfl, rfl⟩, by decide⟩
  have hnofile : ∀ q, Req pathsC q → ∀ e, viewN [muC, mlC] q = some e → e.ftype = .dir := by
    intro q hq e he
    have hnone : viewN [muC, mlC] q = none := by
      rcases req_cases hq with rfl | rfl | rfl <;> decide
    rw [hnone] at he; cases he
  have hghost : ∀ q, Req pathsC q → muC.contains (marker q) = true →
      ∀ e, muC.find? q = some e → e.ftype = .dir := by
    intro q hq _ e he
    have hnone : muC.find? q = none := by
      rcases req_cases hq with rfl | rfl | rfl <;> decide
    rw [hnone] at he; cases he
  have hmark : ∀ q, Req pathsC q → ∀ e, muC.find? (marker q) = some e → e.ftype = .file := by
    intro q hq e he
    rcases req_cases hq with rfl | rfl | rfl
    · have : muC.find? (marker kC) = some (fileOf' []) := by decide
      rw [this] at he; injection he with he; subst he; rfl
    · have : muC.find? (marker pX) = none := by decide
      rw [this] at he; cases he
    · have : muC.find? (marker pY) = none := by decide
      rw [this] at he; cases he
  have hbu : ∀ c ∈ [['l', 'a', 'y', 'e', 'r', 's'], ['u', 'p']], GoodComp c := by decide
  have hsUp : renderC [['l', 'a', 'y', 'e', 'r', 's'], ['u', 'p']] = sUp := by decide
  have hsLow : renderC [['l', 'o', 'w']] = sLow := by decide
  have hms : subMs [[['l', 'o', 'w']]] [mlS] = [mlC] := by
    simp only [subMs, List.zipWith, hsLow, sub_mlS]
  have hanc : AncOK sUp muS := by
    intro ps hps hP j hj
    have hps' : ps = [['l', 'a', 'y', 'e', 'r', 's'], ['u', 'p']] := by
      have h1 : splitSlash ((renderC ps).drop 1) = splitSlash (sUp.drop 1) := by rw [← hP]
      have hne : ps ≠ [] := by intro h0; subst h0; simp [sUp] at hP
      rw [splitSlash_drop_renderC ps hne (good_noSlash hps)] at h1
      rw [h1]; decide
    subst hps'
    have : j = 0 ∨ j = 1 := by simp at hj; omega
    rcases this with rfl | rfl
    · exact ⟨dirEntryNow, by decide, rfl⟩
    · exact ⟨dirEntryNow, by decide, rfl⟩
  obtain ⟨Mu, ⟨hw, _, hev, hout⟩, ⟨_, hb⟩, hc⟩ :=
    overlay_subdir_create_dir_all_concurrent (u := 1) (idu := 7) (is := [0]) (ids := [8])
      (Ms := [mlS]) (bu := [['l', 'a', 'y', 'e', 'r', 's'], ['u', 'p']]) (bs := [[['l', 'o', 'w']]])
      (paths := pathsC) wS muS wS_setting rfl hbu (by decide) (by rw [hsUp]; exact hanc) pathsC_ok
      (by rw [hsUp, sub_muS]; exact hroot)
      (by rw [hsUp, sub_muS, hms]
          exact fun cs hcs j h1 h2 e he => hnofile _ ⟨cs, hcs, j, h1, h2, rfl⟩ e he)
      (by rw [hsUp, sub_muS]; exact hghost) (by rw [hsUp, sub_muS]; exact hmark) schedule
  rw [hsUp, sub_muS] at hev
  rw [hsUp, hms] at hb hc
  refine ⟨Mu, hw, hev, ?_, ?_, ?_, ?_⟩
  · rw [hout sLayers (by rw [hsUp]; decide)]; decide
  · rw [hout [] (by rw [hsUp]; decide)]; decide
  · intro i r hi hres
    have h2 : i = 0 ∨ i = 1 := by omega
    rcases h2 with rfl | rfl
    · exact (hb 0 _ r rfl hres).1
    · exact (hb 1 _ r rfl hres).1
  · intro hfin
    obtain ⟨h1, h2⟩ := hc hfin
    refine ⟨h1, ?_⟩
    intro q hq
    simp only [List.mem_cons, List.not_mem_nil, or_false] at hq
    rcases hq with rfl | rfl | rfl
    · exact h2 [['c'], ['x']] (by simp [pathsC]) 1 (by omega) (by simp)
    · exact h2 [['c'], ['x']] (by simp [pathsC]) 2 (by omega) (by simp)
    · exact h2 [['c'], ['y']] (by simp [pathsC]) 2 (by omega) (by simp)

end Vfs.C17

#print axioms Vfs.C17.overlay_subdir_create_dir_all_concurrent
#print axioms Vfs.C17.wS_instance
