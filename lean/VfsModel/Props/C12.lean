/-
  C12 — Errors name the caller's path and classify consistently.

  Part 1 (labels). `ErrPathIn S m`: whenever `m` ends in an error, that error carries a path
  (never the placeholder `none`) and the path satisfies `S`. Proved for the operations of the
  `VfsPath` layer over an ARBITRARY filesystem record `p.fs`: nothing is assumed about the
  labels — or the absence of labels — on the errors of the backend.
  The one place where the layer does not relabel is `VfsPath::exists`; the operations that call
  it (`get_parent`, hence `create_dir` / `create_file`; `is_file`, `is_dir`, `remove_dir_all`)
  are therefore stated under `ExistsTotal p.fs` (the backend's `exists` never returns an
  error — true of MemoryFS, PhysicalFS, EmbeddedFS, and AltrootFS over such a filesystem), and
  the hypothesis is shown to be necessary.

  Part 2 (classes). Relabelling never changes the kind; trailing-slash joins are `InvalidPath`;
  trait defaults are `NotSupported`; an occupied path is `FileExists` / `DirectoryExists` by
  occupant; an entry missing from an existing directory is not-found on both backends.
-/
import VfsModel.Leaf
import VfsModel.PathOps
import VfsModel.Adapters
import VfsModel.Embedded
import VfsModel.Proofs.Hoare
import VfsModel.Proofs.PreservesOps
import VfsModel.Proofs.FMapLemmas
import VfsModel.Props.C06
namespace Vfs.C12

/-- every error of `m` carries a path, and that path satisfies `S` -/
def ErrPathIn {α} (S : Str → Prop) (m : M α) : Prop :=
  ∀ w k pth, (m w).1 = .err k pth → ∃ s, pth = some s ∧ S s

/-- `m` never ends in an error (it may succeed or panic) -/
def NoErr {α} (m : M α) : Prop := ∀ w k pth, (m w).1 ≠ .err k pth

/-- the backend's `exists` never returns an error -/
def ExistsTotal (fs : FS) : Prop := ∀ q, NoErr (fs.exists_ q)

/-! ### the calculus -/
namespace ErrPathIn
variable {α β : Type} {S T : Str → Prop}

theorem of_noErr {m : M α} (h : NoErr m) : ErrPathIn S m :=
  fun w k pth he => absurd he (h w k pth)

theorem mono {m : M α} (hst : ∀ s, S s → T s) (h : ErrPathIn S m) : ErrPathIn T m := by
  intro w k pth he
  obtain ⟨s, h1, h2⟩ := h w k pth he
  exact ⟨s, h1, hst s h2⟩

theorem pure (a : α) : ErrPathIn S (Pure.pure a : M α) := by
  intro w k pth he; cases he

theorem mpure (a : α) : ErrPathIn S (M.pure a) := by
  intro w k pth he; cases he

theorem failAt (k : ErrKind) (p : Str) (hp : S p) : ErrPathIn S (M.failAt k p : M α) := by
  intro w k' pth he
  simp only [M.failAt, Res.err.injEq] at he
  exact ⟨p, he.2.symm, hp⟩

/-- the relabelling: whatever the inner computation put on its error, the label is now `p` -/
theorem withPath (p : Str) (m : M α) (hp : S p) : ErrPathIn S (M.withPath p m) := by
  intro w k pth he
  unfold M.withPath at he
  cases hr : (m w).1 with
  | ok a => simp [hr, Res.withPath] at he
  | err k' p' =>
    simp only [hr, Res.withPath, Res.err.injEq] at he
    exact ⟨p, he.2.symm, hp⟩
  | panic => simp [hr, Res.withPath] at he

theorem bind {m : M α} {f : α → M β} (hm : ErrPathIn S m) (hf : ∀ a, ErrPathIn S (f a)) :
    ErrPathIn S (m >>= f) := by
  intro w k pth
  show ((M.bind m f) w).1 = .err k pth → _
  unfold M.bind
  have := hm w
  split
  · rename_i a w' heq; exact hf a w' k pth
  · rename_i k' p' w' heq
    intro he
    simp only [Res.err.injEq] at he
    rw [heq] at this
    obtain ⟨h1, h2⟩ := he
    subst h1; subst h2
    exact this k' p' rfl
  · intro he; cases he

/-- `bind` with a postcondition on the value handed to the continuation -/
theorem bindQ {m : M α} {f : α → M β} (Q : α → Prop) (hq : Returns m Q) (hm : ErrPathIn S m)
    (hf : ∀ a, Q a → ErrPathIn S (f a)) : ErrPathIn S (m >>= f) := by
  intro w k pth
  show ((M.bind m f) w).1 = .err k pth → _
  unfold M.bind
  have := hm w
  have hq' := hq.post w
  split
  · rename_i a w' heq; rw [heq] at hq'; exact hf a (hq' a rfl) w' k pth
  · rename_i k' p' w' heq
    intro he
    simp only [Res.err.injEq] at he
    rw [heq] at this
    obtain ⟨h1, h2⟩ := he
    subst h1; subst h2
    exact this k' p' rfl
  · intro he; cases he

theorem ite {c : Prop} [Decidable c] {a b : M α} (ha : ErrPathIn S a) (hb : ErrPathIn S b) :
    ErrPathIn S (if c then a else b) := by
  split <;> assumption

end ErrPathIn

theorem NoErr.pure {α} (a : α) : NoErr (Pure.pure a : M α) := by
  intro w k pth he; cases he

theorem NoErr.attempt {α} (m : M α) : NoErr (M.attempt m) := by
  intro w k pth he; simp [M.attempt] at he

theorem NoErr.ret_ok {α} (a : α) : NoErr (M.ret (.ok a)) := by
  intro w k pth he; cases he

theorem NoErr.ret_panic {α} : NoErr (M.ret (.panic : Res α)) := by
  intro w k pth he; cases he

/-! ### Part 1a: the single-path operations, for an arbitrary backend -/
section SinglePath
variable (p : VPath)

theorem metadata_err : ErrPathIn (· = p.path) p.metadata := ErrPathIn.withPath _ _ rfl
theorem openFile_err : ErrPathIn (· = p.path) p.openFile := ErrPathIn.withPath _ _ rfl
theorem appendFile_err : ErrPathIn (· = p.path) p.appendFile := ErrPathIn.withPath _ _ rfl
theorem removeFile_err : ErrPathIn (· = p.path) p.removeFile := ErrPathIn.withPath _ _ rfl
theorem removeDir_err : ErrPathIn (· = p.path) p.removeDir := ErrPathIn.withPath _ _ rfl
theorem setCreationTime_err (t : Int) : ErrPathIn (· = p.path) (p.setCreationTime t) :=
  ErrPathIn.withPath _ _ rfl
theorem setModificationTime_err (t : Int) : ErrPathIn (· = p.path) (p.setModificationTime t) :=
  ErrPathIn.withPath _ _ rfl
theorem setAccessTime_err (t : Int) : ErrPathIn (· = p.path) (p.setAccessTime t) :=
  ErrPathIn.withPath _ _ rfl

theorem readDir_err : ErrPathIn (· = p.path) p.readDir := by
  unfold VPath.readDir
  exact ErrPathIn.bind (ErrPathIn.withPath _ _ rfl) (fun _ => ErrPathIn.pure _)

theorem walkDir_err : ErrPathIn (· = p.path) p.walkDir := by
  unfold VPath.walkDir
  exact ErrPathIn.bind (readDir_err p) (fun _ => ErrPathIn.pure _)

/-- `read_to_string` / `read_to_end` after the type check -/
theorem readToEndChecked_err : ErrPathIn (· = p.path) p.readToEndChecked := by
  unfold VPath.readToEndChecked
  refine ErrPathIn.bind (metadata_err p) (fun md => ?_)
  refine ErrPathIn.ite (ErrPathIn.failAt _ _ rfl) ?_
  exact ErrPathIn.bind (openFile_err p) (fun h => ErrPathIn.withPath _ _ rfl)

/-- the four transfers are wrapped as a whole: every error names the source -/
theorem copyFile_err (src dst : VPath) : ErrPathIn (· = src.path) (src.copyFile dst) := by
  unfold VPath.copyFile; exact ErrPathIn.withPath _ _ rfl
theorem moveFile_err (src dst : VPath) : ErrPathIn (· = src.path) (src.moveFile dst) := by
  unfold VPath.moveFile; exact ErrPathIn.withPath _ _ rfl
theorem copyDir_err (fuel : Nat) (src dst : VPath) :
    ErrPathIn (· = src.path) (VPath.copyDir fuel src dst) := by
  unfold VPath.copyDir; exact ErrPathIn.withPath _ _ rfl
theorem moveDir_err (fuel : Nat) (src dst : VPath) :
    ErrPathIn (· = src.path) (VPath.moveDir fuel src dst) := by
  unfold VPath.moveDir; exact ErrPathIn.withPath _ _ rfl

end SinglePath

/-! ### Part 1b: operations that consult `exists` -/

/-- `get_parent`: its own two errors name `p`; the metadata error of the parent names the
parent; the error of `exists` (not relabelled) is excluded by the hypothesis -/
theorem getParent_err (p : VPath) (h : ExistsTotal p.fs) :
    ErrPathIn (fun s => s = p.path ∨ s = parentInternal p.path) p.getParent := by
  unfold VPath.getParent
  refine ErrPathIn.bind (ErrPathIn.of_noErr (h _)) (fun b => ?_)
  refine ErrPathIn.ite (ErrPathIn.failAt _ _ (Or.inl rfl)) ?_
  refine ErrPathIn.bind ?_ (fun md => ?_)
  · exact ErrPathIn.mono (fun s hs => Or.inr hs) (metadata_err p.parent)
  · exact ErrPathIn.ite (ErrPathIn.failAt _ _ (Or.inl rfl)) (ErrPathIn.pure _)

theorem createDir_err (p : VPath) (h : ExistsTotal p.fs) :
    ErrPathIn (fun s => s = p.path ∨ s = parentInternal p.path) p.createDir := by
  unfold VPath.createDir
  exact ErrPathIn.bind (getParent_err p h) (fun _ => ErrPathIn.withPath _ _ (Or.inl rfl))

theorem createFile_err (p : VPath) (h : ExistsTotal p.fs) :
    ErrPathIn (fun s => s = p.path ∨ s = parentInternal p.path) p.createFile := by
  unfold VPath.createFile
  exact ErrPathIn.bind (getParent_err p h) (fun _ => ErrPathIn.withPath _ _ (Or.inl rfl))

/-- the part of `create_dir` / `create_file` after the parent check names `p` exactly -/
theorem createDir_backend_err (p : VPath) :
    ErrPathIn (· = p.path) (M.withPath p.path (p.fs.createDir p.path)) :=
  ErrPathIn.withPath _ _ rfl

/-- without any hypothesis on the backend: an error of `get_parent` is either the raw error of
the backend's `exists` on the parent (handed on unchanged), or labelled with `p` or its parent -/
theorem getParent_err_general (p : VPath) (w : World) (k : ErrKind) (pth : Option Str)
    (he : (p.getParent w).1 = .err k pth) :
    (p.fs.exists_ (parentInternal p.path) w).1 = .err k pth ∨
      pth = some p.path ∨ pth = some (parentInternal p.path) := by
  by_cases hx : (p.fs.exists_ (parentInternal p.path) w).1 = .err k pth
  · exact Or.inl hx
  · right
    revert he
    show ((M.bind p.parent.exists_ _) w).1 = _ → _
    unfold M.bind
    split
    · rename_i b w' heq
      intro he
      have : ErrPathIn (fun s => s = p.path ∨ s = parentInternal p.path)
          (if (!b) = true then M.failAt .other p.path
            else do
              let md ← p.parent.metadata
              if md.ftype ≠ .dir then M.failAt .other p.path else pure ()) := by
        refine ErrPathIn.ite (ErrPathIn.failAt _ _ (Or.inl rfl)) ?_
        refine ErrPathIn.bind ?_ (fun md => ?_)
        · exact ErrPathIn.mono (fun s hs => Or.inr hs) (metadata_err p.parent)
        · exact ErrPathIn.ite (ErrPathIn.failAt _ _ (Or.inl rfl)) (ErrPathIn.pure _)
      obtain ⟨s, h1, h2⟩ := this w' k pth he
      rcases h2 with rfl | rfl
      · exact Or.inl h1
      · exact Or.inr h1
    · rename_i k' p' w' heq
      intro he
      exfalso; apply hx
      have : (p.fs.exists_ (parentInternal p.path) w) = (Res.err k' p', w') := heq
      simp only [Res.err.injEq] at he
      rw [this, he.1, he.2]
    · intro he; cases he
/-- the same for `create_dir` and `create_file`: whatever the backend, the only error that
does not name `p` or its parent is the backend's own `exists` error on the parent -/
theorem createDir_err_general (p : VPath) (w : World) (k : ErrKind) (pth : Option Str)
    (he : (p.createDir w).1 = .err k pth) :
    (p.fs.exists_ (parentInternal p.path) w).1 = .err k pth ∨
      pth = some p.path ∨ pth = some (parentInternal p.path) := by
  revert he
  show ((M.bind p.getParent _) w).1 = _ → _
  unfold M.bind
  split
  · intro he
    obtain ⟨s, h1, h2⟩ := createDir_backend_err p _ k pth he
    subst h2; exact Or.inr (Or.inl h1)
  · rename_i k' p' w' heq
    intro he
    simp only [Res.err.injEq] at he
    exact getParent_err_general p w k pth (by rw [heq, he.1, he.2])
  · intro he; cases he

/-- the hypothesis is needed: over a backend whose `exists` fails without a label (here the
trait-default record, every method `NotSupported`), `create_dir` reports the placeholder -/
theorem createDir_needs_existsTotal :
    ∃ p : VPath, ¬ ErrPathIn (fun s => s = p.path ∨ s = parentInternal p.path) p.createDir := by
  refine ⟨{ fs := default, fsId := 0, path := "/a".toList }, fun h => ?_⟩
  obtain ⟨s, hs, _⟩ := h default .notSupported none rfl
  cases hs

/-- the same for `exists` itself: it is the one operation that hands the backend's label on -/
theorem exists_not_relabelled (p : VPath) (w : World) : p.exists_ w = p.fs.exists_ p.path w := rfl

theorem isFile_err (p : VPath) (h : ExistsTotal p.fs) : ErrPathIn (· = p.path) p.isFile := by
  unfold VPath.isFile
  refine ErrPathIn.bind (ErrPathIn.of_noErr (h _)) (fun b => ?_)
  refine ErrPathIn.ite (ErrPathIn.pure _) ?_
  exact ErrPathIn.bind (metadata_err p) (fun _ => ErrPathIn.pure _)

theorem isDir_err (p : VPath) (h : ExistsTotal p.fs) : ErrPathIn (· = p.path) p.isDir := by
  unfold VPath.isDir
  refine ErrPathIn.bind (ErrPathIn.of_noErr (h _)) (fun b => ?_)
  refine ErrPathIn.ite (ErrPathIn.pure _) ?_
  exact ErrPathIn.bind (metadata_err p) (fun _ => ErrPathIn.pure _)

/-! ### `create_dir_all`: the error names the prefix whose creation failed -/

theorem createDirAllLoop_err (p : VPath) (l : List Str) :
    ErrPathIn (· ∈ l) (VPath.createDirAllLoop p l) := by
  induction l with
  | nil => intro w k pth he; cases he
  | cons d rest ih =>
    intro w k pth he
    unfold VPath.createDirAllLoop at he
    split at he
    · obtain ⟨s, h1, h2⟩ := ih _ k pth he
      exact ⟨s, h1, List.mem_cons_of_mem _ h2⟩
    · obtain ⟨s, h1, h2⟩ := ih _ k pth he
      exact ⟨s, h1, List.mem_cons_of_mem _ h2⟩
    · simp only [Res.err.injEq] at he
      exact ⟨d, he.2.symm, List.mem_cons_self⟩
    · cases he

theorem createDirAll_err (p : VPath) : ErrPathIn (· ∈ VPath.dirPrefixes p.path) p.createDirAll := by
  unfold VPath.createDirAll
  exact ErrPathIn.ite (ErrPathIn.pure _) (createDirAllLoop_err p _)

/-- every such prefix is an initial segment of the caller's path (an ancestor, or the path) -/
theorem dirPrefixes_prefix (path d : Str) (h : d ∈ VPath.dirPrefixes path) : d <+: path := by
  unfold VPath.dirPrefixes at h
  simp only [List.mem_map] at h
  obtain ⟨e, _, rfl⟩ := h
  exact List.take_prefix _ _

/-- … ending either at the end of the path or just before a '/' -/
theorem dirPrefixes_boundary (path d : Str) (h : d ∈ VPath.dirPrefixes path) :
    d = path ∨ ∃ rest, path = d ++ '/' :: rest := by
  unfold VPath.dirPrefixes at h
  simp only [List.mem_map, List.mem_filter, List.mem_range, decide_eq_true_eq] at h
  obtain ⟨e, ⟨_, _, he⟩, rfl⟩ := h
  rcases he with rfl | he
  · left; exact List.take_length
  · right
    refine ⟨path.drop (e + 1), ?_⟩
    have hlt : e < path.length := by
      rcases Nat.lt_or_ge e path.length with h | h
      · exact h
      · rw [List.getElem?_eq_none h] at he; cases he
    have hget : path[e] = '/' := by
      rw [List.getElem?_eq_getElem hlt] at he; exact Option.some.inj he
    conv => lhs; rw [← List.take_append_drop e path]
    rw [List.drop_eq_getElem_cons hlt, hget]

/-! ### `remove_dir_all`: the error names `p` or something below `p` -/

/-- `s` is `base` or lies below it -/
def Below (base s : Str) : Prop := s = base ∨ (base ++ ['/']) <+: s

theorem Below.refl (base : Str) : Below base base := Or.inl rfl

theorem Below.child_trans (base n s : Str) (h : Below (base ++ '/' :: n) s) : Below base s := by
  right
  rcases h with rfl | h
  · exact ⟨n, by simp⟩
  · obtain ⟨t, rfl⟩ := h
    exact ⟨n ++ '/' :: t, by simp⟩

/-- the children listed by `read_dir` live in the same filesystem, directly below `p` -/
theorem readDir_children (p : VPath) :
    Returns p.readDir (fun l => ∀ c ∈ l, c.fs = p.fs ∧ ∃ n, c.path = p.path ++ '/' :: n) := by
  unfold VPath.readDir
  apply Returns.bind
  intro names
  apply Returns.pure
  intro c hc
  simp only [List.mem_map] at hc
  obtain ⟨n, _, rfl⟩ := hc
  exact ⟨rfl, n, rfl⟩

mutual
theorem removeDirAll_err (fuel : Nat) (p : VPath) (h : ExistsTotal p.fs) :
    ErrPathIn (Below p.path) (VPath.removeDirAll fuel p) := by
  cases fuel with
  | zero => unfold VPath.removeDirAll; exact ErrPathIn.of_noErr NoErr.ret_panic
  | succ fuel =>
    unfold VPath.removeDirAll
    refine ErrPathIn.bind (ErrPathIn.of_noErr (h _)) (fun b => ?_)
    split
    · exact ErrPathIn.pure _
    · refine ErrPathIn.bindQ _ (readDir_children p)
        (ErrPathIn.mono (fun s hs => Or.inl hs) (readDir_err p)) (fun children hc => ?_)
      refine ErrPathIn.bind ?_ (fun _ => ErrPathIn.mono (fun s hs => Or.inl hs) (removeDir_err p))
      exact removeChildren_err fuel children p.path (fun c hm => by
        obtain ⟨h1, n, h2⟩ := hc c hm
        exact ⟨by rw [h1]; exact h, n, h2⟩)
theorem removeChildren_err (fuel : Nat) (l : List VPath) (base : Str)
    (h : ∀ c ∈ l, ExistsTotal c.fs ∧ ∃ n, c.path = base ++ '/' :: n) :
    ErrPathIn (Below base) (VPath.removeChildren fuel l) := by
  cases l with
  | nil => unfold VPath.removeChildren; exact ErrPathIn.pure _
  | cons c rest =>
    unfold VPath.removeChildren
    obtain ⟨hc, n, hn⟩ := h c (by simp)
    have hsub : ∀ s, Below c.path s → Below base s := by
      intro s hs; rw [hn] at hs; exact Below.child_trans base n s hs
    have hrest := removeChildren_err fuel rest base (fun x hx => h x (by simp [hx]))
    refine ErrPathIn.bind
      (ErrPathIn.mono (fun s hs => hsub s (Or.inl hs)) (metadata_err c)) (fun md => ?_)
    dsimp only
    split
    · exact ErrPathIn.bind
        (ErrPathIn.mono (fun s hs => hsub s (Or.inl hs)) (removeFile_err c)) (fun _ => hrest)
    · exact ErrPathIn.bind
        (ErrPathIn.mono hsub (removeDirAll_err fuel c hc)) (fun _ => hrest)
end

/-! ### `ExistsTotal` holds for the backends -/

/-- a leaf filesystem's `exists` never returns an error (an index out of range is the panic
outcome of the model, not an error) -/
theorem leafFS_existsTotal (i : Nat) : ExistsTotal (leafFS i) := by
  intro q w k pth he
  simp only [leafFS, onLeaf] at he
  split at he
  · cases he
  · rename_i l _
    cases hk : l.kind <;> simp [hk] at he

/-- … and when the leaf exists it answers -/
theorem leafFS_exists_ok (i : Nat) (q : Str) (w : World) (h : w.leaf? i ≠ none) :
    ((leafFS i).exists_ q w).1.isOk = true := by
  simp only [leafFS, onLeaf]
  cases hl : w.leaf? i with
  | none => exact absurd hl h
  | some l => cases hk : l.kind <;> simp [Res.isOk, hk]

theorem embedded_existsTotal (s : Embedded.State) : ExistsTotal (Embedded.fs s) := by
  intro q w k pth he; cases he

/-- AltrootFS over a filesystem with a total `exists` has a total `exists`: a path that cannot
be translated simply does not exist -/
theorem altroot_existsTotal (root : VPath) (h : ExistsTotal root.fs) :
    ExistsTotal (Altroot.fs root) := by
  intro q w k pth he
  simp only [Altroot.fs] at he
  have hfs := (Altroot.path_fs root q).post
  cases heq : Altroot.path root q with
  | ok r =>
    simp only [heq] at he
    have := (hfs default r (by simp [M.ret, heq])).1
    unfold VPath.exists_ at he
    rw [this] at he
    exact h _ w k pth he
  | err k' p' => simp only [heq] at he; cases he
  | panic => simp only [heq] at he; cases he

/-- so, over any leaf, `create_dir` / `create_file` / `remove_dir_all` label as stated -/
theorem leaf_createDir_err (i fsId : Nat) (path : Str) :
    ErrPathIn (fun s => s = path ∨ s = parentInternal path)
      (VPath.createDir { fs := leafFS i, fsId := fsId, path := path }) :=
  createDir_err _ (leafFS_existsTotal i)

theorem leaf_removeDirAll_err (i fsId fuel : Nat) (path : Str) :
    ErrPathIn (Below path)
      (VPath.removeDirAll fuel { fs := leafFS i, fsId := fsId, path := path }) :=
  removeDirAll_err fuel _ (leafFS_existsTotal i)

/-! ### Part 2: classification -/

/-- relabelling never changes the kind of an error (nor success, nor panic) -/
theorem withPath_kind {α} (p : Str) (m : M α) (w : World) :
    (M.withPath p m w).1.kind? = (m w).1.kind? ∧
    (M.withPath p m w).1.isOk = (m w).1.isOk ∧
    (M.withPath p m w).1.isPanic = (m w).1.isPanic := by
  unfold M.withPath
  cases h : (m w).1 <;> simp [h, Res.withPath, Res.kind?, Res.isOk, Res.isPanic]

/-- and never changes the world -/
theorem withPath_world {α} (p : Str) (m : M α) (w : World) : (M.withPath p m w).2 = (m w).2 := rfl

/-- a join whose argument is longer than one character and ends in '/' is `InvalidPath`,
labelled with the argument; no other join fails (corollary of C06.join_err_iff) -/
theorem join_trailing_slash_invalid (p : VPath) (arg : Str) :
    (∃ q, p.join arg = .ok q) ∨ p.join arg = .err .invalidPath (some arg) := by
  unfold VPath.join
  cases h : joinInternal p.path arg with
  | ok s => left; exact ⟨_, rfl⟩
  | err k' p' =>
    right
    obtain ⟨_, rfl, rfl⟩ := (C06.join_err_iff p.path arg k' p').mp h
    rfl
  | panic => exact absurd h (C06.join_total _ _)

theorem join_err_iff (p : VPath) (arg : Str) (k : ErrKind) (pth : Option Str) :
    (p.join arg).kind? = some k ∧ (p.join arg).errPath? = some pth ↔
      trailingSlash arg ∧ k = .invalidPath ∧ pth = some arg := by
  unfold VPath.join
  cases h : joinInternal p.path arg with
  | ok s =>
    simp only [Res.map, Res.kind?, Res.errPath?]
    constructor
    · intro h'; cases h'.1
    · intro h'
      have := (C06.join_err_iff p.path arg k pth).mpr h'
      rw [h] at this; cases this
  | err k' p' =>
    simp only [Res.map, Res.kind?, Res.errPath?, Option.some.injEq]
    constructor
    · rintro ⟨rfl, rfl⟩; exact (C06.join_err_iff p.path arg _ _).mp h
    · intro h'
      have := (C06.join_err_iff p.path arg k pth).mpr h'
      rw [h] at this; injection this with h1 h2; exact ⟨h1, h2⟩
  | panic => exact absurd h (C06.join_total _ _)

/-! trait defaults: `NotSupported` -/

theorem World.setLeafFiles_self (w : World) (i : Nat) (l : Leaf) (h : w.leaf? i = some l) :
    w.setLeafFiles i l.files = w := by
  unfold World.setLeafFiles World.leaf? at *
  have : w.leaves.modify i (fun l' => { l' with files := l.files }) = w.leaves := by
    apply List.ext_getElem?
    intro j
    rw [List.getElem?_modify]
    by_cases hij : i = j
    · subst hij; simp [h]
    · simp [hij]
  rw [this]

/-- MemoryFS does not override `copy_file`, `move_file`, `move_dir` -/
theorem mem_defaults (i : Nat) (w : World) (l : Leaf) (s d : Str)
    (hl : w.leaf? i = some l) (hk : l.kind = .mem) :
    (leafFS i).copyFile s d w = (fail .notSupported, w) ∧
    (leafFS i).moveFile s d w = (fail .notSupported, w) ∧
    (leafFS i).moveDir s d w = (fail .notSupported, w) := by
  simp only [leafFS, onLeaf, hl, hk, World.setLeafFiles_self w i l hl, and_self]

theorem overlay_defaults (layers : List VPath) (s d : Str) (w : World) :
    (Overlay.fs layers).copyFile s d w = (fail .notSupported, w) ∧
    (Overlay.fs layers).moveFile s d w = (fail .notSupported, w) ∧
    (Overlay.fs layers).moveDir s d w = (fail .notSupported, w) := ⟨rfl, rfl, rfl⟩

theorem altroot_defaults (root : VPath) (s d : Str) (w : World) :
    (Altroot.fs root).moveFile s d w = (fail .notSupported, w) ∧
    (Altroot.fs root).moveDir s d w = (fail .notSupported, w) ∧
    (Altroot.fs root).copyFile s [] w = (fail .notSupported, w) := ⟨rfl, rfl, rfl⟩

theorem embedded_defaults (st : Embedded.State) (s d : Str) (w : World) :
    (Embedded.fs st).copyFile s d w = (fail .notSupported, w) ∧
    (Embedded.fs st).moveFile s d w = (fail .notSupported, w) ∧
    (Embedded.fs st).moveDir s d w = (fail .notSupported, w) := ⟨rfl, rfl, rfl⟩

/-- `fail k` classifies as the class of `k` -/
theorem notSupported_cls : ErrKind.notSupported.cls = .notSupported := rfl
theorem fileNotFound_cls : ErrKind.fileNotFound.cls = .notFound := rfl

/-! occupied path: the kind names the occupant -/

theorem mem_createDir_occupied (m : FMap) (p : Str) (e : Entry)
    (hpar : Mem.ensureHasParent m p = .ok ()) (h : m.find? p = some e) :
    Mem.createDir m p = (fail (if e.ftype = .file then .fileExists else .dirExists), m) := by
  unfold Mem.createDir
  simp only [hpar, h]
  split <;> rfl

theorem mem_createDir_occupied_file (m : FMap) (p : Str) (e : Entry)
    (hpar : Mem.ensureHasParent m p = .ok ()) (h : m.find? p = some e) (hf : e.ftype = .file) :
    Mem.createDir m p = (fail .fileExists, m) := by
  rw [mem_createDir_occupied m p e hpar h, if_pos hf]

theorem mem_createDir_occupied_dir (m : FMap) (p : Str) (e : Entry)
    (hpar : Mem.ensureHasParent m p = .ok ()) (h : m.find? p = some e) (hf : e.ftype = .dir) :
    Mem.createDir m p = (fail .dirExists, m) := by
  rw [mem_createDir_occupied m p e hpar h, if_neg (by rw [hf]; decide)]

theorem phys_createDir_occupied (m : FMap) (p : Str) (e : Entry)
    (h : Phys.lookup m p = .ok (some e)) :
    Phys.createDir m p = (fail (if e.ftype = .file then .fileExists else .dirExists), m) := by
  unfold Phys.createDir
  simp only [h]
  split <;> rfl

/-! an entry missing from an existing directory is not-found, on both backends -/

/-- MemoryFS: every operation on a missing key answers not-found and changes nothing -/
theorem mem_missing (m : FMap) (p : Str) (ts : TS) (h : m.find? p = none) :
    Mem.metadata m p = fail .fileNotFound ∧
    Mem.openFile m p = (fail .fileNotFound, m) ∧
    Mem.appendFile m p = fail .fileNotFound ∧
    Mem.removeFile m p = (fail .fileNotFound, m) ∧
    Mem.readDir m p = fail .fileNotFound ∧
    Mem.removeDir m p = (fail .fileNotFound, m) ∧
    Mem.setCreated m p ts = (fail .fileNotFound, m) ∧
    Mem.setModified m p ts = (fail .fileNotFound, m) ∧
    Mem.setAccessed m p ts = (fail .fileNotFound, m) := by
  simp [Mem.metadata, Mem.openFile, Mem.appendFile, Mem.removeFile, Mem.readDir, Mem.removeDir,
    Mem.setCreated, Mem.setModified, Mem.setAccessed, h, fail]

/-- PhysicalFS: the parent chain resolves, the last component is missing -/
theorem phys_lookup_missing (m : FMap) (p : Str) (hpar : Phys.resolveParent m p = .ok ())
    (h : m.find? p = none) : Phys.lookup m p = .ok none := by
  simp [Phys.lookup, hpar, h]

theorem phys_missing (m : FMap) (p d : Str) (upd : Entry → Entry)
    (hpar : Phys.resolveParent m p = .ok ()) (h : m.find? p = none) :
    Phys.metadata m p = fail .fileNotFound ∧
    Phys.openFile m p = fail .fileNotFound ∧
    Phys.appendFile m p = fail .fileNotFound ∧
    Phys.removeFile m p = (fail .fileNotFound, m) ∧
    Phys.readDir m p = fail .fileNotFound ∧
    Phys.removeDir m p = (fail .fileNotFound, m) ∧
    Phys.setTime upd m p = (fail .fileNotFound, m) ∧
    Phys.copyFile m p d = (fail .fileNotFound, m) ∧
    Phys.exists_ m p = false := by
  have hl := phys_lookup_missing m p hpar h
  simp [Phys.metadata, Phys.openFile, Phys.appendFile, Phys.removeFile, Phys.readDir,
    Phys.removeDir, Phys.setTime, Phys.copyFile, Phys.exists_, hl]

/-- a missing intermediate directory is not-found as well (ENOENT), a file in the way is the
other class (ENOTDIR) -/
theorem phys_missing_ancestor (m : FMap) (p : Str) (k : ErrKind) (pth : Option Str)
    (h : Phys.resolveParent m p = .err k pth) : (k = .fileNotFound ∨ k = .io) ∧ pth = none := by
  unfold Phys.resolveParent at h
  split at h
  · cases h
  · split at h <;> (simp only [fail, Res.err.injEq] at h; simp [← h.1, ← h.2])

/-- both backends, through the `VfsPath` layer: kind not-found, label the caller's path -/
theorem vpath_missing_mem (i fsId : Nat) (w : World) (l : Leaf) (p : Str)
    (hl : w.leaf? i = some l) (hk : l.kind = .mem) (h : l.files.find? p = none) :
    let vp : VPath := { fs := leafFS i, fsId := fsId, path := p }
    (vp.metadata w).1 = .err .fileNotFound (some p) ∧
    (vp.openFile w).1 = .err .fileNotFound (some p) ∧
    (vp.appendFile w).1 = .err .fileNotFound (some p) ∧
    (vp.removeFile w).1 = .err .fileNotFound (some p) ∧
    (vp.removeDir w).1 = .err .fileNotFound (some p) ∧
    (vp.readDir w).1 = .err .fileNotFound (some p) := by
  obtain ⟨h1, h2, h3, h4, h5, h6, _⟩ := mem_missing l.files p .now h
  simp only [VPath.metadata, VPath.openFile, VPath.appendFile, VPath.removeFile, VPath.removeDir,
    VPath.readDir, bind, M.bind, M.withPath, leafFS, onLeaf, hl, hk, h1, h2, h3, h4, h5, h6,
    Res.withPath, Res.map, fail, and_self]

theorem vpath_missing_phys (i fsId : Nat) (w : World) (l : Leaf) (p : Str)
    (hl : w.leaf? i = some l) (hk : l.kind = .phys)
    (hpar : Phys.resolveParent l.files p = .ok ()) (h : l.files.find? p = none) :
    let vp : VPath := { fs := leafFS i, fsId := fsId, path := p }
    (vp.metadata w).1 = .err .fileNotFound (some p) ∧
    (vp.openFile w).1 = .err .fileNotFound (some p) ∧
    (vp.appendFile w).1 = .err .fileNotFound (some p) ∧
    (vp.removeFile w).1 = .err .fileNotFound (some p) ∧
    (vp.removeDir w).1 = .err .fileNotFound (some p) ∧
    (vp.readDir w).1 = .err .fileNotFound (some p) := by
  obtain ⟨h1, h2, h3, h4, h5, h6, _⟩ := phys_missing l.files p [] id hpar h
  simp only [VPath.metadata, VPath.openFile, VPath.appendFile, VPath.removeFile, VPath.removeDir,
    VPath.readDir, bind, M.bind, M.withPath, leafFS, onLeaf, hl, hk, h1, h2, h3, h4, h5, h6,
    Res.withPath, Res.map, fail, and_self]

/-! ### Non-vacuity -/

def exMap : FMap :=
  [ ([], { ftype := .dir, content := [], created := .now, modified := .unset, accessed := .unset }),
    ("/d".toList, dirEntryNow), ("/f".toList, fileEntryNow) ]

def exWorld : World := { leaves := [{ kind := .mem, files := exMap }] }
def exPath (s : String) : VPath := { fs := leafFS 0, fsId := 0, path := s.toList }

/-- an error really occurs and really carries the caller's path -/
example : ((exPath "/nope").metadata exWorld).1 = .err .fileNotFound (some "/nope".toList) := by
  decide
example : ((exPath "/f/x").createDir exWorld).1 = .err .other (some "/f/x".toList) := by decide
example : ((exPath "/d").createDir exWorld).1 = .err .dirExists (some "/d".toList) := by decide
example : ((exPath "/f").createDir exWorld).1 = .err .fileExists (some "/f".toList) := by decide
example : ((exPath "/f/x/y").createDirAll exWorld).1 = .err .fileExists (some "/f".toList) := by
  decide
example : "/f".toList ∈ VPath.dirPrefixes "/f/x/y".toList := by decide
example : Mem.ensureHasParent exMap "/d".toList = .ok () ∧ exMap.find? "/nope".toList = none := by
  decide
example : Phys.resolveParent exMap "/d/zz".toList = .ok () ∧ exMap.find? "/d/zz".toList = none := by
  decide
example : ((exPath "/d").join "x/".toList).kind? = some .invalidPath ∧
    ((exPath "/d").join "x/".toList).errPath? = some (some "x/".toList) := by decide
example : Below "/d".toList "/d/x".toList := by right; exact ⟨"x".toList, rfl⟩

end Vfs.C12
