/-
  C19 / C10 interplay over ANY NUMBER OF LAYERS: timestamp histories through an n-layer overlay
  (continuation of Props/C19History.lean and Props/C19HistoryOverlay.lean; same specification
  `specStep` / `specHist`, same observation `runOp` / `runHist` through the `VfsPath` layer).

  SETTING: `h : OWN w (u :: is) (idu :: ids) (mu :: ms)` (Proofs/OverlayNLemmas.lean): the pairwise
  distinct leaves `u :: is` are memory leaves holding the maps `mu :: ms` (`mu` = top layer, `ms` =
  ANY number of lower layers, none included); the overlay is
  `Overlay.fs (layersN (u :: is) (idu :: ids))` over the roots of those leaves; the path is
  `k = /d1/…/dm/n` (components `GoodComp`).

  PART 1 — the path is SERVED BY THE TOP LAYER or HIDDEN behind a whiteout (invariant `OvInv mu ds n`
  of Props/C19HistoryOverlay.lean on the top layer's map: ancestors are directories of the top
  layer, not hidden; no file at a bookkeeping position; top layer serves `k` or hides it).
  * `overlay_step_fullN`, `overlay_history_exactN`: every history of ALL TEN operation kinds in which
    `remove_dir` is never applied while the path is a directory (`NoDirRemoval`, decidable on the
    specification's run) gives, step by step, the outcomes of `specHist` started from
    `ovAbs mu k` (= the record the n-layer VIEW shows at `k` when the top layer serves it —
    `ovAbs_eq_viewN` — and nothing when `k` is hidden); the served record after the history is the
    specification's; the final world is the old one with the TOP leaf replaced and is again an
    n-layer setting WITH THE SAME LOWER MAPS `ms` (lower layers are untouched — exactly, not only
    up to access stamps: in these states no call ever reaches a lower layer); `OvInv` holds again.
  * `overlay_history_exact_noRemoveDirN`: the special case of histories without `remove_dir`.
  PART 2 — the path is SERVED BY A LOWER LAYER (`LowerServes`: no whiteout, nothing at `k` in the
  top layer, layer `j ≥ 1` is the first one holding `k`; the ancestors only have to be directories
  of the n-layer VIEW, `AncDirsN`, they may live in lower layers only).
  * `lowerStep` / `overlay_lower_quiet_stepN` / `overlay_lower_quiet_historyN`: over every history
    of `metadata` and the three setters: `metadata` reports THAT layer's type / length / three
    timestamps, every setter is refused with not-found (finding O7's behaviour), the world does not
    change at all.
  * `overlay_lower_writeN` + `ovInv_afterLowerWrite`: a create session on a lower-served FILE
    succeeds, materialises the ancestors in the top layer (`fillDirs`), and puts a FRESH top-layer
    entry (all three stamps = clock) in front of the lower one (`afterLowerWrite`): afterwards
    `TopServes`, `AncTop`, i.e. `OvInv` holds, the served record is `specStep … (.write b)` of the
    lower record, lower layers untouched.
  * `overlay_lower_served_historyN`: the composition — a quiet history, then a create session, then
    ANY Part-1 history: outcomes = lower layer's metadata / refusals, `done`, then `specHist`
    started from the fresh record.
  PART 3 — non-vacuity on the 3-layer world `xw` of Props/C09Refine.lean (`decide`): "/top" (served
  by the top layer) with a history of all ten kinds; "/d/x" (served by layer 1, also present in
  layer 2, ancestors in lower layers only).

  HYPOTHESES: the setting; the invariant; first component of `k` ≠ ".whiteout";
  `ds.head? ≠ "_wo"` (reserved-name clash, as in the 2-layer file).
  NOT PROVED (kept as `def …_stmt`):
  * `overlay_lower_appendN_stmt`: an append session on a lower-served file copies the entry up
    (new `created` stamp in the top layer) — needs a `run_vcopyFileN` lemma computing the RESULT of
    `VPath.copyFile` from a lower leaf root to the top leaf root (Proofs/OverlayNRemoveLemmas.lean
    only has `run_vcopyFile_keepsN`: keys kept, outcome unspecified; the fast path depends on
    whether the two layer ids coincide).
  * `overlay_history_exactN_stmt`: `remove_dir` of a directory with children (needs the merged
    listing `pListingN` tracked along the history), as in the 2-layer file.
  * `remove_file` on a lower-served entry inside a history (single step: `C10.removed_file_absentN`);
    a READ of a lower-served entry (it stamps `accessed` in the serving lower layer — the only way a
    lower layer is ever written; single step: `run_oopenFileN`) and a create session on a
    lower-served DIRECTORY (refused, ancestors filled in) are not part of the history theorem.
-/
import VfsModel.Props.C19HistoryOverlay
import VfsModel.Props.C09Refine
namespace Vfs.C19
open Vfs.FMap
set_option linter.unusedSimpArgs false
set_option linter.unusedVariables false
set_option linter.unusedSectionVars false

/-! ### Part 1: the top layer serves or hides the path -/

theorem AncTop.ancDirsN {mu : FMap} {ds : List Str} (ha : AncTop mu ds) (ms : List FMap) :
    AncDirsN (mu :: ms) ds := by
  intro j hj1 hj2
  obtain ⟨hm, e, he, hd⟩ := ha.anc j hj1 hj2
  exact ⟨e, viewN_upper hm he, hd⟩

theorem AncTop.pEnsureN {mu : FMap} {ds : List Str} (ha : AncTop mu ds) (ms : List FMap)
    (hds : ∀ c ∈ ds, GoodComp c) : pEnsureN (mu :: ms) ds = (.ok (), mu) := by
  rw [pEnsureN_ok ha.root hds (ha.ancDirsN ms), fillDirs_id]
  intro q hq
  obtain ⟨j, h1, h2, rfl⟩ := (mem_chain [] ds q).1 hq
  obtain ⟨_, e, he, _⟩ := ha.anc j h1 h2
  simpa using contains_of_find he

/-- the record the overlay serves when the top layer decides (`ovAbs`) is the record of the n-layer
view's entry, whenever the top layer serves or hides the path -/
theorem ovAbs_eq_viewN {mu : FMap} (ms : List FMap) {k : Str}
    (hs : TopServes mu k ∨ Hidden mu k) : ovAbs mu k = (viewN (mu :: ms) k).map recOf := by
  rcases hs with ⟨hm, e, he⟩ | hB
  · rw [ovAbs_of_served ⟨hm, e, he⟩, viewN_upper hm he]; simp [absAt, he]
  · rw [ovAbs_of_hidden hB]
    obtain ⟨_, e, he, _⟩ := hB
    rw [viewN_marked (contains_of_find he)]; rfl

theorem pCreateFileN_top (mu : FMap) (ms : List FMap) (cs : List Str) (e : Entry)
    (hE : pEnsureN (mu :: ms) cs.dropLast = (.ok (), mu))
    (hv : viewN (mu :: ms) (renderC cs) = some e) (he : mu.find? (renderC cs) = some e)
    (hm : mu.contains (marker (renderC cs)) = false)
    (hpo : Mem.parentOk mu (renderC cs) = true)
    (hen : Mem.ensureHasParent mu (renderC cs) = .ok ()) :
    pCreateFileN mu ms cs =
      if e.ftype = .dir then (.err .other none, mu)
      else (.ok (), mu.insert (renderC cs) fileEntryNow) := by
  unfold pCreateFileN
  rw [hE]
  generalize renderC cs = k at *
  have hmk : (mu.insert k fileEntryNow).contains (marker k) = false := by
    unfold FMap.contains at hm ⊢
    rw [find?_insert_ne _ _ _ _ (marker_ne_self _)]; exact hm
  by_cases hd : e.ftype = .dir
  · simp [andThen, pRefuseN, hv, hd]
  · simp [andThen, pRefuseN, hv, hd, Mem.pOpenW, hpo, Mem.createFile, hen, he, Res.withPath, pClear,
      hmk]

section ovN
variable {w : World} {u idu : Nat} {mu : FMap} {is ids : List Nat} {ms : List FMap}
  (h : OWN w (u :: is) (idu :: ids) (mu :: ms)) (ido : Nat)
include h

/-- `read_path` when the top layer serves the path -/
theorem run_readPathN_top (cs : List Str) (hne : cs ≠ []) (hcs : ∀ c ∈ cs, GoodComp c)
    (hm : mu.contains (marker (renderC cs)) = false) (hc : mu.contains (renderC cs) = true) :
    Overlay.readPath (layersN (u :: is) (idu :: ids)) (renderC cs) w =
      (.ok { fs := leafFS u, fsId := idu, path := renderC cs }, w) := by
  rw [run_readPathN h cs hne hcs]
  simp [firstPath, hm, hc]

/-- `read_path` behind a whiteout -/
theorem run_readPathN_marked (cs : List Str) (hne : cs ≠ []) (hcs : ∀ c ∈ cs, GoodComp c)
    (hm : mu.contains (marker (renderC cs)) = true) :
    Overlay.readPath (layersN (u :: is) (idu :: ids)) (renderC cs) w =
      (.err .fileNotFound none, w) := by
  rw [run_readPathN h cs hne hcs, if_pos hm]

/-- one step through the n-layer overlay, setters / metadata / read / append, top layer serves -/
theorem overlay_run_memStepN (cs : List Str) (hne : cs ≠ []) (hcs : ∀ c ∈ cs, GoodComp c)
    (hs : TopServes mu (renderC cs)) (op : TOp) (hop : op.inFrag = true) :
    runOp { fs := Overlay.fs (layersN (u :: is) (idu :: ids)), fsId := ido, path := renderC cs }
        op w =
      ((memStep mu (renderC cs) op).1, w.setLeafFiles u (memStep mu (renderC cs) op).2) := by
  obtain ⟨hm, e, he⟩ := hs
  have hc : mu.contains (renderC cs) = true := contains_of_find he
  have hrp := run_readPathN_top h cs hne hcs hm hc
  have hwp := writePath_layersN (u := u) (idu := idu) (is := is) (ids := ids) cs hne hcs
  cases op with
  | setCreated t =>
    simp only [runOp, memStep, VPath.setCreationTime, M.withPath, Overlay.fs, bind, M.bind, M.ret,
      hwp, run_setCreationTime h.hu, ofRes_relabel]
  | setModified t =>
    simp only [runOp, memStep, VPath.setModificationTime, M.withPath, Overlay.fs, bind, M.bind,
      M.ret, hwp, run_setModificationTime h.hu, ofRes_relabel]
  | setAccessed t =>
    simp only [runOp, memStep, VPath.setAccessTime, M.withPath, Overlay.fs, bind, M.bind, M.ret,
      hwp, run_setAccessTime h.hu, ofRes_relabel]
  | metadata =>
    simp only [runOp, memStep, VPath.metadata, M.withPath, Overlay.fs, bind, M.bind, hrp,
      run_metadata h.hu, ofRes_relabel, h.hu.same]
  | read =>
    simp only [runOp, memStep, VPath.openFile, M.withPath, Overlay.fs, bind, M.bind, M.ret,
      hrp, run_openFile h.hu]
    cases (Mem.openFile mu (renderC cs)).1 with
    | ok hd =>
      simp only [Res.withPath]
    | err kind pth => simp [Res.withPath, ofRes]
    | panic => simp [Res.withPath, ofRes]
  | append b =>
    simp only [runOp, memStep, VPath.appendFile, M.withPath, Overlay.fs, Overlay.appendFile,
      Overlay.copyUp, bind, M.bind, M.ret, hwp, run_vexists h.hu, hc, Bool.not_true,
      Bool.false_eq_true, if_false, Pure.pure, M.pure, run_appendFile h.hu, Mem.pAppend]
    cases hca : Mem.appendFile mu (renderC cs) with
    | ok old =>
      have h' := h.hu
      unfold MemLeafAt at h'
      simp [Res.map, Res.withPath, WHandle.writeAllAndDrop, bind, M.bind, WHandle.write,
        WHandle.drop, WHandle.flush, h', ofRes]
    | err kind pth => simp [Res.map, Res.withPath, ofRes, h.hu.same]
    | panic => simp [Res.map, Res.withPath, ofRes, h.hu.same]
  | write b => simp [TOp.inFrag] at hop
  | removeFile => simp [TOp.inFrag] at hop
  | createDir => simp [TOp.inFrag] at hop
  | removeDir => simp [TOp.inFrag] at hop

/-- the parent probe of the `VfsPath` layer through the n-layer overlay: the ancestors only have to
be directories of the VIEW (they may live in any layer) -/
theorem overlay_getParentN (ds : List Str) (n : Str) (hds : ∀ c ∈ ds, GoodComp c)
    (hn : GoodComp n) (hroot : RootOk mu) (hanc : AncDirsN (mu :: ms) ds) :
    VPath.getParent { fs := Overlay.fs (layersN (u :: is) (idu :: ids)), fsId := ido,
                      path := renderC (ds ++ [n]) } w = (.ok (), w) := by
  unfold VPath.getParent VPath.exists_ VPath.metadata VPath.parent VPath.withStr
  simp only [parent_snoc' ds n hds hn]
  simp only [bind, M.bind, Overlay.fs, run_oexists_anyN h ds hds,
    pexistsN_of_anc hroot hanc, Bool.not_true, Bool.false_eq_true, if_false]
  by_cases hne : ds = []
  · subst hne
    obtain ⟨e, he, hd⟩ := hroot.root
    simp [Overlay.readPath, writeLayer_layersN, M.withPath, Pure.pure, M.pure, M.bind, VPath.metadata,
      run_metadata h.hu, Mem.metadata, he, hd, Entry.meta, Res.withPath]
  · have hl : 1 ≤ ds.length := by
      cases ds with
      | nil => exact absurd rfl hne
      | cons d ds => simp
    obtain ⟨e, hv, hd⟩ := hanc ds.length hl (Nat.le_refl _)
    rw [List.take_length] at hv
    have hmeta := run_readPath_metadataN h ds hne hds
      (fun md => (if md.ftype ≠ .dir then M.failAt .other (renderC (ds ++ [n])) else pure () : M Unit))
    simp only [bind, M.bind, hv, Entry.meta] at hmeta
    simp only [M.withPath]
    rcases readPath_casesN h ds hne hds with ⟨hv0, _⟩ | ⟨j, i, id, m, e1, hf, hi, hid, hl1, he1, _, hv1, hr⟩
    · rw [hv0] at hv; cases hv
    · rw [hv] at hv1; injection hv1 with hv1; subst hv1
      simp [M.bind, hr, VPath.metadata, M.withPath, run_metadata hl1, Mem.metadata, he1, hd,
        Entry.meta, Res.withPath, Pure.pure, M.pure]

variable (ds : List Str) (n : Str) (hds : ∀ c ∈ ds, GoodComp c) (hn : GoodComp n)
include hds hn

/-- one step through the n-layer overlay, every operation but the removals, top layer serves -/
theorem overlay_run_memStep2N (hs : TopServes mu (renderC (ds ++ [n]))) (ha : AncTop mu ds)
    (op : TOp) (hop : op.keepsEntry = true) :
    runOp { fs := Overlay.fs (layersN (u :: is) (idu :: ids)), fsId := ido,
            path := renderC (ds ++ [n]) } op w =
      ((memStep mu (renderC (ds ++ [n])) op).1,
        w.setLeafFiles u (memStep mu (renderC (ds ++ [n])) op).2) := by
  have hne : ds ++ [n] ≠ [] := by simp
  have hcs := good_snoc hds hn
  have hpd := ha.parentDir n hds hn
  have hpo := hpd.parentOk
  have hen := hpd.ensure
  have hgp := overlay_getParentN h ido ds n hds hn ha.root (ha.ancDirsN ms)
  obtain ⟨hm, e, he⟩ := hs
  have hv : viewN (mu :: ms) (renderC (ds ++ [n])) = some e := viewN_upper hm he
  have hdl : (ds ++ [n]).dropLast = ds := List.dropLast_concat
  cases op with
  | write b =>
    simp only [runOp, memStep, VPath.createFile, bind, M.bind, hgp]
    simp only [M.withPath, Overlay.fs, run_ocreateFileN h _ hne hcs]
    have hpc := pCreateFileN_top mu ms (ds ++ [n]) e (by rw [hdl]; exact ha.pEnsureN ms hds) hv he hm
      hpo hen
    have h' : MemLeafAt (w.setLeafFiles u (mu.insert (renderC (ds ++ [n])) fileEntryNow)) u
        (mu.insert (renderC (ds ++ [n])) fileEntryNow) := h.hu.set _
    unfold MemLeafAt at h'
    generalize renderC (ds ++ [n]) = k at *
    obtain ⟨ft, c, cr, mo, ac⟩ := e
    cases ft
    · simp only [if_false, reduceCtorEq] at hpc
      simp [hpc, Res.map, Res.withPath, WHandle.writeAllAndDrop, bind, M.bind, WHandle.write,
        WHandle.drop, WHandle.flush, h', Vfs.World.setLeafFiles_twice, ofRes, Mem.pWrite, hpo,
        Mem.createFile, hen, he]
    · simp only [if_true] at hpc
      simp [hpc, Res.map, Res.withPath, ofRes, Mem.pWrite, hpo, Mem.createFile, hen, he, fail]
  | createDir =>
    simp only [runOp, memStep, VPath.createDir, bind, M.bind, hgp]
    simp only [M.withPath, Overlay.fs, run_ocreateDirN h _ hne hcs]
    have hpc : pCreateDirN mu ms (ds ++ [n]) =
        (.err (if e.ftype = .file then .fileExists else .dirExists) none, mu) := by
      unfold pCreateDirN
      rw [hdl, ha.pEnsureN ms hds]
      simp only [andThen, hv]
    generalize renderC (ds ++ [n]) = k at *
    obtain ⟨ft, c, cr, mo, ac⟩ := e
    cases ft <;>
      simp [hpc, Res.withPath, ofRes, Mem.pCreateDir, hpo, Mem.createDir, hen, he, fail]
  | removeFile => simp [TOp.keepsEntry] at hop
  | removeDir => simp [TOp.keepsEntry] at hop
  | setCreated t => exact overlay_run_memStepN h ido _ hne hcs ⟨hm, e, he⟩ _ rfl
  | setModified t => exact overlay_run_memStepN h ido _ hne hcs ⟨hm, e, he⟩ _ rfl
  | setAccessed t => exact overlay_run_memStepN h ido _ hne hcs ⟨hm, e, he⟩ _ rfl
  | append b => exact overlay_run_memStepN h ido _ hne hcs ⟨hm, e, he⟩ _ rfl
  | metadata => exact overlay_run_memStepN h ido _ hne hcs ⟨hm, e, he⟩ _ rfl
  | read => exact overlay_run_memStepN h ido _ hne hcs ⟨hm, e, he⟩ _ rfl

/-- `remove_file` through the n-layer overlay on a path the top layer serves -/
theorem overlay_run_removeFile_servedN (ha : AncTop mu ds) (hw : WoOK mu ds) (hsep : Sep ds n)
    (hm : mu.contains (marker (renderC (ds ++ [n]))) = false) (e : Entry)
    (he : mu.find? (renderC (ds ++ [n])) = some e) :
    runOp { fs := Overlay.fs (layersN (u :: is) (idu :: ids)), fsId := ido,
            path := renderC (ds ++ [n]) } .removeFile w =
      if e.ftype = .file then (.done, w.setLeafFiles u (afterRemove mu ds n))
      else (.refused .other, w) := by
  have hne : ds ++ [n] ≠ [] := by simp
  have hcs := good_snoc hds hn
  have hv : viewN (mu :: ms) (renderC (ds ++ [n])) = some e := viewN_upper hm he
  simp only [runOp, VPath.removeFile, M.withPath, Overlay.fs, run_oremoveFileN h _ hne hcs]
  by_cases hf : e.ftype = .file
  · have hnm : (mu.erase (renderC (ds ++ [n]))).find? (marker (renderC (ds ++ [n]))) = none := by
      rw [find?_erase_ne _ _ _ (marker_ne_self _)]
      unfold FMap.contains at hm
      cases hq : mu.find? (marker (renderC (ds ++ [n]))) with
      | none => rfl
      | some e' => rw [hq] at hm; simp at hm
    have hres := C10.pAddWhiteout_result (mu.erase (renderC (ds ++ [n]))) ds n hds hn
      (by obtain ⟨e0, he0, hd0⟩ := ha.root.root
          exact ⟨e0, by rw [find?_erase_ne _ _ _ (Ne.symm hsep.apart.1)]; exact he0, hd0⟩)
      (by intro q hq e' he'
          have hq1 : q ≠ renderC (ds ++ [n]) := fun h' => hsep.kW (h' ▸ hq)
          rw [find?_erase_ne _ _ _ hq1] at he'
          exact hw q hq e' he')
      hnm
    have hpr : pRemoveFileN mu ms (ds ++ [n]) = (.ok (), afterRemove mu ds n) := by
      unfold pRemoveFileN
      simp only [hv, contains_of_find he, if_true, C10.pRemoveFile_file mu _ e he hf, andThen]
      exact hres
    rw [hpr, if_pos hf]
    rfl
  · have hpr : pRemoveFileN mu ms (ds ++ [n]) =
        (.err .other (some (renderC (ds ++ [n]))), mu) := by
      unfold pRemoveFileN
      simp only [hv, contains_of_find he, if_true]
      generalize renderC (ds ++ [n]) = k at *
      simp [Mem.pRemoveFile, Mem.removeFile, he, hf, andThen, Res.withPath, fail]
    rw [hpr, if_neg hf]
    simp [Res.withPath, ofRes, h.hu.same]

/-- `remove_dir` through the n-layer overlay on a FILE the top layer serves: refused -/
theorem overlay_run_removeDir_fileN
    (hm : mu.contains (marker (renderC (ds ++ [n]))) = false) (e : Entry)
    (he : mu.find? (renderC (ds ++ [n])) = some e) (hf : e.ftype = .file) :
    runOp { fs := Overlay.fs (layersN (u :: is) (idu :: ids)), fsId := ido,
            path := renderC (ds ++ [n]) } .removeDir w = (.refused .other, w) := by
  have hne : ds ++ [n] ≠ [] := by simp
  have hcs := good_snoc hds hn
  have hrp := run_readPathN_top h _ hne hcs hm (contains_of_find he)
  generalize renderC (ds ++ [n]) = k at *
  simp [runOp, VPath.removeDir, M.withPath, Overlay.fs, Overlay.removeDir, Overlay.readDir, bind,
    M.bind, hrp, run_vexists h.hu, contains_of_find he, run_visDir h.hu, he, hf, M.failK, fail,
    Res.withPath, ofRes]

/-- every operation while a whiteout hides the path (n layers) -/
theorem overlay_run_hiddenN (hB : Hidden mu (renderC (ds ++ [n]))) (ha : AncTop mu ds) (op : TOp) :
    runOp { fs := Overlay.fs (layersN (u :: is) (idu :: ids)), fsId := ido,
            path := renderC (ds ++ [n]) } op w =
      ((hiddenStep mu (renderC (ds ++ [n])) op).1,
        w.setLeafFiles u (hiddenStep mu (renderC (ds ++ [n])) op).2) := by
  have hne : ds ++ [n] ≠ [] := by simp
  have hcs := good_snoc hds hn
  have hpd := ha.parentDir n hds hn
  have hpo := hpd.parentOk
  have hen := hpd.ensure
  have hgp := overlay_getParentN h ido ds n hds hn ha.root (ha.ancDirsN ms)
  obtain ⟨hk0, eM, heM, hfM⟩ := hB
  have hmc : mu.contains (marker (renderC (ds ++ [n]))) = true := contains_of_find heM
  have hv : viewN (mu :: ms) (renderC (ds ++ [n])) = none := viewN_marked hmc
  have hdl : (ds ++ [n]).dropLast = ds := List.dropLast_concat
  have hrp := run_readPathN_marked h _ hne hcs hmc
  have hwp := writePath_layersN (u := u) (idu := idu) (is := is) (ids := ids) _ hne hcs
  have hE := run_ensureHasParentN h _ hne hcs
  rw [hdl, ha.pEnsureN ms hds] at hE
  simp only [h.hu.same] at hE
  cases op with
  | removeDir =>
    generalize renderC (ds ++ [n]) = k at *
    simp [runOp, hiddenStep, VPath.removeDir, M.withPath, Overlay.fs, Overlay.removeDir, bind,
      M.bind, hrp, Res.withPath, ofRes, h.hu.same]
  | setCreated t =>
    generalize renderC (ds ++ [n]) = k at *
    simp [runOp, hiddenStep, VPath.setCreationTime, M.withPath, Overlay.fs, bind, M.bind, M.ret,
      hwp, run_setCreationTime h.hu, Mem.setCreated, hk0, fail, Res.withPath, ofRes, h.hu.same]
  | setModified t =>
    generalize renderC (ds ++ [n]) = k at *
    simp [runOp, hiddenStep, VPath.setModificationTime, M.withPath, Overlay.fs, bind, M.bind,
      M.ret, hwp, run_setModificationTime h.hu, Mem.setModified, hk0, fail, Res.withPath, ofRes,
      h.hu.same]
  | setAccessed t =>
    generalize renderC (ds ++ [n]) = k at *
    simp [runOp, hiddenStep, VPath.setAccessTime, M.withPath, Overlay.fs, bind, M.bind, M.ret,
      hwp, run_setAccessTime h.hu, Mem.setAccessed, hk0, fail, Res.withPath, ofRes, h.hu.same]
  | metadata =>
    generalize renderC (ds ++ [n]) = k at *
    simp [runOp, hiddenStep, VPath.metadata, M.withPath, Overlay.fs, bind, M.bind, hrp,
      Res.withPath, ofRes, h.hu.same]
  | read =>
    generalize renderC (ds ++ [n]) = k at *
    simp [runOp, hiddenStep, VPath.openFile, M.withPath, Overlay.fs, bind, M.bind, hrp,
      Res.withPath, ofRes, h.hu.same]
  | removeFile =>
    have hpr : pRemoveFileN mu ms (ds ++ [n]) = (.err .fileNotFound none, mu) := by
      unfold pRemoveFileN; simp only [hv]
    simp only [runOp, hiddenStep, VPath.removeFile, M.withPath, Overlay.fs,
      run_oremoveFileN h _ hne hcs, hpr]
    simp [Res.withPath, ofRes, h.hu.same]
  | append b =>
    generalize renderC (ds ++ [n]) = k at *
    simp [runOp, hiddenStep, VPath.appendFile, M.withPath, Overlay.fs, Overlay.appendFile,
      Overlay.copyUp, bind, M.bind, M.ret, hwp, run_vexists h.hu, contains_of_none hk0, hE, hrp,
      Res.withPath, ofRes, h.hu.same]
  | createDir =>
    simp only [runOp, hiddenStep, VPath.createDir, bind, M.bind, hgp]
    simp only [M.withPath, Overlay.fs, run_ocreateDirN h _ hne hcs]
    have hpc : pCreateDirN mu ms (ds ++ [n]) =
        (.ok (), (mu.insert (renderC (ds ++ [n])) dirEntryNow).erase
          (marker (renderC (ds ++ [n])))) := by
      unfold pCreateDirN
      rw [hdl, ha.pEnsureN ms hds]
      simp only [andThen, hv]
      rw [pCreateTail_eq_andThen hk0, C10.pCreateDir_fresh mu _ hpo hpd.1 hk0]
      have hc2 : (mu.insert (renderC (ds ++ [n])) dirEntryNow).find?
          (marker (renderC (ds ++ [n]))) = some eM := by
        rw [find?_insert_ne _ _ _ _ (marker_ne_self _)]; exact heM
      simp only [andThen, pClear, contains_of_find hc2, if_true,
        C10.pRemoveFile_file _ _ eM hc2 hfM]
    rw [hpc]
    generalize renderC (ds ++ [n]) = k at *
    simp [Res.withPath, ofRes]
  | write b =>
    simp only [runOp, hiddenStep, VPath.createFile, bind, M.bind, hgp]
    simp only [M.withPath, Overlay.fs, run_ocreateFileN h _ hne hcs]
    have hpc : pCreateFileN mu ms (ds ++ [n]) =
        (.ok (), (mu.insert (renderC (ds ++ [n])) fileEntryNow).erase
          (marker (renderC (ds ++ [n])))) := by
      unfold pCreateFileN
      rw [hdl, ha.pEnsureN ms hds]
      have hc2 : (mu.insert (renderC (ds ++ [n])) fileEntryNow).find?
          (marker (renderC (ds ++ [n]))) = some eM := by
        rw [find?_insert_ne _ _ _ _ (marker_ne_self _)]; exact heM
      simp only [andThen, pRefuseN, hv, Mem.pOpenW, hpo, if_true,
        Mem.createFile_fresh mu _ hpd.1 hpo hk0, Res.withPath, pClear, contains_of_find hc2,
        C10.pRemoveFile_file _ _ eM hc2 hfM]
    have h' : MemLeafAt (w.setLeafFiles u ((mu.insert (renderC (ds ++ [n])) fileEntryNow).erase
          (marker (renderC (ds ++ [n]))))) u
        ((mu.insert (renderC (ds ++ [n])) fileEntryNow).erase (marker (renderC (ds ++ [n])))) :=
      h.hu.set _
    unfold MemLeafAt at h'
    rw [hpc]
    generalize renderC (ds ++ [n]) = k at *
    simp [Res.map, Res.withPath, WHandle.writeAllAndDrop, bind, M.bind, WHandle.write,
      WHandle.drop, WHandle.flush, h', Vfs.World.setLeafFiles_twice, ofRes, C14.write_fresh]

end ovN

/-- **one step through the n-layer overlay, served or hidden**: the outcome and the record served
afterwards are the specification's, the invariant holds again, only the top leaf changes -/
theorem overlay_step_fullN {w : World} {u idu : Nat} {mu : FMap} {is ids : List Nat}
    {ms : List FMap} (h : OWN w (u :: is) (idu :: ids) (mu :: ms))
    (ido : Nat) (ds : List Str) (n : Str) (hds : ∀ c ∈ ds, GoodComp c) (hn : GoodComp n)
    (hsep : Sep ds n) (hi : OvInv mu ds n) (busy : Bool) (op : TOp)
    (hop : NotDirRemoval (ovAbs mu (renderC (ds ++ [n]))) op) :
    ∃ mu', runOp { fs := Overlay.fs (layersN (u :: is) (idu :: ids)), fsId := ido,
                   path := renderC (ds ++ [n]) } op w =
        ((specStep busy .now (ovAbs mu (renderC (ds ++ [n]))) op).2, w.setLeafFiles u mu') ∧
      OvInv mu' ds n ∧
      ovAbs mu' (renderC (ds ++ [n])) = (specStep busy .now (ovAbs mu (renderC (ds ++ [n]))) op).1 ∧
      Chg mu ds n mu' := by
  rcases hi.st with hA | hB
  · obtain ⟨hm, e, he⟩ := hA
    rw [ovAbs_of_served ⟨hm, e, he⟩] at hop ⊢
    have habs : absAt mu (renderC (ds ++ [n])) = some (recOf e) := by simp only [absAt, he]; rfl
    by_cases hrm : op = .removeFile
    · subst hrm
      have hrun := overlay_run_removeFile_servedN h ido ds n hds hn hi.anc hi.wo hsep hm e he
      by_cases hf : e.ftype = .file
      · rw [if_pos hf] at hrun
        refine ⟨afterRemove mu ds n, ?_, hi.removed hsep, ?_, chg_afterRemove mu ds n⟩
        · rw [hrun, habs]; simp [specStep, recOf, hf]
        · rw [habs]
          obtain ⟨em, hem, _⟩ := find?_afterRemove_marker mu ds n
          unfold ovAbs
          rw [contains_of_find hem]
          simp [specStep, recOf, hf]
      · rw [if_neg hf] at hrun
        have hd : e.ftype = .dir := by cases hft : e.ftype <;> simp_all
        refine ⟨mu, ?_, hi, ?_, Chg.refl mu ds n⟩
        · rw [hrun, habs, h.hu.same]; simp [specStep, recOf, hd]
        · rw [ovAbs_of_served ⟨hm, e, he⟩, habs]; simp [specStep, recOf, hd]
    · by_cases hrd : op = .removeDir
      · subst hrd
        have hf : e.ftype = .file := by
          have := hop rfl
          rw [habs] at this
          cases hft : e.ftype
          · rfl
          · simp [recOf, hft] at this
        refine ⟨mu, ?_, hi, ?_, Chg.refl mu ds n⟩
        · rw [overlay_run_removeDir_fileN h ido ds n hds hn hm e he hf, habs, h.hu.same]
          simp [specStep, recOf, hf]
        · rw [ovAbs_of_served ⟨hm, e, he⟩, habs]; simp [specStep, recOf, hf]
      have hke : op.keepsEntry = true := by
        cases op <;> first | rfl | exact absurd rfl hrd | exact absurd rfl hrm
      have hpd := hi.anc.parentDir n hds hn
      have hu := memStep_upd mu (renderC (ds ++ [n])) op
      have hsp := memStep_spec mu (renderC (ds ++ [n])) hpd op
      rw [spec_busy_irrelevant _ busy _ _ _ hop] at hsp
      have hs' := TopServes.step2 ⟨hm, e, he⟩ hpd op hke
      refine ⟨(memStep mu (renderC (ds ++ [n])) op).2, ?_,
        ⟨hi.anc.upd hu hsep.apart, hi.wo.upd2 hsep hu.upd2, Or.inl hs'⟩, ?_, chg_of_upd2 hu.upd2⟩
      · rw [overlay_run_memStep2N h ido ds n hds hn ⟨hm, e, he⟩ hi.anc op hke, hsp.1]
      · rw [ovAbs_of_served hs', hsp.2]
  · rw [ovAbs_of_hidden hB]
    have hrun := overlay_run_hiddenN h ido ds n hds hn hB hi.anc op
    obtain ⟨hk0, eM, heM, hfM⟩ := hB
    have hmk := marker_ne_self (renderC (ds ++ [n]))
    cases op with
    | removeDir =>
      exact ⟨mu, hrun, hi, by rw [ovAbs_of_hidden ⟨hk0, eM, heM, hfM⟩]; rfl, Chg.refl mu ds n⟩
    | write b =>
      have hnc : (hiddenStep mu (renderC (ds ++ [n])) (.write b)).2.contains
          (marker (renderC (ds ++ [n]))) = false := by
        simp only [hiddenStep]
        unfold FMap.contains
        rw [find?_memPublish_ne _ _ _ _ hmk, find?_erase_self]; rfl
      have hfk : (hiddenStep mu (renderC (ds ++ [n])) (.write b)).2.find? (renderC (ds ++ [n])) =
          some ⟨.file, b, .now, .now, .now⟩ := by
        simp only [hiddenStep, memPublish, find?_erase_ne _ _ _ hmk.symm, find?_insert_self,
          fileEntryNow, if_true]
      refine ⟨_, hrun, ⟨hi.anc.upd2 hsep (upd2_memPublish (upd2_recreate mu _ _) b),
        hi.wo.upd2 hsep (upd2_memPublish (upd2_recreate mu _ _) b), Or.inl ⟨hnc, _, hfk⟩⟩, ?_,
        chg_of_upd2 (upd2_memPublish (upd2_recreate mu _ _) b)⟩
      rw [ovAbs_of_not_marked hnc]
      simp only [absAt, hfk]
      rfl
    | createDir =>
      have hnc : (hiddenStep mu (renderC (ds ++ [n])) .createDir).2.contains
          (marker (renderC (ds ++ [n]))) = false := by
        simp only [hiddenStep]
        unfold FMap.contains
        rw [find?_erase_self]; rfl
      have hfk : (hiddenStep mu (renderC (ds ++ [n])) .createDir).2.find? (renderC (ds ++ [n])) =
          some dirEntryNow := by
        simp only [hiddenStep]
        rw [find?_erase_ne _ _ _ hmk.symm, find?_insert_self]
      refine ⟨_, hrun, ⟨hi.anc.upd2 hsep (upd2_recreate mu _ _),
        hi.wo.upd2 hsep (upd2_recreate mu _ _), Or.inl ⟨hnc, _, hfk⟩⟩, ?_,
        chg_of_upd2 (upd2_recreate mu _ _)⟩
      rw [ovAbs_of_not_marked hnc]
      simp only [absAt, hfk]
      rfl
    | setCreated t =>
      exact ⟨mu, hrun, hi, by rw [ovAbs_of_hidden ⟨hk0, eM, heM, hfM⟩]; rfl, Chg.refl mu ds n⟩
    | setModified t =>
      exact ⟨mu, hrun, hi, by rw [ovAbs_of_hidden ⟨hk0, eM, heM, hfM⟩]; rfl, Chg.refl mu ds n⟩
    | setAccessed t =>
      exact ⟨mu, hrun, hi, by rw [ovAbs_of_hidden ⟨hk0, eM, heM, hfM⟩]; rfl, Chg.refl mu ds n⟩
    | append b =>
      exact ⟨mu, hrun, hi, by rw [ovAbs_of_hidden ⟨hk0, eM, heM, hfM⟩]; rfl, Chg.refl mu ds n⟩
    | removeFile =>
      exact ⟨mu, hrun, hi, by rw [ovAbs_of_hidden ⟨hk0, eM, heM, hfM⟩]; rfl, Chg.refl mu ds n⟩
    | metadata =>
      exact ⟨mu, hrun, hi, by rw [ovAbs_of_hidden ⟨hk0, eM, heM, hfM⟩]; rfl, Chg.refl mu ds n⟩
    | read =>
      exact ⟨mu, hrun, hi, by rw [ovAbs_of_hidden ⟨hk0, eM, heM, hfM⟩]; rfl, Chg.refl mu ds n⟩

/-- **C19 through an n-layer OverlayFS, whole histories, all ten operation kinds** (see the header).
The final world is again an n-layer setting with the SAME lower maps `ms`. -/
theorem overlay_history_exactN {w : World} {u idu : Nat} {mu : FMap} {is ids : List Nat}
    {ms : List FMap} (h : OWN w (u :: is) (idu :: ids) (mu :: ms))
    (ido : Nat) (ds : List Str) (n : Str) (hds : ∀ c ∈ ds, GoodComp c)
    (hn : GoodComp n) (hh : (ds ++ [n]).head? ≠ some Overlay.woDir)
    (hwo : ds.head? ≠ some Overlay.woSuffix) (hi : OvInv mu ds n) (busy : Bool)
    (ops : List TOp)
    (hops : NoDirRemoval busy .now (ovAbs mu (renderC (ds ++ [n]))) ops) :
    ∃ mu', (runHist { fs := Overlay.fs (layersN (u :: is) (idu :: ids)), fsId := ido,
                      path := renderC (ds ++ [n]) } ops w).2 = w.setLeafFiles u mu' ∧
      OWN (w.setLeafFiles u mu') (u :: is) (idu :: ids) (mu' :: ms) ∧
      (runHist { fs := Overlay.fs (layersN (u :: is) (idu :: ids)), fsId := ido,
                 path := renderC (ds ++ [n]) } ops w).1 =
        (specHist busy .now (ovAbs mu (renderC (ds ++ [n]))) ops).1 ∧
      ovAbs mu' (renderC (ds ++ [n])) =
        (specHist busy .now (ovAbs mu (renderC (ds ++ [n]))) ops).2 ∧
      OvInv mu' ds n := by
  have hsep := sep_of ds n hds hn hh hwo
  induction ops generalizing w mu with
  | nil =>
    refine ⟨mu, by simp only [runHist, h.hu.same], ?_, rfl, rfl, hi⟩
    rw [h.hu.same]; exact h
  | cons op ops ih =>
    obtain ⟨hop, hrest⟩ := hops
    obtain ⟨mu1, hrun, hi1, habs1, _⟩ :=
      overlay_step_fullN h ido ds n hds hn hsep hi busy op hop
    rw [← habs1] at hrest
    obtain ⟨mu', e1, e2, e3, e4, e5⟩ := ih (h.setHead mu1) hi1 hrest
    simp only [runHist, specHist, hrun]
    rw [habs1] at e3 e4
    rw [Vfs.World.setLeafFiles_twice] at e1 e2
    exact ⟨mu', e1, e2, by rw [e3], e4, e5⟩

/-- the special case of histories without `remove_dir`; the start record written as the VIEW's -/
theorem overlay_history_exact_noRemoveDirN {w : World} {u idu : Nat} {mu : FMap}
    {is ids : List Nat} {ms : List FMap} (h : OWN w (u :: is) (idu :: ids) (mu :: ms))
    (ido : Nat) (ds : List Str) (n : Str) (hds : ∀ c ∈ ds, GoodComp c)
    (hn : GoodComp n) (hh : (ds ++ [n]).head? ≠ some Overlay.woDir)
    (hwo : ds.head? ≠ some Overlay.woSuffix) (hi : OvInv mu ds n) (busy : Bool)
    (ops : List TOp) (hops : ∀ op ∈ ops, op ≠ .removeDir) :
    ∃ mu', (runHist { fs := Overlay.fs (layersN (u :: is) (idu :: ids)), fsId := ido,
                      path := renderC (ds ++ [n]) } ops w).2 = w.setLeafFiles u mu' ∧
      OWN (w.setLeafFiles u mu') (u :: is) (idu :: ids) (mu' :: ms) ∧
      (runHist { fs := Overlay.fs (layersN (u :: is) (idu :: ids)), fsId := ido,
                 path := renderC (ds ++ [n]) } ops w).1 =
        (specHist busy .now ((viewN (mu :: ms) (renderC (ds ++ [n]))).map recOf) ops).1 ∧
      (viewN (mu' :: ms) (renderC (ds ++ [n]))).map recOf =
        (specHist busy .now ((viewN (mu :: ms) (renderC (ds ++ [n]))).map recOf) ops).2 ∧
      OvInv mu' ds n := by
  obtain ⟨mu', e1, e2, e3, e4, e5⟩ := overlay_history_exactN h ido ds n hds hn hh hwo hi busy ops
    (noDirRemoval_of_no_removeDir _ _ _ _ hops)
  rw [ovAbs_eq_viewN ms hi.st] at e3 e4
  rw [ovAbs_eq_viewN ms e5.st] at e4
  exact ⟨mu', e1, e2, e3, e4, e5⟩

/-! ### Part 2: the path is served by a LOWER layer -/

/-- no whiteout, nothing at `k` in the top layer, the first lower layer holding `k` holds `e` -/
structure LowerServes (mu : FMap) (ms : List FMap) (k : Str) (e : Entry) : Prop where
  noMark : mu.contains (marker k) = false
  topNone : mu.find? k = none
  low : firstN ms k = some e

theorem LowerServes.view {mu : FMap} {ms : List FMap} {k : Str} {e : Entry}
    (hL : LowerServes mu ms k e) : viewN (mu :: ms) k = some e := by
  rw [viewN_lower hL.noMark hL.topNone]; exact hL.low

/-- the operations that leave a lower-served path lower-served and the world unchanged -/
def TOp.lowerQuiet : TOp → Bool
  | .metadata | .setCreated _ | .setModified _ | .setAccessed _ => true
  | _ => false

/-- what they answer: the serving layer's metadata; setters are refused (finding O7) -/
def lowerOut (e : Entry) : TOp → TOut
  | .metadata => .info e.meta
  | _ => .refused .fileNotFound

theorem overlay_lower_quiet_stepN {w : World} {u idu : Nat} {mu : FMap} {is ids : List Nat}
    {ms : List FMap} (h : OWN w (u :: is) (idu :: ids) (mu :: ms)) (ido : Nat)
    (cs : List Str) (hne : cs ≠ []) (hcs : ∀ c ∈ cs, GoodComp c) (e : Entry)
    (hL : LowerServes mu ms (renderC cs) e) (op : TOp) (hop : op.lowerQuiet = true) :
    runOp { fs := Overlay.fs (layersN (u :: is) (idu :: ids)), fsId := ido, path := renderC cs }
      op w = (lowerOut e op, w) := by
  have hu := hL.topNone
  have hwp := writePath_layersN (u := u) (idu := idu) (is := is) (ids := ids) cs hne hcs
  cases op with
  | metadata =>
    rcases readPath_casesN h cs hne hcs with ⟨hv0, _⟩ | ⟨j, i, id, m, e1, hf, hi, hid, hl1, he1, _, hv1, hr⟩
    · rw [hL.view] at hv0; cases hv0
    · rw [hL.view] at hv1; injection hv1 with hv1; subst hv1
      simp [runOp, lowerOut, VPath.metadata, M.withPath, Overlay.fs, bind, M.bind, hr,
        run_metadata hl1, Mem.metadata, he1, Res.withPath, ofRes]
  | setCreated t =>
    simp [runOp, lowerOut, VPath.setCreationTime, M.withPath, Overlay.fs, bind, M.bind, M.ret, hwp,
      run_setCreationTime h.hu, Mem.setCreated, hu, fail, Res.withPath, ofRes, h.hu.same]
  | setModified t =>
    simp [runOp, lowerOut, VPath.setModificationTime, M.withPath, Overlay.fs, bind, M.bind, M.ret,
      hwp, run_setModificationTime h.hu, Mem.setModified, hu, fail, Res.withPath, ofRes, h.hu.same]
  | setAccessed t =>
    simp [runOp, lowerOut, VPath.setAccessTime, M.withPath, Overlay.fs, bind, M.bind, M.ret, hwp,
      run_setAccessTime h.hu, Mem.setAccessed, hu, fail, Res.withPath, ofRes, h.hu.same]
  | write b => simp [TOp.lowerQuiet] at hop
  | append b => simp [TOp.lowerQuiet] at hop
  | removeFile => simp [TOp.lowerQuiet] at hop
  | createDir => simp [TOp.lowerQuiet] at hop
  | removeDir => simp [TOp.lowerQuiet] at hop
  | read => simp [TOp.lowerQuiet] at hop

/-- **a lower-served entry over histories of `metadata` and setters**: the serving layer's
timestamps are reported every time, every setter is refused with not-found, NOTHING changes -/
theorem overlay_lower_quiet_historyN {w : World} {u idu : Nat} {mu : FMap} {is ids : List Nat}
    {ms : List FMap} (h : OWN w (u :: is) (idu :: ids) (mu :: ms)) (ido : Nat)
    (cs : List Str) (hne : cs ≠ []) (hcs : ∀ c ∈ cs, GoodComp c) (e : Entry)
    (hL : LowerServes mu ms (renderC cs) e) (ops : List TOp)
    (hops : ∀ op ∈ ops, op.lowerQuiet = true) :
    runHist { fs := Overlay.fs (layersN (u :: is) (idu :: ids)), fsId := ido, path := renderC cs }
      ops w = (ops.map (lowerOut e), w) := by
  induction ops with
  | nil => rfl
  | cons op ops ih =>
    simp only [runHist, overlay_lower_quiet_stepN h ido cs hne hcs e hL op (hops op (by simp)),
      ih (fun o ho => hops o (by simp [ho])), List.map_cons]

/-- the top layer's map after a create session at a lower-served path `ds/n`: the ancestors are
materialised (`fillDirs`), a fresh file holding `b` sits at the path -/
def afterLowerWrite (mu : FMap) (ds : List Str) (n : Str) (b : Bytes) : FMap :=
  memPublish ((fillDirs mu (chain [] ds)).insert (renderC (ds ++ [n])) fileEntryNow)
    (renderC (ds ++ [n])) b

/-- **a create session on a lower-served FILE** succeeds and only changes the top leaf -/
theorem overlay_lower_writeN {w : World} {u idu : Nat} {mu : FMap} {is ids : List Nat}
    {ms : List FMap} (h : OWN w (u :: is) (idu :: ids) (mu :: ms)) (ido : Nat)
    (ds : List Str) (n : Str) (hds : ∀ c ∈ ds, GoodComp c) (hn : GoodComp n)
    (hh : (ds ++ [n]).head? ≠ some Overlay.woDir) (hroot : RootOk mu)
    (hanc : AncDirsN (mu :: ms) ds) (e : Entry)
    (hL : LowerServes mu ms (renderC (ds ++ [n])) e) (hf : e.ftype = .file) (b : Bytes) :
    runOp { fs := Overlay.fs (layersN (u :: is) (idu :: ids)), fsId := ido,
            path := renderC (ds ++ [n]) } (.write b) w =
      (.done, w.setLeafFiles u (afterLowerWrite mu ds n b)) := by
  have hne : ds ++ [n] ≠ [] := by simp
  have hcs := good_snoc hds hn
  have hdl : (ds ++ [n]).dropLast = ds := List.dropLast_concat
  have hdh : ds.head? ≠ some Overlay.woDir := by
    cases ds with
    | nil => simp
    | cons d ds => simpa using hh
  have hgp := overlay_getParentN h ido ds n hds hn hroot hanc
  have hkh : (renderC (ds ++ [n])).head? = some '/' := by cases ds <;> simp
  have hp0 := find?_snoc_fillDirs (mu := mu) hds hn [] (Or.inl rfl)
  simp only [List.append_nil] at hp0
  have hk1 : (fillDirs mu (chain [] ds)).find? (renderC (ds ++ [n])) = none := by
    rw [hp0]; exact hL.topNone
  have hm1 : (fillDirs mu (chain [] ds)).contains (marker (renderC (ds ++ [n]))) = false := by
    rw [contains_marker_fillDirs hds hdh _ hkh]; exact hL.noMark
  have hv1 : viewN (fillDirs mu (chain [] ds) :: ms) (renderC (ds ++ [n])) = some e := by
    rw [viewN_lower hm1 hk1]; exact hL.low
  have hpar := parentOk_fillDirs_gen (n := n) hroot.root hds hn (chain_dirs_of_ancN hanc)
  have hm2 : ((fillDirs mu (chain [] ds)).insert (renderC (ds ++ [n])) fileEntryNow).contains
      (marker (renderC (ds ++ [n]))) = false := by
    unfold FMap.contains at hm1 ⊢
    rw [find?_insert_ne _ _ _ _ (marker_ne_self _)]; exact hm1
  have hpc : pCreateFileN mu ms (ds ++ [n]) =
      (.ok (), (fillDirs mu (chain [] ds)).insert (renderC (ds ++ [n])) fileEntryNow) := by
    have hcf := Mem.createFile_fresh _ _ (slash_mem_renderC hne) hpar hk1
    unfold pCreateFileN
    rw [hdl, pEnsureN_ok hroot hds hanc]
    generalize renderC (ds ++ [n]) = k at *
    simp [andThen, pRefuseN, hv1, hf, Mem.pOpenW, hpar, hcf, Res.withPath, pClear, hm2]
  simp only [runOp, VPath.createFile, bind, M.bind, hgp]
  simp only [M.withPath, Overlay.fs, run_ocreateFileN h _ hne hcs]
  have h' : MemLeafAt (w.setLeafFiles u ((fillDirs mu (chain [] ds)).insert
        (renderC (ds ++ [n])) fileEntryNow)) u
      ((fillDirs mu (chain [] ds)).insert (renderC (ds ++ [n])) fileEntryNow) := h.hu.set _
  unfold MemLeafAt at h'
  rw [hpc]
  unfold afterLowerWrite
  generalize renderC (ds ++ [n]) = k at *
  simp [Res.map, Res.withPath, WHandle.writeAllAndDrop, bind, M.bind, WHandle.write,
    WHandle.drop, WHandle.flush, h', Vfs.World.setLeafFiles_twice, ofRes, C14.write_fresh]

/-- after that session the TOP layer serves the path with a FRESH record (all three stamps are the
clock's: the lower entry's timestamps are gone from the view), its ancestors are directories of
the top layer: the Part-1 invariant holds -/
theorem ovInv_afterLowerWrite {mu : FMap} {ms : List FMap} (ds : List Str) (n : Str)
    (hds : ∀ c ∈ ds, GoodComp c) (hn : GoodComp n)
    (hh : (ds ++ [n]).head? ≠ some Overlay.woDir) (hwo : ds.head? ≠ some Overlay.woSuffix)
    (hroot : RootOk mu) (hanc : AncDirsN (mu :: ms) ds) (hw : WoOK mu ds) (e : Entry)
    (hL : LowerServes mu ms (renderC (ds ++ [n])) e) (b : Bytes) :
    OvInv (afterLowerWrite mu ds n b) ds n ∧
      ovAbs (afterLowerWrite mu ds n b) (renderC (ds ++ [n])) = some (TRec.fresh .file b .now) := by
  have hsep := sep_of ds n hds hn hh hwo
  have hdh : ds.head? ≠ some Overlay.woDir := by
    cases ds with
    | nil => simp
    | cons d ds => simpa using hh
  have hkh : (renderC (ds ++ [n])).head? = some '/' := by cases ds <;> simp
  have hmk := marker_ne_self (renderC (ds ++ [n]))
  -- the filled map
  have ha1 : AncTop (fillDirs mu (chain [] ds)) ds := by
    refine ⟨⟨?_, ?_⟩, ?_⟩
    · obtain ⟨e0, he0, hd0⟩ := hroot.root
      exact ⟨e0, by rw [find?_fillDirs, he0]; rfl, hd0⟩
    · have hrm : rootMarker = marker ['/'] := by decide
      rw [hrm, contains_marker_fillDirs hds hdh ['/'] rfl, ← hrm]; exact hroot.noMark
    · intro j hj1 hj2
      obtain ⟨e', hv, hd⟩ := hanc j hj1 hj2
      obtain ⟨hm, _⟩ := viewN_some_cases hv
      have hqh : (renderC (ds.take j)).head? = some '/' := by
        apply C09.renderC_head
        intro h0
        have := congrArg List.length h0
        rw [List.length_take, List.length_nil] at this
        omega
      refine ⟨by rw [contains_marker_fillDirs hds hdh _ hqh]; exact hm, ?_⟩
      have hmem : renderC (ds.take j) ∈ chain [] ds :=
        (mem_chain [] ds _).2 ⟨j, hj1, hj2, by simp⟩
      rw [find?_fillDirs, if_pos hmem]
      cases hfq : mu.find? (renderC (ds.take j)) with
      | none => exact ⟨dirEntryNow, rfl, rfl⟩
      | some e'' =>
        rw [viewN_upper hm hfq] at hv
        injection hv with hv; subst hv
        exact ⟨e'', rfl, hd⟩
  have hw1 : WoOK (fillDirs mu (chain [] ds)) ds := by
    intro q hq e' he'
    rw [find?_fillDirs] at he'
    cases hfq : mu.find? q with
    | some e'' => rw [hfq] at he'; simp at he'; subst he'; exact hw q hq e'' hfq
    | none =>
      rw [hfq] at he'
      by_cases hx : q ∈ chain [] ds
      · rw [if_pos hx] at he'; simp at he'; subst he'; rfl
      · rw [if_neg hx] at he'; simp at he'
  have hu2 : Upd2 (fillDirs mu (chain [] ds)) (renderC (ds ++ [n])) (afterLowerWrite mu ds n b) := by
    intro q h1 h2
    unfold afterLowerWrite
    rw [find?_memPublish_ne _ _ _ _ h1, find?_insert_ne _ _ _ _ h1]
  have hnc : (afterLowerWrite mu ds n b).contains (marker (renderC (ds ++ [n]))) = false := by
    unfold afterLowerWrite FMap.contains
    rw [find?_memPublish_ne _ _ _ _ hmk, find?_insert_ne _ _ _ _ hmk]
    have := hL.noMark
    rw [← contains_marker_fillDirs hds hdh _ hkh] at this
    unfold FMap.contains at this
    exact this
  have hfk : (afterLowerWrite mu ds n b).find? (renderC (ds ++ [n])) =
      some ⟨.file, b, .now, .now, .now⟩ := by
    simp only [afterLowerWrite, memPublish, find?_insert_self, fileEntryNow, if_true]
  refine ⟨⟨ha1.upd2 hsep hu2, hw1.upd2 hsep hu2, Or.inl ⟨hnc, _, hfk⟩⟩, ?_⟩
  rw [ovAbs_of_not_marked hnc]
  simp only [absAt, hfk]
  rfl

/-- **entries served by a lower layer, over histories** (`quiet ++ [write b] ++ ops`): while the
lower layer serves the path, `metadata` reports THAT layer's timestamps and every setter is refused
with not-found, nothing changes; the create session succeeds and puts a FRESH top-layer entry in
front (`specStep` of the lower record: all stamps = clock); from then on every Part-1 history is
the specification's run from the fresh record; the lower layers are untouched throughout. -/
theorem overlay_lower_served_historyN {w : World} {u idu : Nat} {mu : FMap} {is ids : List Nat}
    {ms : List FMap} (h : OWN w (u :: is) (idu :: ids) (mu :: ms)) (ido : Nat)
    (ds : List Str) (n : Str) (hds : ∀ c ∈ ds, GoodComp c) (hn : GoodComp n)
    (hh : (ds ++ [n]).head? ≠ some Overlay.woDir) (hwo : ds.head? ≠ some Overlay.woSuffix)
    (hroot : RootOk mu) (hanc : AncDirsN (mu :: ms) ds) (hw : WoOK mu ds) (e : Entry)
    (hL : LowerServes mu ms (renderC (ds ++ [n])) e) (hf : e.ftype = .file)
    (quiet : List TOp) (hq : ∀ op ∈ quiet, op.lowerQuiet = true) (b : Bytes) (busy : Bool)
    (ops : List TOp) (hops : NoDirRemoval busy .now (some (TRec.fresh .file b .now)) ops) :
    (specStep busy .now (some (recOf e)) (.write b)).1 = some (TRec.fresh .file b .now) ∧
    ∃ mu', (runHist { fs := Overlay.fs (layersN (u :: is) (idu :: ids)), fsId := ido,
                      path := renderC (ds ++ [n]) } (quiet ++ .write b :: ops) w).2
          = w.setLeafFiles u mu' ∧
      OWN (w.setLeafFiles u mu') (u :: is) (idu :: ids) (mu' :: ms) ∧
      (runHist { fs := Overlay.fs (layersN (u :: is) (idu :: ids)), fsId := ido,
                 path := renderC (ds ++ [n]) } (quiet ++ .write b :: ops) w).1 =
        quiet.map (lowerOut e) ++ .done ::
          (specHist busy .now (some (TRec.fresh .file b .now)) ops).1 ∧
      ovAbs mu' (renderC (ds ++ [n])) =
        (specHist busy .now (some (TRec.fresh .file b .now)) ops).2 ∧
      OvInv mu' ds n := by
  refine ⟨by simp [specStep, recOf, hf], ?_⟩
  have hne : ds ++ [n] ≠ [] := by simp
  have hcs := good_snoc hds hn
  have hQ := overlay_lower_quiet_historyN h ido (ds ++ [n]) hne hcs e hL quiet hq
  have hW := overlay_lower_writeN h ido ds n hds hn hh hroot hanc e hL hf b
  obtain ⟨hi1, habs1⟩ := ovInv_afterLowerWrite (ms := ms) ds n hds hn hh hwo hroot hanc hw e hL b
  rw [← habs1] at hops
  obtain ⟨mu', e1, e2, e3, e4, e5⟩ :=
    overlay_history_exactN (h.setHead (afterLowerWrite mu ds n b)) ido ds n hds hn hh hwo hi1 busy
      ops hops
  rw [habs1] at e3 e4
  rw [Vfs.World.setLeafFiles_twice] at e1 e2
  refine ⟨mu', ?_, e2, ?_, e4, e5⟩
  · rw [runHist_append, hQ]; simp only [runHist, hW]; exact e1
  · rw [runHist_append, hQ]; simp only [runHist, hW, e3]

/-- NOT PROVED: an append session on a lower-served file copies the entry up: the top layer then
holds the old bytes ++ `b` with a NEW `created` stamp (the clock), whatever `created` the lower
entry had. Missing lemma: a `run_vcopyFileN` computing the result of `VPath.copyFile` from a lower
leaf root to the top leaf root. -/
def overlay_lower_appendN_stmt : Prop :=
  ∀ {w : World} {u idu : Nat} {mu : FMap} {is ids : List Nat} {ms : List FMap}
    (_ : OWN w (u :: is) (idu :: ids) (mu :: ms)) (ido : Nat)
    (ds : List Str) (n : Str) (_ : ∀ c ∈ ds, GoodComp c) (_ : GoodComp n)
    (_ : (ds ++ [n]).head? ≠ some Overlay.woDir) (_ : RootOk mu)
    (_ : AncDirsN (mu :: ms) ds) (e : Entry)
    (_ : LowerServes mu ms (renderC (ds ++ [n])) e) (_ : e.ftype = .file) (b : Bytes),
    ∃ mu' e', runOp { fs := Overlay.fs (layersN (u :: is) (idu :: ids)), fsId := ido,
                      path := renderC (ds ++ [n]) } (.append b) w
        = (.done, w.setLeafFiles u mu') ∧
      mu'.find? (renderC (ds ++ [n])) = some e' ∧ e'.ftype = .file ∧
      e'.content = e.content ++ b ∧ e'.created = .now

/-- NOT PROVED: the full statement with `remove_dir` of directories that have children; `busy` has
to be the overlay's merged listing, tracked along the history (missing: preservation lemmas for
`pListingN` under the ten steps). -/
def overlay_history_exactN_stmt : Prop :=
  ∀ {w : World} {u idu : Nat} {mu : FMap} {is ids : List Nat} {ms : List FMap}
    (_ : OWN w (u :: is) (idu :: ids) (mu :: ms)) (ido : Nat)
    (ds : List Str) (n : Str) (_ : ∀ c ∈ ds, GoodComp c) (_ : GoodComp n)
    (_ : (ds ++ [n]).head? ≠ some Overlay.woDir) (_ : ds.head? ≠ some Overlay.woSuffix)
    (_ : ∀ m ∈ mu :: ms, WF m) (_ : OvInv mu ds n) (ops : List TOp),
    (runHist { fs := Overlay.fs (layersN (u :: is) (idu :: ids)), fsId := ido,
               path := renderC (ds ++ [n]) } ops w).1 =
      (specHist (decide (pListingN (mu :: ms) (renderC (ds ++ [n])) ≠ [])) .now
        (ovAbs mu (renderC (ds ++ [n]))) ops).1

/-! ### Part 3: non-vacuity on the 3-layer world of Props/C09Refine.lean -/

section concrete
open Vfs.C09 (xw xU xA xB xw_setting)

/-- "/top" is served by the top layer (leaf 2) of the three-layer world -/
theorem x_top_inv : OvInv xU [] "top".toList := by
  refine ⟨⟨⟨⟨_, rfl, rfl⟩, by decide⟩, ?_⟩, ?_, Or.inl ⟨by decide, Vfs.C01.fileOf [84], by decide⟩⟩
  · intro j h1 h2; simp at h2; omega
  · intro q hq e he
    have hq' : q = "/.whiteout".toList := by
      have : woChain [] = ["/.whiteout".toList] := by decide
      rw [this] at hq
      simpa using hq
    subst hq'
    have : xU.find? "/.whiteout".toList = none := by decide
    rw [this] at he; cases he

/-- all ten kinds; `remove_dir` only while the path is a file, absent or hidden -/
def xTopOps : List TOp :=
  [ .metadata, .setCreated 5, .setModified 6, .setAccessed 8, .append [3], .read, .removeDir,
    .removeFile, .metadata, .removeDir, .setCreated 1, .createDir, .metadata, .write [1],
    .removeFile, .write [9, 9], .metadata ]

example : NoDirRemoval false .now (ovAbs xU (renderC ([] ++ ["top".toList]))) xTopOps := by decide

example : ∀ c ∈ ([] : List Str), GoodComp c := by simp
example : GoodComp "top".toList := by decide
example : (([] : List Str) ++ ["top".toList]).head? ≠ some Overlay.woDir := by decide

/-- the conclusion of `overlay_history_exactN`, evaluated: the run through the 3-layer overlay
equals the specification's -/
example : (runHist { fs := Overlay.fs (layersN [2, 0, 1] [7, 8, 9]), fsId := 3,
                     path := renderC ([] ++ ["top".toList]) } xTopOps xw).1 =
    (specHist false .now (ovAbs xU (renderC ([] ++ ["top".toList]))) xTopOps).1 :=
  (overlay_history_exactN xw_setting 3 [] "top".toList (by simp) (by decide) (by decide)
    (by decide) x_top_inv false xTopOps (by decide)).choose_spec.2.2.1

set_option maxRecDepth 100000 in
example : (specHist false .now (ovAbs xU (renderC ([] ++ ["top".toList]))) xTopOps).1 =
    [ .info ⟨.file, 1, .now, .now, .now⟩, .done, .done, .done, .done, .data [84, 3],
      .refused .other, .done, .refused .fileNotFound, .refused .fileNotFound,
      .refused .fileNotFound, .done, .info ⟨.dir, 0, .now, .now, .now⟩, .refused .other,
      .refused .other, .refused .other, .info ⟨.dir, 0, .now, .now, .now⟩ ] := by
  decide +kernel

/-- "/d/x" is served by layer 1 (leaf 0; layer 2 holds another "/d/x"), its ancestor "/d" lives in
the lower layers only -/
theorem x_dx_lower : LowerServes xU [xA, xB] (renderC (["d".toList] ++ ["x".toList]))
    (Vfs.C01.fileOf [49]) := ⟨by decide, by decide, by decide⟩

theorem x_dx_anc : AncDirsN [xU, xA, xB] ["d".toList] := by
  intro j h1 h2
  have : j = 1 := by simp at h2; omega
  subst this
  exact ⟨dirEntryNow, by decide, rfl⟩

theorem x_dx_wo : WoOK xU ["d".toList] := by
  intro q hq e he
  have hq' : q = "/.whiteout".toList ∨ q = "/.whiteout/d".toList := by
    have : woChain ["d".toList] = ["/.whiteout".toList, "/.whiteout/d".toList] := by decide
    rw [this] at hq
    simpa using hq
  rcases hq' with rfl | rfl
  · have : xU.find? "/.whiteout".toList = none := by decide
    rw [this] at he; cases he
  · have : xU.find? "/.whiteout/d".toList = none := by decide
    rw [this] at he; cases he

def xQuiet : List TOp := [.metadata, .setCreated 5, .setModified 6, .setAccessed 8, .metadata]
def xAfter : List TOp :=
  [.metadata, .setCreated 5, .metadata, .removeFile, .metadata, .setAccessed 2, .write [4], .read]

/-- `overlay_lower_served_historyN` instantiated on the three-layer world -/
example : (runHist { fs := Overlay.fs (layersN [2, 0, 1] [7, 8, 9]), fsId := 3,
                     path := renderC (["d".toList] ++ ["x".toList]) }
              (xQuiet ++ .write [7] :: xAfter) xw).1 =
    xQuiet.map (lowerOut (Vfs.C01.fileOf [49])) ++ .done ::
      (specHist false .now (some (TRec.fresh .file [7] .now)) xAfter).1 :=
  (overlay_lower_served_historyN xw_setting 3 ["d".toList] "x".toList (by decide) (by decide)
    (by decide) (by decide) ⟨⟨_, rfl, rfl⟩, by decide⟩ x_dx_anc x_dx_wo _ x_dx_lower rfl
    xQuiet (by decide) [7] false xAfter (by decide)).2.choose_spec.2.2.1

set_option maxRecDepth 100000 in
/-- … and evaluated directly on the model -/
example : (runHist { fs := Overlay.fs (layersN [2, 0, 1] [7, 8, 9]), fsId := 3,
                     path := renderC (["d".toList] ++ ["x".toList]) }
              (xQuiet ++ .write [7] :: xAfter) xw).1 =
    [ .info ⟨.file, 1, .now, .now, .now⟩, .refused .fileNotFound, .refused .fileNotFound,
      .refused .fileNotFound, .info ⟨.file, 1, .now, .now, .now⟩, .done,
      .info ⟨.file, 1, .now, .now, .now⟩, .done, .info ⟨.file, 1, .at 5, .now, .now⟩, .done,
      .refused .fileNotFound, .refused .fileNotFound, .done, .data [4] ] := by
  decide +kernel

end concrete

#print axioms Vfs.C19.overlay_history_exactN
#print axioms Vfs.C19.overlay_history_exact_noRemoveDirN
#print axioms Vfs.C19.overlay_lower_quiet_historyN
#print axioms Vfs.C19.overlay_lower_writeN
#print axioms Vfs.C19.overlay_lower_served_historyN

end Vfs.C19
