/-
  C18, second part (continues Props/C18Phys.lean).

  WHAT IS PROVED HERE
  * 1.-3. MUTATORS on the embedded filesystem, at the `VfsPath` level, for ANY file list, ANY path
       string and ANY world (no hypotheses):
       - `embedded_direct_mutators_refused`: append_file, remove_file, remove_dir and the three
         time setters return `NotSupported` with the path filled in, world unchanged (equations);
       - `createDir_eq` / `createFile_eq` / `parentCheck_kinds` / `createDir_refused`: create_dir /
         create_file run the path layer's parent check first (`Other` when the parent is absent or
         a file — the error the Rust path layer produces before reaching the filesystem), then
         `NotSupported`; `create_in_dir_notSupported`: exactly `NotSupported` in every directory of
         the folder (under `GoodFiles`);
       - `createDirAll_eq`: no-op on the root, `NotSupported` at the first prefix otherwise;
       - `removeDirAll_embedded`: world unchanged, succeeds only where the path does not exist;
       - `embedded_mutators_refused`: the summary of the above;
       - `transfers_into_embedded_refused`: copy_file / move_file / copy_dir / move_dir with an
         embedded DESTINATION never succeed and leave the world unchanged (source on a different
         filesystem; for the two file transfers its observers must leave the world alone, as the
         source is opened first). Root = any other path: the statements quantify over all strings.
  * 4. `goodCs_of_canon`, `goodCs_of_join`: every path produced by `join` from a canonical base is
       of the form required by `embedded_matches_physical`.
  * 5. `putFile` / `buildFolder`: the folder built by the MODEL's operations on a fresh physical
       leaf (create_dir_all of the parent, create session writing the bytes); `Built fl` (decidable):
       the build succeeds and leaves a map with the same lookups as `folderMap fl`.
       `harnessFixture_built`, `fixture_built`, `folder_built_nil` (kernel evaluation).
       `folderMap_unique`: any well-formed map with exactly these files (and only the implied
       directories) equals `folderMap fl` in type and bytes at every key; `folderMap_is_folder`.
  * 6. non-vacuity: `harnessFixture` (nested, dotted, multi-byte, prefix-sharing names, an empty
       file), `harnessFixture_good`, hypotheses of every main theorem instantiated, concrete
       witnesses of the exceptions, the evaluated walk and mutators (`decide` / `decide +kernel`).
  NOT PROVED HERE: `folder_built_stmt` (∀ fl, GoodFiles fl → Built fl) — it is proved in
  Props/C18Built.lean (`folder_built`); here only instances by evaluation. Not proved anywhere: the
  exact `NotSupported` kind of `remove_dir_all` on an existing directory and of the transfers
  (stated as "never succeeds, changes nothing"); transfers whose SOURCE is embedded (read-only).
-/
import VfsModel.Props.C18Phys
import VfsModel.Proofs.PreservesOps
namespace Vfs.C18
open Vfs.Embedded

/-! ### 1. every method of the embedded filesystem leaves the world alone -/

theorem embedded_allPreserve (s : State) (I : World → Prop) : (Embedded.fs s).AllPreserve I where
  readDir _ := Preserves.ret _
  createDir _ := Preserves.failK _
  openFile _ := Preserves.ret _
  createFile _ := Preserves.failK _
  appendFile _ := Preserves.failK _
  metadata _ := Preserves.ret _
  setCreationTime _ _ := Preserves.failK _
  setModificationTime _ _ := Preserves.failK _
  setAccessTime _ _ := Preserves.failK _
  exists_ _ := Preserves.ret _
  removeFile _ := Preserves.failK _
  removeDir _ := Preserves.failK _
  copyFile _ _ := Preserves.failK _
  moveFile _ _ := Preserves.failK _
  moveDir _ _ := Preserves.failK _
  createHandle _ := Returns.failK _
  appendHandle _ := Returns.failK _

/-- `m` never succeeds -/
abbrev NeverOk {α} (m : M α) : Prop := Returns m (fun _ => False)

theorem NeverOk.not_ok {α} {m : M α} (h : NeverOk m) (w : World) (a : α) : (m w).1 ≠ .ok a :=
  fun he => h.post w a he

/-- a program preserving `· = w` ends in `w` -/
theorem world_eq_of_pres {α} {m : M α} {w : World} (h : Preserves (fun w' => w' = w) m) :
    (m w).2 = w := h.pres w rfl

/-! ### 2. single-path mutators -/

/-- the methods that go straight to the filesystem: `NotSupported` with the path filled in, world
unchanged — for EVERY path string (root, files, directories, absent paths alike) -/
theorem embedded_direct_mutators_refused (fl : List (Str × Bytes)) (id : Nat) (p : Str) (t : Int)
    (w : World) :
    (embVP fl id p).appendFile w = (.err .notSupported (some p), w) ∧
    (embVP fl id p).removeFile w = (.err .notSupported (some p), w) ∧
    (embVP fl id p).removeDir w = (.err .notSupported (some p), w) ∧
    (embVP fl id p).setCreationTime t w = (.err .notSupported (some p), w) ∧
    (embVP fl id p).setModificationTime t w = (.err .notSupported (some p), w) ∧
    (embVP fl id p).setAccessTime t w = (.err .notSupported (some p), w) :=
  ⟨rfl, rfl, rfl, rfl, rfl, rfl⟩

/-- the answer of `get_parent` (path.rs) on the embedded filesystem, as a function of the data -/
def parentCheck (fl : List (Str × Bytes)) (p : Str) : Res Unit :=
  if Embedded.exists_ (new fl) (parentInternal p) = false then .err .other (some p)
  else match Embedded.metadata (new fl) (parentInternal p) with
    | .ok md => if md.ftype ≠ .dir then .err .other (some p) else .ok ()
    | .err k _ => .err k (some (parentInternal p))
    | .panic => .panic

theorem getParent_eq (fl : List (Str × Bytes)) (id : Nat) (p : Str) (w : World) :
    (embVP fl id p).getParent w = (parentCheck fl p, w) := by
  unfold VPath.getParent parentCheck
  simp only [bind, M.bind]
  have h1 : (embVP fl id p).parent.exists_ w =
      (.ok (Embedded.exists_ (new fl) (parentInternal p)), w) := rfl
  have h2 : (embVP fl id p).parent.metadata w =
      ((Embedded.metadata (new fl) (parentInternal p)).withPath (parentInternal p), w) := rfl
  rw [h1]
  cases hb : Embedded.exists_ (new fl) (parentInternal p)
  · rfl
  · simp only [Bool.not_true, Bool.false_eq_true, if_false, M.bind, h2]
    cases hm : Embedded.metadata (new fl) (parentInternal p) with
    | ok md =>
      simp only [Res.withPath]
      by_cases hft : md.ftype ≠ .dir
      · rw [if_pos hft, if_pos hft]; rfl
      · rw [if_neg hft, if_neg hft]; rfl
    | err k q => rfl
    | panic => rfl

/-- `create_dir` / `create_file`: the parent check of the path layer comes first; when it passes
the filesystem refuses with `NotSupported`. Nothing changes. -/
theorem createDir_eq (fl : List (Str × Bytes)) (id : Nat) (p : Str) (w : World) :
    (embVP fl id p).createDir w =
      (match parentCheck fl p with
        | .ok _ => .err .notSupported (some p)
        | .err k q => .err k q
        | .panic => .panic, w) := by
  unfold VPath.createDir
  simp only [bind, M.bind, getParent_eq]
  cases parentCheck fl p <;> rfl

theorem createFile_eq (fl : List (Str × Bytes)) (id : Nat) (p : Str) (w : World) :
    (embVP fl id p).createFile w =
      (match parentCheck fl p with
        | .ok _ => .err .notSupported (some p)
        | .err k q => .err k q
        | .panic => .panic, w) := by
  unfold VPath.createFile
  simp only [bind, M.bind, getParent_eq]
  cases parentCheck fl p <;> rfl

/-- the parent check never panics; it fails only with `Other` (parent absent or a file, path =
the path itself) or not-found (only the root of the EMPTY folder as parent) -/
theorem parentCheck_kinds (fl : List (Str × Bytes)) (p : Str) :
    parentCheck fl p = .ok () ∨ parentCheck fl p = .err .other (some p) ∨
    parentCheck fl p = .err .fileNotFound (some (parentInternal p)) := by
  unfold parentCheck
  split
  · exact Or.inr (Or.inl rfl)
  · have := (observers_no_panic (new fl) (parentInternal p)).2.2
    cases hm : Embedded.metadata (new fl) (parentInternal p) with
    | ok md =>
      simp only
      split
      · exact Or.inr (Or.inl rfl)
      · exact Or.inl rfl
    | err k q =>
      right; right
      unfold Embedded.metadata at hm
      split at hm
      · cases hm
      · split at hm
        · cases hm
        · simp only [fail, Res.err.injEq] at hm
          rw [← hm.1]
    | panic => exact absurd hm this

theorem createDir_refused (fl : List (Str × Bytes)) (id : Nat) (p : Str) (w : World) :
    ((embVP fl id p).createDir w).2 = w ∧ ((embVP fl id p).createFile w).2 = w ∧
    (∃ k q, ((embVP fl id p).createDir w).1 = .err k q ∧
      ((embVP fl id p).createFile w).1 = .err k q ∧
      (k = .notSupported ∨ k = .other ∨ k = .fileNotFound)) := by
  rw [createDir_eq, createFile_eq]
  refine ⟨rfl, rfl, ?_⟩
  rcases parentCheck_kinds fl p with h | h | h <;> rw [h]
  · exact ⟨_, _, rfl, rfl, Or.inl rfl⟩
  · exact ⟨_, _, rfl, rfl, Or.inr (Or.inl rfl)⟩
  · exact ⟨_, _, rfl, rfl, Or.inr (Or.inr rfl)⟩

/-- in a directory of the folder (the root included) creation is refused as `NotSupported`,
whatever the new name -/
theorem create_in_dir_notSupported (fl : List (Str × Bytes)) (hG : GoodFiles fl) (cs : List Str)
    (hcs : GoodCs cs) (hd : IsDirC fl cs) (n : Str) (hn : '/' ∉ n) (id : Nat) (w : World) :
    (embVP fl id (renderC (cs ++ [n]))).createDir w =
      (.err .notSupported (some (renderC (cs ++ [n]))), w) ∧
    (embVP fl id (renderC (cs ++ [n]))).createFile w =
      (.err .notSupported (some (renderC (cs ++ [n]))), w) := by
  have hpar : parentInternal (renderC (cs ++ [n])) = renderC cs := by
    rw [parentInternal_renderC, List.dropLast_concat]
    intro c hc
    rcases List.mem_append.1 hc with hc | hc
    · exact (hcs c hc).2
    · simp at hc; rw [hc]; exact hn
  obtain ⟨ch, hch, _⟩ := dirmap_some_of_isDirC fl cs hd
  have hnf : fileGet? fl (key cs) = none := by
    obtain ⟨g, hg, x, post, hsp⟩ := hd
    exact hG.dir_not_file g hg cs post x hsp
  have he := emb_dir fl (renderC cs) ch hnf hch
  simp only [embObs, Obs.mk.injEq] at he
  have hpc : parentCheck fl (renderC (cs ++ [n])) = .ok () := by
    unfold parentCheck
    rw [hpar, he.1, he.2.1]
    simp
  rw [createDir_eq, createFile_eq, hpc]
  exact ⟨rfl, rfl⟩

theorem dirPrefixes_ne_nil (p : Str) (h : p ≠ []) : VPath.dirPrefixes p ≠ [] := by
  intro e
  have : p.take p.length ∈ VPath.dirPrefixes p := by
    unfold VPath.dirPrefixes
    rw [List.mem_map]
    refine ⟨p.length, ?_, rfl⟩
    rw [List.mem_filter]
    have : 1 ≤ p.length := by
      cases p with
      | nil => exact absurd rfl h
      | cons c t => simp
    refine ⟨by simp, by simp [this]⟩
  rw [e] at this
  cases this

/-- `create_dir_all`: nothing to do on the root; otherwise the first prefix is refused -/
theorem createDirAll_eq (fl : List (Str × Bytes)) (id : Nat) (p : Str) (w : World) :
    (embVP fl id p).createDirAll w =
      if p = [] then (.ok (), w)
      else (.err .notSupported (some ((VPath.dirPrefixes p).headD [])), w) := by
  unfold VPath.createDirAll
  by_cases hp : p = []
  · rw [if_pos hp, if_pos (show (embVP fl id p).path = [] from hp)]; rfl
  · rw [if_neg hp, if_neg (show ¬ (embVP fl id p).path = [] from hp)]
    show VPath.createDirAllLoop _ (VPath.dirPrefixes p) w = _
    cases hdp : VPath.dirPrefixes p with
    | nil => exact absurd hdp (dirPrefixes_ne_nil p hp)
    | cons d rest => rfl

/-- `remove_dir_all`: nothing changes; it succeeds only on a path that does not exist (the
"already gone" shortcut of the path layer), never on an existing one -/
theorem removeDirAll_embedded (fl : List (Str × Bytes)) (id : Nat) (p : Str) (w : World)
    (fuel : Nat) :
    (VPath.removeDirAll fuel (embVP fl id p) w).2 = w ∧
    (Embedded.exists_ (new fl) p = false →
      VPath.removeDirAll (fuel + 1) (embVP fl id p) w = (.ok (), w)) ∧
    (Embedded.exists_ (new fl) p = true →
      ∀ a, (VPath.removeDirAll fuel (embVP fl id p) w).1 ≠ .ok a) := by
  refine ⟨world_eq_of_pres (VPath.pres_removeDirAll fuel _ (embedded_allPreserve _ _)), ?_, ?_⟩
  · intro hex
    unfold VPath.removeDirAll
    simp only [bind, M.bind]
    have h1 : (embVP fl id p).exists_ w = (.ok (Embedded.exists_ (new fl) p), w) := rfl
    rw [h1, hex]
    rfl
  · intro hex a
    cases fuel with
    | zero => unfold VPath.removeDirAll; intro h; cases h
    | succ fuel =>
      unfold VPath.removeDirAll
      simp only [bind, M.bind]
      have h1 : (embVP fl id p).exists_ w = (.ok (Embedded.exists_ (new fl) p), w) := rfl
      rw [h1, hex]
      simp only [Bool.not_true, Bool.false_eq_true, if_false]
      have hn : NeverOk ((embVP fl id p).readDir >>= fun children =>
          VPath.removeChildren fuel children >>= fun _ => (embVP fl id p).removeDir) :=
        Returns.bind (fun children => Returns.bind (fun _ =>
          Returns.withPath _ (Returns.failK _)))
      exact hn.not_ok w a

/-! ### 3. transfers INTO the embedded filesystem -/

theorem createFile_neverOk (fl : List (Str × Bytes)) (id : Nat) (q : Str) :
    NeverOk (embVP fl id q).createFile := by
  refine ⟨fun w a h => ?_⟩
  rw [createFile_eq] at h
  cases hpc : parentCheck fl q <;> rw [hpc] at h <;> simp at h

theorem createDir_neverOk (fl : List (Str × Bytes)) (id : Nat) (q : Str) :
    NeverOk (embVP fl id q).createDir := by
  refine ⟨fun w a h => ?_⟩
  rw [createDir_eq] at h
  cases hpc : parentCheck fl q <;> rw [hpc] at h <;> simp at h

/-- `copy_file` from another filesystem onto an embedded path never succeeds -/
theorem copyFile_into_neverOk (src : VPath) (fl : List (Str × Bytes)) (idE : Nat) (q : Str)
    (hid : src.fsId ≠ idE) : NeverOk (src.copyFile (embVP fl idE q)) := by
  unfold VPath.copyFile
  apply Returns.withPath
  apply Returns.bind
  intro b
  split
  · exact Returns.failAt _ _
  · apply Returns.bindQ (P := fun fast => fast = fail .notSupported)
    · rw [if_neg (show ¬ src.fsId = (embVP fl idE q).fsId from hid)]
      exact Returns.pure _ rfl
    · intro fast hfast
      subst hfast
      simp only [fail, ne_eq, not_true_eq_false, if_false]
      apply Returns.bind
      intro r
      exact Returns.bindQ (createFile_neverOk fl idE q) (fun a h => h.elim)

/-- `move_file` from another filesystem onto an embedded path never succeeds -/
theorem moveFile_into_neverOk (src : VPath) (fl : List (Str × Bytes)) (idE : Nat) (q : Str)
    (hid : src.fsId ≠ idE) : NeverOk (src.moveFile (embVP fl idE q)) := by
  unfold VPath.moveFile
  apply Returns.withPath
  apply Returns.bind
  intro b
  split
  · exact Returns.failAt _ _
  · apply Returns.bindQ (P := fun fast => fast = fail .notSupported)
    · rw [if_neg (show ¬ src.fsId = (embVP fl idE q).fsId from hid)]
      exact Returns.pure _ rfl
    · intro fast hfast
      subst hfast
      simp only [fail, ne_eq, not_true_eq_false, if_false]
      apply Returns.bind
      intro r
      exact Returns.bindQ (createFile_neverOk fl idE q) (fun a h => h.elim)

/-- `copy_dir` onto an embedded path never succeeds (whatever the source) -/
theorem copyDir_into_neverOk (fuel : Nat) (src : VPath) (fl : List (Str × Bytes)) (idE : Nat)
    (q : Str) : NeverOk (VPath.copyDir fuel src (embVP fl idE q)) := by
  unfold VPath.copyDir
  apply Returns.withPath
  apply Returns.bind
  intro b
  split
  · exact Returns.failAt _ _
  · exact Returns.bindQ (createDir_neverOk fl idE q) (fun a h => h.elim)

/-- `move_dir` from another filesystem onto an embedded path never succeeds -/
theorem moveDir_into_neverOk (fuel : Nat) (src : VPath) (fl : List (Str × Bytes)) (idE : Nat)
    (q : Str) (hid : src.fsId ≠ idE) : NeverOk (VPath.moveDir fuel src (embVP fl idE q)) := by
  unfold VPath.moveDir
  apply Returns.withPath
  apply Returns.bind
  intro b
  split
  · exact Returns.failAt _ _
  · apply Returns.bindQ (P := fun fast => fast = fail .notSupported)
    · rw [if_neg (show ¬ src.fsId = (embVP fl idE q).fsId from hid)]
      exact Returns.pure _ rfl
    · intro fast hfast
      subst hfast
      simp only [fail, ne_eq, not_true_eq_false, if_false]
      exact Returns.bindQ (createDir_neverOk fl idE q) (fun a h => h.elim)

/-- if the first action never succeeds, the continuation never runs -/
theorem bind_neverOk_world {α β} {m : M α} {f : α → M β} (h : NeverOk m) (w : World) :
    ((m >>= f) w).2 = (m w).2 := by
  show ((M.bind m f) w).2 = _
  unfold M.bind
  have := h.not_ok w
  cases hm : m w with
  | mk r w' =>
    rw [hm] at this
    cases r with
    | ok a => exact absurd rfl (this a)
    | err k p => rfl
    | panic => rfl

/-- **transfers into the embedded filesystem are refused and change nothing**: `copy_file` /
`move_file` (source on another filesystem whose observers leave the world `w` alone — e.g. a
physical or memory leaf … the source is opened before the destination is created),
`copy_dir` / `move_dir` (any source: the destination directory is created first, and that is
refused) never succeed, and the world is unchanged -/
theorem transfers_into_embedded_refused (fuel : Nat) (src : VPath) (fl : List (Str × Bytes))
    (idE : Nat) (q : Str) (hid : src.fsId ≠ idE) (w : World)
    (hsrc : src.fs.ObsPreserve (fun w' => w' = w)) :
    ((src.copyFile (embVP fl idE q) w).2 = w ∧
      ∀ a, (src.copyFile (embVP fl idE q) w).1 ≠ .ok a) ∧
    ((src.moveFile (embVP fl idE q) w).2 = w ∧
      ∀ a, (src.moveFile (embVP fl idE q) w).1 ≠ .ok a) ∧
    ((VPath.copyDir fuel src (embVP fl idE q) w).2 = w ∧
      ∀ a, (VPath.copyDir fuel src (embVP fl idE q) w).1 ≠ .ok a) ∧
    ((VPath.moveDir fuel src (embVP fl idE q) w).2 = w ∧
      ∀ a, (VPath.moveDir fuel src (embVP fl idE q) w).1 ≠ .ok a) := by
  have hall := embedded_allPreserve (new fl) (fun w' => w' = w)
  refine ⟨⟨?_, (copyFile_into_neverOk src fl idE q hid).not_ok w⟩,
    ⟨?_, (moveFile_into_neverOk src fl idE q hid).not_ok w⟩,
    ⟨?_, (copyDir_into_neverOk fuel src fl idE q).not_ok w⟩,
    ⟨?_, (moveDir_into_neverOk fuel src fl idE q hid).not_ok w⟩⟩
  · exact world_eq_of_pres (VPath.pres_copyFile src _ hsrc hall (fun h => absurd h hid))
  · apply world_eq_of_pres
    unfold VPath.moveFile
    apply Preserves.withPath
    apply Preserves.bind (VPath.pres_exists _ hall.obs)
    intro b
    split
    · exact Preserves.failAt _ _
    · apply Preserves.bind
      · rw [if_neg (show ¬ src.fsId = (embVP fl idE q).fsId from hid)]
        exact Preserves.pure _
      · intro fast
        split
        · exact Preserves.pure _
        · exact Preserves.ret _
        · split
          · exact Preserves.ret _
          · apply Preserves.bind (VPath.pres_openFile src hsrc)
            intro r
            exact Preserves.bindQ (fun _ => False) (VPath.pres_createFile _ hall)
              (createFile_neverOk fl idE q) (fun a h => h.elim)
  · apply world_eq_of_pres
    unfold VPath.copyDir
    apply Preserves.withPath
    apply Preserves.bind (VPath.pres_exists _ hall.obs)
    intro b
    split
    · exact Preserves.failAt _ _
    · exact Preserves.bindQ (fun _ => False) (VPath.pres_createDir _ hall)
        (createDir_neverOk fl idE q) (fun a h => h.elim)
  · apply world_eq_of_pres
    unfold VPath.moveDir
    apply Preserves.withPath
    apply Preserves.bind (VPath.pres_exists _ hall.obs)
    intro b
    split
    · exact Preserves.failAt _ _
    · apply Preserves.bind
      · rw [if_neg (show ¬ src.fsId = (embVP fl idE q).fsId from hid)]
        exact Preserves.pure _
      · intro fast
        split
        · exact Preserves.pure _
        · exact Preserves.ret _
        · split
          · exact Preserves.ret _
          · exact Preserves.bindQ (fun _ => False) (VPath.pres_createDir _ hall)
              (createDir_neverOk fl idE q) (fun a h => h.elim)

/-- **C18, mutators (summary).** On the embedded filesystem of ANY file list, for ANY path string
and world: the six methods that go straight to the filesystem answer `NotSupported` (path filled
in); `create_dir` / `create_file` fail — with `NotSupported` unless the path layer's parent check
fails first (`Other`; not-found only below the root of the empty folder), see
`create_in_dir_notSupported` for the exact `NotSupported` case; `create_dir_all` is a no-op on
the root and `NotSupported` (path = first prefix) elsewhere; `remove_dir_all` succeeds only on
paths that do not exist; and no call changes the world. Transfers into the filesystem:
`transfers_into_embedded_refused`. -/
theorem embedded_mutators_refused (fl : List (Str × Bytes)) (id : Nat) (p : Str) (t : Int)
    (w : World) (fuel : Nat) :
    (embVP fl id p).appendFile w = (.err .notSupported (some p), w) ∧
    (embVP fl id p).removeFile w = (.err .notSupported (some p), w) ∧
    (embVP fl id p).removeDir w = (.err .notSupported (some p), w) ∧
    (embVP fl id p).setCreationTime t w = (.err .notSupported (some p), w) ∧
    (embVP fl id p).setModificationTime t w = (.err .notSupported (some p), w) ∧
    (embVP fl id p).setAccessTime t w = (.err .notSupported (some p), w) ∧
    (((embVP fl id p).createDir w).2 = w ∧ ((embVP fl id p).createFile w).2 = w ∧
      ∃ k q, ((embVP fl id p).createDir w).1 = .err k q ∧
        ((embVP fl id p).createFile w).1 = .err k q ∧
        (k = .notSupported ∨ k = .other ∨ k = .fileNotFound)) ∧
    ((embVP fl id p).createDirAll w =
      if p = [] then (.ok (), w)
      else (.err .notSupported (some ((VPath.dirPrefixes p).headD [])), w)) ∧
    ((VPath.removeDirAll fuel (embVP fl id p) w).2 = w ∧
      (Embedded.exists_ (new fl) p = true →
        ∀ a, (VPath.removeDirAll fuel (embVP fl id p) w).1 ≠ .ok a)) := by
  obtain ⟨h1, h2, h3, h4, h5, h6⟩ := embedded_direct_mutators_refused fl id p t w
  obtain ⟨r1, _, r3⟩ := removeDirAll_embedded fl id p w fuel
  exact ⟨h1, h2, h3, h4, h5, h6, createDir_refused fl id p w, createDirAll_eq fl id p w, r1, r3⟩

/-! ### 4. canonical paths: everything `join` produces -/

theorem goodCs_of_canon {p : Str} (h : Canon p) : ∃ cs, GoodCs cs ∧ p = renderC cs := by
  obtain ⟨cs, hg, rfl⟩ := h
  exact ⟨cs, fun c hc => ⟨(hg c hc).1, (hg c hc).2.1⟩, rfl⟩

/-- every path obtained from the root by any chain of `join`s is of the form covered by
`embedded_matches_physical` -/
theorem goodCs_of_join (base arg r : Str) (hb : Canon base) (h : joinInternal base arg = .ok r) :
    ∃ cs, GoodCs cs ∧ r = renderC cs :=
  goodCs_of_canon (C06.join_canonical base arg r hb h)

/-! ### 5. the folder map is what the model's own operations build -/

/-- one embedded file put onto the physical leaf `i` through the `VfsPath` layer:
`create_dir_all` of the parent, then a create session writing the bytes -/
def putFile (i id : Nat) (f : Str × Bytes) : M Unit := do
  let p := physVP i id ('/' :: f.1)
  p.parent.createDirAll
  let h ← p.createFile
  h.writeAllAndDrop f.2

def buildFolder (i id : Nat) : List (Str × Bytes) → M Unit
  | [] => pure ()
  | f :: rest => do putFile i id f; buildFolder i id rest

/-- a world whose only leaf is a fresh physical filesystem -/
def freshPhys : World := { leaves := [{ kind := .phys, files := Phys.init }] }

/-- decidable "same finite map" -/
def SameMap (a b : FMap) : Prop :=
  (∀ k ∈ a.keys, a.find? k = b.find? k) ∧ (∀ k ∈ b.keys, a.find? k = b.find? k)

instance (a b : FMap) : Decidable (SameMap a b) := by unfold SameMap; exact inferInstance

theorem SameMap.find? {a b : FMap} (h : SameMap a b) (k : Str) : a.find? k = b.find? k := by
  by_cases ha : k ∈ a.keys
  · exact h.1 k ha
  · by_cases hb : k ∈ b.keys
    · exact h.2 k hb
    · have h1 : a.find? k = none := by
        cases hf : a.find? k with
        | none => rfl
        | some e => exact absurd ((FMap.mem_keys_iff a k).2 ⟨e, hf⟩) ha
      have h2 : b.find? k = none := by
        cases hf : b.find? k with
        | none => rfl
        | some e => exact absurd ((FMap.mem_keys_iff b k).2 ⟨e, hf⟩) hb
      rw [h1, h2]

/-- building the folder file by file on a fresh physical filesystem succeeds and leaves exactly
`folderMap fl` (same lookups for every key) -/
def Built (fl : List (Str × Bytes)) : Prop :=
  (buildFolder 0 0 fl freshPhys).1 = .ok () ∧
  match (buildFolder 0 0 fl freshPhys).2.leaf? 0 with
  | some l => l.kind = .phys ∧ SameMap l.files (folderMap fl)
  | none => False

instance (fl : List (Str × Bytes)) : Decidable (Built fl) := by
  unfold Built; split <;> exact inferInstance

/-- FULL STATEMENT (proved as `folder_built` in Props/C18Built.lean; decidable for every concrete
list and also checked below on the fixtures by kernel evaluation) -/
def folder_built_stmt : Prop := ∀ fl, GoodFiles fl → Built fl

/-- the empty folder is the fresh physical filesystem -/
theorem folder_built_nil : Built [] := by decide

/-- **`folderMap fl` is THE folder with exactly these files** (independent of how it is built):
any well-formed physical map that holds every embedded file as a file with its bytes, and
nothing but these files and the directories implied by their paths (empty directories do not
exist in an embedded folder), has the same type and bytes as `folderMap fl` at EVERY key -/
theorem folderMap_unique (fl : List (Str × Bytes)) (hG : GoodFiles fl) (m : FMap) (hwf : WF m)
    (hfiles : ∀ f ∈ fl, ∃ e, m.find? ('/' :: f.1) = some e ∧ e.ftype = .file ∧ e.content = f.2)
    (hmin : ∀ k e, m.find? k = some e →
      (k ∈ dirKeys fl ∧ e.ftype = .dir ∧ e.content = []) ∨
      (∃ f ∈ fl, k = '/' :: f.1 ∧ e.ftype = .file)) :
    ∀ k, (m.find? k).map core = ((folderMap fl).find? k).map core := by
  intro k
  rw [folderMap_find?]
  by_cases hk : k ∈ dirKeys fl
  · rw [if_pos hk]
    -- the key is the root or a proper prefix of a file path present in `m`: a directory of `m`
    have hpres : ∃ e, m.find? k = some e ∧ e.ftype = .dir := by
      rcases (mem_dirKeys fl k).1 hk with rfl | ⟨f, hf, pre, x, post, hsp, rfl⟩
      · exact hwf.1
      · obtain ⟨e, he, _, _⟩ := hfiles f hf
        have hP : '/' :: f.1 = renderC pre ++ '/' :: (x ++ renderC post) := by
          have hsp' : splitOnC '/' f.1 = pre ++ x :: post := hsp
          rw [← renderC_splitSlash f.1, hsp']; simp
        have hanc : renderC pre ∈ Phys.ancestors ('/' :: f.1) := by
          rw [hP]; exact slashfile_mem_ancestors _ _
        exact hwf.ancestors_good _ _ (Nat.le_refl _) ⟨e, he⟩ _ hanc
    obtain ⟨e, he, hd⟩ := hpres
    rcases hmin k e he with ⟨_, _, hc⟩ | ⟨f, _, _, hfile⟩
    · rw [he]; simp [core, hd, hc, dirEntryNow]
    · rw [hfile] at hd; cases hd
  · rw [if_neg hk]
    cases hm : m.find? k with
    | none =>
      cases hf : (fileKVs fl).find? k with
      | none => rfl
      | some e' =>
        exfalso
        obtain ⟨f, b, rfl, hmem, _, _⟩ := find?_fileKVs_some fl k e' hf
        obtain ⟨e, he, _⟩ := hfiles (f, b) hmem
        rw [he] at hm; cases hm
    | some e =>
      rcases hmin k e hm with ⟨h1, _⟩ | ⟨f, hf, rfl, hfile⟩
      · exact absurd h1 hk
      · obtain ⟨e2, he2, h2, h3⟩ := hfiles f hf
        rw [hm] at he2; injection he2 with he2; subst he2
        rw [find?_fileKVs_slash, fileGet?_of_mem fl f.1 f.2 hG.2.1 hf]
        simp [core, fileEntry, h2, h3]

/-- `folderMap fl` itself satisfies the hypotheses of `folderMap_unique` -/
theorem folderMap_is_folder (fl : List (Str × Bytes)) (hG : GoodFiles fl) :
    WF (folderMap fl) ∧
    (∀ f ∈ fl, ∃ e, (folderMap fl).find? ('/' :: f.1) = some e ∧ e.ftype = .file ∧
      e.content = f.2) ∧
    (∀ k e, (folderMap fl).find? k = some e →
      (k ∈ dirKeys fl ∧ e.ftype = .dir ∧ e.content = []) ∨
      (∃ f ∈ fl, k = '/' :: f.1 ∧ e.ftype = .file)) := by
  refine ⟨folderMap_wf fl, ?_, ?_⟩
  · intro f hf
    refine ⟨fileEntry f.2, ?_, rfl, rfl⟩
    have h1 : splitSlash f.1 ≠ [] := splitOnC_ne_nil _ _
    have h2 := folderMap_find?_nodir fl (splitSlash f.1) (noSlash_split _) h1 (by
      rintro ⟨g, hg, x, post, hsp⟩
      have := hG.dir_not_file g hg _ post x hsp
      rw [key_splitSlash, fileGet?_of_mem fl f.1 f.2 hG.2.1 hf] at this
      cases this)
    rw [renderC_splitSlash, key_splitSlash, fileGet?_of_mem fl f.1 f.2 hG.2.1 hf] at h2
    exact h2
  · intro k e h
    rw [folderMap_find?] at h
    split at h
    · rename_i hk
      injection h with h; subst h
      exact Or.inl ⟨hk, rfl, rfl⟩
    · obtain ⟨f, b, rfl, hmem, _, he⟩ := find?_fileKVs_some fl k e h
      exact Or.inr ⟨(f, b), hmem, rfl, by rw [he]; rfl⟩

/-! ### 6. non-vacuity: the shape of the harness fixture -/

/-- nested, dotted, multi-byte, prefix-sharing names (a sample of harness/fixtures/embedded) -/
def harnessFixture : List (Str × Bytes) :=
  [ ("a.txt".toList, [1, 2, 3, 4, 5]), ("a/d.txt".toList, [7]), ("a/x/y.bin".toList, [8, 9]),
    ("ab".toList, [1]), ("a.b/c".toList, [2]), ("a.txt.dir/x".toList, [3]),
    ("c/e.txt".toList, [4]), ("c/e.txt.bak".toList, [5, 6]),
    ("v1..v2/..hidden".toList, [0]), ("empty.bin".toList, []),
    ("日本語/資料/メモ帳.txt".toList, [227, 129, 130]), ("é/ü.txt".toList, [195, 169]),
    ("deep/er/est/file".toList, [9]), ("notes..txt".toList, [1]) ]

theorem harnessFixture_good : GoodFiles harnessFixture := by decide

/-- the model's own operations (`create_dir_all`, create session) build `folderMap` for the
fixture: `folder_built_stmt` instantiated, by kernel evaluation -/
theorem harnessFixture_built : Built harnessFixture := by decide +kernel

/-- and for the fixture of Props/C18.lean -/
theorem fixture_built : Built fixture := by decide +kernel

/-- the world used in the examples: one physical leaf holding the folder -/
def fixtureWorld : World := { leaves := [{ kind := .phys, files := folderMap harnessFixture }] }

theorem fixtureWorld_leaf : PhysLeafAt fixtureWorld 0 (folderMap harnessFixture) := rfl

/-- hypotheses of `embedded_matches_physical` on concrete paths: the root, a nested directory, a
multi-byte file, an absent sibling, a prefix / an extension of a name -/
example : GoodCs [] ∧ ¬ BelowFile harnessFixture (renderC []) := by decide
example : GoodCs ["a".toList, "x".toList] ∧
    ¬ BelowFile harnessFixture (renderC ["a".toList, "x".toList]) ∧
    IsDirC harnessFixture ["a".toList, "x".toList] :=
  ⟨by decide, by decide, ⟨("a/x/y.bin".toList, [8, 9]), by decide, "y.bin".toList, [], by decide⟩⟩
example : GoodCs ["日本語".toList, "資料".toList, "メモ帳.txt".toList] ∧
    ¬ BelowFile harnessFixture (renderC ["日本語".toList, "資料".toList, "メモ帳.txt".toList]) := by
  decide
example : GoodCs ["a".toList, "nope".toList] ∧
    ¬ BelowFile harnessFixture (renderC ["a".toList, "nope".toList]) := by decide
example : GoodCs ["a.tx".toList] ∧ ¬ BelowFile harnessFixture (renderC ["a.tx".toList]) ∧
    GoodCs ["a.txt.d".toList] ∧ ¬ BelowFile harnessFixture (renderC ["a.txt.d".toList]) := by
  decide

/-- concrete answers (both sides evaluated): a file, a directory, an absent path -/
example : embObs harnessFixture "/c/e.txt.bak".toList =
      ⟨true, .ok { ftype := .file, len := 2, created := .now, modified := .now,
                   accessed := .unset }, fail .other, .ok { content := [5, 6], pos := 0 }⟩ ∧
    physObs (folderMap harnessFixture) "/c/e.txt.bak".toList =
      ⟨true, .ok { ftype := .file, len := 2, created := .now, modified := .now,
                   accessed := .now }, fail .io, .ok { content := [5, 6], pos := 0 }⟩ := by
  decide +kernel
example : (embObs harnessFixture "/c".toList).rd = .ok ["e.txt".toList, "e.txt.bak".toList] ∧
    (physObs (folderMap harnessFixture) "/c".toList).rd =
      .ok ["e.txt".toList, "e.txt.bak".toList] := by decide +kernel
example : (embObs harnessFixture []).rd = (embObs harnessFixture "/".toList).rd ∧
    ((embObs harnessFixture []).rd.toOption.map List.length) = some 12 ∧
    ((physObs (folderMap harnessFixture) []).rd.toOption.map List.length) = some 12 := by
  decide +kernel

/-- WITNESS of exception 2 (below a file): not-found against `ENOTDIR` -/
example : BelowFile harnessFixture "/a.txt/x".toList ∧
    embObs harnessFixture "/a.txt/x".toList =
      ⟨false, fail .fileNotFound, fail .fileNotFound, fail .fileNotFound⟩ ∧
    physObs (folderMap harnessFixture) "/a.txt/x".toList =
      ⟨false, fail .io, fail .io, fail .io⟩ := by decide +kernel

/-- WITNESS of exception 1 (`open_file` on a directory) -/
example : (embObs harnessFixture "/a".toList).op = fail .fileNotFound ∧
    (physObs (folderMap harnessFixture) "/a".toList).op =
      .ok { content := [], pos := 0, bad := true } ∧
    (readAll (embVP harnessFixture 1 "/a".toList) fixtureWorld).1 =
      .err .fileNotFound (some "/a".toList) ∧
    (readAll (physVP 0 2 "/a".toList) fixtureWorld).1 = .err .io (some "/a".toList) := by
  decide +kernel

/-- a path that is NOT canonical is outside the theorem for a reason: the embedded filesystem
drops the first character whatever it is, so "xa.txt" opens a.txt; the physical one finds
nothing -/
example : (embObs harnessFixture "xa.txt".toList).ex = true ∧
    (physObs (folderMap harnessFixture) "xa.txt".toList).ex = false := by decide +kernel

/-- hypotheses of `embedded_walk_matches_physical`: the root of the fixture, with enough fuel -/
example : IsDirC harnessFixture [] ∧
    ((folderMap harnessFixture).keys.filter (Wk.below (renderC []))).length < 40 :=
  ⟨isDirC_nil (by decide), by decide +kernel⟩

/-- … and the walk itself, evaluated: 26 items on both sides -/
example : ((WkG.collect 40 (embVP harnessFixture 1 []) fixtureWorld).1.toOption.map List.length)
      = some 26 ∧
    ((WkG.collect 40 (physVP 0 2 []) fixtureWorld).1.toOption.map List.length) = some 26 := by
  decide +kernel

/-- mutators, evaluated: creation inside a directory, inside a file, below an absent parent -/
example : ((embVP harnessFixture 1 "/a/new".toList).createDir fixtureWorld).1 =
      .err .notSupported (some "/a/new".toList) ∧
    ((embVP harnessFixture 1 "/a.txt/new".toList).createFile fixtureWorld).1 =
      .err .other (some "/a.txt/new".toList) ∧
    ((embVP harnessFixture 1 "/zz/new".toList).createFile fixtureWorld).1 =
      .err .other (some "/zz/new".toList) ∧
    ((embVP harnessFixture 1 "/new".toList).createFile fixtureWorld).1 =
      .err .notSupported (some "/new".toList) := by decide +kernel

end Vfs.C18

#print axioms Vfs.C18.embedded_mutators_refused
#print axioms Vfs.C18.transfers_into_embedded_refused
#print axioms Vfs.C18.create_in_dir_notSupported
#print axioms Vfs.C18.harnessFixture_built
#print axioms Vfs.C18.folderMap_unique
