/-
  C12, classification part — the operations of an overlay that run `ensure_has_parent` or go to the
  write layer (so that invariants are needed), for the overlay over n ≥ 1 MEMORY leaves.
  Complements Props/C12Stack.lean (which needs no invariant and covers every stacking for
  metadata / open_file / read_dir / remove_file / remove_dir / copy_file / move_file).

  SETTING (Proofs/OverlayNLemmas.lean, Proofs/OverlayContractLemmas.lean):
  `OWN w (u :: is) (idu :: ids) (mu :: ms)`, `OInv mu ms`, `ViewWF (oview (mu :: ms))`,
  path discipline `OpPath (ds ++ [n])`; `p = renderC (ds ++ [n])`, view `v = oview (mu :: ms)`.

  PROVED
    * `overlayN_absent_iff_exists` : `VAbsent v p` ↔ the overlay's own `exists` answers `false`
      (so the hypothesis of C12Stack.missing_is_not_found IS absence from the union view).
    * `overlayN_five_missing` : hence metadata/open_file/read_dir/remove_file/remove_dir →
      `.err .fileNotFound (some p)`, world unchanged (instance of the general theorem).
    * `overlayN_append_missing` : parent a directory of the view, `p` absent:
      `append_file` through the `VfsPath` layer returns `.err .fileNotFound (some p)`; the world
      changes only in the upper leaf (missing ancestor directories are materialised by
      `ensure_has_parent` before the failure — what overlay.rs does), and the view is the same
      (`VSame`).
    * `overlayN_setters_missing` : `p` absent from the view → the three setters →
      `.err .fileNotFound (some p)`, world unchanged (uses `OInv.ghost`: nothing in the upper map
      at a path the view does not show).
    * `overlayN_createDir_occupied` : parent a directory of the view; `p` a file of the view →
      kind `FileExists`, a directory → `DirectoryExists`, and the label after the relabelling of
      `VfsPath::create_dir` is `p` (trait level + `M.withPath p`; the `get_parent` prelude of the
      `VfsPath` layer is not run here).
  Altroot over such an overlay: the five operations are covered by C12Stack (any stacking); for
  `create_dir` / append sessions see Props/C01OverlayAlt.lean (`ostep_altroot_eq`, contract
  transfer with `missing` and `occupied`).
-/
import VfsModel.Props.C09Contract
import VfsModel.Props.C09Refine
import VfsModel.Props.C12Stack
set_option linter.unusedVariables false
set_option linter.unusedSimpArgs false
namespace Vfs.C12
open Vfs Vfs.Overlay Vfs.C02 Vfs.C01 Vfs.C09

section settingN
variable {w : World} {u idu : Nat} {mu : FMap} {is ids : List Nat} {ms : List FMap}
  (h : OWN w (u :: is) (idu :: ids) (mu :: ms)) (inv : OInv mu ms)
  (hv : ViewWF (oview (mu :: ms))) {ds : List Str} {n : Str} (hp : OpPath (ds ++ [n]))

theorem layersN_exPure : ∀ (is ids : List Nat), ∀ l ∈ layersN is ids, C12.ExPure l.fs
  | [], ids => by intro l hl; cases ids <;> simp [layersN] at hl
  | i :: is, [] => by intro l hl; simp [layersN] at hl
  | i :: is, id :: ids => by
    intro l hl
    simp only [layersN, List.mem_cons] at hl
    rcases hl with rfl | hl
    · exact C12.leaf_exPure i
    · exact layersN_exPure is ids l hl

include h hp in
/-- absence from the n-layer view is what the overlay's `exists` reports -/
theorem overlayN_absent_iff_exists :
    VAbsent (oview (mu :: ms)) (renderC (ds ++ [n])) ↔
      ((Overlay.fs (layersN (u :: is) (idu :: ids))).exists_ (renderC (ds ++ [n])) w).1 = .ok false := by
  show _ ↔ (Overlay.exists_ _ _ w).1 = _
  rw [run_oexistsN h _ hp.ne hp.good]
  unfold VAbsent
  rw [oview_NR hp.nr]
  cases viewN (mu :: ms) (renderC (ds ++ [n])) <;> simp

include h hp in
/-- the five operations (instance of `C12.overlay_missing_is_not_found`) -/
theorem overlayN_five_missing (habs : VAbsent (oview (mu :: ms)) (renderC (ds ++ [n]))) (id : Nat) :
    let vp : VPath := { fs := Overlay.fs (layersN (u :: is) (idu :: ids)), fsId := id,
                        path := renderC (ds ++ [n]) }
    vp.metadata w = (.err .fileNotFound (some (renderC (ds ++ [n]))), w) ∧
    vp.openFile w = (.err .fileNotFound (some (renderC (ds ++ [n]))), w) ∧
    vp.readDir w = (.err .fileNotFound (some (renderC (ds ++ [n]))), w) ∧
    vp.removeFile w = (.err .fileNotFound (some (renderC (ds ++ [n]))), w) ∧
    vp.removeDir w = (.err .fileNotFound (some (renderC (ds ++ [n]))), w) :=
  C12.overlay_missing_is_not_found (layersN_exPure _ _) id hp.nr.ne_nil
    ((overlayN_absent_iff_exists h hp).1 habs)

include h inv hv hp in
/-- **append_file on an entry missing from an existing directory of the view** -/
theorem overlayN_append_missing (hd : VIsDir (oview (mu :: ms)) (renderC ds))
    (habs : VAbsent (oview (mu :: ms)) (renderC (ds ++ [n]))) (id : Nat) :
    ∃ mu1, VPath.appendFile { fs := Overlay.fs (layersN (u :: is) (idu :: ids)), fsId := id,
                              path := renderC (ds ++ [n]) } w
        = (.err .fileNotFound (some (renderC (ds ++ [n]))), w.setLeafFiles u mu1) ∧
      OWN (w.setLeafFiles u mu1) (u :: is) (idu :: ids) (mu1 :: ms) ∧ OInv mu1 ms ∧
      VSame (oview (mu :: ms)) (oview (mu1 :: ms)) := by
  have hvn : viewN (mu :: ms) (renderC (ds ++ [n])) = none := by
    have := habs; unfold VAbsent at this; rwa [oview_NR hp.nr] at this
  have hup : mu.find? (renderC (ds ++ [n])) = none := upper_none_of_view_none inv hp hvn
  obtain ⟨hE, inv1, hs1, hpok, hp1, hm1⟩ := ensure_ok inv hp hv hd
  have hE' : pEnsureN (mu :: ms) (ds ++ [n]).dropLast = (.ok (), fillDirs mu (chain [] ds)) := by
    rw [List.dropLast_concat]; exact hE
  have h1 := h.setHead (fillDirs mu (chain [] ds))
  have hvis : Vis (renderC (ds ++ [n])) := Or.inr hp.nr
  have habs1 : viewN (fillDirs mu (chain [] ds) :: ms) (renderC (ds ++ [n])) = none := by
    have := (none_of_vcore (hs1 _ hvis)).2 habs
    rwa [oview_NR hp.nr] at this
  refine ⟨fillDirs mu (chain [] ds), ?_, h1, inv1, hs1⟩
  rcases readPath_casesN h1 (ds ++ [n]) hp.ne hp.good with
    ⟨_, hr⟩ | ⟨k, i, id', m, e1, _, _, _, _, _, _, hv1, _⟩
  · have hX := run_oappend_notFound h (ds ++ [n]) hp.ne hp.good hup _ hE' hr
    show M.withPath _ (Overlay.appendFile _ _) w = _
    unfold M.withPath; rw [hX]; rfl
  · rw [habs1] at hv1; cases hv1

include h inv hp in
/-- **the setters on an entry absent from the view** -/
theorem overlayN_setters_missing (habs : VAbsent (oview (mu :: ms)) (renderC (ds ++ [n])))
    (id : Nat) (t : Int) :
    let vp : VPath := { fs := Overlay.fs (layersN (u :: is) (idu :: ids)), fsId := id,
                        path := renderC (ds ++ [n]) }
    vp.setCreationTime t w = (.err .fileNotFound (some (renderC (ds ++ [n]))), w) ∧
    vp.setModificationTime t w = (.err .fileNotFound (some (renderC (ds ++ [n]))), w) ∧
    vp.setAccessTime t w = (.err .fileNotFound (some (renderC (ds ++ [n]))), w) := by
  have hvn : viewN (mu :: ms) (renderC (ds ++ [n])) = none := by
    have := habs; unfold VAbsent at this; rwa [oview_NR hp.nr] at this
  have hup : mu.find? (renderC (ds ++ [n])) = none := upper_none_of_view_none inv hp hvn
  have hcanon : Canon (renderC (ds ++ [n])) := ⟨_, hp.good, rfl⟩
  have hwl : writeLayer (layersN (u :: is) (idu :: ids)) = { fs := leafFS u, fsId := idu, path := [] } :=
    rfl
  refine C12.overlay_setters_missing_of (layers := layersN (u :: is) (idu :: ids))
    (by rw [hwl]; exact ⟨[], by simp, rfl⟩) hcanon hp.nr.ne_nil ?_ id t
  rw [hwl]
  exact C12.leaf_missW_of (l := { kind := .mem, files := mu }) h.hu rfl hup

include h inv hv hp in
/-- **create_dir on an occupied path of the view**: the kind names the occupant; after the
relabelling of the `VfsPath` layer the label is `p` -/
theorem overlayN_createDir_occupied (hd : VIsDir (oview (mu :: ms)) (renderC ds)) :
    (VIsFile (oview (mu :: ms)) (renderC (ds ++ [n])) →
      (M.withPath (renderC (ds ++ [n]))
        ((Overlay.fs (layersN (u :: is) (idu :: ids))).createDir (renderC (ds ++ [n]))) w).1
        = .err .fileExists (some (renderC (ds ++ [n])))) ∧
    (VIsDir (oview (mu :: ms)) (renderC (ds ++ [n])) →
      (M.withPath (renderC (ds ++ [n]))
        ((Overlay.fs (layersN (u :: is) (idu :: ids))).createDir (renderC (ds ++ [n]))) w).1
        = .err .dirExists (some (renderC (ds ++ [n])))) := by
  obtain ⟨r, mu', hrun, _, _, hc⟩ := overlay_createDir_contractN h inv hv hp
  have hrun' : (Overlay.fs (layersN (u :: is) (idu :: ids))).createDir (renderC (ds ++ [n])) w
      = (r, w.setLeafFiles u mu') := hrun
  have hocc := hc.occupied _ rfl (by rw [hp.parent]; exact hd)
  have key : ∀ k, r.kind? = some k →
      (M.withPath (renderC (ds ++ [n]))
        ((Overlay.fs (layersN (u :: is) (idu :: ids))).createDir (renderC (ds ++ [n]))) w).1
        = .err k (some (renderC (ds ++ [n]))) := by
    intro k hk
    unfold M.withPath; rw [hrun']
    cases r with
    | ok a => cases hk
    | err k' l => simp only [Res.kind?, Option.some.injEq] at hk; subst hk; rfl
    | panic => cases hk
  exact ⟨fun hf => key _ (hocc.1 hf), fun hdir => key _ (hocc.2 hdir)⟩

end settingN

/-! ### Non-vacuity: the three-layer world of Props/C09Refine.lean (upper: "/top"; layer 1: "/d",
"/d/x", "/d/b"; layer 2: "/d", "/d/x", "/d/c", "/e", "/e/z") -/
section examples

/-- "/d/nope": the parent "/d" exists only in the lower layers; absent from the view -/
example : ∃ mu1, VPath.appendFile { fs := xfs, fsId := 0, path := "/d/nope".toList } xw
      = (.err .fileNotFound (some "/d/nope".toList), xw.setLeafFiles 2 mu1) ∧
      OWN (xw.setLeafFiles 2 mu1) [2, 0, 1] [7, 8, 9] [mu1, xA, xB] ∧ OInv mu1 [xA, xB] ∧
      VSame (oview [xU, xA, xB]) (oview [mu1, xA, xB]) :=
  overlayN_append_missing xw_setting xw_inv xw_viewWF (ds := ["d".toList]) (n := "nope".toList)
    (by decide) (by decide) (by unfold VAbsent; decide) 0

example : VPath.removeDir { fs := xfs, fsId := 0, path := "/d/nope".toList } xw
      = (.err .fileNotFound (some "/d/nope".toList), xw) :=
  (overlayN_five_missing xw_setting (ds := ["d".toList]) (n := "nope".toList)
    (by decide) (by unfold VAbsent; decide) 0).2.2.2.2

example : VPath.setModificationTime { fs := xfs, fsId := 0, path := "/d/nope".toList } 4 xw
      = (.err .fileNotFound (some "/d/nope".toList), xw) :=
  (overlayN_setters_missing xw_setting xw_inv (ds := ["d".toList]) (n := "nope".toList)
    (by decide) (by unfold VAbsent; decide) 0 4).2.1

/-- "/d" is a directory of the view (lower layers only), "/d/c" a file (layer 2 only) -/
example : (M.withPath "/d".toList (xfs.createDir "/d".toList) xw).1
      = .err .dirExists (some "/d".toList) :=
  (overlayN_createDir_occupied xw_setting xw_inv xw_viewWF (ds := []) (n := "d".toList)
    (by decide) (by decide)).2 (by decide)

example : (M.withPath "/d/c".toList (xfs.createDir "/d/c".toList) xw).1
      = .err .fileExists (some "/d/c".toList) :=
  (overlayN_createDir_occupied xw_setting xw_inv xw_viewWF (ds := ["d".toList]) (n := "c".toList)
    (by decide) (by decide)).1 ⟨C09.fileOf [67], by decide, rfl⟩

end examples

end Vfs.C12

