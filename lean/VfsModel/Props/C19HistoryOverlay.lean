/-
  C19 over whole histories THROUGH OverlayFS, removals included (continuation of
  Props/C19History.lean; same specification `specStep` / `specHist`, same observation `runOp` /
  `runHist` through the `VfsPath` layer).

  SETTING: an overlay over two memory layers (`layers2 u l`, Proofs/OverlayLemmas.lean), a path
  `k = /d1/…/dm/n` (components `GoodComp`).
  INVARIANT `OvInv mu ds n` on the TOP layer's map: the ancestors of `k` are directories of the top
  layer, not hidden (`AncTop`); no FILE sits at a bookkeeping position "/.whiteout/<d1…dj>"
  (`WoOK`); and the top layer either SERVES `k` (`TopServes`: entry present, no whiteout) or HIDES it
  (`Hidden`: nothing at `k`, the whiteout marker is a file). `ovAbs mu k` = the record the overlay
  serves (the top entry, or nothing behind a whiteout).

  WHAT IS PROVED
  * `overlay_step_full` / `overlay_history_exact`: for EVERY history of all ten operations in which
    `remove_dir` is never applied while the path is a directory (`NoDirRemoval`, a decidable
    condition on the specification's run; `remove_dir` on a file or on an absent / hidden path is
    allowed and refused), the outcomes are, step by step, those of the specification started from
    `ovAbs`; the final served record is the specification's; the world is the old one with the top
    leaf replaced (the lower layer is untouched); `OvInv` holds again.
    `overlay_history_exact_noRemoveDir`: the special case of histories without `remove_dir`.
  * `overlay_step_all` / `overlay_history_exact_childless`: ALL ten operations, NO condition on the
    history, when `k` has no children in either layer and "/.whiteout" ++ k is not a file
    (`Childless`, preserved): `busy = false`, `remove_dir` of the (empty) directory succeeds and puts
    it behind a whiteout.
  In particular: after `remove_file` / `remove_dir` every setter / metadata / read / append is refused
  with not-found although the LOWER layer may still hold an entry (with its own timestamps) at `k`,
  and a re-creation gives the clock's stamps, not the old or the lower ones.
  Building blocks: `sep_of` (string facts: `k`, its marker, the ancestor keys and the bookkeeping
  directories are pairwise apart), `OvInv.removed`, `overlay_run_removeFile_served`,
  `overlay_run_removeDir_file`, `overlay_run_removeDir_dir`, `overlay_run_hidden`.

  HYPOTHESES: the setting and the invariant; first component of `k` ≠ ".whiteout"; `ds.head? ≠ "_wo"`
  (the reserved-name clash: "/.whiteout/_wo" is both the root marker and the bookkeeping directory
  of "/_wo").
  NOT PROVED: `remove_dir` of a directory that has children in some layer (the specification's `busy`
  would have to be the overlay's merged listing, tracked along the history) — the general statement
  is `C19.overlay_history_exact_stmt` in Props/C19History.lean; more than two layers; layers that
  are not roots of memory leaves.
-/
import VfsModel.Props.C19History
import VfsModel.Props.C10
namespace Vfs.C19
open Vfs.FMap
set_option linter.unusedSimpArgs false
set_option linter.unusedVariables false

/-- the bookkeeping directories "/.whiteout", "/.whiteout/d1", … needed for the marker of `ds/n` -/
abbrev woChain (ds : List Str) : List Str := chain [] (Overlay.woDir :: ds)

/-- no FILE sits where a bookkeeping directory is needed -/
def WoOK (mu : FMap) (ds : List Str) : Prop :=
  ∀ q ∈ woChain ds, ∀ e, mu.find? q = some e → e.ftype = .dir

/-- a whiteout hides `k`: nothing at `k` in the top layer, the marker is a file -/
def Hidden (mu : FMap) (k : Str) : Prop :=
  mu.find? k = none ∧ ∃ e, mu.find? (marker k) = some e ∧ e.ftype = .file

/-- the record the overlay serves at `k` (top layer's entry unless a whiteout hides it) -/
def ovAbs (mu : FMap) (k : Str) : Option TRec :=
  if mu.contains (marker k) then none else absAt mu k

/-- string facts: `k`, its marker, the keys `AncTop` speaks about and the bookkeeping directories
are pairwise apart -/
structure Sep (ds : List Str) (n : Str) : Prop where
  apart : Apart (renderC (ds ++ [n])) ds
  kW : renderC (ds ++ [n]) ∉ woChain ds
  mW : marker (renderC (ds ++ [n])) ∉ woChain ds
  rootW : rootMarker ∉ woChain ds
  ancW : ∀ j, 1 ≤ j → j ≤ ds.length → marker (renderC (ds.take j)) ∉ woChain ds
  nilM : [] ≠ marker (renderC (ds ++ [n]))
  rootM : rootMarker ≠ marker (renderC (ds ++ [n]))
  ancM : ∀ j, 1 ≤ j → j ≤ ds.length →
    marker (renderC (ds.take j)) ≠ marker (renderC (ds ++ [n])) ∧
    renderC (ds.take j) ≠ marker (renderC (ds ++ [n]))

theorem sep_of (ds : List Str) (n : Str) (hds : ∀ c ∈ ds, GoodComp c) (hn : GoodComp n)
    (hh : (ds ++ [n]).head? ≠ some Overlay.woDir) (hwo : ds.head? ≠ some Overlay.woSuffix) :
    Sep ds n := by
  have hap := apart_of_head ds n hds hn hh
  have hcs := good_snoc hds hn
  have hkhead : (renderC (ds ++ [n])).head? = some '/' := by
    cases ds <;> simp
  refine ⟨hap, ?_, ?_, ?_, ?_, ?_, ?_, ?_⟩
  · exact fun hk => hh (C10.chain_wo_head _ _ (good_noSlash hcs) (good_noSlash hds) hk)
  · rw [marker_renderC]
    have hds' : ∀ c ∈ Overlay.woDir :: ds, GoodComp c := by
      intro c hc
      rcases List.mem_cons.1 hc with rfl | hc
      · exact goodComp_woDir
      · exact hds c hc
    have := snoc_not_in_chain (ds := Overlay.woDir :: ds) (n := n ++ Overlay.woSuffix) hds'
      (goodComp_wo hn) [] (Or.inl rfl)
    simpa using this
  · intro hk
    obtain ⟨j, h1, h2, he⟩ := (mem_chain [] (Overlay.woDir :: ds) _).1 hk
    simp only [List.nil_append] at he
    have hrm : rootMarker = renderC [Overlay.woDir, Overlay.woSuffix] := by decide
    rw [hrm] at he
    have := C06.renderC_injective _ _ (by decide) (by
      intro c hc
      rcases List.mem_cons.1 (List.mem_of_mem_take hc) with rfl | hc
      · exact goodComp_woDir.noSlash
      · exact (hds c hc).noSlash) he
    obtain ⟨j', rfl⟩ : ∃ j', j = j' + 1 := ⟨j - 1, by omega⟩
    simp only [List.take_succ_cons, List.cons.injEq, true_and] at this
    apply hwo
    cases ds with
    | nil => cases j' <;> simp at this
    | cons d ds =>
      cases j' with
      | zero => simp at this
      | succ j'' => simp at this; simp [this.1]
  · exact fun j h1 h2 => C10.marker_prefix_not_in_chain ds hds j h1 h2
  · simp [marker]
  · have hrm : rootMarker = marker ['/'] := by decide
    rw [hrm]
    intro he
    have := marker_injective _ _ he
    have hl := congrArg List.length this
    have hnne : n ≠ [] := hn.1
    simp only [renderC_append, renderC_cons, renderC_nil, List.length_append, List.length_cons,
      List.length_nil] at hl
    cases n with
    | nil => exact hnne rfl
    | cons a n' => simp at hl; omega
  · intro j h1 h2
    obtain ⟨_, _, h3⟩ := hap
    obtain ⟨_, n2⟩ := h3 j h1 h2
    refine ⟨fun he => n2 (marker_injective _ _ he).symm, ?_⟩
    intro he
    have hhd := renderC_eq_marker_head (ds.take j) _
      (fun c hc => (hds c (List.mem_of_mem_take hc)).noSlash) he hkhead
    have hdh : ds.head? ≠ some Overlay.woDir := by
      cases ds with
      | nil => simp
      | cons d ds => simpa using hh
    exact C10.take_head_ne h1 hdh hhd

/-! ### the invariant and its preservation -/

structure OvInv (mu : FMap) (ds : List Str) (n : Str) : Prop where
  anc : AncTop mu ds
  wo : WoOK mu ds
  st : TopServes mu (renderC (ds ++ [n])) ∨ Hidden mu (renderC (ds ++ [n]))

/-- `mu'` agrees with `mu` outside the two keys `k` and `marker k` -/
def Upd2 (mu : FMap) (k : Str) (mu' : FMap) : Prop :=
  ∀ q, q ≠ k → q ≠ marker k → mu'.find? q = mu.find? q

theorem Upd.upd2 {mu mu' : FMap} {k : Str} (h : Upd mu k mu') : Upd2 mu k mu' :=
  fun q h1 _ => h.1 q h1

theorem contains_eq_of_find {m m' : FMap} {q : Str} (h : m'.find? q = m.find? q) :
    m'.contains q = m.contains q := by
  unfold FMap.contains; rw [h]

theorem AncTop.upd2 {mu mu' : FMap} {ds : List Str} {n : Str} (ha : AncTop mu ds)
    (hs : Sep ds n) (hu : Upd2 mu (renderC (ds ++ [n])) mu') : AncTop mu' ds := by
  obtain ⟨h1, h2, h3⟩ := hs.apart
  refine ⟨⟨?_, ?_⟩, ?_⟩
  · obtain ⟨e, he, hd⟩ := ha.root.root
    exact ⟨e, by rw [hu [] (Ne.symm h1) hs.nilM]; exact he, hd⟩
  · rw [contains_eq_of_find (hu _ (Ne.symm h2) hs.rootM)]; exact ha.root.noMark
  · intro j hj1 hj2
    obtain ⟨hm, e, he, hd⟩ := ha.anc j hj1 hj2
    obtain ⟨n1, n2⟩ := h3 j hj1 hj2
    obtain ⟨n3, n4⟩ := hs.ancM j hj1 hj2
    exact ⟨by rw [contains_eq_of_find (hu _ (Ne.symm n1) n3)]; exact hm, e,
      by rw [hu _ (Ne.symm n2) n4]; exact he, hd⟩

theorem WoOK.upd2 {mu mu' : FMap} {ds : List Str} {n : Str} (hw : WoOK mu ds)
    (hs : Sep ds n) (hu : Upd2 mu (renderC (ds ++ [n])) mu') : WoOK mu' ds := by
  intro q hq e he
  have h1 : q ≠ renderC (ds ++ [n]) := fun h => hs.kW (h ▸ hq)
  have h2 : q ≠ marker (renderC (ds ++ [n])) := fun h => hs.mW (h ▸ hq)
  rw [hu q h1 h2] at he
  exact hw q hq e he

/-- the top layer's map after `remove_file` of a file at `ds/n` -/
def afterRemove (mu : FMap) (ds : List Str) (n : Str) : FMap :=
  memPublish ((fillDirs (mu.erase (renderC (ds ++ [n]))) (woChain ds)).insert
    (marker (renderC (ds ++ [n]))) fileEntryNow) (marker (renderC (ds ++ [n]))) []

theorem find?_afterRemove (mu : FMap) (ds : List Str) (n : Str) (q : Str)
    (hq : q ≠ marker (renderC (ds ++ [n]))) :
    (afterRemove mu ds n).find? q =
      ((mu.erase (renderC (ds ++ [n]))).find? q).or
        (if q ∈ woChain ds then some dirEntryNow else none) := by
  unfold afterRemove
  rw [find?_memPublish_ne _ _ _ _ hq, find?_insert_ne _ _ _ _ hq, find?_fillDirs]

theorem find?_afterRemove_marker (mu : FMap) (ds : List Str) (n : Str) :
    ∃ e, (afterRemove mu ds n).find? (marker (renderC (ds ++ [n]))) = some e ∧ e.ftype = .file := by
  obtain ⟨em, h1, h2, _⟩ := find?_memPublish_self
    ((fillDirs (mu.erase (renderC (ds ++ [n]))) (woChain ds)).insert
      (marker (renderC (ds ++ [n]))) fileEntryNow)
    (marker (renderC (ds ++ [n]))) [] fileEntryNow (find?_insert_self _ _ _) rfl
  exact ⟨em, h1, h2⟩

theorem OvInv.removed {mu : FMap} {ds : List Str} {n : Str} (hi : OvInv mu ds n)
    (hs : Sep ds n) : OvInv (afterRemove mu ds n) ds n := by
  obtain ⟨h1, h2, h3⟩ := hs.apart
  have hfind : ∀ q, q ≠ renderC (ds ++ [n]) → q ≠ marker (renderC (ds ++ [n])) →
      (afterRemove mu ds n).find? q =
        (mu.find? q).or (if q ∈ woChain ds then some dirEntryNow else none) := by
    intro q hq1 hq2
    rw [find?_afterRemove mu ds n q hq2, find?_erase_ne _ _ _ hq1]
  refine ⟨⟨⟨?_, ?_⟩, ?_⟩, ?_, Or.inr ⟨?_, find?_afterRemove_marker mu ds n⟩⟩
  · obtain ⟨e, he, hd⟩ := hi.anc.root.root
    exact ⟨e, by rw [hfind [] (Ne.symm h1) hs.nilM, he]; rfl, hd⟩
  · have := hi.anc.root.noMark
    unfold FMap.contains at this ⊢
    rw [hfind _ (Ne.symm h2) hs.rootM, if_neg hs.rootW]
    cases hf : mu.find? rootMarker with
    | none => rfl
    | some e => rw [hf] at this; simp at this
  · intro j hj1 hj2
    obtain ⟨hm, e, he, hd⟩ := hi.anc.anc j hj1 hj2
    obtain ⟨n1, n2⟩ := h3 j hj1 hj2
    obtain ⟨n3, n4⟩ := hs.ancM j hj1 hj2
    refine ⟨?_, e, by rw [hfind _ (Ne.symm n2) n4, he]; rfl, hd⟩
    unfold FMap.contains at hm ⊢
    rw [hfind _ (Ne.symm n1) n3, if_neg (hs.ancW j hj1 hj2)]
    cases hf : mu.find? (marker (renderC (ds.take j))) with
    | none => rfl
    | some e => rw [hf] at hm; simp at hm
  · intro q hq e he
    have hq1 : q ≠ renderC (ds ++ [n]) := fun h => hs.kW (h ▸ hq)
    have hq2 : q ≠ marker (renderC (ds ++ [n])) := fun h => hs.mW (h ▸ hq)
    rw [hfind q hq1 hq2, if_pos hq] at he
    cases hf : mu.find? q with
    | none => rw [hf] at he; simp at he; subst he; rfl
    | some e' => rw [hf] at he; simp at he; subst he; exact hi.wo q hq e' hf
  · rw [find?_afterRemove mu ds n _ (Ne.symm (marker_ne_self _)), find?_erase_self, if_neg hs.kW]
    rfl

/-- the top layer's map after a re-creation at `k` behind a whiteout: the new entry, marker gone -/
theorem upd2_recreate (mu : FMap) (k : Str) (v : Entry) :
    Upd2 mu k ((mu.insert k v).erase (marker k)) := by
  intro q h1 h2
  rw [find?_erase_ne _ _ _ h2, find?_insert_ne _ _ _ _ h1]

theorem upd2_memPublish {mu mu' : FMap} {k : Str} (h : Upd2 mu k mu') (b : Bytes) :
    Upd2 mu k (memPublish mu' k b) := by
  intro q h1 h2
  rw [find?_memPublish_ne _ _ _ _ h1]; exact h q h1 h2

/-! ### the steps through the overlay -/

/-- what a step does while a whiteout hides `k`: only a create session or `create_dir` brings the
path back (with a fresh entry, the marker removed); everything else is refused with not-found -/
def hiddenStep (mu : FMap) (k : Str) : TOp → TOut × FMap
  | .write b => (.done, memPublish ((mu.insert k fileEntryNow).erase (marker k)) k b)
  | .createDir => (.done, (mu.insert k dirEntryNow).erase (marker k))
  | _ => (.refused .fileNotFound, mu)

section ov
variable {w : World} {u l idu idl : Nat} {mu ml : FMap} (h : OW w u l mu ml) (ido : Nat)
  (ds : List Str) (n : Str) (hds : ∀ c ∈ ds, GoodComp c) (hn : GoodComp n)
include h hds hn

/-- `remove_file` through the overlay on a path the top layer serves: a file goes behind a
whiteout, a directory is refused -/
theorem overlay_run_removeFile_served (ha : AncTop mu ds) (hw : WoOK mu ds) (hsep : Sep ds n)
    (hm : mu.contains (marker (renderC (ds ++ [n]))) = false) (e : Entry)
    (he : mu.find? (renderC (ds ++ [n])) = some e) :
    runOp { fs := Overlay.fs (layers2 u l idu idl), fsId := ido, path := renderC (ds ++ [n]) }
        .removeFile w =
      if e.ftype = .file then (.done, w.setLeafFiles u (afterRemove mu ds n))
      else (.refused .other, w) := by
  have hne : ds ++ [n] ≠ [] := by simp
  have hcs := good_snoc hds hn
  have hv : view mu ml (renderC (ds ++ [n])) = some e := view_upper hm he
  simp only [runOp, VPath.removeFile, M.withPath, Overlay.fs, run_oremoveFile h _ hne hcs]
  by_cases hf : e.ftype = .file
  · have hnm : (mu.erase (renderC (ds ++ [n]))).find? (marker (renderC (ds ++ [n]))) = none := by
      rw [find?_erase_ne _ _ _ (marker_ne_self _)]
      unfold FMap.contains at hm
      cases hq : mu.find? (marker (renderC (ds ++ [n]))) with
      | none => rfl
      | some e' => rw [hq] at hm; simp at hm
    have hres := C10.pAddWhiteout_result (mu.erase (renderC (ds ++ [n]))) ds n hds hn
      (by obtain ⟨e0, he0, hd0⟩ := ha.root.root
          exact ⟨e0, by rw [find?_erase_ne _ _ _ (Ne.symm hsep.apart.1)]; exact he0, hd0⟩)
      (by intro q hq e' he'
          have hq1 : q ≠ renderC (ds ++ [n]) := fun h' => hsep.kW (h' ▸ hq)
          rw [find?_erase_ne _ _ _ hq1] at he'
          exact hw q hq e' he')
      hnm
    have hpr : pRemoveFile mu ml (ds ++ [n]) = (.ok (), afterRemove mu ds n) := by
      unfold pRemoveFile
      simp only [hv, contains_of_find he, if_true, C10.pRemoveFile_file mu _ e he hf, andThen]
      exact hres
    rw [hpr, if_pos hf]
    rfl
  · have hpr : pRemoveFile mu ml (ds ++ [n]) = (.err .other (some (renderC (ds ++ [n]))), mu) := by
      unfold pRemoveFile
      simp only [hv, contains_of_find he, if_true]
      generalize renderC (ds ++ [n]) = k at *
      simp [Mem.pRemoveFile, Mem.removeFile, he, hf, andThen, Res.withPath, fail]
    rw [hpr, if_neg hf]
    simp [Res.withPath, ofRes, h.hu.same]

/-- `remove_dir` through the overlay on a FILE the top layer serves: refused, nothing changes -/
theorem overlay_run_removeDir_file
    (hm : mu.contains (marker (renderC (ds ++ [n]))) = false) (e : Entry)
    (he : mu.find? (renderC (ds ++ [n])) = some e) (hf : e.ftype = .file) :
    runOp { fs := Overlay.fs (layers2 u l idu idl), fsId := ido, path := renderC (ds ++ [n]) }
        .removeDir w = (.refused .other, w) := by
  have hne : ds ++ [n] ≠ [] := by simp
  have hcs := good_snoc hds hn
  have hrp := run_readPath (idu := idu) (idl := idl) h _ hne hcs
  simp only [hm, contains_of_find he, Bool.false_eq_true, if_false, if_true] at hrp
  generalize renderC (ds ++ [n]) = k at *
  simp [runOp, VPath.removeDir, M.withPath, Overlay.fs, Overlay.removeDir, Overlay.readDir, bind,
    M.bind, hrp, run_vexists h.hu, contains_of_find he, run_visDir h.hu, he, hf, M.failK, fail,
    Res.withPath, ofRes]

/-- every operation while a whiteout hides the path -/
theorem overlay_run_hidden (hB : Hidden mu (renderC (ds ++ [n]))) (ha : AncTop mu ds) (op : TOp) :
    runOp { fs := Overlay.fs (layers2 u l idu idl), fsId := ido, path := renderC (ds ++ [n]) }
        op w =
      ((hiddenStep mu (renderC (ds ++ [n])) op).1,
        w.setLeafFiles u (hiddenStep mu (renderC (ds ++ [n])) op).2) := by
  have hne : ds ++ [n] ≠ [] := by simp
  have hcs := good_snoc hds hn
  have hpd := ha.parentDir n hds hn
  have hpo := hpd.parentOk
  have hen := hpd.ensure
  obtain ⟨hk0, eM, heM, hfM⟩ := hB
  have hmc : mu.contains (marker (renderC (ds ++ [n]))) = true := contains_of_find heM
  have hv : view mu ml (renderC (ds ++ [n])) = none := view_marked hmc
  have hdl : (ds ++ [n]).dropLast = ds := List.dropLast_concat
  have hrp := run_readPath (idu := idu) (idl := idl) h _ hne hcs
  simp only [hmc, if_true] at hrp
  have hwp := writePath_layers2 (u := u) (l := l) (idu := idu) (idl := idl) _ hne hcs
  have hE := run_ensureHasParent (idu := idu) (idl := idl) h _ hne hcs
  rw [hdl, ha.pEnsure ml hds] at hE
  simp only [h.hu.same] at hE
  cases op with
  | removeDir =>
    generalize renderC (ds ++ [n]) = k at *
    simp [runOp, hiddenStep, VPath.removeDir, M.withPath, Overlay.fs, Overlay.removeDir, bind,
      M.bind, hrp, Res.withPath, ofRes, h.hu.same]
  | setCreated t =>
    generalize renderC (ds ++ [n]) = k at *
    simp [runOp, hiddenStep, VPath.setCreationTime, M.withPath, Overlay.fs, bind, M.bind, M.ret,
      hwp, run_setCreationTime h.hu, Mem.setCreated, hk0, fail, Res.withPath, ofRes, h.hu.same]
  | setModified t =>
    generalize renderC (ds ++ [n]) = k at *
    simp [runOp, hiddenStep, VPath.setModificationTime, M.withPath, Overlay.fs, bind, M.bind,
      M.ret, hwp, run_setModificationTime h.hu, Mem.setModified, hk0, fail, Res.withPath, ofRes,
      h.hu.same]
  | setAccessed t =>
    generalize renderC (ds ++ [n]) = k at *
    simp [runOp, hiddenStep, VPath.setAccessTime, M.withPath, Overlay.fs, bind, M.bind, M.ret,
      hwp, run_setAccessTime h.hu, Mem.setAccessed, hk0, fail, Res.withPath, ofRes, h.hu.same]
  | metadata =>
    generalize renderC (ds ++ [n]) = k at *
    simp [runOp, hiddenStep, VPath.metadata, M.withPath, Overlay.fs, bind, M.bind, hrp,
      Res.withPath, ofRes, h.hu.same]
  | read =>
    generalize renderC (ds ++ [n]) = k at *
    simp [runOp, hiddenStep, VPath.openFile, M.withPath, Overlay.fs, bind, M.bind, hrp,
      Res.withPath, ofRes, h.hu.same]
  | removeFile =>
    have hpr : pRemoveFile mu ml (ds ++ [n]) = (.err .fileNotFound none, mu) := by
      unfold pRemoveFile; simp only [hv]
    simp only [runOp, hiddenStep, VPath.removeFile, M.withPath, Overlay.fs,
      run_oremoveFile h _ hne hcs, hpr]
    simp [Res.withPath, ofRes, h.hu.same]
  | append b =>
    generalize renderC (ds ++ [n]) = k at *
    simp [runOp, hiddenStep, VPath.appendFile, M.withPath, Overlay.fs, Overlay.appendFile,
      Overlay.copyUp, bind, M.bind, M.ret, hwp, run_vexists h.hu, contains_of_none hk0, hE, hrp,
      Res.withPath, ofRes, h.hu.same]
  | createDir =>
    simp only [runOp, hiddenStep, VPath.createDir, bind, M.bind,
      overlay_getParent h ido ds n hds hn ha]
    simp only [M.withPath, Overlay.fs, run_ocreateDir h _ hne hcs]
    have hpc : pCreateDir mu ml (ds ++ [n]) =
        (.ok (), (mu.insert (renderC (ds ++ [n])) dirEntryNow).erase
          (marker (renderC (ds ++ [n])))) := by
      unfold pCreateDir
      rw [hdl, ha.pEnsure ml hds]
      simp only [andThen, hv]
      rw [pCreateTail_eq_andThen hk0, C10.pCreateDir_fresh mu _ hpo hpd.1 hk0]
      have hc2 : (mu.insert (renderC (ds ++ [n])) dirEntryNow).find?
          (marker (renderC (ds ++ [n]))) = some eM := by
        rw [find?_insert_ne _ _ _ _ (marker_ne_self _)]; exact heM
      simp only [andThen, pClear, contains_of_find hc2, if_true,
        C10.pRemoveFile_file _ _ eM hc2 hfM]
    rw [hpc]
    generalize renderC (ds ++ [n]) = k at *
    simp [Res.withPath, ofRes]
  | write b =>
    simp only [runOp, hiddenStep, VPath.createFile, bind, M.bind,
      overlay_getParent h ido ds n hds hn ha]
    simp only [M.withPath, Overlay.fs, run_ocreateFile h _ hne hcs]
    have hpc : pCreateFile mu ml (ds ++ [n]) =
        (.ok (), (mu.insert (renderC (ds ++ [n])) fileEntryNow).erase
          (marker (renderC (ds ++ [n])))) := by
      unfold pCreateFile
      rw [hdl, ha.pEnsure ml hds]
      have hc2 : (mu.insert (renderC (ds ++ [n])) fileEntryNow).find?
          (marker (renderC (ds ++ [n]))) = some eM := by
        rw [find?_insert_ne _ _ _ _ (marker_ne_self _)]; exact heM
      simp only [andThen, pRefuse, hv, Mem.pOpenW, hpo, if_true,
        Mem.createFile_fresh mu _ hpd.1 hpo hk0, Res.withPath, pClear, contains_of_find hc2,
        C10.pRemoveFile_file _ _ eM hc2 hfM]
    have h' : MemLeafAt (w.setLeafFiles u ((mu.insert (renderC (ds ++ [n])) fileEntryNow).erase
          (marker (renderC (ds ++ [n]))))) u
        ((mu.insert (renderC (ds ++ [n])) fileEntryNow).erase (marker (renderC (ds ++ [n])))) :=
      h.hu.set _
    unfold MemLeafAt at h'
    rw [hpc]
    generalize renderC (ds ++ [n]) = k at *
    simp [Res.map, Res.withPath, WHandle.writeAllAndDrop, bind, M.bind, WHandle.write,
      WHandle.drop, WHandle.flush, h', Vfs.World.setLeafFiles_twice, ofRes, C14.write_fresh]

end ov

/-! ### one step, whole histories -/

/-- `remove_dir` is not being applied to a directory -/
def NotDirRemoval (r : Option TRec) (op : TOp) : Prop :=
  op = .removeDir → r.map TRec.ftype ≠ some .dir

instance (r : Option TRec) (op : TOp) : Decidable (NotDirRemoval r op) := by
  unfold NotDirRemoval; exact inferInstance

theorem spec_busy_irrelevant (b1 b2 : Bool) (clk : TS) (r : Option TRec) (op : TOp)
    (hop : NotDirRemoval r op) : specStep b1 clk r op = specStep b2 clk r op := by
  cases op
  case removeDir =>
    cases r with
    | none => rfl
    | some r0 =>
      have := hop rfl
      obtain ⟨ft, c, cr, mo, ac⟩ := r0
      cases ft
      · rfl
      · simp at this
  all_goals (cases r <;> rfl)

theorem ovAbs_of_served {mu : FMap} {k : Str} (hs : TopServes mu k) : ovAbs mu k = absAt mu k := by
  unfold ovAbs; rw [hs.1]; rfl

theorem ovAbs_of_not_marked {mu : FMap} {k : Str} (h : mu.contains (marker k) = false) :
    ovAbs mu k = absAt mu k := by
  unfold ovAbs; rw [h]; rfl

theorem ovAbs_of_hidden {mu : FMap} {k : Str} (hB : Hidden mu k) : ovAbs mu k = none := by
  obtain ⟨_, e, he, _⟩ := hB
  unfold ovAbs; rw [contains_of_find he]; rfl

/-- every entry of `mu'` is an entry of `mu`, or sits at `k`, at its marker, or at a bookkeeping
directory -/
def Chg (mu : FMap) (ds : List Str) (n : Str) (mu' : FMap) : Prop :=
  ∀ x e, mu'.find? x = some e →
    mu.find? x = some e ∨ x = renderC (ds ++ [n]) ∨ x = marker (renderC (ds ++ [n])) ∨ x ∈ woChain ds

theorem Chg.refl (mu : FMap) (ds : List Str) (n : Str) : Chg mu ds n mu := fun _ _ h => Or.inl h

theorem chg_of_upd2 {mu mu' : FMap} {ds : List Str} {n : Str}
    (h : Upd2 mu (renderC (ds ++ [n])) mu') : Chg mu ds n mu' := by
  intro x e he
  by_cases h1 : x = renderC (ds ++ [n])
  · exact Or.inr (Or.inl h1)
  · by_cases h2 : x = marker (renderC (ds ++ [n]))
    · exact Or.inr (Or.inr (Or.inl h2))
    · rw [h x h1 h2] at he; exact Or.inl he

theorem chg_afterRemove (mu : FMap) (ds : List Str) (n : Str) : Chg mu ds n (afterRemove mu ds n) := by
  intro x e he
  by_cases h2 : x = marker (renderC (ds ++ [n]))
  · exact Or.inr (Or.inr (Or.inl h2))
  · by_cases h1 : x = renderC (ds ++ [n])
    · exact Or.inr (Or.inl h1)
    · rw [find?_afterRemove mu ds n x h2, find?_erase_ne _ _ _ h1] at he
      cases hf : mu.find? x with
      | some e' => rw [hf] at he; simp at he; subst he; exact Or.inl rfl
      | none =>
        rw [hf] at he
        by_cases hx : x ∈ woChain ds
        · exact Or.inr (Or.inr (Or.inr hx))
        · rw [if_neg hx] at he; simp at he

/-- **one step through the overlay, served or hidden**: the outcome and the record served
afterwards are the specification's, the invariant holds again -/
theorem overlay_step_full {w : World} {u l idu idl : Nat} {mu ml : FMap} (h : OW w u l mu ml)
    (ido : Nat) (ds : List Str) (n : Str) (hds : ∀ c ∈ ds, GoodComp c) (hn : GoodComp n)
    (hsep : Sep ds n) (hi : OvInv mu ds n) (busy : Bool) (op : TOp)
    (hop : NotDirRemoval (ovAbs mu (renderC (ds ++ [n]))) op) :
    ∃ mu', runOp { fs := Overlay.fs (layers2 u l idu idl), fsId := ido,
                   path := renderC (ds ++ [n]) } op w =
        ((specStep busy .now (ovAbs mu (renderC (ds ++ [n]))) op).2, w.setLeafFiles u mu') ∧
      OvInv mu' ds n ∧
      ovAbs mu' (renderC (ds ++ [n])) = (specStep busy .now (ovAbs mu (renderC (ds ++ [n]))) op).1 ∧
      Chg mu ds n mu' := by
  rcases hi.st with hA | hB
  · -- the top layer serves the path
    obtain ⟨hm, e, he⟩ := hA
    rw [ovAbs_of_served ⟨hm, e, he⟩] at hop ⊢
    have habs : absAt mu (renderC (ds ++ [n])) = some (recOf e) := by simp only [absAt, he]; rfl
    by_cases hrm : op = .removeFile
    · subst hrm
      have hrun := overlay_run_removeFile_served (idu := idu) (idl := idl) h ido ds n hds hn
        hi.anc hi.wo hsep hm e he
      by_cases hf : e.ftype = .file
      · rw [if_pos hf] at hrun
        refine ⟨afterRemove mu ds n, ?_, hi.removed hsep, ?_, chg_afterRemove mu ds n⟩
        · rw [hrun, habs]; simp [specStep, recOf, hf]
        · rw [habs]
          obtain ⟨em, hem, _⟩ := find?_afterRemove_marker mu ds n
          unfold ovAbs
          rw [contains_of_find hem]
          simp [specStep, recOf, hf]
      · rw [if_neg hf] at hrun
        have hd : e.ftype = .dir := by cases hft : e.ftype <;> simp_all
        refine ⟨mu, ?_, hi, ?_, Chg.refl mu ds n⟩
        · rw [hrun, habs, h.hu.same]; simp [specStep, recOf, hd]
        · rw [ovAbs_of_served ⟨hm, e, he⟩, habs]; simp [specStep, recOf, hd]
    · by_cases hrd : op = .removeDir
      · subst hrd
        have hf : e.ftype = .file := by
          have := hop rfl
          rw [habs] at this
          cases hft : e.ftype
          · rfl
          · simp [recOf, hft] at this
        refine ⟨mu, ?_, hi, ?_, Chg.refl mu ds n⟩
        · rw [overlay_run_removeDir_file (idu := idu) (idl := idl) h ido ds n hds hn hm e he hf,
            habs, h.hu.same]
          simp [specStep, recOf, hf]
        · rw [ovAbs_of_served ⟨hm, e, he⟩, habs]; simp [specStep, recOf, hf]
      have hke : op.keepsEntry = true := by
        cases op <;> first | rfl | exact absurd rfl hrd | exact absurd rfl hrm
      have hpd := hi.anc.parentDir n hds hn
      have hu := memStep_upd mu (renderC (ds ++ [n])) op
      have hsp := memStep_spec mu (renderC (ds ++ [n])) hpd op
      rw [spec_busy_irrelevant _ busy _ _ _ hop] at hsp
      have hs' := TopServes.step2 ⟨hm, e, he⟩ hpd op hke
      refine ⟨(memStep mu (renderC (ds ++ [n])) op).2, ?_,
        ⟨hi.anc.upd hu hsep.apart, hi.wo.upd2 hsep hu.upd2, Or.inl hs'⟩, ?_, chg_of_upd2 hu.upd2⟩
      · rw [overlay_run_memStep2 h ido ds n hds hn ⟨hm, e, he⟩ hi.anc op hke, hsp.1]
      · rw [ovAbs_of_served hs', hsp.2]
  · -- a whiteout hides the path
    rw [ovAbs_of_hidden hB]
    have hrun := overlay_run_hidden (idu := idu) (idl := idl) h ido ds n hds hn hB hi.anc op
    obtain ⟨hk0, eM, heM, hfM⟩ := hB
    have hmk := marker_ne_self (renderC (ds ++ [n]))
    cases op with
    | removeDir =>
      exact ⟨mu, hrun, hi, by rw [ovAbs_of_hidden ⟨hk0, eM, heM, hfM⟩]; rfl, Chg.refl mu ds n⟩
    | write b =>
      have hnc : (hiddenStep mu (renderC (ds ++ [n])) (.write b)).2.contains
          (marker (renderC (ds ++ [n]))) = false := by
        simp only [hiddenStep]
        unfold FMap.contains
        rw [find?_memPublish_ne _ _ _ _ hmk, find?_erase_self]; rfl
      have hfk : (hiddenStep mu (renderC (ds ++ [n])) (.write b)).2.find? (renderC (ds ++ [n])) =
          some ⟨.file, b, .now, .now, .now⟩ := by
        simp only [hiddenStep, memPublish, find?_erase_ne _ _ _ hmk.symm, find?_insert_self,
          fileEntryNow, if_true]
      refine ⟨_, hrun, ⟨hi.anc.upd2 hsep (upd2_memPublish (upd2_recreate mu _ _) b),
        hi.wo.upd2 hsep (upd2_memPublish (upd2_recreate mu _ _) b), Or.inl ⟨hnc, _, hfk⟩⟩, ?_,
        chg_of_upd2 (upd2_memPublish (upd2_recreate mu _ _) b)⟩
      rw [ovAbs_of_not_marked hnc]
      simp only [absAt, hfk]
      rfl
    | createDir =>
      have hnc : (hiddenStep mu (renderC (ds ++ [n])) .createDir).2.contains
          (marker (renderC (ds ++ [n]))) = false := by
        simp only [hiddenStep]
        unfold FMap.contains
        rw [find?_erase_self]; rfl
      have hfk : (hiddenStep mu (renderC (ds ++ [n])) .createDir).2.find? (renderC (ds ++ [n])) =
          some dirEntryNow := by
        simp only [hiddenStep]
        rw [find?_erase_ne _ _ _ hmk.symm, find?_insert_self]
      refine ⟨_, hrun, ⟨hi.anc.upd2 hsep (upd2_recreate mu _ _),
        hi.wo.upd2 hsep (upd2_recreate mu _ _), Or.inl ⟨hnc, _, hfk⟩⟩, ?_,
        chg_of_upd2 (upd2_recreate mu _ _)⟩
      rw [ovAbs_of_not_marked hnc]
      simp only [absAt, hfk]
      rfl
    | setCreated t =>
      exact ⟨mu, hrun, hi, by rw [ovAbs_of_hidden ⟨hk0, eM, heM, hfM⟩]; rfl, Chg.refl mu ds n⟩
    | setModified t =>
      exact ⟨mu, hrun, hi, by rw [ovAbs_of_hidden ⟨hk0, eM, heM, hfM⟩]; rfl, Chg.refl mu ds n⟩
    | setAccessed t =>
      exact ⟨mu, hrun, hi, by rw [ovAbs_of_hidden ⟨hk0, eM, heM, hfM⟩]; rfl, Chg.refl mu ds n⟩
    | append b =>
      exact ⟨mu, hrun, hi, by rw [ovAbs_of_hidden ⟨hk0, eM, heM, hfM⟩]; rfl, Chg.refl mu ds n⟩
    | removeFile =>
      exact ⟨mu, hrun, hi, by rw [ovAbs_of_hidden ⟨hk0, eM, heM, hfM⟩]; rfl, Chg.refl mu ds n⟩
    | metadata =>
      exact ⟨mu, hrun, hi, by rw [ovAbs_of_hidden ⟨hk0, eM, heM, hfM⟩]; rfl, Chg.refl mu ds n⟩
    | read =>
      exact ⟨mu, hrun, hi, by rw [ovAbs_of_hidden ⟨hk0, eM, heM, hfM⟩]; rfl, Chg.refl mu ds n⟩

/-- along the history, `remove_dir` is never applied while the served record is a directory
(a statement about the SPECIFICATION's run) -/
def NoDirRemoval (busy : Bool) (clk : TS) : Option TRec → List TOp → Prop
  | _, [] => True
  | r, op :: ops => NotDirRemoval r op ∧ NoDirRemoval busy clk (specStep busy clk r op).1 ops

instance decNoDirRemoval (busy : Bool) (clk : TS) :
    ∀ (r : Option TRec) (ops : List TOp), Decidable (NoDirRemoval busy clk r ops)
  | _, [] => isTrue trivial
  | r, op :: ops => by
    unfold NoDirRemoval
    exact @instDecidableAnd _ _ _ (decNoDirRemoval busy clk _ ops)

theorem noDirRemoval_of_no_removeDir (busy : Bool) (clk : TS) (r : Option TRec) (ops : List TOp)
    (h : ∀ op ∈ ops, op ≠ .removeDir) : NoDirRemoval busy clk r ops := by
  induction ops generalizing r with
  | nil => trivial
  | cons op ops ih =>
    exact ⟨fun he => absurd he (h op (by simp)), ih _ (fun o ho => h o (by simp [ho]))⟩

/-- **C19 through OverlayFS, whole histories, all ten operations.** See the header. The one
restriction: `remove_dir` is not applied while the path is a directory (`NoDirRemoval`; it may be
applied to a file or to an absent / hidden path, and is refused). `busy` is arbitrary: under that
restriction the specification does not look at it. -/
theorem overlay_history_exact {w : World} {u l idu idl : Nat} {mu ml : FMap}
    (h : OW w u l mu ml) (ido : Nat) (ds : List Str) (n : Str) (hds : ∀ c ∈ ds, GoodComp c)
    (hn : GoodComp n) (hh : (ds ++ [n]).head? ≠ some Overlay.woDir)
    (hwo : ds.head? ≠ some Overlay.woSuffix) (hi : OvInv mu ds n) (busy : Bool)
    (ops : List TOp)
    (hops : NoDirRemoval busy .now (ovAbs mu (renderC (ds ++ [n]))) ops) :
    ∃ mu', (runHist { fs := Overlay.fs (layers2 u l idu idl), fsId := ido,
                      path := renderC (ds ++ [n]) } ops w).2 = w.setLeafFiles u mu' ∧
      OW (w.setLeafFiles u mu') u l mu' ml ∧
      (runHist { fs := Overlay.fs (layers2 u l idu idl), fsId := ido,
                 path := renderC (ds ++ [n]) } ops w).1 =
        (specHist busy .now (ovAbs mu (renderC (ds ++ [n]))) ops).1 ∧
      ovAbs mu' (renderC (ds ++ [n])) =
        (specHist busy .now (ovAbs mu (renderC (ds ++ [n]))) ops).2 ∧
      OvInv mu' ds n := by
  have hsep := sep_of ds n hds hn hh hwo
  induction ops generalizing w mu with
  | nil =>
    refine ⟨mu, by simp only [runHist, h.hu.same], ?_, rfl, rfl, hi⟩
    rw [h.hu.same]; exact h
  | cons op ops ih =>
    obtain ⟨hop, hrest⟩ := hops
    obtain ⟨mu1, hrun, hi1, habs1, _⟩ :=
      overlay_step_full (idu := idu) (idl := idl) h ido ds n hds hn hsep hi busy op hop
    rw [← habs1] at hrest
    obtain ⟨mu', e1, e2, e3, e4, e5⟩ := ih (h.setU mu1) hi1 hrest
    simp only [runHist, specHist, hrun]
    rw [habs1] at e3 e4
    rw [Vfs.World.setLeafFiles_twice] at e1 e2
    exact ⟨mu', e1, e2, by rw [e3], e4, e5⟩

/-- the special case of histories without `remove_dir` -/
theorem overlay_history_exact_noRemoveDir {w : World} {u l idu idl : Nat} {mu ml : FMap}
    (h : OW w u l mu ml) (ido : Nat) (ds : List Str) (n : Str) (hds : ∀ c ∈ ds, GoodComp c)
    (hn : GoodComp n) (hh : (ds ++ [n]).head? ≠ some Overlay.woDir)
    (hwo : ds.head? ≠ some Overlay.woSuffix) (hi : OvInv mu ds n) (busy : Bool)
    (ops : List TOp) (hops : ∀ op ∈ ops, op ≠ .removeDir) :
    ∃ mu', (runHist { fs := Overlay.fs (layers2 u l idu idl), fsId := ido,
                      path := renderC (ds ++ [n]) } ops w).2 = w.setLeafFiles u mu' ∧
      OW (w.setLeafFiles u mu') u l mu' ml ∧
      (runHist { fs := Overlay.fs (layers2 u l idu idl), fsId := ido,
                 path := renderC (ds ++ [n]) } ops w).1 =
        (specHist busy .now (ovAbs mu (renderC (ds ++ [n]))) ops).1 ∧
      ovAbs mu' (renderC (ds ++ [n])) =
        (specHist busy .now (ovAbs mu (renderC (ds ++ [n]))) ops).2 ∧
      OvInv mu' ds n :=
  overlay_history_exact h ido ds n hds hn hh hwo hi busy ops
    (noDirRemoval_of_no_removeDir _ _ _ _ hops)

/-! ### `remove_dir` of a directory, for a path without children in either layer -/

/-- `k` has no children in the map -/
def NoKids (m : FMap) (k : Str) : Prop := ∀ x e, m.find? x = some e → childName k x = none

theorem NoKids.kids_nil {m : FMap} {k : Str} (h : NoKids m k) :
    m.keys.filterMap (childName k) = [] := by
  rw [List.filterMap_eq_nil_iff]
  intro x hx
  obtain ⟨e, he⟩ := (mem_keys_iff m x).1 hx
  exact h x e he

theorem NoKids.layerNames {m : FMap} {k : Str} (h : NoKids m k) : layerNames m k = [] := by
  unfold Vfs.layerNames
  split
  · split
    · exact h.kids_nil
    · rfl
  · rfl

theorem pListing_nil {mu ml : FMap} {k : Str} (hu : NoKids mu k) (hl : NoKids ml k) :
    pListing mu ml k = [] := by
  unfold pListing
  rw [hu.layerNames, hl.layerNames]
  split <;> rfl

/-- a key inside the ".whiteout" namespace is not a child of a path outside it -/
theorem childName_none_of_wo (cs : List Str) (hcs : ∀ c ∈ cs, GoodComp c) (hne : cs ≠ [])
    (hh : cs.head? ≠ some Overlay.woDir) (s : Str) (hs : s = [] ∨ s.head? = some '/') :
    childName (renderC cs) ('/' :: (Overlay.woDir ++ s)) = none := by
  cases hc : childName (renderC cs) ('/' :: (Overlay.woDir ++ s)) with
  | none => rfl
  | some nm =>
    exfalso
    obtain ⟨h1, _⟩ := childName_some _ _ _ hc
    cases cs with
    | nil => exact hne rfl
    | cons c cs' =>
      apply hh
      simp only [renderC_cons, List.cons_append, List.cons.injEq, true_and,
        List.append_assoc] at h1
      have hT : ∃ t, renderC cs' ++ '/' :: nm = '/' :: t := by
        cases cs' with
        | nil => exact ⟨nm, rfl⟩
        | cons c2 cs2 =>
          exact ⟨c2 ++ renderC cs2 ++ '/' :: nm, by simp only [renderC_cons, List.cons_append]⟩
      obtain ⟨t, ht⟩ := hT
      rw [ht] at h1
      have := first_slash_split Overlay.woDir c s t (by decide) (hcs c (by simp)).noSlash hs h1
      simp [this]

theorem woChain_form (ds : List Str) (q : Str) (hq : q ∈ woChain ds) :
    ∃ s, q = '/' :: (Overlay.woDir ++ s) ∧ (s = [] ∨ s.head? = some '/') := by
  obtain ⟨j, h1, h2, rfl⟩ := (mem_chain [] (Overlay.woDir :: ds) q).1 hq
  obtain ⟨i, rfl⟩ : ∃ i, j = i + 1 := ⟨j - 1, by omega⟩
  refine ⟨renderC (ds.take i), by simp, ?_⟩
  cases h : ds.take i <;> simp

theorem marker_form (k : Str) (hk : k.head? = some '/') :
    ∃ s, marker k = '/' :: (Overlay.woDir ++ s) ∧ (s = [] ∨ s.head? = some '/') := by
  refine ⟨k ++ Overlay.woSuffix, by simp [marker], Or.inr ?_⟩
  cases k with
  | nil => simp at hk
  | cons a k' => simpa using hk

/-- the extra invariant for `remove_dir`: no children of `k` in either layer, and the bookkeeping
position "/.whiteout" ++ k is not a file -/
structure Childless (mu ml : FMap) (k : Str) : Prop where
  up : NoKids mu k
  low : NoKids ml k
  wod : ∀ e, mu.find? (woDirOf k) = some e → e.ftype = .dir

theorem Childless.chg {mu ml mu' : FMap} {ds : List Str} {n : Str}
    (hc : Childless mu ml (renderC (ds ++ [n]))) (hds : ∀ c ∈ ds, GoodComp c) (hn : GoodComp n)
    (hh : (ds ++ [n]).head? ≠ some Overlay.woDir) (hg : Chg mu ds n mu') :
    Childless mu' ml (renderC (ds ++ [n])) := by
  have hcs := good_snoc hds hn
  have hne : ds ++ [n] ≠ [] := by simp
  have hkhead : (renderC (ds ++ [n])).head? = some '/' := by cases ds <;> simp
  refine ⟨?_, hc.low, ?_⟩
  · intro x e he
    rcases hg x e he with h0 | rfl | rfl | hx
    · exact hc.up x e h0
    · exact childName_self _
    · obtain ⟨s, hs1, hs2⟩ := marker_form _ hkhead
      rw [hs1]; exact childName_none_of_wo _ hcs hne hh s hs2
    · obtain ⟨s, hs1, hs2⟩ := woChain_form ds x hx
      rw [hs1]; exact childName_none_of_wo _ hcs hne hh s hs2
  · intro e he
    rcases hg _ e he with h0 | h1 | h2 | hx
    · exact hc.wod e h0
    · exfalso
      have := congrArg List.length h1
      simp [woDirOf] at this <;> omega
    · exfalso
      have := congrArg List.length h2
      simp [woDirOf, marker, Overlay.woSuffix] at this <;> omega
    · exfalso
      rw [woDirOf_renderC] at hx
      have hgood : ∀ c ∈ Overlay.woDir :: (ds ++ [n]), '/' ∉ c := by
        intro c hc'
        rcases List.mem_cons.1 hc' with rfl | hc'
        · exact goodComp_woDir.noSlash
        · exact (hcs c hc').noSlash
      have hgood2 : ∀ c ∈ Overlay.woDir :: ds, '/' ∉ c := by
        intro c hc'
        rcases List.mem_cons.1 hc' with rfl | hc'
        · exact goodComp_woDir.noSlash
        · exact (hds c hc').noSlash
      exact C10.renderC_not_in_chain _ _ hgood hgood2 (by simp) hx

section ov3
variable {w : World} {u l idu idl : Nat} {mu ml : FMap} (h : OW w u l mu ml) (ido : Nat)
  (ds : List Str) (n : Str) (hds : ∀ c ∈ ds, GoodComp c) (hn : GoodComp n)
include h hds hn

/-- `remove_dir` through the overlay on a childless DIRECTORY the top layer serves: it goes behind
a whiteout -/
theorem overlay_run_removeDir_dir (ha : AncTop mu ds) (hw : WoOK mu ds) (hsep : Sep ds n)
    (hc : Childless mu ml (renderC (ds ++ [n])))
    (hm : mu.contains (marker (renderC (ds ++ [n]))) = false) (e : Entry)
    (he : mu.find? (renderC (ds ++ [n])) = some e) (hd : e.ftype = .dir) :
    runOp { fs := Overlay.fs (layers2 u l idu idl), fsId := ido, path := renderC (ds ++ [n]) }
        .removeDir w = (.done, w.setLeafFiles u (afterRemove mu ds n)) := by
  have hne : ds ++ [n] ≠ [] := by simp
  have hcs := good_snoc hds hn
  have hv : view mu ml (renderC (ds ++ [n])) = some e := view_upper hm he
  simp only [runOp, VPath.removeDir, M.withPath, Overlay.fs, run_oremoveDir h _ hne hcs hc.wod]
  have hnm : (mu.erase (renderC (ds ++ [n]))).find? (marker (renderC (ds ++ [n]))) = none := by
    rw [find?_erase_ne _ _ _ (marker_ne_self _)]
    unfold FMap.contains at hm
    cases hq : mu.find? (marker (renderC (ds ++ [n]))) with
    | none => rfl
    | some e' => rw [hq] at hm; simp at hm
  have hres := C10.pAddWhiteout_result (mu.erase (renderC (ds ++ [n]))) ds n hds hn
    (by obtain ⟨e0, he0, hd0⟩ := ha.root.root
        exact ⟨e0, by rw [find?_erase_ne _ _ _ (Ne.symm hsep.apart.1)]; exact he0, hd0⟩)
    (by intro q hq e' he'
        have hq1 : q ≠ renderC (ds ++ [n]) := fun h' => hsep.kW (h' ▸ hq)
        rw [find?_erase_ne _ _ _ hq1] at he'
        exact hw q hq e' he')
    hnm
  have hrd : Mem.pRemoveDir mu (renderC (ds ++ [n])) = (.ok (), mu.erase (renderC (ds ++ [n]))) := by
    have hk := hc.up.kids_nil
    generalize renderC (ds ++ [n]) = k at *
    simp [Mem.pRemoveDir, Mem.removeDir, Mem.readDir, he, hd, hk, contains_of_find he, Res.withPath]
  have hpr : pRemoveDir mu ml (ds ++ [n]) = (.ok (), afterRemove mu ds n) := by
    unfold pRemoveDir
    have hde : dirEntry? mu ml (renderC (ds ++ [n])) = some e := by
      unfold dirEntry?; rw [if_neg (renderC_ne_nil hne)]; exact hv
    simp only [hv, pReadDir, hde, hd, if_true, pListing_nil hc.up hc.low, ne_eq, not_true_eq_false,
      if_false, contains_of_find he, hrd, andThen]
    exact hres
  rw [hpr]
  rfl

end ov3

/-- **one step, all ten operations**, for a path without children in either layer -/
theorem overlay_step_all {w : World} {u l idu idl : Nat} {mu ml : FMap} (h : OW w u l mu ml)
    (ido : Nat) (ds : List Str) (n : Str) (hds : ∀ c ∈ ds, GoodComp c) (hn : GoodComp n)
    (hh : (ds ++ [n]).head? ≠ some Overlay.woDir)
    (hsep : Sep ds n) (hi : OvInv mu ds n) (hc : Childless mu ml (renderC (ds ++ [n])))
    (op : TOp) :
    ∃ mu', runOp { fs := Overlay.fs (layers2 u l idu idl), fsId := ido,
                   path := renderC (ds ++ [n]) } op w =
        ((specStep false .now (ovAbs mu (renderC (ds ++ [n]))) op).2, w.setLeafFiles u mu') ∧
      OvInv mu' ds n ∧
      ovAbs mu' (renderC (ds ++ [n])) =
        (specStep false .now (ovAbs mu (renderC (ds ++ [n]))) op).1 ∧
      Childless mu' ml (renderC (ds ++ [n])) := by
  by_cases hnd : NotDirRemoval (ovAbs mu (renderC (ds ++ [n]))) op
  · obtain ⟨mu', h1, h2, h3, h4⟩ :=
      overlay_step_full (idu := idu) (idl := idl) h ido ds n hds hn hsep hi false op hnd
    exact ⟨mu', h1, h2, h3, hc.chg hds hn hh h4⟩
  · -- `remove_dir` of a served directory
    unfold NotDirRemoval at hnd
    have hop : op = .removeDir := by
      by_cases ho : op = .removeDir
      · exact ho
      · exact absurd (fun h' => absurd h' ho) hnd
    subst hop
    have hdir : (ovAbs mu (renderC (ds ++ [n]))).map TRec.ftype = some .dir := by
      by_cases hx : (ovAbs mu (renderC (ds ++ [n]))).map TRec.ftype = some .dir
      · exact hx
      · exact absurd (fun _ => hx) hnd
    rcases hi.st with hA | hB
    · obtain ⟨hm, e, he⟩ := hA
      have habs : absAt mu (renderC (ds ++ [n])) = some (recOf e) := by simp only [absAt, he]; rfl
      rw [ovAbs_of_served ⟨hm, e, he⟩, habs] at hdir ⊢
      have hd : e.ftype = .dir := by simpa [recOf] using hdir
      refine ⟨afterRemove mu ds n, ?_, hi.removed hsep, ?_, hc.chg hds hn hh (chg_afterRemove mu ds n)⟩
      · rw [overlay_run_removeDir_dir (idu := idu) (idl := idl) h ido ds n hds hn hi.anc hi.wo hsep
          hc hm e he hd]
        simp [specStep, recOf, hd]
      · obtain ⟨em, hem, _⟩ := find?_afterRemove_marker mu ds n
        unfold ovAbs
        rw [contains_of_find hem]
        simp [specStep, recOf, hd]
    · rw [ovAbs_of_hidden hB] at hdir
      simp at hdir

/-- **C19 through OverlayFS, whole histories, ALL ten operations, no side condition on the
history**, for a path that has no children in either layer (a file, or a directory that stays
empty — `busy = false`). -/
theorem overlay_history_exact_childless {w : World} {u l idu idl : Nat} {mu ml : FMap}
    (h : OW w u l mu ml) (ido : Nat) (ds : List Str) (n : Str) (hds : ∀ c ∈ ds, GoodComp c)
    (hn : GoodComp n) (hh : (ds ++ [n]).head? ≠ some Overlay.woDir)
    (hwo : ds.head? ≠ some Overlay.woSuffix) (hi : OvInv mu ds n)
    (hc : Childless mu ml (renderC (ds ++ [n]))) (ops : List TOp) :
    ∃ mu', (runHist { fs := Overlay.fs (layers2 u l idu idl), fsId := ido,
                      path := renderC (ds ++ [n]) } ops w).2 = w.setLeafFiles u mu' ∧
      OW (w.setLeafFiles u mu') u l mu' ml ∧
      (runHist { fs := Overlay.fs (layers2 u l idu idl), fsId := ido,
                 path := renderC (ds ++ [n]) } ops w).1 =
        (specHist false .now (ovAbs mu (renderC (ds ++ [n]))) ops).1 ∧
      ovAbs mu' (renderC (ds ++ [n])) =
        (specHist false .now (ovAbs mu (renderC (ds ++ [n]))) ops).2 ∧
      OvInv mu' ds n ∧ Childless mu' ml (renderC (ds ++ [n])) := by
  have hsep := sep_of ds n hds hn hh hwo
  induction ops generalizing w mu with
  | nil =>
    refine ⟨mu, by simp only [runHist, h.hu.same], ?_, rfl, rfl, hi, hc⟩
    rw [h.hu.same]; exact h
  | cons op ops ih =>
    obtain ⟨mu1, hrun, hi1, habs1, hc1⟩ :=
      overlay_step_all (idu := idu) (idl := idl) h ido ds n hds hn hh hsep hi hc op
    obtain ⟨mu', e1, e2, e3, e4, e5, e6⟩ := ih (h.setU mu1) hi1 hc1
    simp only [runHist, specHist, hrun]
    rw [habs1] at e3 e4
    rw [Vfs.World.setLeafFiles_twice] at e1 e2
    exact ⟨mu', e1, e2, by rw [e3], e4, e5, e6⟩

/-! ### Non-vacuity -/

/-- removal, refusals behind the whiteout (the lower layer still holds "/d/f" with its own
timestamps), re-creation as a file and as a directory -/
def hRemoveOps : List TOp :=
  [ .metadata, .setCreated 5, .removeDir, .removeFile, .metadata, .setModified 3, .append [1],
    .read, .removeFile, .removeDir, .write [8], .metadata, .setAccessed 4, .removeFile, .createDir,
    .metadata, .write [1], .removeFile, .read ]

example : NoDirRemoval false .now (ovAbs hMap (renderC (["d".toList] ++ ["f".toList])))
    hRemoveOps := by decide

example : OvInv hMap ["d".toList] "f".toList := by
  refine ⟨?_, ?_, Or.inl ⟨by decide, hFile, by decide⟩⟩
  · refine ⟨⟨⟨hDir, by decide, rfl⟩, by decide⟩, ?_⟩
    intro j h1 h2
    have : j = 1 := by simp at h2; omega
    subst this
    exact ⟨by decide, hDir, by decide, rfl⟩
  · intro q hq e he
    have hq' : q = "/.whiteout".toList ∨ q = "/.whiteout/d".toList := by
      have : woChain ["d".toList] = ["/.whiteout".toList, "/.whiteout/d".toList] := by decide
      rw [this] at hq
      simpa using hq
    rcases hq' with rfl | rfl
    · have : hMap.find? "/.whiteout".toList = none := by decide
      rw [this] at he; cases he
    · have : hMap.find? "/.whiteout/d".toList = none := by decide
      rw [this] at he; cases he

example : (["d".toList] : List Str).head? ≠ some Overlay.woSuffix := by decide

set_option maxRecDepth 100000 in
example : (runHist { fs := Overlay.fs (layers2 0 1 0 1), fsId := 2,
                     path := renderC (["d".toList] ++ ["f".toList]) } hRemoveOps hWorld2).1 =
    [ .info ⟨.file, 2, .at 7, .now, .unset⟩, .done, .refused .other, .done, .refused .fileNotFound,
      .refused .fileNotFound, .refused .fileNotFound, .refused .fileNotFound,
      .refused .fileNotFound, .refused .fileNotFound, .done, .info ⟨.file, 1, .now, .now, .now⟩,
      .done, .done, .done, .info ⟨.dir, 0, .now, .now, .now⟩, .refused .other, .refused .other,
      .refused .other ] := by
  decide +kernel

/-- the concrete path is childless in both layers -/
example : Childless hMap hLower (renderC (["d".toList] ++ ["f".toList])) := by
  refine ⟨?_, ?_, ?_⟩
  · intro x e he
    exact (by decide : ∀ x ∈ hMap.keys,
      childName (renderC (["d".toList] ++ ["f".toList])) x = none) x ((mem_keys_iff _ _).2 ⟨e, he⟩)
  · intro x e he
    exact (by decide : ∀ x ∈ hLower.keys,
      childName (renderC (["d".toList] ++ ["f".toList])) x = none) x ((mem_keys_iff _ _).2 ⟨e, he⟩)
  · intro e he
    have : hMap.find? (woDirOf (renderC (["d".toList] ++ ["f".toList]))) = none := by decide
    rw [this] at he; cases he

/-- all ten kinds through the overlay, `remove_dir` of a directory included -/
def hAllOps : List TOp :=
  [ .metadata, .setCreated 5, .setModified 6, .setAccessed 8, .append [3], .read, .removeDir,
    .removeFile, .metadata, .createDir, .metadata, .write [1], .removeDir, .removeDir, .read,
    .write [9, 9], .metadata ]

set_option maxRecDepth 100000 in
example : (runHist { fs := Overlay.fs (layers2 0 1 0 1), fsId := 2,
                     path := renderC (["d".toList] ++ ["f".toList]) } hAllOps hWorld2).1 =
    (specHist false .now (ovAbs hMap (renderC (["d".toList] ++ ["f".toList]))) hAllOps).1 := by
  decide +kernel

set_option maxRecDepth 100000 in
example : (specHist false .now (ovAbs hMap (renderC (["d".toList] ++ ["f".toList]))) hAllOps).1 =
    [ .info ⟨.file, 2, .at 7, .now, .unset⟩, .done, .done, .done, .done, .data [1, 2, 3],
      .refused .other, .done, .refused .fileNotFound, .done, .info ⟨.dir, 0, .now, .now, .now⟩,
      .refused .other, .done, .refused .fileNotFound, .refused .fileNotFound, .done,
      .info ⟨.file, 2, .now, .now, .now⟩ ] := by
  decide +kernel

#print axioms Vfs.C19.overlay_history_exact
#print axioms Vfs.C19.overlay_history_exact_childless
#print axioms Vfs.C19.overlay_history_exact_noRemoveDir

end Vfs.C19
