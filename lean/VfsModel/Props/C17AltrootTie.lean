/-
  C17 — the program the driver executes for an altroot (`OConc.altCreateDirAll`, model file
  AltrootConc.lean) IS the program of the every-interleaving theorem
  `C17.altroot_create_dir_all_concurrent` (Proofs/AltrootConcThread.lean), and its system is the
  theorem's system.
-/
import VfsModel.AltrootConc
import VfsModel.Props.C17AltrootConc
namespace Vfs.C17
open Vfs

theorem driver_altMk_eq (root : VPath) (d : Str) : OConc.altMk root d = AConc.altMk root d := rfl

theorem driver_altCreateDirAll_eq (root : VPath) (p : Str) :
    OConc.altCreateDirAll root p = AConc.altCreateDirAll root p := rfl

/-- hence the driver's program, run alone, is the big-step `create_dir_all` of the modelled AltrootFS -/
theorem driver_altCreateDirAll_run (root : VPath) (id : Nat) (p : Str) :
    (OConc.altCreateDirAll root p).run = VPath.createDirAll ⟨Altroot.fs root, id, p⟩ := by
  rw [driver_altCreateDirAll_eq]; exact small_step_is_altroot_createDirAll root id p

end Vfs.C17
