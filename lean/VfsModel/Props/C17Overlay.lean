/-
  C17 (concurrency), overlay part: the fix of finding O11 in `OverlayFS::create_dir`.

  The defect: two concurrent `create_dir(p)` on an overlay in which `p` is hidden by a whiteout.
  The winner creates `p` in the write layer and THEN clears the whiteout; between its two steps the
  write layer holds the directory `p` AND still the marker of `p`.  The loser's `exists(p)` says no
  (the marker hides `p`), its `create_dir` on the write layer answers `DirectoryExists`, and the old
  code returned that error at once: a caller that treats `DirectoryExists` as "the directory is
  there" and goes on to create a child of `p` failed in `ensure_has_parent`, because the overlay
  still did not show `p`.  The fixed code (model: `Overlay.createDir` / `Overlay.clearWhiteoutT` in
  Adapters.lean) clears the whiteout on that path too, tolerating a marker that vanishes between
  its probe and its removal.

  WHAT IS PROVED (no sorry, no axiom), n memory layers, setting `OWN` of Proofs/OverlayNLemmas.lean:
  * `race_state_hidden` : in the race state (marker of `p` in the write layer) `exists(p)` answers
    false and `ensure_has_parent` of every child of `p` fails with `Other`, the world unchanged
    (what the loser's caller ran into).
  * `createDir_race_loser_clears_marker` : in a world where the write layer ALREADY holds the
    directory `p` and ALSO still the whiteout of `p`, `Overlay.createDir layers p` returns
    `DirectoryExists` (with the path attached by the write layer), only the write leaf changes,
    afterwards the marker is gone, the write layer still holds the same directory entry, every other
    key of the write layer that is not an ancestor directory of `p` is as before, `exists(p)`
    answers true and `ensure_has_parent` of every child of `p` succeeds.
    Hypotheses: `p = renderC (ds ++ [n])` with canonical components, not below "/.whiteout";
    `RootOk mu`; the ancestors of `p` are directories of the n-layer view (`AncDirsN`: so that the
    loser's own `ensure_has_parent` passes); the marker is a file (markers are created by
    `create_file`).
  * `clearWhiteoutT_absent_ok` : for ARBITRARY layers (any inner filesystems): when the probe of the
    marker answers false, or answers true and the removal then answers `FileNotFound`,
    `clearWhiteoutT` returns `ok`, and the world is the one left by the probe (and the attempted
    removal): no other call is made.  `clearWhiteout_notFound_err` : the non-tolerant clearing kept
    by `create_file` returns that `FileNotFound`.  `clearWhiteoutT_absent_okN` : over memory
    layers without the marker the world is literally unchanged.
  * concrete instances evaluated by `decide`: the race world `wRace` (two layers), before/after;
    a filesystem whose marker vanishes between probe and removal (`vanishFS`).

  NOT PROVED here: anything about interleavings themselves (the scheduler model of Conc.lean works
  on the memory filesystem, not on the overlay); the theorems describe the loser's call as ONE
  atomic step from the intermediate state the winner leaves, which is the only new behaviour of the
  fix.  This file must not be imported together with Props/C17.lean (that one imports
  Proofs/TransferLemmas.lean, this one Proofs/OverlayLemmas.lean — name clash).
-/
import VfsModel.Proofs.OverlayNLemmas
import VfsModel.Props.C10
set_option linter.unusedVariables false
set_option linter.unusedSimpArgs false
namespace Vfs.C17
open Vfs Vfs.Overlay

/-! ### the tolerant clearing, arbitrary layers -/

/-- **`clear_whiteout` tolerates an absent or vanishing marker.** Whatever the layers are: if the
probe of the marker answers false, or answers true and the removal then answers `FileNotFound` (a
concurrent caller removed the marker in between), the result is `ok` and the world is exactly the
one left by the probe (and the attempted removal) -/
theorem clearWhiteoutT_absent_ok (layers : List VPath) (p : Str) (wo : VPath)
    (hwo : whiteoutPath layers p = .ok wo) (w : World) :
    (∀ w1, wo.exists_ w = (.ok false, w1) → clearWhiteoutT layers p w = (.ok (), w1)) ∧
    (∀ w1 w2 pth, wo.exists_ w = (.ok true, w1) →
      wo.removeFile w1 = (.err .fileNotFound pth, w2) →
      clearWhiteoutT layers p w = (.ok (), w2)) := by
  constructor
  · intro w1 hex
    unfold clearWhiteoutT
    simp [bind, M.bind, M.ret, hwo, hex, Pure.pure, M.pure]
  · intro w1 w2 pth hex hrm
    unfold clearWhiteoutT
    simp [bind, M.bind, M.ret, hwo, hex, hrm]

/-- the non-tolerant clearing (still used by `create_file`) hands the `FileNotFound` on -/
theorem clearWhiteout_notFound_err (layers : List VPath) (p : Str) (wo : VPath)
    (hwo : whiteoutPath layers p = .ok wo) (w w1 w2 : World) (pth : Option Str)
    (hex : wo.exists_ w = (.ok true, w1))
    (hrm : wo.removeFile w1 = (.err .fileNotFound pth, w2)) :
    clearWhiteout layers p w = (.err .fileNotFound pth, w2) := by
  unfold clearWhiteout
  simp [bind, M.bind, M.ret, hwo, hex, hrm]

/-! ### n memory layers -/

theorem marker_ne (p : Str) : marker p ≠ p := by
  intro heq
  have := congrArg List.length heq
  simp [marker, woDir, woSuffix] at this
  omega

/-- `VfsPath::create_dir` on a memory map that already holds a directory at the path -/
theorem pCreateDir_existing_dir (m : FMap) (k : Str) (hpar : Mem.parentOk m k = true)
    (hs : '/' ∈ k) (e : Entry) (hf : m.find? k = some e) (hd : e.ftype = .dir) :
    Mem.pCreateDir m k = (.err .dirExists (some k), m) := by
  obtain ⟨pe, hpe, hpd⟩ := Mem.parentOk_spec m k hpar
  unfold Mem.pCreateDir Mem.createDir Mem.ensureHasParent
  simp [hpar, hs, hpe, hpd, hf, hd, Res.withPath, fail]

section race
variable {w : World} {u idu : Nat} {mu : FMap} {is ids : List Nat} {ms : List FMap}
  (h : OWN w (u :: is) (idu :: ids) (mu :: ms))
include h

/-- over memory layers whose write layer does not hold the marker, `clear_whiteout` is a no-op -/
theorem clearWhiteoutT_absent_okN (cs : List Str) (hne : cs ≠ []) (hcs : ∀ c ∈ cs, GoodComp c)
    (hm : mu.contains (marker (renderC cs)) = false) :
    clearWhiteoutT (layersN (u :: is) (idu :: ids)) (renderC cs) w = (.ok (), w) := by
  rw [run_clearWhiteoutTN h cs hne hcs]
  unfold pClear
  simp [hm, h.hu.same]

/-- **the race state hides the directory.** While the marker of `p` sits in the write layer,
`exists(p)` answers false and `ensure_has_parent` of a child of `p` fails (`Other`), whatever the
write layer holds at `p` -/
theorem race_state_hidden (cs : List Str) (hne : cs ≠ []) (hcs : ∀ c ∈ cs, GoodComp c)
    (hmk : mu.contains (marker (renderC cs)) = true) :
    Overlay.exists_ (layersN (u :: is) (idu :: ids)) (renderC cs) w = (.ok false, w) ∧
    ∀ c, GoodComp c →
      ensureHasParent (layersN (u :: is) (idu :: ids)) (renderC (cs ++ [c])) w
        = (.err .other none, w) := by
  constructor
  · rw [run_oexistsN h cs hne hcs, viewN_marked hmk]; rfl
  · intro c hc
    rw [run_ensureHasParentN h (cs ++ [c]) (by simp) (good_snoc hcs hc), List.dropLast_concat]
    have hex : pexistsN (mu :: ms) (renderC cs) = false := by
      unfold pexistsN
      rw [if_neg (renderC_ne_nil hne), viewN_marked hmk]; rfl
    unfold pEnsureN
    simp [hex, h.hu.same]

/-- **the loser of the race clears the marker.** -/
theorem createDir_race_loser_clears_marker (ds : List Str) (n : Str)
    (hds : ∀ c ∈ ds, GoodComp c) (hn : GoodComp n) (hroot : RootOk mu)
    (hanc : AncDirsN (mu :: ms) ds) (hhead : (ds ++ [n]).head? ≠ some woDir)
    (ed : Entry) (hdir : mu.find? (renderC (ds ++ [n])) = some ed) (hdd : ed.ftype = .dir)
    (em : Entry) (hmk : mu.find? (marker (renderC (ds ++ [n]))) = some em)
    (hmf : em.ftype = .file) :
    ∃ mu', Overlay.createDir (layersN (u :: is) (idu :: ids)) (renderC (ds ++ [n])) w
        = (.err .dirExists (some (renderC (ds ++ [n]))), w.setLeafFiles u mu') ∧
      OWN (w.setLeafFiles u mu') (u :: is) (idu :: ids) (mu' :: ms) ∧
      -- the marker is gone, the directory is the one the winner created, nothing else changed
      -- (ancestor directories missing in the write layer may have been filled in)
      mu'.contains (marker (renderC (ds ++ [n]))) = false ∧
      mu'.find? (renderC (ds ++ [n])) = some ed ∧
      (∀ k, k ≠ marker (renderC (ds ++ [n])) → k ∉ chain [] ds → mu'.find? k = mu.find? k) ∧
      -- the overlay shows the directory now …
      Overlay.exists_ (layersN (u :: is) (idu :: ids)) (renderC (ds ++ [n])) (w.setLeafFiles u mu')
        = (.ok true, w.setLeafFiles u mu') ∧
      viewN (mu' :: ms) (renderC (ds ++ [n])) = some ed ∧
      -- … so creating a child no longer fails in `ensure_has_parent`
      (∀ c, GoodComp c →
        (ensureHasParent (layersN (u :: is) (idu :: ids)) (renderC (ds ++ [n] ++ [c]))
          (w.setLeafFiles u mu')).1 = .ok ()) := by
  have hcs := good_snoc hds hn
  have hne : ds ++ [n] ≠ [] := by simp
  have hdhead : ds.head? ≠ some woDir := by
    intro hd; apply hhead
    cases ds with
    | nil => simp at hd
    | cons d ds => simpa using hd
  -- the loser's own `ensure_has_parent` passes and fills in missing ancestor directories
  have hE : pEnsureN (mu :: ms) (ds ++ [n]).dropLast = (.ok (), fillDirs mu (chain [] ds)) := by
    rw [List.dropLast_concat]; exact pEnsureN_ok hroot hds hanc
  generalize hmu1 : fillDirs mu (chain [] ds) = mu1 at hE
  have hp0 : mu1.find? (renderC (ds ++ [n])) = some ed := by
    have := find?_snoc_fillDirs (mu := mu) hds hn [] (Or.inl rfl)
    simp only [List.append_nil] at this
    rw [← hmu1, this]; exact hdir
  have hne' : marker (renderC (ds ++ [n])) ≠ renderC (ds ++ [n]) := marker_ne _
  have hm1 : mu1.find? (marker (renderC (ds ++ [n]))) = some em := by
    rw [← hmu1, find?_fillDirs, hmk]; rfl
  have hpar : Mem.parentOk mu1 (renderC (ds ++ [n])) = true := by
    rw [← hmu1]
    exact parentOk_fillDirs_gen (n := n) hroot.root hds hn (chain_dirs_of_ancN hanc)
  -- the write layer answers `DirectoryExists`
  have hmkdir : Mem.pCreateDir mu1 (renderC (ds ++ [n])) =
      (.err .dirExists (some (renderC (ds ++ [n]))), mu1) :=
    pCreateDir_existing_dir _ _ hpar (slash_mem_renderC hne) ed hp0 hdd
  -- … and the marker is cleared all the same
  have hclear : pClear mu1 (renderC (ds ++ [n])) =
      (.ok (), mu1.erase (marker (renderC (ds ++ [n])))) := by
    unfold pClear
    rw [if_pos (contains_of_find hm1), C10.pRemoveFile_file _ _ em hm1 hmf]
  have hpure : pCreateDirN mu ms (ds ++ [n]) =
      (.err .dirExists (some (renderC (ds ++ [n]))),
        mu1.erase (marker (renderC (ds ++ [n])))) := by
    unfold pCreateDirN
    rw [hE]
    simp only [andThen, viewN_marked (contains_of_find hm1), pCreateTail, hmkdir, hclear]
  generalize hmu3 : mu1.erase (marker (renderC (ds ++ [n]))) = mu' at hpure
  have hgone : mu'.contains (marker (renderC (ds ++ [n]))) = false := by
    rw [← hmu3]; unfold FMap.contains; rw [FMap.find?_erase_self]; rfl
  have hp3 : mu'.find? (renderC (ds ++ [n])) = some ed := by
    rw [← hmu3, FMap.find?_erase_ne _ _ _ hne'.symm]; exact hp0
  have hview : viewN (mu' :: ms) (renderC (ds ++ [n])) = some ed := viewN_upper hgone hp3
  have h3 := h.setHead mu'
  refine ⟨mu', ?_, h3, hgone, hp3, ?_, ?_, hview, ?_⟩
  · rw [run_ocreateDirN h _ hne hcs, hpure]
  · intro k hk1 hk2
    rw [← hmu3, FMap.find?_erase_ne _ _ _ hk1, ← hmu1, find?_fillDirs_not_mem _ _ _ hk2]
  · rw [run_oexistsN h3 _ hne hcs, hview]; rfl
  · intro c hc
    rw [run_ensureHasParentN h3 (ds ++ [n] ++ [c]) (by simp) (good_snoc hcs hc),
      List.dropLast_concat]
    have hex : pexistsN (mu' :: ms) (renderC (ds ++ [n])) = true := by
      unfold pexistsN
      rw [if_neg (renderC_ne_nil hne), hview]; rfl
    have hisd : pIsDirN (mu' :: ms) (renderC (ds ++ [n])) = true := by
      unfold pIsDirN
      rw [if_neg (renderC_ne_nil hne), hview]
      simp [hdd]
    unfold pEnsureN
    rw [if_pos hex, if_pos hisd]
    -- the chain of `p` consists of directories of the write layer
    have hroot3 : ∃ e, mu'.find? (renderC []) = some e ∧ e.ftype = .dir := by
      obtain ⟨e, he, hd⟩ := hroot.root
      refine ⟨e, ?_, hd⟩
      have hnil : ([] : Str) ≠ marker (renderC (ds ++ [n])) := by simp [marker]
      rw [renderC_nil, ← hmu3, FMap.find?_erase_ne _ _ _ hnil, ← hmu1, find?_fillDirs, he]; rfl
    have hdirs3 : ∀ k ∈ chain [] (ds ++ [n]), ∀ e, mu'.find? k = some e → e.ftype = .dir := by
      intro k hk e he
      have he1 : mu1.find? k = some e := by
        rw [← hmu3, FMap.find?_erase] at he
        split at he
        · cases he
        · exact he
      obtain ⟨j, h1, h2, rfl⟩ := (mem_chain [] (ds ++ [n]) k).1 hk
      simp only [List.nil_append, List.length_append, List.length_cons, List.length_nil] at h2 he1 ⊢
      by_cases hj : j ≤ ds.length
      · rw [List.take_append_of_le_length hj] at he1
        have hk' : renderC (ds.take j) ∈ chain [] ds :=
          (mem_chain [] ds _).2 ⟨j, h1, hj, by simp⟩
        rw [← hmu1, find?_fillDirs, if_pos hk'] at he1
        rcases Option.eq_none_or_eq_some (mu.find? (renderC (ds.take j))) with hf | ⟨e0, hf⟩
        · rw [hf] at he1
          simp only [Option.none_or, Option.some.injEq] at he1
          rw [← he1]; rfl
        · rw [hf] at he1
          simp only [Option.some_or, Option.some.injEq] at he1
          subst he1
          exact chain_dirs_of_ancN hanc _ hk' e0 hf
      · have hj' : j = ds.length + 1 := by omega
        subst hj'
        have : (ds ++ [n]).take (ds.length + 1) = ds ++ [n] := by
          rw [List.take_of_length_le]; simp
        rw [this, hp0] at he1
        injection he1 with he1; subst he1; exact hdd
    have := mkdirs_chain mu' [] (ds ++ [n]) (by simp) (good_noSlash hcs) hroot3 hdirs3
    simp only [List.headD_cons]
    rw [this]

end race

/-! ### concrete instances, evaluated by `decide` -/

def fileOf (b : Bytes) : Entry := { fileEntryNow with content := b }

/-- the race state: the write layer (leaf 1) holds the directory "/d" (the winner's first step)
and still the whiteout of "/d"; the lower layer (leaf 0) holds "/d" with a file in it (that is why
"/d" had been whited out when it was removed through the overlay) -/
def muRace : FMap :=
  [("/d".toList, dirEntryNow), ("/.whiteout/d_wo".toList, fileOf []),
   ("/.whiteout/d/x_wo".toList, fileOf []), ("/.whiteout/d".toList, dirEntryNow),
   ("/.whiteout".toList, dirEntryNow), ([], dirEntryNow)]
def mlRace : FMap :=
  [("/d/x".toList, fileOf [49]), ("/d".toList, dirEntryNow), ([], dirEntryNow)]

def wRace : World :=
  { leaves := [{ kind := .mem, files := mlRace }, { kind := .mem, files := muRace }] }

def ofsRace : List VPath := layersN [1, 0] [7, 8]

theorem wRace_setting : OWN wRace [1, 0] [7, 8] [muRace, mlRace] :=
  .cons rfl (by decide) (.cons rfl (by decide) .nil)

/-- the hypotheses of `createDir_race_loser_clears_marker` hold in `wRace` (`ds = []`, `n = "d"`) -/
theorem wRace_instance :
    ∃ mu', Overlay.createDir ofsRace "/d".toList wRace
        = (.err .dirExists (some "/d".toList), wRace.setLeafFiles 1 mu') ∧
      mu'.contains (marker "/d".toList) = false ∧
      Overlay.exists_ ofsRace "/d".toList (wRace.setLeafFiles 1 mu')
        = (.ok true, wRace.setLeafFiles 1 mu') := by
  have hroot : RootOk muRace := ⟨⟨_, rfl, rfl⟩, by decide⟩
  have hanc : AncDirsN [muRace, mlRace] [] := by
    intro j h1 h2; simp at h2; omega
  obtain ⟨mu', h1, _, h2, _, _, h3, _, _⟩ :=
    createDir_race_loser_clears_marker wRace_setting [] "d".toList (by simp) (by decide) hroot hanc
      (by decide) dirEntryNow (by decide) rfl (fileOf []) (by decide) rfl
  exact ⟨mu', h1, h2, h3⟩

-- before: the overlay does not show "/d", creating "/d/y" fails in `ensure_has_parent`
example : (Overlay.exists_ ofsRace "/d".toList wRace).1 = .ok false := by decide
example : (Overlay.createDir ofsRace "/d/y".toList wRace).1 = .err .other none := by decide
-- the loser's call: `DirectoryExists`, and only the marker of "/d" leaves the write layer
example : (Overlay.createDir ofsRace "/d".toList wRace).1
    = .err .dirExists (some "/d".toList) := by decide
example : (Overlay.createDir ofsRace "/d".toList wRace).2.leaves =
    [{ kind := .mem, files := mlRace },
     { kind := .mem, files := muRace.erase "/.whiteout/d_wo".toList }] := by decide
-- after: the overlay shows "/d" (empty: the lower child stays whited out) and "/d/y" can be created
example : (Overlay.exists_ ofsRace "/d".toList
    (Overlay.createDir ofsRace "/d".toList wRace).2).1 = .ok true := by decide
example : (Overlay.readDir ofsRace "/d".toList
    (Overlay.createDir ofsRace "/d".toList wRace).2).1 = .ok [] := by decide
example : (Overlay.createDir ofsRace "/d/y".toList
    (Overlay.createDir ofsRace "/d".toList wRace).2).1 = .ok () := by decide +kernel

/-- a write layer whose marker vanishes between the probe and the removal (what a concurrent
`clear_whiteout` looks like to this caller): the probe says yes, the removal says not-found -/
def vanishFS : FS :=
  { leafFS 0 with
    exists_ := fun _ => pure true
    removeFile := fun _ => M.failK .fileNotFound }

def vanishLayers : List VPath := [{ fs := vanishFS, fsId := 0, path := [] }]

example : (clearWhiteoutT vanishLayers "/d".toList wRace).1 = .ok () := by decide
example : (clearWhiteoutT vanishLayers "/d".toList wRace).2.leaves = wRace.leaves := by decide
example : (clearWhiteout vanishLayers "/d".toList wRace).1
    = .err .fileNotFound (some "/.whiteout/d_wo".toList) := by decide
/-- the hypotheses of the second part of `clearWhiteoutT_absent_ok` are satisfiable -/
example : ∃ wo w1 w2 pth, whiteoutPath vanishLayers "/d".toList = .ok wo ∧
    wo.exists_ wRace = (.ok true, w1) ∧ wo.removeFile w1 = (.err .fileNotFound pth, w2) :=
  ⟨_, _, _, _, rfl, rfl, rfl⟩

end Vfs.C17

#print axioms Vfs.C17.createDir_race_loser_clears_marker
#print axioms Vfs.C17.race_state_hidden
#print axioms Vfs.C17.clearWhiteoutT_absent_ok
#print axioms Vfs.C17.clearWhiteoutT_absent_okN
#print axioms Vfs.C17.wRace_instance
