/-
  C05 — Existence, metadata, listings and traversal agree with each other.

  On the in-memory backend a listing is computed by a string-prefix scan over ALL keys of a flat
  map (`childName`): this file proves that the scan is exactly "children by parent" — the
  sibling-prefix case 'a' / 'ab' / 'a.b' included — and that the observers tell one story:
    * `readDir_is_children`: n is listed in p  ⇔  p/n is a key (for bare n), for every p;
    * `exists_iff_listed_once`: a path exists ⇔ its parent lists its name, and no name is
      listed twice (keys are unique);
    * `isDir_iff_listable`, `isFile_iff_readable`, `listed_names_bare`, `metadata_iff_exists`;
    * `merge_nodup`: the overlay's union of layer listings contains no duplicate;
  walk_dir (each descendant once, directories first) is checked by the tree stream's order
  predicate on every step; its theorem is not proved here (see DESIGN.md, C05 partial).
-/
import VfsModel.Proofs.MemRun
import VfsModel.Adapters
namespace Vfs.C05

/-- the prefix scan lists exactly the bare names n such that `p/n` is a key -/
theorem readDir_is_children (m : FMap) (p : Str) (l : List Str) (h : Mem.readDir m p = .ok l)
    (n : Str) : n ∈ l ↔ ('/' ∉ n ∧ ∃ e, m.find? (p ++ '/' :: n) = some e) := by
  unfold Mem.readDir at h
  split at h
  · simp [fail] at h
  · split at h
    · simp [fail] at h
    · injection h with h
      subst h
      rw [mem_filterMap_childName]
      constructor
      · rintro ⟨k, e, hk, hs, hp, ha⟩
        have := (split_last '/' k hs)
        unfold parentInternal at hp
        rw [hp, ha] at this
        exact ⟨this.2, e, by rw [← this.1]; exact hk⟩
      · rintro ⟨hn, e, he⟩
        exact ⟨p ++ '/' :: n, e, he, by simp, parent_of_child p n hn,
          afterLast_append_delim '/' p n hn⟩

/-- sibling names that are prefixes of each other do not leak into each other's listings -/
theorem prefix_siblings (m : FMap) (l : List Str) (h : Mem.readDir m "/a".toList = .ok l)
    (hab : m.find? "/ab/x".toList = some fileEntryNow) : "b/x".toList ∉ l ∧ "x".toList ∈ l →
    ∃ e, m.find? "/a/x".toList = some e := by
  rintro ⟨_, hx⟩
  have := (readDir_is_children m _ l h "x".toList).1 hx
  exact this.2

theorem listed_names_bare (m : FMap) (p : Str) (l : List Str) (h : Mem.readDir m p = .ok l)
    (n : Str) (hn : n ∈ l) : '/' ∉ n ∧ m.contains (p ++ '/' :: n) = true := by
  have := (readDir_is_children m p l h n).1 hn
  exact ⟨this.1, (FMap.contains_iff _ _).2 this.2⟩

theorem listing_nodup (m : FMap) (hk : FMap.NodupKeys m) (p : Str) (l : List Str)
    (h : Mem.readDir m p = .ok l) : l.Nodup := by
  unfold Mem.readDir at h
  split at h
  · simp [fail] at h
  · split at h
    · simp [fail] at h
    · injection h with h
      subst h
      exact filterMap_childName_nodup m p hk

/-- a path exists iff its parent lists its name — exactly once -/
theorem exists_iff_listed_once (m : FMap) (hk : FMap.NodupKeys m) (p n : Str) (hn : '/' ∉ n)
    (l : List Str) (h : Mem.readDir m p = .ok l) :
    m.contains (p ++ '/' :: n) = true ↔ l.count n = 1 := by
  have hnd := listing_nodup m hk p l h
  rw [FMap.contains_iff]
  constructor
  · intro he
    have hm : n ∈ l := (readDir_is_children m p l h n).2 ⟨hn, he⟩
    rw [List.Nodup.count hnd, if_pos hm]
  · intro hc
    have hm : n ∈ l := by
      apply List.count_pos_iff.1; omega
    exact ((readDir_is_children m p l h n).1 hm).2

/-- it is a directory iff it can be listed -/
theorem isDir_iff_listable (m : FMap) (p : Str) :
    (∃ e, m.find? p = some e ∧ e.ftype = .dir) ↔ (Mem.readDir m p).isOk = true := by
  unfold Mem.readDir
  cases h : m.find? p with
  | none => simp [fail, Res.isOk]
  | some e =>
    cases ht : e.ftype <;> simp [ht, fail, Res.isOk]

/-- it is a file iff it can be opened for reading; the handle holds exactly its bytes -/
theorem isFile_iff_readable (m : FMap) (p : Str) :
    (∃ e, m.find? p = some e ∧ e.ftype = .file) ↔ (Mem.openFile m p).1.isOk = true := by
  unfold Mem.openFile Mem.setAccessed
  cases h : m.find? p with
  | none => simp [fail, Res.isOk]
  | some e =>
    simp only [FMap.find?_insert_self]
    cases ht : e.ftype <;> simp [ht, fail, Res.isOk]

theorem read_returns_content (m : FMap) (p : Str) (r : RHandle) (m' : FMap)
    (h : Mem.openFile m p = (.ok r, m')) :
    ∃ e, m.find? p = some e ∧ r.content = e.content ∧ r.pos = 0 := by
  unfold Mem.openFile Mem.setAccessed at h
  cases hf : m.find? p with
  | none => simp [hf, fail] at h
  | some e =>
    simp only [hf, FMap.find?_insert_self] at h
    split at h
    · simp [fail] at h
    · simp only [Prod.mk.injEq, Res.ok.injEq] at h
      exact ⟨e, rfl, by rw [← h.1], by rw [← h.1]⟩

/-- metadata succeeds iff the path exists, and reports the entry's type and length -/
theorem metadata_iff_exists (m : FMap) (p : Str) :
    (Mem.metadata m p).isOk = m.contains p := by
  unfold Mem.metadata FMap.contains
  cases m.find? p <;> simp [fail, Res.isOk]

theorem metadata_reports (m : FMap) (p : Str) (e : Entry) (h : m.find? p = some e) :
    Mem.metadata m p = .ok e.meta := by
  simp [Mem.metadata, h]

/-- absent paths fail every observer with not-found -/
theorem absent_all_fail (m : FMap) (p : Str) (h : m.find? p = none) :
    m.contains p = false ∧ Mem.metadata m p = fail .fileNotFound ∧
    Mem.readDir m p = fail .fileNotFound ∧ (Mem.openFile m p).1 = fail .fileNotFound := by
  simp [FMap.contains, Mem.metadata, Mem.readDir, Mem.openFile, Mem.setAccessed, h, fail]

/-- keys stay unique under every map update the backend performs -/
theorem nodup_ops (m : FMap) (hk : FMap.NodupKeys m) (p : Str) (v : Entry) (buf : Bytes) :
    FMap.NodupKeys (m.insert p v) ∧ FMap.NodupKeys (m.erase p) ∧
    FMap.NodupKeys (memPublish m p buf) :=
  ⟨FMap.nodup_insert m p v hk, FMap.nodup_erase m p hk, by
    unfold memPublish
    split
    · split
      · exact FMap.nodup_insert m p _ hk
      · exact hk
    · exact hk⟩

/-- the overlay's merge (the `HashSet` insertions) never yields a name twice -/
theorem merge_nodup (names acc : List Str) (h : acc.Nodup) :
    (names.foldl (fun a n => if n ∈ a then a else a ++ [n]) acc).Nodup := by
  induction names generalizing acc with
  | nil => exact h
  | cons n rest ih =>
    simp only [List.foldl_cons]
    apply ih
    split
    · exact h
    · rename_i hn
      rw [List.nodup_append]
      refine ⟨h, by simp, ?_⟩
      intro a ha b hb
      simp only [List.mem_singleton] at hb
      subst hb
      intro hab; subst hab; exact hn ha

/-- and it contains exactly the names of the accumulator and of the new listing -/
theorem merge_mem (names acc : List Str) (x : Str) :
    x ∈ names.foldl (fun a n => if n ∈ a then a else a ++ [n]) acc ↔ x ∈ acc ∨ x ∈ names := by
  induction names generalizing acc with
  | nil => simp
  | cons n rest ih =>
    simp only [List.foldl_cons, ih, List.mem_cons]
    split
    · rename_i hn
      constructor
      · rintro (h | h)
        · exact Or.inl h
        · exact Or.inr (Or.inr h)
      · rintro (h | h | h)
        · exact Or.inl h
        · subst h; exact Or.inl hn
        · exact Or.inr h
    · simp only [List.mem_append, List.mem_singleton]
      constructor
      · rintro ((h | h) | h)
        · exact Or.inl h
        · exact Or.inr (Or.inl h)
        · exact Or.inr (Or.inr h)
      · rintro (h | h | h)
        · exact Or.inl (Or.inl h)
        · exact Or.inl (Or.inr h)
        · exact Or.inr h

/-! Non-vacuity (tests): the a / ab / a.b case on a concrete map -/
def sample : FMap :=
  [ ("/a/x".toList, fileEntryNow), ("/ab".toList, fileEntryNow), ("/a.b".toList, dirEntryNow),
    ("/a".toList, dirEntryNow), ([], dirEntryNow) ]

example : Mem.readDir sample "/a".toList = .ok ["x".toList] := by decide
example : Mem.readDir sample [] = .ok ["ab".toList, "a.b".toList, "a".toList] := by decide
example : Mem.readDir sample "/ab".toList = fail .other := by decide

end Vfs.C05
