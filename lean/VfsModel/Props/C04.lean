/-
  C04 — Files return exactly the bytes that were written.
  Write sessions (create / append, with writes and seeks), publication on flush and drop, chunked
  reads with arbitrary buffer sizes, io::copy, metadata length. The cursor laws themselves are
  in Props/C14.lean; this file composes them into statements about file contents.
-/
import VfsModel.Props.C14
import VfsModel.Proofs.FMapLemmas
import VfsModel.PathOps
namespace Vfs.C04
open Vfs.C14

/-- successive reads with buffer sizes `ns`: the chunks returned, and the handle afterwards -/
def chunks (r : RHandle) : List Nat → List Bytes × RHandle
  | [] => ([], r)
  | n :: ns =>
    match (r.read n).1 with
    | .ok b => ((chunks (r.read n).2 ns).1.cons b, (chunks (r.read n).2 ns).2)
    | _ => ([], r)

/-- for every sequence of buffer sizes, the concatenated chunks are exactly the next
`Σ sizes` bytes of the file (all of the rest once the sizes add up to it): nothing skipped,
repeated or reordered — this covers the 1-byte fast path of `ReadableFile::read` -/
theorem reader_chunks (r : RHandle) (ns : List Nat) (hg : Good r)
    (hlen : r.content.length < u64Max) :
    (chunks r ns).1.flatten = (r.content.drop r.pos).take ns.sum ∧
    (chunks r ns).2.content = r.content ∧ Good (chunks r ns).2 := by
  induction ns generalizing r with
  | nil => simp [chunks, hg]
  | cons n ns ih =>
    obtain ⟨h1, h2, h3⟩ := read_is_cursor r n hg hlen
    have hg' : Good (r.read n).2 := by
      unfold Good RHandle.read at *
      simp only [hg, Bool.false_eq_true, ↓reduceIte]
      split
      · exact hg
      · split <;> simp [hg]
    simp only [chunks, h1]
    obtain ⟨ih1, ih2, ih3⟩ := ih (r.read n).2 hg' (by rw [h3]; exact hlen)
    refine ⟨?_, by rw [ih2, h3], ih3⟩
    simp only [List.flatten_cons, ih1, h3, h2, List.sum_cons]
    unfold cursorRead
    rw [List.length_take, List.length_drop]
    rw [← List.drop_drop]
    have : ∀ (l : Bytes) (a b : Nat), l.take a ++ (l.drop (min a l.length)).take b = l.take (a + b) := by
      intro l a b
      by_cases ha : a ≤ l.length
      · rw [Nat.min_eq_left ha, List.take_add]
      · have hl : l.length ≤ a := by omega
        rw [Nat.min_eq_right hl, List.drop_length, List.take_nil, List.append_nil,
          List.take_of_length_le hl, List.take_of_length_le (by omega)]
    have := this (List.drop r.pos r.content) n ns.sum
    rw [List.length_drop] at this
    exact this

/-- reading the whole file with any positive buffer size returns exactly the content -/
theorem reader_whole_file (content : Bytes) (ns : List Nat) (hlen : content.length < u64Max)
    (hsum : content.length ≤ ns.sum) :
    (chunks { content := content, pos := 0 } ns).1.flatten = content := by
  have := (reader_chunks { content := content, pos := 0 } ns rfl hlen).1
  simp only [List.drop_zero] at this
  rw [this, List.take_of_length_le hsum]

/-- `read_to_end` from a fresh handle is the content -/
theorem readToEnd_fresh (content : Bytes) :
    (RHandle.readToEnd { content := content, pos := 0 }).1 = .ok content := by
  simp [RHandle.readToEnd]

/-- one `write_all(bs)` on a freshly created in-memory handle buffers exactly `bs` -/
theorem create_session_exact (leaf : Nat) (key : Str) (bs : Bytes) (w : World) :
    ∃ h', ((WHandle.write { leaf := leaf, key := key, kind := .memFile, buf := [], pos := 0 } bs) w).1
        = .ok (bs.length, h') ∧ h'.buf = bs ∧ h'.pos = bs.length := by
  refine ⟨_, rfl, ?_, ?_⟩
  · exact write_fresh bs
  · simp

/-- append starts at the end of the existing bytes: the buffer becomes `old ++ bs` -/
theorem append_session_exact (leaf : Nat) (key : Str) (old bs : Bytes) (w : World) :
    ∃ h', ((WHandle.write { leaf := leaf, key := key, kind := .memFile, buf := old, pos := old.length } bs) w).1
        = .ok (bs.length, h') ∧ h'.buf = old ++ bs := by
  exact ⟨_, rfl, write_at_end old bs⟩

/-- the append handle handed out by the in-memory backend holds the file's bytes and is
positioned at their end -/
theorem mem_append_handle (m : FMap) (path : Str) (e : Entry) (h : m.find? path = some e)
    (hf : e.ftype = .file) : Mem.appendFile m path = .ok e.content := by
  simp [Mem.appendFile, h, hf]

/-- flush (and drop) publish exactly the buffer, and a reader opened afterwards sees it -/
theorem flush_publishes (m : FMap) (key : Str) (buf : Bytes) (e0 : Entry)
    (h0 : m.find? key = some e0) (hf0 : e0.ftype = .file) :
    ∃ r m', Mem.openFile (memPublish m key buf) key = (.ok r, m') ∧ r.content = buf ∧ r.pos = 0 := by
  obtain ⟨e, he, hc, hf⟩ := publish_exact m key buf e0 h0 hf0
  unfold Mem.openFile Mem.setAccessed
  simp only [he, FMap.find?_insert_self]
  simp [hf, hc]

/-- metadata reports the length of the published bytes -/
theorem metadata_len (m : FMap) (key : Str) (buf : Bytes) (e0 : Entry)
    (h0 : m.find? key = some e0) (hf0 : e0.ftype = .file) :
    ∃ md, Mem.metadata (memPublish m key buf) key = .ok md ∧ md.len = buf.length ∧ md.ftype = .file := by
  obtain ⟨e, he, hc, hf⟩ := publish_exact m key buf e0 h0 hf0
  exact ⟨e.meta, by simp [Mem.metadata, he], by simp [Entry.meta, hc], by simp [Entry.meta, hf]⟩

/-- a directory created by `create_dir` reports length 0 -/
theorem dir_len_zero (m : FMap) (path : Str) (m' : FMap)
    (h : Mem.createDir m path = (.ok (), m')) :
    ∃ md, Mem.metadata m' path = .ok md ∧ md.len = 0 ∧ md.ftype = .dir := by
  unfold Mem.createDir at h
  split at h
  · split at h
    · simp at h
      split at h <;> simp [fail] at h
    · simp at h
      subst h
      exact ⟨dirEntryNow.meta, by simp [Mem.metadata], rfl, rfl⟩
  · simp at h
  · simp at h

/-- the physical backend reports length 0 for every directory -/
theorem phys_dir_len_zero (m : FMap) (path : Str) (md : Meta)
    (h : Phys.metadata m path = .ok md) (hd : md.ftype = .dir) : md.len = 0 := by
  unfold Phys.metadata at h
  split at h <;> try simp [fail] at h
  rename_i e _
  subst h
  simp [Entry.meta] at hd ⊢
  simp [hd]

/-- `io::copy` of a freshly opened reader into a freshly created in-memory writer, then drop:
the destination buffer is exactly the source bytes, whatever the copy buffer size -/
theorem copy_is_identity (content : Bytes) (leaf : Nat) (key selfPath : Str) (w : World) (l : Leaf)
    (hl : w.leaf? leaf = some l) :
    (VPath.ioCopyAndDrop { content := content, pos := 0 }
        { leaf := leaf, key := key, kind := .memFile, buf := [], pos := 0 } selfPath w)
      = (.ok (), w.setLeafFiles leaf (memPublish l.files key content)) := by
  simp [VPath.ioCopyAndDrop, RHandle.readToEnd, M.withPath, M.ret, Res.withPath, bind, M.bind,
    WHandle.write, WHandle.drop, WHandle.flush, hl, write_fresh]

/-! Non-vacuity -/
example : (chunks { content := [1, 2, 3, 4, 5], pos := 0 } [2, 1, 7, 3]).1 = [[1, 2], [3], [4, 5], []] := by
  decide

end Vfs.C04
