/-
  C17 — "Any number of threads calling create_dir_all concurrently on arbitrary, possibly
  overlapping paths of one filesystem (with no concurrent removals and no files in the way) all
  return success under every interleaving, and afterwards every requested path and each of its
  ancestors is a directory."

  Object: the concurrency model VfsModel/Conc.lean; `create_dir_all` is one lock region
  (`MemoryFS::create_dir`) per prefix, `DirectoryExists` tolerated (`Pt.cdaLoop`).

  EVERYTHING below is PROVED; nothing in this file is "stated, not proved".

   `create_dir_all_concurrent`   any number of threads, thread i = [create_dir_all (renderC cs_i)],
        components `GoodComp`, initial map `WF`, no prefix of any path is a file. For EVERY
        schedule: (a) the map stays `WF` and is the initial map plus directories (`Grow`: old
        entries unchanged, new entries are directories: no file appears, nothing disappears);
        (b) no thread ever records `.err`; (c) when all threads have finished every result list
        is `[Ok(())]` and every requested path and each of its prefixes is a directory.
   `create_dir_all_concurrent_progs`   the same for threads that each make a SEQUENCE of
        `create_dir_all` calls (slash-free components suffice); (c) per finished thread.
   `stepThread_cda`   the step of one thread: the region for prefix k finds its parent (prefix
        k-1, made by the thread's previous region or found, or the root) a directory, so
        `MemoryFS::create_dir` returns Ok or DirectoryExists (`createDir_ok_or_exists`), both of
        which `cdaLoop` treats as success (`region_cdaLoop_ok`); `createDir_grow`.
   `TInv`, `SInv`, `settle_inv`, `step_inv`, `run_inv`   the thread / system invariants.
   `createDir_regions_monotone`, `createDir_prefix_monotone`   the parametric remark: the three
        regions of the path-level `VfsPath::create_dir` (two probes reading facts that are
        monotone under `Grow`, then insert-or-DirectoryExists) pass on three maps that only grow.
   Non-vacuity: two threads `/a/b` and `/a/c`, five schedules evaluated by the kernel
        (`decide +kernel`), and the theorem instantiated on that system for every schedule.
-/
import VfsModel.Proofs.ConcLemmas
import VfsModel.Proofs.TransferLemmas
namespace Vfs.C17
open Vfs Vfs.Conc

/-! ## Vocabulary -/

/-- `q` is a directory of `m` -/
def IsDir (m : FMap) (q : Str) : Prop := ∃ e, m.find? q = some e ∧ e.ftype = .dir

/-- `m'` is `m` plus directories: every entry of `m` is still there unchanged, and every entry
that is new is a directory (so: the set of directories only grows, no file appears, no content
changes) -/
structure Grow (m m' : FMap) : Prop where
  keeps : ∀ k e, m.find? k = some e → m'.find? k = some e
  newDirs : ∀ k e, m'.find? k = some e → m.find? k = some e ∨ e.ftype = .dir

theorem Grow.refl (m : FMap) : Grow m m := ⟨fun _ _ h => h, fun _ _ h => Or.inl h⟩

theorem Grow.trans {a b c : FMap} (h1 : Grow a b) (h2 : Grow b c) : Grow a c := by
  refine ⟨fun k e h => h2.keeps k e (h1.keeps k e h), ?_⟩
  intro k e h
  rcases h2.newDirs k e h with h | h
  · exact h1.newDirs k e h
  · exact Or.inr h

theorem Grow.isDir {m m' : FMap} (h : Grow m m') {q : Str} (hq : IsDir m q) : IsDir m' q := by
  obtain ⟨e, he, hd⟩ := hq
  exact ⟨e, h.keeps q e he, hd⟩

/-- no file is created: a file of `m'` was the same file in `m` -/
theorem Grow.no_new_file {m m' : FMap} (h : Grow m m') (k : Str) (e : Entry)
    (he : m'.find? k = some e) (hf : e.ftype = .file) : m.find? k = some e := by
  rcases h.newDirs k e he with h' | h'
  · exact h'
  · rw [hf] at h'; cases h'

/-- `MemoryFS::create_dir` only ever adds a directory -/
theorem createDir_grow (m : FMap) (d : Str) : Grow m (Mem.createDir m d).2 := by
  unfold Mem.createDir
  split
  · split
    · exact Grow.refl m
    · rename_i hnone
      refine ⟨?_, ?_⟩
      · intro k e hk
        rw [FMap.find?_insert]
        split
        · rename_i hkd; rw [hkd, hnone] at hk; cases hk
        · exact hk
      · intro k e hk
        rw [FMap.find?_insert] at hk
        split at hk
        · injection hk with hk; subst hk; exact Or.inr rfl
        · exact Or.inl hk
  · exact Grow.refl m
  · exact Grow.refl m

/-- the one region `create_dir_all` is made of, when the parent is a directory and no file is in
the way: `Ok` or `DirectoryExists`, and afterwards the directory is there -/
theorem createDir_ok_or_exists (m : FMap) (d : Str) (hs : '/' ∈ d)
    (hp : IsDir m (parentInternal d)) (hnf : ∀ e, m.find? d = some e → e.ftype = .dir) :
    ((Mem.createDir m d).1 = .ok () ∨ ∃ p, (Mem.createDir m d).1 = .err .dirExists p) ∧
    IsDir (Mem.createDir m d).2 d := by
  cases hf : m.find? d with
  | none =>
    rw [Mem.createDir_fresh m d hs hp hf]
    exact ⟨Or.inl rfl, dirEntryNow, by simp, rfl⟩
  | some e =>
    have hd : e.ftype = .dir := hnf e hf
    have hnotfile : ¬ e.ftype = .file := by rw [hd]; decide
    rw [Mem.createDir_present m d e hs hp hf]
    simp only [hnotfile, ↓reduceIte, fail]
    exact ⟨Or.inr ⟨none, rfl⟩, e, hf, hd⟩

/-- `create_dir_all` treats `Ok` and `DirectoryExists` alike: on to the next prefix -/
theorem region_cdaLoop_ok (m : FMap) (d : Str) (rest : List Str)
    (h : (Mem.createDir m d).1 = .ok () ∨ ∃ p, (Mem.createDir m d).1 = .err .dirExists p) :
    (region m (.cdaLoop (d :: rest))).next = (if rest = [] then okUnit else .inl (.cdaLoop rest)) := by
  cases hc : Mem.createDir m d with
  | mk r m' =>
    rw [hc] at h
    rcases h with h | ⟨p, h⟩
    · simp only at h; subst h; simp only [region, hc]
    · simp only at h; subst h; simp only [region, hc]

/-! ## The prefixes of a canonical path -/

theorem ancChain_length (cs : List Str) : (ancChain cs).length = cs.length := by simp [ancChain]

theorem ancChain_drop (cs : List Str) (k : Nat) (hk : k < cs.length) :
    (ancChain cs).drop k = renderC (cs.take (k + 1)) :: (ancChain cs).drop (k + 1) := by
  rw [List.drop_eq_getElem_cons (by rw [ancChain_length]; exact hk)]
  simp [ancChain]

theorem take_succ_snoc (cs : List Str) (k : Nat) (hk : k < cs.length) :
    cs.take (k + 1) = cs.take k ++ [cs[k]] := by
  rw [List.take_add_one, List.getElem?_eq_getElem hk]; rfl

/-- prefix `k` of `/c1/…/cn`: it contains a '/', its parent is prefix `k-1` (the root for
`k = 0`) -/
theorem prefix_facts (cs : List Str) (hsl : ∀ c ∈ cs, '/' ∉ c) (k : Nat) (hk : k < cs.length) :
    '/' ∈ renderC (cs.take (k + 1)) ∧
    parentInternal (renderC (cs.take (k + 1))) = renderC (cs.take k) := by
  rw [take_succ_snoc cs k hk, renderC_snoc]
  exact ⟨by simp, parent_of_child _ _ (hsl _ (List.getElem_mem hk))⟩

/-! ## The invariant of one thread -/

/-- the call `create_dir_all` on the canonical path `/c1/…/cn` -/
def mk (cs : List Str) : COp := .createDirAll (renderC cs)

/-- every prefix of `/c1/…/cn` is a directory -/
def AllDirs (m : FMap) (cs : List Str) : Prop := ∀ q ∈ ancChain cs, IsDir m q

/-- no prefix of a path of the program is a file -/
def NoFile (m : FMap) (prog : List (List Str)) : Prop :=
  ∀ cs ∈ prog, ∀ q ∈ ancChain cs, ∀ e, m.find? q = some e → e.ftype = .dir

/-- the state of a thread whose program is `create_dir_all` on the paths `prog`, one after the
other: the calls `done` have returned `Ok` and all their prefixes are directories; the calls
`rest` have not started; in between possibly one call in progress, about to create prefix `k`,
whose prefixes `0 … k-1` are directories -/
def TInv (m : FMap) (prog : List (List Str)) (t : Thread) : Prop :=
  ∃ done rest : List (List Str),
    t.calls = rest.map mk ∧
    t.results = done.map (fun _ => CRes.ok .unit) ∧
    (∀ cs ∈ done, AllDirs m cs) ∧
    ((t.cur = none ∧ prog = done ++ rest) ∨
     (∃ cs k, prog = done ++ cs :: rest ∧ k < cs.length ∧
        t.cur = some (.cdaLoop ((ancChain cs).drop k)) ∧
        ∀ j, j < k → IsDir m (renderC (cs.take (j + 1)))))

theorem TInv.mono {m m' : FMap} {prog : List (List Str)} {t : Thread} (h : TInv m prog t)
    (hg : Grow m m') : TInv m' prog t := by
  obtain ⟨done, rest, h1, h2, h3, h4⟩ := h
  refine ⟨done, rest, h1, h2, fun cs hcs q hq => hg.isDir (h3 cs hcs q hq), ?_⟩
  rcases h4 with h4 | ⟨cs, k, h5, h6, h7, h8⟩
  · exact Or.inl h4
  · exact Or.inr ⟨cs, k, h5, h6, h7, fun j hj => hg.isDir (h8 j hj)⟩

theorem NoFile.mono {m m' : FMap} {prog : List (List Str)} (h : NoFile m prog) (hg : Grow m m') :
    NoFile m' prog := by
  intro cs hcs q hq e he
  rcases hg.newDirs q e he with h' | h'
  · exact h cs hcs q hq e h'
  · exact h'

theorem start_mk (h : Option WH) (cs : List Str) (hsl : ∀ c ∈ cs, '/' ∉ c) :
    start h (mk cs) =
      if cs = [] then .inr (.ok .unit) else .inl (.cdaLoop (ancChain cs)) := by
  cases cs with
  | nil => rfl
  | cons c cs' =>
    have hne : renderC (c :: cs') ≠ [] := by simp
    simp only [mk, start, hne, ↓reduceIte, dirPrefixes_renderC _ hsl, reduceCtorEq]

/-- bringing the thread to its next lock acquisition keeps its invariant (the calls on the root
path `""` complete without any region) -/
theorem settle_inv (m : FMap) (prog : List (List Str)) (hsl : ∀ cs ∈ prog, ∀ c ∈ cs, '/' ∉ c)
    (fuel : Nat) (t : Thread) (h : TInv m prog t) : TInv m prog (settle fuel t) := by
  induction fuel generalizing t with
  | zero => exact h
  | succ n ih =>
    unfold settle
    split
    · exact h
    · rename_i hcur
      split
      · exact h
      · rename_i c rest' hcalls
        obtain ⟨done, rest, h1, h2, h3, h4⟩ := h
        rcases h4 with ⟨_, hprog⟩ | ⟨cs, k, _, _, h7, _⟩
        · -- the next call of the program
          cases rest with
          | nil => rw [hcalls] at h1; cases h1
          | cons cs rest'' =>
            rw [hcalls] at h1
            simp only [List.map_cons, List.cons.injEq] at h1
            obtain ⟨hc, hr⟩ := h1
            have hcs : cs ∈ prog := by rw [hprog]; simp
            rw [hc, start_mk _ cs (hsl cs hcs)]
            by_cases hnil : cs = []
            · simp only [hnil, ↓reduceIte]
              apply ih
              refine ⟨done ++ [[]], rest'', hr, by simp [h2], ?_, Or.inl ⟨hcur, ?_⟩⟩
              · intro cs' hcs'
                simp only [List.mem_append, List.mem_singleton] at hcs'
                rcases hcs' with hcs' | hcs'
                · exact h3 cs' hcs'
                · subst hcs'; intro q hq; simp at hq
              · rw [hprog, hnil]; simp
            · simp only [hnil, ↓reduceIte]
              refine ⟨done, rest'', hr, h2, h3, Or.inr ⟨cs, 0, hprog, ?_, rfl, ?_⟩⟩
              · cases cs with
                | nil => exact absurd rfl hnil
                | cons _ _ => simp
              · intro j hj; cases hj
        · rw [hcur] at h7; cases h7

/-! ## One scheduled thread -/

/-- **the step of one thread**: if the map is well-formed, no prefix of the thread's paths is a
file, and the thread satisfies its invariant, then after the thread has run its next region the
map has only grown by directories, is well-formed, and the invariant holds again — in particular
the region did not fail: its parent (the previous prefix, or the root) was a directory -/
theorem stepThread_cda (m : FMap) (prog : List (List Str)) (t : Thread)
    (hsl : ∀ cs ∈ prog, ∀ c ∈ cs, '/' ∉ c) (hwf : WF m) (hnf : NoFile m prog)
    (ht : TInv m prog t) :
    Grow m (stepThread m t).1 ∧ WF (stepThread m t).1 ∧
      TInv (stepThread m t).1 prog (stepThread m t).2 := by
  have h0 : TInv m prog (settle (t.calls.length + 1) t) := settle_inv m prog hsl _ t ht
  rcases stepThread_cases m t with ⟨_, heq⟩ | ⟨pt, hcur, hstep⟩
  · rw [heq]; exact ⟨Grow.refl m, hwf, h0⟩
  · obtain ⟨done, rest, h1, h2, h3, h4⟩ := h0
    rcases h4 with ⟨hnone, _⟩ | ⟨cs, k, hprog, hk, hpt, hbefore⟩
    · rw [hnone] at hcur; cases hcur
    · rw [hcur] at hpt
      injection hpt with hpt
      have hcs : cs ∈ prog := by rw [hprog]; simp
      have hslc := hsl cs hcs
      -- the region creates prefix `k`
      rw [ancChain_drop cs k hk] at hpt
      obtain ⟨hslash, hpar⟩ := prefix_facts cs hslc k hk
      have hparent : IsDir m (parentInternal (renderC (cs.take (k + 1)))) := by
        rw [hpar]
        cases k with
        | zero => exact hwf.1
        | succ k' => exact hbefore k' (Nat.lt_succ_self k')
      have hmem : renderC (cs.take (k + 1)) ∈ ancChain cs := (mem_ancChain cs _).2 ⟨k, hk, rfl⟩
      obtain ⟨hres, hnow⟩ := createDir_ok_or_exists m _ hslash hparent
        (fun e he => hnf cs hcs _ hmem e he)
      have hnext := region_cdaLoop_ok m _ ((ancChain cs).drop (k + 1)) hres
      have hfiles : (region m pt).files = (Mem.createDir m (renderC (cs.take (k + 1)))).2 := by
        rw [region_files, hpt]; rfl
      have hgrow : Grow m (region m pt).files := by rw [hfiles]; exact createDir_grow m _
      have hwf' : WF (region m pt).files := by rw [hfiles]; exact hwf.createDir_any _
      have hnow' : IsDir (region m pt).files (renderC (cs.take (k + 1))) := by
        rw [hfiles]; exact hnow
      rw [← hpt] at hnext
      have hdone' : ∀ cs' ∈ done, AllDirs (region m pt).files cs' :=
        fun cs' hcs' q hq => hgrow.isDir (h3 cs' hcs' q hq)
      have hbefore' : ∀ j, j < k + 1 → IsDir (region m pt).files (renderC (cs.take (j + 1))) := by
        intro j hj
        rcases Nat.lt_succ_iff_lt_or_eq.1 hj with hj | hj
        · exact hgrow.isDir (hbefore j hj)
        · subst hj; exact hnow'
      by_cases hlast : (ancChain cs).drop (k + 1) = []
      · -- the last prefix: the call returns `Ok`
        rw [if_pos hlast] at hnext
        rcases hstep with ⟨pt', hn, _⟩ | ⟨r, hn, heq⟩
        · rw [hnext] at hn; cases hn
        · rw [hnext] at hn
          injection hn with hn
          rw [heq]
          refine ⟨hgrow, hwf', ?_⟩
          apply settle_inv _ _ hsl
          have hlen : cs.length ≤ k + 1 := by
            have := List.drop_eq_nil_iff.1 hlast
            rwa [ancChain_length] at this
          refine ⟨done ++ [cs], rest, by simpa using h1, by simp [h2, ← hn], ?_, Or.inl ⟨rfl, by rw [hprog]; simp⟩⟩
          intro cs' hcs'
          simp only [List.mem_append, List.mem_singleton] at hcs'
          rcases hcs' with hcs' | hcs'
          · exact hdone' cs' hcs'
          · subst hcs'
            intro q hq
            obtain ⟨j, hj, rfl⟩ := (mem_ancChain _ q).1 hq
            exact hbefore' j (by omega)
      · -- more prefixes to go
        rw [if_neg hlast] at hnext
        rcases hstep with ⟨pt', hn, heq⟩ | ⟨r, hn, _⟩
        · rw [hnext] at hn
          injection hn with hn
          rw [heq]
          refine ⟨hgrow, hwf', ?_⟩
          have hlen : k + 1 < cs.length := by
            have : ¬ (ancChain cs).length ≤ k + 1 := fun h => hlast (List.drop_eq_nil_iff.2 h)
            rw [ancChain_length] at this
            omega
          exact ⟨done, rest, by simpa using h1, by simpa using h2, hdone',
            Or.inr ⟨cs, k + 1, hprog, hlen, by rw [← hn], hbefore'⟩⟩
        · rw [hnext] at hn; cases hn

/-! ## The whole system -/

/-- the invariant of the system whose thread `i` runs `create_dir_all` on the paths `progs[i]`,
started on the map `m0` -/
structure SInv (m0 : FMap) (progs : List (List (List Str))) (s : Sys) : Prop where
  wf : WF s.files
  grow : Grow m0 s.files
  nofile : ∀ prog ∈ progs, NoFile s.files prog
  len : s.threads.length = progs.length
  thr : ∀ (i : Nat) (prog : List (List Str)) (t : Thread),
    progs[i]? = some prog → s.threads[i]? = some t → TInv s.files prog t

theorem step_inv (m0 : FMap) (progs : List (List (List Str)))
    (hsl : ∀ prog ∈ progs, ∀ cs ∈ prog, ∀ c ∈ cs, '/' ∉ c) (s : Sys) (tid : Nat)
    (h : SInv m0 progs s) : SInv m0 progs (step s tid) := by
  cases hg : s.threads[tid]? with
  | none => rw [step_of_none s tid hg]; exact h
  | some t =>
    rw [step_of_some s tid t hg]
    have htid : tid < progs.length := by
      rw [← h.len]; exact (List.getElem?_eq_some_iff.1 hg).1
    have hprog : progs[tid]? = some progs[tid] := List.getElem?_eq_getElem htid
    have hmem : progs[tid] ∈ progs := List.getElem_mem htid
    obtain ⟨hgrow, hwf, hinv⟩ := stepThread_cda s.files progs[tid] t (hsl _ hmem) h.wf
      (h.nofile _ hmem) (h.thr tid _ t hprog hg)
    refine ⟨hwf, h.grow.trans hgrow, fun prog hp => (h.nofile prog hp).mono hgrow,
      by simp [h.len], ?_⟩
    intro i prog t' hp ht'
    simp only [List.getElem?_set] at ht'
    split at ht'
    · rename_i hi
      subst hi
      split at ht'
      · injection ht' with ht'
        subst ht'
        rw [hprog] at hp
        injection hp with hp
        subst hp
        exact hinv
      · cases ht'
    · exact (h.thr i prog t' hp ht').mono hgrow

theorem init_inv (m : FMap) (progs : List (List (List Str))) (hm : WF m)
    (hnf : ∀ prog ∈ progs, NoFile m prog) :
    SInv m progs { files := m, threads := progs.map fun prog => { calls := prog.map mk } } := by
  refine ⟨hm, Grow.refl m, hnf, by simp, ?_⟩
  intro i prog t hp ht
  simp only [List.getElem?_map, hp, Option.map_some, Option.some.injEq] at ht
  subst ht
  exact ⟨[], prog, rfl, rfl, by simp, Or.inl ⟨rfl, rfl⟩⟩

theorem run_inv (m : FMap) (progs : List (List (List Str))) (hm : WF m)
    (hsl : ∀ prog ∈ progs, ∀ cs ∈ prog, ∀ c ∈ cs, '/' ∉ c)
    (hnf : ∀ prog ∈ progs, NoFile m prog) (schedule : List Nat) :
    SInv m progs
      (run { files := m, threads := progs.map fun prog => { calls := prog.map mk } } schedule) :=
  run_invariant (SInv m progs) (fun s tid h => step_inv m progs hsl s tid h) _
    (init_inv m progs hm hnf) schedule

/-- a thread has finished: no call in progress, no call left -/
def Finished (t : Thread) : Prop := t.cur = none ∧ t.calls = []

/-- what the thread invariant says about results, at any time: never an error -/
theorem TInv.results_ok {m : FMap} {prog : List (List Str)} {t : Thread} (h : TInv m prog t) :
    ∀ r ∈ t.results, r = .ok .unit := by
  obtain ⟨done, rest, _, h2, _, _⟩ := h
  intro r hr
  rw [h2] at hr
  simp only [List.mem_map] at hr
  obtain ⟨_, _, rfl⟩ := hr
  rfl

/-- … and about a finished thread: one `Ok` per call, every prefix of every path a directory -/
theorem TInv.finished {m : FMap} {prog : List (List Str)} {t : Thread} (h : TInv m prog t)
    (hf : Finished t) :
    t.results = prog.map (fun _ => CRes.ok .unit) ∧ ∀ cs ∈ prog, AllDirs m cs := by
  obtain ⟨done, rest, h1, h2, h3, h4⟩ := h
  rcases h4 with ⟨_, hprog⟩ | ⟨cs, k, _, _, h7, _⟩
  · rw [hf.2] at h1
    have : rest = [] := by simpa using h1.symm
    subst this
    simp only [List.append_nil] at hprog
    subst hprog
    exact ⟨h2, h3⟩
  · rw [hf.1] at h7; cases h7

/-- **create_dir_all_concurrent, general form**: any number of threads, thread `i` calling
`create_dir_all` on the canonical paths `progs[i]` one after the other; the initial map is
well-formed and no prefix of any path is a file. Then under EVERY schedule, at every moment:
(a) the map is well-formed and is the initial map plus directories;
(b) no thread has recorded an error;
(c) every finished thread has one `Ok` per call, and every prefix of each of its paths (the
    path itself included) is a directory. -/
theorem create_dir_all_concurrent_progs (m : FMap) (progs : List (List (List Str))) (hm : WF m)
    (hsl : ∀ prog ∈ progs, ∀ cs ∈ prog, ∀ c ∈ cs, '/' ∉ c)
    (hnf : ∀ prog ∈ progs, ∀ cs ∈ prog, ∀ q ∈ VPath.dirPrefixes (renderC cs), ∀ e,
      m.find? q = some e → e.ftype = .dir)
    (schedule : List Nat) :
    let s := run { files := m, threads := progs.map fun prog => { calls := prog.map mk } } schedule
    (WF s.files ∧ Grow m s.files) ∧
    (∀ t ∈ s.threads, ∀ r ∈ t.results, r = .ok .unit) ∧
    (∀ (i : Nat) (prog : List (List Str)) (t : Thread),
      progs[i]? = some prog → s.threads[i]? = some t → Finished t →
      t.results = prog.map (fun _ => CRes.ok .unit) ∧
      ∀ cs ∈ prog, ∀ q ∈ VPath.dirPrefixes (renderC cs), IsDir s.files q) := by
  intro s
  have hnf' : ∀ prog ∈ progs, NoFile m prog := by
    intro prog hp cs hcs q hq e he
    exact hnf prog hp cs hcs q (by rw [dirPrefixes_renderC cs (hsl prog hp cs hcs)]; exact hq) e he
  have hinv : SInv m progs s := run_inv m progs hm hsl hnf' schedule
  refine ⟨⟨hinv.wf, hinv.grow⟩, ?_, ?_⟩
  · intro t ht
    obtain ⟨i, hi⟩ := List.mem_iff_getElem?.1 ht
    have hlt : i < progs.length := by rw [← hinv.len]; exact (List.getElem?_eq_some_iff.1 hi).1
    exact (hinv.thr i _ t (List.getElem?_eq_getElem hlt) hi).results_ok
  · intro i prog t hp ht hf
    obtain ⟨h1, h2⟩ := (hinv.thr i prog t hp ht).finished hf
    refine ⟨h1, ?_⟩
    intro cs hcs q hq
    have hp' : prog ∈ progs := List.mem_of_getElem? hp
    rw [dirPrefixes_renderC cs (hsl prog hp' cs hcs)] at hq
    exact h2 cs hcs q hq

/-- **create_dir_all_concurrent** (C17): any number of threads, thread `i` = one call of
`create_dir_all` on the canonical path `p_i = renderC cs_i` (components `GoodComp`: non-empty,
no '/', not "." or ".."); the paths may overlap in any way. The initial map is well-formed and
no prefix of any `p_i` is a file; the programs contain nothing else, so nothing is removed and
no file is created. Then for EVERY schedule:
(a) the map stays well-formed and only grows by directories (`Grow`: old entries unchanged,
    new entries are directories — no file ever appears, no directory disappears);
(b) no thread ever records an error;
(c) once all threads have finished, every thread has returned exactly `Ok(())`, and every
    requested path and each of its ancestors is a directory. -/
theorem create_dir_all_concurrent (m : FMap) (paths : List (List Str)) (hm : WF m)
    (hgood : ∀ cs ∈ paths, ∀ c ∈ cs, GoodComp c)
    (hnf : ∀ cs ∈ paths, ∀ q ∈ VPath.dirPrefixes (renderC cs), ∀ e,
      m.find? q = some e → e.ftype = .dir)
    (schedule : List Nat) :
    let s := run { files := m,
                   threads := paths.map fun cs => { calls := [.createDirAll (renderC cs)] } } schedule
    (WF s.files ∧ Grow m s.files) ∧
    (∀ t ∈ s.threads, ∀ r ∈ t.results, r = .ok .unit) ∧
    ((∀ t ∈ s.threads, Finished t) →
      (∀ t ∈ s.threads, t.results = [.ok .unit]) ∧
      (∀ cs ∈ paths, IsDir s.files (renderC cs) ∧
        ∀ q ∈ VPath.dirPrefixes (renderC cs), IsDir s.files q)) := by
  intro s
  have hsl : ∀ prog ∈ paths.map (fun cs => [cs]), ∀ cs ∈ prog, ∀ c ∈ cs, '/' ∉ c := by
    intro prog hp cs hcs c hc
    simp only [List.mem_map] at hp
    obtain ⟨cs', hcs', rfl⟩ := hp
    simp only [List.mem_singleton] at hcs
    subst hcs
    exact (hgood cs hcs' c hc).2.1
  have hnf' : ∀ prog ∈ paths.map (fun cs => [cs]), ∀ cs ∈ prog,
      ∀ q ∈ VPath.dirPrefixes (renderC cs), ∀ e, m.find? q = some e → e.ftype = .dir := by
    intro prog hp cs hcs
    simp only [List.mem_map] at hp
    obtain ⟨cs', hcs', rfl⟩ := hp
    simp only [List.mem_singleton] at hcs
    subst hcs
    exact hnf cs hcs'
  have hs : s = run { files := m,
                      threads := List.map (fun prog => { calls := prog.map mk })
                        (paths.map (fun cs => [cs])) } schedule := by
    simp only [s, List.map_map]
    rfl
  obtain ⟨ha, hb, hc⟩ := create_dir_all_concurrent_progs m (paths.map (fun cs => [cs])) hm hsl hnf'
    schedule
  rw [← hs] at ha hb hc
  refine ⟨ha, hb, ?_⟩
  intro hfin
  have hlen : s.threads.length = paths.length := by
    have := (run_inv m (paths.map (fun cs => [cs])) hm hsl (by
      intro prog hp cs hcs q hq e he
      exact hnf' prog hp cs hcs q (by rw [dirPrefixes_renderC cs (hsl prog hp cs hcs)]; exact hq) e he)
      schedule).len
    rw [← hs] at this
    simpa using this
  refine ⟨?_, ?_⟩
  · intro t ht
    obtain ⟨i, hi⟩ := List.mem_iff_getElem?.1 ht
    have hlt : i < paths.length := by rw [← hlen]; exact (List.getElem?_eq_some_iff.1 hi).1
    have hp : (paths.map (fun cs => [cs]))[i]? = some [paths[i]] := by
      simp [List.getElem?_eq_getElem hlt]
    exact (hc i _ t hp hi (hfin t ht)).1
  · intro cs hcs
    obtain ⟨i, hi⟩ := List.mem_iff_getElem?.1 hcs
    have hlt : i < s.threads.length := by rw [hlen]; exact (List.getElem?_eq_some_iff.1 hi).1
    have ht : s.threads[i]? = some s.threads[i] := List.getElem?_eq_getElem hlt
    have hp : (paths.map (fun cs => [cs]))[i]? = some [cs] := by simp [hi]
    have hall := (hc i _ _ hp ht (hfin _ (List.getElem_mem hlt))).2 cs (by simp)
    refine ⟨?_, hall⟩
    by_cases hnil : cs = []
    · subst hnil; exact ha.1.1
    · apply hall
      rw [dirPrefixes_renderC cs (fun c hc => (hgood cs hcs c hc).2.1)]
      exact renderC_mem_ancChain cs hnil

/-! ## The same argument for the path-level `create_dir` (parametric remark)

The proof above only uses: the regions before the last one READ facts that are monotone under
`Grow` ("the parent is a directory"), and the last region is "insert, or `DirectoryExists`".
`VfsPath::create_dir` has exactly this shape (`exists(parent)`, `metadata(parent)`,
`MemoryFS::create_dir`), so a thread that walks the prefixes with `VfsPath::create_dir` and
tolerates `DirectoryExists` (what AltrootFS does through its inner `VfsPath`) cannot fail either,
as long as the other threads only add directories. -/

theorem createDir_regions_monotone (p : Str) (hs : '/' ∈ p) (m1 m2 m3 : FMap)
    (g12 : Grow m1 m2) (g23 : Grow m2 m3) (hp : IsDir m1 (parentInternal p))
    (hnf : ∀ e, m3.find? p = some e → e.ftype = .dir) :
    (region m1 (.gpExists p false none)).next = .inl (.gpMeta p false none) ∧
    (region m2 (.gpMeta p false none)).next = .inl (.cdCreate p) ∧
    ((Mem.createDir m3 p).1 = .ok () ∨ ∃ q, (Mem.createDir m3 p).1 = .err .dirExists q) ∧
    (region m3 (.cdCreate p)).files = (Mem.createDir m3 p).2 ∧
    IsDir (Mem.createDir m3 p).2 p ∧ Grow m3 (Mem.createDir m3 p).2 := by
  have hp2 : IsDir m2 (parentInternal p) := g12.isDir hp
  have hp3 : IsDir m3 (parentInternal p) := g23.isDir hp2
  obtain ⟨h1, h2⟩ := createDir_ok_or_exists m3 p hs hp3 hnf
  refine ⟨?_, ?_, h1, ?_, h2, createDir_grow m3 p⟩
  · rw [(gp_ok m1 p false none hp).1]
  · rw [(gp_ok m2 p false none hp2).2]; rfl
  · rw [region_cdCreate]

/-- … at prefix `k` of a canonical path: if prefix `k-1` was a directory when the thread started
on prefix `k` (it made it itself, or found it), the three regions of `VfsPath::create_dir` on
prefix `k` pass, whatever directories the other threads add in between -/
theorem createDir_prefix_monotone (cs : List Str) (hsl : ∀ c ∈ cs, '/' ∉ c) (k : Nat)
    (hk : k < cs.length) (m1 m2 m3 : FMap) (g12 : Grow m1 m2) (g23 : Grow m2 m3)
    (hprev : IsDir m1 (renderC (cs.take k)))
    (hnf : ∀ e, m3.find? (renderC (cs.take (k + 1))) = some e → e.ftype = .dir) :
    let p := renderC (cs.take (k + 1))
    (region m1 (.gpExists p false none)).next = .inl (.gpMeta p false none) ∧
    (region m2 (.gpMeta p false none)).next = .inl (.cdCreate p) ∧
    ((Mem.createDir m3 p).1 = .ok () ∨ ∃ q, (Mem.createDir m3 p).1 = .err .dirExists q) ∧
    IsDir (Mem.createDir m3 p).2 p := by
  intro p
  obtain ⟨hslash, hpar⟩ := prefix_facts cs hsl k hk
  obtain ⟨h1, h2, h3, _, h5, _⟩ := createDir_regions_monotone p hslash m1 m2 m3 g12 g23
    (by rw [hpar]; exact hprev) hnf
  exact ⟨h1, h2, h3, h5⟩

/-! ## Non-vacuity: two threads, overlapping paths, several schedules -/

def cA : Str := ['a']
def cB : Str := ['b']
def cC : Str := ['c']
def pA : Str := ['/', 'a']
def pAB : Str := ['/', 'a', '/', 'b']
def pAC : Str := ['/', 'a', '/', 'c']

/-- T0 = `create_dir_all("/a/b")`, T1 = `create_dir_all("/a/c")` on a fresh MemoryFS -/
def ex : Sys :=
  { files := Mem.init, threads := [{ calls := [.createDirAll pAB] }, { calls := [.createDirAll pAC] }] }

/-- every thread returned `Ok(())`, and "/a", "/a/b", "/a/c" are directories -/
def allOkAllDirs (s : Sys) : Prop :=
  s.threads.map (·.results) = [[.ok .unit], [.ok .unit]] ∧
  [pA, pAB, pAC].map (fun q => (s.files.find? q).map (·.ftype)) = [some .dir, some .dir, some .dir]

instance (s : Sys) : Decidable (allOkAllDirs s) := by unfold allOkAllDirs; exact inferInstance

example : renderC [cA, cB] = pAB ∧ renderC [cA, cC] = pAC := by decide
example : allOkAllDirs (run ex [0, 0, 1, 1]) := by decide +kernel
example : allOkAllDirs (run ex [0, 1, 0, 1]) := by decide +kernel
example : allOkAllDirs (run ex [1, 0, 0, 1]) := by decide +kernel
example : allOkAllDirs (run ex [1, 1, 0, 0, 1, 0]) := by decide +kernel
/-- "/a" is created by the thread that comes first; the other one sees `DirectoryExists` -/
example : (run ex [0, 1]).files.keys = [pA, []] ∧
    (run ex [0, 1]).threads.map (·.cur) = [some (.cdaLoop [pAB]), some (.cdaLoop [pAC])] := by
  decide +kernel

theorem init_only_dirs (q : Str) (e : Entry) (h : Mem.init.find? q = some e) : e.ftype = .dir := by
  simp only [Mem.init, FMap.find?_cons, FMap.find?_nil] at h
  split at h
  · injection h with h; subst h; rfl
  · cases h

/-- the hypotheses of `create_dir_all_concurrent` are satisfiable: the theorem applied to the
example, for every schedule -/
example (schedule : List Nat) :
    WF (run ex schedule).files ∧ Grow Mem.init (run ex schedule).files ∧
    (∀ t ∈ (run ex schedule).threads, ∀ r ∈ t.results, r = .ok .unit) ∧
    ((∀ t ∈ (run ex schedule).threads, Finished t) →
      IsDir (run ex schedule).files pA ∧ IsDir (run ex schedule).files pAB ∧
      IsDir (run ex schedule).files pAC) := by
  obtain ⟨⟨h1, h2⟩, h3, h4⟩ := create_dir_all_concurrent Mem.init [[cA, cB], [cA, cC]] WF.init_mem
    (by decide) (fun _ _ q _ e he => init_only_dirs q e he) schedule
  refine ⟨h1, h2, h3, ?_⟩
  intro hfin
  obtain ⟨_, h5⟩ := h4 hfin
  have hab := h5 [cA, cB] (by simp)
  have hac := h5 [cA, cC] (by simp)
  exact ⟨hab.2 pA (by decide), hab.1, hac.1⟩

end Vfs.C17
